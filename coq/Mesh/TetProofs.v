(* Mesh/TetProofs.v -- proofs about Mesh/TetModel.v (C15) and the shape machinery shared with the hex kernel
   (C16): the valence shape of faces and cells as an invariant of histories, the contracts of the
   get_cell_vertices family and of the two opposite maps on well-formed tetrahedra, the tet vertex iterator,
   and the collapse_edge facts that are proved (see Props/Properties_C15.v for what is _partial). *)
From Coq Require Import ZArith Lia Bool Arith List ZifyNat ZifyBool.
From OVM Require Import Base.ListX Kernel.State Kernel.Ops Kernel.DeferredDelete Mesh.TetModel.
Import ListNotations.
Ltac Zify.zify_post_hook ::= Z.div_mod_to_equations.
Local Open Scope nat_scope.

(* ================================================================== 1. valence shape *)

(* every STORED face has kf halfedges and every STORED cell kc halffaces (deferred-deleted entities included,
   which is stronger than the statement about live entities) *)
Definition kshape (kf kc : nat) (s : mesh) : Prop :=
  Forall (fun f => length f = kf) (faces s) /\ Forall (fun c => length c = kc) (cells s).

Definition same_fc (s t : mesh) : Prop := faces t = faces s /\ cells t = cells s /\ deferred t = deferred s.

Lemma same_fc_refl s : same_fc s s. Proof. repeat split; reflexivity. Qed.
Lemma same_fc_trans s t u : same_fc s t -> same_fc t u -> same_fc s u.
Proof. intros (a&b&e) (c&d&f). repeat split; congruence. Qed.
Lemma kshape_same kf kc s t : same_fc s t -> kshape kf kc s -> kshape kf kc t.
Proof. intros (a&b&_) [c d]. split; [rewrite a | rewrite b]; assumption. Qed.

Lemma kshape_live kf kc s : kshape kf kc s ->
  (forall f, f < nf s -> length (face_at s f) = kf) /\ (forall c, c < nc s -> length (cell_at s c) = kc).
Proof.
  intros [F C]. rewrite Forall_forall in F, C. split; intros i Hi.
  - apply F. apply nth_In. exact Hi.
  - apply C. apply nth_In. exact Hi.
Qed.

(* ---- operations that do not touch the face and cell definitions *)
Lemma fc_set_props k x s : same_fc s (set_props k x s). Proof. repeat split; reflexivity. Qed.
Lemma fc_resize_props k n s : same_fc s (resize_props k n s). Proof. repeat split; reflexivity. Qed.
Lemma fc_swap_prop k i j s : same_fc s (swap_prop_elems k i j s). Proof. repeat split; reflexivity. Qed.

Ltac fc_ifs := unfold same_fc; cbv zeta; cbn [fst snd];
  repeat match goal with |- context [if ?b then _ else _] => destruct b end; repeat split; reflexivity.

Lemma fc_add_vertex s : same_fc s (fst (add_vertex s)).
Proof. unfold add_vertex. fc_ifs. Qed.

Lemma fc_add_n_vertices n : forall s, same_fc s (add_n_vertices n s).
Proof.
  induction n as [|n IH]; intros s; [apply same_fc_refl|].
  simpl. eapply same_fc_trans; [apply fc_add_vertex | apply IH].
Qed.

Lemma fc_append_edge s a b : same_fc s (fst (append_edge s a b)).
Proof. unfold append_edge. fc_ifs. Qed.

Lemma fc_add_edge s a b d : same_fc s (fst (add_edge s a b d)).
Proof.
  unfold add_edge. destruct d; [apply fc_append_edge|].
  destruct (find_dup_edge s a b); [apply same_fc_refl | apply fc_append_edge].
Qed.

Lemma fc_reorder_one e s : same_fc s (reorder_incident_halffaces e s).
Proof. unfold reorder_incident_halffaces. destruct (reorder_list s e); repeat split; reflexivity. Qed.

Lemma fc_reorder_edges es : forall s, same_fc s (reorder_edges es s).
Proof.
  unfold reorder_edges. induction es as [|e es IH]; intros s; [apply same_fc_refl|].
  simpl. eapply same_fc_trans; [apply fc_reorder_one | apply IH].
Qed.

(* ---- appending a face / a cell *)
Lemma faces_append_face s hes : faces (fst (append_face s hes)) = faces s ++ [hes] /\ cells (fst (append_face s hes)) = cells s /\
  deferred (fst (append_face s hes)) = deferred s.
Proof.
  unfold append_face. cbv zeta. cbn [fst].
  repeat match goal with |- context [if ?b then _ else _] => destruct b end; repeat split; reflexivity.
Qed.

Lemma kshape_append_face kf kc s hes : kshape kf kc s -> length hes = kf -> kshape kf kc (fst (append_face s hes)).
Proof.
  intros [F C] L. destruct (faces_append_face s hes) as (a&b&_). split.
  - rewrite a. apply Forall_app. split; [assumption | constructor; [assumption | constructor]].
  - rewrite b. assumption.
Qed.

Lemma kshape_add_face kf kc s hes chk : kshape kf kc s -> length hes = kf -> kshape kf kc (fst (add_face s hes chk)).
Proof.
  intros K L. unfold add_face. destruct (chk && negb (loop_ok s hes)); [exact K|].
  pose proof (kshape_append_face kf kc s hes K L) as H. destruct (append_face s hes); exact H.
Qed.

Lemma fc_append_cell s hfs : faces (fst (append_cell s hfs)) = faces s /\ cells (fst (append_cell s hfs)) = cells s ++ [hfs] /\
  deferred (fst (append_cell s hfs)) = deferred s.
Proof.
  unfold append_cell. cbn [fst]. destruct (fbu (resize_cprops (S (nc s)) (set_cdel (cdel s ++ [false]) (set_cells (cells s ++ [hfs]) s)))) eqn:E.
  - match goal with |- context [if ebu ?x then _ else _] => destruct (ebu x) end; cbn [fst].
    + match goal with |- context [reorder_edges ?es ?x] => destruct (fc_reorder_edges es x) as (a&b&c) end.
      rewrite a, b, c. repeat split; reflexivity.
    + repeat split; reflexivity.
  - repeat split; reflexivity.
Qed.

Lemma kshape_add_cell kf kc s hfs chk : kshape kf kc s -> length hfs = kc -> kshape kf kc (fst (add_cell s hfs chk)).
Proof.
  intros [F C] L. unfold add_cell. destruct (chk && negb (cell_check s hfs)); [split; assumption|].
  destruct (fc_append_cell s hfs) as (a&b&_). destruct (append_cell s hfs) as [s' c]. cbn [fst] in *. split.
  - rewrite a. assumption.
  - rewrite b. apply Forall_app. split; [assumption | constructor; [assumption | constructor]].
Qed.

(* ---- add_face from vertices: as many halfedges as vertices *)
Lemma add_face_v_step_fc v w acc : same_fc (fst acc) (fst (add_face_v_step v w acc)) /\
  length (snd (add_face_v_step v w acc)) = S (length (snd acc)).
Proof.
  destruct acc as [s hes]. unfold add_face_v_step. pose proof (fc_add_edge s v w false) as H.
  destruct (add_edge s v w false) as [s' e]. cbn [fst snd] in *. split; [exact H|]. rewrite app_length. simpl. lia.
Qed.

Lemma add_face_v_edges_fc first : forall vs acc,
  same_fc (fst acc) (fst (add_face_v_edges first vs acc)) /\
  length (snd (add_face_v_edges first vs acc)) = length vs + length (snd acc).
Proof.
  induction vs as [|v t IH]; intros acc; [split; [apply same_fc_refl | reflexivity]|].
  cbn [add_face_v_edges]. destruct t as [|w t'].
  - destruct (add_face_v_step_fc v first acc) as [a b]. split; [exact a | simpl; lia].
  - destruct (add_face_v_step_fc v w acc) as [a b].
    destruct (IH (add_face_v_step v w acc)) as [c d]. split.
    + eapply same_fc_trans; eassumption.
    + rewrite d, b. simpl. lia.
Qed.

Lemma kshape_add_face_v kf kc s vs : kshape kf kc s -> length vs = kf -> kshape kf kc (fst (add_face_v s vs)).
Proof.
  intros K L. unfold add_face_v. destruct vs as [|first t]; [exact K|].
  destruct (add_face_v_edges_fc first (first :: t) (s, [])) as [a b].
  destruct (add_face_v_edges first (first :: t) (s, [])) as [s1 hes]. cbn [fst snd] in *.
  apply kshape_add_face; [eapply kshape_same; eassumption | simpl in *; lia].
Qed.

(* ---- further base-kernel operations that keep the face and cell definitions *)
Lemma fc_set_edge s e a b : same_fc s (set_edge s e a b).
Proof. unfold set_edge. destruct (edge_at s e). fc_ifs. Qed.

Lemma fc_enable_vbu b s : same_fc s (enable_vbu b s).
Proof. unfold enable_vbu. fc_ifs. Qed.

Lemma fc_enable_ebu b s : same_fc s (enable_ebu b s).
Proof.
  unfold enable_ebu. cbv zeta.
  destruct (b && negb (ebu s)).
  - match goal with |- context [if fbu ?x then reorder_edges ?es ?x else ?x] =>
      assert (H : same_fc s (if fbu x then reorder_edges es x else x)) by
        (destruct (fbu x); [eapply same_fc_trans; [| apply fc_reorder_edges]; repeat split; reflexivity | repeat split; reflexivity]);
      destruct H as (H1&H2&H3); set (y := if fbu x then reorder_edges es x else x) in * end.
    destruct (negb b); repeat split; cbn; assumption.
  - destruct (negb b); repeat split; reflexivity.
Qed.

Lemma fc_enable_fbu b s : same_fc s (enable_fbu b s).
Proof.
  unfold enable_fbu. cbv zeta.
  match goal with |- same_fc s (if ?c then reorder_edges ?es ?x else ?x) =>
    assert (H : same_fc s x) by (destruct (b && negb (fbu s)), (negb b); repeat split; reflexivity);
    destruct c; [eapply same_fc_trans; [exact H | apply fc_reorder_edges] | exact H] end.
Qed.

Lemma fc_dstep s t a b c d : dstep s t a b c d -> same_fc s t.
Proof. intros (_&_&F&C&_&_&_&_&_&_&_&_&(_&_&_&D&_)&_). repeat split; assumption. Qed.

(* ================================================================== 2. the tet operations keep the shape *)

Definition tet_shape (s : mesh) : Prop := kshape 3 4 s.

Lemma shape_tet_add_face s hes chk : tet_shape s -> tet_shape (fst (tet_add_face s hes chk)).
Proof.
  intros K. unfold tet_add_face. destruct (Nat.eqb_spec (length hes) 3) as [E|E]; cbn [negb].
  - apply kshape_add_face; assumption.
  - exact K.
Qed.

Lemma shape_tet_add_face_v s vs : tet_shape s -> tet_shape (fst (tet_add_face_v s vs)).
Proof.
  intros K. unfold tet_add_face_v. destruct (Nat.eqb_spec (length vs) 3) as [E|E]; cbn [negb].
  - apply kshape_add_face_v; assumption.
  - exact K.
Qed.

Lemma shape_tet_add_cell s hfs chk : tet_shape s -> tet_shape (fst (tet_add_cell s hfs chk)).
Proof.
  intros K. unfold tet_add_cell. destruct (Nat.eqb_spec (length hfs) 4) as [E|E]; cbn [negb]; [|exact K].
  destruct (negb (forallb _ hfs)); [exact K|]. destruct (chk && negb _); [exact K|]. apply kshape_add_cell; assumption.
Qed.

Lemma fc_tet_add_halfedge s a b : same_fc s (fst (tet_add_halfedge s a b)).
Proof.
  unfold tet_add_halfedge. destruct (find_halfedge s a b); [apply same_fc_refl|].
  pose proof (fc_add_edge s a b false) as H. destruct (add_edge s a b false). exact H.
Qed.

Lemma shape_tet_add_halfface s hes chk : tet_shape s -> tet_shape (fst (tet_add_halfface s hes chk)).
Proof.
  intros K. unfold tet_add_halfface. destruct (find_halfface_hes s _ _); [exact K|].
  pose proof (shape_tet_add_face s hes chk K) as H. destruct (tet_add_face s hes chk). exact H.
Qed.

Lemma shape_tet_add_halfface_v s a b c chk : tet_shape s -> tet_shape (fst (tet_add_halfface_v s a b c chk)).
Proof.
  intros K. unfold tet_add_halfface_v.
  pose proof (fc_tet_add_halfedge s a b) as H1. destruct (tet_add_halfedge s a b) as [s1 h0].
  pose proof (fc_tet_add_halfedge s1 b c) as H2. destruct (tet_add_halfedge s1 b c) as [s2 h1].
  pose proof (fc_tet_add_halfedge s2 c a) as H3. destruct (tet_add_halfedge s2 c a) as [s3 h2].
  cbn [fst] in *. apply shape_tet_add_halfface.
  eapply kshape_same; [| exact K]. eapply same_fc_trans; [eapply same_fc_trans|]; eassumption.
Qed.

Lemma shape_find_or_add_face_v s a b c : tet_shape s -> tet_shape (fst (find_or_add_face_v s a b c)).
Proof.
  intros K. unfold find_or_add_face_v. destruct (find_halfface_vs s a b c); [exact K|].
  pose proof (kshape_add_face_v 3 4 s [a; b; c] K eq_refl) as H.
  destruct (add_face_v s [a; b; c]) as [s' [f|]]; exact H.
Qed.

Lemma shape_tet_add_cell_v s vs chk : tet_shape s -> tet_shape (fst (tet_add_cell_v s vs chk)).
Proof.
  intros K. unfold tet_add_cell_v.
  destruct vs as [|v0 [|v1 [|v2 [|v3 [|]]]]]; try exact K.
  destruct (negb (full_bu s)); [exact K|].
  pose proof (shape_find_or_add_face_v s v0 v1 v2 K) as K1. destruct (find_or_add_face_v s v0 v1 v2) as [s1 hf0].
  pose proof (shape_find_or_add_face_v s1 v0 v2 v3 K1) as K2. destruct (find_or_add_face_v s1 v0 v2 v3) as [s2 hf1].
  pose proof (shape_find_or_add_face_v s2 v0 v3 v1 K2) as K3. destruct (find_or_add_face_v s2 v0 v3 v1) as [s3 hf2].
  pose proof (shape_find_or_add_face_v s3 v1 v3 v2 K3) as K4. destruct (find_or_add_face_v s3 v1 v3 v2) as [s4 hf3].
  cbn [fst] in *.
  destruct (chk && negb (closed_by_sets s4 [hf0; hf1; hf2; hf3])); [exact K4|].
  destruct (chk && fbu s4 && existsb _ [hf0; hf1; hf2; hf3]); [exact K4|].
  apply kshape_add_cell; [exact K4 | reflexivity].
Qed.

Lemma shape_tet_add_cell_4 s v0 v1 v2 v3 chk r : tet_shape s ->
  tet_add_cell_4 s v0 v1 v2 v3 chk = Some r -> tet_shape (fst r).
Proof.
  intros K. unfold tet_add_cell_4.
  pose proof (shape_tet_add_halfface_v s v0 v1 v2 false K) as K1. destruct (tet_add_halfface_v s v0 v1 v2 false) as [s1 a].
  pose proof (shape_tet_add_halfface_v s1 v0 v2 v3 false K1) as K2. destruct (tet_add_halfface_v s1 v0 v2 v3 false) as [s2 b].
  pose proof (shape_tet_add_halfface_v s2 v0 v3 v1 false K2) as K3. destruct (tet_add_halfface_v s2 v0 v3 v1 false) as [s3 c].
  pose proof (shape_tet_add_halfface_v s3 v1 v3 v2 false K3) as K4. destruct (tet_add_halfface_v s3 v1 v3 v2 false) as [s4 d].
  cbn [fst] in *. destruct a, b, c, d; try discriminate. intros E. inversion E. apply shape_tet_add_cell. exact K4.
Qed.

(* ---- the deferred-deletion flag is not touched by the additions *)
Lemma dfl_add_face s hes chk : deferred (fst (add_face s hes chk)) = deferred s.
Proof.
  unfold add_face. destruct (chk && negb (loop_ok s hes)); [reflexivity|].
  destruct (faces_append_face s hes) as (_&_&d). destruct (append_face s hes). exact d.
Qed.

Lemma dfl_add_cell s hfs chk : deferred (fst (add_cell s hfs chk)) = deferred s.
Proof.
  unfold add_cell. destruct (chk && negb (cell_check s hfs)); [reflexivity|].
  destruct (fc_append_cell s hfs) as (_&_&d). destruct (append_cell s hfs). exact d.
Qed.

Lemma dfl_add_face_v s vs : deferred (fst (add_face_v s vs)) = deferred s.
Proof.
  unfold add_face_v. destruct vs as [|first t]; [reflexivity|].
  destruct (add_face_v_edges_fc first (first :: t) (s, [])) as [(_&_&a) _].
  destruct (add_face_v_edges first (first :: t) (s, [])) as [s1 hes]. cbn [fst snd] in *.
  rewrite dfl_add_face. exact a.
Qed.

Lemma dfl_tet_add_face s hes chk : deferred (fst (tet_add_face s hes chk)) = deferred s.
Proof. unfold tet_add_face. destruct (negb _); [reflexivity | apply dfl_add_face]. Qed.

Lemma dfl_tet_add_cell s hfs chk : deferred (fst (tet_add_cell s hfs chk)) = deferred s.
Proof. unfold tet_add_cell. destruct (negb _); [reflexivity|]. destruct (negb _); [reflexivity|]. destruct (_ && _); [reflexivity | apply dfl_add_cell]. Qed.

Lemma dfl_tet_add_halfface s hes chk : deferred (fst (tet_add_halfface s hes chk)) = deferred s.
Proof.
  unfold tet_add_halfface. destruct (find_halfface_hes s _ _); [reflexivity|].
  pose proof (dfl_tet_add_face s hes chk) as H. destruct (tet_add_face s hes chk). exact H.
Qed.

(* ================================================================== 3. collapse_edge in deferred mode *)

Definition dshape (s : mesh) : Prop := tet_shape s /\ deferred s = true.

Lemma dshape_collapse_he a b acc he : dshape (fst acc) -> dshape (fst (collapse_he a b acc he)).
Proof.
  destruct acc as [s nhes]. intros [K D]. unfold collapse_he. cbv zeta.
  match goal with |- context [tet_add_halfedge s ?x ?y] =>
    pose proof (fc_tet_add_halfedge s x y) as H; destruct (tet_add_halfedge s x y) as [s1 h'] end.
  cbn [fst] in *. destruct H as (f&c&d). split.
  - eapply kshape_same; [| exact K]. repeat split; cbn; assumption.
  - cbn. congruence.
Qed.

Lemma dshape_fold_collapse_he a b l : forall acc, dshape (fst acc) -> dshape (fst (fold_left (collapse_he a b) l acc)).
Proof. induction l as [|x l IH]; intros acc H; [exact H|]. simpl. apply IH. apply dshape_collapse_he. exact H. Qed.

Lemma dshape_collapse_hf a b acc hf r : (forall p, acc = Some p -> dshape (fst p)) ->
  collapse_hf a b acc hf = Some r -> dshape (fst r).
Proof.
  intros H. unfold collapse_hf, bind. destruct acc as [[s nhfs]|]; [|discriminate].
  specialize (H _ eq_refl). cbn [fst] in H.
  destruct (rd (halfface s hf) 0) as [h0|]; [|discriminate].
  destruct (rd (halfface s hf) 1) as [h1|]; [|discriminate].
  destruct (rd (halfface s hf) 2) as [h2|]; [|discriminate].
  pose proof (dshape_fold_collapse_he a b [h0; h1; h2] (s, []) H) as H1.
  destruct (fold_left (collapse_he a b) [h0; h1; h2] (s, [])) as [s1 nhes]. cbn [fst] in H1.
  pose proof (shape_tet_add_halfface s1 nhes false (proj1 H1)) as H2.
  pose proof (dfl_tet_add_halfface s1 nhes false) as H3.
  destruct (tet_add_halfface s1 nhes false) as [s2 [hfh|]]; [|discriminate].
  intros E. inversion E. cbn [fst] in *. split.
  - eapply kshape_same; [| exact H2]. repeat split; reflexivity.
  - cbn. rewrite H3. exact (proj2 H1).
Qed.

Lemma dshape_fold_collapse_hf a b l : forall acc r, (forall p, acc = Some p -> dshape (fst p)) ->
  fold_left (collapse_hf a b) l acc = Some r -> dshape (fst r).
Proof.
  induction l as [|x l IH]; intros acc r H E.
  - simpl in E. apply H. exact E.
  - simpl in E. eapply IH; [| exact E]. intros p Hp. eapply dshape_collapse_hf; eassumption.
Qed.

Lemma dshape_delete_cell c s : dshape s -> dshape (delete_cell c s).
Proof.
  intros [K D]. pose proof (fc_dstep _ _ _ _ _ _ (delete_cell_deferred c s D)) as (f&cc&d). split.
  - eapply kshape_same; [| exact K]. repeat split; assumption.
  - congruence.
Qed.

Lemma dshape_delete_vertex v s : dshape s -> dshape (delete_vertex v s).
Proof.
  intros [K D]. pose proof (fc_dstep _ _ _ _ _ _ (delete_vertex_deferred v s D)) as (f&cc&d). split.
  - eapply kshape_same; [| exact K]. repeat split; assumption.
  - congruence.
Qed.

Lemma dshape_collapse_cell a b coll acc ch r : (forall p, acc = Some p -> dshape (fst p)) ->
  collapse_cell a b coll acc ch = Some r -> dshape (fst r).
Proof.
  intros H. unfold collapse_cell, bind. destruct acc as [[s news]|]; [|discriminate].
  specialize (H _ eq_refl). cbn [fst] in H.
  destruct (memb ch coll); [intros E; inversion E; exact H|].
  destruct (rd (cells s) ch) as [hfhs|]; [|discriminate].
  destruct (rd hfhs 0) as [h0|]; [|discriminate]. destruct (rd hfhs 1) as [h1|]; [|discriminate].
  destruct (rd hfhs 2) as [h2|]; [|discriminate]. destruct (rd hfhs 3) as [h3|]; [|discriminate].
  destruct (fold_left (collapse_hf a b) [h0; h1; h2; h3] (Some (s, []))) as [[s1 nhfs]|] eqn:E1; [|discriminate].
  intros E. inversion E. cbn [fst]. apply dshape_delete_cell.
  apply (dshape_fold_collapse_hf a b [h0; h1; h2; h3] (Some (s, [])) (s1, nhfs)); [| exact E1].
  intros p Hp. inversion Hp. exact H.
Qed.

Lemma dshape_fold_collapse_cell a b coll l : forall acc r, (forall p, acc = Some p -> dshape (fst p)) ->
  fold_left (collapse_cell a b coll) l acc = Some r -> dshape (fst r).
Proof.
  induction l as [|x l IH]; intros acc r H E.
  - simpl in E. apply H. exact E.
  - simpl in E. eapply IH; [| exact E]. intros p Hp. eapply dshape_collapse_cell; eassumption.
Qed.

Lemma dshape_collapse_readd acc n r : (forall s, acc = Some s -> dshape s) -> collapse_readd acc n = Some r -> dshape r.
Proof.
  intros H. unfold collapse_readd, bind. destruct acc as [s|]; [|discriminate]. specialize (H _ eq_refl).
  pose proof (shape_tet_add_cell s (snd n) false (proj1 H)) as H1. pose proof (dfl_tet_add_cell s (snd n) false) as H2.
  destruct (tet_add_cell s (snd n) false) as [s1 [c|]]; [|discriminate]. intros E. inversion E. cbn [fst] in *. split.
  - eapply kshape_same; [| exact H1]. repeat split; reflexivity.
  - cbn. rewrite H2. exact (proj2 H).
Qed.

Lemma dshape_fold_readd l : forall acc r, (forall s, acc = Some s -> dshape s) -> fold_left collapse_readd l acc = Some r -> dshape r.
Proof.
  induction l as [|x l IH]; intros acc r H E.
  - simpl in E. apply H. exact E.
  - simpl in E. eapply IH; [| exact E]. intros p Hp. eapply dshape_collapse_readd; eassumption.
Qed.

(* collapse_edge called with deferred deletion enabled keeps the shape, stays in deferred mode and returns
   the handle of the halfedge's to-vertex *)
Theorem collapse_edge_deferred s he s' r : dshape s -> collapse_edge s he = Some (s', r) ->
  dshape s' /\ r = he_to s he.
Proof.
  intros [K D]. unfold collapse_edge. rewrite D. cbn [negb]. cbv zeta. unfold bind.
  destruct (fold_left (collapse_cell (he_from s he) (he_to s he) (collapsing_cells s he)) (vertex_cells s (he_from s he)) (Some (s, [])))
    as [[s1 news]|] eqn:E1; [|discriminate].
  assert (H1 : dshape s1).
  { refine (dshape_fold_collapse_cell _ _ _ _ _ _ _ E1). intros p Hp. inversion Hp. cbn [fst]. split; assumption. }
  destruct (fold_left collapse_readd news (Some (delete_vertex (he_from s he) s1))) as [s3|] eqn:E3; [|discriminate].
  assert (H3 : dshape s3).
  { refine (dshape_fold_readd _ _ _ _ E3). intros p Hp. inversion Hp. apply dshape_delete_vertex. exact H1. }
  intros E. inversion E. split; [|reflexivity].
  destruct H3 as [K3 D3]. unfold enable_deferred. rewrite D3. cbn [negb andb]. split.
  - destruct K3 as [F C]. split; assumption.
  - reflexivity.
Qed.

(* ================================================================== 4. helpers *)

Lemma kshape_clear kf kc b s : kshape kf kc (clear_mesh b s).
Proof. unfold clear_mesh. cbv zeta. split; cbn; constructor. Qed.

Lemma collect_garbage_noop s : deferred s && needs_gc s = false -> collect_garbage s = s.
Proof.
  intros H.
  assert (C : negb (deferred s) || negb (needs_gc s) = true) by (destruct (deferred s), (needs_gc s); try discriminate; reflexivity).
  unfold collect_garbage. rewrite C. reflexivity.
Qed.

Ltac some_inj E E' := match type of E with Some ?x = Some ?y => assert (E' : x = y) by congruence end.

(* ================================================================== 5. query contracts on well-formed tetrahedra *)

From OVM Require Import Base.ListLemmas.

(* a well-formed tetrahedron: four distinct halffaces incident to the cell, each on three distinct vertices out of
   four distinct vertices V, no two on the same vertex set *)
Definition tet_wf (s : mesh) (c : nat) (hfs V : list nat) : Prop :=
  nth_error (cells s) c = Some hfs /\ length hfs = 4 /\ NoDup hfs /\
  NoDup V /\ length V = 4 /\
  (forall hf, In hf hfs -> nth_error (inc_cell s) hf = Some (Some c) /\
       length (hf_vertices s hf) = 3 /\ NoDup (hf_vertices s hf) /\ incl (hf_vertices s hf) V) /\
  (forall hf hf', In hf hfs -> In hf' hfs -> hf <> hf' -> ~ incl (hf_vertices s hf') (hf_vertices s hf)).

Definition out3 (x y z w : nat) : bool := negb (x =? w) && negb (y =? w) && negb (z =? w).

Lemma out3_spec x y z w : out3 x y z w = true <-> ~ In w [x; y; z].
Proof.
  unfold out3. rewrite !andb_true_iff, !negb_true_iff, !Nat.eqb_neq. simpl. split.
  - intros [[a b] c] [H|[H|[H|[]]]]; congruence.
  - intros H. repeat split; intros E; apply H; auto.
Qed.

Lemma gcv_scan_spec x y z l :
  gcv_scan [x; y; z] l = match find (out3 x y z) l with Some w => Some [x; y; z; w] | None => Some [] end.
Proof.
  induction l as [|w t IH]; [reflexivity|].
  cbn [gcv_scan find rd nth_error bind]. unfold out3 at 1.
  destruct (x =? w); cbn [negb andb]; [exact IH|].
  destruct (y =? w); cbn [negb andb]; [exact IH|].
  destruct (z =? w); cbn [negb andb]; [exact IH|]. reflexivity.
Qed.

(* the vertex of V outside a three-element subset is unique *)
Lemma apex_unique (V T : list nat) (u w : nat) : NoDup V -> length V = 4 -> NoDup T -> length T = 3 -> incl T V ->
  In u V -> ~ In u T -> In w V -> ~ In w T -> u = w.
Proof.
  intros NV LV NT LT I Hu Hu' Hw Hw'. destruct (Nat.eq_dec u w) as [|N]; [assumption|exfalso].
  assert (ND : NoDup (u :: w :: T)).
  { constructor; [intros [E|E]; [congruence | contradiction]|]. constructor; assumption. }
  assert (IN : incl (u :: w :: T) V).
  { intros a [E|[E|E]]; [subst; assumption | subst; assumption | apply I; assumption]. }
  pose proof (NoDup_incl_length ND IN) as L. simpl in L. lia.
Qed.

Lemma apex_exists (V T : list nat) : NoDup V -> length V = 4 -> length T = 3 -> exists w, In w V /\ ~ In w T.
Proof.
  intros NV LV LT. destruct (find (fun w => negb (memb w T)) V) as [w|] eqn:F.
  - apply find_some in F. destruct F as [a b]. exists w. split; [assumption|].
    apply negb_true_iff in b. intros H. apply memb_In in H. congruence.
  - exfalso. assert (I : incl V T).
    { intros a Ha. pose proof (find_none _ _ F a Ha) as H. apply negb_false_iff in H. apply memb_In. exact H. }
    pose proof (NoDup_incl_length NV I). lia.
Qed.

Lemma forall2_exists {A B} (P : A -> B -> Prop) (l : list A) :
  (forall a, In a l -> exists b, P a b) -> exists bs, Forall2 P l bs.
Proof.
  induction l as [|a l IH]; intros H; [exists []; constructor|].
  destruct (H a (or_introl eq_refl)) as (b&Hb). destruct (IH (fun x Hx => H x (or_intror Hx))) as (bs&Hbs).
  exists (b :: bs). constructor; assumption.
Qed.

Lemma forall2_in_r {A B} (P : A -> B -> Prop) l bs b : Forall2 P l bs -> In b bs -> exists a, In a l /\ P a b.
Proof.
  induction 1 as [|a b' l bs' Hab _ IH]; intros Hin; [contradiction|].
  destruct Hin as [->|Hin]; [exists a; split; [left; reflexivity | exact Hab]|].
  destruct (IH Hin) as (x&Hx&Px). exists x. split; [right; exact Hx | exact Px].
Qed.

Lemma forall2_len {A B} (P : A -> B -> Prop) l bs : Forall2 P l bs -> length l = length bs.
Proof. induction 1; simpl; congruence. Qed.

Lemma forall2_nodup {A B} (P : A -> B -> Prop) l bs : NoDup l -> Forall2 P l bs ->
  (forall a a' b b', In a l -> In a' l -> a <> a' -> P a b -> P a' b' -> b <> b') -> NoDup bs.
Proof.
  intros ND F. revert ND. induction F as [|a b l bs' Hab F IH]; intros ND D; [constructor|].
  inversion ND as [|? ? Hn ND']; subst. constructor.
  - intros Hin. destruct (forall2_in_r P l bs' b F Hin) as (x&Hx&Px).
    apply (D a x b b (or_introl eq_refl) (or_intror Hx)); [intros E; subst; contradiction | exact Hab | exact Px | reflexivity].
  - apply IH; [exact ND'|]. intros x x' y y' Hx Hx'. apply D; right; assumption.
Qed.

Section WF.
  Variables (s : mesh) (c : nat) (hfs V : list nat).
  Hypothesis WF : tet_wf s c hfs V.

  Let Hcell := proj1 WF.
  Let Hlen := proj1 (proj2 WF).
  Let Hnd := proj1 (proj2 (proj2 WF)).
  Let HV := proj1 (proj2 (proj2 (proj2 WF))).
  Let HVl := proj1 (proj2 (proj2 (proj2 (proj2 WF)))).
  Let Hhf := proj1 (proj2 (proj2 (proj2 (proj2 (proj2 WF))))).
  Let Hdist := proj2 (proj2 (proj2 (proj2 (proj2 (proj2 WF))))).

  Lemma wf_three hf : In hf hfs -> exists x y z, hf_vertices s hf = [x; y; z].
  Proof.
    intros H. destruct (Hhf hf H) as (_&L&_). destruct (hf_vertices s hf) as [|x [|y [|z [|]]]]; try discriminate.
    exists x, y, z. reflexivity.
  Qed.

  (* every other halfface of the cell contains the apex of hf, and its first vertex outside hf is that apex *)
  Lemma wf_find_apex hf hf' x y z : In hf hfs -> In hf' hfs -> hf <> hf' -> hf_vertices s hf = [x; y; z] ->
    exists w, find (out3 x y z) (hf_vertices s hf') = Some w /\ In w V /\ ~ In w [x; y; z].
  Proof.
    intros H H' N E. destruct (find (out3 x y z) (hf_vertices s hf')) as [w|] eqn:F.
    - apply find_some in F. destruct F as [a b]. exists w. split; [reflexivity|]. split.
      + destruct (Hhf hf' H') as (_&_&_&I). apply I. exact a.
      + apply out3_spec. exact b.
    - exfalso. apply (Hdist hf hf' H H' N). rewrite E. intros a Ha.
      pose proof (find_none _ _ F a Ha) as Hn. destruct (in_dec Nat.eq_dec a [x; y; z]) as [|Nin]; [assumption|].
      apply out3_spec in Nin. congruence.
  Qed.

  (* the apex of a halfface: the vertex of V outside it *)
  Definition is_apex (hf w : nat) : Prop := In w V /\ ~ In w (hf_vertices s hf).

  Lemma apex_fun hf u w : In hf hfs -> is_apex hf u -> is_apex hf w -> u = w.
  Proof.
    intros H [a b] [a' b']. destruct (Hhf hf H) as (_&L&N&I).
    eapply (apex_unique V (hf_vertices s hf)); eassumption.
  Qed.

  Definition other_of (hf : nat) : nat := if negb (hf =? nth 0 hfs 0) then nth 0 hfs 0 else nth 1 hfs 0.

  Lemma other_of_ok hf : In hf hfs -> In (other_of hf) hfs /\ other_of hf <> hf.
  Proof.
    intros H. unfold other_of. destruct (Nat.eqb_spec hf (nth 0 hfs 0)) as [E|E]; cbn [negb].
    - split; [apply nth_In; rewrite Hlen; lia|]. rewrite E. intros F.
      assert (1 = 0) by (apply (proj1 (NoDup_nth hfs 0) Hnd); [rewrite Hlen; lia | rewrite Hlen; lia | exact F]). discriminate.
    - split; [apply nth_In; rewrite Hlen; lia | congruence].
  Qed.

  (* get_cell_vertices(hf) = the halfface's three vertices in its cyclic order, then the apex *)
  Theorem gcv_hf_wf hf : In hf hfs ->
    exists x y z w, hf_vertices s hf = [x; y; z] /\ is_apex hf w /\ gcv_hf s hf = Some [x; y; z; w].
  Proof.
    intros H. destruct (wf_three hf H) as (x&y&z&E). destruct (other_of_ok hf H) as [Ho No].
    destruct (wf_find_apex hf (other_of hf) x y z H Ho (fun e => No (eq_sym e)) E) as (w&F&Wi&Wn).
    exists x, y, z, w. split; [exact E|]. split; [split; [exact Wi | rewrite E; exact Wn]|].
    unfold gcv_hf, bind, rd. destruct (Hhf hf H) as (Ic&_). rewrite Ic, Hcell.
    rewrite (nth_error_nth' hfs 0 (n := 0)) by (rewrite Hlen; lia).
    unfold other_of in F. destruct (negb (hf =? nth 0 hfs 0)).
    - rewrite E, gcv_scan_spec, F. reflexivity.
    - rewrite (nth_error_nth' hfs 0 (n := 1)) by (rewrite Hlen; lia). rewrite E, gcv_scan_spec, F. reflexivity.
  Qed.

  (* halfface_opposite_vertex(hf) is the apex *)
  Theorem hov_wf hf : In hf hfs -> exists w, is_apex hf w /\ halfface_opposite_vertex s hf = Some (Some w).
  Proof.
    intros H. destruct (gcv_hf_wf hf H) as (x&y&z&w&E&A&G). exists w. split; [exact A|].
    unfold halfface_opposite_vertex, bind, rd. destruct (Hhf hf H) as (Ic&_). rewrite Ic, G. reflexivity.
  Qed.

  (* every halfface other than hf contains the apex of hf *)
  Lemma apex_in_others hf hf' w : In hf hfs -> In hf' hfs -> hf <> hf' -> is_apex hf w -> In w (hf_vertices s hf').
  Proof.
    intros H H' N A. destruct (wf_three hf H) as (x&y&z&E).
    destruct (wf_find_apex hf hf' x y z H H' N E) as (u&F&Ui&Un).
    assert (u = w) by (apply (apex_fun hf); [exact H | split; [exact Ui | rewrite E; exact Un] | exact A]).
    subst u. apply find_some in F. exact (proj1 F).
  Qed.

  Lemma voh_scan_spec v : forall l, (forall hf, In hf l -> In hf hfs) ->
    voh_scan s v l = Some (find (fun hf => negb (memb v (hf_vertices s hf))) l).
  Proof.
    induction l as [|hf t IH]; intros Hl; [reflexivity|].
    destruct (wf_three hf (Hl hf (or_introl eq_refl))) as (x&y&z&E).
    cbn [voh_scan find]. rewrite E. cbn [rd nth_error bind memb existsb].
    rewrite (Nat.eqb_sym v x), (Nat.eqb_sym v y), (Nat.eqb_sym v z).
    assert (IHt := IH (fun h Hh => Hl h (or_intror Hh))).
    destruct (x =? v); cbn [orb negb]; [exact IHt|].
    destruct (y =? v); cbn [orb negb]; [exact IHt|].
    destruct (z =? v); cbn [orb negb]; [exact IHt|]. reflexivity.
  Qed.

  (* vertex_opposite_halfface(c, apex of hf) = hf : the two opposite maps are mutually inverse *)
  Theorem voh_of_apex hf w : In hf hfs -> is_apex hf w -> vertex_opposite_halfface s c w = Some (Some hf).
  Proof.
    intros H A. unfold vertex_opposite_halfface, bind, rd. rewrite Hcell, (voh_scan_spec w hfs (fun _ h => h)).
    f_equal.
    assert (G : forall l, incl l hfs -> In hf l -> find (fun h => negb (memb w (hf_vertices s h))) l = Some hf).
    { induction l as [|h t IH]; intros I Hin; [contradiction|]. cbn [find].
      destruct (Nat.eq_dec h hf) as [->|N].
      - destruct A as [_ A2]. destruct (memb w (hf_vertices s hf)) eqn:M; [apply memb_In in M; contradiction | reflexivity].
      - assert (M : memb w (hf_vertices s h) = true).
        { apply memb_In. apply (apex_in_others hf h w H (I h (or_introl eq_refl)) (fun e => N (eq_sym e)) A). }
        rewrite M. cbn [negb]. apply IH; [intros a Ha; apply I; right; exact Ha | destruct Hin as [E|E]; [congruence | exact E]]. }
    apply G; [apply incl_refl | exact H].
  Qed.

  Theorem voh_hov_inverse hf : In hf hfs ->
    exists w, halfface_opposite_vertex s hf = Some (Some w) /\ vertex_opposite_halfface s c w = Some (Some hf).
  Proof.
    intros H. destruct (hov_wf hf H) as (w&A&E). exists w. split; [exact E | apply (voh_of_apex hf w H A)].
  Qed.

  (* the apexes of the four halffaces are the four vertices: every vertex has its opposite halfface *)
  Lemma apex_of_each v : In v V -> exists hf, In hf hfs /\ is_apex hf v.
  Proof.
    intros Hv.
    assert (Hap : forall hf, In hf hfs -> exists w, is_apex hf w).
    { intros hf H. destruct (Hhf hf H) as (_&L&_). destruct (apex_exists V (hf_vertices s hf) HV HVl L) as (w&a&b). exists w. split; assumption. }
    destruct (forall2_exists is_apex hfs Hap) as (ws&F).
    (* distinct halffaces have distinct apexes: the apex of one lies in every other *)
    assert (ND : NoDup ws).
    { apply (forall2_nodup is_apex hfs ws Hnd F). intros hf hf' w w' H H' N A A' E. subst w'.
      apply (proj2 A'). apply (apex_in_others hf hf' w H H' N A). }
    assert (I : incl ws V).
    { intros w Hw. destruct (forall2_in_r is_apex hfs ws w F Hw) as (hf&_&A). exact (proj1 A). }
    assert (I' : incl V ws).
    { apply NoDup_length_incl; [exact ND | rewrite <- (forall2_len _ _ _ F), Hlen, HVl; lia | exact I]. }
    destruct (forall2_in_r is_apex hfs ws v F (I' v Hv)) as (hf&H&A). exists hf. split; assumption.
  Qed.

  Theorem hov_voh_inverse v : In v V ->
    exists hf, In hf hfs /\ vertex_opposite_halfface s c v = Some (Some hf) /\ ~ In v (hf_vertices s hf) /\
               halfface_opposite_vertex s hf = Some (Some v).
  Proof.
    intros Hv. destruct (apex_of_each v Hv) as (hf&H&A). exists hf. split; [exact H|]. split; [apply (voh_of_apex hf v H A)|].
    split; [exact (proj2 A)|]. destruct (hov_wf hf H) as (w&A'&E). rewrite E. do 2 f_equal. apply (apex_fun hf); assumption.
  Qed.
End WF.

(* ---- the variants with a start vertex / start halfedge, and the iterator: function-level contracts *)

(* get_cell_vertices(c) is get_cell_vertices of the cell's first halfface *)
Lemma gcv_c_first s c hfs h0 : nth_error (cells s) c = Some hfs -> nth_error hfs 0 = Some h0 -> gcv_c s c = gcv_hf s h0.
Proof. intros A B. unfold gcv_c, bind, rd. rewrite A, B. reflexivity. Qed.

(* get_cell_vertices(c, v): v first, the cyclic order of the first halfface kept, the orientation preserved *)
Theorem gcv_c_v_spec s c x y z w v : gcv_c s c = Some [x; y; z; w] -> NoDup [x; y; z; w] ->
  (v = x -> gcv_c_v s c v = Some [x; y; z; w]) /\
  (v = y -> gcv_c_v s c v = Some [y; z; x; w]) /\
  (v = z -> gcv_c_v s c v = Some [z; x; y; w]) /\
  (v = w -> gcv_c_v s c v = Some [w; y; x; z]) /\
  (~ In v [x; y; z; w] -> gcv_c_v s c v = Some [x; y; z; w]).
Proof.
  intros G ND. unfold gcv_c_v, bind. rewrite G. cbn [rd nth_error].
  inversion ND as [|? ? n1 ND1]; subst. inversion ND1 as [|? ? n2 ND2]; subst. inversion ND2 as [|? ? n3 _]; subst.
  simpl in n1, n2, n3.
  repeat split; intros E; subst;
    repeat match goal with |- context [?a =? ?b] => destruct (Nat.eqb_spec a b); try (exfalso; simpl in *; intuition congruence) end;
    try reflexivity.
Qed.

(* get_cell_vertices(hf, he): starts at the from-vertex of he, cyclic order of hf kept, apex last *)
Theorem gcv_hf_he_spec s hf he x y z w : gcv_hf s hf = Some [x; y; z; w] -> NoDup [x; y; z; w] ->
  (he_from s he = x -> gcv_hf_he s hf he = Some [x; y; z; w]) /\
  (he_from s he = y -> gcv_hf_he s hf he = Some [y; z; x; w]) /\
  (he_from s he = z -> gcv_hf_he s hf he = Some [z; x; y; w]).
Proof.
  intros G ND. unfold gcv_hf_he, bind. rewrite G. cbn [rd nth_error].
  inversion ND as [|? ? n1 ND1]; subst. inversion ND1 as [|? ? n2 ND2]; subst. inversion ND2 as [|? ? n3 _]; subst.
  simpl in n1, n2, n3.
  repeat split; intros E; rewrite E;
    repeat match goal with |- context [?a =? ?b] => destruct (Nat.eqb_spec a b); try (exfalso; simpl in *; intuition congruence) end;
    cbn [rd nth_error firstn];
    repeat match goal with |- context [?a =? ?b] => destruct (Nat.eqb_spec a b) end; reflexivity.
Qed.

(* the tet vertex iterator enumerates get_cell_vertices(c), lap after lap *)
Theorem tet_iter_spec s c a b d e laps : gcv_c s c = Some [a; b; d; e] ->
  tet_iter s c laps = Some (concat (repeat [a; b; d; e] laps)).
Proof. intros G. unfold tet_iter, tet_iter_vertices, bind. rewrite G. reflexivity. Qed.

Theorem tet_iter_ub s c : gcv_c s c = Some [] -> tet_iter s c 1 = None.
Proof. intros G. unfold tet_iter, tet_iter_vertices, bind. rewrite G. reflexivity. Qed.

(* ---- non-vacuity: a tetrahedron built from four vertices is well-formed *)
Definition one_tet : mesh := tet_run [TK (AddVertices 4); TAddCellV [0; 1; 2; 3] true].

Example one_tet_wf : tet_wf one_tet 0 [0; 2; 4; 6] [0; 1; 2; 3].
Proof.
  unfold tet_wf. split; [vm_compute; reflexivity|]. split; [reflexivity|].
  split; [repeat constructor; simpl; intuition discriminate|].
  split; [repeat constructor; simpl; intuition discriminate|]. split; [reflexivity|]. split.
  - intros hf [E|[E|[E|[E|[]]]]]; subst hf; (split; [vm_compute; reflexivity|]); (split; [vm_compute; reflexivity|]);
      (split; [vm_compute; repeat constructor; simpl; intuition discriminate|]);
      vm_compute; intros a H; repeat destruct H as [H|H]; subst; simpl; auto 6.
  - intros hf hf' [E|[E|[E|[E|[]]]]] [E'|[E'|[E'|[E'|[]]]]] N; subst hf hf'; try congruence; vm_compute; intros I;
      match goal with I : forall a, _ -> _ |- _ =>
        first [ pose proof (I 0 ltac:(simpl; auto)) as X; simpl in X; intuition discriminate
              | pose proof (I 1 ltac:(simpl; auto)) as X; simpl in X; intuition discriminate
              | pose proof (I 2 ltac:(simpl; auto)) as X; simpl in X; intuition discriminate
              | pose proof (I 3 ltac:(simpl; auto)) as X; simpl in X; intuition discriminate ] end.
Qed.

Example one_tet_queries :
  gcv_c one_tet 0 = Some [0; 1; 2; 3] /\ gcv_c_v one_tet 0 3 = Some [3; 1; 0; 2] /\
  halfface_opposite_vertex one_tet 4 = Some (Some 2) /\ vertex_opposite_halfface one_tet 0 2 = Some (Some 4) /\
  tet_iter one_tet 0 2 = Some [0; 1; 2; 3; 0; 1; 2; 3].
Proof. vm_compute. repeat split. Qed.

(* ================================================================== 7. physical removal in FAST mode keeps the valences *)

(* In fast mode an entity is removed by swapping it with the last one and dropping the last: no stored list is ever
   filtered, every list keeps its length - unconditionally (no kernel invariant is needed).  Slow immediate removal
   filters the deleted handles out of the stored lists (TopologyKernel.cc:1270-1300, 1390-1420) and keeps the lengths
   only when no surviving entity references the removed one: that is C02's closure property, not proved here. *)

Lemma remove_nth_upd_same {A} i x (l : list A) : remove_nth i (upd i x l) = remove_nth i l.
Proof. revert i. induction l as [|a l IH]; intros [|i]; simpl; auto. f_equal. apply IH. Qed.

Lemma upd_out_of_range {A} i x (l : list A) : length l <= i -> upd i x l = l.
Proof. revert i. induction l as [|a l IH]; intros [|i] H; simpl in *; auto; try lia. f_equal. apply IH. lia. Qed.

Section ListShape.
  Context {A : Type} (P : A -> Prop).

  Lemma Forall_upd' i x (l : list A) : Forall P l -> P x -> Forall P (upd i x l).
  Proof.
    revert i. induction l as [|a l IH]; intros i F Hx; [destruct i; constructor|].
    inversion F; subst. destruct i; simpl; constructor; auto.
  Qed.

  Lemma Forall_remove_nth i (l : list A) : Forall P l -> Forall P (remove_nth i l).
  Proof.
    revert i. induction l as [|a l IH]; intros i F; [destruct i; constructor|].
    inversion F; subst. destruct i; simpl; [assumption | constructor; auto].
  Qed.

  Lemma Forall_nth_in i (l : list A) d : Forall P l -> i < length l -> P (nth i l d).
  Proof. intros F H. rewrite Forall_forall in F. apply F. apply nth_In. exact H. Qed.

  (* swap an element with the last one and drop the last *)
  Lemma Forall_swap_remove_last h0 d (l : list A) :
    Forall P l -> Forall P (remove_nth (length l - 1) (swap_nth h0 (length l - 1) d l)).
  Proof.
    intros F. unfold swap_nth. set (h := length l - 1).
    destruct (le_lt_dec (length l) h0) as [Out|In0].
    - rewrite (upd_out_of_range h0 _ l Out). rewrite remove_nth_upd_same. apply Forall_remove_nth. exact F.
    - apply Forall_remove_nth. apply Forall_upd'; [apply Forall_upd'|].
      + exact F.
      + apply Forall_nth_in; [exact F | unfold h; lia].
      + apply Forall_nth_in; assumption.
  Qed.

  (* a swap of two valid positions *)
  Lemma Forall_swap_nth a b d (l : list A) : Forall P l -> a < length l -> b < length l -> Forall P (swap_nth a b d l).
  Proof.
    intros F Ha Hb. unfold swap_nth. apply Forall_upd'; [apply Forall_upd'|]; try assumption; apply Forall_nth_in; assumption.
  Qed.
End ListShape.

Definition lenP (k : nat) (l : list nat) : Prop := length l = k.

(* relabelings keep every length *)
Lemma Forall_len_map_map k (g : nat -> nat) ll : Forall (lenP k) ll -> Forall (lenP k) (map (map g) ll).
Proof. intros F. induction F; simpl; constructor; auto. unfold lenP in *. rewrite map_length. assumption. Qed.

Lemma Forall_len_upd_map k (g : nat -> nat) i ll : Forall (lenP k) ll -> Forall (lenP k) (upd i (map g (nth i ll [])) ll).
Proof.
  intros F. destruct (le_lt_dec (length ll) i) as [Out|In0].
  - rewrite upd_out_of_range by exact Out. exact F.
  - apply Forall_upd'; [exact F|]. unfold lenP. rewrite map_length. apply (Forall_nth_in (lenP k)); assumption.
Qed.

Lemma Forall_len_fold_upd_map {X} k (g : nat -> nat) (sel : X -> nat) (skip : list nat -> X -> bool) xs : forall ll done,
  Forall (lenP k) ll ->
  Forall (lenP k) (fst (fold_left (fun (acc : list (list nat) * list nat) x =>
                                     let '(cs, dn) := acc in
                                     if skip dn x then acc else (upd (sel x) (map g (nth (sel x) cs [])) cs, sel x :: dn)) xs (ll, done))).
Proof.
  induction xs as [|x xs IH]; intros ll done F; [exact F|]. cbn [fold_left].
  destruct (skip done x); [apply IH; exact F|]. apply IH. apply Forall_len_upd_map. exact F.
Qed.

Lemma fold_keeps_len {X} k (f : list (list nat) * list nat -> X -> list (list nat) * list nat) :
  (forall acc x, Forall (lenP k) (fst acc) -> Forall (lenP k) (fst (f acc x))) ->
  forall xs acc, Forall (lenP k) (fst acc) -> Forall (lenP k) (fst (fold_left f xs acc)).
Proof. intros H. induction xs as [|x xs IH]; intros acc F; [exact F|]. simpl. apply IH. apply H. exact F. Qed.

Definition fmode (s t : mesh) : Prop := deferred t = deferred s /\ fast t = fast s.
Lemma fmode_refl s : fmode s s. Proof. split; reflexivity. Qed.
Lemma fmode_trans s t u : fmode s t -> fmode t u -> fmode s u.
Proof. intros [a b] [c d]. split; congruence. Qed.

(* ---- the index swaps *)
Lemma swap_cell_fc a b s :
  faces (swap_cell_indices a b s) = faces s /\
  cells (swap_cell_indices a b s) = (if a =? b then cells s else swap_nth a b [] (cells s)) /\
  fmode s (swap_cell_indices a b s).
Proof.
  unfold swap_cell_indices. destruct (a =? b); [repeat split; reflexivity|]. cbv zeta.
  destruct (fbu s); repeat split; reflexivity.
Qed.

Lemma swap_face_fc kc a b s : Forall (lenP kc) (cells s) ->
  faces (swap_face_indices a b s) = (if a =? b then faces s else swap_nth a b [] (faces s)) /\
  Forall (lenP kc) (cells (swap_face_indices a b s)) /\ fmode s (swap_face_indices a b s).
Proof.
  intros C. unfold swap_face_indices. destruct (a =? b); [repeat split; try reflexivity; exact C|]. cbv zeta.
  match goal with |- context [set_cells ?c1 s] => set (cells1 := c1) end.
  assert (C1 : Forall (lenP kc) cells1).
  { unfold cells1. destruct (fbu s).
    - apply (fold_keeps_len kc); [|exact C]. intros [cs done] x F. cbn [fst] in *.
      destruct (cell_of s x) as [ch|]; [|exact F]. destruct (memb ch done); [exact F|]. cbn [fst].
      apply Forall_len_upd_map. exact F.
    - apply Forall_len_map_map. exact C. }
  clearbody cells1.
  repeat match goal with |- context [if ?c then _ else _] => destruct c end; repeat split; try reflexivity; exact C1.
Qed.

Lemma swap_edge_fc kf a b s : Forall (lenP kf) (faces s) ->
  Forall (lenP kf) (faces (swap_edge_indices a b s)) /\ cells (swap_edge_indices a b s) = cells s /\ fmode s (swap_edge_indices a b s).
Proof.
  intros F. unfold swap_edge_indices. destruct (a =? b); [repeat split; try reflexivity; exact F|]. cbv zeta.
  match goal with |- context [set_faces ?f1 s] => set (faces1 := f1) end.
  assert (F1 : Forall (lenP kf) faces1).
  { unfold faces1. destruct (ebu s).
    - apply (fold_keeps_len kf); [|exact F]. intros [fs done] x G. cbn [fst] in *.
      destruct (memb (x / 2) done); [exact G|]. cbn [fst]. apply Forall_len_upd_map. exact G.
    - apply Forall_len_map_map. exact F. }
  clearbody faces1.
  destruct (edge_at (set_faces faces1 s) a) as [a0 a1]. destruct (edge_at (set_faces faces1 s) b) as [b0 b1].
  repeat match goal with |- context [if ?c then _ else _] => destruct c end; repeat split; try reflexivity; exact F1.
Qed.

Lemma swap_vertex_fc a b s : same_fc s (swap_vertex_indices a b s) /\ fmode s (swap_vertex_indices a b s).
Proof.
  unfold swap_vertex_indices. destruct (a =? b); [split; [apply same_fc_refl | apply fmode_refl]|]. cbv zeta.
  repeat match goal with |- context [if ?c then _ else _] => destruct c end; repeat split; reflexivity.
Qed.

Lemma fast_reorder_one e s : fast (reorder_incident_halffaces e s) = fast s.
Proof. unfold reorder_incident_halffaces. destruct (reorder_list s e); reflexivity. Qed.
Lemma fast_reorder_edges es : forall s, fast (reorder_edges es s) = fast s.
Proof.
  unfold reorder_edges. induction es as [|e es IH]; intros s; [reflexivity|]. simpl. rewrite IH. apply fast_reorder_one.
Qed.

(* the state of immediate + fast deletion *)
Definition fastq (kf kc : nat) (s : mesh) : Prop := kshape kf kc s /\ deferred s = false /\ fast s = true.

Lemma fastq_delete_cell_core kf kc h0 s0 : fastq kf kc s0 -> fastq kf kc (delete_cell_core h0 s0).
Proof.
  intros ([F C]&D&Fa). unfold delete_cell_core. rewrite D, Fa. cbn [negb andb]. cbv zeta.
  destruct (swap_cell_fc h0 (nc s0 - 1) s0) as (sf&sc&sd&sfa). set (s := swap_cell_indices h0 (nc s0 - 1) s0) in *.
  match goal with |- context [if deferred ?x then _ else _] => set (s1 := x) end.
  assert (H1 : faces s1 = faces s /\ cells s1 = cells s /\ deferred s1 = deferred s /\ fast s1 = fast s).
  { unfold s1. destruct (fbu s); [|repeat split; reflexivity].
    match goal with |- context [if ebu ?y then reorder_edges ?es ?y else ?y] =>
      destruct (ebu y); [destruct (fc_reorder_edges es y) as (a&b&c); rewrite a, b, c, fast_reorder_edges|]; repeat split; reflexivity end. }
  destruct H1 as (f1&c1&d1&a1). clearbody s1.
  rewrite d1, sd, D. rewrite a1, sfa, Fa. cbn [negb andb].
  unfold cell_deleted, delete_prop_elem. split; [split|split]; cbn.
  - rewrite f1, sf. exact F.
  - rewrite c1, sc. destruct (h0 =? nc s0 - 1); [apply Forall_remove_nth; exact C | apply (Forall_swap_remove_last (lenP kc)); exact C].
  - rewrite d1, sd. exact D.
  - rewrite a1, sfa. exact Fa.
Qed.

Lemma fastq_delete_face_core kf kc h0 s0 : fastq kf kc s0 -> fastq kf kc (delete_face_core h0 s0).
Proof.
  intros ([F C]&D&Fa). unfold delete_face_core. rewrite D, Fa. cbn [negb andb]. cbv zeta.
  destruct (swap_face_fc kc h0 (nf s0 - 1) s0 C) as (sf&sc&sd&sfa). set (s := swap_face_indices h0 (nf s0 - 1) s0) in *.
  match goal with |- context [if deferred ?x then _ else _] => set (s1 := x) end.
  assert (H1 : faces s1 = faces s /\ cells s1 = cells s /\ deferred s1 = deferred s /\ fast s1 = fast s).
  { unfold s1. destruct (ebu s); [|repeat split; reflexivity].
    match goal with |- context [fold_left ?f ?l1 s] => generalize l1; intros l0;
      assert (G : forall l t, faces t = faces s /\ cells t = cells s /\ deferred t = deferred s /\ fast t = fast s ->
                  faces (fold_left f l t) = faces s /\ cells (fold_left f l t) = cells s /\ deferred (fold_left f l t) = deferred s /\ fast (fold_left f l t) = fast s) end.
    { induction l as [|he l IH]; intros t Ht; [exact Ht|]. cbn [fold_left]. apply IH. destruct Ht as (t1&t2&t3&t4).
      match goal with |- context [if fbu ?y then reorder_incident_halffaces ?e ?y else ?y] =>
        destruct (fbu y); [destruct (fc_reorder_one e y) as (a&b&c); rewrite a, b, c, fast_reorder_one|]; cbn; repeat split; assumption end. }
    apply G. repeat split; reflexivity. }
  destruct H1 as (f1&c1&d1&a1). clearbody s1.
  rewrite d1, sd, D. rewrite !a1, !sfa, !Fa. cbn [negb andb].
  match goal with |- context [if fbu s1 then ?x else s1] => set (s3 := if fbu s1 then x else s1) end.
  assert (H3 : faces s3 = faces s1 /\ cells s3 = cells s1 /\ deferred s3 = deferred s1 /\ fast s3 = fast s1)
    by (unfold s3; destruct (fbu s1); repeat split; reflexivity).
  destruct H3 as (f3&c3&d3&a3). clearbody s3. rewrite a3, a1, sfa, Fa. cbn [negb andb].
  unfold face_deleted, delete_prop_elem. split; [split|split]; cbn.
  - rewrite f3, f1, sf. destruct (h0 =? nf s0 - 1); [apply Forall_remove_nth; exact F | apply (Forall_swap_remove_last (lenP kf)); exact F].
  - rewrite c3, c1. exact sc.
  - rewrite d3, d1, sd. exact D.
  - rewrite a3, a1, sfa. exact Fa.
Qed.

Lemma fastq_delete_edge_core kf kc h0 s0 : fastq kf kc s0 -> fastq kf kc (delete_edge_core h0 s0).
Proof.
  intros ([F C]&D&Fa). unfold delete_edge_core. rewrite D, Fa. cbn [negb andb]. cbv zeta.
  destruct (swap_edge_fc kf h0 (ne s0 - 1) s0 F) as (sf&sc&sd&sfa). set (s := swap_edge_indices h0 (ne s0 - 1) s0) in *.
  match goal with |- context [if deferred ?x then _ else _] => set (s1 := x) end.
  assert (H1 : faces s1 = faces s /\ cells s1 = cells s /\ deferred s1 = deferred s /\ fast s1 = fast s).
  { unfold s1. destruct (vbu s); [destruct (edge_at s (ne s0 - 1))|]; repeat split; reflexivity. }
  destruct H1 as (f1&c1&d1&a1). clearbody s1.
  rewrite d1, sd, D. rewrite !a1, !sfa, !Fa. cbn [negb andb].
  match goal with |- context [if ebu s1 then ?x else s1] => set (s3 := if ebu s1 then x else s1) end.
  assert (H3 : faces s3 = faces s1 /\ cells s3 = cells s1 /\ deferred s3 = deferred s1 /\ fast s3 = fast s1)
    by (unfold s3; destruct (ebu s1); repeat split; reflexivity).
  destruct H3 as (f3&c3&d3&a3). clearbody s3. rewrite a3, a1, sfa, Fa. cbn [negb andb].
  unfold edge_deleted, delete_prop_elem. split; [split|split]; cbn.
  - rewrite f3, f1. exact sf.
  - rewrite c3, c1, sc. exact C.
  - rewrite d3, d1, sd. exact D.
  - rewrite a3, a1, sfa. exact Fa.
Qed.

Lemma fastq_delete_vertex_core kf kc h0 s0 : fastq kf kc s0 -> fastq kf kc (delete_vertex_core h0 s0).
Proof.
  intros ([F C]&D&Fa). unfold delete_vertex_core. rewrite D, Fa. cbn [negb andb]. cbv zeta.
  destruct (swap_vertex_fc h0 (nv s0 - 1) s0) as ((sf&sc&sd)&(_&sfa)). set (s := swap_vertex_indices h0 (nv s0 - 1) s0) in *.
  rewrite sd, D.
  unfold vertex_deleted, delete_prop_elem.
  repeat match goal with |- context [if ?c then _ else _] => destruct c end;
    (split; [split|split]; cbn; [rewrite sf; exact F | rewrite sc; exact C | rewrite sd; exact D | rewrite sfa; exact Fa]).
Qed.

Lemma fastq_del_desc kf kc core l : (forall x s, fastq kf kc s -> fastq kf kc (core x s)) ->
  forall s, fastq kf kc s -> fastq kf kc (del_desc core l s).
Proof.
  intros H. unfold del_desc. generalize (rev l). intros r. induction r as [|x r IH]; intros s Q; [exact Q|].
  simpl. apply IH. apply H. exact Q.
Qed.

Lemma fastq_delete_cell kf kc c s : fastq kf kc s -> fastq kf kc (delete_cell c s).
Proof. apply fastq_delete_cell_core. Qed.
Lemma fastq_delete_face kf kc f s : fastq kf kc s -> fastq kf kc (delete_face f s).
Proof. intros Q. unfold delete_face. apply fastq_delete_face_core. apply fastq_del_desc; [intros; apply fastq_delete_cell_core; assumption | exact Q]. Qed.
Lemma fastq_delete_edge kf kc e s : fastq kf kc s -> fastq kf kc (delete_edge e s).
Proof.
  intros Q. unfold delete_edge. apply fastq_delete_edge_core.
  apply fastq_del_desc; [intros; apply fastq_delete_face_core; assumption|].
  apply fastq_del_desc; [intros; apply fastq_delete_cell_core; assumption | exact Q].
Qed.
Lemma fastq_delete_vertex kf kc v s : fastq kf kc s -> fastq kf kc (delete_vertex v s).
Proof.
  intros Q. unfold delete_vertex. apply fastq_delete_vertex_core.
  apply fastq_del_desc; [intros; apply fastq_delete_edge_core; assumption|].
  apply fastq_del_desc; [intros; apply fastq_delete_face_core; assumption|].
  apply fastq_del_desc; [intros; apply fastq_delete_cell_core; assumption | exact Q].
Qed.

Lemma fastq_gc_pass kf kc n is_del clr core : (forall i s, fastq kf kc s -> fastq kf kc (clr i s)) ->
  (forall i s, fastq kf kc s -> fastq kf kc (core i s)) -> forall s, fastq kf kc s -> fastq kf kc (gc_pass n is_del clr core s).
Proof.
  intros Hc Hk. unfold gc_pass. generalize (rev (seq 0 n)). intros r. induction r as [|i r IH]; intros s Q; [exact Q|].
  simpl. apply IH. destruct (is_del s i); [apply Hk; apply Hc; exact Q | exact Q].
Qed.

Lemma fastq_same kf kc s t : faces t = faces s -> cells t = cells s -> deferred t = deferred s -> fast t = fast s ->
  fastq kf kc s -> fastq kf kc t.
Proof. intros a b c d ([F C]&D&Fa). split; [split; [rewrite a; exact F | rewrite b; exact C] | split; congruence]. Qed.

(* garbage collection in fast mode keeps the valences *)
Lemma kshape_collect_garbage_fast kf kc s : kshape kf kc s -> fast s = true -> kshape kf kc (collect_garbage s) /\ fast (collect_garbage s) = true /\ deferred (collect_garbage s) = deferred s.
Proof.
  intros K Fa. destruct (negb (deferred s) || negb (needs_gc s)) eqn:G.
  { unfold collect_garbage. rewrite G. split; [exact K | split; [exact Fa | reflexivity]]. }
  assert (D : deferred s = true) by (destruct (deferred s); [reflexivity | discriminate]).
  unfold collect_garbage. rewrite G.
  cbv zeta.
  set (s0 := set_flags (vbu s) (ebu s) (fbu s) false (fast s) s).
  assert (Q0 : fastq kf kc s0) by (split; [destruct K; split; assumption | split; [reflexivity | exact Fa]]).
  assert (Hclr : forall (g : nat -> mesh -> mesh), (forall i t, faces (g i t) = faces t /\ cells (g i t) = cells t /\ deferred (g i t) = deferred t /\ fast (g i t) = fast t) ->
                 forall i t, fastq kf kc t -> fastq kf kc (g i t)).
  { intros g Hg i t Q. destruct (Hg i t) as (a&b&c&d). eapply fastq_same; eassumption. }
  assert (Hcnt : forall a b c d t, fastq kf kc t -> fastq kf kc (set_counts a b c d t)).
  { intros a b c d t Q. eapply fastq_same; [| | | | exact Q]; reflexivity. }
  match goal with |- context [gc_pass (nc s0) ?d ?c ?k s0] => pose proof (fastq_gc_pass kf kc (nc s0) d c k) as P1 end.
  specialize (P1 (Hclr _ (fun i t => conj eq_refl (conj eq_refl (conj eq_refl eq_refl)))) (fun i t => fastq_delete_cell_core kf kc i t) s0 Q0).
  match type of P1 with fastq _ _ ?x => set (s1 := x) in * end.
  pose proof (Hcnt (ndv s1) (nde s1) (ndf s1) 0 s1 P1) as P1'. set (s1' := set_counts (ndv s1) (nde s1) (ndf s1) 0 s1) in *.
  match goal with |- context [gc_pass (nf s1') ?d ?c ?k s1'] => pose proof (fastq_gc_pass kf kc (nf s1') d c k) as P2 end.
  specialize (P2 (Hclr _ (fun i t => conj eq_refl (conj eq_refl (conj eq_refl eq_refl)))) (fun i t => fastq_delete_face_core kf kc i t) s1' P1').
  match type of P2 with fastq _ _ ?x => set (s2 := x) in * end.
  pose proof (Hcnt (ndv s2) (nde s2) 0 (ndc s2) s2 P2) as P2'. set (s2' := set_counts (ndv s2) (nde s2) 0 (ndc s2) s2) in *.
  match goal with |- context [gc_pass (ne s2') ?d ?c ?k s2'] => pose proof (fastq_gc_pass kf kc (ne s2') d c k) as P3 end.
  specialize (P3 (Hclr _ (fun i t => conj eq_refl (conj eq_refl (conj eq_refl eq_refl)))) (fun i t => fastq_delete_edge_core kf kc i t) s2' P2').
  match type of P3 with fastq _ _ ?x => set (s3 := x) in * end.
  pose proof (Hcnt (ndv s3) 0 (ndf s3) (ndc s3) s3 P3) as P3'. set (s3' := set_counts (ndv s3) 0 (ndf s3) (ndc s3) s3) in *.
  match goal with |- context [gc_pass (nv s3') ?d ?c ?k s3'] => pose proof (fastq_gc_pass kf kc (nv s3') d c k) as P4 end.
  specialize (P4 (Hclr _ (fun i t => conj eq_refl (conj eq_refl (conj eq_refl eq_refl)))) (fun i t => fastq_delete_vertex_core kf kc i t) s3' P3').
  match type of P4 with fastq _ _ ?x => set (s4 := x) in * end.
  pose proof (Hcnt 0 (nde s4) (ndf s4) (ndc s4) s4 P4) as P4'. set (s4' := set_counts 0 (nde s4) (ndf s4) (ndc s4) s4) in *.
  destruct P4' as ([F4 C4]&_&Fa4). repeat split; cbn; try assumption. rewrite D. reflexivity.
Qed.

(* ---- the fast flag is not touched by additions, deferred deletions and the collapse loop *)
Lemma fast_add_edge s a b d : fast (fst (add_edge s a b d)) = fast s.
Proof.
  unfold add_edge, append_edge. cbv zeta.
  destruct d; [|destruct (find_dup_edge s a b); [reflexivity|]]; cbn [fst];
    repeat match goal with |- context [if ?c then _ else _] => destruct c end; reflexivity.
Qed.
Lemma fast_add_face s hes chk : fast (fst (add_face s hes chk)) = fast s.
Proof.
  unfold add_face, append_face. cbv zeta. destruct (chk && negb (loop_ok s hes)); [reflexivity|]. cbn [fst].
  repeat match goal with |- context [if ?c then _ else _] => destruct c end; reflexivity.
Qed.
Lemma fast_add_cell s hfs chk : fast (fst (add_cell s hfs chk)) = fast s.
Proof.
  unfold add_cell, append_cell. cbv zeta. destruct (chk && negb (cell_check s hfs)); [reflexivity|].
  match goal with |- context [if fbu ?x then _ else _] => destruct (fbu x) end; cbn [fst]; [|reflexivity].
  match goal with |- context [if ebu ?x then _ else _] => destruct (ebu x) end; [rewrite fast_reorder_edges|]; reflexivity.
Qed.
Lemma fast_tet_add_halfedge s a b : fast (fst (tet_add_halfedge s a b)) = fast s.
Proof.
  unfold tet_add_halfedge. destruct (find_halfedge s a b); [reflexivity|].
  pose proof (fast_add_edge s a b false) as H. destruct (add_edge s a b false). exact H.
Qed.
Lemma fast_tet_add_halfface s hes chk : fast (fst (tet_add_halfface s hes chk)) = fast s.
Proof.
  unfold tet_add_halfface, tet_add_face. destruct (find_halfface_hes s _ _); [reflexivity|].
  destruct (negb (length hes =? 3)); [reflexivity|].
  pose proof (fast_add_face s hes chk) as H. destruct (add_face s hes chk). exact H.
Qed.
Lemma fast_tet_add_cell s hfs chk : fast (fst (tet_add_cell s hfs chk)) = fast s.
Proof. unfold tet_add_cell. destruct (negb _); [reflexivity|]. destruct (negb _); [reflexivity|]. destruct (_ && _); [reflexivity | apply fast_add_cell]. Qed.

Lemma fast_dstep s t a b c d : dstep s t a b c d -> fast t = fast s.
Proof. intros (_&_&_&_&_&_&_&_&_&_&_&_&(_&_&_&_&F)&_). exact F. Qed.

Lemma fast_collapse_he a b acc he : fast (fst (collapse_he a b acc he)) = fast (fst acc).
Proof.
  destruct acc as [s nhes]. unfold collapse_he. cbv zeta.
  match goal with |- context [tet_add_halfedge s ?x ?y] =>
    pose proof (fast_tet_add_halfedge s x y) as H; destruct (tet_add_halfedge s x y) as [s1 h'] end. exact H.
Qed.
Lemma fast_fold_collapse_he a b l : forall acc, fast (fst (fold_left (collapse_he a b) l acc)) = fast (fst acc).
Proof. induction l as [|x l IH]; intros acc; [reflexivity|]. simpl. rewrite IH. apply fast_collapse_he. Qed.

Lemma fast_collapse_hf a b acc hf r v : (forall p, acc = Some p -> fast (fst p) = v) -> collapse_hf a b acc hf = Some r -> fast (fst r) = v.
Proof.
  intros H. unfold collapse_hf, bind. destruct acc as [[s nhfs]|]; [|discriminate]. specialize (H _ eq_refl). cbn [fst] in H.
  destruct (rd (halfface s hf) 0) as [h0|]; [|discriminate]. destruct (rd (halfface s hf) 1) as [h1|]; [|discriminate].
  destruct (rd (halfface s hf) 2) as [h2|]; [|discriminate].
  pose proof (fast_fold_collapse_he a b [h0; h1; h2] (s, [])) as H1.
  destruct (fold_left (collapse_he a b) [h0; h1; h2] (s, [])) as [s1 nhes]. cbn [fst] in H1.
  pose proof (fast_tet_add_halfface s1 nhes false) as H2. destruct (tet_add_halfface s1 nhes false) as [s2 [hfh|]]; [|discriminate].
  intros E. inversion E. cbn [fst] in *. change (fast s2 = v). congruence.
Qed.
Lemma fast_fold_collapse_hf a b l v : forall acc r, (forall p, acc = Some p -> fast (fst p) = v) ->
  fold_left (collapse_hf a b) l acc = Some r -> fast (fst r) = v.
Proof.
  induction l as [|x l IH]; intros acc r H E; [simpl in E; apply H; exact E|].
  simpl in E. eapply IH; [| exact E]. intros p Hp. eapply fast_collapse_hf; eassumption.
Qed.

Lemma fast_collapse_cell a b coll acc ch r v : (forall p, acc = Some p -> dshape (fst p) /\ fast (fst p) = v) ->
  collapse_cell a b coll acc ch = Some r -> fast (fst r) = v.
Proof.
  intros H. unfold collapse_cell, bind. destruct acc as [[s news]|] eqn:Ea; [|discriminate].
  destruct (H _ eq_refl) as [Hd Hf]. cbn [fst] in *.
  destruct (memb ch coll); [intros E; inversion E; exact Hf|].
  destruct (rd (cells s) ch) as [hfhs|]; [|discriminate].
  destruct (rd hfhs 0) as [h0|]; [|discriminate]. destruct (rd hfhs 1) as [h1|]; [|discriminate].
  destruct (rd hfhs 2) as [h2|]; [|discriminate]. destruct (rd hfhs 3) as [h3|]; [|discriminate].
  destruct (fold_left (collapse_hf a b) [h0; h1; h2; h3] (Some (s, []))) as [[s1 nhfs]|] eqn:E1; [|discriminate].
  intros E. inversion E. cbn [fst].
  assert (F1 : fast s1 = v) by (refine (fast_fold_collapse_hf a b _ v _ (s1, nhfs) _ E1); intros p Hp; inversion Hp; exact Hf).
  assert (D1 : dshape s1) by (refine (dshape_fold_collapse_hf a b _ _ (s1, nhfs) _ E1); intros p Hp; inversion Hp; exact Hd).
  rewrite (fast_dstep _ _ _ _ _ _ (delete_cell_deferred ch s1 (proj2 D1))). exact F1.
Qed.

Lemma fast_fold_collapse_cell a b coll l v : forall acc r, (forall p, acc = Some p -> dshape (fst p) /\ fast (fst p) = v) ->
  fold_left (collapse_cell a b coll) l acc = Some r -> fast (fst r) = v.
Proof.
  induction l as [|x l IH]; intros acc r H E; [simpl in E; exact (proj2 (H _ E))|].
  simpl in E. eapply IH; [| exact E]. intros p Hp. split.
  - eapply dshape_collapse_cell; [| exact Hp]. intros q Hq. exact (proj1 (H q Hq)).
  - eapply fast_collapse_cell; eassumption.
Qed.

Lemma fast_fold_readd l v : forall acc r, (forall s, acc = Some s -> fast s = v) -> fold_left collapse_readd l acc = Some r -> fast r = v.
Proof.
  induction l as [|n l IH]; intros acc r H E; [simpl in E; apply H; exact E|].
  simpl in E. eapply IH; [| exact E]. intros s1 Hs. unfold collapse_readd, bind in Hs. destruct acc as [s|]; [|discriminate].
  pose proof (fast_tet_add_cell s (snd n) false) as H2. destruct (tet_add_cell s (snd n) false) as [s2 [c|]]; [|discriminate].
  inversion Hs. cbn [fst] in *. rewrite <- (H s eq_refl). exact H2.
Qed.

(* collapse_edge called in immediate + fast mode (it ends in a garbage collection) keeps the valences *)
Theorem collapse_edge_immediate_fast s he s' r : tet_shape s -> deferred s = false -> fast s = true ->
  collapse_edge s he = Some (s', r) -> tet_shape s' /\ deferred s' = false /\ fast s' = true.
Proof.
  intros K D Fa. unfold collapse_edge. rewrite D. cbn [negb]. cbv zeta. unfold bind.
  set (t := enable_deferred true s).
  assert (Dt : dshape t /\ fast t = true).
  { unfold t, enable_deferred. rewrite D. cbn [andb]. split; [split; [destruct K; split; assumption | reflexivity] | exact Fa]. }
  destruct (fold_left (collapse_cell (he_from t he) (he_to t he) (collapsing_cells t he)) (vertex_cells t (he_from t he)) (Some (t, [])))
    as [[s1 news]|] eqn:E1; [|discriminate].
  assert (H1 : dshape s1) by (refine (dshape_fold_collapse_cell _ _ _ _ _ _ _ E1); intros p Hp; inversion Hp; exact (proj1 Dt)).
  assert (F1 : fast s1 = true) by (refine (fast_fold_collapse_cell _ _ _ _ true _ (s1, news) _ E1); intros p Hp; inversion Hp; exact Dt).
  destruct (fold_left collapse_readd news (Some (delete_vertex (he_from t he) s1))) as [s3|] eqn:E3; [|discriminate].
  assert (H3 : dshape s3) by (refine (dshape_fold_readd _ _ _ _ E3); intros p Hp; inversion Hp; apply dshape_delete_vertex; exact H1).
  assert (F3 : fast s3 = true).
  { refine (fast_fold_readd _ true _ _ _ E3). intros p Hp. inversion Hp.
    rewrite (fast_dstep _ _ _ _ _ _ (delete_vertex_deferred (he_from t he) s1 (proj2 H1))). exact F1. }
  intros E. inversion E. destruct H3 as [K3 D3]. unfold enable_deferred. rewrite D3. cbn [negb andb].
  destruct (kshape_collect_garbage_fast 3 4 s3 K3 F3) as (Kg&Fg&Dg). repeat split; try (cbn; assumption).
  - destruct Kg; assumption.
  - destruct Kg; assumption.
Qed.

(* ================================================================== 8. the invariant over histories *)

(* Operations OUTSIDE the proved part of the invariant: physical removal of entities in SLOW mode (deletion with
   deferred and fast deletion both off, a garbage collection / switch to immediate deletion that has something to
   collect while fast deletion is off, a collapse called in immediate slow mode, which ends in one), and set_face /
   set_cell, which are not tet operations of the property.  Everything else is inside: all additions in every form,
   accepted or rejected, every deletion / garbage collection / collapse in deferred or fast mode, index swaps, mode
   switches, clear, property operations. *)
Definition outside_partial (s : mesh) (o : top) : bool :=
  match o with
  | TK (DelVertex _) | TK (DelEdge _) | TK (DelFace _) | TK (DelCell _) => negb (deferred s) && negb (fast s)
  | TK CollectGarbage => deferred s && needs_gc s && negb (fast s)
  | TK (EnableDeferred b) => deferred s && negb b && needs_gc s && negb (fast s)
  | TK (SetFace _ _) | TK (SetCell _ _) => true
  | TCollapse _ => negb (deferred s) && negb (fast s)
  | _ => false
  end.

Lemma kshape_of_fastq kf kc s : fastq kf kc s -> kshape kf kc s. Proof. intros [K _]. exact K. Qed.

Lemma kshape_delete_any kf kc (del : nat -> mesh -> mesh) x s :
  (forall y t, deferred t = true -> same_fc t (del y t)) -> (forall y t, fastq kf kc t -> fastq kf kc (del y t)) ->
  kshape kf kc s -> negb (deferred s) && negb (fast s) = false -> kshape kf kc (del x s).
Proof.
  intros Hd Hf K O. destruct (deferred s) eqn:D.
  - eapply kshape_same; [apply Hd; exact D | exact K].
  - destruct (fast s) eqn:Fa; [|discriminate]. apply kshape_of_fastq. apply Hf. split; [exact K | split; assumption].
Qed.

Lemma shape_exec_kernel kf kc s k s' r :
  kshape kf kc s -> valid_op s k = true -> outside_partial s (TK k) = false ->
  (forall hes c, k <> AddFace hes c) -> (forall vs, k <> AddFaceV vs) -> (forall hfs c, k <> AddCell hfs c) ->
  exec s k = (s', r) -> kshape kf kc s'.
Proof.
  intros K V O NF NV NC E. destruct k; cbn [exec] in E; cbn [outside_partial] in O; cbn [valid_op] in V;
    try (exfalso; eapply NF; reflexivity); try (exfalso; eapply NV; reflexivity); try (exfalso; eapply NC; reflexivity);
    try discriminate.
  - (* AddVertex *) pose proof (fc_add_vertex s) as H. destruct (add_vertex s). inversion E; subst. eapply kshape_same; eassumption.
  - inversion E; subst. eapply kshape_same; [apply fc_add_n_vertices | exact K].
  - pose proof (fc_add_edge s a b dup) as H. destruct (add_edge s a b dup). inversion E; subst. eapply kshape_same; eassumption.
  - inversion E; subst. eapply kshape_same; [apply fc_set_edge | exact K].
  - (* DelVertex *) inversion E; subst. apply (kshape_delete_any kf kc delete_vertex); try assumption.
    + intros y t D. exact (fc_dstep _ _ _ _ _ _ (delete_vertex_deferred y t D)).
    + intros y t. apply fastq_delete_vertex.
  - inversion E; subst. apply (kshape_delete_any kf kc delete_edge); try assumption.
    + intros y t D. exact (fc_dstep _ _ _ _ _ _ (delete_edge_deferred y t D)).
    + intros y t. apply fastq_delete_edge.
  - inversion E; subst. apply (kshape_delete_any kf kc delete_face); try assumption.
    + intros y t D. exact (fc_dstep _ _ _ _ _ _ (delete_face_deferred y t D)).
    + intros y t. apply fastq_delete_face.
  - inversion E; subst. apply (kshape_delete_any kf kc delete_cell); try assumption.
    + intros y t D. exact (fc_dstep _ _ _ _ _ _ (delete_cell_deferred y t D)).
    + intros y t. apply fastq_delete_cell.
  - (* SwapV *) inversion E; subst. eapply kshape_same; [exact (proj1 (swap_vertex_fc a b s)) | exact K].
  - (* SwapE *) inversion E; subst. destruct K as [F C]. destruct (swap_edge_fc kf a b s F) as (f&c&_). split; [exact f | rewrite c; exact C].
  - (* SwapF *) inversion E; subst. destruct K as [F C]. destruct (swap_face_fc kc a b s C) as (f&c&_).
    apply andb_true_iff in V. destruct V as [Va Vb]. apply Nat.ltb_lt in Va, Vb. split; [|exact c].
    rewrite f. destruct (a =? b); [exact F | apply (Forall_swap_nth (lenP kf)); assumption].
  - (* SwapC *) inversion E; subst. destruct K as [F C]. destruct (swap_cell_fc a b s) as (f&c&_).
    apply andb_true_iff in V. destruct V as [Va Vb]. apply Nat.ltb_lt in Va, Vb. split; [rewrite f; exact F|].
    rewrite c. destruct (a =? b); [exact C | apply (Forall_swap_nth (lenP kc)); assumption].
  - (* GC *) inversion E; subst. destruct (deferred s && needs_gc s) eqn:G.
    + cbn [andb] in O. apply negb_false_iff in O. exact (proj1 (kshape_collect_garbage_fast kf kc s K O)).
    + rewrite collect_garbage_noop by exact G. exact K.
  - inversion E; subst. apply kshape_clear.
  - inversion E; subst. eapply kshape_same; [apply fc_enable_vbu | exact K].
  - inversion E; subst. eapply kshape_same; [apply fc_enable_ebu | exact K].
  - inversion E; subst. eapply kshape_same; [apply fc_enable_fbu | exact K].
  - (* EnableDeferred *) inversion E; subst. unfold enable_deferred.
    destruct (deferred s && negb b) eqn:Db.
    + cbn [andb] in O. destruct (needs_gc s) eqn:G.
      * cbn [andb] in O. apply negb_false_iff in O. destruct (kshape_collect_garbage_fast kf kc s K O) as ([F C]&_). split; assumption.
      * rewrite collect_garbage_noop; [destruct K; split; assumption | rewrite G; apply andb_false_r].
    + destruct K; split; assumption.
  - inversion E; subst. destruct K; split; assumption.
  - inversion E; subst. destruct K; split; assumption.
  - inversion E; subst. destruct K; split; assumption.
  - inversion E; subst. destruct K; split; assumption.
Qed.

Theorem tet_shape_step s o s' r : tet_shape s -> outside_partial s o = false -> tet_step s o = TOk s' r -> tet_shape s'.
Proof.
  intros K O. unfold tet_step. destruct (tet_valid s o) eqn:V; [|discriminate].
  destruct (tet_exec s o) as [[s1 r1]|] eqn:E; [|discriminate]. intros H. inversion H; subst. clear H.
  destruct o as [k|vs chk|a b c d chk|a b|a b c chk|hes chk|he]; cbn [tet_exec] in E; cbn [tet_valid] in V.
  - destruct k; try (some_inj E E'; unfold tet_shape in *; eapply (shape_exec_kernel 3 4); [exact K | exact V | exact O | | | | exact E']; intros; discriminate).
    + some_inj E E'. pose proof (shape_tet_add_face s hes check K) as H. rewrite E' in H. exact H.
    + some_inj E E'. pose proof (shape_tet_add_face_v s vs K) as H. rewrite E' in H. exact H.
    + some_inj E E'. pose proof (shape_tet_add_cell s hfs check K) as H. rewrite E' in H. exact H.
  - some_inj E E'. pose proof (shape_tet_add_cell_v s vs chk K) as H. rewrite E' in H. exact H.
  - exact (shape_tet_add_cell_4 s a b c d chk _ K E).
  - pose proof (fc_tet_add_halfedge s a b) as H. destruct (tet_add_halfedge s a b) as [s2 h]. inversion E; subst.
    eapply kshape_same; eassumption.
  - some_inj E E'. pose proof (shape_tet_add_halfface_v s a b c chk K) as H. rewrite E' in H. exact H.
  - some_inj E E'. pose proof (shape_tet_add_halfface s hes chk K) as H. rewrite E' in H. exact H.
  - cbn [outside_partial] in O. unfold bind in E.
    destruct (collapse_edge s he) as [[s2 v]|] eqn:C; [|discriminate]. inversion E; subst.
    destruct (deferred s) eqn:D.
    + exact (proj1 (proj1 (collapse_edge_deferred s he s' v (conj K D) C))).
    + destruct (fast s) eqn:Fa; [|discriminate]. exact (proj1 (collapse_edge_immediate_fast s he s' v K D Fa C)).
Qed.

(* a history all of whose executed steps are inside the proved part *)
Fixpoint inside_along (s : mesh) (ops : list top) : Prop :=
  match ops with
  | [] => True
  | o :: t => match tet_step s o with
              | TOk s' _ => outside_partial s o = false /\ inside_along s' t
              | _ => inside_along s t
              end
  end.

Theorem tet_shape_run_from : forall ops s, tet_shape s -> inside_along s ops -> tet_shape (tet_run_from s ops).
Proof.
  induction ops as [|o t IH]; intros s K H; [exact K|].
  unfold tet_run_from. simpl. fold (tet_run_from (match tet_step s o with TOk s' _ => s' | _ => s end) t).
  simpl in H. destruct (tet_step s o) as [s' r| |] eqn:E.
  - destruct H as [O H]. apply IH; [eapply tet_shape_step; eassumption | exact H].
  - apply IH; assumption.
  - apply IH; assumption.
Qed.

Lemma tet_shape_empty : tet_shape empty_mesh.
Proof. split; constructor. Qed.

Theorem tet_shape_run ops : inside_along empty_mesh ops -> tet_shape (tet_run ops).
Proof. apply tet_shape_run_from. apply tet_shape_empty. Qed.

(* non-vacuity: a history with immediate fast deletions, a garbage collection, swaps and collapses in three modes *)
Example inside_history_with_removals :
  let ops := [TK (AddVertices 6); TAddCellV [0; 1; 2; 3] true; TAddCellV [0; 1; 3; 4] true; TAddCell4 0 1 4 5 false;
              TK (SwapF 0 3); TK (SwapC 0 2); TCollapse 0; TK CollectGarbage;
              TK (EnableDeferred false); TAddCellV [0; 1; 2; 3] true; TAddCellV [0; 1; 3; 4] true; TK (DelFace 0); TCollapse 2] in
  inside_along empty_mesh ops /\ nc (tet_run ops) = 1 /\ nf (tet_run ops) = 4.
Proof. vm_compute. repeat split. Qed.

(* ================================================================== 9. four distinct vertices *)

(* the property's shape: valences AND every live cell on exactly four distinct vertices *)
Definition cell_vertex_set (s : mesh) (c : nat) : list nat := set_of_list (flat_map (hf_vertices s) (cell_at s c)).
Definition tet_shape_full (s : mesh) : Prop :=
  tet_shape s /\ forall c, live_c s c = true -> length (cell_vertex_set s c) = 4.

Lemma edges_reorder_edges es : forall s, edges (reorder_edges es s) = edges s.
Proof.
  unfold reorder_edges. induction es as [|e es IH]; intros s; [reflexivity|]. simpl. rewrite IH.
  unfold reorder_incident_halffaces. destruct (reorder_list s e); reflexivity.
Qed.

Lemma edges_append_cell s hfs : edges (fst (append_cell s hfs)) = edges s.
Proof.
  unfold append_cell. cbv zeta.
  match goal with |- context [if fbu ?x then _ else _] => destruct (fbu x) end; cbn [fst]; [|reflexivity].
  match goal with |- context [if ebu ?x then _ else _] => destruct (ebu x) end; [rewrite edges_reorder_edges|]; reflexivity.
Qed.

Lemma hf_vertices_same s t hf : faces t = faces s -> edges t = edges s -> hf_vertices t hf = hf_vertices s hf.
Proof.
  intros F E. unfold hf_vertices, halfface, face_at. rewrite F. apply map_ext. intros h. unfold he_from, edge_at. rewrite E. reflexivity.
Qed.

(* a cell accepted by the topology-checked add_cell(halffaces) has exactly four distinct vertices (fix "checked tet
   add_cell must reject four triangles that are not a tetrahedron") *)
Theorem tet_add_cell_checked_four_vertices s hfs s' c : tet_add_cell s hfs true = (s', Some c) ->
  c = nc s /\ cell_at s' c = hfs /\ length hfs = 4 /\ length (cell_vertex_set s' c) = 4.
Proof.
  unfold tet_add_cell. destruct (Nat.eqb_spec (length hfs) 4) as [L|L]; cbn [negb]; [|discriminate].
  destruct (negb (forallb _ hfs)); [discriminate|]. cbn [andb].
  destruct (Nat.eqb_spec (length (hfs_vertex_set s hfs)) 4) as [V|V]; cbn [negb andb]; [|discriminate].
  destruct (hfs_triple_count s hfs =? 4); cbn [negb]; [|discriminate].
  unfold add_cell. destruct (true && negb (cell_check s hfs)); [discriminate|].
  destruct (fc_append_cell s hfs) as (a&b&_). pose proof (edges_append_cell s hfs) as e.
  assert (R : snd (append_cell s hfs) = nc s) by (unfold append_cell; cbv zeta; destruct (fbu _); reflexivity).
  destruct (append_cell s hfs) as [s1 c1]. cbn [fst snd] in *. intros H. inversion H; subst s1 c1. subst c.
  assert (X : cell_at s' (nc s) = hfs) by (unfold cell_at, nc; rewrite b, app_nth2, Nat.sub_diag by lia; reflexivity).
  repeat split; try assumption. unfold cell_vertex_set. rewrite X. unfold hfs_vertex_set in V. rewrite <- V. do 2 f_equal.
  apply flat_map_ext. intros hf. apply hf_vertices_same; assumption.
Qed.

(* what the guards of the topology-checked add_cell(halffaces) establish (since the fix "checked tet add_cell must reject four
   triangles on fewer than four vertex triples" also: no two of the four halffaces have the same vertex SET) *)
Lemma distinct_vsets_length_le l : length (distinct_vsets l) <= length l.
Proof. induction l as [|x t IH]; [apply le_n|]. cbn [distinct_vsets length]. destruct (existsb (same_vset x) t); cbn [length]; lia. Qed.

Lemma distinct_vsets_all l : length (distinct_vsets l) = length l ->
  forall i j, i < j -> j < length l -> same_vset (nth i l []) (nth j l []) = false.
Proof.
  induction l as [|x t IH]; intros L i j Hij Hj; [cbn in Hj; lia|]. cbn [distinct_vsets length] in L, Hj.
  pose proof (distinct_vsets_length_le t) as LE.
  destruct (existsb (same_vset x) t) eqn:E; [exfalso; lia|]. cbn [length] in L.
  destruct j as [|j]; [lia|]. destruct i as [|i]; cbn [nth].
  - destruct (same_vset x (nth j t [])) eqn:S; [|reflexivity]. exfalso.
    assert (X : existsb (same_vset x) t = true) by (apply existsb_exists; exists (nth j t []); split; [apply nth_In; lia | exact S]). congruence.
  - apply IH; lia.
Qed.

Lemma same_vset_spec a b : same_vset a b = true <-> (incl a b /\ incl b a).
Proof.
  unfold same_vset, incl. rewrite andb_true_iff, !forallb_forall. split; intros [H1 H2]; split; intros x Hx; apply memb_In; auto.
Qed.

Lemma same_vset_refl a : same_vset a a = true.
Proof. apply same_vset_spec. split; apply incl_refl. Qed.

Theorem tet_add_cell_checked_guards s hfs s' c : tet_add_cell s hfs true = (s', Some c) ->
  length hfs = 4 /\ (forall hf, In hf hfs -> length (face_at s (hf / 2)) = 3) /\ length (hfs_vertex_set s hfs) = 4 /\ NoDup hfs /\
  (forall hf hf', In hf hfs -> In hf' hfs -> hf <> hf' -> ~ (incl (hf_vertices s hf) (hf_vertices s hf') /\ incl (hf_vertices s hf') (hf_vertices s hf))) /\
  add_cell s hfs true = (s', Some c).
Proof.
  unfold tet_add_cell. destruct (Nat.eqb_spec (length hfs) 4) as [L|L]; cbn [negb]; [|discriminate].
  destruct (forallb (fun hf => length (face_at s (hf / 2)) =? 3) hfs) eqn:F3; cbn [negb]; [|discriminate]. cbn [andb].
  destruct (Nat.eqb_spec (length (hfs_vertex_set s hfs)) 4) as [V|V]; cbn [negb andb]; [|discriminate].
  destruct (Nat.eqb_spec (hfs_triple_count s hfs) 4) as [T|T]; cbn [negb]; [|discriminate]. intros A.
  rewrite forallb_forall in F3.
  assert (ALL : forall i j, i < j -> j < 4 -> same_vset (hf_vertices s (nth i hfs 0)) (hf_vertices s (nth j hfs 0)) = false).
  { intros i j Hij Hj. unfold hfs_triple_count in T.
    pose proof (distinct_vsets_all (map (hf_vertices s) hfs) ltac:(rewrite map_length; lia) i j Hij ltac:(rewrite map_length; lia)) as X.
    rewrite <- (map_nth (hf_vertices s) hfs 0 i), <- (map_nth (hf_vertices s) hfs 0 j).
    rewrite (nth_indep _ [] (hf_vertices s 0)) in X by (rewrite map_length; lia).
    rewrite (nth_indep (map (hf_vertices s) hfs) [] (hf_vertices s 0)) in X by (rewrite map_length; lia). exact X. }
  assert (DIFF : forall i j, i < 4 -> j < 4 -> i <> j -> same_vset (hf_vertices s (nth i hfs 0)) (hf_vertices s (nth j hfs 0)) = false).
  { intros i j Hi Hj N. destruct (Nat.lt_ge_cases i j) as [Lt|Ge]; [apply ALL; assumption|].
    assert (Lt : j < i) by lia. pose proof (ALL j i Lt Hi) as X. destruct (same_vset (hf_vertices s (nth i hfs 0)) (hf_vertices s (nth j hfs 0))) eqn:S; [|reflexivity].
    apply same_vset_spec in S. destruct S as [S1 S2]. assert (Y : same_vset (hf_vertices s (nth j hfs 0)) (hf_vertices s (nth i hfs 0)) = true) by (apply same_vset_spec; auto).
    congruence. }
  split; [exact L|]. split; [intros hf Hh; apply Nat.eqb_eq; exact (F3 hf Hh)|]. split; [exact V|]. split; [|split; [|exact A]].
  - apply (proj2 (NoDup_nth hfs 0)). intros i j Hi Hj E. destruct (Nat.eq_dec i j) as [|N]; [assumption|]. exfalso.
    pose proof (DIFF i j ltac:(lia) ltac:(lia) N) as X. rewrite E, same_vset_refl in X. discriminate.
  - intros hf hf' Hh Hh' N [I1 I2]. destruct (In_nth hfs hf 0 Hh) as (i & Hi & Ei). destruct (In_nth hfs hf' 0 Hh') as (j & Hj & Ej).
    assert (Nij : i <> j) by (intros ->; congruence).
    pose proof (DIFF i j ltac:(lia) ltac:(lia) Nij) as X. rewrite Ei, Ej in X.
    assert (Y : same_vset (hf_vertices s hf) (hf_vertices s hf') = true) by (apply same_vset_spec; auto). congruence.
Qed.

(* the former counterexample (two "pillows": four triangles, six vertices) is now rejected, the mesh unchanged *)
Definition two_pillows : list top :=
  [TK (AddVertices 6);
   TK (AddFaceV [0; 1; 2]); TK (AddFace [0; 2; 4] false);
   TK (AddFaceV [3; 4; 5]); TK (AddFace [6; 8; 10] false)].

Example two_pillows_rejected :
  tet_step (tet_run two_pillows) (TK (AddCell [0; 3; 4; 7] true)) = TOk (tet_run two_pillows) None /\
  cell_check (tet_run two_pillows) [0; 3; 4; 7] = true.
Proof. vm_compute. split; reflexivity. Qed.

(* the full statement "every cell has four distinct vertices after any sequence of additions" remains false for the
   UNCHECKED add_cell(halffaces), which stores whatever four triangles it is given (here: one halfface four times) *)
Lemma tet_shape_full_unchecked_refuted :
  exists ops, inside_along empty_mesh ops /\ ~ tet_shape_full (tet_run ops).
Proof.
  exists [TK (AddVertices 3); TK (AddFaceV [0; 1; 2]); TK (AddCell [0; 0; 0; 0] false)].
  split; [vm_compute; repeat split|]. intros [_ H]. specialize (H 0 eq_refl). vm_compute in H. discriminate.
Qed.

(* ================================================================== 10. property values across collapse_edge *)

From OVM Require Import Kernel.Sizes.

(* ---- (a) every property array keeps exactly one element per slot, in every deletion mode *)
Lemma szd_swap_prop k i j s : szd s -> szd (swap_prop_elems k i j s).
Proof.
  intros (a&b&c&d&e&f&g&h&i0&j0&k0). unfold swap_prop_elems.
  destruct k; repeat split; cbn; try assumption; apply psized_map_pswap; assumption.
Qed.

Lemma szd_tet_add_halfedge s a b : szd s -> szd (fst (tet_add_halfedge s a b)).
Proof.
  intros Z. unfold tet_add_halfedge. destruct (find_halfedge s a b); [exact Z|].
  pose proof (szd_add_edge s a b false Z) as H. destruct (add_edge s a b false). exact H.
Qed.

Lemma szd_tet_add_halfface s hes chk : szd s -> szd (fst (tet_add_halfface s hes chk)).
Proof.
  intros Z. unfold tet_add_halfface, tet_add_face. destruct (find_halfface_hes s _ _); [exact Z|].
  destruct (negb (length hes =? 3)); [exact Z|].
  pose proof (szd_add_face s hes chk Z) as H. destruct (add_face s hes chk). exact H.
Qed.

Lemma szd_tet_add_cell s hfs chk : szd s -> szd (fst (tet_add_cell s hfs chk)).
Proof.
  intros Z. unfold tet_add_cell. destruct (negb _); [exact Z|]. destruct (negb _); [exact Z|]. destruct (_ && _); [exact Z|].
  apply szd_add_cell. exact Z.
Qed.

Lemma nv_tet_add_halfedge s a b : nv (fst (tet_add_halfedge s a b)) = nv s.
Proof.
  unfold tet_add_halfedge, add_edge, append_edge. destruct (find_halfedge s a b); [reflexivity|]. cbv zeta.
  destruct (find_dup_edge s a b); [reflexivity|]. cbn [fst].
  repeat match goal with |- context [if ?c then _ else _] => destruct c end; reflexivity.
Qed.

Lemma nv_tet_add_halfface s hes chk : nv (fst (tet_add_halfface s hes chk)) = nv s.
Proof.
  unfold tet_add_halfface, tet_add_face, add_face, append_face. destruct (find_halfface_hes s _ _); [reflexivity|].
  destruct (negb (length hes =? 3)); [reflexivity|]. cbv zeta. destruct (chk && negb (loop_ok s hes)); [reflexivity|]. cbn [fst option_map].
  repeat match goal with |- context [if ?c then _ else _] => destruct c end; reflexivity.
Qed.

Definition szn (n : nat) (s : mesh) : Prop := szd s /\ nv s = n.

Lemma szn_collapse_he n a b acc he : szn n (fst acc) -> szn n (fst (collapse_he a b acc he)).
Proof.
  destruct acc as [s nhes]. intros [Z N]. unfold collapse_he. cbv zeta.
  match goal with |- context [tet_add_halfedge s ?x ?y] =>
    pose proof (szd_tet_add_halfedge s x y Z) as H; pose proof (nv_tet_add_halfedge s x y) as Hn; destruct (tet_add_halfedge s x y) as [s1 h'] end.
  cbn [fst] in *. split; [apply szd_swap_prop; exact H | cbn; congruence].
Qed.

Lemma szn_fold_collapse_he n a b l : forall acc, szn n (fst acc) -> szn n (fst (fold_left (collapse_he a b) l acc)).
Proof. induction l as [|x l IH]; intros acc H; [exact H|]. simpl. apply IH. apply szn_collapse_he. exact H. Qed.

Lemma szn_collapse_hf n a b acc hf r : (forall p, acc = Some p -> szn n (fst p)) -> collapse_hf a b acc hf = Some r -> szn n (fst r).
Proof.
  intros H. unfold collapse_hf, bind. destruct acc as [[s nhfs]|]; [|discriminate]. specialize (H _ eq_refl). cbn [fst] in H.
  destruct (rd (halfface s hf) 0) as [h0|]; [|discriminate]. destruct (rd (halfface s hf) 1) as [h1|]; [|discriminate].
  destruct (rd (halfface s hf) 2) as [h2|]; [|discriminate].
  pose proof (szn_fold_collapse_he n a b [h0; h1; h2] (s, []) H) as [Z1 N1].
  destruct (fold_left (collapse_he a b) [h0; h1; h2] (s, [])) as [s1 nhes]. cbn [fst] in *.
  pose proof (szd_tet_add_halfface s1 nhes false Z1) as H2. pose proof (nv_tet_add_halfface s1 nhes false) as N2.
  destruct (tet_add_halfface s1 nhes false) as [s2 [hfh|]]; [|discriminate].
  intros E. inversion E. cbn [fst] in *. split; [apply szd_swap_prop; exact H2 | cbn; congruence].
Qed.

Lemma szn_fold_collapse_hf n a b l : forall acc r, (forall p, acc = Some p -> szn n (fst p)) ->
  fold_left (collapse_hf a b) l acc = Some r -> szn n (fst r).
Proof.
  induction l as [|x l IH]; intros acc r H E; [simpl in E; apply H; exact E|].
  simpl in E. eapply IH; [| exact E]. intros p Hp. eapply szn_collapse_hf; eassumption.
Qed.

Lemma nv_delete_cell c s : nv (delete_cell c s) = nv s.
Proof. apply nv_delete_cell_core. Qed.

Lemma szn_collapse_cell n a b coll acc ch r : (forall p, acc = Some p -> szn n (fst p)) ->
  collapse_cell a b coll acc ch = Some r -> szn n (fst r).
Proof.
  intros H. unfold collapse_cell, bind. destruct acc as [[s news]|]; [|discriminate]. specialize (H _ eq_refl). cbn [fst] in H.
  destruct (memb ch coll); [intros E; inversion E; exact H|].
  destruct (rd (cells s) ch) as [hfhs|]; [|discriminate].
  destruct (rd hfhs 0) as [h0|]; [|discriminate]. destruct (rd hfhs 1) as [h1|]; [|discriminate].
  destruct (rd hfhs 2) as [h2|]; [|discriminate]. destruct (rd hfhs 3) as [h3|]; [|discriminate].
  destruct (fold_left (collapse_hf a b) [h0; h1; h2; h3] (Some (s, []))) as [[s1 nhfs]|] eqn:E1; [|discriminate].
  intros E. inversion E. cbn [fst].
  assert (Z1 : szn n s1) by (refine (szn_fold_collapse_hf n a b _ _ (s1, nhfs) _ E1); intros p Hp; inversion Hp; exact H).
  destruct Z1 as [Z1 N1]. split; [apply szd_delete_cell; exact Z1 | rewrite nv_delete_cell; exact N1].
Qed.

Lemma szn_fold_collapse_cell n a b coll l : forall acc r, (forall p, acc = Some p -> szn n (fst p)) ->
  fold_left (collapse_cell a b coll) l acc = Some r -> szn n (fst r).
Proof.
  induction l as [|x l IH]; intros acc r H E; [simpl in E; apply H; exact E|].
  simpl in E. eapply IH; [| exact E]. intros p Hp. eapply szn_collapse_cell; eassumption.
Qed.

Lemma szd_fold_readd l : forall acc r, (forall s, acc = Some s -> szd s) -> fold_left collapse_readd l acc = Some r -> szd r.
Proof.
  induction l as [|n l IH]; intros acc r H E; [simpl in E; apply H; exact E|].
  simpl in E. eapply IH; [| exact E]. intros s1 Hs. unfold collapse_readd, bind in Hs. destruct acc as [s|]; [|discriminate].
  pose proof (szd_tet_add_cell s (snd n) false (H s eq_refl)) as H2. destruct (tet_add_cell s (snd n) false) as [s2 [c|]]; [|discriminate].
  inversion Hs. apply szd_swap_prop. exact H2.
Qed.

Lemma szd_enable_deferred b s : szd s -> szd (enable_deferred b s).
Proof.
  intros Z. unfold enable_deferred. destruct (deferred s && negb b); apply szd_set_flags; [apply szd_collect_garbage|]; exact Z.
Qed.

Lemma nv_enable_deferred_true s : nv (enable_deferred true s) = nv s.
Proof. unfold enable_deferred. rewrite andb_false_r. reflexivity. Qed.

(* whatever collapse_edge does to the values, in every deletion mode it leaves every flag array and every property
   array with exactly one element per entity slot *)
Theorem collapse_edge_sizes s he s' r : szd s -> he_from s he < nv s -> collapse_edge s he = Some (s', r) -> szd s'.
Proof.
  intros Z Ha. unfold collapse_edge. cbv zeta. unfold bind.
  set (t := if negb (deferred s) then enable_deferred true s else s).
  assert (Zt : szn (nv s) t).
  { unfold t. destruct (negb (deferred s)); [split; [apply szd_enable_deferred; exact Z | apply nv_enable_deferred_true] | split; [exact Z | reflexivity]]. }
  assert (At : he_from t he = he_from s he).
  { unfold t. destruct (negb (deferred s)); [|reflexivity]. unfold enable_deferred. rewrite andb_false_r. reflexivity. }
  destruct (fold_left (collapse_cell (he_from t he) (he_to t he) (collapsing_cells t he)) (vertex_cells t (he_from t he)) (Some (t, [])))
    as [[s1 news]|] eqn:E1; [|discriminate].
  assert (Z1 : szn (nv s) s1) by (refine (szn_fold_collapse_cell _ _ _ _ _ _ (s1, news) _ E1); intros p Hp; inversion Hp; exact Zt).
  destruct (fold_left collapse_readd news (Some (delete_vertex (he_from t he) s1))) as [s3|] eqn:E3; [|discriminate].
  assert (Z3 : szd s3).
  { refine (szd_fold_readd _ _ _ _ E3). intros p Hp. inversion Hp. apply szd_delete_vertex; [exact (proj1 Z1)|].
    rewrite (proj2 Z1), At. exact Ha. }
  intros E. inversion E. apply szd_enable_deferred. exact Z3.
Qed.

(* ---- (b) in deferred mode the vertex and mesh property arrays are not touched at all *)
Definition same_pvm (s t : mesh) : Prop := pv t = pv s /\ pm t = pm s.

Lemma pvm_tet_add_halfedge s a b : same_pvm s (fst (tet_add_halfedge s a b)).
Proof.
  unfold tet_add_halfedge, add_edge, append_edge, same_pvm. destruct (find_halfedge s a b); [split; reflexivity|]. cbv zeta.
  destruct (find_dup_edge s a b); [split; reflexivity|]. cbn [fst].
  repeat match goal with |- context [if ?c then _ else _] => destruct c end; split; reflexivity.
Qed.
Lemma pvm_tet_add_halfface s hes chk : same_pvm s (fst (tet_add_halfface s hes chk)).
Proof.
  unfold tet_add_halfface, tet_add_face, add_face, append_face, same_pvm. destruct (find_halfface_hes s _ _); [split; reflexivity|].
  destruct (negb (length hes =? 3)); [split; reflexivity|]. cbv zeta. destruct (chk && negb (loop_ok s hes)); [split; reflexivity|]. cbn [fst option_map].
  repeat match goal with |- context [if ?c then _ else _] => destruct c end; split; reflexivity.
Qed.
Lemma pv_reorder_edges es : forall s, pv (reorder_edges es s) = pv s /\ pm (reorder_edges es s) = pm s.
Proof.
  unfold reorder_edges. induction es as [|e es IH]; intros s; [split; reflexivity|]. simpl. destruct (IH (reorder_incident_halffaces e s)) as [a b].
  rewrite a, b. unfold reorder_incident_halffaces. destruct (reorder_list s e); split; reflexivity.
Qed.
Lemma pvm_tet_add_cell s hfs chk : same_pvm s (fst (tet_add_cell s hfs chk)).
Proof.
  unfold tet_add_cell, same_pvm. destruct (negb _); [split; reflexivity|]. destruct (negb _); [split; reflexivity|]. destruct (_ && _); [split; reflexivity|].
  unfold add_cell, append_cell. cbv zeta. destruct (chk && negb (cell_check s hfs)); [split; reflexivity|].
  match goal with |- context [if fbu ?x then _ else _] => destruct (fbu x) end; cbn [fst]; [|split; reflexivity].
  match goal with |- context [if ebu ?x then reorder_edges ?es ?x else ?x] => destruct (ebu x); [destruct (pv_reorder_edges es x) as [a b]; rewrite a, b|] end; split; reflexivity.
Qed.
Lemma pvm_dstep s t a b c d : dstep s t a b c d -> same_pvm s t.
Proof. intros (_&_&_&_&_&_&_&_&_&_&_&_&_&P). split; [exact (P KV) | exact (P KM)]. Qed.
Lemma pvm_trans s t u : same_pvm s t -> same_pvm t u -> same_pvm s u.
Proof. intros [a b] [c d]. split; congruence. Qed.

Lemma pvm_collapse_he a b acc he : same_pvm (fst acc) (fst (collapse_he a b acc he)).
Proof.
  destruct acc as [s nhes]. unfold collapse_he. cbv zeta.
  match goal with |- context [tet_add_halfedge s ?x ?y] =>
    pose proof (pvm_tet_add_halfedge s x y) as H; destruct (tet_add_halfedge s x y) as [s1 h'] end. exact H.
Qed.
Lemma pvm_fold_collapse_he a b l : forall acc, same_pvm (fst acc) (fst (fold_left (collapse_he a b) l acc)).
Proof. induction l as [|x l IH]; intros acc; [split; reflexivity|]. simpl. eapply pvm_trans; [apply pvm_collapse_he | apply IH]. Qed.

Lemma pvm_collapse_hf a b acc hf r s0 : (forall p, acc = Some p -> same_pvm s0 (fst p)) -> collapse_hf a b acc hf = Some r -> same_pvm s0 (fst r).
Proof.
  intros H. unfold collapse_hf, bind. destruct acc as [[s nhfs]|]; [|discriminate]. specialize (H _ eq_refl). cbn [fst] in H.
  destruct (rd (halfface s hf) 0) as [h0|]; [|discriminate]. destruct (rd (halfface s hf) 1) as [h1|]; [|discriminate].
  destruct (rd (halfface s hf) 2) as [h2|]; [|discriminate].
  pose proof (pvm_fold_collapse_he a b [h0; h1; h2] (s, [])) as H1.
  destruct (fold_left (collapse_he a b) [h0; h1; h2] (s, [])) as [s1 nhes]. cbn [fst] in H1.
  pose proof (pvm_tet_add_halfface s1 nhes false) as H2. destruct (tet_add_halfface s1 nhes false) as [s2 [hfh|]]; [|discriminate].
  intros E. inversion E. cbn [fst] in *. eapply pvm_trans; [exact H|]. eapply pvm_trans; [exact H1|]. exact H2.
Qed.
Lemma pvm_fold_collapse_hf a b l s0 : forall acc r, (forall p, acc = Some p -> same_pvm s0 (fst p)) ->
  fold_left (collapse_hf a b) l acc = Some r -> same_pvm s0 (fst r).
Proof.
  induction l as [|x l IH]; intros acc r H E; [simpl in E; apply H; exact E|].
  simpl in E. eapply IH; [| exact E]. intros p Hp. eapply pvm_collapse_hf; eassumption.
Qed.

Lemma pvm_collapse_cell a b coll acc ch r s0 : (forall p, acc = Some p -> dshape (fst p) /\ same_pvm s0 (fst p)) ->
  collapse_cell a b coll acc ch = Some r -> same_pvm s0 (fst r).
Proof.
  intros H. unfold collapse_cell, bind. destruct acc as [[s news]|]; [|discriminate]. destruct (H _ eq_refl) as [Hd Hp]. cbn [fst] in *.
  destruct (memb ch coll); [intros E; inversion E; exact Hp|].
  destruct (rd (cells s) ch) as [hfhs|]; [|discriminate].
  destruct (rd hfhs 0) as [h0|]; [|discriminate]. destruct (rd hfhs 1) as [h1|]; [|discriminate].
  destruct (rd hfhs 2) as [h2|]; [|discriminate]. destruct (rd hfhs 3) as [h3|]; [|discriminate].
  destruct (fold_left (collapse_hf a b) [h0; h1; h2; h3] (Some (s, []))) as [[s1 nhfs]|] eqn:E1; [|discriminate].
  intros E. inversion E. cbn [fst].
  assert (P1 : same_pvm s0 s1) by (refine (pvm_fold_collapse_hf a b _ s0 _ (s1, nhfs) _ E1); intros p Hq; inversion Hq; exact Hp).
  assert (D1 : dshape s1) by (refine (dshape_fold_collapse_hf a b _ _ (s1, nhfs) _ E1); intros p Hq; inversion Hq; exact Hd).
  eapply pvm_trans; [exact P1 | exact (pvm_dstep _ _ _ _ _ _ (delete_cell_deferred ch s1 (proj2 D1)))].
Qed.
Lemma pvm_fold_collapse_cell a b coll l s0 : forall acc r, (forall p, acc = Some p -> dshape (fst p) /\ same_pvm s0 (fst p)) ->
  fold_left (collapse_cell a b coll) l acc = Some r -> same_pvm s0 (fst r).
Proof.
  induction l as [|x l IH]; intros acc r H E; [simpl in E; exact (proj2 (H _ E))|].
  simpl in E. eapply IH; [| exact E]. intros p Hp. split.
  - eapply dshape_collapse_cell; [| exact Hp]. intros q Hq. exact (proj1 (H q Hq)).
  - eapply pvm_collapse_cell; eassumption.
Qed.
Lemma pvm_fold_readd l s0 : forall acc r, (forall s, acc = Some s -> same_pvm s0 s) -> fold_left collapse_readd l acc = Some r -> same_pvm s0 r.
Proof.
  induction l as [|n l IH]; intros acc r H E; [simpl in E; apply H; exact E|].
  simpl in E. eapply IH; [| exact E]. intros s1 Hs. unfold collapse_readd, bind in Hs. destruct acc as [s|]; [|discriminate].
  pose proof (pvm_tet_add_cell s (snd n) false) as H2. destruct (tet_add_cell s (snd n) false) as [s2 [c|]]; [|discriminate].
  inversion Hs. eapply pvm_trans; [exact (H s eq_refl) | exact H2].
Qed.

Theorem collapse_edge_vertex_props_deferred s he s' r : dshape s -> collapse_edge s he = Some (s', r) -> pv s' = pv s /\ pm s' = pm s.
Proof.
  intros [K D]. unfold collapse_edge. rewrite D. cbn [negb]. cbv zeta. unfold bind.
  destruct (fold_left (collapse_cell (he_from s he) (he_to s he) (collapsing_cells s he)) (vertex_cells s (he_from s he)) (Some (s, [])))
    as [[s1 news]|] eqn:E1; [|discriminate].
  assert (H1 : dshape s1) by (refine (dshape_fold_collapse_cell _ _ _ _ _ _ _ E1); intros p Hp; inversion Hp; split; assumption).
  assert (P1 : same_pvm s s1).
  { refine (pvm_fold_collapse_cell _ _ _ _ s _ (s1, news) _ E1). intros p Hp. inversion Hp. split; [split; assumption | split; reflexivity]. }
  destruct (fold_left collapse_readd news (Some (delete_vertex (he_from s he) s1))) as [s3|] eqn:E3; [|discriminate].
  assert (P3 : same_pvm s s3).
  { refine (pvm_fold_readd _ s _ _ _ E3). intros p Hp. inversion Hp.
    eapply pvm_trans; [exact P1 | exact (pvm_dstep _ _ _ _ _ _ (delete_vertex_deferred (he_from s he) s1 (proj2 H1)))]. }
  intros E. inversion E. destruct P3 as [a b]. unfold enable_deferred. rewrite andb_false_r. split; cbn; assumption.
Qed.

(* ---- (c) the full statement about halfedge values is refuted (KNOWN_FINDINGS "collapse-props-parity") *)
Definition phe_val (s : mesh) (p h : nat) : Z := nth h (pdata (nth p (phe s) {| pdef := 0%Z; pdata := [] |})) 0%Z.
Definition rebuilt_cells (s : mesh) (heh : nat) : list nat :=
  filter (fun c => negb (memb c (collapsing_cells s heh))) (vertex_cells s (he_from s heh)).

(* "the values of the halfedges (a,x) of the rebuilt tets are carried over to the halfedges (b,x)" *)
Definition he_values_follow (s s' : mesh) (heh : nat) : Prop :=
  forall c hf h p, In c (rebuilt_cells s heh) -> In hf (cell_at s c) -> In h (halfface s hf) -> p < length (phe s) ->
    he_from s h = he_from s heh ->
    exists h', find_halfedge s' (he_to s heh) (he_to s h) = Some h' /\ phe_val s' p h' = phe_val s p h.

Definition parity_witness : list top :=
  [TK (AddVertices 6); THalfEdge 0 1; TAddCellV [0; 3; 2; 4] true; TAddCellV [0; 4; 2; 5] true; TK (PropCreate KHE 0%Z)]
  ++ map (fun i => TK (PropSet KHE 0 i (Z.of_nat (100 + i)))) (seq 0 20).

Definition parity_before : mesh := tet_run parity_witness.
Definition parity_after : mesh := match collapse_edge parity_before 0 with Some (s', _) => s' | None => empty_mesh end.

Lemma parity_collapse : collapse_edge parity_before 0 = Some (parity_after, 1).
Proof. vm_compute. reflexivity. Qed.

Lemma collapse_props_refuted :
  dshape parity_before /\ collapse_edge parity_before 0 = Some (parity_after, 1) /\
  ~ he_values_follow parity_before parity_after 0 /\
  (* the halfedge 0->3, used by ONE rebuilt tet, is carried to 1->3; 0->2, used by TWO, is dropped *)
  find_halfedge parity_after 1 3 = Some 20 /\ phe_val parity_after 0 20 = phe_val parity_before 0 2 /\
  find_halfedge parity_after 1 2 = Some 23 /\ phe_val parity_after 0 23 = 0%Z /\ phe_val parity_before 0 7 = 107%Z.
Proof.
  assert (H1 : In 0 (rebuilt_cells parity_before 0)) by (vm_compute; left; reflexivity).
  assert (H2 : In 2 (cell_at parity_before 0)) by (vm_compute; right; left; reflexivity).
  assert (H3 : In 7 (halfface parity_before 2)) by (vm_compute; left; reflexivity).
  assert (H4 : 0 < length (phe parity_before)) by (vm_compute; repeat constructor).
  assert (H5 : he_from parity_before 7 = he_from parity_before 0) by (vm_compute; reflexivity).
  assert (F' : find_halfedge parity_after 1 2 = Some 23) by (vm_compute; reflexivity).
  assert (T0 : he_to parity_before 0 = 1) by (vm_compute; reflexivity).
  assert (T7 : he_to parity_before 7 = 2) by (vm_compute; reflexivity).
  assert (V1 : phe_val parity_after 0 23 = 0%Z) by (vm_compute; reflexivity).
  assert (V2 : phe_val parity_before 0 7 = 107%Z) by (vm_compute; reflexivity).
  split; [split; [apply tet_shape_run; vm_compute; repeat split | vm_compute; reflexivity]|].
  split; [exact parity_collapse|]. split; [|repeat split; vm_compute; reflexivity].
  intros H. unfold he_values_follow in H.
  destruct (H 0 2 7 0 H1 H2 H3 H4 H5) as (h'&F&V).
  rewrite T0, T7, F' in F. inversion F; subst h'.
  rewrite V1, V2 in V. discriminate.
Qed.
