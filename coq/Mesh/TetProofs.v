(* Mesh/TetProofs.v -- proofs about Mesh/TetModel.v (C15) and the shape machinery shared with the hex kernel
   (C16): the valence shape of faces and cells as an invariant of histories, the contracts of the
   get_cell_vertices family and of the two opposite maps on well-formed tetrahedra, the tet vertex iterator,
   and the collapse_edge facts that are proved (see Props/Properties_C15.v for what is _partial). *)
From Coq Require Import ZArith Lia Bool Arith List ZifyNat ZifyBool.
From OVM Require Import Base.ListX Kernel.State Kernel.Ops Kernel.DeferredDelete Mesh.TetModel.
Import ListNotations.
Ltac Zify.zify_post_hook ::= Z.div_mod_to_equations.
Local Open Scope nat_scope.

(* ================================================================== 1. valence shape *)

(* every STORED face has kf halfedges and every STORED cell kc halffaces (deferred-deleted entities included,
   which is stronger than the statement about live entities) *)
Definition kshape (kf kc : nat) (s : mesh) : Prop :=
  Forall (fun f => length f = kf) (faces s) /\ Forall (fun c => length c = kc) (cells s).

Definition same_fc (s t : mesh) : Prop := faces t = faces s /\ cells t = cells s /\ deferred t = deferred s.

Lemma same_fc_refl s : same_fc s s. Proof. repeat split; reflexivity. Qed.
Lemma same_fc_trans s t u : same_fc s t -> same_fc t u -> same_fc s u.
Proof. intros (a&b&e) (c&d&f). repeat split; congruence. Qed.
Lemma kshape_same kf kc s t : same_fc s t -> kshape kf kc s -> kshape kf kc t.
Proof. intros (a&b&_) [c d]. split; [rewrite a | rewrite b]; assumption. Qed.

Lemma kshape_live kf kc s : kshape kf kc s ->
  (forall f, f < nf s -> length (face_at s f) = kf) /\ (forall c, c < nc s -> length (cell_at s c) = kc).
Proof.
  intros [F C]. rewrite Forall_forall in F, C. split; intros i Hi.
  - apply F. apply nth_In. exact Hi.
  - apply C. apply nth_In. exact Hi.
Qed.

(* ---- operations that do not touch the face and cell definitions *)
Lemma fc_set_props k x s : same_fc s (set_props k x s). Proof. repeat split; reflexivity. Qed.
Lemma fc_resize_props k n s : same_fc s (resize_props k n s). Proof. repeat split; reflexivity. Qed.
Lemma fc_swap_prop k i j s : same_fc s (swap_prop_elems k i j s). Proof. repeat split; reflexivity. Qed.

Ltac fc_ifs := unfold same_fc; cbv zeta; cbn [fst snd];
  repeat match goal with |- context [if ?b then _ else _] => destruct b end; repeat split; reflexivity.

Lemma fc_add_vertex s : same_fc s (fst (add_vertex s)).
Proof. unfold add_vertex. fc_ifs. Qed.

Lemma fc_add_n_vertices n : forall s, same_fc s (add_n_vertices n s).
Proof.
  induction n as [|n IH]; intros s; [apply same_fc_refl|].
  simpl. eapply same_fc_trans; [apply fc_add_vertex | apply IH].
Qed.

Lemma fc_append_edge s a b : same_fc s (fst (append_edge s a b)).
Proof. unfold append_edge. fc_ifs. Qed.

Lemma fc_add_edge s a b d : same_fc s (fst (add_edge s a b d)).
Proof.
  unfold add_edge. destruct d; [apply fc_append_edge|].
  destruct (find_dup_edge s a b); [apply same_fc_refl | apply fc_append_edge].
Qed.

Lemma fc_reorder_one e s : same_fc s (reorder_incident_halffaces e s).
Proof. unfold reorder_incident_halffaces. destruct (reorder_list s e); repeat split; reflexivity. Qed.

Lemma fc_reorder_edges es : forall s, same_fc s (reorder_edges es s).
Proof.
  unfold reorder_edges. induction es as [|e es IH]; intros s; [apply same_fc_refl|].
  simpl. eapply same_fc_trans; [apply fc_reorder_one | apply IH].
Qed.

(* ---- appending a face / a cell *)
Lemma faces_append_face s hes : faces (fst (append_face s hes)) = faces s ++ [hes] /\ cells (fst (append_face s hes)) = cells s /\
  deferred (fst (append_face s hes)) = deferred s.
Proof.
  unfold append_face. cbv zeta. cbn [fst].
  repeat match goal with |- context [if ?b then _ else _] => destruct b end; repeat split; reflexivity.
Qed.

Lemma kshape_append_face kf kc s hes : kshape kf kc s -> length hes = kf -> kshape kf kc (fst (append_face s hes)).
Proof.
  intros [F C] L. destruct (faces_append_face s hes) as (a&b&_). split.
  - rewrite a. apply Forall_app. split; [assumption | constructor; [assumption | constructor]].
  - rewrite b. assumption.
Qed.

Lemma kshape_add_face kf kc s hes chk : kshape kf kc s -> length hes = kf -> kshape kf kc (fst (add_face s hes chk)).
Proof.
  intros K L. unfold add_face. destruct (chk && negb (loop_ok s hes)); [exact K|].
  pose proof (kshape_append_face kf kc s hes K L) as H. destruct (append_face s hes); exact H.
Qed.

Lemma fc_append_cell s hfs : faces (fst (append_cell s hfs)) = faces s /\ cells (fst (append_cell s hfs)) = cells s ++ [hfs] /\
  deferred (fst (append_cell s hfs)) = deferred s.
Proof.
  unfold append_cell. cbn [fst]. destruct (fbu (resize_cprops (S (nc s)) (set_cdel (cdel s ++ [false]) (set_cells (cells s ++ [hfs]) s)))) eqn:E.
  - match goal with |- context [if ebu ?x then _ else _] => destruct (ebu x) end; cbn [fst].
    + match goal with |- context [reorder_edges ?es ?x] => destruct (fc_reorder_edges es x) as (a&b&c) end.
      rewrite a, b, c. repeat split; reflexivity.
    + repeat split; reflexivity.
  - repeat split; reflexivity.
Qed.

Lemma kshape_add_cell kf kc s hfs chk : kshape kf kc s -> length hfs = kc -> kshape kf kc (fst (add_cell s hfs chk)).
Proof.
  intros [F C] L. unfold add_cell. destruct (chk && negb (cell_check s hfs)); [split; assumption|].
  destruct (fc_append_cell s hfs) as (a&b&_). destruct (append_cell s hfs) as [s' c]. cbn [fst] in *. split.
  - rewrite a. assumption.
  - rewrite b. apply Forall_app. split; [assumption | constructor; [assumption | constructor]].
Qed.

(* ---- add_face from vertices: as many halfedges as vertices *)
Lemma add_face_v_step_fc v w acc : same_fc (fst acc) (fst (add_face_v_step v w acc)) /\
  length (snd (add_face_v_step v w acc)) = S (length (snd acc)).
Proof.
  destruct acc as [s hes]. unfold add_face_v_step. pose proof (fc_add_edge s v w false) as H.
  destruct (add_edge s v w false) as [s' e]. cbn [fst snd] in *. split; [exact H|]. rewrite app_length. simpl. lia.
Qed.

Lemma add_face_v_edges_fc first : forall vs acc,
  same_fc (fst acc) (fst (add_face_v_edges first vs acc)) /\
  length (snd (add_face_v_edges first vs acc)) = length vs + length (snd acc).
Proof.
  induction vs as [|v t IH]; intros acc; [split; [apply same_fc_refl | reflexivity]|].
  cbn [add_face_v_edges]. destruct t as [|w t'].
  - destruct (add_face_v_step_fc v first acc) as [a b]. split; [exact a | simpl; lia].
  - destruct (add_face_v_step_fc v w acc) as [a b].
    destruct (IH (add_face_v_step v w acc)) as [c d]. split.
    + eapply same_fc_trans; eassumption.
    + rewrite d, b. simpl. lia.
Qed.

Lemma kshape_add_face_v kf kc s vs : kshape kf kc s -> length vs = kf -> kshape kf kc (fst (add_face_v s vs)).
Proof.
  intros K L. unfold add_face_v. destruct vs as [|first t]; [exact K|].
  destruct (add_face_v_edges_fc first (first :: t) (s, [])) as [a b].
  destruct (add_face_v_edges first (first :: t) (s, [])) as [s1 hes]. cbn [fst snd] in *.
  apply kshape_add_face; [eapply kshape_same; eassumption | simpl in *; lia].
Qed.

(* ---- further base-kernel operations that keep the face and cell definitions *)
Lemma fc_set_edge s e a b : same_fc s (set_edge s e a b).
Proof. unfold set_edge. destruct (edge_at s e). fc_ifs. Qed.

Lemma fc_enable_vbu b s : same_fc s (enable_vbu b s).
Proof. unfold enable_vbu. fc_ifs. Qed.

Lemma fc_enable_ebu b s : same_fc s (enable_ebu b s).
Proof.
  unfold enable_ebu. cbv zeta.
  destruct (b && negb (ebu s)).
  - match goal with |- context [if fbu ?x then reorder_edges ?es ?x else ?x] =>
      assert (H : same_fc s (if fbu x then reorder_edges es x else x)) by
        (destruct (fbu x); [eapply same_fc_trans; [| apply fc_reorder_edges]; repeat split; reflexivity | repeat split; reflexivity]);
      destruct H as (H1&H2&H3); set (y := if fbu x then reorder_edges es x else x) in * end.
    destruct (negb b); repeat split; cbn; assumption.
  - destruct (negb b); repeat split; reflexivity.
Qed.

Lemma fc_enable_fbu b s : same_fc s (enable_fbu b s).
Proof.
  unfold enable_fbu. cbv zeta.
  match goal with |- same_fc s (if ?c then reorder_edges ?es ?x else ?x) =>
    assert (H : same_fc s x) by (destruct (b && negb (fbu s)), (negb b); repeat split; reflexivity);
    destruct c; [eapply same_fc_trans; [exact H | apply fc_reorder_edges] | exact H] end.
Qed.

Lemma fc_dstep s t a b c d : dstep s t a b c d -> same_fc s t.
Proof. intros (_&_&F&C&_&_&_&_&_&_&_&_&(_&_&_&D&_)&_). repeat split; assumption. Qed.

(* ================================================================== 2. the tet operations keep the shape *)

Definition tet_shape (s : mesh) : Prop := kshape 3 4 s.

Lemma shape_tet_add_face s hes chk : tet_shape s -> tet_shape (fst (tet_add_face s hes chk)).
Proof.
  intros K. unfold tet_add_face. destruct (Nat.eqb_spec (length hes) 3) as [E|E]; cbn [negb].
  - apply kshape_add_face; assumption.
  - exact K.
Qed.

Lemma shape_tet_add_face_v s vs : tet_shape s -> tet_shape (fst (tet_add_face_v s vs)).
Proof.
  intros K. unfold tet_add_face_v. destruct (Nat.eqb_spec (length vs) 3) as [E|E]; cbn [negb].
  - apply kshape_add_face_v; assumption.
  - exact K.
Qed.

Lemma shape_tet_add_cell s hfs chk : tet_shape s -> tet_shape (fst (tet_add_cell s hfs chk)).
Proof.
  intros K. unfold tet_add_cell. destruct (Nat.eqb_spec (length hfs) 4) as [E|E]; cbn [negb]; [|exact K].
  destruct (negb (forallb _ hfs)); [exact K|]. apply kshape_add_cell; assumption.
Qed.

Lemma fc_tet_add_halfedge s a b : same_fc s (fst (tet_add_halfedge s a b)).
Proof.
  unfold tet_add_halfedge. destruct (find_halfedge s a b); [apply same_fc_refl|].
  pose proof (fc_add_edge s a b false) as H. destruct (add_edge s a b false). exact H.
Qed.

Lemma shape_tet_add_halfface s hes chk : tet_shape s -> tet_shape (fst (tet_add_halfface s hes chk)).
Proof.
  intros K. unfold tet_add_halfface. destruct (find_halfface_hes s _ _); [exact K|].
  pose proof (shape_tet_add_face s hes chk K) as H. destruct (tet_add_face s hes chk). exact H.
Qed.

Lemma shape_tet_add_halfface_v s a b c chk : tet_shape s -> tet_shape (fst (tet_add_halfface_v s a b c chk)).
Proof.
  intros K. unfold tet_add_halfface_v.
  pose proof (fc_tet_add_halfedge s a b) as H1. destruct (tet_add_halfedge s a b) as [s1 h0].
  pose proof (fc_tet_add_halfedge s1 b c) as H2. destruct (tet_add_halfedge s1 b c) as [s2 h1].
  pose proof (fc_tet_add_halfedge s2 c a) as H3. destruct (tet_add_halfedge s2 c a) as [s3 h2].
  cbn [fst] in *. apply shape_tet_add_halfface.
  eapply kshape_same; [| exact K]. eapply same_fc_trans; [eapply same_fc_trans|]; eassumption.
Qed.

Lemma shape_find_or_add_face_v s a b c : tet_shape s -> tet_shape (fst (find_or_add_face_v s a b c)).
Proof.
  intros K. unfold find_or_add_face_v. destruct (find_halfface_vs s a b c); [exact K|].
  pose proof (kshape_add_face_v 3 4 s [a; b; c] K eq_refl) as H.
  destruct (add_face_v s [a; b; c]) as [s' [f|]]; exact H.
Qed.

Lemma shape_tet_add_cell_v s vs chk : tet_shape s -> tet_shape (fst (tet_add_cell_v s vs chk)).
Proof.
  intros K. unfold tet_add_cell_v.
  destruct vs as [|v0 [|v1 [|v2 [|v3 [|]]]]]; try exact K.
  destruct (negb (full_bu s)); [exact K|].
  pose proof (shape_find_or_add_face_v s v0 v1 v2 K) as K1. destruct (find_or_add_face_v s v0 v1 v2) as [s1 hf0].
  pose proof (shape_find_or_add_face_v s1 v0 v2 v3 K1) as K2. destruct (find_or_add_face_v s1 v0 v2 v3) as [s2 hf1].
  pose proof (shape_find_or_add_face_v s2 v0 v3 v1 K2) as K3. destruct (find_or_add_face_v s2 v0 v3 v1) as [s3 hf2].
  pose proof (shape_find_or_add_face_v s3 v1 v3 v2 K3) as K4. destruct (find_or_add_face_v s3 v1 v3 v2) as [s4 hf3].
  cbn [fst] in *.
  destruct (chk && negb (closed_by_sets s4 [hf0; hf1; hf2; hf3])); [exact K4|].
  destruct (chk && fbu s4 && existsb _ [hf0; hf1; hf2; hf3]); [exact K4|].
  apply kshape_add_cell; [exact K4 | reflexivity].
Qed.

Lemma shape_tet_add_cell_4 s v0 v1 v2 v3 chk r : tet_shape s ->
  tet_add_cell_4 s v0 v1 v2 v3 chk = Some r -> tet_shape (fst r).
Proof.
  intros K. unfold tet_add_cell_4.
  pose proof (shape_tet_add_halfface_v s v0 v1 v2 false K) as K1. destruct (tet_add_halfface_v s v0 v1 v2 false) as [s1 a].
  pose proof (shape_tet_add_halfface_v s1 v0 v2 v3 false K1) as K2. destruct (tet_add_halfface_v s1 v0 v2 v3 false) as [s2 b].
  pose proof (shape_tet_add_halfface_v s2 v0 v3 v1 false K2) as K3. destruct (tet_add_halfface_v s2 v0 v3 v1 false) as [s3 c].
  pose proof (shape_tet_add_halfface_v s3 v1 v3 v2 false K3) as K4. destruct (tet_add_halfface_v s3 v1 v3 v2 false) as [s4 d].
  cbn [fst] in *. destruct a, b, c, d; try discriminate. intros E. inversion E. apply shape_tet_add_cell. exact K4.
Qed.

(* ---- the deferred-deletion flag is not touched by the additions *)
Lemma dfl_add_face s hes chk : deferred (fst (add_face s hes chk)) = deferred s.
Proof.
  unfold add_face. destruct (chk && negb (loop_ok s hes)); [reflexivity|].
  destruct (faces_append_face s hes) as (_&_&d). destruct (append_face s hes). exact d.
Qed.

Lemma dfl_add_cell s hfs chk : deferred (fst (add_cell s hfs chk)) = deferred s.
Proof.
  unfold add_cell. destruct (chk && negb (cell_check s hfs)); [reflexivity|].
  destruct (fc_append_cell s hfs) as (_&_&d). destruct (append_cell s hfs). exact d.
Qed.

Lemma dfl_add_face_v s vs : deferred (fst (add_face_v s vs)) = deferred s.
Proof.
  unfold add_face_v. destruct vs as [|first t]; [reflexivity|].
  destruct (add_face_v_edges_fc first (first :: t) (s, [])) as [(_&_&a) _].
  destruct (add_face_v_edges first (first :: t) (s, [])) as [s1 hes]. cbn [fst snd] in *.
  rewrite dfl_add_face. exact a.
Qed.

Lemma dfl_tet_add_face s hes chk : deferred (fst (tet_add_face s hes chk)) = deferred s.
Proof. unfold tet_add_face. destruct (negb _); [reflexivity | apply dfl_add_face]. Qed.

Lemma dfl_tet_add_cell s hfs chk : deferred (fst (tet_add_cell s hfs chk)) = deferred s.
Proof. unfold tet_add_cell. destruct (negb _); [reflexivity|]. destruct (negb _); [reflexivity | apply dfl_add_cell]. Qed.

Lemma dfl_tet_add_halfface s hes chk : deferred (fst (tet_add_halfface s hes chk)) = deferred s.
Proof.
  unfold tet_add_halfface. destruct (find_halfface_hes s _ _); [reflexivity|].
  pose proof (dfl_tet_add_face s hes chk) as H. destruct (tet_add_face s hes chk). exact H.
Qed.

(* ================================================================== 3. collapse_edge in deferred mode *)

Definition dshape (s : mesh) : Prop := tet_shape s /\ deferred s = true.

Lemma dshape_collapse_he a b acc he : dshape (fst acc) -> dshape (fst (collapse_he a b acc he)).
Proof.
  destruct acc as [s nhes]. intros [K D]. unfold collapse_he. cbv zeta.
  match goal with |- context [tet_add_halfedge s ?x ?y] =>
    pose proof (fc_tet_add_halfedge s x y) as H; destruct (tet_add_halfedge s x y) as [s1 h'] end.
  cbn [fst] in *. destruct H as (f&c&d). split.
  - eapply kshape_same; [| exact K]. repeat split; cbn; assumption.
  - cbn. congruence.
Qed.

Lemma dshape_fold_collapse_he a b l : forall acc, dshape (fst acc) -> dshape (fst (fold_left (collapse_he a b) l acc)).
Proof. induction l as [|x l IH]; intros acc H; [exact H|]. simpl. apply IH. apply dshape_collapse_he. exact H. Qed.

Lemma dshape_collapse_hf a b acc hf r : (forall p, acc = Some p -> dshape (fst p)) ->
  collapse_hf a b acc hf = Some r -> dshape (fst r).
Proof.
  intros H. unfold collapse_hf, bind. destruct acc as [[s nhfs]|]; [|discriminate].
  specialize (H _ eq_refl). cbn [fst] in H.
  destruct (rd (halfface s hf) 0) as [h0|]; [|discriminate].
  destruct (rd (halfface s hf) 1) as [h1|]; [|discriminate].
  destruct (rd (halfface s hf) 2) as [h2|]; [|discriminate].
  pose proof (dshape_fold_collapse_he a b [h0; h1; h2] (s, []) H) as H1.
  destruct (fold_left (collapse_he a b) [h0; h1; h2] (s, [])) as [s1 nhes]. cbn [fst] in H1.
  pose proof (shape_tet_add_halfface s1 nhes false (proj1 H1)) as H2.
  pose proof (dfl_tet_add_halfface s1 nhes false) as H3.
  destruct (tet_add_halfface s1 nhes false) as [s2 [hfh|]]; [|discriminate].
  intros E. inversion E. cbn [fst] in *. split.
  - eapply kshape_same; [| exact H2]. repeat split; reflexivity.
  - cbn. rewrite H3. exact (proj2 H1).
Qed.

Lemma dshape_fold_collapse_hf a b l : forall acc r, (forall p, acc = Some p -> dshape (fst p)) ->
  fold_left (collapse_hf a b) l acc = Some r -> dshape (fst r).
Proof.
  induction l as [|x l IH]; intros acc r H E.
  - simpl in E. apply H. exact E.
  - simpl in E. eapply IH; [| exact E]. intros p Hp. eapply dshape_collapse_hf; eassumption.
Qed.

Lemma dshape_delete_cell c s : dshape s -> dshape (delete_cell c s).
Proof.
  intros [K D]. pose proof (fc_dstep _ _ _ _ _ _ (delete_cell_deferred c s D)) as (f&cc&d). split.
  - eapply kshape_same; [| exact K]. repeat split; assumption.
  - congruence.
Qed.

Lemma dshape_delete_vertex v s : dshape s -> dshape (delete_vertex v s).
Proof.
  intros [K D]. pose proof (fc_dstep _ _ _ _ _ _ (delete_vertex_deferred v s D)) as (f&cc&d). split.
  - eapply kshape_same; [| exact K]. repeat split; assumption.
  - congruence.
Qed.

Lemma dshape_collapse_cell a b coll acc ch r : (forall p, acc = Some p -> dshape (fst p)) ->
  collapse_cell a b coll acc ch = Some r -> dshape (fst r).
Proof.
  intros H. unfold collapse_cell, bind. destruct acc as [[s news]|]; [|discriminate].
  specialize (H _ eq_refl). cbn [fst] in H.
  destruct (memb ch coll); [intros E; inversion E; exact H|].
  destruct (rd (cells s) ch) as [hfhs|]; [|discriminate].
  destruct (rd hfhs 0) as [h0|]; [|discriminate]. destruct (rd hfhs 1) as [h1|]; [|discriminate].
  destruct (rd hfhs 2) as [h2|]; [|discriminate]. destruct (rd hfhs 3) as [h3|]; [|discriminate].
  destruct (fold_left (collapse_hf a b) [h0; h1; h2; h3] (Some (s, []))) as [[s1 nhfs]|] eqn:E1; [|discriminate].
  intros E. inversion E. cbn [fst]. apply dshape_delete_cell.
  apply (dshape_fold_collapse_hf a b [h0; h1; h2; h3] (Some (s, [])) (s1, nhfs)); [| exact E1].
  intros p Hp. inversion Hp. exact H.
Qed.

Lemma dshape_fold_collapse_cell a b coll l : forall acc r, (forall p, acc = Some p -> dshape (fst p)) ->
  fold_left (collapse_cell a b coll) l acc = Some r -> dshape (fst r).
Proof.
  induction l as [|x l IH]; intros acc r H E.
  - simpl in E. apply H. exact E.
  - simpl in E. eapply IH; [| exact E]. intros p Hp. eapply dshape_collapse_cell; eassumption.
Qed.

Lemma dshape_collapse_readd acc n r : (forall s, acc = Some s -> dshape s) -> collapse_readd acc n = Some r -> dshape r.
Proof.
  intros H. unfold collapse_readd, bind. destruct acc as [s|]; [|discriminate]. specialize (H _ eq_refl).
  pose proof (shape_tet_add_cell s (snd n) false (proj1 H)) as H1. pose proof (dfl_tet_add_cell s (snd n) false) as H2.
  destruct (tet_add_cell s (snd n) false) as [s1 [c|]]; [|discriminate]. intros E. inversion E. cbn [fst] in *. split.
  - eapply kshape_same; [| exact H1]. repeat split; reflexivity.
  - cbn. rewrite H2. exact (proj2 H).
Qed.

Lemma dshape_fold_readd l : forall acc r, (forall s, acc = Some s -> dshape s) -> fold_left collapse_readd l acc = Some r -> dshape r.
Proof.
  induction l as [|x l IH]; intros acc r H E.
  - simpl in E. apply H. exact E.
  - simpl in E. eapply IH; [| exact E]. intros p Hp. eapply dshape_collapse_readd; eassumption.
Qed.

(* collapse_edge called with deferred deletion enabled keeps the shape, stays in deferred mode and returns
   the handle of the halfedge's to-vertex *)
Theorem collapse_edge_deferred s he s' r : dshape s -> collapse_edge s he = Some (s', r) ->
  dshape s' /\ r = he_to s he.
Proof.
  intros [K D]. unfold collapse_edge. rewrite D. cbn [negb]. cbv zeta. unfold bind.
  destruct (fold_left (collapse_cell (he_from s he) (he_to s he) (collapsing_cells s he)) (vertex_cells s (he_from s he)) (Some (s, [])))
    as [[s1 news]|] eqn:E1; [|discriminate].
  assert (H1 : dshape s1).
  { refine (dshape_fold_collapse_cell _ _ _ _ _ _ _ E1). intros p Hp. inversion Hp. cbn [fst]. split; assumption. }
  destruct (fold_left collapse_readd news (Some (delete_vertex (he_from s he) s1))) as [s3|] eqn:E3; [|discriminate].
  assert (H3 : dshape s3).
  { refine (dshape_fold_readd _ _ _ _ E3). intros p Hp. inversion Hp. apply dshape_delete_vertex. exact H1. }
  intros E. inversion E. split; [|reflexivity].
  destruct H3 as [K3 D3]. unfold enable_deferred. rewrite D3. cbn [negb andb]. split.
  - destruct K3 as [F C]. split; assumption.
  - reflexivity.
Qed.

(* ================================================================== 4. the invariant over histories *)

(* Operations OUTSIDE the proved part of the invariant: physical removal of entities (deletion with deferred
   deletion off, a garbage collection that has something to collect, a collapse called in immediate mode, which
   ends in one), and set_face / set_cell / the index swaps, which are not tet operations of the property.
   For everything else - all additions in every form, accepted or rejected, deletions in deferred mode, collapses in
   deferred mode, mode switches, clear, property operations - the shape is proved to be invariant. *)
Definition outside_partial (s : mesh) (o : top) : bool :=
  match o with
  | TK (DelVertex _) | TK (DelEdge _) | TK (DelFace _) | TK (DelCell _) => negb (deferred s)
  | TK CollectGarbage => deferred s && needs_gc s
  | TK (EnableDeferred b) => deferred s && negb b && needs_gc s
  | TK (SetFace _ _) | TK (SetCell _ _) => true
  | TK (SwapV _ _) | TK (SwapE _ _) | TK (SwapF _ _) | TK (SwapC _ _) => true
  | TCollapse _ => negb (deferred s)
  | _ => false
  end.

Lemma kshape_clear kf kc b s : kshape kf kc (clear_mesh b s).
Proof. unfold clear_mesh. cbv zeta. split; cbn; constructor. Qed.

Lemma collect_garbage_noop s : deferred s && needs_gc s = false -> collect_garbage s = s.
Proof.
  intros H. unfold collect_garbage. destruct (deferred s), (needs_gc s); try discriminate; reflexivity.
Qed.

Lemma shape_exec_kernel kf kc s k s' r :
  kshape kf kc s -> outside_partial s (TK k) = false ->
  (forall hes c, k <> AddFace hes c) -> (forall vs, k <> AddFaceV vs) -> (forall hfs c, k <> AddCell hfs c) ->
  exec s k = (s', r) -> kshape kf kc s'.
Proof.
  intros K O NF NV NC E. destruct k; cbn [exec] in E; cbn [outside_partial] in O;
    try (exfalso; eapply NF; reflexivity); try (exfalso; eapply NV; reflexivity); try (exfalso; eapply NC; reflexivity);
    try discriminate.
  - (* AddVertex *) pose proof (fc_add_vertex s) as H. destruct (add_vertex s). inversion E; subst. eapply kshape_same; eassumption.
  - inversion E; subst. eapply kshape_same; [apply fc_add_n_vertices | exact K].
  - pose proof (fc_add_edge s a b dup) as H. destruct (add_edge s a b dup). inversion E; subst. eapply kshape_same; eassumption.
  - inversion E; subst. eapply kshape_same; [apply fc_set_edge | exact K].
  - (* DelVertex *) apply negb_false_iff in O. inversion E; subst.
    eapply kshape_same; [exact (fc_dstep _ _ _ _ _ _ (delete_vertex_deferred v s O)) | exact K].
  - apply negb_false_iff in O. inversion E; subst.
    eapply kshape_same; [exact (fc_dstep _ _ _ _ _ _ (delete_edge_deferred e s O)) | exact K].
  - apply negb_false_iff in O. inversion E; subst.
    eapply kshape_same; [exact (fc_dstep _ _ _ _ _ _ (delete_face_deferred f s O)) | exact K].
  - apply negb_false_iff in O. inversion E; subst.
    eapply kshape_same; [exact (fc_dstep _ _ _ _ _ _ (delete_cell_deferred c s O)) | exact K].
  - (* GC *) inversion E; subst. rewrite collect_garbage_noop by exact O. exact K.
  - inversion E; subst. apply kshape_clear.
  - inversion E; subst. eapply kshape_same; [apply fc_enable_vbu | exact K].
  - inversion E; subst. eapply kshape_same; [apply fc_enable_ebu | exact K].
  - inversion E; subst. eapply kshape_same; [apply fc_enable_fbu | exact K].
  - (* EnableDeferred *) inversion E; subst. unfold enable_deferred.
    destruct (deferred s && negb b) eqn:Db.
    + cbn [andb] in O. rewrite collect_garbage_noop.
      * destruct K; split; assumption.
      * destruct (deferred s); [exact O | reflexivity].
    + destruct K; split; assumption.
  - inversion E; subst. destruct K; split; assumption.
  - inversion E; subst. destruct K; split; assumption.
  - inversion E; subst. destruct K; split; assumption.
  - inversion E; subst. destruct K; split; assumption.
Qed.

Ltac some_inj E E' := match type of E with Some ?x = Some ?y => assert (E' : x = y) by congruence end.

Theorem tet_shape_step s o s' r : tet_shape s -> outside_partial s o = false -> tet_step s o = TOk s' r -> tet_shape s'.
Proof.
  intros K O. unfold tet_step. destruct (tet_valid s o); [|discriminate].
  destruct (tet_exec s o) as [[s1 r1]|] eqn:E; [|discriminate]. intros H. inversion H; subst. clear H.
  destruct o as [k|vs chk|a b c d chk|a b|a b c chk|hes chk|he]; cbn [tet_exec] in E.
  - destruct k; try (some_inj E E'; unfold tet_shape in *; eapply (shape_exec_kernel 3 4); [exact K | exact O | | | | exact E']; intros; discriminate).
    + some_inj E E'. pose proof (shape_tet_add_face s hes check K) as H. rewrite E' in H. exact H.
    + some_inj E E'. pose proof (shape_tet_add_face_v s vs K) as H. rewrite E' in H. exact H.
    + some_inj E E'. pose proof (shape_tet_add_cell s hfs check K) as H. rewrite E' in H. exact H.
  - some_inj E E'. pose proof (shape_tet_add_cell_v s vs chk K) as H. rewrite E' in H. exact H.
  - exact (shape_tet_add_cell_4 s a b c d chk _ K E).
  - pose proof (fc_tet_add_halfedge s a b) as H. destruct (tet_add_halfedge s a b) as [s2 h]. inversion E; subst.
    eapply kshape_same; eassumption.
  - some_inj E E'. pose proof (shape_tet_add_halfface_v s a b c chk K) as H. rewrite E' in H. exact H.
  - some_inj E E'. pose proof (shape_tet_add_halfface s hes chk K) as H. rewrite E' in H. exact H.
  - cbn [outside_partial] in O. apply negb_false_iff in O. unfold bind in E.
    destruct (collapse_edge s he) as [[s2 v]|] eqn:C; [|discriminate]. inversion E; subst.
    exact (proj1 (proj1 (collapse_edge_deferred s he s' v (conj K O) C))).
Qed.

(* a history all of whose executed steps are inside the proved part *)
Fixpoint inside_along (s : mesh) (ops : list top) : Prop :=
  match ops with
  | [] => True
  | o :: t => match tet_step s o with
              | TOk s' _ => outside_partial s o = false /\ inside_along s' t
              | _ => inside_along s t
              end
  end.

Theorem tet_shape_run_from : forall ops s, tet_shape s -> inside_along s ops -> tet_shape (tet_run_from s ops).
Proof.
  induction ops as [|o t IH]; intros s K H; [exact K|].
  unfold tet_run_from. simpl. fold (tet_run_from (match tet_step s o with TOk s' _ => s' | _ => s end) t).
  simpl in H. destruct (tet_step s o) as [s' r| |] eqn:E.
  - destruct H as [O H]. apply IH; [eapply tet_shape_step; eassumption | exact H].
  - apply IH; assumption.
  - apply IH; assumption.
Qed.

Lemma tet_shape_empty : tet_shape empty_mesh.
Proof. split; constructor. Qed.

Theorem tet_shape_run ops : inside_along empty_mesh ops -> tet_shape (tet_run ops).
Proof. apply tet_shape_run_from. apply tet_shape_empty. Qed.

(* ================================================================== 5. query contracts on well-formed tetrahedra *)

From OVM Require Import Base.ListLemmas.

(* a well-formed tetrahedron: four distinct halffaces incident to the cell, each on three distinct vertices out of
   four distinct vertices V, no two on the same vertex set *)
Definition tet_wf (s : mesh) (c : nat) (hfs V : list nat) : Prop :=
  nth_error (cells s) c = Some hfs /\ length hfs = 4 /\ NoDup hfs /\
  NoDup V /\ length V = 4 /\
  (forall hf, In hf hfs -> nth_error (inc_cell s) hf = Some (Some c) /\
       length (hf_vertices s hf) = 3 /\ NoDup (hf_vertices s hf) /\ incl (hf_vertices s hf) V) /\
  (forall hf hf', In hf hfs -> In hf' hfs -> hf <> hf' -> ~ incl (hf_vertices s hf') (hf_vertices s hf)).

Definition out3 (x y z w : nat) : bool := negb (x =? w) && negb (y =? w) && negb (z =? w).

Lemma out3_spec x y z w : out3 x y z w = true <-> ~ In w [x; y; z].
Proof.
  unfold out3. rewrite !andb_true_iff, !negb_true_iff, !Nat.eqb_neq. simpl. split.
  - intros [[a b] c] [H|[H|[H|[]]]]; congruence.
  - intros H. repeat split; intros E; apply H; auto.
Qed.

Lemma gcv_scan_spec x y z l :
  gcv_scan [x; y; z] l = match find (out3 x y z) l with Some w => Some [x; y; z; w] | None => Some [] end.
Proof.
  induction l as [|w t IH]; [reflexivity|].
  cbn [gcv_scan find rd nth_error bind]. unfold out3 at 1.
  destruct (x =? w); cbn [negb andb]; [exact IH|].
  destruct (y =? w); cbn [negb andb]; [exact IH|].
  destruct (z =? w); cbn [negb andb]; [exact IH|]. reflexivity.
Qed.

(* the vertex of V outside a three-element subset is unique *)
Lemma apex_unique (V T : list nat) (u w : nat) : NoDup V -> length V = 4 -> NoDup T -> length T = 3 -> incl T V ->
  In u V -> ~ In u T -> In w V -> ~ In w T -> u = w.
Proof.
  intros NV LV NT LT I Hu Hu' Hw Hw'. destruct (Nat.eq_dec u w) as [|N]; [assumption|exfalso].
  assert (ND : NoDup (u :: w :: T)).
  { constructor; [intros [E|E]; [congruence | contradiction]|]. constructor; assumption. }
  assert (IN : incl (u :: w :: T) V).
  { intros a [E|[E|E]]; [subst; assumption | subst; assumption | apply I; assumption]. }
  pose proof (NoDup_incl_length ND IN) as L. simpl in L. lia.
Qed.

Lemma apex_exists (V T : list nat) : NoDup V -> length V = 4 -> length T = 3 -> exists w, In w V /\ ~ In w T.
Proof.
  intros NV LV LT. destruct (find (fun w => negb (memb w T)) V) as [w|] eqn:F.
  - apply find_some in F. destruct F as [a b]. exists w. split; [assumption|].
    apply negb_true_iff in b. intros H. apply memb_In in H. congruence.
  - exfalso. assert (I : incl V T).
    { intros a Ha. pose proof (find_none _ _ F a Ha) as H. apply negb_false_iff in H. apply memb_In. exact H. }
    pose proof (NoDup_incl_length NV I). lia.
Qed.

Lemma forall2_exists {A B} (P : A -> B -> Prop) (l : list A) :
  (forall a, In a l -> exists b, P a b) -> exists bs, Forall2 P l bs.
Proof.
  induction l as [|a l IH]; intros H; [exists []; constructor|].
  destruct (H a (or_introl eq_refl)) as (b&Hb). destruct (IH (fun x Hx => H x (or_intror Hx))) as (bs&Hbs).
  exists (b :: bs). constructor; assumption.
Qed.

Lemma forall2_in_r {A B} (P : A -> B -> Prop) l bs b : Forall2 P l bs -> In b bs -> exists a, In a l /\ P a b.
Proof.
  induction 1 as [|a b' l bs' Hab _ IH]; intros Hin; [contradiction|].
  destruct Hin as [->|Hin]; [exists a; split; [left; reflexivity | exact Hab]|].
  destruct (IH Hin) as (x&Hx&Px). exists x. split; [right; exact Hx | exact Px].
Qed.

Lemma forall2_len {A B} (P : A -> B -> Prop) l bs : Forall2 P l bs -> length l = length bs.
Proof. induction 1; simpl; congruence. Qed.

Lemma forall2_nodup {A B} (P : A -> B -> Prop) l bs : NoDup l -> Forall2 P l bs ->
  (forall a a' b b', In a l -> In a' l -> a <> a' -> P a b -> P a' b' -> b <> b') -> NoDup bs.
Proof.
  intros ND F. revert ND. induction F as [|a b l bs' Hab F IH]; intros ND D; [constructor|].
  inversion ND as [|? ? Hn ND']; subst. constructor.
  - intros Hin. destruct (forall2_in_r P l bs' b F Hin) as (x&Hx&Px).
    apply (D a x b b (or_introl eq_refl) (or_intror Hx)); [intros E; subst; contradiction | exact Hab | exact Px | reflexivity].
  - apply IH; [exact ND'|]. intros x x' y y' Hx Hx'. apply D; right; assumption.
Qed.

Section WF.
  Variables (s : mesh) (c : nat) (hfs V : list nat).
  Hypothesis WF : tet_wf s c hfs V.

  Let Hcell := proj1 WF.
  Let Hlen := proj1 (proj2 WF).
  Let Hnd := proj1 (proj2 (proj2 WF)).
  Let HV := proj1 (proj2 (proj2 (proj2 WF))).
  Let HVl := proj1 (proj2 (proj2 (proj2 (proj2 WF)))).
  Let Hhf := proj1 (proj2 (proj2 (proj2 (proj2 (proj2 WF))))).
  Let Hdist := proj2 (proj2 (proj2 (proj2 (proj2 (proj2 WF))))).

  Lemma wf_three hf : In hf hfs -> exists x y z, hf_vertices s hf = [x; y; z].
  Proof.
    intros H. destruct (Hhf hf H) as (_&L&_). destruct (hf_vertices s hf) as [|x [|y [|z [|]]]]; try discriminate.
    exists x, y, z. reflexivity.
  Qed.

  (* every other halfface of the cell contains the apex of hf, and its first vertex outside hf is that apex *)
  Lemma wf_find_apex hf hf' x y z : In hf hfs -> In hf' hfs -> hf <> hf' -> hf_vertices s hf = [x; y; z] ->
    exists w, find (out3 x y z) (hf_vertices s hf') = Some w /\ In w V /\ ~ In w [x; y; z].
  Proof.
    intros H H' N E. destruct (find (out3 x y z) (hf_vertices s hf')) as [w|] eqn:F.
    - apply find_some in F. destruct F as [a b]. exists w. split; [reflexivity|]. split.
      + destruct (Hhf hf' H') as (_&_&_&I). apply I. exact a.
      + apply out3_spec. exact b.
    - exfalso. apply (Hdist hf hf' H H' N). rewrite E. intros a Ha.
      pose proof (find_none _ _ F a Ha) as Hn. destruct (in_dec Nat.eq_dec a [x; y; z]) as [|Nin]; [assumption|].
      apply out3_spec in Nin. congruence.
  Qed.

  (* the apex of a halfface: the vertex of V outside it *)
  Definition is_apex (hf w : nat) : Prop := In w V /\ ~ In w (hf_vertices s hf).

  Lemma apex_fun hf u w : In hf hfs -> is_apex hf u -> is_apex hf w -> u = w.
  Proof.
    intros H [a b] [a' b']. destruct (Hhf hf H) as (_&L&N&I).
    eapply (apex_unique V (hf_vertices s hf)); eassumption.
  Qed.

  Definition other_of (hf : nat) : nat := if negb (hf =? nth 0 hfs 0) then nth 0 hfs 0 else nth 1 hfs 0.

  Lemma other_of_ok hf : In hf hfs -> In (other_of hf) hfs /\ other_of hf <> hf.
  Proof.
    intros H. unfold other_of. destruct (Nat.eqb_spec hf (nth 0 hfs 0)) as [E|E]; cbn [negb].
    - split; [apply nth_In; rewrite Hlen; lia|]. rewrite E. intros F.
      assert (1 = 0) by (apply (proj1 (NoDup_nth hfs 0) Hnd); [rewrite Hlen; lia | rewrite Hlen; lia | exact F]). discriminate.
    - split; [apply nth_In; rewrite Hlen; lia | congruence].
  Qed.

  (* get_cell_vertices(hf) = the halfface's three vertices in its cyclic order, then the apex *)
  Theorem gcv_hf_wf hf : In hf hfs ->
    exists x y z w, hf_vertices s hf = [x; y; z] /\ is_apex hf w /\ gcv_hf s hf = Some [x; y; z; w].
  Proof.
    intros H. destruct (wf_three hf H) as (x&y&z&E). destruct (other_of_ok hf H) as [Ho No].
    destruct (wf_find_apex hf (other_of hf) x y z H Ho (fun e => No (eq_sym e)) E) as (w&F&Wi&Wn).
    exists x, y, z, w. split; [exact E|]. split; [split; [exact Wi | rewrite E; exact Wn]|].
    unfold gcv_hf, bind, rd. destruct (Hhf hf H) as (Ic&_). rewrite Ic, Hcell.
    rewrite (nth_error_nth' hfs 0 (n := 0)) by (rewrite Hlen; lia).
    unfold other_of in F. destruct (negb (hf =? nth 0 hfs 0)).
    - rewrite E, gcv_scan_spec, F. reflexivity.
    - rewrite (nth_error_nth' hfs 0 (n := 1)) by (rewrite Hlen; lia). rewrite E, gcv_scan_spec, F. reflexivity.
  Qed.

  (* halfface_opposite_vertex(hf) is the apex *)
  Theorem hov_wf hf : In hf hfs -> exists w, is_apex hf w /\ halfface_opposite_vertex s hf = Some (Some w).
  Proof.
    intros H. destruct (gcv_hf_wf hf H) as (x&y&z&w&E&A&G). exists w. split; [exact A|].
    unfold halfface_opposite_vertex, bind, rd. destruct (Hhf hf H) as (Ic&_). rewrite Ic, G. reflexivity.
  Qed.

  (* every halfface other than hf contains the apex of hf *)
  Lemma apex_in_others hf hf' w : In hf hfs -> In hf' hfs -> hf <> hf' -> is_apex hf w -> In w (hf_vertices s hf').
  Proof.
    intros H H' N A. destruct (wf_three hf H) as (x&y&z&E).
    destruct (wf_find_apex hf hf' x y z H H' N E) as (u&F&Ui&Un).
    assert (u = w) by (apply (apex_fun hf); [exact H | split; [exact Ui | rewrite E; exact Un] | exact A]).
    subst u. apply find_some in F. exact (proj1 F).
  Qed.

  Lemma voh_scan_spec v : forall l, (forall hf, In hf l -> In hf hfs) ->
    voh_scan s v l = Some (find (fun hf => negb (memb v (hf_vertices s hf))) l).
  Proof.
    induction l as [|hf t IH]; intros Hl; [reflexivity|].
    destruct (wf_three hf (Hl hf (or_introl eq_refl))) as (x&y&z&E).
    cbn [voh_scan find]. rewrite E. cbn [rd nth_error bind memb existsb].
    rewrite (Nat.eqb_sym v x), (Nat.eqb_sym v y), (Nat.eqb_sym v z).
    assert (IHt := IH (fun h Hh => Hl h (or_intror Hh))).
    destruct (x =? v); cbn [orb negb]; [exact IHt|].
    destruct (y =? v); cbn [orb negb]; [exact IHt|].
    destruct (z =? v); cbn [orb negb]; [exact IHt|]. reflexivity.
  Qed.

  (* vertex_opposite_halfface(c, apex of hf) = hf : the two opposite maps are mutually inverse *)
  Theorem voh_of_apex hf w : In hf hfs -> is_apex hf w -> vertex_opposite_halfface s c w = Some (Some hf).
  Proof.
    intros H A. unfold vertex_opposite_halfface, bind, rd. rewrite Hcell, (voh_scan_spec w hfs (fun _ h => h)).
    f_equal.
    assert (G : forall l, incl l hfs -> In hf l -> find (fun h => negb (memb w (hf_vertices s h))) l = Some hf).
    { induction l as [|h t IH]; intros I Hin; [contradiction|]. cbn [find].
      destruct (Nat.eq_dec h hf) as [->|N].
      - destruct A as [_ A2]. destruct (memb w (hf_vertices s hf)) eqn:M; [apply memb_In in M; contradiction | reflexivity].
      - assert (M : memb w (hf_vertices s h) = true).
        { apply memb_In. apply (apex_in_others hf h w H (I h (or_introl eq_refl)) (fun e => N (eq_sym e)) A). }
        rewrite M. cbn [negb]. apply IH; [intros a Ha; apply I; right; exact Ha | destruct Hin as [E|E]; [congruence | exact E]]. }
    apply G; [apply incl_refl | exact H].
  Qed.

  Theorem voh_hov_inverse hf : In hf hfs ->
    exists w, halfface_opposite_vertex s hf = Some (Some w) /\ vertex_opposite_halfface s c w = Some (Some hf).
  Proof.
    intros H. destruct (hov_wf hf H) as (w&A&E). exists w. split; [exact E | apply (voh_of_apex hf w H A)].
  Qed.

  (* the apexes of the four halffaces are the four vertices: every vertex has its opposite halfface *)
  Lemma apex_of_each v : In v V -> exists hf, In hf hfs /\ is_apex hf v.
  Proof.
    intros Hv.
    assert (Hap : forall hf, In hf hfs -> exists w, is_apex hf w).
    { intros hf H. destruct (Hhf hf H) as (_&L&_). destruct (apex_exists V (hf_vertices s hf) HV HVl L) as (w&a&b). exists w. split; assumption. }
    destruct (forall2_exists is_apex hfs Hap) as (ws&F).
    (* distinct halffaces have distinct apexes: the apex of one lies in every other *)
    assert (ND : NoDup ws).
    { apply (forall2_nodup is_apex hfs ws Hnd F). intros hf hf' w w' H H' N A A' E. subst w'.
      apply (proj2 A'). apply (apex_in_others hf hf' w H H' N A). }
    assert (I : incl ws V).
    { intros w Hw. destruct (forall2_in_r is_apex hfs ws w F Hw) as (hf&_&A). exact (proj1 A). }
    assert (I' : incl V ws).
    { apply NoDup_length_incl; [exact ND | rewrite <- (forall2_len _ _ _ F), Hlen, HVl; lia | exact I]. }
    destruct (forall2_in_r is_apex hfs ws v F (I' v Hv)) as (hf&H&A). exists hf. split; assumption.
  Qed.

  Theorem hov_voh_inverse v : In v V ->
    exists hf, In hf hfs /\ vertex_opposite_halfface s c v = Some (Some hf) /\ ~ In v (hf_vertices s hf) /\
               halfface_opposite_vertex s hf = Some (Some v).
  Proof.
    intros Hv. destruct (apex_of_each v Hv) as (hf&H&A). exists hf. split; [exact H|]. split; [apply (voh_of_apex hf v H A)|].
    split; [exact (proj2 A)|]. destruct (hov_wf hf H) as (w&A'&E). rewrite E. do 2 f_equal. apply (apex_fun hf); assumption.
  Qed.
End WF.

(* ---- the variants with a start vertex / start halfedge, and the iterator: function-level contracts *)

(* get_cell_vertices(c) is get_cell_vertices of the cell's first halfface *)
Lemma gcv_c_first s c hfs h0 : nth_error (cells s) c = Some hfs -> nth_error hfs 0 = Some h0 -> gcv_c s c = gcv_hf s h0.
Proof. intros A B. unfold gcv_c, bind, rd. rewrite A, B. reflexivity. Qed.

(* get_cell_vertices(c, v): v first, the cyclic order of the first halfface kept, the orientation preserved *)
Theorem gcv_c_v_spec s c x y z w v : gcv_c s c = Some [x; y; z; w] -> NoDup [x; y; z; w] ->
  (v = x -> gcv_c_v s c v = Some [x; y; z; w]) /\
  (v = y -> gcv_c_v s c v = Some [y; z; x; w]) /\
  (v = z -> gcv_c_v s c v = Some [z; x; y; w]) /\
  (v = w -> gcv_c_v s c v = Some [w; y; x; z]) /\
  (~ In v [x; y; z; w] -> gcv_c_v s c v = Some [x; y; z; w]).
Proof.
  intros G ND. unfold gcv_c_v, bind. rewrite G. cbn [rd nth_error].
  inversion ND as [|? ? n1 ND1]; subst. inversion ND1 as [|? ? n2 ND2]; subst. inversion ND2 as [|? ? n3 _]; subst.
  simpl in n1, n2, n3.
  repeat split; intros E; subst;
    repeat match goal with |- context [?a =? ?b] => destruct (Nat.eqb_spec a b); try (exfalso; simpl in *; intuition congruence) end;
    try reflexivity.
Qed.

(* get_cell_vertices(hf, he): starts at the from-vertex of he, cyclic order of hf kept, apex last *)
Theorem gcv_hf_he_spec s hf he x y z w : gcv_hf s hf = Some [x; y; z; w] -> NoDup [x; y; z; w] ->
  (he_from s he = x -> gcv_hf_he s hf he = Some [x; y; z; w]) /\
  (he_from s he = y -> gcv_hf_he s hf he = Some [y; z; x; w]) /\
  (he_from s he = z -> gcv_hf_he s hf he = Some [z; x; y; w]).
Proof.
  intros G ND. unfold gcv_hf_he, bind. rewrite G. cbn [rd nth_error].
  inversion ND as [|? ? n1 ND1]; subst. inversion ND1 as [|? ? n2 ND2]; subst. inversion ND2 as [|? ? n3 _]; subst.
  simpl in n1, n2, n3.
  repeat split; intros E; rewrite E;
    repeat match goal with |- context [?a =? ?b] => destruct (Nat.eqb_spec a b); try (exfalso; simpl in *; intuition congruence) end;
    cbn [rd nth_error firstn];
    repeat match goal with |- context [?a =? ?b] => destruct (Nat.eqb_spec a b) end; reflexivity.
Qed.

(* the tet vertex iterator enumerates get_cell_vertices(c), lap after lap *)
Theorem tet_iter_spec s c a b d e laps : gcv_c s c = Some [a; b; d; e] ->
  tet_iter s c laps = Some (concat (repeat [a; b; d; e] laps)).
Proof. intros G. unfold tet_iter, tet_iter_vertices, bind. rewrite G. reflexivity. Qed.

Theorem tet_iter_ub s c : gcv_c s c = Some [] -> tet_iter s c 1 = None.
Proof. intros G. unfold tet_iter, tet_iter_vertices, bind. rewrite G. reflexivity. Qed.

(* ---- non-vacuity: a tetrahedron built from four vertices is well-formed *)
Definition one_tet : mesh := tet_run [TK (AddVertices 4); TAddCellV [0; 1; 2; 3] true].

Example one_tet_wf : tet_wf one_tet 0 [0; 2; 4; 6] [0; 1; 2; 3].
Proof.
  unfold tet_wf. split; [vm_compute; reflexivity|]. split; [reflexivity|].
  split; [repeat constructor; simpl; intuition discriminate|].
  split; [repeat constructor; simpl; intuition discriminate|]. split; [reflexivity|]. split.
  - intros hf [E|[E|[E|[E|[]]]]]; subst hf; (split; [vm_compute; reflexivity|]); (split; [vm_compute; reflexivity|]);
      (split; [vm_compute; repeat constructor; simpl; intuition discriminate|]);
      vm_compute; intros a H; repeat destruct H as [H|H]; subst; simpl; auto 6.
  - intros hf hf' [E|[E|[E|[E|[]]]]] [E'|[E'|[E'|[E'|[]]]]] N; subst hf hf'; try congruence; vm_compute; intros I;
      match goal with I : forall a, _ -> _ |- _ =>
        first [ pose proof (I 0 ltac:(simpl; auto)) as X; simpl in X; intuition discriminate
              | pose proof (I 1 ltac:(simpl; auto)) as X; simpl in X; intuition discriminate
              | pose proof (I 2 ltac:(simpl; auto)) as X; simpl in X; intuition discriminate
              | pose proof (I 3 ltac:(simpl; auto)) as X; simpl in X; intuition discriminate ] end.
Qed.

Example one_tet_queries :
  gcv_c one_tet 0 = Some [0; 1; 2; 3] /\ gcv_c_v one_tet 0 3 = Some [3; 1; 0; 2] /\
  halfface_opposite_vertex one_tet 4 = Some (Some 2) /\ vertex_opposite_halfface one_tet 0 2 = Some (Some 4) /\
  tet_iter one_tet 0 2 = Some [0; 1; 2; 3; 0; 1; 2; 3].
Proof. vm_compute. repeat split. Qed.

(* ================================================================== 6. the FULL shape statement is refuted *)

(* the property's shape: valences AND every live cell on exactly four distinct vertices *)
Definition cell_vertex_set (s : mesh) (c : nat) : list nat := set_of_list (flat_map (hf_vertices s) (cell_at s c)).
Definition tet_shape_full (s : mesh) : Prop :=
  tet_shape s /\ forall c, live_c s c = true -> length (cell_vertex_set s c) = 4.

(* two "pillows" (two faces on the same three halfedges each): four triangular halffaces, twelve halfedges on six
   edges, each used once in each direction - the topology check of add_cell accepts the list, the cell has SIX
   vertices.  Only additions are used. *)
Definition two_pillows : list top :=
  [TK (AddVertices 6);
   TK (AddFaceV [0; 1; 2]); TK (AddFace [0; 2; 4] false);
   TK (AddFaceV [3; 4; 5]); TK (AddFace [6; 8; 10] false);
   TK (AddCell [0; 3; 4; 7] true)].

Lemma tet_shape_full_refuted :
  exists ops, inside_along empty_mesh ops /\ (exists c, tet_step (tet_run (removelast ops)) (last ops (TK AddVertex)) = TOk (tet_run ops) (Some c)) /\
              ~ tet_shape_full (tet_run ops).
Proof.
  exists two_pillows. split; [vm_compute; repeat split|]. split; [exists 0; vm_compute; reflexivity|].
  intros [_ H]. specialize (H 0 eq_refl). vm_compute in H. discriminate.
Qed.

Example two_pillows_cell : cell_vertex_set (tet_run two_pillows) 0 = [0; 1; 2; 3; 4; 5] /\ tet_shape (tet_run two_pillows).
Proof. split; [vm_compute; reflexivity | apply tet_shape_run; vm_compute; repeat split]. Qed.
