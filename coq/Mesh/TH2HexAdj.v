(* Mesh/TH2HexAdj.v -- neighbours inside a closed cell (Kernel2.AdjacentProofs.closed_cell):
   the halffaces of a closed cell have duplicate-free halfedge lists; the hex kernel's own search
   get_adjacent_halfface (first match in the list other than self) and the specification-side unique_neighbour
   agree with the base kernel's adjacent_halfface_in_cell whenever the opposite halfface is not in the cell.
   Proofs only. *)
From Coq Require Import ZArith Lia Bool Arith List ZifyNat ZifyBool Permutation.
From OVM Require Import Base.ListX Base.ListLemmas Kernel.State Kernel.Ops Kernel.Mirror Kernel2.LookupModel Kernel2.ListAux
                        Kernel2.AdjacentProofs Mesh.TetModel Mesh.HexModel Mesh.HexIterModel Mesh.TetProofs Mesh.HexProofs
                        Mesh.TH2HexBase.
Import ListNotations.
Ltac Zify.zify_post_hook ::= Z.div_mod_to_equations.
Local Open Scope nat_scope.

(* ================================================================== 1. list facts *)

Lemma flat_map_length_ge {A B} (f : A -> list B) l x : In x l -> length (f x) <= length (flat_map f l).
Proof.
  induction l as [|y t IH]; intros Hin; [destruct Hin|].
  cbn [flat_map]. rewrite app_length. destruct Hin as [->|Hin]; [lia|]. specialize (IH Hin). lia.
Qed.

Lemma filter_length_le_cons {A} (p : A -> bool) a t : length (filter p t) <= length (filter p (a :: t)).
Proof. cbn [filter]. destruct (p a); cbn [length]; lia. Qed.

Lemma filter_length_pos {A} (p : A -> bool) l x : In x l -> p x = true -> 1 <= length (filter p l).
Proof.
  intros Hin Hp. assert (H : In x (filter p l)) by (apply filter_In; split; assumption).
  destruct (filter p l); [destruct H | cbn [length]; lia].
Qed.

(* a list in which no element is "matched" twice is duplicate-free *)
Lemma count_le1_NoDup (p : nat -> nat -> bool) (L : list nat) :
  (forall x, p x x = true) -> (forall x, In x L -> length (filter (p x) L) <= 1) -> NoDup L.
Proof.
  intros Hrefl. induction L as [|a t IH]; intros H; [constructor|]. constructor.
  - intros Hin. specialize (H a (or_introl eq_refl)). cbn [filter] in H. rewrite Hrefl in H. cbn [length] in H.
    pose proof (filter_length_pos (p a) t a Hin (Hrefl a)). lia.
  - apply IH. intros x Hx. specialize (H x (or_intror Hx)). pose proof (filter_length_le_cons (p x) a t). lia.
Qed.

Lemma find_hd_filter {A} (p : A -> bool) l : find p l = hd_error (filter p l).
Proof. induction l as [|x t IH]; [reflexivity|]. cbn [find filter]. destruct (p x); [reflexivity | exact IH]. Qed.

(* ================================================================== 2. halffaces of a closed cell *)

Lemma hf_matches_other s hf he x : x <> hf -> x <> opp hf ->
  hf_matches s hf he x = map (fun _ => x) (filter (fun heh => opp heh =? he) (halfface s x)).
Proof.
  intros N1 N2. unfold hf_matches.
  destruct (Nat.eqb_spec x hf) as [E|_]; [contradiction|]. destruct (Nat.eqb_spec x (opp hf)) as [E|_]; [contradiction|].
  reflexivity.
Qed.

(* every halfedge occurs once in its halfface *)
Theorem closed_cell_hf_NoDup s c hf : closed_cell s c -> In hf (cell_at s c) -> NoDup (halfface s hf).
Proof.
  intros Hcl Hin. apply (count_le1_NoDup (fun x y => opp y =? opp x)); [intros x; apply Nat.eqb_refl|].
  intros he Hhe.
  destruct (adjacent_closed_cell s c hf he Hcl Hin Hhe) as (hf'&_&(I'&N1&N2&O')&_&_).
  destruct (Hcl hf' I') as [_ Hm]. specialize (Hm (opp he) O'). rewrite adj_matches_flat in Hm.
  pose proof (flat_map_length_ge (hf_matches s hf' (opp he)) (cell_at s c) hf Hin) as G. rewrite Hm in G.
  rewrite hf_matches_other in G.
  - rewrite map_length in G. exact G.
  - intros E. apply N1. symmetry. exact E.
  - intros E. apply N2. rewrite E, opp_involutive. reflexivity.
Qed.

(* ================================================================== 3. get_adjacent_halfface *)

Definition adj_pred (s : mesh) (h he : nat) (x : nat) : bool := negb (x =? h) && memb (opp he) (halfface s x).

Lemma get_adj_find s h he l : get_adjacent_halfface s (Some h) (Some he) l = find (adj_pred s h he) l.
Proof. reflexivity. Qed.

Lemma adj_pred_true s h he x : adj_pred s h he x = true <-> x <> h /\ In (opp he) (halfface s x).
Proof. unfold adj_pred. rewrite andb_true_iff, negb_true_iff, Nat.eqb_neq, Kernel2.ListAux.memb_In. tauto. Qed.

Lemma get_adj_some s h he l y : get_adjacent_halfface s (Some h) (Some he) l = Some y ->
  In y l /\ y <> h /\ In (opp he) (halfface s y).
Proof.
  rewrite get_adj_find. intros H. apply find_some in H. destruct H as [Hin Hp]. apply adj_pred_true in Hp. tauto.
Qed.

Lemma get_adj_exists s h he l x : In x l -> x <> h -> In (opp he) (halfface s x) ->
  exists y, get_adjacent_halfface s (Some h) (Some he) l = Some y.
Proof.
  intros Hin N O. rewrite get_adj_find. destruct (find (adj_pred s h he) l) as [y|] eqn:E; [exists y; reflexivity|].
  exfalso. apply (find_not_None (adj_pred s h he) l x Hin); [apply adj_pred_true; split; assumption | exact E].
Qed.

(* the candidates the hex kernel's search sees are those of the base kernel's search, plus the opposite halfface *)
Lemma filter_le_matches s h he : forall l, (forall y, In y l -> y <> opp h) ->
  length (filter (adj_pred s h he) l) <= length (flat_map (hf_matches s h he) l).
Proof.
  induction l as [|y t IH]; intros Hno; [cbn; lia|].
  cbn [filter flat_map]. rewrite app_length.
  specialize (IH (fun z Hz => Hno z (or_intror Hz))).
  destruct (adj_pred s h he y) eqn:P; [|lia].
  apply adj_pred_true in P. destruct P as [N O]. cbn [length].
  rewrite hf_matches_other by (try exact N; apply Hno; left; reflexivity). rewrite map_length.
  pose proof (filter_length_pos (fun heh => opp heh =? he) (halfface s y) (opp he) O) as G.
  cbv beta in G. rewrite opp_involutive, Nat.eqb_refl in G. specialize (G eq_refl). lia.
Qed.

Theorem nbr_filter s c h he x :
  closed_cell s c -> In h (cell_at s c) -> ~ In (opp h) (cell_at s c) -> In he (halfface s h) ->
  adjacent_halfface_in_cell s h he = Some x ->
  filter (adj_pred s h he) (cell_at s c) = [x].
Proof.
  intros Hcl Hin Hopp Hhe Hadj.
  destruct (adjacent_closed_cell s c h he Hcl Hin Hhe) as (x'&E&(I'&N1&N2&O')&_&_).
  rewrite Hadj in E. inversion E; subst x'. clear E.
  destruct (Hcl h Hin) as [_ Hm]. specialize (Hm he Hhe). rewrite adj_matches_flat in Hm.
  pose proof (filter_le_matches s h he (cell_at s c)) as G. rewrite Hm in G.
  assert (Hno : forall y, In y (cell_at s c) -> y <> opp h) by (intros y Hy E; apply Hopp; rewrite <- E; exact Hy).
  specialize (G Hno).
  assert (Px : adj_pred s h he x = true) by (apply adj_pred_true; split; assumption).
  pose proof (filter_length_pos _ _ x I' Px) as G2.
  apply length1_In; [lia|]. apply filter_In. split; assumption.
Qed.

Theorem get_adj_nbr s c h he x :
  closed_cell s c -> In h (cell_at s c) -> ~ In (opp h) (cell_at s c) -> In he (halfface s h) ->
  adjacent_halfface_in_cell s h he = Some x ->
  get_adjacent_halfface s (Some h) (Some he) (cell_at s c) = Some x.
Proof.
  intros Hcl Hin Hopp Hhe Hadj. rewrite get_adj_find, find_hd_filter, (nbr_filter s c h he x); auto.
Qed.

Theorem unique_neighbour_nbr s c h he x :
  closed_cell s c -> In h (cell_at s c) -> ~ In (opp h) (cell_at s c) -> In he (halfface s h) ->
  adjacent_halfface_in_cell s h he = Some x ->
  unique_neighbour s (cell_at s c) h he = Some x.
Proof.
  intros Hcl Hin Hopp Hhe Hadj. unfold unique_neighbour.
  change (filter (fun x0 => negb (x0 =? h) && memb (opp he) (halfface s x0)) (cell_at s c))
    with (filter (adj_pred s h he) (cell_at s c)).
  rewrite (nbr_filter s c h he x); auto.
Qed.

(* conversely: in a closed cell whose opposite halfface is absent, what the hex kernel's search finds is the neighbour *)
Theorem get_adj_is_nbr s c h he y :
  closed_cell s c -> In h (cell_at s c) -> ~ In (opp h) (cell_at s c) -> In he (halfface s h) ->
  get_adjacent_halfface s (Some h) (Some he) (cell_at s c) = Some y ->
  adjacent_halfface_in_cell s h he = Some y.
Proof.
  intros Hcl Hin Hopp Hhe G.
  destruct (adjacent_closed_cell s c h he Hcl Hin Hhe) as (x&E&_).
  rewrite (get_adj_nbr s c h he x Hcl Hin Hopp Hhe E) in G. inversion G; subst. exact E.
Qed.
