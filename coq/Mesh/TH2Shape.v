(* Mesh/TH2Shape.v -- C15/C16: the valence shape (kshape kf kc: every stored face has kf halfedges, every stored cell kc
   halffaces) across PHYSICAL REMOVAL IN THE SLOW (index-shifting) MODE: immediate deletion with fast deletion off, and a
   garbage collection with fast deletion off.  Mesh/TetProofs.v left these steps outside (`outside_partial`).

   Slow removal FILTERS the handles of the removed entity out of the stored lists of the referring entities
   (TopologyKernel.cc:1270-1300, 1390-1420) and so keeps the lengths only if no survivor refers to the removed entity.
   That is NOT true of every state a tetrahedral / hexahedral mesh can reach through its public operations: see
   Mesh/TH2ShapeHist.v, `tet_shape_unconditional_refuted` (a halfface used by two cells - add_cell without topology check
   accepts it and the library documents this as intended for non-manifold configurations - makes delete_face miss one
   of the two cells, whose list then shrinks to three halffaces).  What is true, and proved here from the C02 / C04
   theorems of the polyhedral kernel: under the hypothesis of those theorems (shift_inv2: the invariant of the immediate
   slow mode; gc_ready: the hypothesis of the collection theorem) every survivor's list is its old list under a renaming
   of handles, hence keeps its length. *)
From Coq Require Import ZArith Lia Bool Arith List ZifyNat ZifyBool.
From OVM Require Import Base.ListX Kernel.State Kernel.Ops Kernel.DeferredDelete Kernel.ShiftFace Kernel.ShiftCompose
                        Kernel3.GcDefs Kernel3.GcInv Kernel3.GcMain Mesh.TetModel Mesh.TetProofs.
Import ListNotations.
Ltac Zify.zify_post_hook ::= Z.div_mod_to_equations.
Local Open Scope nat_scope.

(* ------------------------------------------------------------------ list facts *)

Lemma Forall_keep_slots {A} (P : A -> Prop) d cs (l : list A) : Forall P l -> Forall P (keep_slots d cs l).
Proof.
  intros F. unfold keep_slots. apply Forall_forall. intros x Hx. apply in_map_iff in Hx. destruct Hx as (i & <- & Hi).
  apply filter_In in Hi. destruct Hi as [Hi _]. apply in_seq in Hi. rewrite Forall_forall in F. apply F. apply nth_In. lia.
Qed.

Lemma Forall_len_keep_map k (g : nat -> nat) cs ll : Forall (lenP k) ll -> Forall (lenP k) (map (map g) (keep_slots [] cs ll)).
Proof. intros F. apply Forall_len_map_map. apply Forall_keep_slots. exact F. Qed.

Lemma Forall_len_logical k (g : nat -> nat) (at_ : nat -> list nat) (live : list nat) (ll : list (list nat)) :
  (forall i, In i live -> i < length ll) -> (forall i, at_ i = nth i ll []) ->
  Forall (lenP k) ll -> Forall (lenP k) (map (fun i => map g (at_ i)) live).
Proof.
  intros R E F. apply Forall_forall. intros x Hx. apply in_map_iff in Hx. destruct Hx as (i & <- & Hi).
  unfold lenP. rewrite map_length, E. rewrite Forall_forall in F. apply F. apply nth_In. apply R. exact Hi.
Qed.

(* ------------------------------------------------------------------ slow immediate deletions *)

(* delete_cell: no hypothesis at all (only the cell array loses a slot) *)
Lemma kshape_delete_cell_slow kf kc c s : deferred s = false -> fast s = false -> kshape kf kc s -> kshape kf kc (delete_cell c s).
Proof.
  intros D F [Kf Kc]. unfold delete_cell. pose proof (delete_cell_core_view c s D F) as V. cbv zeta in V.
  destruct V as (_ & _ & v3 & v4 & _). split.
  - rewrite v3. exact Kf.
  - rewrite v4. apply Forall_remove_nth. exact Kc.
Qed.

Lemma kshape_delete_face_slow kf kc f s : deferred s = false -> fast s = false -> shift_inv2 s -> f < nf s ->
  kshape kf kc s -> kshape kf kc (delete_face f s).
Proof.
  intros D F I Hf [Kf Kc]. pose proof (delete_face_immediate_full f s D F I Hf) as V. cbv zeta in V.
  destruct V as (_ & _ & _ & _ & _ & vf & vc). split.
  - rewrite vf. apply Forall_remove_nth. exact Kf.
  - rewrite vc. apply (Forall_len_keep_map kc). exact Kc.
Qed.

Lemma kshape_delete_edge_slow kf kc e s : deferred s = false -> fast s = false -> shift_inv2 s -> e < ne s ->
  kshape kf kc s -> kshape kf kc (delete_edge e s).
Proof.
  intros D F I He [Kf Kc]. pose proof (delete_edge_immediate e s D F I He) as V. cbv zeta in V.
  destruct V as (_ & _ & _ & _ & _ & vf & vc). split.
  - rewrite vf. apply (Forall_len_keep_map kf). exact Kf.
  - rewrite vc. apply (Forall_len_keep_map kc). exact Kc.
Qed.

Lemma kshape_delete_vertex_slow kf kc v s : deferred s = false -> fast s = false -> shift_inv2 s -> v < nv s ->
  kshape kf kc s -> kshape kf kc (delete_vertex v s).
Proof.
  intros D F I Hv [Kf Kc]. pose proof (delete_vertex_immediate v s D F I Hv) as V. cbv zeta in V.
  destruct V as (_ & _ & _ & _ & _ & vf & vc). split.
  - rewrite vf. apply (Forall_len_keep_map kf). exact Kf.
  - rewrite vc. apply (Forall_len_keep_map kc). exact Kc.
Qed.

(* ------------------------------------------------------------------ slow garbage collection *)

Lemma live_faces_lt s i : In i (live_faces s) -> i < length (faces s).
Proof. unfold live_faces. intros H. apply filter_In in H. destruct H as [H _]. apply in_seq in H. unfold nf in H. lia. Qed.
Lemma live_cells_lt s i : In i (live_cells s) -> i < length (cells s).
Proof. unfold live_cells. intros H. apply filter_In in H. destruct H as [H _]. apply in_seq in H. unfold nc in H. lia. Qed.

Lemma kshape_collect_garbage_slow kf kc s : gc_ready s -> fast s = false -> kshape kf kc s ->
  kshape kf kc (collect_garbage s) /\ deferred (collect_garbage s) = true /\ fast (collect_garbage s) = false.
Proof.
  intros R F [Kf Kc]. pose proof (collect_garbage_nonfast_logical s R F) as V. cbv zeta in V.
  destruct V as (_ & _ & vf & vc & _ & _ & _ & _ & _ & _ & _ & vd & vfa & _). split; [split|split; assumption].
  - rewrite vf. unfold logical_faces. apply (Forall_len_logical kf _ (face_at s) (live_faces s) (faces s));
      [apply live_faces_lt | reflexivity | exact Kf].
  - rewrite vc. unfold logical_cells. apply (Forall_len_logical kc _ (cell_at s) (live_cells s) (cells s));
      [apply live_cells_lt | reflexivity | exact Kc].
Qed.

(* garbage collection in ANY mode: fast needs nothing, slow needs the hypothesis of the collection theorem *)
Lemma kshape_collect_garbage_any kf kc s : kshape kf kc s -> (fast s = false -> deferred s && needs_gc s = true -> gc_ready s) ->
  kshape kf kc (collect_garbage s).
Proof.
  intros K H. destruct (deferred s && needs_gc s) eqn:G.
  - destruct (fast s) eqn:Fa.
    + exact (proj1 (kshape_collect_garbage_fast kf kc s K Fa)).
    + exact (proj1 (kshape_collect_garbage_slow kf kc s (H eq_refl eq_refl) Fa K)).
  - rewrite collect_garbage_noop by exact G. exact K.
Qed.

Lemma kshape_enable_deferred_any kf kc b s : kshape kf kc s ->
  (fast s = false -> deferred s && negb b && needs_gc s = true -> gc_ready s) -> kshape kf kc (enable_deferred b s).
Proof.
  intros K H. unfold enable_deferred. destruct (deferred s && negb b) eqn:Db.
  - assert (K' : kshape kf kc (collect_garbage s)).
    { apply kshape_collect_garbage_any; [exact K|]. intros Fa G. apply H; [exact Fa|].
      apply andb_true_iff in G. destruct G as [_ G]. rewrite G. reflexivity. }
    destruct K'; split; assumption.
  - destruct K; split; assumption.
Qed.

(* ------------------------------------------------------------------ the kernel operations, every mode *)

(* the steps that physically remove entities in the slow mode and need a kernel hypothesis (delete_cell needs none) *)
Definition kslow (s : mesh) (k : op) : bool :=
  match k with
  | DelVertex _ | DelEdge _ | DelFace _ => negb (deferred s) && negb (fast s)
  | CollectGarbage => deferred s && needs_gc s && negb (fast s)
  | EnableDeferred b => deferred s && negb b && needs_gc s && negb (fast s)
  | _ => false
  end.

(* the hypotheses of the C02 (immediate index-shifting deletion) resp. C04 (collection) theorems *)
Definition khyp (s : mesh) (k : op) : Prop :=
  match k with
  | DelVertex _ | DelEdge _ | DelFace _ => shift_inv2 s
  | CollectGarbage | EnableDeferred _ => gc_ready s
  | _ => True
  end.

(* decidable sound version *)
Definition khyp_b (s : mesh) (k : op) : bool :=
  match k with
  | DelVertex _ | DelEdge _ | DelFace _ => shift_inv2_b s
  | CollectGarbage | EnableDeferred _ => gc_ready_b s
  | _ => true
  end.

Lemma khyp_b_sound s k : khyp_b s k = true -> khyp s k.
Proof.
  destruct k; cbn [khyp_b khyp]; intros H; try exact I; try (apply shift_inv2_b_sound; exact H); apply gc_ready_b_sound; exact H.
Qed.

Definition is_set_fc (k : op) : bool := match k with SetFace _ _ | SetCell _ _ => true | _ => false end.

Lemma live_lt_v s v : live_v s v = true -> v < nv s.
Proof. unfold live_v. intros H. apply andb_true_iff in H. destruct H as [H _]. apply Nat.ltb_lt in H. exact H. Qed.
Lemma live_lt_e s v : live_e s v = true -> v < ne s.
Proof. unfold live_e. intros H. apply andb_true_iff in H. destruct H as [H _]. apply Nat.ltb_lt in H. exact H. Qed.
Lemma live_lt_f s v : live_f s v = true -> v < nf s.
Proof. unfold live_f. intros H. apply andb_true_iff in H. destruct H as [H _]. apply Nat.ltb_lt in H. exact H. Qed.

Lemma slow_modes s : negb (deferred s) && negb (fast s) = true -> deferred s = false /\ fast s = false.
Proof. destruct (deferred s), (fast s); try discriminate. split; reflexivity. Qed.

(* every kernel operation other than the guarded additions (handled per mesh type) and set_face / set_cell *)
Theorem kshape_exec_all kf kc s k s' r :
  kshape kf kc s -> valid_op s k = true -> is_set_fc k = false -> (kslow s k = true -> khyp s k) ->
  (forall hes c, k <> AddFace hes c) -> (forall vs, k <> AddFaceV vs) -> (forall hfs c, k <> AddCell hfs c) ->
  exec s k = (s', r) -> kshape kf kc s'.
Proof.
  intros K V NS H NF NV NC E.
  destruct (outside_partial s (TK k)) eqn:O.
  2:{ exact (shape_exec_kernel kf kc s k s' r K V O NF NV NC E). }
  destruct k; cbn [outside_partial] in O; try discriminate; cbn [is_set_fc] in NS; try discriminate;
    cbn [exec] in E; cbn [valid_op] in V; cbn [kslow khyp] in H; inversion E; subst s' r; clear E.
  - (* DelVertex *) destruct (slow_modes s O) as [D F]. apply kshape_delete_vertex_slow; auto. apply live_lt_v. exact V.
  - destruct (slow_modes s O) as [D F]. apply kshape_delete_edge_slow; auto. apply live_lt_e. exact V.
  - destruct (slow_modes s O) as [D F]. apply kshape_delete_face_slow; auto. apply live_lt_f. exact V.
  - destruct (slow_modes s O) as [D F]. apply kshape_delete_cell_slow; auto.
  - (* CollectGarbage *) apply kshape_collect_garbage_any; [exact K|]. intros _ _. apply H. exact O.
  - (* EnableDeferred *) apply kshape_enable_deferred_any; [exact K|]. intros _ _. apply H. exact O.
Qed.
