(* Mesh/TH2TopoLabel.v -- get_label(HFH) and get_label(HFH, VH) invert the halfface accessors of EVERY TetTopology
   whose four vertices are distinct and whose four stored halffaces lie on four distinct faces (all 32 halfface
   labels; the companion of label_v_inverts / label_he_inverts of Mesh/TetTopoProofs.v).  Pure label algebra on an
   abstract record: no mesh involved. *)
From Coq Require Import ZArith Lia Bool Arith List ZifyNat ZifyBool.
From OVM Require Import Base.ListX Base.ListLemmas Base.Int32 Gen.TetLabels Kernel.State Kernel.Ops Kernel.Mirror
                        Mesh.TetModel Mesh.TetTopoModel Mesh.TetTopoProofs.
Import ListNotations.
Ltac Zify.zify_post_hook ::= Z.div_mod_to_equations.
Local Open Scope nat_scope.

Definition tt4 (v0 v1 v2 v3 : nat) (heh : list (option nat)) (f0 f1 f2 f3 : nat) : ttopo :=
  {| tt_vh := [Some v0; Some v1; Some v2; Some v3]; tt_heh := heh; tt_hfh := [Some f0; Some f1; Some f2; Some f3] |}.

(* two half-entities of one entity are equal or opposite *)
Lemma half_eq (h k : nat) : h / 2 = k / 2 -> h = k \/ h = opp k.
Proof. intros E. rewrite (opp_spec k). lia. Qed.

Lemma half_neq (h k : nat) : h / 2 <> k / 2 -> h <> k /\ h <> opp k.
Proof.
  intros N. split; intros E; apply N; subst h; [reflexivity | apply opp_div2].
Qed.

(* ------------------------------------------------------------------ get_label(HFH): labels without a start *)

Lemma label_hf_at (t : ttopo) (fs : list nat) (i x h : nat) (side : bool) :
  tt_hfh t = map Some fs -> NoDup (map (fun h => h / 2) fs) -> i < length fs -> nth i fs 0 = x ->
  h = (if side then x else opp x) ->
  tt_label_hf t h = Some (if side then Z.shiftl (Z.of_nat i) 2 else HFL_opposite (Z.shiftl (Z.of_nat i) 2)).
Proof.
  intros Et ND Hi Hx Hs. unfold tt_label_hf. rewrite Et.
  assert (Hh2 : h / 2 = x / 2) by (subst h; destruct side; [reflexivity | apply opp_div2]).
  assert (N : forall j, j < length fs -> nth j (map Some fs) None = Some (nth j fs 0)).
  { intros j Hj. rewrite (nth_indep _ None (Some 0)) by (rewrite map_length; exact Hj). apply (map_nth Some fs 0 j). }
  rewrite (find_index_unique _ _ i None).
  - cbv zeta. unfold oget. rewrite (N i Hi), Hx. cbn [oeqb]. destruct side; subst h; [rewrite Nat.eqb_refl; reflexivity|].
    destruct (Nat.eqb_spec x (opp x)) as [F|F]; [exfalso; exact (opp_neq x (eq_sym F)) | reflexivity].
  - rewrite map_length. exact Hi.
  - rewrite (N i Hi), Hx. cbn [ofull]. rewrite Hh2. apply Nat.eqb_refl.
  - intros j Hj. rewrite (N j ltac:(lia)). cbn [ofull]. apply Nat.eqb_neq. intros F. rewrite Hh2, <- Hx in F.
    assert (j = i); [|lia].
    apply (proj1 (NoDup_nth (map (fun h => h / 2) fs) 0) ND); [rewrite map_length; lia | rewrite map_length; lia|].
    rewrite !(map_nth (fun h => h / 2) fs 0). exact F.
Qed.

(* ------------------------------------------------------------------ get_label(HFH, VH): one group of labels at a time *)

Lemma try_hit t l h fl : tt_hfh_l t l = Some h -> tt_try_label t l h fl = tt_try_starts l fl.
Proof. intros E. unfold tt_try_label. rewrite E. cbn [oeqb]. rewrite Nat.eqb_refl. reflexivity. Qed.

Lemma try_hit_outer t l f fl : tt_hfh_l t l = Some f -> tt_hfh_l t (HFL_opposite l) = Some (opp f) ->
  tt_try_label t l (opp f) fl = tt_try_starts (HFL_opposite l) fl.
Proof.
  intros E E'. unfold tt_try_label. rewrite E. cbn [oeqb].
  destruct (Nat.eqb_spec f (opp f)) as [F|_]; [exfalso; exact (opp_neq f (eq_sym F))|].
  rewrite opp_involutive, Nat.eqb_refl. cbv zeta. rewrite E'. cbn [oeqb]. rewrite Nat.eqb_refl. reflexivity.
Qed.

Lemma try_miss t l f h fl : tt_hfh_l t l = Some f -> f <> h -> f <> opp h -> tt_try_label t l h fl = None.
Proof.
  intros E N N'. unfold tt_try_label. rewrite E. cbn [oeqb].
  rewrite (proj2 (Nat.eqb_neq _ _) N), (proj2 (Nat.eqb_neq _ _) N'). reflexivity.
Qed.

Definition starts_or_none (l fl : Z) : option Z := match tt_try_starts l fl with Some x => Some x | None => None end.

Section Groups.
  Variables (v0 v1 v2 v3 : nat) (heh : list (option nat)) (f0 f1 f2 f3 : nat).
  Hypothesis NV : NoDup [v0; v1; v2; v3].
  Hypothesis NF : NoDup (map (fun h => h / 2) [f0; f1; f2; f3]).
  Let t := tt4 v0 v1 v2 v3 heh f0 f1 f2 f3.

  Lemma faces_apart :
    f0 / 2 <> f1 / 2 /\ f0 / 2 <> f2 / 2 /\ f0 / 2 <> f3 / 2 /\ f1 / 2 <> f2 / 2 /\ f1 / 2 <> f3 / 2 /\ f2 / 2 <> f3 / 2.
  Proof.
    cbn [map] in NF. inversion NF as [|? ? a N1]; subst. inversion N1 as [|? ? b N2]; subst. inversion N2 as [|? ? d _]; subst.
    simpl in a, b, d. repeat split; intros E; rewrite E in *; intuition.
  Qed.

  (* every pair (stored halfface, halfface of another slot or its opposite) differs *)
  Lemma apart (f g : nat) : f / 2 <> g / 2 -> f <> g /\ f <> opp g /\ f <> opp (opp g) /\ g <> f /\ g <> opp f /\ g <> opp (opp f).
  Proof.
    intros N. rewrite !opp_involutive. destruct (half_neq f g N) as [a b].
    destruct (half_neq g f (fun e => N (eq_sym e))) as [a' b']. auto 6.
  Qed.

  Lemma hfh_0 : tt_hfh_l t HFL_OppA = Some f0. Proof. reflexivity. Qed.
  Lemma hfh_1 : tt_hfh_l t HFL_OppB = Some f1. Proof. reflexivity. Qed.
  Lemma hfh_2 : tt_hfh_l t HFL_OppC = Some f2. Proof. reflexivity. Qed.
  Lemma hfh_3 : tt_hfh_l t HFL_OppD = Some f3. Proof. reflexivity. Qed.
  Lemma hfh_0o : tt_hfh_l t (HFL_opposite HFL_OppA) = Some (opp f0). Proof. reflexivity. Qed.
  Lemma hfh_1o : tt_hfh_l t (HFL_opposite HFL_OppB) = Some (opp f1). Proof. reflexivity. Qed.
  Lemma hfh_2o : tt_hfh_l t (HFL_opposite HFL_OppC) = Some (opp f2). Proof. reflexivity. Qed.
  Lemma hfh_3o : tt_hfh_l t (HFL_opposite HFL_OppD) = Some (opp f3). Proof. reflexivity. Qed.

  Ltac miss E := rewrite (try_miss t _ _ _ _ E) by tauto.

  Ltac prep :=
    destruct faces_apart as (n01&n02&n03&n12&n13&n23);
    pose proof (apart _ _ n01); pose proof (apart _ _ n02); pose proof (apart _ _ n03);
    pose proof (apart _ _ n12); pose proof (apart _ _ n13); pose proof (apart _ _ n23);
    unfold tt_label_hf_v, starts_or_none;
    match goal with |- context [tt_label_v t ?v] => destruct (tt_label_v t v) as [fl|]; [|reflexivity] end.

  Lemma group_0 v : tt_label_hf_v t f0 v = match tt_label_v t v with Some fl => starts_or_none HFL_OppA fl | None => None end.
  Proof.
    prep. rewrite (try_hit t _ _ _ hfh_0). destruct (tt_try_starts HFL_OppA fl); [reflexivity|].
    miss hfh_1. miss hfh_2. miss hfh_3. reflexivity.
  Qed.

  Lemma group_1 v : tt_label_hf_v t f1 v = match tt_label_v t v with Some fl => starts_or_none HFL_OppB fl | None => None end.
  Proof.
    prep. miss hfh_0. rewrite (try_hit t _ _ _ hfh_1). destruct (tt_try_starts HFL_OppB fl); [reflexivity|].
    miss hfh_2. miss hfh_3. reflexivity.
  Qed.

  Lemma group_2 v : tt_label_hf_v t f2 v = match tt_label_v t v with Some fl => starts_or_none HFL_OppC fl | None => None end.
  Proof.
    prep. miss hfh_0. miss hfh_1. rewrite (try_hit t _ _ _ hfh_2). destruct (tt_try_starts HFL_OppC fl); [reflexivity|].
    miss hfh_3. reflexivity.
  Qed.

  Lemma group_3 v : tt_label_hf_v t f3 v = match tt_label_v t v with Some fl => starts_or_none HFL_OppD fl | None => None end.
  Proof.
    prep. miss hfh_0. miss hfh_1. miss hfh_2. rewrite (try_hit t _ _ _ hfh_3).
    destruct (tt_try_starts HFL_OppD fl); reflexivity.
  Qed.

  Lemma group_0o v : tt_label_hf_v t (opp f0) v =
    match tt_label_v t v with Some fl => starts_or_none (HFL_opposite HFL_OppA) fl | None => None end.
  Proof.
    prep. rewrite (try_hit_outer t _ _ _ hfh_0 hfh_0o). destruct (tt_try_starts (HFL_opposite HFL_OppA) fl); [reflexivity|].
    miss hfh_1. miss hfh_2. miss hfh_3. reflexivity.
  Qed.

  Lemma group_1o v : tt_label_hf_v t (opp f1) v =
    match tt_label_v t v with Some fl => starts_or_none (HFL_opposite HFL_OppB) fl | None => None end.
  Proof.
    prep. miss hfh_0. rewrite (try_hit_outer t _ _ _ hfh_1 hfh_1o). destruct (tt_try_starts (HFL_opposite HFL_OppB) fl); [reflexivity|].
    miss hfh_2. miss hfh_3. reflexivity.
  Qed.

  Lemma group_2o v : tt_label_hf_v t (opp f2) v =
    match tt_label_v t v with Some fl => starts_or_none (HFL_opposite HFL_OppC) fl | None => None end.
  Proof.
    prep. miss hfh_0. miss hfh_1. rewrite (try_hit_outer t _ _ _ hfh_2 hfh_2o).
    destruct (tt_try_starts (HFL_opposite HFL_OppC) fl); [reflexivity|]. miss hfh_3. reflexivity.
  Qed.

  Lemma group_3o v : tt_label_hf_v t (opp f3) v =
    match tt_label_v t v with Some fl => starts_or_none (HFL_opposite HFL_OppD) fl | None => None end.
  Proof.
    prep. miss hfh_0. miss hfh_1. miss hfh_2. rewrite (try_hit_outer t _ _ _ hfh_3 hfh_3o).
    destruct (tt_try_starts (HFL_opposite HFL_OppD) fl); reflexivity.
  Qed.

  (* get_label(VH) on the four vertices *)
  Lemma lv_0 : tt_label_v t v0 = Some 0%Z.
  Proof. apply (label_v_inverts t v0 v1 v2 v3 eq_refl NV); [simpl; auto | reflexivity]. Qed.
  Lemma lv_1 : tt_label_v t v1 = Some 1%Z.
  Proof. apply (label_v_inverts t v0 v1 v2 v3 eq_refl NV); [simpl; auto | reflexivity]. Qed.
  Lemma lv_2 : tt_label_v t v2 = Some 2%Z.
  Proof. apply (label_v_inverts t v0 v1 v2 v3 eq_refl NV); [simpl; auto | reflexivity]. Qed.
  Lemma lv_3 : tt_label_v t v3 = Some 3%Z.
  Proof. apply (label_v_inverts t v0 v1 v2 v3 eq_refl NV); [simpl; auto 6 | reflexivity]. Qed.

  (* the statement of tt_label_consistent for one halfface label *)
  Definition hf_label_ok (l : Z) : bool :=
    if HFL_has_start l then
      oall (fun hf => oall (fun v => match tt_label_hf_v t hf v with Some l' => Z.eqb l l' | None => false end)
                           (tt_vh_l t (TT_hfl_vl l 0))) (tt_hfh_l t l)
    else
      oall (fun hf => match tt_label_hf t hf with Some l' => Z.eqb l l' | None => false end) (tt_hfh_l t l).

  (* a label with a start: halfface [hf] (group lemma [G] with base [b]), start vertex [v] with label [k] *)
  Lemma start_case l hf v b k :
    HFL_has_start l = true -> tt_hfh_l t l = Some hf -> tt_vh_l t (TT_hfl_vl l 0) = Some v ->
    (forall w, tt_label_hf_v t hf w = match tt_label_v t w with Some fl => starts_or_none b fl | None => None end) ->
    tt_label_v t v = Some k -> starts_or_none b k = Some l -> hf_label_ok l = true.
  Proof.
    intros S Eh Ev G Lv St. unfold hf_label_ok. rewrite S, Eh. cbn [oall]. rewrite Ev. cbn [oall].
    rewrite G, Lv, St. apply Z.eqb_refl.
  Qed.

  Lemma nostart_case l i (side : bool) :
    HFL_has_start l = false -> i < 4 ->
    tt_hfh_l t l = Some (if side then nth i [f0; f1; f2; f3] 0 else opp (nth i [f0; f1; f2; f3] 0)) ->
    (if side then Z.shiftl (Z.of_nat i) 2 else HFL_opposite (Z.shiftl (Z.of_nat i) 2)) = l -> hf_label_ok l = true.
  Proof.
    intros S Hi Eh El. unfold hf_label_ok. rewrite S, Eh. cbn [oall].
    rewrite (label_hf_at t [f0; f1; f2; f3] i _ _ side eq_refl NF Hi eq_refl eq_refl). rewrite El. apply Z.eqb_refl.
  Qed.

  Theorem label_hf_inverts l : In l HFL_all -> hf_label_ok l = true.
  Proof.
    intros Hl. unfold HFL_all in Hl.
    repeat (destruct Hl as [<-|Hl]; [|]); [..|destruct Hl].
    (* group OppA: f0 *)
    - apply (nostart_case 0%Z 0 true); [reflexivity | lia | reflexivity | reflexivity].
    - apply (start_case 1%Z f0 v1 HFL_OppA 1%Z); [reflexivity | reflexivity | reflexivity | exact group_0 | exact lv_1 | reflexivity].
    - apply (start_case 2%Z f0 v2 HFL_OppA 2%Z); [reflexivity | reflexivity | reflexivity | exact group_0 | exact lv_2 | reflexivity].
    - apply (start_case 3%Z f0 v3 HFL_OppA 3%Z); [reflexivity | reflexivity | reflexivity | exact group_0 | exact lv_3 | reflexivity].
    (* group OppB: f1 *)
    - apply (nostart_case 4%Z 1 true); [reflexivity | lia | reflexivity | reflexivity].
    - apply (start_case 5%Z f1 v0 HFL_OppB 0%Z); [reflexivity | reflexivity | reflexivity | exact group_1 | exact lv_0 | reflexivity].
    - apply (start_case 6%Z f1 v2 HFL_OppB 2%Z); [reflexivity | reflexivity | reflexivity | exact group_1 | exact lv_2 | reflexivity].
    - apply (start_case 7%Z f1 v3 HFL_OppB 3%Z); [reflexivity | reflexivity | reflexivity | exact group_1 | exact lv_3 | reflexivity].
    (* group OppC: f2 *)
    - apply (nostart_case 8%Z 2 true); [reflexivity | lia | reflexivity | reflexivity].
    - apply (start_case 9%Z f2 v0 HFL_OppC 0%Z); [reflexivity | reflexivity | reflexivity | exact group_2 | exact lv_0 | reflexivity].
    - apply (start_case 10%Z f2 v1 HFL_OppC 1%Z); [reflexivity | reflexivity | reflexivity | exact group_2 | exact lv_1 | reflexivity].
    - apply (start_case 11%Z f2 v3 HFL_OppC 3%Z); [reflexivity | reflexivity | reflexivity | exact group_2 | exact lv_3 | reflexivity].
    (* group OppD: f3 *)
    - apply (nostart_case 12%Z 3 true); [reflexivity | lia | reflexivity | reflexivity].
    - apply (start_case 13%Z f3 v0 HFL_OppD 0%Z); [reflexivity | reflexivity | reflexivity | exact group_3 | exact lv_0 | reflexivity].
    - apply (start_case 14%Z f3 v1 HFL_OppD 1%Z); [reflexivity | reflexivity | reflexivity | exact group_3 | exact lv_1 | reflexivity].
    - apply (start_case 15%Z f3 v2 HFL_OppD 2%Z); [reflexivity | reflexivity | reflexivity | exact group_3 | exact lv_2 | reflexivity].
    (* group OuterOppA: (opp f0) *)
    - apply (nostart_case 16%Z 0 false); [reflexivity | lia | reflexivity | reflexivity].
    - apply (start_case 17%Z (opp f0) v1 (HFL_opposite HFL_OppA) 1%Z); [reflexivity | reflexivity | reflexivity | exact group_0o | exact lv_1 | reflexivity].
    - apply (start_case 18%Z (opp f0) v2 (HFL_opposite HFL_OppA) 2%Z); [reflexivity | reflexivity | reflexivity | exact group_0o | exact lv_2 | reflexivity].
    - apply (start_case 19%Z (opp f0) v3 (HFL_opposite HFL_OppA) 3%Z); [reflexivity | reflexivity | reflexivity | exact group_0o | exact lv_3 | reflexivity].
    (* group OuterOppB: (opp f1) *)
    - apply (nostart_case 20%Z 1 false); [reflexivity | lia | reflexivity | reflexivity].
    - apply (start_case 21%Z (opp f1) v0 (HFL_opposite HFL_OppB) 0%Z); [reflexivity | reflexivity | reflexivity | exact group_1o | exact lv_0 | reflexivity].
    - apply (start_case 22%Z (opp f1) v2 (HFL_opposite HFL_OppB) 2%Z); [reflexivity | reflexivity | reflexivity | exact group_1o | exact lv_2 | reflexivity].
    - apply (start_case 23%Z (opp f1) v3 (HFL_opposite HFL_OppB) 3%Z); [reflexivity | reflexivity | reflexivity | exact group_1o | exact lv_3 | reflexivity].
    (* group OuterOppC: (opp f2) *)
    - apply (nostart_case 24%Z 2 false); [reflexivity | lia | reflexivity | reflexivity].
    - apply (start_case 25%Z (opp f2) v0 (HFL_opposite HFL_OppC) 0%Z); [reflexivity | reflexivity | reflexivity | exact group_2o | exact lv_0 | reflexivity].
    - apply (start_case 26%Z (opp f2) v1 (HFL_opposite HFL_OppC) 1%Z); [reflexivity | reflexivity | reflexivity | exact group_2o | exact lv_1 | reflexivity].
    - apply (start_case 27%Z (opp f2) v3 (HFL_opposite HFL_OppC) 3%Z); [reflexivity | reflexivity | reflexivity | exact group_2o | exact lv_3 | reflexivity].
    (* group OuterOppD: (opp f3) *)
    - apply (nostart_case 28%Z 3 false); [reflexivity | lia | reflexivity | reflexivity].
    - apply (start_case 29%Z (opp f3) v0 (HFL_opposite HFL_OppD) 0%Z); [reflexivity | reflexivity | reflexivity | exact group_3o | exact lv_0 | reflexivity].
    - apply (start_case 30%Z (opp f3) v1 (HFL_opposite HFL_OppD) 1%Z); [reflexivity | reflexivity | reflexivity | exact group_3o | exact lv_1 | reflexivity].
    - apply (start_case 31%Z (opp f3) v2 (HFL_opposite HFL_OppD) 2%Z); [reflexivity | reflexivity | reflexivity | exact group_3o | exact lv_2 | reflexivity].
  Qed.
End Groups.
