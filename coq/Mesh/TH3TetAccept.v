(* Mesh/TH3TetAccept.v -- C15, add_cell(vertices, topologyCheck = true): which calls are accepted.

   Under the hypotheses of Mesh/TH3TetMain.v the four found-or-created triangles always pass the "closed two-manifold" test
   (the two std::sets of add_cell(vertices): twelve different halfedges on six edges) and the base kernel's cell_check; the
   call is rejected exactly when one of the four halffaces is an OLD halfface of s that already has an incident cell.
     asm_matched / asm_cell_check / asm_closed_by_sets
     tet_add_cell_v_checked_acceptance
   Proofs only. *)
From Coq Require Import ZArith Lia Bool Arith List ZifyNat ZifyBool Permutation.
From OVM Require Import Base.ListX Base.ListLemmas Kernel.State Kernel.Ops Kernel.Mirror Kernel.Recompute Kernel.Closure Kernel.CellCheck
                        Kernel.Construct Kernel.ExactInv Kernel.ExactRun Kernel2.ExactAddCell
                        Mesh.TetModel Mesh.TetProofs Mesh.HexModel Mesh.HexProofs Mesh.TH2CollapseBase Mesh.TH2CollapseLoop Mesh.TH2CollapseFold
                        Mesh.TH2HexChecked Mesh.TH2HexEight Mesh.TH2TopoWf Mesh.TH3Base Mesh.TH3TetFound Mesh.TH3TetCell Mesh.TH3TetMain.
Import ListNotations.
Ltac Zify.zify_post_hook ::= Z.div_mod_to_equations.
Local Open Scope nat_scope.

(* ================================================================== 1. the two sets of add_cell(vertices) *)

Lemma same_elements_length (l m : list nat) : NoDup l -> NoDup m -> (forall x, In x l <-> In x m) -> length l = length m.
Proof.
  intros Nl Nm E. apply Nat.le_antisymm; apply NoDup_incl_length; try assumption; intros x Hx; apply E; exact Hx.
Qed.

Lemma set_of_list_NoDup l : NoDup (set_of_list l).
Proof. apply strictly_sorted_NoDup. apply set_of_list_sorted. Qed.

Lemma set_of_list_length_NoDup l : NoDup l -> length (set_of_list l) = length l.
Proof. intros N. apply same_elements_length; [apply set_of_list_NoDup | exact N | intros x; apply set_of_list_In]. Qed.

Definition both_of (e : nat) : list nat := [2 * e; 2 * e + 1].

Lemma in_both_of h l : In h (flat_map both_of l) <-> In (h / 2) l.
Proof.
  rewrite in_flat_map. unfold both_of. cbn [In]. split.
  - intros (e & He & [E|[E|[]]]); subst h; [replace (2 * e / 2) with e by lia | replace ((2 * e + 1) / 2) with e by lia]; exact He.
  - intros H. exists (h / 2). split; [exact H|]. lia.
Qed.

Lemma nodup_both_of l : NoDup l -> NoDup (flat_map both_of l).
Proof.
  induction l as [|e t IH]; intros N; [constructor|]. inversion N as [|? ? Ne Nt]; subst. cbn [flat_map both_of app].
  constructor; [|constructor; [|exact (IH Nt)]].
  - cbn [In]. intros [E|H]; [lia|]. apply in_both_of in H. replace (2 * e / 2) with e in H by lia. contradiction.
  - intros H. apply in_both_of in H. replace ((2 * e + 1) / 2) with e in H by lia. contradiction.
Qed.

Lemma same_edge_cases g h : g / 2 = h / 2 -> h = g \/ h = opp g.
Proof. intros E. rewrite opp_spec. lia. Qed.

(* a list of halfedges closed under opposite: twice as many halfedges as edges *)
Lemma closed_sets_of_opp (l : list nat) : (forall h, In h l -> In (opp h) l) ->
  length (set_of_list l) = 2 * length (set_of_list (map (fun h => h / 2) l)).
Proof.
  intros CL. set (E := set_of_list (map (fun h => h / 2) l)).
  assert (LD : length (flat_map both_of E) = 2 * length E).
  { clear. induction E as [|e t IH]; [reflexivity|]. cbn [flat_map both_of app length]. rewrite IH. lia. }
  rewrite <- LD. apply same_elements_length; [apply set_of_list_NoDup | apply nodup_both_of; apply set_of_list_NoDup|].
  intros h. rewrite set_of_list_In, in_both_of. unfold E. rewrite set_of_list_In, in_map_iff. split.
  - intros H. exists h. auto.
  - intros (g & Eg & Hg). destruct (same_edge_cases g h Eg) as [->| ->]; [exact Hg | exact (CL g Hg)].
Qed.

(* ================================================================== 2. the four triangles pass both tests *)

Lemma rotp_perm l m : rotp l m -> Permutation l m.
Proof.
  destruct l as [|p [|q [|r [|]]]]; cbn [rotp]; try contradiction. intros [->|[->| ->]].
  - apply Permutation_refl.
  - exact (Permutation_cons_append [q; r] p).
  - apply Permutation_sym. exact (Permutation_cons_append [p; q] r).
Qed.

Lemma tri_on_perm t hf a b c : tri_on t hf a b c -> Permutation (tri_pairs a b c) (map (he_ends t) (halfface t hf)).
Proof. intros (_ & _ & g0 & g1 & g2 & E & R). rewrite E. apply rotp_perm. exact R. Qed.

Section Accept.
  Variables (t : mesh) (v0 v1 v2 v3 hf0 hf1 hf2 hf3 : nat).
  Hypothesis C : cre_inv t.
  Hypothesis ND : NoDup [v0; v1; v2; v3].
  Hypothesis T0 : tri_on t hf0 v0 v1 v2.
  Hypothesis T1 : tri_on t hf1 v0 v2 v3.
  Hypothesis T2 : tri_on t hf2 v0 v3 v1.
  Hypothesis T3 : tri_on t hf3 v1 v3 v2.

  Lemma twelve_pairs_nodup : NoDup (tri_pairs v0 v1 v2 ++ tri_pairs v0 v2 v3 ++ tri_pairs v0 v3 v1 ++ tri_pairs v1 v3 v2).
  Proof.
    destruct (nodup4_neq v0 v1 v2 v3 ND) as (n01 & n02 & n03 & n12 & n13 & n23). unfold tri_pairs. cbn [app].
    repeat (constructor; [cbn [In]; intros H; repeat (destruct H as [H|H]; [injection H; intros; congruence|]); exact H|]). constructor.
  Qed.

  Lemma asm_hes_nodup : NoDup (concat (map (halfface t) [hf0; hf1; hf2; hf3])).
  Proof.
    apply (NoDup_map_inv (he_ends t)). cbn [map concat]. rewrite app_nil_r, !map_app.
    apply (Permutation_NoDup (l := tri_pairs v0 v1 v2 ++ tri_pairs v0 v2 v3 ++ tri_pairs v0 v3 v1 ++ tri_pairs v1 v3 v2)); [|exact twelve_pairs_nodup].
    repeat apply Permutation_app; apply tri_on_perm; assumption.
  Qed.

  Lemma asm_matched : matched_once (concat (map (halfface t) [hf0; hf1; hf2; hf3])).
  Proof.
    split; [exact asm_hes_nodup|]. intros h Hh. apply in_concat in Hh. destruct Hh as (l & Hl & Hh). apply in_map_iff in Hl.
    destruct Hl as (hf & <- & Hhf). destruct (asm_closed t v0 v1 v2 v3 hf0 hf1 hf2 hf3 C ND T0 T1 T2 T3 hf h Hhf Hh) as (hf' & H' & Ho).
    apply in_concat. exists (halfface t hf'). split; [apply in_map; exact H' | exact Ho].
  Qed.

  Lemma asm_cell_check : cell_check t [hf0; hf1; hf2; hf3] = true.
  Proof. apply cell_check_spec. split; [discriminate | exact asm_matched]. Qed.

  Lemma asm_closed_by_sets : closed_by_sets t [hf0; hf1; hf2; hf3] = true.
  Proof. unfold closed_by_sets. apply Nat.eqb_eq. apply closed_sets_of_opp. exact (proj2 asm_matched). Qed.
End Accept.

(* ================================================================== 3. incident cells of old and new halffaces *)

(* after growth with the cell flags kept, a halfface has an incident cell iff it is an old halfface that had one *)
Lemma has_cell_grow s t hf : bu_inv s -> bu_inv t -> grow s t -> cdel t = cdel s -> fbu s = true -> hf < 2 * nf t ->
  has_cell t hf = (hf <? 2 * nf s) && has_cell s hf.
Proof.
  intros B Bt G D Fb R. pose proof B as (_ & _ & FO & (_ & _ & R3) & _). pose proof Bt as (_ & _ & FOt & _).
  assert (Fbt : fbu t = true) by (destruct G as (_ & _ & _ & _ & _ & _ & _ & F & _); congruence).
  assert (Cs : cells t = cells s) by (destruct G as (_ & _ & _ & _ & Cc & _); exact Cc).
  assert (NC : nc t = nc s) by (unfold nc; rewrite Cs; reflexivity).
  assert (CA : forall c, cell_at t c = cell_at s c) by (intros c; unfold cell_at; rewrite Cs; reflexivity).
  assert (CD : forall c, c_deleted t c = c_deleted s c) by (intros c; unfold c_deleted; rewrite D; reflexivity).
  unfold has_cell. destruct (cell_of t hf) as [c|] eqn:Ct.
  - apply (FOt Fbt hf R c) in Ct. destruct Ct as (rc & dc & Hin). rewrite NC in rc. rewrite CD in dc. rewrite CA in Hin.
    pose proof (R3 c rc dc hf Hin) as Rs. replace (hf <? 2 * nf s) with true by (symmetry; apply Nat.ltb_lt; exact Rs). cbn [andb].
    rewrite (proj2 (FO Fb hf Rs c) (conj rc (conj dc Hin))). reflexivity.
  - destruct (Nat.ltb_spec hf (2 * nf s)) as [Rs|Rs]; cbn [andb]; [|reflexivity].
    destruct (cell_of s hf) as [c|] eqn:Cs'; [|reflexivity]. exfalso.
    apply (FO Fb hf Rs c) in Cs'. destruct Cs' as (rc & dc & Hin).
    assert (X : cell_of t hf = Some c) by (apply (FOt Fbt hf R c); rewrite NC, CD, CA; auto). congruence.
Qed.

(* ================================================================== 4. acceptance of the checked call *)

Definition old_with_cell (s : mesh) (hf : nat) : bool := (hf <? 2 * nf s) && has_cell s hf.

Theorem tet_add_cell_v_checked_acceptance s v0 v1 v2 v3 : cre_inv s -> tet_shape s -> NoDup [v0; v1; v2; v3] ->
  (forall v, In v [v0; v1; v2; v3] -> v < nv s) -> full_bu s = true ->
  exists s4 hf0 hf1 hf2 hf3,
    grow s s4 /\ tri_on s4 hf0 v0 v1 v2 /\ tri_on s4 hf1 v0 v2 v3 /\ tri_on s4 hf2 v0 v3 v1 /\ tri_on s4 hf3 v1 v3 v2 /\
    closed_by_sets s4 [hf0; hf1; hf2; hf3] = true /\ cell_check s4 [hf0; hf1; hf2; hf3] = true /\
    if existsb (old_with_cell s) [hf0; hf1; hf2; hf3]
    then tet_add_cell_v s [v0; v1; v2; v3] true = (s4, None)
    else exists s', tet_add_cell_v s [v0; v1; v2; v3] true = (s', Some (nc s)).
Proof.
  intros C K ND R FB. destruct (four_faces s v0 v1 v2 v3 C K ND R) as (s4 & hf0 & hf1 & hf2 & hf3 & Q & G & C4 & K4 & D & T0 & T1 & T2 & T3 & _).
  exists s4, hf0, hf1, hf2, hf3. split; [exact G|]. repeat (split; [assumption|]).
  pose proof (asm_closed_by_sets s4 v0 v1 v2 v3 hf0 hf1 hf2 hf3 C4 ND T0 T1 T2 T3) as CB.
  split; [exact CB|]. split; [exact (asm_cell_check s4 v0 v1 v2 v3 hf0 hf1 hf2 hf3 C4 ND T0 T1 T2 T3)|].
  destruct (full_bu_flags s FB) as (_ & _ & Fb).
  assert (Fb4 : fbu s4 = true) by (destruct G as (_ & _ & _ & _ & _ & _ & _ & F & _); congruence).
  assert (HC : forall hf, hf < 2 * nf s4 -> has_cell s4 hf = old_with_cell s hf).
  { intros hf Rh. exact (has_cell_grow s s4 hf (cre_bu s C) (cre_bu s4 C4) G D Fb Rh). }
  rewrite (Q true FB). unfold finish_cell_v. rewrite CB, Fb4. cbn [andb negb existsb].
  rewrite (HC hf0 (tri_on_range _ _ _ _ _ T0)), (HC hf1 (tri_on_range _ _ _ _ _ T1)), (HC hf2 (tri_on_range _ _ _ _ _ T2)),
          (HC hf3 (tri_on_range _ _ _ _ _ T3)).
  destruct (old_with_cell s hf0 || (old_with_cell s hf1 || (old_with_cell s hf2 || (old_with_cell s hf3 || false)))); [reflexivity|].
  destruct (add_cell_cases s4 [hf0; hf1; hf2; hf3] false) as [X|(s' & X & _)].
  - exfalso. unfold add_cell in X. cbn [andb] in X. destruct (append_cell s4 [hf0; hf1; hf2; hf3]). discriminate.
  - destruct (bu_lens s (cre_bu s C)) as [Le Lf]. rewrite (grow_nc s s4 G) in X. exists s'. exact X.
Qed.

Print Assumptions tet_add_cell_v_checked_acceptance.
Print Assumptions asm_cell_check.
Print Assumptions asm_closed_by_sets.
