(* Mesh/TH3ColBridge.v -- clause (1) of link_ok (Mesh/TH3ColMain.v: npar, stated on halfedges) follows from "no two live edges on the
   same vertex pair" (TH3Base.no_par, stated on edges) when no live edge is a loop. *)
From Coq Require Import ZArith Lia Bool Arith List ZifyNat ZifyBool.
From OVM Require Import Kernel.State Kernel.Ops Mesh.TH3Base Mesh.TH3ColBase Mesh.TH3ColMain.
Local Open Scope nat_scope.

Lemma npar_of_no_par (Q : nat -> nat -> Prop) s : TH3Base.no_par s ->
  (forall e, e < ne s -> e_deleted s e = false -> fst (edge_at s e) <> snd (edge_at s e)) -> npar Q s.
Proof.
  intros NP NL h h' R R' D D' F T _. apply (he_unique s h h' NP (conj R D) (conj R' D') F T).
  rewrite TH3Base.he_to_cases, Kernel.Closure.he_from_cases. specialize (NL (h / 2) R D).
  destruct (h mod 2 =? 0); [exact NL | intros E; apply NL; symmetry; exact E].
Qed.

Print Assumptions npar_of_no_par.
