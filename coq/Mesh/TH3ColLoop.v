(* Mesh/TH3ColLoop.v -- C15, collapse_edge, the invariant of the result: the first loop again (TH2CollapseLoop.v /
   TH2CollapseFold.v), now under L2 = L1 + "no parallel edges where Q looks" + a predicate P kept by the steps of the
   collapse (TH3ColBase.v col_closed). *)
From Coq Require Import ZArith Lia Bool Arith List ZifyNat ZifyBool.
From OVM Require Import Base.ListX Base.ListLemmas Kernel.State Kernel.Ops Kernel.Mirror Kernel.Recompute Kernel.Closure Kernel.Sizes
                        Kernel.ExactInv Kernel.ExactRun Kernel.DeferredDelete Kernel2.ReorderExact Kernel2.ExactBase Kernel2.ExactHistory
                        Kernel2.ExactDelCell Kernel2.ExactAddCell Kernel3.GcDefs
                        Mesh.TetModel Mesh.TetProofs Mesh.TH2CollapseBase Mesh.TH2CollapseLoop Mesh.TH2CollapseFold Mesh.TH3ColBase.
Import ListNotations.
Ltac Zify.zify_post_hook ::= Z.div_mod_to_equations.
Local Open Scope nat_scope.

Section Loop2.
  Variables (a b : nat) (s0 : mesh).
  Hypothesis Hab : a <> b.
  Variable Q : nat -> nat -> Prop.
  Variable P : mesh -> Prop.
  Hypothesis HP : col_closed P.
  Hypothesis L0 : L1 a b s0 s0.
  (* b is an endpoint of a live edge of s0 *)
  Hypothesis Hbl : exists e0, e0 < ne s0 /\ e_deleted s0 e0 = false /\ (fst (edge_at s0 e0) = b \/ snd (edge_at s0 e0) = b).

  Definition L2 (t : mesh) : Prop := L1 a b s0 t /\ npar Q t /\ P t.

  Lemma L2_L1 t : L2 t -> L1 a b s0 t. Proof. intros H. exact (proj1 H). Qed.

  Lemma b_live t : L1 a b s0 t -> up_closed t -> v_deleted t b = false.
  Proof.
    intros L (U & _). destruct Hbl as (e0 & R & D & EP). pose proof L as (G & _).
    pose proof (L1_lens a b s0 s0 L0) as (Le & Lf & _).
    assert (R' : e0 < ne t) by (pose proof (grow_ne s0 t G); lia).
    assert (D' : e_deleted t e0 = false) by (rewrite (grow_e_deleted s0 t G Le e0 R); exact D).
    destruct (U e0 R' D') as [U1 U2]. rewrite (grow_edge_at s0 t G e0 R) in U1, U2. destruct EP as [<-|<-]; assumption.
  Qed.

  Lemma sub_live t e : L1 a b s0 t -> e / 2 < ne t -> e_deleted t (e / 2) = false -> up_closed t ->
    v_deleted t (sub a b (he_from t e)) = false /\ v_deleted t (sub a b (he_to t e)) = false.
  Proof.
    intros L R D U. pose proof (b_live t L U) as Bl. destruct U as (U & _). destruct (U _ R D) as [U1 U2].
    unfold he_from, he_to, sub. destruct (edge_at t (e / 2)) as [p q]. cbn [fst snd] in U1, U2.
    destruct (Nat.even e); split; match goal with |- context [if ?c then _ else _] => destruct c end; assumption.
  Qed.

  Lemma P_tet_add_halfedge t x y : P t -> bu_inv2 t -> x < nv t -> y < nv t ->
    (up_closed t -> v_deleted t x = false /\ v_deleted t y = false) -> P (fst (tet_add_halfedge t x y)).
  Proof.
    intros Pt B X Y U. unfold tet_add_halfedge. destruct (find_halfedge t x y); [exact Pt|].
    pose proof (proj1 HP t x y Pt B X Y U) as H. destruct (add_edge t x y false) as [t1 e1]. exact H.
  Qed.

  Lemma P_append_face t hes : P t -> bu_inv2 t -> hes <> [] ->
    (forall h, In h hes -> h / 2 < ne t /\ e_deleted t (h / 2) = false) -> simple_hes hes -> P (fst (append_face t hes)).
  Proof.
    intros Pt B N L S. pose proof (proj1 (proj2 HP) t hes Pt B N L S) as X. unfold add_face in X. cbn [andb] in X.
    destruct (append_face t hes). exact X.
  Qed.

  (* ---------------------------------------------------------------- one halfedge *)
  Lemma collapse_he_spec2 t l e : L2 t -> e / 2 < ne t -> e_deleted t (e / 2) = false -> he_from t e < nv t -> he_to t e < nv t ->
    sub a b (he_from t e) <> sub a b (he_to t e) ->
    let r := collapse_he a b (t, l) e in
    L2 (fst r) /\ grow t (fst r) /\ faces (fst r) = faces t /\ cdel (fst r) = cdel t /\
    exists h', snd r = l ++ [h'] /\ h' / 2 < ne (fst r) /\ e_deleted (fst r) (h' / 2) = false /\
               he_from (fst r) h' = sub a b (he_from t e) /\ he_to (fst r) h' = sub a b (he_to t e).
  Proof.
    intros (L & NP & Pt) R D Hx Hy Nxy. cbv zeta.
    pose proof (collapse_he_spec a b s0 Hab t l e L R Hx Hy) as S. cbv zeta in S.
    destruct S as (L' & G & FE & CD & EX). split; [|auto].
    split; [exact L'|].
    pose proof L as (_ & B & _ & V & _).
    assert (Hx' : sub a b (he_from t e) < nv t) by (apply (sub_lt a b s0 t _ L Hx)).
    assert (Hy' : sub a b (he_to t e) < nv t) by (apply (sub_lt a b s0 t _ L Hy)).
    pose proof (npar_tet_add_halfedge Q t _ _ B V Hx' Hy' Nxy NP) as N1.
    pose proof (P_tet_add_halfedge t _ _ Pt B Hx' Hy' (sub_live t e L R D)) as P1.
    unfold collapse_he. cbv zeta. fold (sub a b (he_from t e)). fold (sub a b (he_to t e)).
    destruct (tet_add_halfedge t (sub a b (he_from t e)) (sub a b (he_to t e))) as [t1 h']. cbn [fst snd] in *.
    split; [apply (npar_same Q t1); [reflexivity | reflexivity | exact N1]|].
    apply (proj2 (proj2 (proj2 (proj2 (proj2 HP))))). exact P1.
  Qed.

  (* ---------------------------------------------------------------- one halfface *)
  Lemma collapse_hf_spec2 t l hf x y z : L2 t -> hf / 2 < nf t -> f_deleted t (hf / 2) = false ->
    hf_vertices t hf = [x; y; z] -> NoDup [x; y; z] -> ~ In b [x; y; z] ->
    exists t' hfh, collapse_hf a b (Some (t, l)) hf = Some (t', l ++ [hfh]) /\ L2 t' /\ grow t t' /\ cdel t' = cdel t /\ img a b t' [x; y; z] hfh.
  Proof.
    intros LL Hf D HV ND NB. pose proof (L2_L1 t LL) as L.
    assert (Nxy : x <> y /\ y <> z /\ x <> z).
    { inversion ND as [|? ? n1 ND1]; subst. inversion ND1 as [|? ? n2 _]; subst. cbn [In] in n1, n2. intuition congruence. }
    destruct Nxy as (Nxy & Nyz & Nxz).
    assert (NBx : x <> b /\ y <> b /\ z <> b) by (cbn [In] in NB; intuition congruence). destruct NBx as (Bx & By & Bz).
    unfold hf_vertices in HV. destruct (halfface t hf) as [|e0 [|e1 [|e2 [|]]]] eqn:EH; try discriminate.
    cbn [map] in HV. injection HV as F0 F1 F2.
    pose proof L as (G0 & B & Z & V & K & FLo & FL & Hb & AE & AF).
    destruct (halfface_loop t hf e0 e1 e2 (FLo _ Hf D) EH) as (T0 & T1 & T2).
    assert (I0 : In e0 (halfface t hf)) by (rewrite EH; left; reflexivity).
    assert (I1 : In e1 (halfface t hf)) by (rewrite EH; right; left; reflexivity).
    assert (I2 : In e2 (halfface t hf)) by (rewrite EH; right; right; left; reflexivity).
    destruct (L1_hf_he a b s0 Hab t hf e0 L Hf D I0) as (r0 & dd0 & fx0 & tx0).
    destruct (L1_hf_he a b s0 Hab t hf e1 L Hf D I1) as (r1 & dd1 & fx1 & tx1).
    destruct (L1_hf_he a b s0 Hab t hf e2 L Hf D I2) as (r2 & dd2 & fx2 & tx2).
    set (x' := sub a b x). set (y' := sub a b y). set (z' := sub a b z).
    assert (Nxy' : x' <> y') by (intros E; apply Nxy; exact (sub_inj_on a b x y Bx By E)).
    assert (Nyz' : y' <> z') by (intros E; apply Nyz; exact (sub_inj_on a b y z By Bz E)).
    assert (Nxz' : x' <> z') by (intros E; apply Nxz; exact (sub_inj_on a b x z Bx Bz E)).
    unfold collapse_hf, bind. rewrite EH. cbn [rd nth_error fold_left].
    (* first halfedge *)
    assert (N0 : sub a b (he_from t e0) <> sub a b (he_to t e0)) by (rewrite F0, T0, F1; exact Nxy').
    pose proof (collapse_he_spec2 t [] e0 LL r0 dd0 fx0 tx0 N0) as S1. cbv zeta in S1.
    destruct (collapse_he a b (t, []) e0) as [t1 l1]. cbn [fst snd] in S1.
    destruct S1 as (LLa & G1 & FE1 & CD1 & h0 & -> & p0 & d0 & f0 & q0). cbn [app].
    pose proof (L2_L1 t1 LLa) as L1a.
    pose proof (L1_lens a b s0 t L) as (Le & Lf & _).
    (* second *)
    assert (r1' : e1 / 2 < ne t1) by exact (Nat.lt_le_trans _ _ _ r1 (grow_ne t t1 G1 Le Lf)).
    assert (NV1 : nv t1 = nv t) by (destruct G1 as (n & _); exact n).
    pose proof (collapse_he_spec2 t1 [h0] e1 LLa r1') as S2. cbv zeta in S2.
    rewrite (grow_he_from t t1 G1 e1 r1), (grow_he_to t t1 G1 e1 r1), NV1, (grow_e_deleted t t1 G1 Le _ r1) in S2.
    assert (N1 : sub a b (he_from t e1) <> sub a b (he_to t e1)) by (rewrite F1, T1, F2; exact Nyz').
    specialize (S2 dd1 fx1 tx1 N1).
    destruct (collapse_he a b (t1, [h0]) e1) as [t2 l2]. cbn [fst snd] in S2.
    destruct S2 as (LLb & G2 & FE2 & CD2 & h1 & -> & p1 & d1 & f1 & q1). cbn [app].
    pose proof (L2_L1 t2 LLb) as L1b.
    pose proof (L1_lens a b s0 t1 L1a) as (Le1 & Lf1 & _).
    (* third *)
    pose proof (grow_trans t t1 t2 G1 G2) as G12.
    assert (r2' : e2 / 2 < ne t2) by exact (Nat.lt_le_trans _ _ _ r2 (grow_ne t t2 G12 Le Lf)).
    assert (NV2 : nv t2 = nv t) by (destruct G12 as (n & _); exact n).
    pose proof (collapse_he_spec2 t2 [h0; h1] e2 LLb r2') as S3. cbv zeta in S3.
    rewrite (grow_he_from t t2 G12 e2 r2), (grow_he_to t t2 G12 e2 r2), NV2, (grow_e_deleted t t2 G12 Le _ r2) in S3.
    assert (N2 : sub a b (he_from t e2) <> sub a b (he_to t e2)) by (rewrite F2, T2, F0; intros E; apply Nxz'; symmetry; exact E).
    specialize (S3 dd2 fx2 tx2 N2).
    destruct (collapse_he a b (t2, [h0; h1]) e2) as [t3 l3]. cbn [fst snd] in S3.
    destruct S3 as (LLc & G3 & FE3 & CD3 & h2 & -> & p2 & d2 & f2 & q2). cbn [app].
    pose proof (L2_L1 t3 LLc) as L1c.
    pose proof (L1_lens a b s0 t2 L1b) as (Le2 & Lf2 & _).
    pose proof (grow_trans t1 t2 t3 G2 G3) as G23. pose proof (grow_trans t t2 t3 G12 G3) as G13.
    (* everything about h0 h1 h2 in t3 *)
    assert (p0' : h0 / 2 < ne t3) by exact (Nat.lt_le_trans _ _ _ p0 (grow_ne t1 t3 G23 Le1 Lf1)).
    assert (p1' : h1 / 2 < ne t3) by exact (Nat.lt_le_trans _ _ _ p1 (grow_ne t2 t3 G3 Le2 Lf2)).
    assert (d0' : e_deleted t3 (h0 / 2) = false) by (rewrite (grow_e_deleted t1 t3 G23 Le1 _ p0); exact d0).
    assert (d1' : e_deleted t3 (h1 / 2) = false) by (rewrite (grow_e_deleted t2 t3 G3 Le2 _ p1); exact d1).
    assert (f0' : he_from t3 h0 = x') by (rewrite (grow_he_from t1 t3 G23 h0 p0), f0, F0; reflexivity).
    assert (q0' : he_to t3 h0 = y') by (rewrite (grow_he_to t1 t3 G23 h0 p0), q0, T0, F1; reflexivity).
    assert (f1' : he_from t3 h1 = y') by (rewrite (grow_he_from t2 t3 G3 h1 p1), f1, F1; reflexivity).
    assert (q1' : he_to t3 h1 = z') by (rewrite (grow_he_to t2 t3 G3 h1 p1), q1, T1, F2; reflexivity).
    assert (f2' : he_from t3 h2 = z') by (rewrite f2, F2; reflexivity).
    assert (q2' : he_to t3 h2 = x') by (rewrite q2, T2, F0; reflexivity).
    assert (Ax : x' <> a) by (apply sub_neq; exact Hab). assert (Ay : y' <> a) by (apply sub_neq; exact Hab).
    assert (Az : z' <> a) by (apply sub_neq; exact Hab).
    assert (FF3 : faces t3 = faces t) by congruence. assert (CC3 : cdel t3 = cdel t) by congruence.
    pose proof L1c as (_ & B3 & Z3 & V3 & K3 & FLo3 & _).
    destruct LLc as (_ & NP3 & P3).
    (* add_halfface *)
    unfold tet_add_halfface. cbn [nth]. unfold find_halfface_hes. rewrite (bu_inv2_ebu t3 B3).
    destruct (find (fun hf0 => memb h1 (halfface t3 hf0)) (hfs_at t3 h0)) as [hfh|] eqn:FH.
    - apply find_some in FH. destruct FH as [Hin Hm]. apply memb_In in Hm.
      apply (bu_inv2_ebu_ok t3 B3 (bu_inv2_ebu t3 B3) h0 (half_lt _ _ p0')) in Hin. destruct Hin as (Rh & Dh & Ih).
      destruct (halfface_three t3 hfh (proj1 (kshape_live 3 4 t3 K3) _ Rh)) as (g0 & g1 & g2 & EG).
      destruct (halfface_loop t3 hfh g0 g1 g2 (FLo3 _ Rh Dh) EG) as (c0 & c1 & c2).
      rewrite EG in Ih, Hm.
      pose proof (loop_through t3 g0 g1 g2 h0 h1 x' y' z' c0 c1 c2 Ih Hm f0' q0' f1' q1' Nxy' Nyz' Nxz') as RO.
      exists (swap_prop_elems KHF hf hfh t3), hfh. split; [reflexivity|].
      split.
      { split; [apply L1_swap_prop; exact L1c|]. split; [apply (npar_same Q t3); [reflexivity | reflexivity | exact NP3]|].
        apply (proj2 (proj2 (proj2 (proj2 (proj2 HP))))). exact P3. }
      split; [exact G13|].
      split; [exact CC3|]. apply img_swap_prop. split; [exact Rh|]. split; [exact Dh|]. unfold hf_vertices. rewrite EG. exact RO.
    - unfold tet_add_face. cbn [length Nat.eqb negb]. unfold add_face. cbn [andb].
      assert (HH : forall h, In h [h0; h1; h2] -> h / 2 < ne t3 /\ e_deleted t3 (h / 2) = false /\ he_from t3 h <> a /\ he_to t3 h <> a).
      { intros h [<-|[<-|[<-|[]]]]; repeat split; try assumption; congruence. }
      assert (LO : loop_ok t3 [h0; h1; h2] = true) by (apply loop3; repeat split; congruence).
      pose proof (triangle_simple t3 h0 h1 h2 x' y' z' f0' q0' f1' q1' f2' q2' Nxy' Nyz' Nxz') as SI.
      pose proof (L1_face_step a b s0 Hab t3 h0 h1 h2 L1c HH LO SI) as S4. cbv zeta in S4.
      assert (P4 : P (fst (append_face t3 [h0; h1; h2]))).
      { apply (P_append_face t3 [h0; h1; h2] P3 B3); [discriminate | | exact SI]. intros h Hh. destruct (HH h Hh) as (u & v & _). auto. }
      pose proof (append_face_view t3 [h0; h1; h2]) as W. cbv zeta in W. destruct W as (_ & _ & _ & _ & w5 & _).
      pose proof (snd_append_face t3 [h0; h1; h2]) as SN.
      destruct (append_face t3 [h0; h1; h2]) as [t4 fn]. cbn [fst snd] in *. subst fn. cbn [option_map].
      destruct S4 as (L1d & G4 & EE4 & FF4 & CD4).
      exists (swap_prop_elems KHF hf (2 * nf t3) t4), (2 * nf t3). split; [reflexivity|].
      split.
      { split; [apply L1_swap_prop; exact L1d|]. split; [apply (npar_same Q t3); [exact EE4 | exact w5 | exact NP3]|].
        apply (proj2 (proj2 (proj2 (proj2 (proj2 HP))))). exact P4. }
      split; [exact (grow_trans t t3 t4 G13 G4)|].
      split; [change (cdel t4 = cdel t); congruence|].
      assert (NF4 : nf t4 = S (nf t3)) by (unfold nf; rewrite FF4, app_length; simpl; lia).
      pose proof (L1_lens a b s0 t3 L1c) as (_ & Lf3 & _).
      apply img_swap_prop. unfold img. rewrite dbl_div.
      split; [rewrite NF4; apply Nat.lt_succ_diag_r|]. split; [apply (grow_f_new t3 t4 G4 Lf3); apply Nat.le_refl|].
      unfold hf_vertices, halfface. rewrite dbl_div, dbl_even.
      unfold face_at. rewrite FF4. unfold nf. rewrite nth_middle. cbn [map].
      assert (HF : forall h, he_from t4 h = he_from t3 h) by (intros h; unfold he_from, edge_at; rewrite EE4; reflexivity).
      rewrite !HF, f0', f1', f2'. apply rot3_refl.
  Qed.

  (* ---------------------------------------------------------------- deleting a (live) cell *)
  Lemma L2_delete_cell t ch : L2 t -> ch < nc t -> c_deleted t ch = false ->
    L2 (delete_cell ch t) /\ grow t (delete_cell ch t) /\ cdel (delete_cell ch t) = flag_all [ch] (cdel t).
  Proof.
    intros (L & NP & Pt) Hc D. destruct (L1_delete_cell a b s0 Hab t ch L Hc D) as (L' & G & CD).
    split; [|split; [exact G | exact CD]]. split; [exact L'|]. pose proof L as (_ & B & _).
    pose proof (delete_cell_deferred ch t (bu_inv2_deferred t B)) as S.
    destruct S as (_ & x2 & _ & _ & _ & x6 & _). rewrite flag_all_nil in x6.
    split; [apply (npar_same Q t); assumption|].
    apply (proj1 (proj2 (proj2 HP)) t ch Pt B Hc D).
  Qed.

  (* ---------------------------------------------------------------- one cell of the star *)
  Lemma collapse_cell_spec2 t coll news ch c0 c1 c2 c3 : L2 t -> ch < nc t -> c_deleted t ch = false -> memb ch coll = false ->
    cell_at t ch = [c0; c1; c2; c3] -> (forall hf, In hf [c0; c1; c2; c3] -> tri_ok b t hf) ->
    exists t' n0 n1 n2 n3,
      collapse_cell a b coll (Some (t, news)) ch = Some (t', news ++ [(ch, [n0; n1; n2; n3])]) /\
      L2 t' /\ grow t t' /\ cdel t' = flag_all [ch] (cdel t) /\
      img a b t' (hf_vertices t c0) n0 /\ img a b t' (hf_vertices t c1) n1 /\ img a b t' (hf_vertices t c2) n2 /\ img a b t' (hf_vertices t c3) n3.
  Proof.
    intros LL Hc D M EC TO. pose proof (L2_L1 t LL) as L.
    assert (LV : forall hf, In hf [c0; c1; c2; c3] -> hf / 2 < nf t /\ f_deleted t (hf / 2) = false).
    { intros hf Hin. apply (live_cell_hf a b s0 t ch hf L Hc D). rewrite EC. exact Hin. }
    unfold collapse_cell, bind. rewrite M. unfold rd. rewrite (nth_error_cell t ch Hc), EC. cbn [nth_error fold_left].
    (* halfface 0 *)
    destruct (LV c0 ltac:(left; reflexivity)) as [R0 D0]. destruct (TO c0 ltac:(left; reflexivity)) as (x0 & y0 & z0 & E0 & N0 & B0).
    destruct (collapse_hf_spec2 t [] c0 x0 y0 z0 LL R0 D0 E0 N0 B0) as (t1 & n0 & Q1 & LLa & G1 & CD1 & I0). rewrite Q1. cbn [app].
    pose proof (L2_L1 t1 LLa) as L1a.
    (* halfface 1 *)
    destruct (LV c1 ltac:(right; left; reflexivity)) as [R1 D1].
    destruct (tri_ok_grow a b s0 Hab t t1 c1 L G1 R1 D1 (TO c1 ltac:(right; left; reflexivity))) as ((x1 & y1 & z1 & E1 & N1 & B1) & R1' & D1' & V1).
    destruct (collapse_hf_spec2 t1 [n0] c1 x1 y1 z1 LLa R1' D1' E1 N1 B1) as (t2 & n1 & Q2 & LLb & G2 & CD2 & I1). rewrite Q2. cbn [app].
    pose proof (L2_L1 t2 LLb) as L1b.
    pose proof (grow_trans t t1 t2 G1 G2) as G12.
    (* halfface 2 *)
    destruct (LV c2 ltac:(right; right; left; reflexivity)) as [R2 D2].
    destruct (tri_ok_grow a b s0 Hab t t2 c2 L G12 R2 D2 (TO c2 ltac:(right; right; left; reflexivity))) as ((x2 & y2 & z2 & E2 & N2 & B2) & R2' & D2' & V2).
    destruct (collapse_hf_spec2 t2 [n0; n1] c2 x2 y2 z2 LLb R2' D2' E2 N2 B2) as (t3 & n2 & Q3 & LLc & G3 & CD3 & I2). rewrite Q3. cbn [app].
    pose proof (L2_L1 t3 LLc) as L1c.
    pose proof (grow_trans t t2 t3 G12 G3) as G13.
    (* halfface 3 *)
    destruct (LV c3 ltac:(right; right; right; left; reflexivity)) as [R3 D3].
    destruct (tri_ok_grow a b s0 Hab t t3 c3 L G13 R3 D3 (TO c3 ltac:(right; right; right; left; reflexivity))) as ((x3 & y3 & z3 & E3 & N3 & B3) & R3' & D3' & V3).
    destruct (collapse_hf_spec2 t3 [n0; n1; n2] c3 x3 y3 z3 LLc R3' D3' E3 N3 B3) as (t4 & n3 & Q4 & LLd & G4 & CD4 & I3). rewrite Q4. cbn [app].
    pose proof (L2_L1 t4 LLd) as L1d.
    pose proof (grow_trans t t3 t4 G13 G4) as G14.
    (* delete the cell *)
    assert (Hc4 : ch < nc t4) by (rewrite (grow_nc t t4 G14); exact Hc).
    assert (CD : cdel t4 = cdel t) by congruence.
    assert (D4 : c_deleted t4 ch = false) by (unfold c_deleted; rewrite CD; exact D).
    destruct (L2_delete_cell t4 ch LLd Hc4 D4) as (LLe & G5 & CD5).
    exists (delete_cell ch t4), n0, n1, n2, n3. split; [reflexivity|]. split; [exact LLe|].
    split; [exact (grow_trans t t4 _ G14 G5)|]. split; [rewrite CD5, CD; reflexivity|].
    rewrite E0. rewrite <- V1, E1. rewrite <- V2, E2. rewrite <- V3, E3.
    split; [apply (img_grow a b s0 Hab t4 _ _ n0 L1d G5); apply (img_grow a b s0 Hab t3 t4 _ n0 L1c G4); apply (img_grow a b s0 Hab t2 t3 _ n0 L1b G3); apply (img_grow a b s0 Hab t1 t2 _ n0 L1a G2); exact I0|].
    split; [apply (img_grow a b s0 Hab t4 _ _ n1 L1d G5); apply (img_grow a b s0 Hab t3 t4 _ n1 L1c G4); apply (img_grow a b s0 Hab t2 t3 _ n1 L1b G3); exact I1|].
    split; [apply (img_grow a b s0 Hab t4 _ _ n2 L1d G5); apply (img_grow a b s0 Hab t3 t4 _ n2 L1c G4); exact I2|].
    apply (img_grow a b s0 Hab t4 _ _ n3 L1d G5). exact I3.
  Qed.

  (* ---------------------------------------------------------------- the loop over the star *)
  Variable coll : list nat.

  Lemma cell_step2 t news ch : L2 t -> ch < nc s0 -> c_deleted s0 ch = false -> c_deleted t ch = false ->
    memb ch coll = false -> cell_ok b s0 ch ->
    exists t' nhfs, collapse_cell a b coll (Some (t, news)) ch = Some (t', news ++ [(ch, nhfs)]) /\
      L2 t' /\ grow t t' /\ cdel t' = flag_all [ch] (cdel t) /\ cell_img a b s0 t' ch nhfs.
  Proof.
    intros LL Hc D0 D M OK. pose proof (L2_L1 t LL) as L. pose proof L as (G0 & _). pose proof L0 as (_ & _ & _ & _ & K0 & _).
    destruct (four (cell_at s0 ch) (proj2 (kshape_live 3 4 s0 K0) ch Hc)) as (c0 & c1 & c2 & c3 & EC).
    assert (Hc' : ch < nc t) by (rewrite (grow_nc s0 t G0); exact Hc).
    assert (EC' : cell_at t ch = [c0; c1; c2; c3]) by (rewrite (grow_cell_at s0 t G0); exact EC).
    assert (TR : forall hf, In hf [c0; c1; c2; c3] -> tri_ok b t hf /\ hf_vertices t hf = hf_vertices s0 hf).
    { intros hf Hin. rewrite <- EC in Hin. destruct (live_cell_hf a b s0 s0 ch hf L0 Hc D0 Hin) as [R D'].
      destruct (tri_ok_grow a b s0 Hab s0 t hf L0 G0 R D' (OK hf Hin)) as (T & _ & _ & E). split; assumption. }
    destruct (collapse_cell_spec2 t coll news ch c0 c1 c2 c3 LL Hc' D M EC' (fun hf H => proj1 (TR hf H)))
      as (t' & n0 & n1 & n2 & n3 & Q1 & L' & G & CD & i0 & i1 & i2 & i3).
    exists t', [n0; n1; n2; n3]. split; [exact Q1|]. split; [exact L'|]. split; [exact G|]. split; [exact CD|].
    exists n0, n1, n2, n3, c0, c1, c2, c3. split; [reflexivity|]. split; [exact EC|].
    rewrite (proj2 (TR c0 ltac:(left; reflexivity))) in i0. rewrite (proj2 (TR c1 ltac:(right; left; reflexivity))) in i1.
    rewrite (proj2 (TR c2 ltac:(right; right; left; reflexivity))) in i2. rewrite (proj2 (TR c3 ltac:(right; right; right; left; reflexivity))) in i3.
    auto.
  Qed.

  Lemma fold_cells_spec2 : forall cs t news, L2 t -> NoDup cs ->
    (forall c, In c cs -> c < nc s0 /\ c_deleted s0 c = false /\ c_deleted t c = false) ->
    (forall c, In c cs -> memb c coll = false -> cell_ok b s0 c) ->
    exists t' news', fold_left (collapse_cell a b coll) cs (Some (t, news)) = Some (t', news ++ news') /\
      L2 t' /\ grow t t' /\ cdel t' = flag_all (filter (keepb coll) cs) (cdel t) /\ news_ok a b s0 t' (filter (keepb coll) cs) news'.
  Proof.
    induction cs as [|c cs IH]; intros t news LL ND LV OK.
    - exists t, []. cbn [fold_left filter]. rewrite app_nil_r. split; [reflexivity|]. split; [exact LL|]. split; [apply grow_refl|].
      split; [reflexivity | constructor].
    - inversion ND as [|? ? Nin ND']; subst. cbn [fold_left filter].
      destruct (LV c (or_introl eq_refl)) as (Hc & D0 & D).
      assert (KB : keepb coll c = negb (memb c coll)) by reflexivity.
      destruct (memb c coll) eqn:M; cbn [negb] in KB; rewrite KB.
      + assert (Q1 : collapse_cell a b coll (Some (t, news)) c = Some (t, news)) by (unfold collapse_cell, bind; rewrite M; reflexivity).
        rewrite Q1. apply (IH t news LL ND'); [intros c' H; apply LV; right; exact H | intros c' H; apply OK; right; exact H].
      + destruct (cell_step2 t news c LL Hc D0 D M (OK c (or_introl eq_refl) M)) as (t1 & nhfs & Q1 & L' & G & CD & CI).
        rewrite Q1.
        destruct (IH t1 (news ++ [(c, nhfs)]) L' ND') as (t' & news' & Q' & L'' & G' & CD' & NO).
        { intros c' H. destruct (LV c' (or_intror H)) as (x & y & z). split; [exact x|]. split; [exact y|].
          rewrite (c_deleted_flag_other t t1 c c' CD); [exact z|]. intros E. subst c'. exact (Nin H). }
        { intros c' H. apply OK. right. exact H. }
        exists t', ((c, nhfs) :: news'). split; [rewrite Q', <- app_assoc; reflexivity|]. split; [exact L''|].
        split; [exact (grow_trans t t1 t' G G')|]. split; [rewrite CD', CD; reflexivity|].
        constructor; [|exact NO]. split; [reflexivity|]. exact (cell_img_grow a b s0 Hab t1 t' c nhfs (L2_L1 t1 L') G' CI).
  Qed.
End Loop2.

Print Assumptions fold_cells_spec2.
