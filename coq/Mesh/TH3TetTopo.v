(* Mesh/TH3TetTopo.v -- C15: the TetTopology constructor theorems of Mesh/TH2TopoMain.v hold, without further hypotheses, on
   every tetrahedron created by add_cell(vertices) / add_cell(vh0, vh1, vh2, vh3) (Mesh/TH3TetMain.v, Mesh/TH3TetFour.v).
   Proofs only. *)
From Coq Require Import ZArith Lia Bool Arith List ZifyNat ZifyBool.
From OVM Require Import Base.ListX Base.ListLemmas Gen.TetLabels Kernel.State Kernel.Ops
                        Mesh.TetModel Mesh.TetProofs Mesh.TetTopoModel Mesh.TetTopoProofs Mesh.TH2TopoWf Mesh.TH2TopoMain
                        Mesh.TH3Base Mesh.TH3TetFound Mesh.TH3TetCell Mesh.TH3TetMain Mesh.TH3TetFour.
Import ListNotations.
Ltac Zify.zify_post_hook ::= Z.div_mod_to_equations.
Local Open Scope nat_scope.

(* all five constructors on a created tetrahedron *)
Definition tt_all_consistent (s' : mesh) (c : nat) : Prop :=
  (forall abc a, In abc (cell_at s' c) -> In a (hf_vertices s' abc) ->
     exists t, tt_make s' c abc (Some a) = Some t /\ tt_consistent s' c t = true /\ tt_vh_l t VL_A = Some a /\ tt_hfh_l t HFL_ABC = Some abc) /\
  (forall abc, In abc (cell_at s' c) ->
     exists t, tt_make s' c abc None = Some t /\ tt_consistent s' c t = true /\
               tt_vh_l t VL_A = Some (he_from s' (nth 0 (halfface s' abc) 0)) /\ tt_hfh_l t HFL_ABC = Some abc) /\
  (forall abc a, In abc (cell_at s' c) -> In a (hf_vertices s' abc) ->
     exists t, tt_make_hf s' abc (Some a) = Some t /\ tt_consistent s' c t = true /\ tt_vh_l t VL_A = Some a /\ tt_hfh_l t HFL_ABC = Some abc) /\
  (exists t, tt_make_c s' c = Some t /\ tt_consistent s' c t = true /\ tt_hfh_l t HFL_ABC = Some (nth 0 (cell_at s' c) 0)) /\
  (forall a, In a (hfs_vertex_set s' (cell_at s' c)) ->
     exists t abc, tt_make_c_v s' c a = Some t /\ tt_consistent s' c t = true /\ tt_vh_l t VL_A = Some a /\ tt_hfh_l t HFL_ABC = Some abc /\
                   find (fun hf => memb a (hf_vertices s' hf)) (cell_at s' c) = Some abc).

Lemma tt_all_of_ok s' c : tet_cell_ok_b s' c = true -> tet_cell_inc_b s' c = true -> tt_all_consistent s' c.
Proof.
  intros OK INC. split; [exact (tt_make_consistent s' c OK)|]. split; [exact (tt_make_default_consistent s' c OK)|].
  split; [exact (tt_make_hf_consistent s' c OK INC)|]. split; [exact (tt_make_c_consistent s' c OK) | exact (tt_make_c_v_consistent s' c OK)].
Qed.

Theorem tet_add_cell_v_tt s v0 v1 v2 v3 chk s' c : cre_inv s -> tet_shape s -> NoDup [v0; v1; v2; v3] ->
  (forall v, In v [v0; v1; v2; v3] -> v < nv s) -> tet_add_cell_v s [v0; v1; v2; v3] chk = (s', Some c) -> tt_all_consistent s' c.
Proof.
  intros C K ND R A. destruct (tet_add_cell_v_wf s v0 v1 v2 v3 chk s' c C K ND R A) as (_ & _ & _ & OK & INC & _).
  exact (tt_all_of_ok s' c OK INC).
Qed.

Theorem tet_add_cell_4_tt s v0 v1 v2 v3 chk s' c : cre_inv s -> tet_shape s -> full_bu s = true -> NoDup [v0; v1; v2; v3] ->
  (forall v, In v [v0; v1; v2; v3] -> v < nv s) -> tet_add_cell_4 s v0 v1 v2 v3 chk = Some (s', Some c) -> tt_all_consistent s' c.
Proof.
  intros C K FB ND R A. destruct (tet_add_cell_4_wf s v0 v1 v2 v3 chk s' c C K FB ND R A) as (_ & _ & _ & OK & INC & _).
  exact (tt_all_of_ok s' c OK INC).
Qed.

Print Assumptions tet_add_cell_v_tt.
Print Assumptions tet_add_cell_4_tt.
