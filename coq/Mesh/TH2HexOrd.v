(* Mesh/TH2HexOrd.v -- what one traversal of check_halfface_ordering (ord_pass) establishes on a halfface with four
   halfedges whose first halfedge has a recognised neighbour, and how the top order 2,4,3,5 and the bottom order
   3,4,2,5 fit together (the bottom meets the side halffaces in the reverse cyclic order).  Proofs only. *)
From Coq Require Import ZArith Lia Bool Arith List ZifyNat ZifyBool Permutation.
From OVM Require Import Base.ListX Base.ListLemmas Kernel.State Kernel.Ops Kernel.Mirror Kernel2.LookupModel Kernel2.ListAux
                        Kernel2.AdjacentProofs Mesh.TetModel Mesh.HexModel Mesh.HexIterModel Mesh.TetProofs Mesh.HexProofs
                        Mesh.TH2HexBase.
Import ListNotations.
Ltac Zify.zify_post_hook ::= Z.div_mod_to_equations.
Local Open Scope nat_scope.

(* ================================================================== 1. one step *)

Lemma ord_step_failed s l h first order he : ord_step s l h first order None he = None.
Proof. reflexivity. Qed.

Lemma ord_step_first s l h first order he a : get_adjacent_halfface s (Some h) (Some he) l = Some a ->
  ord_step s l h first order (Some None) he = Some (find_index (fun i => hx l i =? a) first).
Proof. intros G. unfold ord_step. rewrite G. reflexivity. Qed.

Lemma ord_step_next s l h first order o he a : get_adjacent_halfface s (Some h) (Some he) l = Some a ->
  ord_step s l h first order (Some (Some o)) he =
  if a =? hx l (nth ((o + 1) mod 4) order 0) then Some (Some ((o + 1) mod 4)) else None.
Proof. intros G. unfold ord_step. rewrite G. reflexivity. Qed.

Lemma ord_pass_nonempty s l h first order : ord_pass s l h first order = true -> halfface s h <> [].
Proof. unfold ord_pass. intros H E. rewrite E in H. cbn [fold_left] in H. discriminate. Qed.

(* ================================================================== 2. a whole traversal of a quad *)

Theorem ord_pass_quad s l h order e0 e1 e2 e3 a0 a1 a2 a3 :
  halfface s h = [e0; e1; e2; e3] ->
  get_adjacent_halfface s (Some h) (Some e0) l = Some a0 ->
  get_adjacent_halfface s (Some h) (Some e1) l = Some a1 ->
  get_adjacent_halfface s (Some h) (Some e2) l = Some a2 ->
  get_adjacent_halfface s (Some h) (Some e3) l = Some a3 ->
  (exists i, In i order /\ hx l i = a0) ->
  ord_pass s l h order order = true ->
  exists k, k < length order /\ a0 = hx l (nth k order 0) /\ a1 = hx l (nth ((k + 1) mod 4) order 0) /\
            a2 = hx l (nth ((k + 2) mod 4) order 0) /\ a3 = hx l (nth ((k + 3) mod 4) order 0).
Proof.
  intros Hf G0 G1 G2 G3 (i&Hi&Ei) P. unfold ord_pass in P. rewrite Hf in P. cbn [fold_left] in P.
  rewrite (ord_step_first s l h order order e0 a0 G0) in P.
  destruct (find_index (fun j => hx l j =? a0) order) as [k|] eqn:Fk.
  - destruct (find_index_Some _ 0 _ _ Fk) as (Hk&Hp&_). apply Nat.eqb_eq in Hp.
    rewrite (ord_step_next s l h order order k e1 a1 G1) in P.
    destruct (Nat.eqb_spec a1 (hx l (nth ((k + 1) mod 4) order 0))) as [E1|_];
      [|rewrite !ord_step_failed in P; discriminate].
    rewrite (ord_step_next s l h order order _ e2 a2 G2) in P.
    destruct (Nat.eqb_spec a2 (hx l (nth (((k + 1) mod 4 + 1) mod 4) order 0))) as [E2|_];
      [|rewrite !ord_step_failed in P; discriminate].
    rewrite (ord_step_next s l h order order _ e3 a3 G3) in P.
    destruct (Nat.eqb_spec a3 (hx l (nth ((((k + 1) mod 4 + 1) mod 4 + 1) mod 4) order 0))) as [E3|_];
      [|discriminate].
    exists k. split; [exact Hk|]. split; [symmetry; exact Hp|]. split; [exact E1|].
    replace ((k + 2) mod 4) with (((k + 1) mod 4 + 1) mod 4) by lia.
    replace ((k + 3) mod 4) with ((((k + 1) mod 4 + 1) mod 4 + 1) mod 4) by lia.
    split; assumption.
  - exfalso. rewrite find_index_None in Fk. specialize (Fk i Hi). apply Nat.eqb_neq in Fk. contradiction.
Qed.

(* ================================================================== 3. top order vs. bottom order *)

(* the four (halfedge, neighbour) pairs of the bottom halfface, rotated so that they start at the side halfface met by
   the first halfedge of the top: the bottom meets the side halffaces in the reverse cyclic order *)
Theorem orders_align (l : list nat) k m (a0 a1 a2 a3 b0 b1 b2 b3 f0 f1 f2 f3 : nat) :
  k < 4 -> m < 4 ->
  a0 = hx l (nth k order_top 0) -> a1 = hx l (nth ((k + 1) mod 4) order_top 0) ->
  a2 = hx l (nth ((k + 2) mod 4) order_top 0) -> a3 = hx l (nth ((k + 3) mod 4) order_top 0) ->
  b0 = hx l (nth m order_bot 0) -> b1 = hx l (nth ((m + 1) mod 4) order_bot 0) ->
  b2 = hx l (nth ((m + 2) mod 4) order_bot 0) -> b3 = hx l (nth ((m + 3) mod 4) order_bot 0) ->
  exists g0 g1 g2 g3,
    rot4 [(f0, b0); (f1, b1); (f2, b2); (f3, b3)] [(g0, a0); (g1, a3); (g2, a2); (g3, a1)].
Proof.
  intros Hk Hm -> -> -> -> -> -> -> ->.
  destruct k as [|[|[|[|k]]]]; [| | | | exfalso; lia];
    (destruct m as [|[|[|[|m]]]]; [| | | | exfalso; lia]);
    cbn [Nat.add Nat.modulo Nat.divmod Nat.sub fst snd nth order_top order_bot];
    first [ exists f0, f1, f2, f3; apply rot4_0 | exists f1, f2, f3, f0; apply rot4_1
          | exists f2, f3, f0, f1; apply rot4_2 | exists f3, f0, f1, f2; apply rot4_3 ].
Qed.

(* the side halffaces in terms of the list positions: a rotation of (2,4,3,5) *)
Theorem top_positions (l : list nat) k (a0 a1 a2 a3 : nat) :
  k < 4 ->
  a0 = hx l (nth k order_top 0) -> a1 = hx l (nth ((k + 1) mod 4) order_top 0) ->
  a2 = hx l (nth ((k + 2) mod 4) order_top 0) -> a3 = hx l (nth ((k + 3) mod 4) order_top 0) ->
  [a0; a1; a2; a3] = Nat.iter k rot1n [hx l 2; hx l 4; hx l 3; hx l 5].
Proof.
  intros Hk -> -> -> ->.
  destruct k as [|[|[|[|k]]]]; [| | | | exfalso; lia]; reflexivity.
Qed.

(* every list position 2..5 is met by the traversal *)
Theorem top_positions_cover (l : list nat) k (a0 a1 a2 a3 : nat) i :
  k < 4 ->
  a0 = hx l (nth k order_top 0) -> a1 = hx l (nth ((k + 1) mod 4) order_top 0) ->
  a2 = hx l (nth ((k + 2) mod 4) order_top 0) -> a3 = hx l (nth ((k + 3) mod 4) order_top 0) ->
  2 <= i < 6 -> In (hx l i) [a0; a1; a2; a3].
Proof.
  intros Hk -> -> -> -> Hi.
  assert (Ci : i = 2 \/ i = 3 \/ i = 4 \/ i = 5) by lia.
  destruct k as [|[|[|[|k]]]]; [| | | | exfalso; lia];
    cbn [Nat.add Nat.modulo Nat.divmod Nat.sub fst snd nth order_top];
    destruct Ci as [-> | [-> | [-> | ->]]]; cbn [In]; tauto.
Qed.

Theorem bot_positions_cover (l : list nat) k (a0 a1 a2 a3 : nat) i :
  k < 4 ->
  a0 = hx l (nth k order_bot 0) -> a1 = hx l (nth ((k + 1) mod 4) order_bot 0) ->
  a2 = hx l (nth ((k + 2) mod 4) order_bot 0) -> a3 = hx l (nth ((k + 3) mod 4) order_bot 0) ->
  2 <= i < 6 -> In (hx l i) [a0; a1; a2; a3].
Proof.
  intros Hk -> -> -> -> Hi.
  assert (Ci : i = 2 \/ i = 3 \/ i = 4 \/ i = 5) by lia.
  destruct k as [|[|[|[|k]]]]; [| | | | exfalso; lia];
    cbn [Nat.add Nat.modulo Nat.divmod Nat.sub fst snd nth order_bot];
    destruct Ci as [-> | [-> | [-> | ->]]]; cbn [In]; tauto.
Qed.
