(* Mesh/TH3TetHist.v -- C15: histories continue after add_cell(four vertices) (vector form).  The call is a sequence of operations of
   the history class of C01 (add_face(vertices) of simple triangles for the faces that were not found, then an add_cell whose cell
   passes the check, on free halffaces without opposite pairs): full_inv (Kernel4/AllDefs.v), closed faces, "no parallel edges" and the
   tet shape hold again afterwards, provided no halfface of the new cell belongs to another live cell (automatic with topology check). *)
From Coq Require Import ZArith Lia Bool Arith List ZifyNat ZifyBool Permutation.
From OVM Require Import Base.ListX Base.ListLemmas Kernel.State Kernel.Ops Kernel.Mirror Kernel.Recompute Kernel.Closure Kernel.CellCheck
                        Kernel.Construct Kernel.ExactInv Kernel.ExactRun Kernel2.ListAux Kernel2.ExactBase Kernel2.ExactAddCell Kernel2.ExactHistory
                        Kernel3.GcDefs Kernel3.GcHist Kernel4.AllDefs Kernel4.AllBridges Kernel4.AllStatus
                        Mesh.TetModel Mesh.TetProofs Mesh.HexModel Mesh.HexProofs Mesh.TH2CollapseBase Mesh.TH2CollapseLoop Mesh.TH2CollapseFold
                        Mesh.TH2HexBase Mesh.TH2HexChecked Mesh.TH2HexEight Mesh.TH2TopoWf
                        Mesh.TH3Base Mesh.TH3TetFound Mesh.TH3TetCell Mesh.TH3TetMain Mesh.TH3TetAccept Mesh.TH3HexEx Mesh.TH3HexHist.
Import ListNotations.
Ltac Zify.zify_post_hook ::= Z.div_mod_to_equations.
Local Open Scope nat_scope.

(* the halfedges add_face(vertices) makes for a triangle on three distinct vertices form a simple face *)
Lemma tri_simple s e0 e1 e2 : loop_ok s [e0; e1; e2] = true -> NoDup (map (he_from s) [e0; e1; e2]) ->
  NoDup [e0; e1; e2] /\ forall h, In h [e0; e1; e2] -> ~ In (opp h) [e0; e1; e2].
Proof.
  intros L ND. apply loop3 in L. destruct L as (l0 & l1 & l2). split.
  - apply (NoDup_map_inv (he_from s)). exact ND.
  - cbn [map] in ND. inversion ND as [|? ? N0 ND1]; subst. inversion ND1 as [|? ? N1 ND2]; subst. cbn [In] in N0, N1.
    intros h Hh Ho. pose proof (he_from_opp s h) as A1. pose proof (he_to_opp s h) as A2. pose proof (opp_neq h) as A3.
    destruct Hh as [<-|[<-|[<-|[]]]]; destruct Ho as [E|[E|[E|[]]]]; try (symmetry in E; contradiction); rewrite <- E in *;
      first [apply N0; left; congruence | apply N0; right; left; congruence | apply N1; left; congruence].
Qed.

Lemma tri_face_simple t a b c : cre_inv t -> NoDup [a; b; c] -> (forall v, In v [a; b; c] -> v < nv t) ->
  simple_b (snd (add_face_v_edges a [a; b; c] (t, []))) = true.
Proof.
  intros C ND RV.
  pose proof (add_face_v_edges_cre a [a; b; c] t [] C (RV a (or_introl eq_refl)) RV ltac:(intros h [])) as S. cbv zeta in S.
  destruct (add_face_v_edges a [a; b; c] (t, [])) as [t1 hes]. cbn [fst snd] in *. destruct S as (_ & _ & _ & _ & M).
  cbn [map app cyc_pairs] in M. apply simple_b_complete.
  destruct hes as [|e0 [|e1 [|e2 [|e3 r]]]]; cbn [map] in M; try discriminate. unfold he_ends in M.
  injection M as f0 t0 f1 t1' f2 t2.
  apply (tri_simple t1 e0 e1 e2).
  - apply loop3. repeat split; congruence.
  - cbn [map]. rewrite f0, f1, f2. exact ND.
Qed.

Lemma find_or_add_full s a b c : cre_inv s -> full_inv s -> NoDup [a; b; c] -> (forall v, In v [a; b; c] -> live_v s v = true) ->
  full_inv (fst (find_or_add_face_v s a b c)).
Proof.
  intros C FI ND LV. unfold find_or_add_face_v. destruct (find_halfface_vs s a b c); [exact FI|].
  assert (V : valid_op s (AddFaceV [a; b; c]) = true) by (cbn [valid_op negb andb]; apply forallb_forall; exact LV).
  pose proof (full_inv_op s (AddFaceV [a; b; c]) FI eq_refl) as X. rewrite (next_add_face_v s [a; b; c] V) in X.
  assert (FIq : full_inv (fst (add_face_v s [a; b; c]))).
  { apply X. cbn [valid_op3 valid_op2]. apply tri_face_simple; [exact C | exact ND|]. intros v Hv. exact (proj1 (live_v_parts s v (LV v Hv))). }
  destruct (add_face_v s [a; b; c]) as [t1 [fh|]]; exact FIq.
Qed.

(* the four find-or-create steps with the history invariant *)
Lemma four_faces_full s v0 v1 v2 v3 : cre_inv s -> full_inv s -> tet_shape s -> NoDup [v0; v1; v2; v3] ->
  (forall v, In v [v0; v1; v2; v3] -> live_v s v = true) ->
  exists s4 hf0 hf1 hf2 hf3,
    (forall chk, full_bu s = true -> tet_add_cell_v s [v0; v1; v2; v3] chk = finish_cell_v s4 [hf0; hf1; hf2; hf3] chk) /\
    grow s s4 /\ cre_inv s4 /\ full_inv s4 /\ tet_shape s4 /\
    tri_on s4 hf0 v0 v1 v2 /\ tri_on s4 hf1 v0 v2 v3 /\ tri_on s4 hf2 v0 v3 v1 /\ tri_on s4 hf3 v1 v3 v2.
Proof.
  intros C FI K ND LV.
  assert (L0 : live_v s v0 = true) by (apply LV; cbn [In]; auto). assert (L1 : live_v s v1 = true) by (apply LV; cbn [In]; auto).
  assert (L2 : live_v s v2 = true) by (apply LV; cbn [In]; auto). assert (L3 : live_v s v3 = true) by (apply LV; cbn [In]; auto 6).
  pose proof (proj1 (live_v_parts s v0 L0)) as R0. pose proof (proj1 (live_v_parts s v1 L1)) as R1.
  pose proof (proj1 (live_v_parts s v2 L2)) as R2. pose proof (proj1 (live_v_parts s v3 L3)) as R3.
  destruct (nodup4_neq v0 v1 v2 v3 ND) as (n01 & n02 & n03 & n12 & n13 & n23).
  assert (n31 : v3 <> v1) by congruence. assert (n32 : v3 <> v2) by congruence. assert (n10 : v1 <> v0) by congruence.
  assert (n20 : v2 <> v0) by congruence. assert (n30 : v3 <> v0) by congruence. assert (n21 : v2 <> v1) by congruence.
  assert (ND3 : forall a b c : nat, a <> b -> b <> c -> a <> c -> NoDup [a; b; c]).
  { intros a b c ab bc ac. repeat constructor; cbn [In]; intuition. }
  assert (LVg : forall t, grow s t -> forall a b c, In a [v0; v1; v2; v3] -> In b [v0; v1; v2; v3] -> In c [v0; v1; v2; v3] ->
                forall v, In v [a; b; c] -> live_v t v = true).
  { intros t G a b c Ha Hb Hc v [<-|[<-|[<-|[]]]]; rewrite (live_v_grow s t _ G); apply LV; assumption. }
  pose proof (find_or_add_spec s v0 v1 v2 C K R0 R1 R2 n01 n12 n02) as S1. cbv zeta in S1.
  pose proof (find_or_add_full s v0 v1 v2 C FI (ND3 _ _ _ n01 n12 n02) (LVg s (grow_refl s) v0 v1 v2 ltac:(cbn; auto) ltac:(cbn; auto) ltac:(cbn; auto))) as F1.
  destruct (find_or_add_face_v s v0 v1 v2) as [s1 hf0] eqn:E1. cbn [fst snd] in S1, F1. destruct S1 as (G1 & C1 & K1 & T1 & _).
  pose proof (grow_nv s s1 G1) as NV1.
  pose proof (find_or_add_spec s1 v0 v2 v3 C1 K1 ltac:(lia) ltac:(lia) ltac:(lia) n02 n23 n03) as S2. cbv zeta in S2.
  pose proof (find_or_add_full s1 v0 v2 v3 C1 F1 (ND3 _ _ _ n02 n23 n03) (LVg s1 G1 v0 v2 v3 ltac:(cbn; auto) ltac:(cbn; auto) ltac:(cbn; auto 6))) as F2.
  destruct (find_or_add_face_v s1 v0 v2 v3) as [s2 hf1] eqn:E2. cbn [fst snd] in S2, F2. destruct S2 as (G2 & C2 & K2 & T2 & _).
  pose proof (grow_nv s1 s2 G2) as NV2. pose proof (grow_trans s s1 s2 G1 G2) as G02.
  pose proof (find_or_add_spec s2 v0 v3 v1 C2 K2 ltac:(lia) ltac:(lia) ltac:(lia) n03 n31 n01) as S3. cbv zeta in S3.
  pose proof (find_or_add_full s2 v0 v3 v1 C2 F2 (ND3 _ _ _ n03 n31 n01) (LVg s2 G02 v0 v3 v1 ltac:(cbn; auto) ltac:(cbn; auto 6) ltac:(cbn; auto))) as F3.
  destruct (find_or_add_face_v s2 v0 v3 v1) as [s3 hf2] eqn:E3. cbn [fst snd] in S3, F3. destruct S3 as (G3 & C3 & K3 & T3 & _).
  pose proof (grow_nv s2 s3 G3) as NV3. pose proof (grow_trans s s2 s3 G02 G3) as G03.
  pose proof (find_or_add_spec s3 v1 v3 v2 C3 K3 ltac:(lia) ltac:(lia) ltac:(lia) n13 n32 n12) as S4. cbv zeta in S4.
  pose proof (find_or_add_full s3 v1 v3 v2 C3 F3 (ND3 _ _ _ n13 n32 n12) (LVg s3 G03 v1 v3 v2 ltac:(cbn; auto) ltac:(cbn; auto 6) ltac:(cbn; auto))) as F4.
  destruct (find_or_add_face_v s3 v1 v3 v2) as [s4 hf3] eqn:E4. cbn [fst snd] in S4, F4. destruct S4 as (G4 & C4 & K4 & T4 & _).
  pose proof (grow_trans s1 s2 s4 G2 (grow_trans s2 s3 s4 G3 G4)) as G14.
  exists s4, hf0, hf1, hf2, hf3. split.
  { intros chk FB. unfold tet_add_cell_v, finish_cell_v. rewrite FB. cbn [negb]. rewrite E1. cbv beta iota. rewrite E2. cbv beta iota.
    rewrite E3. cbv beta iota. rewrite E4. cbv beta iota. reflexivity. }
  split; [exact (grow_trans s s1 s4 G1 G14)|]. split; [exact C4|]. split; [exact F4|]. split; [exact K4|].
  split; [exact (tri_on_grow s1 s4 hf0 _ _ _ C1 G14 T1)|].
  split; [exact (tri_on_grow s2 s4 hf1 _ _ _ C2 (grow_trans s2 s3 s4 G3 G4) T2)|].
  split; [exact (tri_on_grow s3 s4 hf2 _ _ _ C3 G4 T3) | exact T4].
Qed.

Theorem tet_created_keeps_invariant s v0 v1 v2 v3 chk s' c :
  full_inv s -> faces_closed s -> no_par s -> tet_shape s -> NoDup [v0; v1; v2; v3] ->
  (forall v, In v [v0; v1; v2; v3] -> live_v s v = true) ->
  tet_add_cell_v s [v0; v1; v2; v3] chk = (s', Some c) ->
  chk = true \/ (forall hf c', In hf (cell_at s' c) -> c' < c -> c_deleted s' c' = false -> ~ In hf (cell_at s' c')) ->
  full_inv s' /\ faces_closed s' /\ no_par s' /\ tet_shape s'.
Proof.
  intros FI FC NP K ND LV CALL FREE. pose proof (cre_inv_of_full_inv s FI FC NP) as C.
  pose proof (tet_add_cell_v_full_bu s v0 v1 v2 v3 chk s' c CALL) as FB.
  destruct (four_faces_full s v0 v1 v2 v3 C FI K ND LV) as (s4 & hf0 & hf1 & hf2 & hf3 & EQ & G & C4 & F4 & K4 & T0 & T1 & T2 & T3).
  rewrite (EQ chk FB) in CALL. set (l := [hf0; hf1; hf2; hf3]) in *.
  assert (Fb4 : fbu s4 = true).
  { destruct G as (_ & _ & _ & _ & _ & _ & _ & fb & _). rewrite fb. unfold full_bu in FB. apply andb_true_iff in FB. exact (proj2 FB). }
  pose proof (finish_accepted s4 l chk s' c CALL) as A.
  pose proof (asm_cell_check s4 v0 v1 v2 v3 hf0 hf1 hf2 hf3 C4 ND T0 T1 T2 T3) as CC. fold l in CC.
  assert (FACE : forall hf, In hf l -> loop_ok s4 (halfface s4 hf) = true /\ hf < 2 * nf s4).
  { intros hf Hh. destruct (asm_face s4 v0 v1 v2 v3 hf0 hf1 hf2 hf3 ND T0 T1 T2 T3 hf Hh) as (_ & _ & _ & Lp & R). auto. }
  assert (LIVE : forall hf, In hf l -> hf / 2 < nf s4 /\ f_deleted s4 (hf / 2) = false).
  { unfold l. intros hf [<-|[<-|[<-|[<-|[]]]]]; [destruct T0 as (r & d & _) | destruct T1 as (r & d & _) | destruct T2 as (r & d & _) | destruct T3 as (r & d & _)]; auto. }
  (* the shape, the faces and the edges of s' are those of s4 *)
  pose proof (add_cell_edges s4 l false) as EE. rewrite A in EE. cbn [fst] in EE.
  destruct (fc_append_cell s4 l) as (Fs & Cs & _). pose proof (append_cell_effect s4 l) as W.
  pose proof (shape_tet_add_cell_v s [v0; v1; v2; v3] chk K) as Kt. rewrite (EQ chk FB), CALL in Kt. cbn [fst] in Kt.
  (* freeness *)
  assert (FR : forall h, In h l -> cell_of s4 h = None).
  { unfold finish_cell_v in CALL. destruct (chk && negb (closed_by_sets s4 l)) eqn:X1; [discriminate|].
    destruct (chk && fbu s4 && existsb (has_cell s4) l) eqn:X2; [discriminate|].
    destruct FREE as [->|NS].
    - rewrite Fb4 in X2. cbn [andb] in X2. intros h Hh. destruct (cell_of s4 h) as [c'|] eqn:E; [|reflexivity]. exfalso.
      assert (Y : existsb (has_cell s4) l = true) by (apply existsb_exists; exists h; split; [exact Hh | unfold has_cell; rewrite E; reflexivity]).
      congruence.
    - intros h Hh. destruct (cell_of s4 h) as [c'|] eqn:E; [|reflexivity]. exfalso.
      destruct (cre_bu s4 C4) as (_ & _ & FO & _ & (_ & _ & _ & _ & _ & L6)). destruct (LIVE h Hh) as [r _].
      assert (hlt : h < 2 * nf s4) by (clear - r; lia).
      apply (FO Fb4 h hlt c') in E. destruct E as (rc & dc & ic).
      unfold add_cell in A. cbn [andb] in A. destruct (append_cell s4 l) as [s2 c2]. cbn [fst snd] in *. injection A as -> ->.
      destruct W as (wc & _ & wd & _). rewrite wc in *.
      apply (NS h c'); [unfold cell_at, nc; rewrite Cs, app_nth2 by apply Nat.le_refl; rewrite Nat.sub_diag; exact Hh | exact rc | |].
      + unfold c_deleted. rewrite wd. rewrite app_nth1 by (rewrite L6; exact rc). exact dc.
      + unfold cell_at. rewrite Cs. rewrite app_nth1 by exact rc. exact ic. }
  assert (V : valid_op s4 (AddCell l false) = true).
  { cbn [valid_op]. apply forallb_forall. intros h Hh. destruct (LIVE h Hh) as [r d]. unfold live_hf, live_f. rewrite d.
    replace (h / 2 <? nf s4) with true by (symmetry; apply Nat.ltb_lt; exact r). reflexivity. }
  assert (FIt : full_inv s').
  { pose proof (full_inv_op s4 (AddCell l false) F4) as X. rewrite (next_add_cell s4 l false V), A in X. cbn [fst] in X. apply X.
    - cbn [all_op]. rewrite Fb4. reflexivity.
    - cbn [valid_op3 valid_op2 orb]. rewrite CC. cbn [andb]. apply andb_true_iff. split; apply forallb_forall; intros h Hh.
      + rewrite (FR h Hh). reflexivity.
      + apply negb_true_iff. destruct (memb (opp h) l) eqn:Mo; [|reflexivity]. apply Base.ListLemmas.memb_In in Mo. exfalso.
        apply (asm_distinct s4 v0 v1 v2 v3 hf0 hf1 hf2 hf3 ND T0 T1 T2 T3 h (opp h) Hh Mo (fun E => opp_neq h (eq_sym E))).
        intros v Hv. unfold hf_vertices in Hv. apply in_map_iff in Hv. destruct Hv as (e & <- & He).
        exact (opp_hf_vertex s4 h e (proj1 (FACE h Hh)) He). }
  split; [exact FIt|].
  unfold add_cell in A. cbn [andb] in A. destruct (append_cell s4 l) as [s2 c2]. cbn [fst snd] in *. injection A as -> ->.
  destruct W as (_ & _ & _ & _ & _ & _ & _ & wed & wfd & _). destruct C4 as (_ & FLo & _ & NP4).
  assert (HE : forall h, he_from s' h = he_from s4 h /\ he_to s' h = he_to s4 h) by (intros h; unfold he_from, he_to, edge_at; rewrite EE; auto).
  split; [|split; [|exact Kt]].
  - intros f Hf D. unfold nf in Hf. rewrite Fs in Hf. unfold f_deleted in D. rewrite wfd in D. unfold face_at. rewrite Fs.
    apply loop_ok_spec. rewrite (loop_ok_ext s4 s'); [exact (FLo f Hf D) | intros h _; apply HE].
  - intros e e' a b He He' D D' J J'. unfold ne in He, He'. rewrite EE in He, He'. unfold e_deleted in D, D'. rewrite wed in D, D'.
    unfold joins, edge_at in J, J'. rewrite EE in J, J'. exact (NP4 e e' a b He He' D D' J J').
Qed.

Print Assumptions tet_created_keeps_invariant.
