(* Mesh/TH3HexBlocks.v -- C16 at the HISTORY level: in every state of every history of add_vertices / add_vertex / topology-checked
   add_cell(eight vertices) calls (valid vertex handles; lists of any length, with repetitions, calls that are rejected) EVERY cell is a
   cube in the documented layout: hex_cell_wf_b, check_halfface_ordering, cube pattern of hex_vertices, layout; the kernel's history
   invariant full_inv, closed faces and "no parallel edges" hold in every such state.
   Tools: frame lemmas (a well-formed ordered cell stays so when the mesh grows around it). *)
From Coq Require Import ZArith Lia Bool Arith List ZifyNat ZifyBool Permutation.
From OVM Require Import Base.ListX Base.ListLemmas Kernel.State Kernel.Ops Kernel.Mirror Kernel.Recompute Kernel.Closure Kernel.CellCheck
                        Kernel.Construct Kernel.ExactInv Kernel.ExactRun Kernel2.ListAux Kernel2.LookupModel Kernel2.AdjacentProofs Kernel2.ExactBase
                        Kernel2.ExactAddCell Kernel2.ExactHistory
                        Kernel3.GcDefs Kernel3.GcHist Kernel4.AllDefs Kernel4.AllBridges Kernel4.AllStatus Kernel4.AllHistory
                        Mesh.TetModel Mesh.TetProofs Mesh.HexModel Mesh.HexIterModel Mesh.HexProofs Mesh.TH2CollapseBase Mesh.TH2CollapseLoop
                        Mesh.TH2CollapseFold Mesh.TH2HexBase Mesh.TH2HexAdj Mesh.TH2HexOrd Mesh.TH2HexFrame Mesh.TH2HexMain Mesh.TH2HexChecked
                        Mesh.TH2HexEight Mesh.TH2HexWf
                        Mesh.TH3Base Mesh.TH3TetFound Mesh.TH3TetAccept Mesh.TH3HexQuad Mesh.TH3HexCube Mesh.TH3HexMain Mesh.TH3HexEx Mesh.TH3HexHist.
Import ListNotations.
Ltac Zify.zify_post_hook ::= Z.div_mod_to_equations.
Local Open Scope nat_scope.

(* ================================================================== 1. the ordering check reads only the halffaces of the list *)

Lemma find_ext_in {A} (p q : A -> bool) : forall l, (forall x, In x l -> p x = q x) -> find p l = find q l.
Proof.
  induction l as [|a l IH]; intros H; [reflexivity|]. cbn [find]. rewrite (H a (or_introl eq_refl)).
  destruct (q a); [reflexivity|]. apply IH. intros x Hx. apply H. right. exact Hx.
Qed.

Lemma get_adjacent_ext s t a b l : (forall x, In x l -> halfface t x = halfface s x) ->
  get_adjacent_halfface t a b l = get_adjacent_halfface s a b l.
Proof.
  intros H. unfold get_adjacent_halfface. destruct b as [he|]; [|reflexivity]. apply find_ext_in. intros x Hx. rewrite (H x Hx). reflexivity.
Qed.

Lemma check_ordering_ext s t l : length l = 6 ->
  (forall x, In x l -> halfface t x = halfface s x /\ hf_vertices t x = hf_vertices s x) ->
  check_halfface_ordering t l = check_halfface_ordering s l.
Proof.
  intros L6 H. assert (I0 : In (hx l 0) l) by (unfold hx; apply nth_In; lia). assert (I1 : In (hx l 1) l) by (unfold hx; apply nth_In; lia).
  unfold check_halfface_ordering, ord_pass.
  rewrite (proj1 (H _ I0)), (proj1 (H _ I1)), (proj2 (H _ I0)), (proj2 (H _ I1)).
  assert (G : forall self first order hes st,
              fold_left (ord_step t l self first order) hes st = fold_left (ord_step s l self first order) hes st).
  { intros self first order. induction hes as [|he hes IH]; intros st; [reflexivity|]. cbn [fold_left]. rewrite IH. f_equal.
    unfold ord_step. destruct st as [[o|]|]; try reflexivity; rewrite (get_adjacent_ext s t _ _ l (fun x Hx => proj1 (H x Hx))); reflexivity. }
  rewrite !G. reflexivity.
Qed.

(* ================================================================== 2. frames *)

Definition frame (s t : mesh) : Prop :=
  nc s <= nc t /\ nf s <= nf t /\ ne s <= ne t /\ (forall c, c < nc s -> cell_at t c = cell_at s c /\ c_deleted t c = c_deleted s c) /\
  (forall hf, hf / 2 < nf s -> halfface t hf = halfface s hf) /\
  (forall h, h / 2 < ne s -> he_from t h = he_from s h /\ he_to t h = he_to s h).

Lemma hex_wf_frame s t c : bu_inv s -> bu_inv t -> fbu t = true -> frame s t -> c < nc s -> c_deleted s c = false ->
  (forall hf, In hf (cell_at s c) -> f_deleted s (hf / 2) = false) -> length (cell_at s c) = 6 ->
  hex_cell_wf_b s c = true -> check_halfface_ordering s (cell_at s c) = true ->
  hex_cell_wf_b t c = true /\ check_halfface_ordering t (cell_at t c) = true.
Proof.
  intros Bs Bt Ft (NC & _ & _ & FC & FH & FE) Hc Dc FL L6 WF ORD.
  destruct (FC c Hc) as [CA CD]. rewrite CA.
  destruct Bs as (_ & _ & _ & (_ & R2 & R3) & _).
  assert (RF : forall hf, In hf (cell_at s c) -> hf / 2 < nf s) by (intros hf Hh; pose proof (R3 c Hc Dc hf Hh); lia).
  assert (HF : forall hf, In hf (cell_at s c) -> halfface t hf = halfface s hf) by (intros hf Hh; apply FH; exact (RF hf Hh)).
  assert (HE : forall hf h, In hf (cell_at s c) -> In h (halfface s hf) -> he_from t h = he_from s h /\ he_to t h = he_to s h).
  { intros hf h Hh Hin. apply FE. apply In_halfface in Hin. pose proof (R2 _ (RF hf Hh) (FL hf Hh)) as R.
    destruct (Nat.even hf); [specialize (R h Hin); lia | specialize (R (opp h) Hin); rewrite <- (opp_div2 h); lia]. }
  assert (HV : forall hf, In hf (cell_at s c) -> hf_vertices t hf = hf_vertices s hf).
  { intros hf Hh. unfold hf_vertices. rewrite (HF hf Hh). apply map_ext_in. intros h Hin. exact (proj1 (HE hf h Hh Hin)). }
  split; [|rewrite (check_ordering_ext s t (cell_at s c) L6 (fun x Hx => conj (HF x Hx) (HV x Hx))); exact ORD].
  apply hex_cell_wf_b_spec in WF. destruct WF as (CL & LO & ND). apply hex_cell_wf_b_spec. unfold hex_cell_wf. rewrite CA. split; [|split].
  - apply (closed_cell_ext s t c CA); [|exact CL]. intros g Hg. split; [|exact (HF g Hg)].
    rewrite (proj1 (CL g Hg)). destruct Bt as (_ & _ & FO & (_ & _ & R3t) & _).
    assert (Hct : c < nc t) by lia. assert (Dct : c_deleted t c = false) by (rewrite CD; exact Dc).
    assert (Ig : In g (cell_at t c)) by (rewrite CA; exact Hg).
    apply (FO Ft g (R3t c Hct Dct g Ig) c). auto.
  - intros h Hh. rewrite (HF h Hh). rewrite (loop_ok_ext s t (halfface s h)); [exact (LO h Hh)|]. intros e He. exact (HE h e Hh He).
  - assert (I0 : In (hx (cell_at s c) 0) (cell_at s c)) by (unfold hx; apply nth_In; lia).
    assert (I1 : In (hx (cell_at s c) 1) (cell_at s c)) by (unfold hx; apply nth_In; lia).
    rewrite (HV _ I0), (HV _ I1). exact ND.
Qed.

Lemma frame_trans s t u : frame s t -> frame t u -> frame s u.
Proof.
  intros (a1 & a2 & a3 & a4 & a5 & a6) (b1 & b2 & b3 & b4 & b5 & b6). split; [lia|]. split; [lia|]. split; [lia|]. split; [|split].
  - intros c Hc. destruct (a4 c Hc) as [x y]. destruct (b4 c ltac:(lia)) as [x' y']. split; congruence.
  - intros hf H. rewrite (b5 hf ltac:(lia)). exact (a5 hf H).
  - intros h H. destruct (a6 h H) as [x y]. destruct (b6 h ltac:(lia)) as [x' y']. split; congruence.
Qed.

Lemma frame_grow s t : grow s t -> cdel t = cdel s -> length (edel s) = ne s -> length (fdel s) = nf s -> frame s t.
Proof.
  intros G CD Le Lf. split; [rewrite (grow_nc s t G); lia|]. split; [exact (grow_nf s t G Le Lf)|]. split; [exact (grow_ne s t G Le Lf)|]. split; [|split].
  - intros c _. split; [apply (grow_cell_at s t G) | unfold c_deleted; rewrite CD; reflexivity].
  - intros hf H. exact (grow_halfface s t G hf H).
  - intros h H. split; [exact (grow_he_from s t G h H) | exact (grow_he_to s t G h H)].
Qed.

Lemma frame_same_defs s t : edges t = edges s -> faces t = faces s -> (exists N, cells t = cells s ++ N /\ cdel t = cdel s ++ repeat false (length N)) ->
  length (cdel s) = nc s -> frame s t.
Proof.
  intros E F (N & Cs & Cd) Lc. split; [unfold nc; rewrite Cs, app_length; lia|]. split; [unfold nf; rewrite F; lia|]. split; [unfold ne; rewrite E; lia|]. split; [|split].
  - intros c Hc. split; [unfold cell_at; rewrite Cs; apply app_nth1; exact Hc | unfold c_deleted; rewrite Cd; apply app_nth1; rewrite Lc; exact Hc].
  - intros hf _. apply halfface_faces. exact F.
  - intros h _. unfold he_from, he_to, edge_at. rewrite E. auto.
Qed.

(* ================================================================== 3. the invariant of block histories *)

(* all cells live and cubes *)
Definition cells_cubes (s : mesh) : Prop :=
  forall c, c < nc s -> c_deleted s c = false /\ hex_cell_wf_b s c = true /\ check_halfface_ordering s (cell_at s c) = true.

Definition block_inv (s : mesh) : Prop :=
  full_inv s /\ faces_closed s /\ no_par s /\ hex_shape s /\ fbu s = true /\ cells_cubes s.

Lemma full_inv_bu s : full_inv s -> bu_inv s.
Proof. intros (A & _). exact (proj1 (all_inv_ginv s A)). Qed.

Lemma full_inv_cell_faces_live s c hf : full_inv s -> c < nc s -> c_deleted s c = false -> In hf (cell_at s c) -> f_deleted s (hf / 2) = false.
Proof. intros (A & _) Hc D Hh. destruct (all_inv_ginv s A) as (_ & _ & (_ & _ & U3) & _). exact (U3 c Hc D hf Hh). Qed.

Lemma hex_shape_len6 s c : hex_shape s -> c < nc s -> length (cell_at s c) = 6.
Proof. intros [_ K] Hc. rewrite Forall_forall in K. apply K. apply nth_In. exact Hc. Qed.

Lemma cdel_len s : full_inv s -> length (cdel s) = nc s.
Proof. intros FI. destruct (full_inv_bu s FI) as (_ & _ & _ & _ & (_ & _ & _ & _ & _ & L6)). exact L6. Qed.

(* the old cells after a step that frames the state *)
Lemma cells_cubes_frame s t : block_inv s -> full_inv t -> fbu t = true -> frame s t ->
  forall c, c < nc s -> c_deleted t c = false /\ hex_cell_wf_b t c = true /\ check_halfface_ordering t (cell_at t c) = true.
Proof.
  intros (FI & _ & _ & K & _ & CC) FIt Ft FR c Hc. destruct (CC c Hc) as (D & WF & ORD).
  split; [destruct FR as (_ & _ & _ & FC & _); rewrite (proj2 (FC c Hc)); exact D|].
  apply (hex_wf_frame s t c (full_inv_bu s FI) (full_inv_bu t FIt) Ft FR Hc D); [| exact (hex_shape_len6 s c K Hc) | exact WF | exact ORD].
  intros hf Hh. exact (full_inv_cell_faces_live s c hf FI Hc D Hh).
Qed.

(* ---- add_vertex / add_vertices *)
Lemma add_n_vertices_defs n : forall s, let t := add_n_vertices n s in
  edges t = edges s /\ edel t = edel s /\ faces t = faces s /\ fdel t = fdel s /\ cells t = cells s /\ cdel t = cdel s /\ fbu t = fbu s.
Proof.
  induction n as [|n IH]; intros s; cbv zeta; [repeat split|]. cbn [add_n_vertices].
  pose proof (add_vertex_view s) as W. cbv zeta in W. destruct W as (_&w2&w3&w4&w5&w6&w7&_&_&w10&_).
  destruct (IH (fst (add_vertex s))) as (a&b&c&d&e&f&g). repeat split; congruence.
Qed.

Lemma block_inv_vertices n s : block_inv s -> block_inv (add_n_vertices n s).
Proof.
  intros BI. pose proof BI as (FI & FC & NP & K & Fs & CC). destruct (add_n_vertices_defs n s) as (E & ED & F & FD & Cs & CD & Fb).
  set (t := add_n_vertices n s) in *.
  assert (FIt : full_inv t) by exact (full_inv_op s (AddVertices n) FI eq_refl eq_refl).
  assert (Ft : fbu t = true) by congruence.
  assert (HE : forall h, he_from t h = he_from s h /\ he_to t h = he_to s h) by (intros h; unfold he_from, he_to, edge_at; rewrite E; auto).
  split; [exact FIt|]. split; [|split; [|split; [|split; [exact Ft|]]]].
  - intros f Hf D. unfold nf in Hf. rewrite F in Hf. unfold f_deleted in D. rewrite FD in D. unfold face_at. rewrite F.
    apply loop_ok_spec. rewrite (loop_ok_ext s t); [apply loop_ok_spec; exact (FC f Hf D) | intros h _; apply HE].
  - intros e e' a b He He' D D' J J'. unfold ne in He, He'. rewrite E in He, He'. unfold e_deleted in D, D'. rewrite ED in D, D'.
    unfold joins, edge_at in J, J'. rewrite E in J, J'. exact (NP e e' a b He He' D D' J J').
  - destruct K as [K1 K2]. split; [rewrite F; exact K1 | rewrite Cs; exact K2].
  - assert (FR : frame s t).
    { apply (frame_same_defs s t E F); [exists []; rewrite !app_nil_r; auto | exact (cdel_len s FI)]. }
    intros c Hc. unfold nc in Hc. rewrite Cs in Hc. exact (cells_cubes_frame s t BI FIt Ft FR c Hc).
Qed.

(* ---- the topology-checked add_cell(vertices): whatever the list *)
Lemma nodup_of_set_length (vs : list nat) : length (set_of_list vs) = length vs -> NoDup vs.
Proof.
  intros L. apply (@NoDup_incl_NoDup nat (set_of_list vs) vs); [apply set_of_list_NoDup | lia|]. intros x Hx. apply set_of_list_In. exact Hx.
Qed.

Lemma cdel_quad_fold qs : forall acc, cdel (fst (fold_left quad_step qs acc)) = cdel (fst acc).
Proof.
  induction qs as [|[q f] qs IH]; intros [t l]; [reflexivity|]. cbn [fold_left]. rewrite IH. unfold quad_step. cbn [fst snd].
  destruct f as [hf|]; [reflexivity|]. pose proof (cdel_add_face_v t q) as X. destruct (add_face_v t q) as [t1 [fh|]]; exact X.
Qed.

(* the two outcomes of the checked call on eight distinct live vertices: rejected after the six find-or-create steps (state s1), or the
   base add_cell on s1 *)
Lemma checked_call_cases s a0 a1 a2 a3 a4 a5 a6 a7 :
  let vs := [a0; a1; a2; a3; a4; a5; a6; a7] in
  cre_inv s -> full_inv s -> NoDup vs -> (forall v, In v vs -> live_v s v = true) -> full_bu s = true ->
  exists s1, grow s s1 /\ cre_inv s1 /\ full_inv s1 /\ cdel s1 = cdel s /\
    (hex_add_cell_v s vs true = (s1, None) \/
     exists s' hfs, hex_add_cell_v s vs true = (s', Some (nc s)) /\ add_cell s1 hfs false = (s', Some (nc s))).
Proof.
  intros vs C FI ND8 LV FB. unfold hex_add_cell_v. rewrite FB. cbn [negb].
  replace (length vs =? 8) with true by reflexivity. cbn [negb andb].
  rewrite (set_of_list_length_NoDup vs ND8). replace (length vs =? 8) with true by reflexivity. cbn [negb].
  fold quad_step.
  set (qs := combine (hex_quads vs) (map (find_halfface_extensive s) (hex_quads vs))) in *.
  destruct (nodup8_neq a0 a1 a2 a3 a4 a5 a6 a7 ND8) as
    ((n01&n02&n03&n04&n05&n06&n07)&(n12&n13&n14&n15&n16&n17)&(n23&n24&n25&n26&n27)&(n34&n35&n36&n37)&(n45&n46&n47)&(n56&n57)&n67).
  assert (HQ : forall qf, In qf qs -> (exists x0 x1 x2 x3, fst qf = [x0; x1; x2; x3] /\ NoDup [x0; x1; x2; x3]) /\
                                       (forall v, In v (fst qf) -> live_v s v = true) /\ snd qf = find_halfface_extensive s (fst qf)).
  { intros [q f] Hin. unfold qs, vs, hex_quads in Hin. cbn [nth map combine] in Hin. cbn [fst snd].
    repeat (destruct Hin as [Hin|Hin]; [injection Hin as <- <-; (split; [do 4 eexists; split; [reflexivity | apply nodup4_intro; auto]|]); (split; [|reflexivity]);
      intros v Hv; apply LV; unfold vs; cbn [In] in *; tauto|]). destruct Hin. }
  assert (HQ' : forall qf, In qf qs -> (exists x0 x1 x2 x3, fst qf = [x0; x1; x2; x3]) /\ (forall v, In v (fst qf) -> v < nv s) /\
                                        snd qf = find_halfface_extensive s (fst qf)).
  { intros qf Hqf. destruct (HQ qf Hqf) as ((x0 & x1 & x2 & x3 & E & _) & L & F). split; [exists x0, x1, x2, x3; exact E|]. split; [|exact F].
    intros v Hv. exact (proj1 (live_v_parts s v (L v Hv))). }
  pose proof (fold_quads_full s C qs s [] [] (grow_refl s) C FI (Forall2_nil _) HQ) as FI1.
  pose proof (fold_quads_cre s C qs s [] [] (grow_refl s) C (Forall2_nil _) HQ') as (G1 & C1 & _).
  pose proof (cdel_quad_fold qs (s, [])) as CD1.
  destruct (fold_left quad_step qs (s, [])) as [s1 hfs]. cbn [fst snd] in *.
  exists s1. split; [exact G1|]. split; [exact C1|]. split; [exact FI1|]. split; [exact CD1|].
  destruct (negb (closed_by_sets s1 hfs)); [left; reflexivity|].
  destruct (fbu s1 && existsb _ hfs); [left; reflexivity|]. right.
  destruct (add_cell_cases s1 hfs false) as [R|(s2 & R & _)].
  - exfalso. unfold add_cell in R. cbn [andb] in R. destruct (append_cell s1 hfs). discriminate.
  - exists s2, hfs. rewrite R, (grow_nc s s1 G1). split; reflexivity.
Qed.

Lemma block_inv_of_grown s s1 : block_inv s -> grow s s1 -> cre_inv s1 -> full_inv s1 -> cdel s1 = cdel s -> hex_shape s1 -> block_inv s1.
Proof.
  intros BI G C1 FI1 CD K1. pose proof BI as (FI & _ & _ & _ & Fs & _).
  assert (F1 : fbu s1 = true) by (destruct G as (_ & _ & _ & _ & _ & _ & _ & fb & _); congruence).
  destruct C1 as (_ & FLo & _ & NP1).
  split; [exact FI1|]. split; [intros f Hf D; apply loop_ok_spec; exact (FLo f Hf D)|]. split; [exact NP1|]. split; [exact K1|]. split; [exact F1|].
  destruct (bu_lens s (full_inv_bu s FI)) as [Le Lf].
  intros c Hc. rewrite (grow_nc s s1 G) in Hc. exact (cells_cubes_frame s s1 BI FI1 F1 (frame_grow s s1 G CD Le Lf) c Hc).
Qed.

Lemma block_inv_cell s vs : block_inv s -> (forall v, In v vs -> live_v s v = true) -> block_inv (fst (hex_add_cell_v s vs true)).
Proof.
  intros BI LV. pose proof BI as (FI & FC & NP & K & Fs & CC).
  pose proof (shape_hex_add_cell_v s vs true K) as Kt.
  destruct (full_bu s) eqn:FB.
  2:{ unfold hex_add_cell_v. rewrite FB. exact BI. }
  destruct (Nat.eq_dec (length vs) 8) as [L8|L8].
  2:{ unfold hex_add_cell_v. rewrite FB. cbn [negb]. replace (length vs =? 8) with false by (symmetry; apply Nat.eqb_neq; exact L8). exact BI. }
  destruct (Nat.eq_dec (length (set_of_list vs)) 8) as [D8|D8].
  2:{ unfold hex_add_cell_v. rewrite FB. cbn [negb]. replace (length vs =? 8) with true by (symmetry; apply Nat.eqb_eq; exact L8).
      replace (length (set_of_list vs) =? 8) with false by (symmetry; apply Nat.eqb_neq; exact D8). exact BI. }
  assert (ND : NoDup vs) by (apply nodup_of_set_length; congruence).
  destruct (eight vs L8) as (a0 & a1 & a2 & a3 & a4 & a5 & a6 & a7 & EV). subst vs.
  pose proof (cre_inv_of_full_inv s FI FC NP) as C.
  assert (RV : forall v, In v [a0; a1; a2; a3; a4; a5; a6; a7] -> v < nv s) by (intros v Hv; exact (proj1 (live_v_parts s v (LV v Hv)))).
  destruct (checked_call_cases s a0 a1 a2 a3 a4 a5 a6 a7 C FI ND LV FB) as (s1 & G1 & C1 & FI1 & CD1 & CASES).
  assert (F1 : fbu s1 = true) by (destruct G1 as (_ & _ & _ & _ & _ & _ & _ & fb & _); congruence).
  destruct CASES as [R|(s' & hfs & R & A)]; rewrite R in *; cbn [fst] in *.
  - exact (block_inv_of_grown s s1 BI G1 C1 FI1 CD1 Kt).
  - destruct (created_cell_keeps_invariant s s' a0 a1 a2 a3 a4 a5 a6 a7 true (nc s) FI FC NP ND LV R (or_introl eq_refl)) as (FIt & FCt & NPt).
    destruct (created_cell s s' a0 a1 a2 a3 a4 a5 a6 a7 true (nc s) C ND RV R) as (h0 & h1 & h2 & h3 & h4 & h5 & _ & NCt & CA & _ & _ & _ & _ & _ & _ & _ & WF & ORD & _).
    (* the base add_cell: definitions *)
    pose proof (add_cell_edges s1 hfs false) as EE. rewrite A in EE. cbn [fst] in EE.
    destruct (fc_append_cell s1 hfs) as (Fs' & Cs & _). pose proof (append_cell_effect s1 hfs) as W.
    destruct (inc_cell_append_cell s1 hfs F1) as [_ F2].
    unfold add_cell in A. cbn [andb] in A. destruct (append_cell s1 hfs) as [s2 c2]. cbn [fst snd] in *. injection A as -> _.
    destruct W as (_ & _ & wd & _).
    assert (FR1 : frame s1 s') by (apply (frame_same_defs s1 s' EE Fs'); [exists [hfs]; split; [exact Cs | exact wd] | exact (cdel_len s1 FI1)]).
    destruct (bu_lens s (full_inv_bu s FI)) as [Le Lf].
    pose proof (frame_trans s s1 s' (frame_grow s s1 G1 CD1 Le Lf) FR1) as FR.
    split; [exact FIt|]. split; [exact FCt|]. split; [exact NPt|]. split; [exact Kt|]. split; [exact F2|].
    intros c Hc. rewrite NCt in Hc. destruct (Nat.eq_dec c (nc s)) as [->|Nc].
    + split; [|split; [exact WF | rewrite CA; exact ORD]].
      unfold c_deleted. rewrite wd. rewrite app_nth2 by (rewrite (cdel_len s1 FI1), (grow_nc s s1 G1); lia).
      rewrite (cdel_len s1 FI1), (grow_nc s s1 G1), Nat.sub_diag. reflexivity.
    + exact (cells_cubes_frame s s' BI FIt F2 FR c ltac:(lia)).
Qed.

(* ================================================================== 4. the histories *)

Inductive bop := BVertex | BVertices (n : nat) | BCell (vs : list nat).
Definition bop_hop (o : bop) : hop :=
  match o with BVertex => HK AddVertex | BVertices n => HK (AddVertices n) | BCell vs => HAddCellV vs true end.

Lemma block_inv_empty : block_inv empty_mesh.
Proof.
  split; [exact full_inv_empty|]. split; [intros f Hf; cbn in Hf; lia|]. split; [intros e e' a b He; cbn in He; lia|].
  split; [split; constructor|]. split; [reflexivity|]. intros c Hc. cbn in Hc. lia.
Qed.

Lemma block_inv_step s o : block_inv s -> block_inv (match hex_step s (bop_hop o) with HROk s' _ => s' | HRRejected => s end).
Proof.
  intros BI. unfold hex_step. destruct (hex_valid s (bop_hop o)) eqn:V; [|exact BI]. destruct o as [| n | vs]; cbn [bop_hop hex_exec exec] in *.
  - pose proof (block_inv_vertices 1 s BI) as X. cbn [add_n_vertices] in X. destruct (add_vertex s) as [s1 v]. exact X.
  - exact (block_inv_vertices n s BI).
  - cbn [hex_valid] in V. pose proof (block_inv_cell s vs BI (fun v Hv => proj1 (forallb_forall _ _) V v Hv)) as X.
    destruct (hex_add_cell_v s vs true) as [s1 r]. exact X.
Qed.

Theorem block_inv_run : forall ops : list bop, block_inv (hex_run (map bop_hop ops)).
Proof.
  intros ops. unfold hex_run. generalize block_inv_empty. generalize empty_mesh.
  induction ops as [|o ops IH]; intros s BI; [exact BI|]. cbn [map hex_run_from fold_left]. apply IH. exact (block_inv_step s o BI).
Qed.

(* every cell of every state of every block history: well formed, ordered, cube pattern of hex_vertices, documented layout *)
Theorem block_cells_are_cubes (ops : list bop) : let s := hex_run (map bop_hop ops) in
  full_inv s /\ faces_closed s /\ no_par s /\ cre_inv s /\ hex_shape s /\
  forall c, c < nc s ->
    live_c s c = true /\ hex_cell_wf_b s c = true /\ check_halfface_ordering s (cell_at s c) = true /\
    hex_cube_pattern s c /\ hex_layout s (cell_at s c) = true.
Proof.
  cbv zeta. destruct (block_inv_run ops) as (FI & FC & NP & K & _ & CC). set (s := hex_run (map bop_hop ops)) in *.
  split; [exact FI|]. split; [exact FC|]. split; [exact NP|]. split; [exact (cre_inv_of_full_inv s FI FC NP)|]. split; [exact K|].
  intros c Hc. destruct (CC c Hc) as (D & WF & ORD).
  split; [unfold live_c; rewrite D; replace (c <? nc s) with true by (symmetry; apply Nat.ltb_lt; exact Hc); reflexivity|].
  split; [exact WF|]. split; [exact ORD|].
  split; [exact (TH2_hex_vertices_cube_pattern s c K Hc ORD WF) | exact (TH2_hex_cell_layout s c K Hc ORD WF)].
Qed.

Print Assumptions block_cells_are_cubes.
