(* Mesh/TH2CollapseMain.v -- C15, collapse_edge(a -> b) with deferred deletion on: the cell-set characterisation.

   Under `collapse_ready s heh` (the kernel's deferred-mode invariant bu_inv2 - exact caches, closed live cells, simple
   faces -, one slot per entity, all three incidence kinds on, every face a triangle that is a closed loop of live
   halfedges, every cell four halffaces, the halfedge live and not a loop edge, and every tet that is REBUILT - incident
   to a but without the halfedge a->b - has its four faces on three distinct vertices none of which is b: the
   "simplicial at the edge" part of the link condition), the call succeeds, returns b, and
     - nothing is removed physically: vertices, edges, faces, cells of s keep their handles and definitions; edges and
       faces may be appended (none at a), one cell is appended per rebuilt tet, in the ascending order of the old handles;
     - an old cell is flagged afterwards iff it was flagged or is incident to a (star s a: has a live face with a live
       edge at a - equivalently, In_star_vertices: a is a vertex of one of its halffaces);
     - the k-th appended cell is live and is the k-th rebuilt tet c, halfface by halfface: its i-th halfface is a live
       halfface whose vertices are those of the i-th halfface of c with a replaced by b, in the same cyclic order
       (orientation preserved) - hence the vertex tuple get_cell_vertices computes is the old one with a replaced by b
       up to a cyclic rotation of its first three entries (TH2CollapseTuple.v);
     - a is flagged. *)
From Coq Require Import ZArith Lia Bool Arith List ZifyNat ZifyBool.
From OVM Require Import Base.ListX Base.ListLemmas Kernel.State Kernel.Ops Kernel.Mirror Kernel.Recompute Kernel.Closure Kernel.Sizes
                        Kernel.ExactInv Kernel.ExactRun Kernel.DeferredDelete Kernel2.ReorderExact Kernel2.ExactBase Kernel2.ExactHistory
                        Kernel2.ExactDeletions
                        Mesh.TetModel Mesh.TetProofs Mesh.TH2CollapseBase Mesh.TH2CollapseLoop Mesh.TH2CollapseFold Mesh.TH2CollapseStar
                        Mesh.TH2ShapeHist.
Import ListNotations.
Ltac Zify.zify_post_hook ::= Z.div_mod_to_equations.
Local Open Scope nat_scope.

(* ------------------------------------------------------------------ the hypothesis *)
Definition collapse_ready (s : mesh) (heh : nat) : Prop :=
  bu_inv2 s /\ szd s /\ vbu s = true /\ tet_shape s /\ faces_loop s /\ face_edges_live s /\
  heh / 2 < ne s /\ e_deleted s (heh / 2) = false /\ he_from s heh <> he_to s heh /\
  (forall c, In c (rebuilt_cells s heh) -> forall hf, In hf (cell_at s c) -> tri_ok (he_to s heh) s hf).

Lemma ready_endpoints s heh : collapse_ready s heh -> he_from s heh < nv s /\ he_to s heh < nv s.
Proof.
  intros (B & _ & _ & _ & _ & _ & R & D & _). destruct (bu_inv2_refs s B) as (R1 & _). destruct (R1 _ R D) as [X Y].
  unfold he_from, he_to. destruct (edge_at s (heh / 2)) as [p q]. cbn [fst snd] in X, Y. destruct (Nat.even heh); split; assumption.
Qed.

Lemma ready_L1 s heh : collapse_ready s heh -> L1 (he_from s heh) (he_to s heh) s s.
Proof.
  intros H. pose proof (ready_endpoints s heh H) as [_ Hb]. destruct H as (B & Z & V & K & FLo & FL & _).
  unfold L1. split; [apply grow_refl|]. split; [exact B|]. split; [exact Z|]. split; [exact V|]. split; [exact K|].
  split; [exact FLo|]. split; [exact FL|]. split; [exact Hb|]. split; intros; lia.
Qed.

(* L1 relative to itself *)
Lemma L1_self a b s0 t : L1 a b s0 t -> L1 a b t t.
Proof.
  intros (_ & B & Z & V & K & FLo & FL & Hb & _). unfold L1. split; [apply grow_refl|]. split; [exact B|]. split; [exact Z|].
  split; [exact V|]. split; [exact K|]. split; [exact FLo|]. split; [exact FL|]. split; [exact Hb|]. split; intros; lia.
Qed.

(* ------------------------------------------------------------------ the images survive the deletion of a *)
Lemma rot3_In l m x : rot3 l m -> In x m -> In x l.
Proof.
  destruct l as [|p [|q [|r [|]]]]; cbn [rot3]; try contradiction.
  intros [-> | [-> | ->]]; cbn [In]; tauto.
Qed.

Lemma img_not_at_a a b s0 t vs n : a <> b -> L1 a b s0 t -> img a b t vs n ->
  ~ In (n / 2) (faces_at_edges t (edges_at_vertex t a)).
Proof.
  intros Hab L (R & D & Ro) Hin. apply In_faces_at in Hin. destruct Hin as (_ & _ & he & H1 & H2).
  apply In_edges_at in H2. destruct H2 as (_ & _ & EP).
  pose proof (L1_self a b s0 t L) as LS.
  destruct (In_face_halfface t n he H1) as (g & Hg & E2).
  assert (IA : In a (hf_vertices t n)).
  { apply (endpoint_is_vertex a b t LS n g a R D Hg). apply endpoint_cases. rewrite E2. exact EP. }
  apply (rot3_In _ _ a Ro) in IA. apply in_map_iff in IA. destruct IA as (x & Ex & _). exact (sub_neq a b x Hab Ex).
Qed.

Section Main.
  Variables (s : mesh) (heh : nat).
  Hypothesis RDY : collapse_ready s heh.
  Let a := he_from s heh.
  Let b := he_to s heh.
  Let R := rebuilt_cells s heh.

  Lemma Hab_ : a <> b. Proof. destruct RDY as (_ & _ & _ & _ & _ & _ & _ & _ & N & _). exact N. Qed.
  Lemma L0_ : L1 a b s s. Proof. exact (ready_L1 s heh RDY). Qed.
  Lemma Ha_ : a < nv s. Proof. exact (proj1 (ready_endpoints s heh RDY)). Qed.

  Lemma R_filter : R = filter (keepb (collapsing_cells s heh)) (star s a).
  Proof. unfold R. rewrite (rebuilt_cells_is_filter a b s Hab_ L0_ Ha_ heh eq_refl). reflexivity. Qed.

  Lemma star_facts c : In c (star s a) -> c < nc s /\ c_deleted s c = false.
  Proof. intros H. apply In_star in H. tauto. Qed.

  (* ---------------------------------------------------------------- phase 1: the loop over the star *)
  Lemma phase1 : exists s1 news,
    fold_left (collapse_cell a b (collapsing_cells s heh)) (vertex_cells s a) (Some (s, [])) = Some (s1, news) /\
    L1 a b s s1 /\ cdel s1 = flag_all R (cdel s) /\ news_ok a b s s1 R news.
  Proof.
    rewrite (vertex_cells_is_star a b s Hab_ L0_ Ha_).
    destruct (fold_cells_spec a b s (collapsing_cells s heh) Hab_ L0_ (star s a) s [] L0_) as (s1 & news & Q & L & _ & CD & NO).
    - unfold star. apply NoDup_cells_at_faces.
    - intros c Hc. destruct (star_facts c Hc) as [x y]. auto.
    - intros c Hc M hf Hin. destruct RDY as (_ & _ & _ & _ & _ & _ & _ & _ & _ & OK). apply (OK c); [|exact Hin].
      fold R. rewrite R_filter. apply filter_In. split; [exact Hc|]. unfold keepb. rewrite M. reflexivity.
    - exists s1, news. rewrite R_filter. cbn [app] in Q. auto.
  Qed.

  (* ---------------------------------------------------------------- transfer of the images between states *)
  Lemma news_ok_mono t t' Rl news : (forall vs n, img a b t vs n -> img a b t' vs n) -> news_ok a b s t Rl news -> news_ok a b s t' Rl news.
  Proof.
    intros M H. induction H as [|ch n Rl' news' [E I] _ IH]; constructor; [|exact IH]. split; [exact E|].
    destruct I as (n0 & n1 & n2 & n3 & c0 & c1 & c2 & c3 & E1 & E2 & i0 & i1 & i2 & i3).
    exists n0, n1, n2, n3, c0, c1, c2, c3. split; [exact E1|]. split; [exact E2|].
    split; [apply M; exact i0|]. split; [apply M; exact i1|]. split; [apply M; exact i2 | apply M; exact i3].
  Qed.

  Lemma news_ok_shape t Rl news : news_ok a b s t Rl news ->
    length news = length Rl /\ map fst news = Rl /\
    forall n, In n news -> length (snd n) = 4 /\ forall hf, In hf (snd n) -> hf / 2 < nf t.
  Proof.
    intros H. induction H as [|ch n Rl' news' [E I] _ (IH1 & IH2 & IH3)]; [split; [reflexivity|split; [reflexivity|intros m []]]|].
    split; [cbn [length]; rewrite IH1; reflexivity|]. split; [cbn [map]; rewrite E, IH2; reflexivity|].
    intros m [<-|Hm]; [|exact (IH3 m Hm)].
    destruct I as (n0 & n1 & n2 & n3 & c0 & c1 & c2 & c3 & E1 & E2 & (r0 & _) & (r1 & _) & (r2 & _) & (r3 & _)).
    rewrite E1. split; [reflexivity|]. intros hf [<-|[<-|[<-|[<-|[]]]]]; assumption.
  Qed.

  Lemma news_ok_nth t Rl news k : news_ok a b s t Rl news -> k < length Rl ->
    cell_img a b s t (nth k Rl 0) (nth k (map snd news) []).
  Proof.
    intros H. revert k. induction H as [|ch n Rl' news' [E I] _ IH]; intros k Hk; [cbn in Hk; lia|].
    destruct k as [|k]; cbn [nth map]; [exact I|]. apply IH. cbn [length] in Hk. lia.
  Qed.

  (* ---------------------------------------------------------------- the call *)
  Definition collapse_result (s' : mesh) : Prop :=
    exists E F N,
      nv s' = nv s /\ edges s' = edges s ++ E /\ faces s' = faces s ++ F /\ cells s' = cells s ++ N /\
      vdel s' = flag_all [a] (vdel s) /\ deferred s' = true /\ tet_shape s' /\
      (forall c, c < nc s -> c_deleted s' c = c_deleted s c || memb c (star s a)) /\
      length N = length R /\
      (forall k, k < length R -> c_deleted s' (nc s + k) = false /\ cell_img a b s s' (nth k R 0) (nth k N [])) /\
      (NoDup (concat N) -> forall k hf, k < length R -> In hf (nth k N []) -> cell_of s' hf = Some (nc s + k)).

  Theorem collapse_edge_deferred_cells : exists s', collapse_edge s heh = Some (s', b) /\ collapse_result s'.
  Proof.
    destruct phase1 as (s1 & news & Q1 & L & CD1 & NO1).
    pose proof L as (G & B1 & _ & _ & K1 & _).
    pose proof (bu_inv2_deferred s1 B1) as D1.
    assert (Ha1 : a < nv s1) by (destruct G as (n & _); rewrite n; exact Ha_).
    pose proof (delete_vertex_flags s1 a (proj1 B1) D1 Ha1) as V. cbv zeta in V.
    set (s2 := delete_vertex a s1) in *. destruct V as (v1 & v2 & v3 & v4 & v5 & v6 & v7 & v8 & v9).
    assert (K2 : tet_shape s2) by (destruct K1 as [A C]; split; [rewrite v3; exact A | rewrite v4; exact C]).
    pose proof (L1_lens a b s s1 L) as (Le1 & Lf1 & Lc1).
    (* the images survive the deletion of a *)
    assert (M12 : forall vs n, img a b s1 vs n -> img a b s2 vs n).
    { intros vs n I. pose proof (img_not_at_a a b s s1 vs n Hab_ L I) as NA. destruct I as (r & d & ro).
      split; [unfold nf; rewrite v3; exact r|]. split.
      - unfold f_deleted. rewrite v7, nth_flag_rev by (rewrite Lf1; exact r). fold (f_deleted s1 (n / 2)). rewrite d. cbn [orb].
        destruct (memb (n / 2) (faces_at_edges s1 (edges_at_vertex s1 a))) eqn:M; [|reflexivity]. apply memb_In in M. contradiction.
      - rewrite (hf_vertices_same s1 s2 n v3 v2). exact ro. }
    pose proof (news_ok_mono s1 s2 R news M12 NO1) as NO2.
    destruct (news_ok_shape s2 R news NO2) as (LN & MF & SH).
    destruct (fold_readd_spec news s2 K2 SH) as (s3 & Q3 & K3 & SD & C3 & CD3 & IA).
    pose proof (bu_inv2_delete_vertex a s1 B1 Ha1) as B2. fold s2 in B2.
    assert (M23 : forall vs n, img a b s2 vs n -> img a b s3 vs n).
    { intros vs n (r & d & ro). split; [rewrite (same_defs_nf s2 s3 SD); exact r|].
      split; [rewrite (same_defs_f_deleted s2 s3 _ SD); exact d | rewrite (same_defs_hf_vertices s2 s3 n SD); exact ro]. }
    pose proof (news_ok_mono s2 s3 R news M23 NO2) as NO3.
    destruct SD as (d1 & d2 & d3 & d4 & d5 & d6 & d7).
    assert (D3 : deferred s3 = true) by congruence.
    exists (enable_deferred true s3). split.
    { unfold collapse_edge. destruct RDY as (B & _). rewrite (bu_inv2_deferred s B). cbn [negb]. cbv zeta. unfold bind.
      fold a. fold b. rewrite Q1. fold s2. rewrite Q3. reflexivity. }
    assert (M3' : forall vs n, img a b s3 vs n -> img a b (enable_deferred true s3) vs n).
    { intros vs n I. unfold enable_deferred. rewrite andb_false_r. exact I. }
    pose proof (news_ok_mono s3 _ R news M3' NO3) as NO4.
    destruct G as (g1 & g2 & (E & g3 & g4) & (F & g5 & g6) & g7 & _).
    pose proof (L1_lens a b s s L0_) as (Le0 & Lf0 & Lc0).
    exists E, F, (map snd news). unfold enable_deferred. rewrite andb_false_r.
    cbn [nv edges faces cells vdel deferred set_flags].
    split; [congruence|]. split; [congruence|]. split; [congruence|]. split; [rewrite C3, v4, g7; reflexivity|].
    split; [rewrite d4, v5, g2; reflexivity|]. split; [reflexivity|].
    split; [destruct K3 as [A C]; split; assumption|].
    assert (CDF : cdel s3 = flag_all (rev (star s1 a)) (flag_all R (cdel s)) ++ repeat false (length news)) by (rewrite CD3, v8, CD1; reflexivity).
    assert (LFL : length (flag_all (rev (star s1 a)) (flag_all R (cdel s))) = nc s) by (rewrite !flag_all_length; exact Lc0).
    split.
    { intros c Hc. unfold c_deleted at 1. cbn [cdel set_flags]. rewrite CDF, app_nth1 by (rewrite LFL; exact Hc).
      rewrite nth_flag_rev by (rewrite flag_all_length, Lc0; exact Hc). rewrite nth_flag_all by (rewrite Lc0; exact Hc).
      fold (c_deleted s c). destruct (c_deleted s c); [reflexivity|]. cbn [orb].
      pose proof (star_after_loop a b s Hab_ L0_ s1 R c L CD1) as SA.
      destruct (memb c (star s a)) eqn:MS.
      - destruct (memb c R) eqn:MR; [reflexivity|]. cbn [orb]. apply memb_In. apply SA. split; [apply memb_In; exact MS | reflexivity].
      - assert (MR : memb c R = false).
        { destruct (memb c R) eqn:MR; [|reflexivity]. apply memb_In in MR. rewrite R_filter in MR. apply filter_In in MR.
          destruct MR as [MR _]. apply memb_In in MR. congruence. }
        rewrite MR. cbn [orb]. destruct (memb c (star s1 a)) eqn:M1; [|reflexivity]. apply memb_In in M1. apply SA in M1.
        destruct M1 as [M1 _]. apply memb_In in M1. congruence. }
    split; [rewrite map_length; exact LN|].
    split.
    2:{ intros ND k hf Hk Hin. unfold cell_of. cbn [inc_cell set_flags]. rewrite (IA (bu_inv2_fbu s2 B2)).
        assert (NC2 : nc s2 = nc s) by (unfold nc; rewrite v4, g7; reflexivity). rewrite NC2.
        change (@nil nat) with (snd (0, @nil nat)) in Hin. rewrite map_nth in Hin.
        apply (inc_after_nth news (inc_cell s2) (nc s) k hf ND); [rewrite LN; exact Hk | exact Hin|].
        destruct (bu_inv2_lens s2 B2) as (_ & _ & LI & _). rewrite (LI (bu_inv2_fbu s2 B2)).
        apply half_lt. apply (proj2 (SH (nth k news (0, [])) (nth_In news (0, []) ltac:(rewrite LN; exact Hk)))). exact Hin. }
    intros k Hk. split.
    - unfold c_deleted. cbn [cdel set_flags]. rewrite CDF, app_nth2 by (rewrite LFL; lia). rewrite LFL.
      replace (nc s + k - nc s) with k by lia. apply nth_repeat.
    - pose proof (news_ok_nth _ R news k NO4 Hk) as X. unfold enable_deferred in X. rewrite andb_false_r in X. exact X.
  Qed.
End Main.
