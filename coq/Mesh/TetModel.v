(* Mesh/TetModel.v -- TetrahedralMeshTopologyKernel on top of the kernel model (Kernel/Ops.v):
   valence guards, reuse-or-create helpers, the get_cell_vertices family, the opposite maps, the tet
   vertex iterator and collapse_edge.  Line references: src/OpenVolumeMesh/Mesh/
   TetrahedralMeshTopologyKernel.cc unless noted.  Definitions only (proofs: Mesh/TetProofs.v).

   Conventions: a result of type [option X] used as "UB monad" is written [ub X]: [None] = for these
   arguments the C++ reads a vector out of range / dereferences an invalid handle (abort under
   _GLIBCXX_ASSERTIONS).  An *invalid handle returned* by the C++ is [Some None]. *)
From OVM Require Export Kernel.Ops.
Local Open Scope nat_scope.

Definition ub (A : Type) := option A.
Definition bind {A B} (x : ub A) (f : A -> ub B) : ub B := match x with Some a => f a | None => None end.
Notation "'do' x <- e ; k" := (bind e (fun x => k)) (at level 200, x pattern, e at level 100, k at level 200).
Definition rd {A} (l : list A) (i : nat) : ub A := nth_error l i.      (* checked vector read *)

(* ------------------------------------------------------------------ base-kernel queries used here *)

(* halfface_vertices(hf) / get_halfface_vertices(hf): one lap of HalfFaceVertexIter
   (Core/Iterators/HalfFaceVertexIter.cc:85-99): from-vertices of the halfface's halfedges *)
Definition hf_vertices (s : mesh) (hf : nat) : list nat := map (he_from s) (halfface s hf).

(* halfedge(h) for a possibly invalid handle: subidx(-1) = 1 and edge_handle(-1) = 0, so -1 reads as halfedge 1
   (the opposite of edge 0); only the handle -2 = opposite(-1) indexes out of range *)
Definition he_from_o (s : mesh) (o : option nat) : nat := he_from s (match o with Some h => h | None => 1 end).
Definition he_to_o (s : mesh) (o : option nat) : nat := he_to s (match o with Some h => h | None => 1 end).

(* halfface(h) for a possibly invalid handle: -1 % 2 != 0 and face_handle(-1) = 0, so -1 reads as halfface 1 *)
Definition halfface_o (s : mesh) (o : option nat) : list nat :=
  match o with Some h => halfface s h | None => halfface s 1 end.

(* find_halfedge, TopologyKernel.cc:1934-1946: voh_iter is invalid without vertex incidences *)
Definition find_halfedge (s : mesh) (a b : nat) : option nat :=
  if vbu s then find (fun h => he_to s h =? b) (out_at s a) else None.

(* find_halfface(halfedges), TopologyKernel.cc:2097-2115 (reads _hes[0], _hes[1]) *)
Definition find_halfface_hes (s : mesh) (he0 he1 : nat) : option nat :=
  if ebu s then find (fun hf => memb he1 (halfface s hf)) (hfs_at s he0) else None.

(* find_halfface(vertices), TopologyKernel.cc:1978-1996 (reads _vs[0..2]) *)
Definition find_halfface_vs (s : mesh) (v0 v1 v2 : nat) : option nat :=
  match find_halfedge s v0 v1 with
  | None => None
  | Some he0 =>
      match find_halfedge s v1 v2 with
      | None => None
      | Some he1 => find_halfface_hes s he0 he1
      end
  end.

(* next/prev_halfedge_in_halfface, TopologyKernel.cc:2119-2156: first occurrence, cyclic neighbour *)
Definition next_he_in_hf_list (hes : list nat) (he : nat) : option nat :=
  match find_index (Nat.eqb he) hes with
  | None => None
  | Some i => if S i =? length hes then nth_error hes 0 else nth_error hes (S i)
  end.
Definition prev_he_in_hf_list (hes : list nat) (he : nat) : option nat :=
  match find_index (Nat.eqb he) hes with
  | None => None
  | Some 0 => nth_error hes (length hes - 1)
  | Some (S i) => nth_error hes i
  end.
Definition next_he_in_hf (s : mesh) (he hf : nat) := next_he_in_hf_list (halfface s hf) he.
Definition prev_he_in_hf (s : mesh) (he hf : nat) := prev_he_in_hf_list (halfface s hf) he.

Definition full_bu (s : mesh) : bool := vbu s && ebu s && fbu s.

(* ------------------------------------------------------------------ valence guards (41-95) *)

Definition tet_add_face (s : mesh) (hes : list nat) (check : bool) : mesh * option nat :=
  if negb (length hes =? 3) then (s, None) else add_face s hes check.

Definition tet_add_face_v (s : mesh) (vs : list nat) : mesh * option nat :=
  if negb (length vs =? 3) then (s, None) else add_face_v s vs.

(* with topology check: exactly four distinct vertices over the four halffaces (std::set of the from-vertices) *)
Definition hfs_vertex_set (s : mesh) (hfs : list nat) : list nat := set_of_list (flat_map (hf_vertices s) hfs).

(* since the fix "checked tet add_cell must reject four triangles on fewer than four vertex triples" (.cc:106-118): the std::set of the
   four std::set<VertexHandle> of from-vertices has four elements; two vertex lists denote the same set iff each is included in the other *)
Definition same_vset (a b : list nat) : bool := forallb (fun x => memb x b) a && forallb (fun x => memb x a) b.
Fixpoint distinct_vsets (l : list (list nat)) : list (list nat) :=
  match l with
  | [] => []
  | x :: t => if existsb (same_vset x) t then distinct_vsets t else x :: distinct_vsets t
  end.
Definition hfs_triple_count (s : mesh) (hfs : list nat) : nat := length (distinct_vsets (map (hf_vertices s) hfs)).

(* both tests are pure and return the invalid handle: one guard *)
Definition tet_add_cell (s : mesh) (hfs : list nat) (check : bool) : mesh * option nat :=
  if negb (length hfs =? 4) then (s, None)
  else if negb (forallb (fun hf => length (face_at s (hf / 2)) =? 3) hfs) then (s, None)
  else if check && negb ((length (hfs_vertex_set s hfs) =? 4) && (hfs_triple_count s hfs =? 4)) then (s, None)
  else add_cell s hfs check.

(* ------------------------------------------------------------------ reuse-or-create (98-123) *)

Definition tet_add_halfedge (s : mesh) (a b : nat) : mesh * nat :=
  match find_halfedge s a b with
  | Some h => (s, h)
  | None => let '(s', e) := add_edge s a b false in (s', 2 * e)
  end.

(* result None = halfface_handle(InvalidFaceHandle, 0), i.e. the invalid handle -2 *)
Definition tet_add_halfface (s : mesh) (hes : list nat) (check : bool) : mesh * option nat :=
  match find_halfface_hes s (nth 0 hes 0) (nth 1 hes 0) with
  | Some hf => (s, Some hf)
  | None => let '(s', f) := tet_add_face s hes check in (s', option_map (fun f => 2 * f) f)
  end.

Definition tet_add_halfface_v (s : mesh) (v0 v1 v2 : nat) (check : bool) : mesh * option nat :=
  let '(s1, h0) := tet_add_halfedge s v0 v1 in
  let '(s2, h1) := tet_add_halfedge s1 v1 v2 in
  let '(s3, h2) := tet_add_halfedge s2 v2 v0 in
  tet_add_halfface s3 [h0; h1; h2] check.

(* ------------------------------------------------------------------ add_cell from 4 vertices *)

(* find the halfface on (a,b,c) or create the face with TopologyKernel::add_face(vertices) *)
Definition find_or_add_face_v (s : mesh) (a b c : nat) : mesh * nat :=
  match find_halfface_vs s a b c with
  | Some hf => (s, hf)
  | None => match add_face_v s [a; b; c] with
            | (s', Some f) => (s', 2 * f)
            | (s', None) => (s', 0)          (* unreachable: the list is not empty *)
            end
  end.

(* the "closed two-manifold" test of add_cell(vertices) (639-676): two std::sets *)
Definition closed_by_sets (s : mesh) (hfs : list nat) : bool :=
  let hes := concat (map (halfface s) hfs) in
  length (set_of_list hes) =? 2 * length (set_of_list (map (fun h => h / 2) hes)).

(* add_cell(const std::vector<VertexHandle>&, bool), 572-691.  The faces are found or created BEFORE
   the test, so a rejected call may still have added faces and edges. *)
Definition tet_add_cell_v (s : mesh) (vs : list nat) (check : bool) : mesh * option nat :=
  match vs with
  | [v0; v1; v2; v3] =>
      if negb (full_bu s) then (s, None) else
      let '(s1, hf0) := find_or_add_face_v s v0 v1 v2 in
      let '(s2, hf1) := find_or_add_face_v s1 v0 v2 v3 in
      let '(s3, hf2) := find_or_add_face_v s2 v0 v3 v1 in
      let '(s4, hf3) := find_or_add_face_v s3 v1 v3 v2 in
      let hfs := [hf0; hf1; hf2; hf3] in
      if check && negb (closed_by_sets s4 hfs) then (s4, None)
      else if check && fbu s4 && existsb (fun hf => match cell_of s4 hf with Some _ => true | None => false end) hfs
           then (s4, None)
      else add_cell s4 hfs false
  | _ => (s, None)
  end.

(* add_cell(vh0, vh1, vh2, vh3, check), 693-701.  Outer None = UB: an invalid halfface handle (-2)
   reaches valence(face_handle(.)) in add_cell(halffaces). *)
Definition tet_add_cell_4 (s : mesh) (v0 v1 v2 v3 : nat) (check : bool) : ub (mesh * option nat) :=
  let '(s1, a) := tet_add_halfface_v s v0 v1 v2 false in
  let '(s2, b) := tet_add_halfface_v s1 v0 v2 v3 false in
  let '(s3, c) := tet_add_halfface_v s2 v0 v3 v1 false in
  let '(s4, d) := tet_add_halfface_v s3 v1 v3 v2 false in
  match a, b, c, d with
  | Some a, Some b, Some c, Some d => Some (tet_add_cell s4 [a; b; c; d] check)
  | _, _, _, _ => None
  end.

(* ------------------------------------------------------------------ get_cell_vertices (486-548) *)

(* the search for the fourth vertex in another halfface of the cell (513-520); reads cell_vhs[0..2] lazily *)
Fixpoint gcv_scan (vs : list nat) (l : list nat) : ub (list nat) :=
  match l with
  | [] => Some []
  | w :: t =>
      do a <- rd vs 0;
      if a =? w then gcv_scan vs t else
      do b <- rd vs 1;
      if b =? w then gcv_scan vs t else
      do c <- rd vs 2;
      if c =? w then gcv_scan vs t else Some (vs ++ [w])
  end.

(* get_cell_vertices(HalfFaceHandle): Some [] is the empty vector the C++ returns for a boundary
   halfface or a cell with fewer than four vertices *)
Definition gcv_hf (s : mesh) (hf : nat) : ub (list nat) :=
  do oc <- rd (inc_cell s) hf;
  match oc with
  | None => Some []
  | Some ch =>
      do hfhs <- rd (cells s) ch;
      let vs := hf_vertices s hf in
      do h0 <- rd hfhs 0;
      do other <- (if negb (hf =? h0) then Some h0 else rd hfhs 1);
      gcv_scan vs (hf_vertices s other)
  end.

Definition gcv_c (s : mesh) (c : nat) : ub (list nat) :=
  do hfhs <- rd (cells s) c;
  do h0 <- rd hfhs 0;
  gcv_hf s h0.

Definition gcv_c_v (s : mesh) (c v : nat) : ub (list nat) :=
  do vhs <- gcv_c s c;
  do v1 <- rd vhs 1;
  if v1 =? v then (do v2 <- rd vhs 2; do v0 <- rd vhs 0; do v3 <- rd vhs 3; Some [v1; v2; v0; v3]) else
  do v2 <- rd vhs 2;
  if v2 =? v then (do v0 <- rd vhs 0; do v3 <- rd vhs 3; Some [v2; v0; v1; v3]) else
  do v3 <- rd vhs 3;
  if v3 =? v then (do v0 <- rd vhs 0; Some [v3; v1; v0; v2]) else
  Some vhs.

Definition gcv_hf_he (s : mesh) (hf he : nat) : ub (list nat) :=
  let vh0 := he_from s he in
  let vh1 := he_to s he in
  do vhs <- gcv_hf s hf;
  do v1 <- rd vhs 1;
  do vhs1 <- (if v1 =? vh0 then (do v2 <- rd vhs 2; do v0 <- rd vhs 0; do v3 <- rd vhs 3; Some [v1; v2; v0; v3]) else
              do v2 <- rd vhs 2;
              if v2 =? vh0 then (do v0 <- rd vhs 0; do v3 <- rd vhs 3; Some [v2; v0; v1; v3]) else Some vhs);
  (* 540-541: "ensure the 2nd vertex is vh1" re-assigns the first four entries to vhs *)
  do w2 <- rd vhs1 2;
  if w2 =? vh1 then Some (firstn 4 vhs1) else
  do w3 <- rd vhs1 3;
  if w3 =? vh1 then Some (firstn 4 vhs1) else Some vhs1.

(* 550-553; Some None = InvalidVertexHandle *)
Definition halfface_opposite_vertex (s : mesh) (hf : nat) : ub (option nat) :=
  do oc <- rd (inc_cell s) hf;
  match oc with
  | None => Some None
  | Some _ => do vhs <- gcv_hf s hf; do v <- rd vhs 3; Some (Some v)
  end.

(* 555-566 *)
Fixpoint voh_scan (s : mesh) (v : nat) (l : list nat) : ub (option nat) :=
  match l with
  | [] => Some None
  | hf :: t =>
      let vhs := hf_vertices s hf in
      do a <- rd vhs 0;
      if a =? v then voh_scan s v t else
      do b <- rd vhs 1;
      if b =? v then voh_scan s v t else
      do c <- rd vhs 2;
      if c =? v then voh_scan s v t else Some (Some hf)
  end.

Definition vertex_opposite_halfface (s : mesh) (c v : nat) : ub (option nat) :=
  do hfhs <- rd (cells s) c;
  voh_scan s v hfhs.

(* ------------------------------------------------------------------ TetVertexIter (TetrahedralMeshIterators.cc) *)

(* the constructor copies cell_vhs[0..3]; [tet_iter s c laps] is the sequence of handles produced by
   "for (it = tv_iter(c, laps); it.valid(); ++it)" (laps >= 1) *)
Definition tet_iter_vertices (s : mesh) (c : nat) : ub (list nat) :=
  do vhs <- gcv_c s c;
  do a <- rd vhs 0; do b <- rd vhs 1; do c <- rd vhs 2; do d <- rd vhs 3;
  Some [a; b; c; d].

Definition tet_iter (s : mesh) (c laps : nat) : ub (list nat) :=
  do vs <- tet_iter_vertices s c;
  Some (concat (repeat vs laps)).

(* ------------------------------------------------------------------ collapse_edge (311-399) *)

(* incident cells of a vertex, VertexCellIter.cc:44-90: sort + unique *)
Definition vertex_cells (s : mesh) (v : nat) : list nat :=
  if negb (full_bu s) then [] else
  set_of_list (flat_map (fun he => flat_map (fun hf => match nth_error (inc_cell s) hf with
                                                         | Some (Some c) => [c]
                                                         | _ => [] end)
                                            (hfs_at s he))
                        (out_at s v)).

Definition collapsing_cells (s : mesh) (he : nat) : list nat :=
  if ebu s then flat_map (fun hf => match cell_of s hf with Some c => [c] | None => [] end) (hfs_at s he)
  else [].

(* one halfedge of one halfface of one surviving cell: 350-358 *)
Definition collapse_he (a b : nat) (acc : mesh * list nat) (he : nat) : mesh * list nat :=
  let '(s, nhes) := acc in
  let f := he_from s he in
  let t := he_to s he in
  let ns := if f =? a then b else f in
  let ne := if t =? a then b else t in
  let '(s1, h') := tet_add_halfedge s ns ne in
  (swap_prop_elems KHE he h' s1, nhes ++ [h']).

(* one halfface of one surviving cell: 345-363; None = UB (fewer than three halfedges, or add_halfface
   returned the invalid handle) *)
Definition collapse_hf (a b : nat) (acc : ub (mesh * list nat)) (hf : nat) : ub (mesh * list nat) :=
  do (s, nhfs) <- acc;
  let hes := halfface s hf in
  do h0 <- rd hes 0; do h1 <- rd hes 1; do h2 <- rd hes 2;
  let '(s1, nhes) := fold_left (collapse_he a b) [h0; h1; h2] (s, []) in
  let '(s2, r) := tet_add_halfface s1 nhes false in
  do hfh <- r;
  Some (swap_prop_elems KHF hf hfh s2, nhfs ++ [hfh]).

Definition collapse_cell (a b : nat) (coll : list nat) (acc : ub (mesh * list (nat * list nat))) (ch : nat)
  : ub (mesh * list (nat * list nat)) :=
  do (s, news) <- acc;
  if memb ch coll then Some (s, news) else
  do hfhs <- rd (cells s) ch;
  do h0 <- rd hfhs 0; do h1 <- rd hfhs 1; do h2 <- rd hfhs 2; do h3 <- rd hfhs 3;
  do (s1, nhfs) <- fold_left (collapse_hf a b) [h0; h1; h2; h3] (Some (s, []));
  Some (delete_cell ch s1, news ++ [(ch, nhfs)]).

Definition collapse_readd (acc : ub mesh) (n : nat * list nat) : ub mesh :=
  do s <- acc;
  let '(s1, r) := tet_add_cell s (snd n) false in
  do c <- r;                                   (* swap_property_elements(ch, InvalidCellHandle) otherwise *)
  Some (swap_prop_elems KC (fst n) c s1).

Definition collapse_edge (s0 : mesh) (heh : nat) : ub (mesh * nat) :=
  let tmp := deferred s0 in
  let s := if negb tmp then enable_deferred true s0 else s0 in
  let a := he_from s heh in
  let b := he_to s heh in
  let coll := collapsing_cells s heh in
  let inc := vertex_cells s a in
  do (s1, news) <- fold_left (collapse_cell a b coll) inc (Some (s, []));
  let surviving :=
      if negb tmp then
        if fast s1 then (if b =? nv s1 - 1 then a else b)
        else (if a <? b then b - 1 else b)
      else b in
  let s2 := delete_vertex a s1 in
  do s3 <- fold_left collapse_readd news (Some s2);
  Some (enable_deferred tmp s3, surviving).

(* ------------------------------------------------------------------ the tet step function *)

Inductive top :=
| TK (o : op)                                   (* a base-kernel operation, under the tet guards *)
| TAddCellV (vs : list nat) (check : bool)
| TAddCell4 (a b c d : nat) (check : bool)
| THalfEdge (a b : nat)
| THalfFaceV (a b c : nat) (check : bool)
| THalfFace (hes : list nat) (check : bool)
| TCollapse (he : nat).

Inductive toutcome :=
| TOk (s : mesh) (r : option nat)
| TRejected
| TUB.

(* documented preconditions *)
Definition tet_valid (s : mesh) (o : top) : bool :=
  match o with
  | TK k => valid_op s k
  | TAddCellV vs _ => all_b (live_v s) vs
  | TAddCell4 a b c d _ => live_v s a && live_v s b && live_v s c && live_v s d
  | THalfEdge a b => live_v s a && live_v s b
  | THalfFaceV a b c _ => live_v s a && live_v s b && live_v s c
  | THalfFace hes _ => (2 <=? length hes) && all_b (live_he s) hes
  | TCollapse he => live_he s he && full_bu s
  end.

Definition tet_exec (s : mesh) (o : top) : ub (mesh * option nat) :=
  match o with
  | TK (AddFace hes check) => Some (tet_add_face s hes check)
  | TK (AddFaceV vs) => Some (tet_add_face_v s vs)
  | TK (AddCell hfs check) => Some (tet_add_cell s hfs check)
  | TK k => Some (exec s k)
  | TAddCellV vs check => Some (tet_add_cell_v s vs check)
  | TAddCell4 a b c d check => tet_add_cell_4 s a b c d check
  | THalfEdge a b => let '(s', h) := tet_add_halfedge s a b in Some (s', Some h)
  | THalfFaceV a b c check => Some (tet_add_halfface_v s a b c check)
  | THalfFace hes check => Some (tet_add_halfface s hes check)
  | TCollapse he => do (s', v) <- collapse_edge s he; Some (s', Some v)
  end.

Definition tet_step (s : mesh) (o : top) : toutcome :=
  if tet_valid s o then
    match tet_exec s o with
    | Some (s', r) => TOk s' r
    | None => TUB
    end
  else TRejected.

Definition tet_run_from (s : mesh) (ops : list top) : mesh :=
  fold_left (fun s o => match tet_step s o with TOk s' _ => s' | _ => s end) ops s.
Definition tet_run (ops : list top) : mesh := tet_run_from empty_mesh ops.
