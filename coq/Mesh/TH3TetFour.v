(* Mesh/TH3TetFour.v -- C15: add_cell(vh0, vh1, vh2, vh3, topologyCheck) of the tet kernel creates well-formed tetrahedra.

   The four halffaces come from add_halfface(v, v, v) (find_halfedge / add_edge, then find_halfface(halfedges) / add_face);
   the cell from the tet kernel's add_cell(halffaces, topologyCheck).  Under the hypotheses of Mesh/TH3TetMain.v (cre_inv s,
   tet_shape s, four different vertices below nv s) and vbu s = ebu s = fbu s = true:
     tet_add_cell_4_eq         the call never reads out of range and is add_cell(halffaces) of four triangles in a grown state
     tet_add_cell_4_accepted   it is ALWAYS accepted, checked or not (no incident-cell test in this overload), as cell nc s
     tet_add_cell_4_wf / _order / _order_fresh / _order_found / _queries   as for add_cell(vertices): the same rule for the
                               starting vertex (the halfface find_halfface(v0,v1,v2) finds in s, in its stored rotation)
   Proofs only. *)
From Coq Require Import ZArith Lia Bool Arith List ZifyNat ZifyBool.
From OVM Require Import Base.ListX Base.ListLemmas Kernel.State Kernel.Ops Kernel.Mirror Kernel.Recompute Kernel.Closure Kernel.CellCheck
                        Kernel.Construct Kernel.ExactInv Kernel.ExactRun Kernel2.ExactAddCell
                        Mesh.TetModel Mesh.TetProofs Mesh.HexModel Mesh.HexProofs Mesh.TH2CollapseBase Mesh.TH2CollapseLoop Mesh.TH2CollapseFold
                        Mesh.TH2HexChecked Mesh.TH2HexEight Mesh.TH2TopoWf Mesh.TH3Base Mesh.TH3TetFound Mesh.TH3TetCell Mesh.TH3TetMain
                        Mesh.TH3TetAccept Mesh.TH3TetFourBase.
Import ListNotations.
Ltac Zify.zify_post_hook ::= Z.div_mod_to_equations.
Local Open Scope nat_scope.

(* ================================================================== 1. the four add_halfface steps *)

Lemma grow_flags s t : grow s t -> vbu t = vbu s /\ ebu t = ebu s /\ fbu t = fbu s.
Proof. intros (_ & _ & _ & _ & _ & V & E & F & _). auto. Qed.

Lemma four_faces_4 s v0 v1 v2 v3 : cre_inv s -> tet_shape s -> vbu s = true -> ebu s = true ->
  NoDup [v0; v1; v2; v3] -> (forall v, In v [v0; v1; v2; v3] -> v < nv s) ->
  exists s4 hf0 hf1 hf2 hf3,
    (forall chk, tet_add_cell_4 s v0 v1 v2 v3 chk = Some (tet_add_cell s4 [hf0; hf1; hf2; hf3] chk)) /\
    grow s s4 /\ cre_inv s4 /\ tet_shape s4 /\
    tri_on s4 hf0 v0 v1 v2 /\ tri_on s4 hf1 v0 v2 v3 /\ tri_on s4 hf2 v0 v3 v1 /\ tri_on s4 hf3 v1 v3 v2 /\
    match find_halfface_vs s v0 v1 v2 with
    | Some hf => hf0 = hf /\ hf_vertices s4 hf0 = hf_vertices s hf
    | None => hf0 = 2 * nf s /\ hf_vertices s4 hf0 = [v0; v1; v2]
    end.
Proof.
  intros C K V E ND R.
  assert (R0 : v0 < nv s) by (apply R; cbn [In]; auto). assert (R1 : v1 < nv s) by (apply R; cbn [In]; auto).
  assert (R2 : v2 < nv s) by (apply R; cbn [In]; auto). assert (R3 : v3 < nv s) by (apply R; cbn [In]; auto 6).
  destruct (nodup4_neq v0 v1 v2 v3 ND) as (n01 & n02 & n03 & n12 & n13 & n23).
  assert (n31 : v3 <> v1) by congruence. assert (n32 : v3 <> v2) by congruence.
  pose proof (tet_add_halfface_v_cre s v0 v1 v2 C K V E R0 R1 R2 n01 n12 n02) as S1. cbv zeta in S1.
  destruct (tet_add_halfface_v s v0 v1 v2 false) as [s1 a] eqn:E1. cbn [fst snd] in S1. destruct S1 as (hf0 & -> & G1 & C1 & K1 & T1 & F1).
  pose proof (grow_nv s s1 G1) as NV1. destruct (grow_flags s s1 G1) as (Vb1 & Eb1 & _).
  pose proof (tet_add_halfface_v_cre s1 v0 v2 v3 C1 K1 ltac:(congruence) ltac:(congruence) ltac:(lia) ltac:(lia) ltac:(lia) n02 n23 n03) as S2. cbv zeta in S2.
  destruct (tet_add_halfface_v s1 v0 v2 v3 false) as [s2 b] eqn:E2. cbn [fst snd] in S2. destruct S2 as (hf1 & -> & G2 & C2 & K2 & T2 & _).
  pose proof (grow_nv s1 s2 G2) as NV2. destruct (grow_flags s1 s2 G2) as (Vb2 & Eb2 & _).
  pose proof (tet_add_halfface_v_cre s2 v0 v3 v1 C2 K2 ltac:(congruence) ltac:(congruence) ltac:(lia) ltac:(lia) ltac:(lia) n03 n31 n01) as S3. cbv zeta in S3.
  destruct (tet_add_halfface_v s2 v0 v3 v1 false) as [s3 c] eqn:E3. cbn [fst snd] in S3. destruct S3 as (hf2 & -> & G3 & C3 & K3 & T3 & _).
  pose proof (grow_nv s2 s3 G3) as NV3. destruct (grow_flags s2 s3 G3) as (Vb3 & Eb3 & _).
  pose proof (tet_add_halfface_v_cre s3 v1 v3 v2 C3 K3 ltac:(congruence) ltac:(congruence) ltac:(lia) ltac:(lia) ltac:(lia) n13 n32 n12) as S4. cbv zeta in S4.
  destruct (tet_add_halfface_v s3 v1 v3 v2 false) as [s4 d] eqn:E4. cbn [fst snd] in S4. destruct S4 as (hf3 & -> & G4 & C4 & K4 & T4 & _).
  pose proof (grow_trans s1 s2 s4 G2 (grow_trans s2 s3 s4 G3 G4)) as G14.
  exists s4, hf0, hf1, hf2, hf3. split.
  { intros chk. unfold tet_add_cell_4. rewrite E1. cbv beta iota. rewrite E2. cbv beta iota. rewrite E3. cbv beta iota. rewrite E4. reflexivity. }
  split; [exact (grow_trans s s1 s4 G1 G14)|]. split; [exact C4|]. split; [exact K4|].
  split; [exact (tri_on_grow s1 s4 hf0 _ _ _ C1 G14 T1)|].
  split; [exact (tri_on_grow s2 s4 hf1 _ _ _ C2 (grow_trans s2 s3 s4 G3 G4) T2)|].
  split; [exact (tri_on_grow s3 s4 hf2 _ _ _ C3 G4 T3)|]. split; [exact T4|].
  pose proof T1 as (r1 & d1 & _). destruct (live_hf_grow s1 s4 hf0 (cre_bu s1 C1) G14 r1 d1) as (HV & _).
  destruct (find_halfface_vs s v0 v1 v2) as [hf|].
  - injection F1 as <- <-. split; [reflexivity | exact HV].
  - destruct F1 as (Eh & V1). split; [exact Eh|]. rewrite HV. exact V1.
Qed.

(* ================================================================== 2. the tet kernel's add_cell(halffaces) on the four triangles *)

Lemma add_cell_any_check s l chk s' c : add_cell s l chk = (s', Some c) -> add_cell s l false = (s', Some c).
Proof. unfold add_cell. destruct (chk && negb (cell_check s l)); [discriminate|]. cbn [andb]. tauto. Qed.

Lemma tet_add_cell_accepted_base s l chk s' c : tet_add_cell s l chk = (s', Some c) -> add_cell s l false = (s', Some c).
Proof.
  unfold tet_add_cell. destruct (negb (length l =? 4)); [discriminate|]. destruct (negb (forallb _ l)); [discriminate|].
  destruct (chk && negb (_ && _)); [discriminate|]. apply add_cell_any_check.
Qed.

(* pairwise different vertex sets: nothing is dropped by distinct_vsets *)
Lemma distinct_vsets_full (l : list (list nat)) :
  (forall i j, i < j -> j < length l -> same_vset (nth i l []) (nth j l []) = false) -> length (distinct_vsets l) = length l.
Proof.
  induction l as [|x t IH]; intros H; [reflexivity|]. cbn [distinct_vsets].
  assert (E : existsb (same_vset x) t = false).
  { destruct (existsb (same_vset x) t) eqn:X; [|reflexivity]. exfalso. apply existsb_exists in X. destruct X as (y & Hy & Sv).
    destruct (In_nth t y [] Hy) as (j & Hj & <-). pose proof (H 0 (S j) ltac:(lia) ltac:(cbn [length]; lia)) as Y. cbn [nth] in Y. congruence. }
  rewrite E. cbn [length]. f_equal. apply IH. intros i j Hij Hj. exact (H (S i) (S j) ltac:(lia) ltac:(cbn [length]; lia)).
Qed.

Section Guards.
  Variables (t : mesh) (v0 v1 v2 v3 hf0 hf1 hf2 hf3 : nat).
  Hypothesis C : cre_inv t.
  Hypothesis ND : NoDup [v0; v1; v2; v3].
  Hypothesis T0 : tri_on t hf0 v0 v1 v2.
  Hypothesis T1 : tri_on t hf1 v0 v2 v3.
  Hypothesis T2 : tri_on t hf2 v0 v3 v1.
  Hypothesis T3 : tri_on t hf3 v1 v3 v2.

  Lemma asm_vertex_set : length (hfs_vertex_set t [hf0; hf1; hf2; hf3]) = 4.
  Proof.
    assert (E : hfs_vertex_set t [hf0; hf1; hf2; hf3] = set_of_list [v0; v1; v2; v3]).
    { unfold hfs_vertex_set. apply set_of_list_ext. intros v. rewrite in_flat_map. split.
      - intros (hf & Hhf & Hv). destruct (asm_face t v0 v1 v2 v3 hf0 hf1 hf2 hf3 ND T0 T1 T2 T3 hf Hhf) as (_ & _ & I & _). exact (I v Hv).
      - cbn [In]. intros [<-|[<-|[<-|[<-|[]]]]].
        + exists hf0. split; [auto|]. apply (tri_on_In t hf0 _ _ _ _ T0). auto.
        + exists hf0. split; [auto|]. apply (tri_on_In t hf0 _ _ _ _ T0). auto.
        + exists hf0. split; [auto|]. apply (tri_on_In t hf0 _ _ _ _ T0). auto.
        + exists hf1. split; [auto|]. apply (tri_on_In t hf1 _ _ _ _ T1). auto. }
    rewrite E. exact (set_of_list_length_NoDup _ ND).
  Qed.

  (* the four vertex triples are different sets (the guard added by the fix 814053a) *)
  Lemma asm_triple_count : hfs_triple_count t [hf0; hf1; hf2; hf3] = 4.
  Proof.
    assert (SV : forall hf hf', In hf [hf0; hf1; hf2; hf3] -> In hf' [hf0; hf1; hf2; hf3] -> hf <> hf' ->
                 same_vset (hf_vertices t hf) (hf_vertices t hf') = false).
    { intros hf hf' H H' N. destruct (same_vset (hf_vertices t hf) (hf_vertices t hf')) eqn:S; [|reflexivity]. exfalso.
      apply same_vset_spec in S. exact (asm_distinct t v0 v1 v2 v3 hf0 hf1 hf2 hf3 ND T0 T1 T2 T3 hf hf' H H' N (proj2 S)). }
    destruct (nodup4_neq hf0 hf1 hf2 hf3 (asm_nodup t v0 v1 v2 v3 hf0 hf1 hf2 hf3 ND T0 T1 T2 T3)) as (d01 & d02 & d03 & d12 & d13 & d23).
    unfold hfs_triple_count. cbn [map distinct_vsets existsb].
    rewrite (SV hf0 hf1), (SV hf0 hf2), (SV hf0 hf3), (SV hf1 hf2), (SV hf1 hf3), (SV hf2 hf3) by (cbn [In]; auto 6). reflexivity.
  Qed.

  (* the guards of the tet kernel's add_cell(halffaces) and the base kernel's topology check all pass *)
  Lemma tet_add_cell_on_four chk : tet_add_cell t [hf0; hf1; hf2; hf3] chk = add_cell t [hf0; hf1; hf2; hf3] false.
  Proof.
    unfold tet_add_cell. rewrite asm_vertex_set, asm_triple_count. cbn [length Nat.eqb negb forallb].
    rewrite (tri_on_face3 t hf0 _ _ _ T0), (tri_on_face3 t hf1 _ _ _ T1), (tri_on_face3 t hf2 _ _ _ T2), (tri_on_face3 t hf3 _ _ _ T3).
    cbn [Nat.eqb andb negb]. rewrite andb_false_r.
    unfold add_cell. rewrite (asm_cell_check t v0 v1 v2 v3 hf0 hf1 hf2 hf3 C ND T0 T1 T2 T3). cbn [negb]. rewrite andb_false_r. reflexivity.
  Qed.
End Guards.

(* ================================================================== 3. the theorems *)

Theorem tet_add_cell_4_accepted s v0 v1 v2 v3 chk : cre_inv s -> tet_shape s -> vbu s = true -> ebu s = true ->
  NoDup [v0; v1; v2; v3] -> (forall v, In v [v0; v1; v2; v3] -> v < nv s) ->
  exists s', tet_add_cell_4 s v0 v1 v2 v3 chk = Some (s', Some (nc s)).
Proof.
  intros C K V E ND R. destruct (four_faces_4 s v0 v1 v2 v3 C K V E ND R) as (s4 & hf0 & hf1 & hf2 & hf3 & Q & G & C4 & _ & T0 & T1 & T2 & T3 & _).
  rewrite (Q chk), (tet_add_cell_on_four s4 v0 v1 v2 v3 hf0 hf1 hf2 hf3 C4 ND T0 T1 T2 T3 chk).
  destruct (add_cell_cases s4 [hf0; hf1; hf2; hf3] false) as [X|(s' & X & _)].
  - exfalso. unfold add_cell in X. cbn [andb] in X. destruct (append_cell s4 [hf0; hf1; hf2; hf3]). discriminate.
  - destruct (bu_lens s (cre_bu s C)) as [Le Lf]. rewrite (grow_nc s s4 G) in X. exists s'. rewrite X. reflexivity.
Qed.

Section Created4.
  Variables (s : mesh) (v0 v1 v2 v3 : nat) (chk : bool) (s' : mesh) (c : nat).
  Hypothesis C : cre_inv s.
  Hypothesis K : tet_shape s.
  Hypothesis FB : full_bu s = true.
  Hypothesis ND : NoDup [v0; v1; v2; v3].
  Hypothesis R : forall v, In v [v0; v1; v2; v3] -> v < nv s.
  Hypothesis A : tet_add_cell_4 s v0 v1 v2 v3 chk = Some (s', Some c).

  Lemma created_core_4 : created_at s v0 v1 v2 v3 s' c.
  Proof.
    destruct (full_bu_flags s FB) as (V & E & Fb).
    destruct (four_faces_4 s v0 v1 v2 v3 C K V E ND R) as (s4 & hf0 & hf1 & hf2 & hf3 & Q & G & C4 & K4 & T0 & T1 & T2 & T3 & F).
    rewrite (Q chk) in A. injection A as A. apply tet_add_cell_accepted_base in A.
    assert (Fb4 : fbu s4 = true) by (destruct (grow_flags s s4 G) as (_ & _ & X); congruence).
    exact (created_at_intro s v0 v1 v2 v3 s4 hf0 hf1 hf2 hf3 s' c C ND G C4 K4 Fb4 T0 T1 T2 T3 F A).
  Qed.

  Theorem tet_add_cell_4_wf :
    c = nc s /\ c < nc s' /\ nc s' = S (nc s) /\ tet_cell_ok_b s' c = true /\ tet_cell_inc_b s' c = true /\
    tet_wf s' c (cell_at s' c) [v0; v1; v2; v3] /\ nth_error (cells s') c = Some (cell_at s' c).
  Proof. exact (created_wf s v0 v1 v2 v3 s' c created_core_4). Qed.

  Theorem tet_add_cell_4_order : exists x y z,
    TH2CollapseBase.rot3 [v0; v1; v2] [x; y; z] /\ hf_vertices s' (nth 0 (cell_at s' c) 0) = [x; y; z] /\ gcv_c s' c = Some [x; y; z; v3] /\
    match find_halfface_vs s v0 v1 v2 with
    | Some hf => nth 0 (cell_at s' c) 0 = hf /\ hf_vertices s hf = [x; y; z]
    | None => nth 0 (cell_at s' c) 0 = 2 * nf s /\ [x; y; z] = [v0; v1; v2]
    end.
  Proof. exact (created_order s v0 v1 v2 v3 s' c created_core_4). Qed.

  Corollary tet_add_cell_4_order_fresh : find_halfface_vs s v0 v1 v2 = None -> gcv_c s' c = Some [v0; v1; v2; v3].
  Proof. exact (created_order_fresh s v0 v1 v2 v3 s' c created_core_4). Qed.

  Corollary tet_add_cell_4_order_found hf : find_halfface_vs s v0 v1 v2 = Some hf -> gcv_c s' c = Some (hf_vertices s hf ++ [v3]).
  Proof. exact (created_order_found s v0 v1 v2 v3 s' c created_core_4 hf). Qed.

  Theorem tet_add_cell_4_queries :
    (forall hf, In hf (cell_at s' c) -> exists x y z w, hf_vertices s' hf = [x; y; z] /\ In w [v0; v1; v2; v3] /\ ~ In w [x; y; z] /\
        gcv_hf s' hf = Some [x; y; z; w] /\ halfface_opposite_vertex s' hf = Some (Some w) /\
        vertex_opposite_halfface s' c w = Some (Some hf)) /\
    (forall v, In v [v0; v1; v2; v3] -> exists hf, In hf (cell_at s' c) /\ vertex_opposite_halfface s' c v = Some (Some hf) /\
        ~ In v (hf_vertices s' hf) /\ halfface_opposite_vertex s' hf = Some (Some v)) /\
    (exists x y z, gcv_c s' c = Some [x; y; z; v3] /\ NoDup [x; y; z; v3] /\
        (forall laps, tet_iter s' c laps = Some (concat (repeat [x; y; z; v3] laps))) /\
        gcv_c_v s' c x = Some [x; y; z; v3] /\ gcv_c_v s' c y = Some [y; z; x; v3] /\ gcv_c_v s' c z = Some [z; x; y; v3] /\
        gcv_c_v s' c v3 = Some [v3; y; x; z]).
  Proof. exact (created_queries s v0 v1 v2 v3 s' c ND created_core_4). Qed.
End Created4.

(* ================================================================== 4. non-vacuity and the role of the incidences *)

(* the third of three tets around an edge, through the four-handle form with topology check: two faces found *)
Example tet_add_cell_4_glued_on_two_faces :
  let s := tet_run [TK (AddVertices 6); TAddCellV [0; 1; 2; 3] true; TAddCell4 1 2 3 4 true] in
  full_bu s = true /\ find_halfface_vs s 2 1 0 = Some 1 /\ hf_vertices s 1 = [0; 2; 1] /\ find_halfface_vs s 2 4 1 = Some 11 /\
  exists s', tet_add_cell_4 s 2 1 0 4 true = Some (s', Some 2) /\ cell_at s' 2 = [1; 14; 11; 16] /\ gcv_c s' 2 = Some [0; 2; 1; 4] /\
    tet_cell_ok_b s' 2 = true /\ tet_cell_inc_b s' 2 = true.
Proof. vm_compute. repeat split. eexists. repeat split. Qed.

(* without the vertex incidences add_halfedge cannot look halfedges up: it asks add_edge, which returns the existing edge
   (0,1) for the request 1->0, and the halfedge handle 2 * e runs the WRONG way.  The second tet of a pair glued on a face is
   then built on halffaces that are not triangles on the requested vertices *)
Theorem tet_add_cell_4_wf_without_vbu_refuted :
  exists s v0 v1 v2 v3 s' c, vbu s = false /\ faces_loop s /\ face_edges_live s /\ no_par s /\ tet_shape s /\ NoDup [v0; v1; v2; v3] /\
    (forall v, In v [v0; v1; v2; v3] -> v < nv s) /\
    tet_add_cell_4 s v0 v1 v2 v3 false = Some (s', Some c) /\ tet_cell_ok_b s' c = false.
Proof.
  exists (tet_run [TK (AddVertices 5); TAddCellV [0; 1; 2; 3] true; TK (EnableVBU false)]), 1, 0, 2, 4,
         (match tet_add_cell_4 (tet_run [TK (AddVertices 5); TAddCellV [0; 1; 2; 3] true; TK (EnableVBU false)]) 1 0 2 4 false with
          | Some (s', _) => s' | None => empty_mesh end), 1.
  split; [vm_compute; reflexivity|]. split; [apply faces_loop_b_sound; vm_compute; reflexivity|].
  split; [apply face_edges_live_b_sound; vm_compute; reflexivity|]. split; [apply no_par_b_sound; vm_compute; reflexivity|].
  split; [split; vm_compute; repeat constructor|]. split; [repeat constructor; cbn [In]; intuition discriminate|].
  split; [intros v Hv; apply Nat.ltb_lt; revert v Hv; apply forallb_forall; vm_compute; reflexivity|].
  vm_compute. split; reflexivity.
Qed.

Print Assumptions tet_add_cell_4_accepted.
Print Assumptions tet_add_cell_4_wf.
Print Assumptions tet_add_cell_4_order.
Print Assumptions tet_add_cell_4_order_fresh.
Print Assumptions tet_add_cell_4_order_found.
Print Assumptions tet_add_cell_4_queries.
Print Assumptions tet_add_cell_4_glued_on_two_faces.
Print Assumptions tet_add_cell_4_wf_without_vbu_refuted.
