(* Mesh/TH2HexBase.v -- list-level toolkit for the hexahedral cube-pattern proofs (C16):
   quads as 4-element lists up to rotation (rot4), next/prev_halfedge_in_halfface on duplicate-free quads, closed loops
   on quads, a boolean NoDup, pairwise inequalities of eight distinct values, the specification of disjointb, and
   "a non-empty halfface of a hex-shaped state has four halfedges".  Proofs only. *)
From Coq Require Import ZArith Lia Bool Arith List ZifyNat ZifyBool Permutation.
From OVM Require Import Base.ListX Base.ListLemmas Kernel.State Kernel.Ops Kernel.Mirror Kernel2.LookupModel Kernel2.ListAux
                        Kernel2.AdjacentProofs Mesh.TetModel Mesh.HexModel Mesh.HexIterModel Mesh.TetProofs Mesh.HexProofs.
Import ListNotations.
Ltac Zify.zify_post_hook ::= Z.div_mod_to_equations.
Local Open Scope nat_scope.

(* ================================================================== 1. four-element lists up to rotation *)

Inductive rot4 {A : Type} : list A -> list A -> Prop :=
| rot4_0 a b c d : rot4 [a; b; c; d] [a; b; c; d]
| rot4_1 a b c d : rot4 [a; b; c; d] [b; c; d; a]
| rot4_2 a b c d : rot4 [a; b; c; d] [c; d; a; b]
| rot4_3 a b c d : rot4 [a; b; c; d] [d; a; b; c].

Lemma rot4_refl4 {A} (a b c d : A) : rot4 [a; b; c; d] [a; b; c; d].
Proof. constructor. Qed.

Lemma rot4_sym {A} (S R : list A) : rot4 S R -> rot4 R S.
Proof. intros H. destruct H; constructor. Qed.

Lemma rot4_trans {A} (S R T : list A) : rot4 S R -> rot4 R T -> rot4 S T.
Proof. intros H1 H2. destruct H1; inversion H2; subst; constructor. Qed.

Lemma rot4_map {A B} (f : A -> B) (S R : list A) : rot4 S R -> rot4 (map f S) (map f R).
Proof. intros H. destruct H; cbn [map]; constructor. Qed.

Lemma rot4_length_l {A} (S R : list A) : rot4 S R -> length S = 4.
Proof. intros H. destruct H; reflexivity. Qed.

Lemma rot4_length_r {A} (S R : list A) : rot4 S R -> length R = 4.
Proof. intros H. destruct H; reflexivity. Qed.

Lemma rot4_perm {A} (S R : list A) : rot4 S R -> Permutation S R.
Proof.
  intros H. destruct H.
  - apply Permutation_refl.
  - change (Permutation ([a] ++ [b; c; d]) ([b; c; d] ++ [a])). apply Permutation_app_comm.
  - change (Permutation ([a; b] ++ [c; d]) ([c; d] ++ [a; b])). apply Permutation_app_comm.
  - change (Permutation ([a; b; c] ++ [d]) ([d] ++ [a; b; c])). apply Permutation_app_comm.
Qed.

Lemma rot4_In {A} (S R : list A) x : rot4 S R -> (In x S <-> In x R).
Proof.
  intros H. split; intros Hx.
  - eapply Permutation_in; [apply rot4_perm; exact H | exact Hx].
  - eapply Permutation_in; [apply Permutation_sym, rot4_perm; exact H | exact Hx].
Qed.

Lemma rot4_NoDup {A} (S R : list A) : rot4 S R -> NoDup S -> NoDup R.
Proof. intros H. apply Permutation_NoDup. apply rot4_perm. exact H. Qed.

Lemma len4_quad {A} (S : list A) : length S = 4 -> exists a b c d, S = [a; b; c; d].
Proof.
  destruct S as [|a [|b [|c [|d [|x t]]]]]; cbn [length]; intros H; try discriminate.
  exists a, b, c, d. reflexivity.
Qed.

(* every element of a quad starts one of its rotations *)
Lemma rot4_start {A} (S : list A) e : length S = 4 -> In e S -> exists e1 e2 e3, rot4 S [e; e1; e2; e3].
Proof.
  intros L Hin. destruct (len4_quad S L) as (a&b&c&d&->).
  destruct Hin as [<-|[<-|[<-|[<-|[]]]]].
  - exists b, c, d. constructor.
  - exists c, d, a. constructor.
  - exists d, a, b. constructor.
  - exists a, b, c. constructor.
Qed.

(* ================================================================== 2. next / prev on a duplicate-free quad *)

Lemma next4 a b c d : NoDup [a; b; c; d] ->
  next_he_in_hf_list [a; b; c; d] a = Some b /\ next_he_in_hf_list [a; b; c; d] b = Some c /\
  next_he_in_hf_list [a; b; c; d] c = Some d /\ next_he_in_hf_list [a; b; c; d] d = Some a.
Proof.
  intros ND. unfold next_he_in_hf_list.
  pose proof (find_index_nodup [a; b; c; d] 0 ND ltac:(cbn [length]; lia)) as X0.
  pose proof (find_index_nodup [a; b; c; d] 1 ND ltac:(cbn [length]; lia)) as X1.
  pose proof (find_index_nodup [a; b; c; d] 2 ND ltac:(cbn [length]; lia)) as X2.
  pose proof (find_index_nodup [a; b; c; d] 3 ND ltac:(cbn [length]; lia)) as X3.
  cbn [nth] in X0, X1, X2, X3. rewrite X0, X1, X2, X3. repeat split; reflexivity.
Qed.

Lemma prev4 a b c d : NoDup [a; b; c; d] ->
  prev_he_in_hf_list [a; b; c; d] a = Some d /\ prev_he_in_hf_list [a; b; c; d] b = Some a /\
  prev_he_in_hf_list [a; b; c; d] c = Some b /\ prev_he_in_hf_list [a; b; c; d] d = Some c.
Proof.
  intros ND. unfold prev_he_in_hf_list.
  pose proof (find_index_nodup [a; b; c; d] 0 ND ltac:(cbn [length]; lia)) as X0.
  pose proof (find_index_nodup [a; b; c; d] 1 ND ltac:(cbn [length]; lia)) as X1.
  pose proof (find_index_nodup [a; b; c; d] 2 ND ltac:(cbn [length]; lia)) as X2.
  pose proof (find_index_nodup [a; b; c; d] 3 ND ltac:(cbn [length]; lia)) as X3.
  cbn [nth] in X0, X1, X2, X3. rewrite X0, X1, X2, X3. repeat split; reflexivity.
Qed.

(* the cyclic successor / predecessor does not depend on where the stored list starts *)
Lemma rot4_next S e e1 e2 e3 : rot4 S [e; e1; e2; e3] -> NoDup S ->
  next_he_in_hf_list S e = Some e1 /\ next_he_in_hf_list S e1 = Some e2 /\
  next_he_in_hf_list S e2 = Some e3 /\ next_he_in_hf_list S e3 = Some e.
Proof.
  intros R ND. inversion R; subst; destruct (next4 _ _ _ _ ND) as (n0&n1&n2&n3); repeat split; assumption.
Qed.

Lemma rot4_prev S e e1 e2 e3 : rot4 S [e; e1; e2; e3] -> NoDup S ->
  prev_he_in_hf_list S e = Some e3 /\ prev_he_in_hf_list S e1 = Some e /\
  prev_he_in_hf_list S e2 = Some e1 /\ prev_he_in_hf_list S e3 = Some e2.
Proof.
  intros R ND. inversion R; subst; destruct (prev4 _ _ _ _ ND) as (n0&n1&n2&n3); repeat split; assumption.
Qed.

(* ================================================================== 3. closed loops on quads *)

Lemma loop4 s a b c d : loop_ok s [a; b; c; d] = true <->
  he_to s a = he_from s b /\ he_to s b = he_from s c /\ he_to s c = he_from s d /\ he_to s d = he_from s a.
Proof. cbn [loop_ok chain_ok]. rewrite !andb_true_iff, !Nat.eqb_eq. tauto. Qed.

Lemma loop_rot4 s S R : rot4 S R -> loop_ok s S = true -> loop_ok s R = true.
Proof. intros H. destruct H; rewrite !loop4; tauto. Qed.

Lemma loop_rot4_eqs s S e e1 e2 e3 : rot4 S [e; e1; e2; e3] -> loop_ok s S = true ->
  he_to s e = he_from s e1 /\ he_to s e1 = he_from s e2 /\ he_to s e2 = he_from s e3 /\ he_to s e3 = he_from s e.
Proof. intros R L. apply loop4. exact (loop_rot4 s _ _ R L). Qed.

(* in a closed loop every halfedge ends at a vertex of the loop *)
Lemma to_in_vertices s h e : loop_ok s (halfface s h) = true -> In e (halfface s h) -> In (he_to s e) (hf_vertices s h).
Proof.
  intros L Hin. apply loop_ok_spec in L. destruct L as [_ L].
  destruct (In_nth _ _ 0 Hin) as (i&Hi&<-). rewrite (L i Hi). unfold hf_vertices. apply in_map. apply nth_In.
  destruct (Nat.eqb_spec (S i) (length (halfface s h))); lia.
Qed.

Lemma from_in_vertices s h e : In e (halfface s h) -> In (he_from s e) (hf_vertices s h).
Proof. intros H. unfold hf_vertices. apply in_map. exact H. Qed.

(* ================================================================== 4. boolean NoDup, eight distinct values *)

Fixpoint nodup_b (l : list nat) : bool :=
  match l with
  | [] => true
  | x :: t => negb (memb x t) && nodup_b t
  end.

Lemma nodup_b_spec l : nodup_b l = true <-> NoDup l.
Proof.
  induction l as [|x t IH]; cbn [nodup_b].
  - split; [constructor | reflexivity].
  - rewrite andb_true_iff, negb_true_iff, IH, NoDup_cons_iff, Kernel2.ListAux.memb_false. tauto.
Qed.

Lemma nodup8_neq (a0 a1 a2 a3 a4 a5 a6 a7 : nat) : NoDup [a0; a1; a2; a3; a4; a5; a6; a7] ->
  (a0 <> a1 /\ a0 <> a2 /\ a0 <> a3 /\ a0 <> a4 /\ a0 <> a5 /\ a0 <> a6 /\ a0 <> a7) /\
  (a1 <> a2 /\ a1 <> a3 /\ a1 <> a4 /\ a1 <> a5 /\ a1 <> a6 /\ a1 <> a7) /\
  (a2 <> a3 /\ a2 <> a4 /\ a2 <> a5 /\ a2 <> a6 /\ a2 <> a7) /\
  (a3 <> a4 /\ a3 <> a5 /\ a3 <> a6 /\ a3 <> a7) /\
  (a4 <> a5 /\ a4 <> a6 /\ a4 <> a7) /\
  (a5 <> a6 /\ a5 <> a7) /\
  a6 <> a7.
Proof.
  intros H.
  apply NoDup_cons_iff in H. destruct H as [N0 H]. apply NoDup_cons_iff in H. destruct H as [N1 H].
  apply NoDup_cons_iff in H. destruct H as [N2 H]. apply NoDup_cons_iff in H. destruct H as [N3 H].
  apply NoDup_cons_iff in H. destruct H as [N4 H]. apply NoDup_cons_iff in H. destruct H as [N5 H].
  apply NoDup_cons_iff in H. destruct H as [N6 _].
  cbn [In] in N0, N1, N2, N3, N4, N5, N6.
  repeat split; intros E;
    first [solve [apply N0; rewrite E; auto 8] | solve [apply N1; rewrite E; auto 8] | solve [apply N2; rewrite E; auto 8]
          | solve [apply N3; rewrite E; auto 8] | solve [apply N4; rewrite E; auto 8] | solve [apply N5; rewrite E; auto 8]
          | solve [apply N6; rewrite E; auto 8]].
Qed.

Lemma nodup4_neq (a0 a1 a2 a3 : nat) : NoDup [a0; a1; a2; a3] ->
  a0 <> a1 /\ a0 <> a2 /\ a0 <> a3 /\ a1 <> a2 /\ a1 <> a3 /\ a2 <> a3.
Proof.
  intros H.
  apply NoDup_cons_iff in H. destruct H as [N0 H]. apply NoDup_cons_iff in H. destruct H as [N1 H].
  apply NoDup_cons_iff in H. destruct H as [N2 _].
  cbn [In] in N0, N1, N2.
  repeat split; intros E;
    first [solve [apply N0; rewrite E; auto 8] | solve [apply N1; rewrite E; auto 8] | solve [apply N2; rewrite E; auto 8]].
Qed.

(* ================================================================== 5. disjointb *)

Lemma disjointb_spec a b : disjointb a b = true <-> forall x, In x a -> ~ In x b.
Proof.
  unfold disjointb. rewrite forallb_forall. split; intros H x Hx.
  - specialize (H x Hx). apply negb_true_iff in H. apply Kernel2.ListAux.memb_false. exact H.
  - apply negb_true_iff. apply Kernel2.ListAux.memb_false. apply H. exact Hx.
Qed.

Lemma disjointb_sym a b : disjointb a b = true -> disjointb b a = true.
Proof. rewrite !disjointb_spec. intros H x Hb Ha. exact (H x Ha Hb). Qed.

(* ================================================================== 6. shape: a non-empty halfface has four halfedges *)

Lemma hf_len4 s h : hex_shape s -> halfface s h <> [] -> length (halfface s h) = 4.
Proof.
  intros [F _] Hne. rewrite Forall_forall in F.
  assert (L : face_at s (h / 2) <> [] -> length (face_at s (h / 2)) = 4).
  { intros N. unfold face_at in *. destruct (Nat.lt_ge_cases (h / 2) (length (faces s))) as [Hlt|Hge].
    - apply F. apply nth_In. exact Hlt.
    - rewrite nth_overflow in N by exact Hge. congruence. }
  unfold halfface in *. destruct (Nat.even h).
  - apply L. exact Hne.
  - rewrite rev_length, map_length. apply L. intros E. rewrite E in Hne. apply Hne. reflexivity.
Qed.

Lemma hf_len4_in s h e : hex_shape s -> In e (halfface s h) -> length (halfface s h) = 4.
Proof. intros K Hin. apply hf_len4; [exact K|]. intros E. rewrite E in Hin. destruct Hin. Qed.

(* the opposite halfface: the opposites of the halfedges *)
Lemma in_halfface_opp s h e : In e (halfface s (opp h)) <-> In (opp e) (halfface s h).
Proof.
  rewrite halfface_opp, <- in_rev, in_map_iff. split.
  - intros (x&<-&Hx). rewrite opp_involutive. exact Hx.
  - intros H. exists (opp e). split; [apply opp_involutive | exact H].
Qed.

(* the opposite halfface has the same vertices (in a closed loop) *)
Lemma opp_hf_vertex s h e : loop_ok s (halfface s h) = true -> In e (halfface s (opp h)) -> In (he_from s e) (hf_vertices s h).
Proof.
  intros L Hin. apply in_halfface_opp in Hin. rewrite <- (opp_involutive e), he_from_opp.
  apply to_in_vertices; assumption.
Qed.
