(* Mesh/TH2HexFrame.v -- the decidable well-formedness predicate hex_cell_wf_b of a stored hex cell (closed cell with
   consistent halfface->cell cache, every halfface a closed loop, the first two halffaces have eight distinct vertices)
   and the "frame" it yields together with check_halfface_ordering: the top quad e0..e3 with its four side neighbours
   a0..a3 (a rotation of list positions 2,4,3,5), and the bottom quad rotated to g0..g3 so that it meets a0,a3,a2,a1.
   Proofs only. *)
From Coq Require Import ZArith Lia Bool Arith List ZifyNat ZifyBool Permutation.
From OVM Require Import Base.ListX Base.ListLemmas Kernel.State Kernel.Ops Kernel.Mirror Kernel2.LookupModel Kernel2.ListAux
                        Kernel2.AdjacentProofs Mesh.TetModel Mesh.HexModel Mesh.HexIterModel Mesh.TetProofs Mesh.HexProofs
                        Mesh.TH2HexBase Mesh.TH2HexAdj Mesh.TH2HexOrd.
Import ListNotations.
Ltac Zify.zify_post_hook ::= Z.div_mod_to_equations.
Local Open Scope nat_scope.

(* ================================================================== 1. the well-formedness predicate *)

Definition hex_cell_wf (s : mesh) (c : nat) : Prop :=
  closed_cell s c /\
  (forall h, In h (cell_at s c) -> loop_ok s (halfface s h) = true) /\
  NoDup (hf_vertices s (hx (cell_at s c) 0) ++ hf_vertices s (hx (cell_at s c) 1)).

Definition hex_cell_wf_b (s : mesh) (c : nat) : bool :=
  closed_cell_b s c &&
  forallb (fun h => loop_ok s (halfface s h)) (cell_at s c) &&
  nodup_b (hf_vertices s (hx (cell_at s c) 0) ++ hf_vertices s (hx (cell_at s c) 1)).

Lemma hex_cell_wf_b_spec s c : hex_cell_wf_b s c = true <-> hex_cell_wf s c.
Proof.
  unfold hex_cell_wf_b, hex_cell_wf. rewrite !andb_true_iff, closed_cell_b_spec, forallb_forall, nodup_b_spec. tauto.
Qed.

(* ================================================================== 2. the frame *)

Definition hex_frame (s : mesh) (c : nat) (e0 e1 e2 e3 g0 g1 g2 g3 a0 a1 a2 a3 : nat) : Prop :=
  let l := cell_at s c in
  halfface s (hx l 0) = [e0; e1; e2; e3] /\
  rot4 (halfface s (hx l 1)) [g0; g1; g2; g3] /\
  (adjacent_halfface_in_cell s (hx l 0) e0 = Some a0 /\ adjacent_halfface_in_cell s (hx l 0) e1 = Some a1 /\
   adjacent_halfface_in_cell s (hx l 0) e2 = Some a2 /\ adjacent_halfface_in_cell s (hx l 0) e3 = Some a3) /\
  (adjacent_halfface_in_cell s (hx l 1) g0 = Some a0 /\ adjacent_halfface_in_cell s (hx l 1) g1 = Some a3 /\
   adjacent_halfface_in_cell s (hx l 1) g2 = Some a2 /\ adjacent_halfface_in_cell s (hx l 1) g3 = Some a1) /\
  (exists k, k < 4 /\ [a0; a1; a2; a3] = Nat.iter k rot1n [hx l 2; hx l 4; hx l 3; hx l 5]) /\
  ~ In (opp (hx l 0)) l /\ ~ In (opp (hx l 1)) l.

Lemma nodup_app_disj {A} (a b : list A) x : NoDup (a ++ b) -> In x a -> In x b -> False.
Proof.
  induction a as [|y a IH]; intros ND Ha Hb; [destruct Ha|].
  cbn [app] in ND. apply NoDup_cons_iff in ND. destruct ND as [N ND]. destruct Ha as [->|Ha].
  - apply N. apply in_or_app. right. exact Hb.
  - exact (IH ND Ha Hb).
Qed.

Section Frame.
  Variables (s : mesh) (c x0 x1 x2 x3 x4 x5 : nat).
  Hypothesis Hl : cell_at s c = [x0; x1; x2; x3; x4; x5].
  Hypothesis Hshape : hex_shape s.
  Hypothesis Hcl : closed_cell s c.
  Hypothesis Hloop : forall h, In h (cell_at s c) -> loop_ok s (halfface s h) = true.
  Hypothesis Hnd : NoDup (hf_vertices s x0 ++ hf_vertices s x1).
  Hypothesis Htop : ord_pass s (cell_at s c) x0 order_top order_top = true.
  Hypothesis Hbot : ord_pass s (cell_at s c) x1 order_bot order_bot = true.

  Lemma fr_hx0 : hx (cell_at s c) 0 = x0. Proof. rewrite Hl. reflexivity. Qed.
  Lemma fr_hx1 : hx (cell_at s c) 1 = x1. Proof. rewrite Hl. reflexivity. Qed.
  Lemma fr_hx2 : hx (cell_at s c) 2 = x2. Proof. rewrite Hl. reflexivity. Qed.
  Lemma fr_hx3 : hx (cell_at s c) 3 = x3. Proof. rewrite Hl. reflexivity. Qed.
  Lemma fr_hx4 : hx (cell_at s c) 4 = x4. Proof. rewrite Hl. reflexivity. Qed.
  Lemma fr_hx5 : hx (cell_at s c) 5 = x5. Proof. rewrite Hl. reflexivity. Qed.

  Lemma fr_in0 : In x0 (cell_at s c). Proof. rewrite Hl. cbn [In]. auto. Qed.
  Lemma fr_in1 : In x1 (cell_at s c). Proof. rewrite Hl. cbn [In]. auto. Qed.

  Lemma fr_in_side i : 2 <= i < 6 -> In (hx (cell_at s c) i) (cell_at s c).
  Proof. intros Hi. unfold hx. apply nth_In. rewrite Hl. cbn [length]. lia. Qed.

  Lemma fr_loop0 : loop_ok s (halfface s x0) = true. Proof. apply Hloop. exact fr_in0. Qed.
  Lemma fr_loop1 : loop_ok s (halfface s x1) = true. Proof. apply Hloop. exact fr_in1. Qed.

  (* ---- the top and the bottom share no vertex, hence no edge *)
  Lemma fr_UW v : In v (hf_vertices s x0) -> In v (hf_vertices s x1) -> False.
  Proof. apply nodup_app_disj. exact Hnd. Qed.

  Lemma fr_top_opp_bot e : In e (halfface s x0) -> In (opp e) (halfface s x1) -> False.
  Proof.
    intros H0 H1. apply (fr_UW (he_to s e)).
    - apply to_in_vertices; [exact fr_loop0 | exact H0].
    - rewrite <- he_from_opp. apply from_in_vertices. exact H1.
  Qed.

  Lemma fr_bot_opp_top f : In f (halfface s x1) -> In (opp f) (halfface s x0) -> False.
  Proof.
    intros H1 H0. apply (fr_UW (he_to s f)).
    - rewrite <- he_from_opp. apply from_in_vertices. exact H0.
    - apply to_in_vertices; [exact fr_loop1 | exact H1].
  Qed.

  Lemma fr_shared e : In e (halfface s x0) -> In e (halfface s x1) -> False.
  Proof. intros H0 H1. apply (fr_UW (he_from s e)); apply from_in_vertices; assumption. Qed.

  (* ---- what the hex kernel's search finds along the top and the bottom is one of the side halffaces *)
  Lemma fr_side_cases y : In y (cell_at s c) -> y <> x0 -> y <> x1 -> y = x2 \/ y = x3 \/ y = x4 \/ y = x5.
  Proof.
    rewrite Hl. cbn [In]. intros [E|[E|[E|[E|[E|[E|[]]]]]]] N0 N1; try (symmetry in E; tauto).
  Qed.

  Lemma fr_top_get_adj e : In e (halfface s x0) ->
    exists y, get_adjacent_halfface s (Some x0) (Some e) (cell_at s c) = Some y /\
              (y = x2 \/ y = x3 \/ y = x4 \/ y = x5) /\ In (opp e) (halfface s y).
  Proof.
    intros He. destruct (adjacent_closed_cell s c x0 e Hcl fr_in0 He) as (x'&_&(I'&N1&_&O')&_&_).
    destruct (get_adj_exists s x0 e (cell_at s c) x' I' N1 O') as [y G]. exists y. split; [exact G|].
    destruct (get_adj_some _ _ _ _ _ G) as (Iy&Ny&Oy). split; [|exact Oy].
    apply fr_side_cases; [exact Iy | exact Ny|]. intros E. subst y. exact (fr_top_opp_bot e He Oy).
  Qed.

  Lemma fr_bot_get_adj f : In f (halfface s x1) ->
    exists y, get_adjacent_halfface s (Some x1) (Some f) (cell_at s c) = Some y /\
              (y = x2 \/ y = x3 \/ y = x4 \/ y = x5) /\ In (opp f) (halfface s y).
  Proof.
    intros Hf. destruct (adjacent_closed_cell s c x1 f Hcl fr_in1 Hf) as (x'&_&(I'&N1&_&O')&_&_).
    destruct (get_adj_exists s x1 f (cell_at s c) x' I' N1 O') as [y G]. exists y. split; [exact G|].
    destruct (get_adj_some _ _ _ _ _ G) as (Iy&Ny&Oy). split; [|exact Oy].
    apply fr_side_cases; [exact Iy | | exact Ny]. intros E. subst y. exact (fr_bot_opp_top f Hf Oy).
  Qed.

  Lemma fr_side_pos_top y : y = x2 \/ y = x3 \/ y = x4 \/ y = x5 -> exists i, In i order_top /\ hx (cell_at s c) i = y.
  Proof.
    intros [-> | [-> | [-> | ->]]].
    - exists 2. split; [cbn; tauto | exact fr_hx2].
    - exists 3. split; [cbn; tauto | exact fr_hx3].
    - exists 4. split; [cbn; tauto | exact fr_hx4].
    - exists 5. split; [cbn; tauto | exact fr_hx5].
  Qed.

  Lemma fr_side_pos_bot y : y = x2 \/ y = x3 \/ y = x4 \/ y = x5 -> exists i, In i order_bot /\ hx (cell_at s c) i = y.
  Proof.
    intros [-> | [-> | [-> | ->]]].
    - exists 2. split; [cbn; tauto | exact fr_hx2].
    - exists 3. split; [cbn; tauto | exact fr_hx3].
    - exists 4. split; [cbn; tauto | exact fr_hx4].
    - exists 5. split; [cbn; tauto | exact fr_hx5].
  Qed.

  (* ---- one traversal: the quad, what the search finds along it, and the offset *)
  Definition quad_pass (h : nat) (order : list nat) (e0 e1 e2 e3 a0 a1 a2 a3 k : nat) : Prop :=
    halfface s h = [e0; e1; e2; e3] /\
    (get_adjacent_halfface s (Some h) (Some e0) (cell_at s c) = Some a0 /\
     get_adjacent_halfface s (Some h) (Some e1) (cell_at s c) = Some a1 /\
     get_adjacent_halfface s (Some h) (Some e2) (cell_at s c) = Some a2 /\
     get_adjacent_halfface s (Some h) (Some e3) (cell_at s c) = Some a3) /\
    k < 4 /\
    (a0 = hx (cell_at s c) (nth k order 0) /\ a1 = hx (cell_at s c) (nth ((k + 1) mod 4) order 0) /\
     a2 = hx (cell_at s c) (nth ((k + 2) mod 4) order 0) /\ a3 = hx (cell_at s c) (nth ((k + 3) mod 4) order 0)).

  Lemma fr_top_quad : exists e0 e1 e2 e3 a0 a1 a2 a3 k, quad_pass x0 order_top e0 e1 e2 e3 a0 a1 a2 a3 k.
  Proof.
    pose proof (hf_len4 s x0 Hshape (ord_pass_nonempty _ _ _ _ _ Htop)) as L4.
    destruct (len4_quad _ L4) as (e0&e1&e2&e3&Hf).
    assert (I0 : In e0 (halfface s x0)) by (rewrite Hf; cbn [In]; auto).
    assert (I1 : In e1 (halfface s x0)) by (rewrite Hf; cbn [In]; auto).
    assert (I2 : In e2 (halfface s x0)) by (rewrite Hf; cbn [In]; auto).
    assert (I3 : In e3 (halfface s x0)) by (rewrite Hf; cbn [In]; auto 6).
    destruct (fr_top_get_adj e0 I0) as (a0&G0&C0&_). destruct (fr_top_get_adj e1 I1) as (a1&G1&_&_).
    destruct (fr_top_get_adj e2 I2) as (a2&G2&_&_). destruct (fr_top_get_adj e3 I3) as (a3&G3&_&_).
    destruct (ord_pass_quad s (cell_at s c) x0 order_top e0 e1 e2 e3 a0 a1 a2 a3 Hf G0 G1 G2 G3 (fr_side_pos_top a0 C0) Htop)
      as (k&Hk&E0&E1&E2&E3).
    exists e0, e1, e2, e3, a0, a1, a2, a3, k. unfold quad_pass. cbn [length order_top] in Hk. tauto.
  Qed.

  Lemma fr_bot_quad : exists f0 f1 f2 f3 b0 b1 b2 b3 m, quad_pass x1 order_bot f0 f1 f2 f3 b0 b1 b2 b3 m.
  Proof.
    pose proof (hf_len4 s x1 Hshape (ord_pass_nonempty _ _ _ _ _ Hbot)) as L4.
    destruct (len4_quad _ L4) as (e0&e1&e2&e3&Hf).
    assert (I0 : In e0 (halfface s x1)) by (rewrite Hf; cbn [In]; auto).
    assert (I1 : In e1 (halfface s x1)) by (rewrite Hf; cbn [In]; auto).
    assert (I2 : In e2 (halfface s x1)) by (rewrite Hf; cbn [In]; auto).
    assert (I3 : In e3 (halfface s x1)) by (rewrite Hf; cbn [In]; auto 6).
    destruct (fr_bot_get_adj e0 I0) as (a0&G0&C0&_). destruct (fr_bot_get_adj e1 I1) as (a1&G1&_&_).
    destruct (fr_bot_get_adj e2 I2) as (a2&G2&_&_). destruct (fr_bot_get_adj e3 I3) as (a3&G3&_&_).
    destruct (ord_pass_quad s (cell_at s c) x1 order_bot e0 e1 e2 e3 a0 a1 a2 a3 Hf G0 G1 G2 G3 (fr_side_pos_bot a0 C0) Hbot)
      as (k&Hk&E0&E1&E2&E3).
    exists e0, e1, e2, e3, a0, a1, a2, a3, k. unfold quad_pass. cbn [length order_bot] in Hk. tauto.
  Qed.

  (* what the search finds along a quad contains the opposite halfedge *)
  Lemma quad_pass_edges h order e0 e1 e2 e3 a0 a1 a2 a3 k y :
    quad_pass h order e0 e1 e2 e3 a0 a1 a2 a3 k -> In y [a0; a1; a2; a3] ->
    exists e, In e (halfface s h) /\ In (opp e) (halfface s y).
  Proof.
    intros (Hf&(G0&G1&G2&G3)&_&_) Hy. rewrite Hf.
    destruct Hy as [<-|[<-|[<-|[<-|[]]]]].
    - exists e0. split; [cbn [In]; auto | exact (proj2 (proj2 (get_adj_some _ _ _ _ _ G0)))].
    - exists e1. split; [cbn [In]; auto | exact (proj2 (proj2 (get_adj_some _ _ _ _ _ G1)))].
    - exists e2. split; [cbn [In]; auto | exact (proj2 (proj2 (get_adj_some _ _ _ _ _ G2)))].
    - exists e3. split; [cbn [In]; auto 6 | exact (proj2 (proj2 (get_adj_some _ _ _ _ _ G3)))].
  Qed.

  (* every side halfface has an edge of the top and an edge of the bottom *)
  Lemma fr_side_top_edge i : 2 <= i < 6 -> exists e, In e (halfface s x0) /\ In (opp e) (halfface s (hx (cell_at s c) i)).
  Proof.
    intros Hi. destruct fr_top_quad as (e0&e1&e2&e3&a0&a1&a2&a3&k&Q).
    apply (quad_pass_edges _ _ _ _ _ _ _ _ _ _ _ _ Q).
    destruct Q as (_&_&Hk&E0&E1&E2&E3). exact (top_positions_cover _ k a0 a1 a2 a3 i Hk E0 E1 E2 E3 Hi).
  Qed.

  Lemma fr_side_bot_edge i : 2 <= i < 6 -> exists f, In f (halfface s x1) /\ In (opp f) (halfface s (hx (cell_at s c) i)).
  Proof.
    intros Hi. destruct fr_bot_quad as (e0&e1&e2&e3&a0&a1&a2&a3&k&Q).
    apply (quad_pass_edges _ _ _ _ _ _ _ _ _ _ _ _ Q).
    destruct Q as (_&_&Hk&E0&E1&E2&E3). exact (bot_positions_cover _ k a0 a1 a2 a3 i Hk E0 E1 E2 E3 Hi).
  Qed.

  Lemma fr_side_index y : In y [x2; x3; x4; x5] -> exists i, 2 <= i < 6 /\ hx (cell_at s c) i = y.
  Proof.
    intros [<-|[<-|[<-|[<-|[]]]]].
    - exists 2. split; [lia | exact fr_hx2].
    - exists 3. split; [lia | exact fr_hx3].
    - exists 4. split; [lia | exact fr_hx4].
    - exists 5. split; [lia | exact fr_hx5].
  Qed.

  (* ---- neither the opposite of the top nor the opposite of the bottom is in the cell *)
  Lemma fr_no_opp0 : ~ In (opp x0) (cell_at s c).
  Proof.
    intros H. rewrite Hl in H. destruct H as [E|[E|H]].
    - exact (opp_neq x0 (eq_sym E)).
    - destruct fr_bot_quad as (f0&f1&f2&f3&b0&b1&b2&b3&m&(Hf&_)).
      assert (I0 : In f0 (halfface s x1)) by (rewrite Hf; cbn [In]; auto).
      apply (fr_bot_opp_top f0 I0). apply in_halfface_opp. rewrite <- E. exact I0.
    - destruct (fr_side_index _ H) as (i&Hi&Ei). destruct (fr_side_bot_edge i Hi) as (f&F1&F2).
      rewrite Ei in F2. apply in_halfface_opp in F2. rewrite opp_involutive in F2. exact (fr_shared f F2 F1).
  Qed.

  Lemma fr_no_opp1 : ~ In (opp x1) (cell_at s c).
  Proof.
    intros H. rewrite Hl in H. destruct H as [E|[E|H]].
    - destruct fr_top_quad as (e0&e1&e2&e3&a0&a1&a2&a3&k&(Hf&_)).
      assert (I0 : In e0 (halfface s x0)) by (rewrite Hf; cbn [In]; auto).
      apply (fr_top_opp_bot e0 I0). apply in_halfface_opp. rewrite <- E. exact I0.
    - exact (opp_neq x1 (eq_sym E)).
    - destruct (fr_side_index _ H) as (i&Hi&Ei). destruct (fr_side_top_edge i Hi) as (e&F1&F2).
      rewrite Ei in F2. apply in_halfface_opp in F2. rewrite opp_involutive in F2. exact (fr_shared e F1 F2).
  Qed.

  (* ---- the frame *)
  Theorem fr_frame_exists : exists e0 e1 e2 e3 g0 g1 g2 g3 a0 a1 a2 a3, hex_frame s c e0 e1 e2 e3 g0 g1 g2 g3 a0 a1 a2 a3.
  Proof.
    destruct fr_top_quad as (e0&e1&e2&e3&a0&a1&a2&a3&k&(Hf&(G0&G1&G2&G3)&Hk&E0&E1&E2&E3)).
    destruct fr_bot_quad as (f0&f1&f2&f3&b0&b1&b2&b3&m&(Hf'&(G0'&G1'&G2'&G3')&Hm&E0'&E1'&E2'&E3')).
    destruct (orders_align (cell_at s c) k m a0 a1 a2 a3 b0 b1 b2 b3 f0 f1 f2 f3 Hk Hm E0 E1 E2 E3 E0' E1' E2' E3')
      as (g0&g1&g2&g3&R).
    assert (A : forall e a, In e (halfface s x0) -> get_adjacent_halfface s (Some x0) (Some e) (cell_at s c) = Some a ->
                            adjacent_halfface_in_cell s x0 e = Some a).
    { intros e a He G. exact (get_adj_is_nbr s c x0 e a Hcl fr_in0 fr_no_opp0 He G). }
    assert (B : forall p, In p [(f0, b0); (f1, b1); (f2, b2); (f3, b3)] -> adjacent_halfface_in_cell s x1 (fst p) = Some (snd p)).
    { assert (B0 : forall e a, In e (halfface s x1) -> get_adjacent_halfface s (Some x1) (Some e) (cell_at s c) = Some a ->
                               adjacent_halfface_in_cell s x1 e = Some a).
      { intros e a He G. exact (get_adj_is_nbr s c x1 e a Hcl fr_in1 fr_no_opp1 He G). }
      intros p [<-|[<-|[<-|[<-|[]]]]]; cbn [fst snd]; apply B0; try assumption; rewrite Hf'; cbn [In]; auto 6. }
    assert (B' : forall p, In p [(g0, a0); (g1, a3); (g2, a2); (g3, a1)] -> adjacent_halfface_in_cell s x1 (fst p) = Some (snd p)).
    { intros p Hp. apply B. apply (rot4_In _ _ p R). exact Hp. }
    exists e0, e1, e2, e3, g0, g1, g2, g3, a0, a1, a2, a3. unfold hex_frame. cbv zeta.
    rewrite fr_hx0, fr_hx1. split; [exact Hf|]. split.
    { rewrite Hf'. exact (rot4_map fst _ _ R). }
    split.
    { repeat split; apply A; try assumption; rewrite Hf; cbn [In]; auto 6. }
    split.
    { repeat split.
      - exact (B' (g0, a0) ltac:(cbn [In]; auto)).
      - exact (B' (g1, a3) ltac:(cbn [In]; auto)).
      - exact (B' (g2, a2) ltac:(cbn [In]; auto)).
      - exact (B' (g3, a1) ltac:(cbn [In]; auto 6)). }
    split.
    { exists k. split; [exact Hk|]. exact (top_positions (cell_at s c) k a0 a1 a2 a3 Hk E0 E1 E2 E3). }
    split; [exact fr_no_opp0 | exact fr_no_opp1].
  Qed.
End Frame.

(* ================================================================== 3. the frame of every well-formed ordered cell *)

Lemma stored_cell_six s c : hex_shape s -> c < nc s -> exists x0 x1 x2 x3 x4 x5, cell_at s c = [x0; x1; x2; x3; x4; x5].
Proof.
  intros K Hc. pose proof (proj2 (kshape_live 4 6 s K) c Hc) as L.
  destruct (cell_at s c) as [|x0 [|x1 [|x2 [|x3 [|x4 [|x5 [|x6 t]]]]]]]; cbn [length] in L; try discriminate.
  exists x0, x1, x2, x3, x4, x5. reflexivity.
Qed.

Theorem hex_frame_exists s c :
  hex_shape s -> c < nc s -> hex_cell_wf s c -> check_halfface_ordering s (cell_at s c) = true ->
  exists e0 e1 e2 e3 g0 g1 g2 g3 a0 a1 a2 a3, hex_frame s c e0 e1 e2 e3 g0 g1 g2 g3 a0 a1 a2 a3.
Proof.
  intros K Hc (Hcl&Hloop&Hnd) Hord. destruct (stored_cell_six s c K Hc) as (x0&x1&x2&x3&x4&x5&Hl).
  unfold check_halfface_ordering in Hord. apply andb_true_iff in Hord. destruct Hord as [Hord _]. apply andb_true_iff in Hord. destruct Hord as [Ht Hb].
  rewrite Hl in Hnd. change (hx [x0; x1; x2; x3; x4; x5] 0) with x0 in Hnd. change (hx [x0; x1; x2; x3; x4; x5] 1) with x1 in Hnd.
  apply (fr_frame_exists s c x0 x1 x2 x3 x4 x5 Hl K Hcl Hloop Hnd).
  - rewrite Hl in Ht at 2. exact Ht.
  - rewrite Hl in Hb at 2. exact Hb.
Qed.
