(* Mesh/TH3HexMain.v -- C16: every cell CREATED by add_cell(eight vertices) (hex_add_cell_v, with or without topology check) in a
   state with cre_inv (exact caches, faces closed loops of live halfedges, no parallel edges) from eight pairwise distinct vertices is
   well formed (hex_cell_wf_b), its stored list passes check_halfface_ordering (never run by this form of add_cell), and its six
   halffaces lie on the six quads of the convention, in convention order. *)
From Coq Require Import ZArith Lia Bool Arith List ZifyNat ZifyBool Permutation.
From OVM Require Import Base.ListX Base.ListLemmas Kernel.State Kernel.Ops Kernel.Mirror Kernel.Recompute Kernel.Closure Kernel.CellCheck
                        Kernel.Construct Kernel.ExactInv Kernel.ExactRun Kernel2.ListAux Kernel2.ExactAddCell
                        Mesh.TetModel Mesh.TetProofs Mesh.HexModel Mesh.HexIterModel Mesh.HexProofs Mesh.TH2CollapseBase Mesh.TH2CollapseLoop
                        Mesh.TH2CollapseFold Mesh.TH2HexBase Mesh.TH2HexAdj Mesh.TH2HexOrd Mesh.TH2HexFrame Mesh.TH2HexChecked Mesh.TH2HexEight Mesh.TH2HexWf
                        Mesh.TH3Base Mesh.TH3HexQuad Mesh.TH3HexCube.
Import ListNotations.
Ltac Zify.zify_post_hook ::= Z.div_mod_to_equations.
Local Open Scope nat_scope.

(* ================================================================== 1. the six find-or-create steps *)

(* the halfface made for (quad, result of the lookup): on the quad; exactly the quad when it was created *)
Definition hf_made (t : mesh) (qf : list nat * option nat) (hf : nat) : Prop :=
  hf_on t hf (fst qf) /\ (snd qf = None -> hf_vertices t hf = fst qf).

Lemma hf_on_grow t t' q hf : bu_inv t -> grow t t' -> hf_on t hf q -> hf_on t' hf q.
Proof. intros B G (r & d & e). destruct (live_hf_grow t t' hf B G r d) as (E & r' & d'). split; [exact r'|]. split; [exact d'|]. rewrite E. exact e. Qed.

Lemma hf_made_grow t t' qf hf : bu_inv t -> grow t t' -> hf_made t qf hf -> hf_made t' qf hf.
Proof.
  intros B G [O X]. split; [exact (hf_on_grow t t' _ hf B G O)|]. intros N. destruct O as (r & d & _).
  destruct (live_hf_grow t t' hf B G r d) as (E & _). rewrite E. exact (X N).
Qed.

Lemma forall2_made_grow t t' qs l : bu_inv t -> grow t t' -> Forall2 (hf_made t) qs l -> Forall2 (hf_made t') qs l.
Proof. intros B G F. induction F; constructor; [eapply hf_made_grow; eassumption | assumption]. Qed.

Lemma fold_quads_cre s : cre_inv s -> forall qs t l q0,
  grow s t -> cre_inv t -> Forall2 (hf_made t) q0 l ->
  (forall qf, In qf qs -> (exists x0 x1 x2 x3, fst qf = [x0; x1; x2; x3]) /\ (forall v, In v (fst qf) -> v < nv s) /\
                          snd qf = find_halfface_extensive s (fst qf)) ->
  grow s (fst (fold_left quad_step qs (t, l))) /\ cre_inv (fst (fold_left quad_step qs (t, l))) /\
  Forall2 (hf_made (fst (fold_left quad_step qs (t, l)))) (q0 ++ qs) (snd (fold_left quad_step qs (t, l))).
Proof.
  intros C. induction qs as [|[q f] qs IH]; intros t l q0 G Ct F H.
  - cbn [fold_left fst snd]. rewrite app_nil_r. auto.
  - cbn [fold_left]. destruct (H (q, f) (or_introl eq_refl)) as ((x0 & x1 & x2 & x3 & EQ) & RV & EF). cbn [fst snd] in EQ, RV, EF.
    assert (NV : nv t = nv s) by (destruct G as (n & _); exact n).
    assert (NX : exists t1 hf, quad_step (t, l) (q, f) = (t1, l ++ [hf]) /\ grow t t1 /\ cre_inv t1 /\ hf_made t1 (q, f) hf).
    { unfold quad_step. cbn [fst snd]. destruct f as [hf|].
      - exists t, hf. split; [reflexivity|]. split; [apply grow_refl|]. split; [exact Ct|].
        assert (N0 : x0 < nv s) by (apply RV; rewrite EQ; left; reflexivity).
        symmetry in EF. rewrite EQ in EF. destruct (find_ext_rot4 s x0 x1 x2 x3 hf (cre_bu s C) N0 EF) as (r & d & e).
        split; [|intros X; discriminate]. cbn [fst]. rewrite EQ. exact (hf_on_grow s t _ hf (cre_bu s C) G (conj r (conj d e))).
      - assert (NEq : q <> []) by (rewrite EQ; discriminate).
        destruct (add_face_v_cre t q Ct NEq ltac:(intros v Hv; rewrite NV; apply RV; exact Hv)) as (t1 & hes & Q & G1 & C1 & N1 & _ & _ & _ & V1).
        rewrite Q. exists t1, (2 * nf t). split; [reflexivity|]. split; [exact G1|]. split; [exact C1|].
        destruct (bu_lens t (cre_bu t Ct)) as [_ Lf]. unfold hf_made, hf_on. cbn [fst snd]. rewrite dbl_div.
        split; [|intros _; exact V1]. split; [lia|]. split; [apply (grow_f_new t t1 G1 Lf); lia|]. rewrite V1, EQ. constructor. }
    destruct NX as (t1 & hf & Q & G1 & C1 & O1). rewrite Q.
    replace (q0 ++ (q, f) :: qs) with ((q0 ++ [(q, f)]) ++ qs) by (rewrite <- app_assoc; reflexivity).
    apply IH; [exact (grow_trans s t t1 G G1) | exact C1 | | intros qf Hqf; apply H; right; exact Hqf].
    apply Forall2_app; [exact (forall2_made_grow t t1 q0 l (cre_bu t Ct) G1 F) | constructor; [exact O1 | constructor]].
Qed.

(* ================================================================== 2. the call *)

Lemma forall2_six {A B} (P : A -> B -> Prop) x0 x1 x2 x3 x4 x5 (l : list B) : Forall2 P [x0; x1; x2; x3; x4; x5] l ->
  exists y0 y1 y2 y3 y4 y5, l = [y0; y1; y2; y3; y4; y5] /\ P x0 y0 /\ P x1 y1 /\ P x2 y2 /\ P x3 y3 /\ P x4 y4 /\ P x5 y5.
Proof.
  intros F. inversion F as [|? y0 ? l0 p0 F0]; subst. inversion F0 as [|? y1 ? l1 p1 F1]; subst. inversion F1 as [|? y2 ? l2 p2 F2]; subst.
  inversion F2 as [|? y3 ? l3 p3 F3]; subst. inversion F3 as [|? y4 ? l4 p4 F4]; subst. inversion F4 as [|? y5 ? l5 p5 F5]; subst. inversion F5; subst.
  exists y0, y1, y2, y3, y4, y5. auto 10.
Qed.

(* what the call does, as far as the new cell is concerned: the state s1 after the six find-or-create steps, the six halffaces *)
Definition created_from (s : mesh) (vs : list nat) (s1 : mesh) (hfs : list nat) : Prop :=
  grow s s1 /\ cre_inv s1 /\
  Forall2 (hf_made s1) (combine (hex_quads vs) (map (find_halfface_extensive s) (hex_quads vs))) hfs.

Lemma hex_add_cell_v_steps s vs chk s' c : cre_inv s -> length vs = 8 -> (forall v, In v vs -> v < nv s) ->
  hex_add_cell_v s vs chk = (s', Some c) ->
  full_bu s = true /\ exists s1 hfs, created_from s vs s1 hfs /\ add_cell s1 hfs false = (s', Some c).
Proof.
  intros C L8 RV H. unfold hex_add_cell_v in H. destruct (full_bu s) eqn:FB; cbn [negb] in H; [|discriminate]. split; [reflexivity|].
  rewrite L8 in H. cbn [Nat.eqb negb] in H. destruct (chk && negb (length (set_of_list vs) =? 8)); [discriminate|].
  fold quad_step in H.
  set (qs := combine (hex_quads vs) (map (find_halfface_extensive s) (hex_quads vs))) in *.
  destruct (eight vs L8) as (a0 & a1 & a2 & a3 & a4 & a5 & a6 & a7 & EV).
  assert (HQ : forall qf, In qf qs -> (exists x0 x1 x2 x3, fst qf = [x0; x1; x2; x3]) /\ (forall v, In v (fst qf) -> v < nv s) /\
                                       snd qf = find_halfface_extensive s (fst qf)).
  { intros [q f] Hin. unfold qs in Hin. rewrite EV in Hin. unfold hex_quads in Hin. cbn [nth map combine] in Hin. cbn [fst snd].
    assert (RV' : forall v, In v [a0; a1; a2; a3; a4; a5; a6; a7] -> v < nv s) by (rewrite <- EV; exact RV).
    repeat (destruct Hin as [Hin|Hin]; [injection Hin as <- <-; (split; [do 4 eexists; reflexivity|]); (split; [|reflexivity]);
      intros v Hv; apply RV'; cbn [In] in *; tauto|]). destruct Hin. }
  pose proof (fold_quads_cre s C qs s [] [] (grow_refl s) C (Forall2_nil _) HQ) as (G1 & C1 & F1).
  destruct (fold_left quad_step qs (s, [])) as [s1 hfs]. cbn [fst snd app] in *.
  exists s1, hfs. split; [split; [exact G1 | split; [exact C1 | exact F1]]|].
  destruct (chk && negb (closed_by_sets s1 hfs)); [discriminate|].
  destruct (chk && fbu s1 && existsb _ hfs); [discriminate|]. exact H.
Qed.

(* the unchecked form never rejects *)
Lemma hex_add_cell_v_unchecked_accepts s vs : full_bu s = true -> length vs = 8 -> exists s' c, hex_add_cell_v s vs false = (s', Some c).
Proof.
  intros FB L8. unfold hex_add_cell_v. rewrite FB, L8. cbn [negb Nat.eqb andb].
  match goal with |- context [fold_left ?f ?l ?a] => destruct (fold_left f l a) as [s1 hfs] end.
  unfold add_cell. cbn [andb]. destruct (append_cell s1 hfs) as [s2 c]. eauto.
Qed.

Section Created.
  Variables (s s' : mesh) (a0 a1 a2 a3 a4 a5 a6 a7 : nat) (chk : bool) (c : nat).
  Let vs := [a0; a1; a2; a3; a4; a5; a6; a7].
  Hypothesis C : cre_inv s.
  Hypothesis ND8 : NoDup vs.
  Hypothesis RV : forall v, In v vs -> v < nv s.
  Hypothesis CALL : hex_add_cell_v s vs chk = (s', Some c).

  Theorem created_cell :
    exists h0 h1 h2 h3 h4 h5,
      c = nc s /\ nc s' = S (nc s) /\ cell_at s' c = [h0; h1; h2; h3; h4; h5] /\
      hf_on s' h0 [a3; a2; a1; a0] /\ hf_on s' h1 [a7; a6; a5; a4] /\ hf_on s' h2 [a1; a2; a6; a7] /\
      hf_on s' h3 [a4; a5; a3; a0] /\ hf_on s' h4 [a1; a7; a4; a0] /\ hf_on s' h5 [a2; a3; a5; a6] /\
      (find_halfface_extensive s [a3; a2; a1; a0] = None -> hf_vertices s' h0 = [a3; a2; a1; a0]) /\
      hex_cell_wf_b s' c = true /\ check_halfface_ordering s' [h0; h1; h2; h3; h4; h5] = true /\
      no_par s' /\ faces_loop s' /\ face_edges_live s'.
  Proof.
    destruct (hex_add_cell_v_steps s vs chk s' c C eq_refl RV CALL) as (FB & s1 & hfs & (G1 & C1 & F1) & A).
    unfold vs, hex_quads in F1. cbn [nth map combine] in F1.
    destruct (forall2_six _ _ _ _ _ _ _ _ F1) as (h0 & h1 & h2 & h3 & h4 & h5 & -> & (M0 & X0) & (M1 & _) & (M2 & _) & (M3 & _) & (M4 & _) & (M5 & _)).
    cbn [fst snd] in M0, M1, M2, M3, M4, M5, X0.
    destruct (cube_static s1 a0 a1 a2 a3 a4 a5 a6 a7 h0 h1 h2 h3 h4 h5 C1 ND8 M0 M1 M2 M3 M4 M5) as (NDl & MO & ORD).
    (* the base add_cell *)
    pose proof (add_cell_edges s1 [h0; h1; h2; h3; h4; h5] false) as EE. rewrite A in EE. cbn [fst] in EE.
    destruct (fc_append_cell s1 [h0; h1; h2; h3; h4; h5]) as (Fs & Cs & _).
    assert (FB1 : fbu s1 = true).
    { destruct G1 as (_ & _ & _ & _ & _ & _ & _ & fb & _). rewrite fb. unfold full_bu in FB. apply andb_true_iff in FB. exact (proj2 FB). }
    destruct (inc_cell_append_cell s1 [h0; h1; h2; h3; h4; h5] FB1) as [IC _].
    pose proof (append_cell_handle s1 [h0; h1; h2; h3; h4; h5]) as Hh.
    assert (EDL : edel (fst (append_cell s1 [h0; h1; h2; h3; h4; h5])) = edel s1 /\ fdel (fst (append_cell s1 [h0; h1; h2; h3; h4; h5])) = fdel s1).
    { pose proof (append_cell_effect s1 [h0; h1; h2; h3; h4; h5]) as W. destruct (append_cell s1 [h0; h1; h2; h3; h4; h5]) as [sx cx]. cbn [fst].
      destruct W as (_ & _ & _ & _ & _ & _ & _ & w2 & w3 & _). auto. }
    unfold add_cell in A. cbn [andb] in A. destruct (append_cell s1 [h0; h1; h2; h3; h4; h5]) as [s2 c2]. cbn [fst snd] in *.
    injection A as E1 E2. subst s2 c2. destruct EDL as [ED FD].
    assert (NC1 : nc s1 = nc s) by (apply (grow_nc s s1 G1)).
    assert (Ec : c = nc s) by (rewrite Hh; exact NC1).
    assert (CA : cell_at s' c = [h0; h1; h2; h3; h4; h5]).
    { rewrite Hh. unfold cell_at, nc. rewrite Cs. rewrite app_nth2 by apply Nat.le_refl. rewrite Nat.sub_diag. reflexivity. }
    assert (HF : forall h, halfface s' h = halfface s1 h) by (intros h; apply halfface_faces; exact Fs).
    assert (HV : forall h, hf_vertices s' h = hf_vertices s1 h) by (intros h; apply hf_vertices_same; assumption).
    assert (NFs : nf s' = nf s1) by (unfold nf; rewrite Fs; reflexivity).
    assert (FDs : forall f, f_deleted s' f = f_deleted s1 f) by (intros f; unfold f_deleted; rewrite FD; reflexivity).
    assert (ON : forall h q, hf_on s1 h q -> hf_on s' h q).
    { intros h q (r & d & e). split; [rewrite NFs; exact r|]. split; [rewrite FDs; exact d | rewrite HV; exact e]. }
    assert (HE : forall h, he_from s' h = he_from s1 h /\ he_to s' h = he_to s1 h) by (intros h; unfold he_from, he_to, edge_at; rewrite EE; auto).
    assert (LOs : forall x, loop_ok s' x = loop_ok s1 x) by (intros x; apply loop_ok_ext; intros h _; apply HE).
    exists h0, h1, h2, h3, h4, h5.
    split; [exact Ec|]. split; [change (nc s') with (length (cells s')); rewrite Cs, app_length; cbn [length]; change (length (cells s1)) with (nc s1); lia|]. split; [exact CA|].
    split; [exact (ON _ _ M0)|]. split; [exact (ON _ _ M1)|]. split; [exact (ON _ _ M2)|].
    split; [exact (ON _ _ M3)|]. split; [exact (ON _ _ M4)|]. split; [exact (ON _ _ M5)|].
    split; [intros N; rewrite HV; exact (X0 N)|].
    assert (ORD' : check_halfface_ordering s' [h0; h1; h2; h3; h4; h5] = true) by (rewrite (check_ordering_faces s1 s' _ Fs EE); exact ORD).
    split; [|split; [exact ORD'|]].
    - apply (wf_cell s' c h0 h1 h2 h3 h4 h5 CA NDl).
      + erewrite map_ext; [exact MO|]. intros h. apply HF.
      + intros h Hin. rewrite HF. exact (cb_len4 s1 a0 a1 a2 a3 a4 a5 a6 a7 h0 h1 h2 h3 h4 h5 M0 M1 M2 M3 M4 M5 h Hin).
      + intros h Hin. rewrite HF, LOs. exact (cb_loop s1 a0 a1 a2 a3 a4 a5 a6 a7 h0 h1 h2 h3 h4 h5 C1 M0 M1 M2 M3 M4 M5 h Hin).
      + intros h Hin. rewrite HV. exact (cb_verts s1 a0 a1 a2 a3 a4 a5 a6 a7 h0 h1 h2 h3 h4 h5 ND8 M0 M1 M2 M3 M4 M5 h Hin).
      + exact ORD'.
      + intros h Hin. unfold cell_of. rewrite IC, nth_fold_upd.
        replace (memb h [h0; h1; h2; h3; h4; h5]) with true by (symmetry; apply Base.ListLemmas.memb_In; exact Hin).
        destruct (cb_on s1 a0 a1 a2 a3 a4 a5 a6 a7 h0 h1 h2 h3 h4 h5 M0 M1 M2 M3 M4 M5 h Hin) as (q & (r & _) & _).
        destruct (cre_bu s1 C1) as (_ & _ & _ & _ & (_ & _ & L3 & _)).
        replace (h <? length (inc_cell s1)) with true by (symmetry; apply Nat.ltb_lt; rewrite (L3 FB1); lia).
        cbn [andb]. rewrite <- Hh. reflexivity.
    - destruct C1 as (_ & FLo1 & FL1 & NP1).
      assert (EDs : forall e, e_deleted s' e = e_deleted s1 e) by (intros e; unfold e_deleted; rewrite ED; reflexivity).
      assert (NEs : ne s' = ne s1) by (unfold ne; rewrite EE; reflexivity).
      assert (FAs : forall f, face_at s' f = face_at s1 f) by (intros f; unfold face_at; rewrite Fs; reflexivity).
      split; [|split].
      + intros e e' a b He He' D D' J J'. rewrite NEs in He, He'. rewrite EDs in D, D'. unfold joins, edge_at in J, J'. rewrite EE in J, J'.
        exact (NP1 e e' a b He He' D D' J J').
      + intros f Hf D. rewrite NFs in Hf. rewrite FDs in D. rewrite FAs, LOs. exact (FLo1 f Hf D).
      + intros f Hf D h Hh'. rewrite NFs in Hf. rewrite FDs in D. rewrite FAs in Hh'. rewrite EDs. exact (FL1 f Hf D h Hh').
  Qed.
End Created.

Print Assumptions created_cell.
