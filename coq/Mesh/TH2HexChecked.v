(* Mesh/TH2HexChecked.v -- what the topology-checked hex add_cell (hex_add_cell s hfs true: re-ordering,
   check_halfface_ordering, then the base kernel's cell_check) contributes to hex_cell_wf_b: the stored list passes
   cell_check and check_halfface_ordering in the new state; with a consistent halfface->cell cache, simple faces and no
   halfface stored together with its opposite, cell_check gives closedness (Kernel2.ExactAddCell.closed_cell_of_check).
   It gives neither closed loops (a property of the faces) nor eight distinct vertices (Mesh/TH2HexRefute.v, section 3:
   the pinched cube is accepted).  Proofs only. *)
From Coq Require Import ZArith Lia Bool Arith List ZifyNat ZifyBool Permutation.
From OVM Require Import Base.ListX Base.ListLemmas Kernel.State Kernel.Ops Kernel.Mirror Kernel.CellCheck Kernel2.LookupModel Kernel2.ListAux
                        Kernel2.AdjacentProofs Kernel2.ExactBase Kernel2.ExactAddCell
                        Mesh.TetModel Mesh.HexModel Mesh.HexIterModel Mesh.TetProofs Mesh.HexProofs
                        Mesh.TH2HexBase Mesh.TH2HexFrame.
Import ListNotations.
Ltac Zify.zify_post_hook ::= Z.div_mod_to_equations.
Local Open Scope nat_scope.

Lemma cell_check_faces s t l : faces t = faces s -> cell_check t l = cell_check s l.
Proof.
  intros E. unfold cell_check. destruct l as [|x l']; [reflexivity|].
  assert (M : map (halfface t) (x :: l') = map (halfface s) (x :: l')).
  { apply map_ext. intros hf. apply halfface_faces. exact E. }
  rewrite M. reflexivity.
Qed.

Lemma add_cell_checked_cell_check s l s' c : add_cell s l true = (s', Some c) -> cell_check s l = true.
Proof.
  unfold add_cell. destruct (cell_check s l); [reflexivity|]. cbn [andb negb]. intros H. discriminate.
Qed.

(* the list stored by an accepted topology-checked hex add_cell passes the base kernel's cell_check and the hex
   kernel's ordering check, both evaluated in the NEW state *)
Theorem hex_add_cell_checked_stored s hfs s' c : hex_add_cell s hfs true = (s', Some c) ->
  c = nc s /\ faces s' = faces s /\ length (cell_at s' c) = 6 /\
  cell_check s' (cell_at s' c) = true /\ check_halfface_ordering s' (cell_at s' c) = true.
Proof.
  intros H. assert (G : forall l, add_cell s l true = (s', Some c) -> cell_at s' c = l /\ c = nc s /\ faces s' = faces s).
  { intros l A. destruct (add_cell_cases s l true) as [R|(s1&R&Cs&Fs)]; rewrite R in A; inversion A; subst.
    split; [|split; [reflexivity | exact Fs]]. unfold cell_at, nc. rewrite Cs, app_nth2, Nat.sub_diag by lia. reflexivity. }
  destruct (hex_add_cell_checked s hfs s' (Some c) H) as [[E _]|(l&Er&_&Fs&Cl&L6&Ord&_)]; [discriminate|].
  inversion Er; subst c. rewrite Cl. split; [reflexivity|]. split; [exact Fs|]. split; [exact L6|]. split; [|exact Ord].
  rewrite (cell_check_faces s s' l Fs).
  unfold hex_add_cell in H.
  destruct (negb (length hfs =? 6)); [inversion H|]. destruct (negb (forallb _ hfs)); [inversion H|]. cbn [negb] in H.
  destruct (negb (length (hfs_vertex_set s hfs) =? 8)); [inversion H|].
  destruct (check_halfface_ordering s hfs).
  - destruct (G hfs H) as (E&_). rewrite Cl in E. rewrite E. exact (add_cell_checked_cell_check _ _ _ _ H).
  - destruct (reorder_bottom s hfs) as [b|]; [|inversion H].
    destruct (all_some (upd 1 (Some b) (reorder_top s hfs))) as [l'|]; [|inversion H].
    destruct (check_halfface_ordering s l'); [|inversion H].
    destruct (G l' H) as (E&_). rewrite Cl in E. rewrite E. exact (add_cell_checked_cell_check _ _ _ _ H).
Qed.

(* cell_check + consistent cache + simple faces + no opposite pair  =>  the first conjunct of hex_cell_wf_b *)
Theorem cell_check_closed s c :
  cell_check s (cell_at s c) = true ->
  (forall hf, In hf (cell_at s c) -> cell_of s hf = Some c) ->
  (forall hf, In hf (cell_at s c) -> simple_hes (face_at s (hf / 2))) ->
  (forall hf, In hf (cell_at s c) -> ~ In (opp hf) (cell_at s c)) ->
  closed_cell_b s c = true.
Proof.
  intros Ck Hc Hs Hno. apply closed_cell_b_spec. apply closed_cell_of_check; try assumption.
  apply cell_check_spec in Ck. exact (proj2 Ck).
Qed.

Example cell_check_closed_nonvacuous :
  let s := hex_run [HK (AddVertices 12); HAddCellV [0; 1; 2; 3; 4; 5; 6; 7] true; HAddCellV [8; 9; 10; 11; 7; 1; 2; 6] true] in
  cell_check s (cell_at s 1) = true /\ closed_cell_b s 1 = true /\
  forallb (fun hf => match cell_of s hf with Some c => c =? 1 | None => false end) (cell_at s 1) = true /\
  forallb (fun hf => negb (memb (opp hf) (cell_at s 1))) (cell_at s 1) = true.
Proof. vm_compute. repeat split. Qed.
