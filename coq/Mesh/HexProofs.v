(* Mesh/HexProofs.v -- proofs about Mesh/HexModel.v and Mesh/HexIterModel.v (C16): valence shape as an invariant,
   the topology-checked add_cell (rejection leaves the mesh unchanged; what is stored; when the invalid handle of
   the re-ordering path cannot occur), orientation helpers vs. stored positions, the orientation tables (right-handed
   axis algebra, whole domain), the sheet circulators, the first four hex vertices, and whole-domain decisions on
   the canonical cube (all 720 permutations of its halfface list). *)
From Coq Require Import ZArith Lia Bool Arith List ZifyNat ZifyBool.
From OVM Require Import Base.ListX Base.ListLemmas Base.Int32 Gen.HexOrient Kernel.State Kernel.Ops Kernel.DeferredDelete
                        Mesh.TetModel Mesh.HexModel Mesh.HexIterModel Mesh.TetProofs.
Import ListNotations.
Ltac Zify.zify_post_hook ::= Z.div_mod_to_equations.
Local Open Scope nat_scope.

(* ================================================================== 1. valence shape *)

Definition hex_shape (s : mesh) : Prop := kshape 4 6 s.

Lemma shape_hex_add_face s hes chk : hex_shape s -> hex_shape (fst (hex_add_face s hes chk)).
Proof.
  intros K. unfold hex_add_face. destruct (Nat.eqb_spec (length hes) 4) as [E|E]; cbn [negb].
  - apply kshape_add_face; assumption.
  - exact K.
Qed.

Lemma shape_hex_add_face_v s vs : hex_shape s -> hex_shape (fst (hex_add_face_v s vs)).
Proof.
  intros K. unfold hex_add_face_v. destruct (Nat.eqb_spec (length vs) 4) as [E|E]; cbn [negb].
  - apply kshape_add_face_v; assumption.
  - exact K.
Qed.

Lemma all_some_length l : forall r, all_some l = Some r -> length r = length l.
Proof.
  induction l as [|o l IH]; intros r H; [inversion H; reflexivity|].
  cbn [all_some fold_right] in H. fold (all_some l) in H.
  destruct o as [x|]; [|discriminate]. destruct (all_some l) as [t|]; [|discriminate].
  inversion H; subst. simpl. f_equal. apply IH. reflexivity.
Qed.

Lemma upd_length {A} (i : nat) (x : A) l : length (upd i x l) = length l.
Proof. revert i. induction l as [|a l IH]; intros [|i]; simpl; auto. Qed.

Lemma reorder_top_length s hfs : length (reorder_top s hfs) = 6.
Proof.
  unfold reorder_top.
  assert (G : forall l acc, length (fst acc) = 6 ->
     length (fst (fold_left (fun (acc : list (option nat) * nat) he =>
                    let '(ord, idx) := acc in
                    match get_adjacent_halfface s (Some (hx hfs 0)) (Some he) hfs with
                    | None => acc
                    | Some a => (upd (nth idx order_top 0) (Some a) ord, S idx)
                    end) l acc)) = 6).
  { induction l as [|he l IH]; intros [ord idx] H; [exact H|]. cbn [fold_left]. apply IH.
    destruct (get_adjacent_halfface s (Some (hx hfs 0)) (Some he) hfs); [cbn [fst] in *; rewrite upd_length; exact H | exact H]. }
  apply G. cbn [fst]. rewrite upd_length. reflexivity.
Qed.

Lemma shape_hex_add_cell s hfs chk : hex_shape s -> hex_shape (fst (hex_add_cell s hfs chk)).
Proof.
  intros K. unfold hex_add_cell.
  destruct (Nat.eqb_spec (length hfs) 6) as [E|E]; cbn [negb]; [|exact K].
  destruct (negb (forallb _ hfs)); [exact K|].
  destruct chk; cbn [negb].
  - destruct (negb (length (hfs_vertex_set s hfs) =? 8)); [exact K|].
    destruct (check_halfface_ordering s hfs); [apply kshape_add_cell; assumption|].
    destruct (reorder_bottom s hfs) as [b|]; [|exact K].
    destruct (all_some (upd 1 (Some b) (reorder_top s hfs))) as [l|] eqn:A; [|exact K].
    destruct (check_halfface_ordering s l); [|exact K].
    apply kshape_add_cell; [exact K|]. rewrite (all_some_length _ _ A), upd_length. apply reorder_top_length.
  - apply kshape_add_cell; assumption.
Qed.

Lemma shape_hex_add_cell_v s vs chk : hex_shape s -> hex_shape (fst (hex_add_cell_v s vs chk)).
Proof.
  intros K. unfold hex_add_cell_v. destruct (negb (full_bu s)); [exact K|].
  destruct (Nat.eqb_spec (length vs) 8) as [E|E]; cbn [negb]; [|exact K].
  destruct (chk && negb (length (set_of_list vs) =? 8)); [exact K|].
  set (step := fun (acc : mesh * list nat) (qf : list nat * option nat) =>
                 let '(s', l) := acc in
                 match snd qf with
                 | Some hf => (s', l ++ [hf])
                 | None => match add_face_v s' (fst qf) with
                           | (s'', Some f) => (s'', l ++ [2 * f])
                           | (s'', None) => (s'', l ++ [0])
                           end
                 end).
  assert (G : forall qs acc, (forall q, In q qs -> length (fst q) = 4) -> hex_shape (fst acc) ->
              hex_shape (fst (fold_left step qs acc)) /\ length (snd (fold_left step qs acc)) = length (snd acc) + length qs).
  { induction qs as [|q qs IH]; intros [s0 l0] Hq K0; [split; [exact K0 | simpl; lia]|].
    cbn [fold_left]. assert (K1 : hex_shape (fst (step (s0, l0) q)) /\ length (snd (step (s0, l0) q)) = S (length l0)).
    { unfold step. destruct (snd q).
      - cbn [fst snd]. split; [exact K0 | rewrite app_length; simpl; lia].
      - pose proof (kshape_add_face_v 4 6 s0 (fst q) K0 (Hq q (or_introl eq_refl))) as H.
        destruct (add_face_v s0 (fst q)) as [s1 [f|]]; cbn [fst snd] in *; (split; [exact H | rewrite app_length; simpl; lia]). }
    destruct (IH (step (s0, l0) q) (fun x Hx => Hq x (or_intror Hx)) (proj1 K1)) as [A B].
    split; [exact A | rewrite B, (proj2 K1); simpl; lia]. }
  destruct (G (combine (hex_quads vs) (map (find_halfface_extensive s) (hex_quads vs))) (s, [])) as [A B].
  - intros [q f] Hin. apply in_combine_l in Hin. cbn [fst]. unfold hex_quads in Hin.
    repeat destruct Hin as [<-|Hin]; try reflexivity. contradiction.
  - exact K.
  - fold step. destruct (fold_left step _ (s, [])) as [s1 hfs]. cbn [fst snd] in *.
    destruct (chk && negb (closed_by_sets s1 hfs)); [exact A|].
    destruct (chk && fbu s1 && existsb _ hfs); [exact A|].
    apply kshape_add_cell; [exact A|]. rewrite B. reflexivity.
Qed.

(* operations outside the proved part: as for the tet kernel (TetProofs.outside_partial): slow-mode physical removal,
   set_face / set_cell *)
Definition outside_partial_hex (s : mesh) (o : hop) : bool :=
  match o with HK k => outside_partial s (TK k) | HAddCellV _ _ => false end.

Theorem hex_shape_step s o s' r : hex_shape s -> outside_partial_hex s o = false -> hex_step s o = HROk s' r -> hex_shape s'.
Proof.
  intros K O. unfold hex_step. destruct (hex_valid s o) eqn:V; [|discriminate].
  destruct (hex_exec s o) as [s1 r1] eqn:E. intros H. inversion H; subst. clear H.
  destruct o as [k|vs chk]; cbn [hex_exec] in E; cbn [hex_valid] in V.
  - cbn [outside_partial_hex] in O.
    destruct k; try (unfold hex_shape in *; eapply (shape_exec_kernel 4 6); [exact K | exact V | exact O | | | | exact E]; intros; discriminate).
    + pose proof (shape_hex_add_face s hes check K) as H. rewrite E in H. exact H.
    + pose proof (shape_hex_add_face_v s vs K) as H. rewrite E in H. exact H.
    + pose proof (shape_hex_add_cell s hfs check K) as H. rewrite E in H. exact H.
  - pose proof (shape_hex_add_cell_v s vs chk K) as H. rewrite E in H. exact H.
Qed.

Fixpoint inside_along_hex (s : mesh) (ops : list hop) : Prop :=
  match ops with
  | [] => True
  | o :: t => match hex_step s o with
              | HROk s' _ => outside_partial_hex s o = false /\ inside_along_hex s' t
              | _ => inside_along_hex s t
              end
  end.

Theorem hex_shape_run_from : forall ops s, hex_shape s -> inside_along_hex s ops -> hex_shape (hex_run_from s ops).
Proof.
  induction ops as [|o t IH]; intros s K H; [exact K|].
  unfold hex_run_from. simpl. fold (hex_run_from (match hex_step s o with HROk s' _ => s' | _ => s end) t).
  simpl in H. destruct (hex_step s o) as [s' r|] eqn:E.
  - destruct H as [O H]. apply IH; [eapply hex_shape_step; eassumption | exact H].
  - apply IH; assumption.
Qed.

Theorem hex_shape_run ops : inside_along_hex empty_mesh ops -> hex_shape (hex_run ops).
Proof. apply hex_shape_run_from. split; constructor. Qed.

(* ================================================================== 2. the orientation tables: right-handed axis algebra *)

Local Open Scope Z_scope.

(* XF, XB = +x, -x;  YF, YB = +y, -y;  ZF, ZB = +z, -z *)
Definition axis_vec (o : Z) : Z * Z * Z :=
  if o =? HEX_XF then (1, 0, 0) else if o =? HEX_XB then (-1, 0, 0) else
  if o =? HEX_YF then (0, 1, 0) else if o =? HEX_YB then (0, -1, 0) else
  if o =? HEX_ZF then (0, 0, 1) else if o =? HEX_ZB then (0, 0, -1) else (0, 0, 0).

Definition cross (a b : Z * Z * Z) : Z * Z * Z :=
  let '(a1, a2, a3) := a in let '(b1, b2, b3) := b in (a2 * b3 - a3 * b2, a3 * b1 - a1 * b3, a1 * b2 - a2 * b1).

Definition vec_eqb (a b : Z * Z * Z) : bool :=
  let '(a1, a2, a3) := a in let '(b1, b2, b3) := b in (a1 =? b1) && (a2 =? b2) && (a3 =? b3).

Definition neg_vec (a : Z * Z * Z) : Z * Z * Z := let '(a1, a2, a3) := a in (- a1, - a2, - a3).

Definition orientations : list Z := [HEX_XF; HEX_XB; HEX_YF; HEX_YB; HEX_ZF; HEX_ZB].

Definition orth_ok (a b : Z) : bool :=
  let r := HEX_orthogonal_orientation a b in
  if vec_eqb (cross (axis_vec a) (axis_vec b)) (0, 0, 0)
  then r =? HEX_INVALID                                            (* parallel axes: no orthogonal direction *)
  else existsb (Z.eqb r) orientations && vec_eqb (axis_vec r) (cross (axis_vec a) (axis_vec b)).

Definition opp_ok (a : Z) : bool :=
  existsb (Z.eqb (HEX_opposite_orientation a)) orientations &&
  vec_eqb (axis_vec (HEX_opposite_orientation a)) (neg_vec (axis_vec a)) &&
  (HEX_opposite_orientation (HEX_opposite_orientation a) =? a) &&
  (Z.div (HEX_opposite_orientation a) 2 =? Z.div a 2) && negb (HEX_opposite_orientation a =? a).

Lemma tables_ok : forallb (fun a => opp_ok a && forallb (orth_ok a) orientations) orientations = true.
Proof. vm_compute. reflexivity. Qed.

Lemma vec_eqb_eq a b : vec_eqb a b = true -> a = b.
Proof.
  destruct a as [[a1 a2] a3], b as [[b1 b2] b3]. unfold vec_eqb. rewrite !andb_true_iff, !Z.eqb_eq.
  intros [[-> ->] ->]. reflexivity.
Qed.

(* all 36 cases: orthogonal_orientation is the cross product of the two axis directions (INVALID for parallel
   ones), hence antisymmetric and right-handed: x cross y = z *)
Theorem orthogonal_orientation_is_cross_product a b : In a orientations -> In b orientations ->
  (cross (axis_vec a) (axis_vec b) = (0, 0, 0) -> HEX_orthogonal_orientation a b = HEX_INVALID) /\
  (cross (axis_vec a) (axis_vec b) <> (0, 0, 0) ->
     In (HEX_orthogonal_orientation a b) orientations /\
     axis_vec (HEX_orthogonal_orientation a b) = cross (axis_vec a) (axis_vec b)).
Proof.
  intros Ha Hb. pose proof (proj1 (forallb_forall _ _) tables_ok a Ha) as K. apply andb_true_iff in K. destruct K as [_ K].
  pose proof (proj1 (forallb_forall _ _) K b Hb) as Q. unfold orth_ok in Q. split; intros C.
  - rewrite C in Q. cbn [vec_eqb] in Q. change ((0 =? 0) && (0 =? 0) && (0 =? 0)) with true in Q. cbv iota in Q.
    apply Z.eqb_eq. exact Q.
  - destruct (vec_eqb (cross (axis_vec a) (axis_vec b)) (0, 0, 0)) eqn:V; [apply vec_eqb_eq in V; contradiction|].
    apply andb_true_iff in Q. destruct Q as [Q1 Q2]. split; [|apply vec_eqb_eq; exact Q2].
    apply existsb_exists in Q1. destruct Q1 as (x&Hx&E). apply Z.eqb_eq in E. rewrite E. exact Hx.
Qed.

Theorem opposite_orientation_is_negation a : In a orientations ->
  In (HEX_opposite_orientation a) orientations /\ axis_vec (HEX_opposite_orientation a) = neg_vec (axis_vec a) /\
  HEX_opposite_orientation (HEX_opposite_orientation a) = a /\ HEX_opposite_orientation a <> a /\
  Z.div (HEX_opposite_orientation a) 2 = Z.div a 2.
Proof.
  intros Ha. pose proof (proj1 (forallb_forall _ _) tables_ok a Ha) as K. apply andb_true_iff in K. destruct K as [K _].
  unfold opp_ok in K. repeat (apply andb_true_iff in K; destruct K as [K ?]).
  apply existsb_exists in K. destruct K as (x&Hx&E). apply Z.eqb_eq in E.
  repeat match goal with H : (_ =? _) = true |- _ => apply Z.eqb_eq in H | H : negb (_ =? _) = true |- _ => apply negb_true_iff in H; apply Z.eqb_neq in H end.
  repeat split; try assumption; [rewrite E; exact Hx | apply vec_eqb_eq; assumption].
Qed.

Example right_handed : HEX_orthogonal_orientation HEX_XF HEX_YF = HEX_ZF /\ HEX_orthogonal_orientation HEX_YF HEX_XF = HEX_ZB /\
  HEX_orthogonal_orientation HEX_XF HEX_XB = HEX_INVALID.
Proof. vm_compute. repeat split. Qed.

Local Open Scope nat_scope.

(* ================================================================== 3. orientation helpers vs. stored positions *)

Lemma find_index_from_first {A} (p : A -> bool) (l : list A) (i : nat) (d : A) : forall k,
  i < length l -> p (nth i l d) = true -> (forall j, j < i -> p (nth j l d) = false) ->
  find_index_from p l k = Some (k + i).
Proof.
  revert i. induction l as [|x l IH]; intros i k Hi Hp Hn; [simpl in Hi; lia|].
  cbn [find_index_from]. destruct i as [|i].
  - simpl in Hp. rewrite Hp. f_equal. lia.
  - pose proof (Hn 0 ltac:(lia)) as H0. simpl in H0. rewrite H0.
    rewrite (IH i (S k)); [f_equal; lia | simpl in Hi; lia | exact Hp |].
    intros j Hj. exact (Hn (S j) ltac:(lia)).
Qed.

(* a cell whose six stored halffaces are pairwise different *)
Section Positions.
  Variables (s : mesh) (c : nat) (l : list nat).
  Hypothesis Hl : cell_at s c = l.
  Hypothesis Hlen : length l = 6.
  Hypothesis Hnd : NoDup l.

  Theorem orientation_is_position i : i < 6 -> orientation s (nth i l 0) c = Z.of_nat i.
  Proof.
    intros Hi. unfold orientation, find_index. rewrite Hl.
    rewrite (find_index_from_first _ l i 0 0); [reflexivity | lia | apply Nat.eqb_refl |].
    intros j Hj. apply Nat.eqb_neq. intros E.
    assert (i = j); [|lia]. apply (proj1 (NoDup_nth l 0) Hnd); [lia | lia | exact E].
  Qed.

  Theorem orientation_invalid hf : ~ In hf l -> orientation s hf c = HEX_INVALID.
  Proof.
    intros H. unfold orientation, find_index. rewrite Hl.
    assert (G : forall k, find_index_from (Nat.eqb hf) l k = None).
    { clear Hlen Hnd Hl. induction l as [|x t IH]; intros k; [reflexivity|]. cbn [find_index_from].
      destruct (Nat.eqb_spec hf x) as [E|E]; [exfalso; apply H; left; congruence|]. apply IH. intros F. apply H. right. exact F. }
    rewrite G. reflexivity.
  Qed.

  Theorem accessor_is_position i : i < 6 ->
    oriented_slot s (Z.of_nat i) c = Some (nth i l 0) /\ get_oriented_halfface s (Z.of_nat i) c = Some (Some (nth i l 0)).
  Proof.
    intros Hi. assert (A : oriented_slot s (Z.of_nat i) c = Some (nth i l 0)).
    { unfold oriented_slot, rd. rewrite Nat2Z.id, Hl. apply nth_error_nth'. lia. }
    split; [exact A|]. unfold get_oriented_halfface, bind. rewrite A.
    do 6 (destruct i as [|i]; [reflexivity|]). lia.
  Qed.

  (* opposite_halfface_handle_in_cell = the halfface stored at the opposite position (position xor 1) *)
  Theorem opposite_in_cell_is_opposite_position i : i < 6 ->
    opposite_halfface_in_cell s (nth i l 0) c = Some (Some (nth (Z.to_nat (HEX_opposite_orientation (Z.of_nat i))) l 0)).
  Proof.
    intros Hi. unfold opposite_halfface_in_cell. rewrite (orientation_is_position i Hi).
    assert (Sl : forall j, j < 6 -> oriented_slot s (Z.of_nat j) c = Some (nth j l 0)) by (intros j Hj; apply (accessor_is_position j Hj)).
    pose proof (Sl 0 ltac:(lia)) as S0. pose proof (Sl 1 ltac:(lia)) as S1. pose proof (Sl 2 ltac:(lia)) as S2.
    pose proof (Sl 3 ltac:(lia)) as S3. pose proof (Sl 4 ltac:(lia)) as S4. pose proof (Sl 5 ltac:(lia)) as S5.
    cbv beta iota delta [Z.of_nat Pos.of_succ_nat Pos.succ] in S0, S1, S2, S3, S4, S5.
    destruct i as [|[|[|[|[|[|i]]]]]]; [| | | | | | exfalso; clear - Hi; lia];
      cbv beta iota delta [HEX_XF HEX_XB HEX_YF HEX_YB HEX_ZF HEX_ZB Z.eqb Pos.eqb Z.of_nat Pos.of_succ_nat Pos.succ];
      unfold bind;
      [rewrite S1 | rewrite S0 | rewrite S3 | rewrite S2 | rewrite S5 | rewrite S4]; reflexivity.
  Qed.
End Positions.

(* ================================================================== 4. the topology-checked add_cell *)

Lemma append_cell_handle s l : snd (append_cell s l) = nc s.
Proof. unfold append_cell. cbv zeta. destruct (fbu _); reflexivity. Qed.

(* the halfface lists of a state do not depend on its cells: the ordering check of a stored list is the check that
   was made when it was accepted *)
Lemma halfface_faces s t hf : faces t = faces s -> halfface t hf = halfface s hf.
Proof. intros E. unfold halfface, face_at. rewrite E. reflexivity. Qed.

Lemma find_ext' {A} (f g : A -> bool) l : (forall x, f x = g x) -> find f l = find g l.
Proof. intros H. induction l as [|x l IH]; [reflexivity|]. simpl. rewrite H, IH. reflexivity. Qed.

Lemma get_adjacent_faces s t a b l : faces t = faces s -> get_adjacent_halfface t a b l = get_adjacent_halfface s a b l.
Proof.
  intros E. unfold get_adjacent_halfface. destruct b; [|reflexivity]. apply find_ext'. intros x.
  rewrite (halfface_faces s t x E). reflexivity.
Qed.

Lemma check_ordering_faces s t l : faces t = faces s -> edges t = edges s -> check_halfface_ordering t l = check_halfface_ordering s l.
Proof.
  intros E EE. unfold check_halfface_ordering, ord_pass. rewrite !(hf_vertices_same s t _ E EE). rewrite !(halfface_faces s t _ E).
  assert (G : forall self first order hes st,
              fold_left (ord_step t l self first order) hes st = fold_left (ord_step s l self first order) hes st).
  { intros self first order. induction hes as [|he hes IH]; intros st; [reflexivity|]. cbn [fold_left]. rewrite IH. f_equal.
    unfold ord_step. destruct st as [[o|]|]; try reflexivity; rewrite (get_adjacent_faces s t _ _ _ E); reflexivity. }
  rewrite !G. reflexivity.
Qed.

Lemma add_cell_edges s l chk : edges (fst (add_cell s l chk)) = edges s.
Proof.
  unfold add_cell. destruct (chk && negb (cell_check s l)); [reflexivity|]. pose proof (edges_append_cell s l) as E.
  destruct (append_cell s l). exact E.
Qed.

(* base add_cell with check: rejected and unchanged, or the list appended as cell nc s *)
Lemma add_cell_cases s l chk : (add_cell s l chk = (s, None)) \/
  exists s', add_cell s l chk = (s', Some (nc s)) /\ cells s' = cells s ++ [l] /\ faces s' = faces s.
Proof.
  unfold add_cell. destruct (chk && negb (cell_check s l)); [left; reflexivity|]. right.
  destruct (fc_append_cell s l) as (a&b&_). pose proof (append_cell_handle s l) as R.
  destruct (append_cell s l) as [s' c]. cbn [fst snd] in *. subst c. exists s'. repeat split; assumption.
Qed.

(* THE CONTRACT of the topology-checked add_cell (after the fix "checked hex add_cell must reject what the re-ordering
   could not bring into order"): it returns the invalid handle and leaves the mesh unchanged, or it appends exactly one
   cell whose stored list of six halffaces - the given list, or its re-ordering starting with the same halfface
   entries - passes the ordering check (neighbours of the first halfface in the order 2,4,3,5, of the second in the
   order 3,4,2,5) in the new state; no face is touched *)
Theorem hex_add_cell_checked s hfs s' r : hex_add_cell s hfs true = (s', r) ->
  (r = None /\ s' = s) \/
  (exists l, r = Some (nc s) /\ cells s' = cells s ++ [l] /\ faces s' = faces s /\ cell_at s' (nc s) = l /\ length l = 6 /\
             check_halfface_ordering s' l = true /\
             (l = hfs \/ exists b, reorder_bottom s hfs = Some b /\ all_some (upd 1 (Some b) (reorder_top s hfs)) = Some l)).
Proof.
  unfold hex_add_cell.
  destruct (Nat.eqb_spec (length hfs) 6) as [E|E]; cbn [negb]; [|intros H; inversion H; left; split; reflexivity].
  destruct (negb (forallb _ hfs)); [intros H; inversion H; left; split; reflexivity|].
  cbn [negb]. destruct (negb (length (hfs_vertex_set s hfs) =? 8)); [intros H; inversion H; left; split; reflexivity|].
  assert (G : forall l, length l = 6 -> check_halfface_ordering s l = true -> add_cell s l true = (s', r) ->
              (r = None /\ s' = s) \/
              (exists l0, r = Some (nc s) /\ cells s' = cells s ++ [l0] /\ faces s' = faces s /\ cell_at s' (nc s) = l0 /\ length l0 = 6 /\
                          check_halfface_ordering s' l0 = true /\ l0 = l)).
  { intros l L C H. pose proof (add_cell_edges s l true) as EE. rewrite H in EE. cbn [fst] in EE.
    destruct (add_cell_cases s l true) as [R|(s1&R&Cs&Fs)]; rewrite R in H; inversion H; subst.
    - left. split; reflexivity.
    - right. exists l. repeat split; try assumption.
      + unfold cell_at, nc. rewrite Cs, app_nth2, Nat.sub_diag by lia. reflexivity.
      + rewrite (check_ordering_faces s s' l Fs EE). exact C. }
  destruct (check_halfface_ordering s hfs) eqn:C.
  - intros H. destruct (G hfs E C H) as [L|(l0&a&b&c&d&e&f&g)]; [left; exact L|]. rewrite g in *. right. exists hfs. repeat split; try assumption. left. reflexivity.
  - destruct (reorder_bottom s hfs) as [b|] eqn:B; [|intros H; inversion H; left; split; reflexivity].
    destruct (all_some (upd 1 (Some b) (reorder_top s hfs))) as [l|] eqn:A; [|intros H; inversion H; left; split; reflexivity].
    destruct (check_halfface_ordering s l) eqn:Cl; [|intros H; inversion H; left; split; reflexivity].
    pose proof (all_some_length _ _ A) as Ll. rewrite upd_length, reorder_top_length in Ll.
    intros H. destruct (G l Ll Cl H) as [L|(l0&a&b0&c&d&e&f&g)]; [left; exact L|]. rewrite g in *. right. exists l. repeat split; try assumption.
    right. exists b. split; [reflexivity | exact A].
Qed.

(* the re-ordering on a halfface with four halfedges each of which has a neighbour in the list: no invalid entry, the
   four neighbours land on positions 2, 4, 3, 5 in the order of the halfedges *)
Lemma reorder_top_four s hfs e0 e1 e2 e3 a0 a1 a2 a3 :
  halfface s (hx hfs 0) = [e0; e1; e2; e3] ->
  get_adjacent_halfface s (Some (hx hfs 0)) (Some e0) hfs = Some a0 ->
  get_adjacent_halfface s (Some (hx hfs 0)) (Some e1) hfs = Some a1 ->
  get_adjacent_halfface s (Some (hx hfs 0)) (Some e2) hfs = Some a2 ->
  get_adjacent_halfface s (Some (hx hfs 0)) (Some e3) hfs = Some a3 ->
  reorder_top s hfs = [Some (hx hfs 0); None; Some a0; Some a2; Some a1; Some a3].
Proof. intros H A0 A1 A2 A3. unfold reorder_top. rewrite H. cbn [fold_left]. rewrite A0, A1, A2, A3. reflexivity. Qed.

(* ================================================================== 5. sheet circulators *)

(* cell_sheet_cells(c, d) reports exactly the cells incident to the opposite halfface of a halfface of c whose
   position is neither d nor the opposite of d - strictly ascending, hence without duplicates *)
Theorem cell_sheet_cells_spec s c d n : fbu s = true ->
  (In n (cell_sheet_cells s c d) <->
   exists hf, In hf (cell_at s c) /\ orientation s hf c <> d /\ orientation s hf c <> HEX_opposite_orientation d /\
              cell_of s (opp hf) = Some n).
Proof.
  intros F. unfold cell_sheet_cells. rewrite F. cbn [negb]. rewrite set_of_list_In, in_flat_map. split.
  - intros (hf&Hin&H). exists hf. split; [exact Hin|].
    destruct (Z.eqb_spec (orientation s hf c) d) as [E|E]; cbn [negb andb] in H; [contradiction|].
    destruct (Z.eqb_spec (orientation s hf c) (HEX_opposite_orientation d)) as [E'|E']; cbn [negb] in H; [contradiction|].
    destruct (cell_of s (opp hf)) as [m|]; [|contradiction]. destruct H as [<-|[]]. repeat split; assumption.
  - intros (hf&Hin&N1&N2&C). exists hf. split; [exact Hin|].
    destruct (Z.eqb_spec (orientation s hf c) d) as [E|E]; [contradiction|].
    destruct (Z.eqb_spec (orientation s hf c) (HEX_opposite_orientation d)) as [E'|E']; [contradiction|].
    cbn [negb andb]. rewrite C. left. reflexivity.
Qed.

Theorem cell_sheet_cells_sorted s c d : strictly_sorted (cell_sheet_cells s c d).
Proof. unfold cell_sheet_cells. destruct (negb (fbu s)); [constructor | apply set_of_list_sorted]. Qed.

(* halfface_sheet_halffaces(hf): the matching halffaces of the sheet neighbours of hf's cell in hf's own direction *)
Theorem halfface_sheet_spec s hf hf' e : fbu s = true ->
  (In (hf', e) (halfface_sheet_halffaces s hf) <->
   exists ch n he, cell_of s hf = Some ch /\ In n (cell_sheet_cells s ch (orientation s hf ch)) /\ In hf' (cell_at s n) /\
                   find (fun h => memb h (halfface s (opp hf))) (halfface s hf') = Some he /\ e = he / 2).
Proof.
  intros F. unfold halfface_sheet_halffaces. rewrite F. cbn [negb]. destruct (cell_of s hf) as [ch|].
  - rewrite in_flat_map. split.
    + intros (n&Hn&H). rewrite in_flat_map in H. destruct H as (x&Hx&H).
      destruct (find _ (halfface s x)) as [he|] eqn:Fd; [|contradiction]. destruct H as [H|[]]. inversion H; subst.
      exists ch, n, he. repeat split; assumption.
    + intros (ch'&n&he&E&Hn&Hx&Fd&->). inversion E; subst ch'. exists n. split; [exact Hn|].
      rewrite in_flat_map. exists hf'. split; [exact Hx|]. rewrite Fd. left. reflexivity.
  - split; [contradiction|]. intros (ch&n&he&E&_). discriminate.
Qed.

(* ================================================================== 6. hex_vertices: the first four *)

Lemma find_index_nodup (l : list nat) i : NoDup l -> i < length l -> find_index (Nat.eqb (nth i l 0)) l = Some i.
Proof.
  intros ND Hi. unfold find_index. rewrite (find_index_from_first _ l i 0 0); [reflexivity | exact Hi | apply Nat.eqb_refl|].
  intros j Hj. apply Nat.eqb_neq. intros E. assert (i = j); [|lia]. apply (proj1 (NoDup_nth l 0) ND); [lia | lia | exact E].
Qed.

(* first four: the first halfface's vertices AGAINST its cyclic order, starting at the source of its first halfedge *)
Theorem hex_vertices_first_four s c hfs hf0 e0 e1 e2 e3 l :
  nth_error (cells s) c = Some hfs -> nth_error hfs 0 = Some hf0 -> halfface s hf0 = [e0; e1; e2; e3] -> NoDup [e0; e1; e2; e3] ->
  hex_vertices s c = Some l -> firstn 4 l = [he_from s e0; he_from s e3; he_from s e2; he_from s e1].
Proof.
  intros Hc H0 Hf ND. unfold hex_vertices, bind, rd, prev_he_in_hf. rewrite Hc, H0, Hf. cbn [nth_error].
  assert (P0 : prev_he_in_hf_list [e0; e1; e2; e3] e0 = Some e3).
  { unfold prev_he_in_hf_list. pose proof (find_index_nodup [e0; e1; e2; e3] 0 ND ltac:(simpl; lia)) as X. cbn [nth] in X. rewrite X. reflexivity. }
  assert (P3 : prev_he_in_hf_list [e0; e1; e2; e3] e3 = Some e2).
  { unfold prev_he_in_hf_list. pose proof (find_index_nodup [e0; e1; e2; e3] 3 ND ltac:(simpl; lia)) as X. cbn [nth] in X. rewrite X. reflexivity. }
  assert (P2 : prev_he_in_hf_list [e0; e1; e2; e3] e2 = Some e1).
  { unfold prev_he_in_hf_list. pose proof (find_index_nodup [e0; e1; e2; e3] 2 ND ltac:(simpl; lia)) as X. cbn [nth] in X. rewrite X. reflexivity. }
  assert (P1 : prev_he_in_hf_list [e0; e1; e2; e3] e1 = Some e0).
  { unfold prev_he_in_hf_list. pose proof (find_index_nodup [e0; e1; e2; e3] 1 ND ltac:(simpl; lia)) as X. cbn [nth] in X. rewrite X. reflexivity. }
  rewrite P0, P3, P2, P1.
  destruct (adjacent_halfface_in_cell s hf0 e0) as [hf1|]; [|discriminate].
  destruct (next_he_o s (next_he_in_hf s (opp e0) hf1) (Some hf1)) as [e7|]; [|discriminate].
  intros H. inversion H. reflexivity.
Qed.

(* ================================================================== 7. whole-domain decisions on the canonical cube *)

(* the cube built by add_cell from eight vertices on an empty mesh *)
Definition cube_mesh : mesh := hex_run [HK (AddVertices 8); HAddCellV [0; 1; 2; 3; 4; 5; 6; 7] true].
Definition cube_faces : mesh := hex_run [HK (AddVertices 8); HAddCellV [0; 1; 2; 3; 4; 5; 6; 7] true; HK (EnableDeferred false); HK (DelCell 0)].

Example cube_mesh_layout :
  cell_at cube_mesh 0 = [0; 2; 4; 6; 8; 10] /\ hex_layout cube_mesh (cell_at cube_mesh 0) = true /\
  check_halfface_ordering cube_mesh (cell_at cube_mesh 0) = true /\
  hex_vertices cube_mesh 0 = Some [3; 0; 1; 2; 5; 6; 7; 4] /\ nc cube_faces = 0 /\ nf cube_faces = 6.
Proof. vm_compute. repeat split. Qed.

Fixpoint insert_all (x : nat) (l : list nat) : list (list nat) :=
  match l with
  | [] => [[x]]
  | y :: t => (x :: l) :: map (cons y) (insert_all x t)
  end.
Fixpoint perms (l : list nat) : list (list nat) :=
  match l with
  | [] => [[]]
  | x :: t => flat_map (insert_all x) (perms t)
  end.

(* one permutation: accepted, stored list is a permutation of the given one, satisfies the documented layout AND the
   library's own ordering check, and starts with the first given halfface *)
Definition perm_ok (p : list nat) : bool :=
  match hex_add_cell cube_faces p true with
  | (s', Some c) =>
      let l := cell_at s' c in
      (c =? 0) && (if list_eq_dec Nat.eq_dec (sort_nat l) (sort_nat p) then true else false) &&
      hex_layout s' l && check_halfface_ordering s' l && (nth 0 l 0 =? nth 0 p 0)
  | _ => false
  end.

Lemma all_720_permutations_ok : length (perms [0; 2; 4; 6; 8; 10]) = 720 /\ forallb perm_ok (perms [0; 2; 4; 6; 8; 10]) = true.
Proof. vm_compute. split; reflexivity. Qed.

(* every one of the 720 orderings of the canonical cube's halffaces is accepted by the checked add_cell and stored
   in the documented layout *)
Theorem checked_add_cell_reorders_every_permutation p : In p (perms [0; 2; 4; 6; 8; 10]) ->
  exists s' , hex_add_cell cube_faces p true = (s', Some 0) /\
              hex_layout s' (cell_at s' 0) = true /\ check_halfface_ordering s' (cell_at s' 0) = true /\
              nth 0 (cell_at s' 0) 0 = nth 0 p 0.
Proof.
  intros H. pose proof (proj1 (forallb_forall _ _) (proj2 all_720_permutations_ok) p H) as K. unfold perm_ok in K.
  destruct (hex_add_cell cube_faces p true) as [s' [c|]]; try discriminate.
  repeat (apply andb_true_iff in K; destruct K as [K ?]). apply Nat.eqb_eq in K. subst c.
  exists s'. repeat split; try assumption. apply Nat.eqb_eq. assumption.
Qed.

(* the two former counterexamples are now rejected with the mesh unchanged: six live quad halffaces that are not a
   hexahedron (the re-ordering leaves an invalid handle) ... *)
Definition ub_witness : list hop :=
  [HK (AddVertices 12);
   HK (AddFaceV [0; 1; 5; 4]); HK (AddFaceV [0; 3; 2; 1]); HK (AddFaceV [4; 5; 6; 7]); HK (AddFaceV [1; 2; 6; 5]);
   HK (AddFaceV [2; 3; 7; 6]); HK (AddFaceV [3; 0; 4; 7]); HK (AddFaceV [8; 9; 10; 11])].

Example invalid_handle_list_rejected :
  let s := hex_run ub_witness in
  hex_valid s (HK (AddCell [5; 7; 9; 11; 3; 12] true)) = true /\ hex_step s (HK (AddCell [5; 7; 9; 11; 3; 12] true)) = HROk s None.
Proof. vm_compute. split; reflexivity. Qed.

(* ... and a closed surface of six quads that is not a cube (a quadrangulation of the sphere with a vertex of degree
   two): T=(0,1,2,3) S1=(1,0,4,5) S2=(2,1,5,6) S3=(3,2,6,7) S4=(6,0,3,7) B=(5,4,0,6) *)
Definition weird_sphere : list hop :=
  [HK (AddVertices 8); HK (AddFaceV [0; 1; 2; 3]); HK (AddFaceV [1; 0; 4; 5]); HK (AddFaceV [2; 1; 5; 6]);
   HK (AddFaceV [3; 2; 6; 7]); HK (AddFaceV [6; 0; 3; 7]); HK (AddFaceV [5; 4; 0; 6])].

Example non_cube_surface_rejected :
  let s := hex_run weird_sphere in
  hex_step s (HK (AddCell [0; 2; 4; 6; 8; 10] true)) = HROk s None /\ cell_check s [0; 10; 2; 6; 4; 8] = true.
Proof. vm_compute. split; reflexivity. Qed.
