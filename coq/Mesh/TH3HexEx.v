(* Mesh/TH3HexEx.v -- C16, cells created from eight vertices: the decidable form of the hypothesis, its derivation from the kernel's
   history invariant, non-vacuity (a cell created inside a 2 x 2 x 1 block on two existing faces; a cell stacked on an existing face,
   found as the FIRST halfface) and the refutations showing that each part of cre_inv is needed. *)
From Coq Require Import ZArith Lia Bool Arith List ZifyNat ZifyBool.
From OVM Require Import Base.ListX Base.ListLemmas Kernel.State Kernel.Ops Kernel.Mirror Kernel.Closure Kernel.ExactInv
                        Kernel2.ExactBase Kernel3.GcDefs Kernel3.GcInv Kernel4.AllDefs Kernel4.AllBridges
                        Mesh.TetModel Mesh.HexModel Mesh.HexIterModel Mesh.HexProofs Mesh.TH2CollapseBase Mesh.TH2CollapseLoop
                        Mesh.TH2HexBase Mesh.TH2HexFrame Mesh.TH2HexMain Mesh.TH3Base Mesh.TH3HexQuad Mesh.TH3HexCube Mesh.TH3HexMain Mesh.TH3HexVerts.
Import ListNotations.
Ltac Zify.zify_post_hook ::= Z.div_mod_to_equations.
Local Open Scope nat_scope.

(* ================================================================== the hypothesis, decidably *)

Definition cre_inv_b (s : mesh) : bool := ginv_b s && faces_loop_b s && face_edges_live_b s && no_par_b s.

Lemma cre_inv_b_sound s : cre_inv_b s = true -> cre_inv s.
Proof.
  unfold cre_inv_b. rewrite !andb_true_iff. intros [[[G L] E] N]. apply ginv_b_sound in G. destruct G as (B & _).
  split; [exact B|]. split; [apply faces_loop_b_sound; exact L|]. split; [apply face_edges_live_b_sound; exact E | apply no_par_b_sound; exact N].
Qed.

(* from the invariant of the unified history theorem (Props/Properties_C01_all.v: it holds in every reachable state), closed faces
   (Kernel4/AllClosed.v: in every state of a history whose faces were added as closed loops) and no parallel edges *)
Theorem cre_inv_of_full_inv s : full_inv s -> faces_closed s -> no_par s -> cre_inv s.
Proof.
  intros (A & _) FC NP. pose proof (all_inv_ginv s A) as (B & _ & (_ & U2 & _) & _).
  split; [exact B|]. split; [|split; [|exact NP]].
  - intros f Hf D. apply loop_ok_spec. exact (FC f Hf D).
  - intros f Hf D h Hh. exact (U2 f Hf D h Hh).
Qed.

(* ================================================================== non-vacuity *)

(* three cells of a 2 x 2 x 1 block; the fourth is created on two existing faces: its FIRST halfface (found, halfface 15) and its
   last one (halfface 29) *)
Definition th3_three : mesh :=
  hex_run [HK (AddVertices 18);
           HAddCellV [0; 1; 2; 3; 4; 5; 6; 7] true; HAddCellV [8; 9; 10; 11; 7; 1; 2; 6] true; HAddCellV [12; 13; 14; 15; 2; 3; 5; 6] true].
Definition th3_vs4 : list nat := [9; 10; 2; 6; 16; 13; 12; 17].
Definition th3_block : mesh := fst (hex_add_cell_v th3_three th3_vs4 true).

Example created_in_block_hypotheses :
  cre_inv th3_three /\ hex_shape th3_three /\ NoDup th3_vs4 /\ (forall v, In v th3_vs4 -> v < nv th3_three) /\
  hex_add_cell_v th3_three th3_vs4 true = (th3_block, Some 3) /\
  map (find_halfface_extensive th3_three) (hex_quads th3_vs4) = [Some 15; None; None; None; None; Some 29].
Proof.
  split; [apply cre_inv_b_sound; vm_compute; reflexivity|]. split; [apply hex_shape_b_ok; vm_compute; reflexivity|].
  split; [apply nodup_b_spec; vm_compute; reflexivity|].
  split; [intros v Hv; apply Nat.ltb_lt; revert v Hv; apply forallb_forall; vm_compute; reflexivity|].
  split; vm_compute; reflexivity.
Qed.

(* what the theorems give for it (not computed) *)
Example created_in_block_applies :
  hex_cell_wf_b th3_block 3 = true /\ check_halfface_ordering th3_block (cell_at th3_block 3) = true /\
  exists j, j < 4 /\ hex_vertices th3_block 3 = Some (hexv_rot j th3_vs4).
Proof.
  destruct created_in_block_hypotheses as (C & K & ND & RV & CALL & _).
  destruct (created_cell th3_three th3_block 9 10 2 6 16 13 12 17 true 3 C ND RV CALL) as (h0 & h1 & h2 & h3 & h4 & h5 & _ & _ & CA & _ & _ & _ & _ & _ & _ & _ & WF & ORD & _).
  split; [exact WF|]. split; [rewrite CA; exact ORD|].
  destruct (created_hex_vertices th3_three th3_block 9 10 2 6 16 13 12 17 true 3 K C ND RV CALL) as (j & Hj & HV & _). exists j. split; assumption.
Qed.

(* the value: the first halfface was found in the mesh, stored starting at the first given vertex - the output IS the input *)
Example created_in_block_value :
  hex_vertices th3_block 3 = Some th3_vs4 /\ hexv_rot 0 th3_vs4 = th3_vs4 /\ cell_at th3_block 3 = [15; 32; 34; 36; 38; 29] /\ cre_inv_b th3_block = true.
Proof. vm_compute. repeat split. Qed.

(* a cube stacked on the x-back face of the first one: the first halfface is the ODD halfface 3 of an existing face *)
Definition th3_one : mesh := hex_run [HK (AddVertices 12); HAddCellV [0; 1; 2; 3; 4; 5; 6; 7] true].
Definition th3_vs2 : list nat := [7; 6; 5; 4; 8; 11; 10; 9].
Definition th3_stack : mesh := fst (hex_add_cell_v th3_one th3_vs2 true).

Example created_on_found_first_face :
  cre_inv th3_one /\ hex_shape th3_one /\ NoDup th3_vs2 /\ (forall v, In v th3_vs2 -> v < nv th3_one) /\
  hex_add_cell_v th3_one th3_vs2 true = (th3_stack, Some 1) /\
  find_halfface_extensive th3_one [4; 5; 6; 7] = Some 3 /\ hf_vertices th3_stack 3 = [7; 4; 5; 6] /\
  cell_at th3_stack 1 = [3; 12; 14; 16; 18; 20] /\ hex_vertices th3_stack 1 = Some (hexv_rot 0 th3_vs2) /\ hexv_rot 0 th3_vs2 = th3_vs2.
Proof.
  split; [apply cre_inv_b_sound; vm_compute; reflexivity|]. split; [apply hex_shape_b_ok; vm_compute; reflexivity|].
  split; [apply nodup_b_spec; vm_compute; reflexivity|].
  split; [intros v Hv; apply Nat.ltb_lt; revert v Hv; apply forallb_forall; vm_compute; reflexivity|].
  vm_compute. repeat split.
Qed.

(* a first halfface created by the call: rotation 3 *)
Example created_first_face_new :
  let s := hex_run [HK (AddVertices 8)] in let vs := [0; 1; 2; 3; 4; 5; 6; 7] in
  cre_inv s /\ find_halfface_extensive s [3; 2; 1; 0] = None /\
  hex_vertices (fst (hex_add_cell_v s vs false)) 0 = Some (hexv_rot 3 vs) /\ hexv_rot 3 vs = [3; 0; 1; 2; 5; 6; 7; 4].
Proof. cbv zeta. split; [apply cre_inv_b_sound; vm_compute; reflexivity|]. vm_compute. repeat split. Qed.

(* ================================================================== each part of the hypothesis is needed *)

(* (a) parallel edges: the quad (3,2,1,0) exists on the SECOND of two edges between 2 and 1; it is found (the search starts from the
   halfedge 3->2), the neighbour (1,2,6,7) is created on the FIRST edge: the cell is not closed.  add_cell(vertices) without topology
   check accepts it (model and library: replay build/th3/hexv.scripts "parv"); with the check it is rejected. *)
Definition par_pre : mesh :=
  hex_run [HK (AddVertices 8); HK (AddEdge 2 1 false); HK (AddEdge 2 1 true); HK (AddEdge 3 2 false); HK (AddEdge 1 0 false); HK (AddEdge 0 3 false);
           HK (AddFace [4; 2; 6; 8] true)].

Theorem created_cell_without_no_par_refuted :
  exists s vs s' c, bu_inv s /\ faces_loop s /\ face_edges_live s /\ hex_shape s /\ no_par_b s = false /\
    NoDup vs /\ (forall v, In v vs -> v < nv s) /\ hex_add_cell_v s vs false = (s', Some c) /\
    hex_cell_wf_b s' c = false /\ check_halfface_ordering s' (cell_at s' c) = false /\ hex_layout s' (cell_at s' c) = false /\
    snd (hex_add_cell_v s vs true) = None.
Proof.
  exists par_pre, [0; 1; 2; 3; 4; 5; 6; 7], (fst (hex_add_cell_v par_pre [0; 1; 2; 3; 4; 5; 6; 7] false)), 0.
  split; [assert (G : ginv_b par_pre = true) by (vm_compute; reflexivity); apply ginv_b_sound in G; exact (proj1 G)|].
  split; [apply faces_loop_b_sound; vm_compute; reflexivity|]. split; [apply face_edges_live_b_sound; vm_compute; reflexivity|].
  split; [apply hex_shape_b_ok; vm_compute; reflexivity|]. split; [vm_compute; reflexivity|].
  split; [apply nodup_b_spec; vm_compute; reflexivity|].
  split; [intros v Hv; apply Nat.ltb_lt; revert v Hv; apply forallb_forall; vm_compute; reflexivity|].
  vm_compute. repeat split.
Qed.

(* (b) faces that are not closed loops (add_face without check): top (3->2, 2->1, 1->0, 0->4) and y-back (4->5, 5->3, 3->0, 0->3) have the
   right from-vertices - all find_halfface_extensive looks at - and exchange their last halfedges.  The halfedge SET is that of a
   cube, so even the TOPOLOGY-CHECKED add_cell(vertices) accepts (model and library: replay "swapv"); the cell is not well formed. *)
Definition swap_pre : mesh :=
  hex_run [HK (AddVertices 8);
           HK (AddEdge 3 2 false); HK (AddEdge 2 1 false); HK (AddEdge 1 0 false); HK (AddEdge 0 4 false);
           HK (AddEdge 4 5 false); HK (AddEdge 5 3 false); HK (AddEdge 3 0 false);
           HK (AddFace [0; 2; 4; 6] false); HK (AddFace [8; 10; 12; 13] false)].

Theorem created_cell_without_faces_loop_refuted :
  exists s vs s' c, bu_inv s /\ faces_loop_b s = false /\ face_edges_live s /\ no_par s /\ hex_shape s /\
    NoDup vs /\ (forall v, In v vs -> v < nv s) /\ hex_add_cell_v s vs true = (s', Some c) /\
    cell_check s' (cell_at s' c) = true /\
    hex_cell_wf_b s' c = false /\ check_halfface_ordering s' (cell_at s' c) = false /\ hex_layout s' (cell_at s' c) = false.
Proof.
  exists swap_pre, [0; 1; 2; 3; 4; 5; 6; 7], (fst (hex_add_cell_v swap_pre [0; 1; 2; 3; 4; 5; 6; 7] true)), 0.
  split; [assert (G : ginv_b swap_pre = true) by (vm_compute; reflexivity); apply ginv_b_sound in G; exact (proj1 G)|].
  split; [vm_compute; reflexivity|]. split; [apply face_edges_live_b_sound; vm_compute; reflexivity|].
  split; [apply no_par_b_sound; vm_compute; reflexivity|].
  split; [apply hex_shape_b_ok; vm_compute; reflexivity|].
  split; [apply nodup_b_spec; vm_compute; reflexivity|].
  split; [intros v Hv; apply Nat.ltb_lt; revert v Hv; apply forallb_forall; vm_compute; reflexivity|].
  vm_compute. repeat split.
Qed.

(* (c) a repeated vertex: only without topology check (with it the call is rejected since e0de5bf) *)
Theorem created_cell_without_distinct_vertices_refuted :
  exists s vs s' c, cre_inv s /\ hex_shape s /\ (forall v, In v vs -> v < nv s) /\ length vs = 8 /\
    hex_add_cell_v s vs false = (s', Some c) /\ hex_cell_wf_b s' c = false /\ check_halfface_ordering s' (cell_at s' c) = false /\
    hex_vertices s' c = Some [3; 0; 1; 2; 5; 0; 7; 4] /\ snd (hex_add_cell_v s vs true) = None.
Proof.
  exists (hex_run [HK (AddVertices 8)]), [0; 1; 2; 3; 4; 5; 0; 7], (fst (hex_add_cell_v (hex_run [HK (AddVertices 8)]) [0; 1; 2; 3; 4; 5; 0; 7] false)), 0.
  split; [apply cre_inv_b_sound; vm_compute; reflexivity|]. split; [apply hex_shape_b_ok; vm_compute; reflexivity|].
  split; [intros v Hv; apply Nat.ltb_lt; revert v Hv; apply forallb_forall; vm_compute; reflexivity|].
  vm_compute. repeat split.
Qed.

Print Assumptions cre_inv_of_full_inv.
Print Assumptions created_in_block_applies.
Print Assumptions created_cell_without_no_par_refuted.
Print Assumptions created_cell_without_faces_loop_refuted.
Print Assumptions created_cell_without_distinct_vertices_refuted.
