(* Mesh/TH2HexEight.v -- C16, after the fix "checked hex add_cell must reject cells without eight distinct vertices"
   (HexahedralMeshTopologyKernel.cc:103-115, 301-307): every cell ACCEPTED by a topology-checked add_cell - from six
   halffaces (for every state and list) or from eight vertices (under the kernel's cache invariant bu_inv) - has exactly
   eight distinct vertices; the stored halfface list is duplicate-free and consists of the given halffaces. *)
From Coq Require Import ZArith Lia Bool Arith List ZifyNat ZifyBool.
From OVM Require Import Base.ListX Base.ListLemmas Kernel.State Kernel.Ops Kernel.Mirror Kernel.Recompute Kernel.Closure Kernel.CellCheck
                        Kernel.Construct Kernel.ExactInv Kernel.ExactRun
                        Mesh.TetModel Mesh.TetProofs Mesh.HexModel Mesh.HexProofs Mesh.TH2CollapseBase Mesh.TH2CollapseLoop Mesh.TH2HexChecked.
Import ListNotations.
Ltac Zify.zify_post_hook ::= Z.div_mod_to_equations.
Local Open Scope nat_scope.

(* ================================================================== lists *)

Lemma NoDup_concat_map {A} (f : A -> list nat) (l : list A) : NoDup (concat (map f l)) -> (forall x, In x l -> f x <> []) -> NoDup l.
Proof.
  induction l as [|x l IH]; intros ND NE; [constructor|]. cbn [map concat] in ND.
  assert (ND2 : NoDup (concat (map f l))).
  { clear - ND. induction (f x) as [|y t IHt]; [exact ND|]. cbn [app] in ND. inversion ND; subst. apply IHt. assumption. }
  constructor; [|apply IH; [exact ND2 | intros y Hy; apply NE; right; exact Hy]].
  intros Hin. destruct (f x) as [|y t] eqn:E; [exact (NE x (or_introl eq_refl) E)|].
  cbn [app] in ND. inversion ND as [|? ? Nin _]; subst. apply Nin. apply in_or_app. right.
  apply in_concat. exists (f x). split; [apply in_map; exact Hin | rewrite E; left; reflexivity].
Qed.

Lemma vertex_set_same_elements s l m : (forall x, In x l <-> In x m) -> hfs_vertex_set s l = hfs_vertex_set s m.
Proof.
  intros H. unfold hfs_vertex_set. apply strictly_sorted_ext; try apply set_of_list_sorted.
  intros v. rewrite !set_of_list_In, !in_flat_map. split; intros (x & Hx & Hv); exists x; split; try assumption; apply H; exact Hx.
Qed.

Lemma vertex_set_same_state s t l : faces t = faces s -> edges t = edges s -> hfs_vertex_set t l = hfs_vertex_set s l.
Proof. intros F E. unfold hfs_vertex_set. f_equal. apply flat_map_ext. intros hf. apply hf_vertices_same; assumption. Qed.

(* ================================================================== the re-ordered list consists of given halffaces *)

Definition from_list (hfs : list nat) (o : option nat) : Prop := match o with Some x => In x hfs | None => True end.

Lemma get_adjacent_from s a b hfs x : get_adjacent_halfface s a b hfs = Some x -> In x hfs.
Proof. unfold get_adjacent_halfface. destruct b as [he|]; [|discriminate]. intros H. apply find_some in H. exact (proj1 H). Qed.

Lemma Forall_upd_from {A} (P : A -> Prop) i x (l : list A) : Forall P l -> P x -> Forall P (upd i x l).
Proof.
  revert i. induction l as [|a l IH]; intros i F Hx; [destruct i; constructor|].
  inversion F; subst. destruct i; cbn [upd]; constructor; auto.
Qed.

Lemma reorder_top_from_list s hfs : hfs <> [] -> Forall (from_list hfs) (reorder_top s hfs).
Proof.
  intros NE. unfold reorder_top.
  assert (H0 : In (hx hfs 0) hfs) by (unfold hx; apply nth_In; destruct hfs; [contradiction | cbn; lia]).
  match goal with |- Forall _ (fst (fold_left ?f ?l0 ?a)) =>
    assert (G : forall hes acc, Forall (from_list hfs) (fst acc) -> Forall (from_list hfs) (fst (fold_left f hes acc))) end.
  { induction hes as [|he hes IH]; intros [ord idx] F; [exact F|]. cbn [fold_left]. apply IH.
    destruct (get_adjacent_halfface s (Some (hx hfs 0)) (Some he) hfs) as [x|] eqn:G; [|exact F]. cbn [fst] in *.
    apply Forall_upd_from; [exact F | exact (get_adjacent_from _ _ _ _ _ G)]. }
  apply G. cbn [fst]. apply Forall_upd_from; [|exact H0]. apply Forall_forall. intros o Ho. apply repeat_spec in Ho. subst o. exact I.
Qed.

Lemma all_some_from_list hfs : forall l r, Forall (from_list hfs) l -> all_some l = Some r -> forall x, In x r -> In x hfs.
Proof.
  induction l as [|o l IH]; intros r F H x Hx; cbn [all_some fold_right] in H.
  - inversion H; subst. destruct Hx.
  - inversion F as [|? ? Fo Fl]; subst. destruct o as [y|]; [|discriminate].
    fold (all_some l) in H. destruct (all_some l) as [t|] eqn:E; [|discriminate]. inversion H; subst.
    destruct Hx as [<-|Hx]; [exact Fo | exact (IH t Fl eq_refl x Hx)].
Qed.

(* ================================================================== A. add_cell from six halffaces *)

Lemma edges_add_cell s l chk : edges (fst (add_cell s l chk)) = edges s.
Proof. unfold add_cell. destruct (chk && negb (cell_check s l)); [reflexivity|]. pose proof (edges_append_cell s l) as E. destruct (append_cell s l). exact E. Qed.

Lemma cell_check_nodup s l : cell_check s l = true -> (forall x, In x l -> length (face_at s (x / 2)) = 4) -> NoDup l.
Proof.
  intros C F. apply cell_check_spec in C. destruct C as [_ [ND _]]. apply (NoDup_concat_map (halfface s)); [exact ND|].
  intros x Hx E. specialize (F x Hx). unfold halfface in E. destruct (Nat.even x).
  - rewrite E in F. discriminate.
  - apply (f_equal (@length nat)) in E. rewrite rev_length, map_length, F in E. discriminate.
Qed.

Theorem hex_add_cell_checked_eight s hfs s' c : hex_add_cell s hfs true = (s', Some c) ->
  length (hfs_vertex_set s' (cell_at s' c)) = 8 /\ NoDup (cell_at s' c) /\ (forall x, In x (cell_at s' c) <-> In x hfs).
Proof.
  intros H. unfold hex_add_cell in H.
  destruct (Nat.eqb_spec (length hfs) 6) as [L6|L6]; cbn [negb] in H; [|discriminate].
  destruct (forallb (fun hf => length (face_at s (hf / 2)) =? 4) hfs) eqn:F4; cbn [negb] in H; [|discriminate].
  destruct (Nat.eqb_spec (length (hfs_vertex_set s hfs)) 8) as [V8|V8]; cbn [negb] in H; [|discriminate].
  rewrite forallb_forall in F4.
  assert (G : forall l, length l = 6 -> (forall x, In x l -> In x hfs) -> add_cell s l true = (s', Some c) ->
              length (hfs_vertex_set s' (cell_at s' c)) = 8 /\ NoDup (cell_at s' c) /\ (forall x, In x (cell_at s' c) <-> In x hfs)).
  { intros l Ll Il A. pose proof (add_cell_checked_cell_check s l s' c A) as CC.
    pose proof (edges_add_cell s l true) as EE. rewrite A in EE. cbn [fst] in EE.
    destruct (add_cell_cases s l true) as [R|(s1 & R & Cs & Fs)]; rewrite R in A; [discriminate|]. injection A as <- <-.
    assert (CA : cell_at s1 (nc s) = l) by (unfold cell_at, nc; rewrite Cs, app_nth2, Nat.sub_diag by lia; reflexivity).
    assert (ND : NoDup l) by (apply (cell_check_nodup s l CC); intros x Hx; apply Nat.eqb_eq; apply F4; apply Il; exact Hx).
    assert (SAME : forall x, In x l <-> In x hfs).
    { intros x. split; [apply Il|]. apply (NoDup_length_incl ND); [rewrite Ll, L6; lia | exact Il]. }
    rewrite CA. split; [|split; [exact ND | exact SAME]].
    rewrite (vertex_set_same_state s s1 l Fs EE), (vertex_set_same_elements s l hfs SAME). exact V8. }
  destruct (check_halfface_ordering s hfs); [exact (G hfs L6 (fun x h => h) H)|].
  destruct (reorder_bottom s hfs) as [b|] eqn:B; [|discriminate].
  destruct (all_some (upd 1 (Some b) (reorder_top s hfs))) as [l|] eqn:A; [|discriminate].
  destruct (check_halfface_ordering s l); [|discriminate].
  assert (NE : hfs <> []) by (intros ->; discriminate).
  apply (G l); [rewrite (all_some_length _ _ A), upd_length; apply reorder_top_length| |exact H].
  apply (all_some_from_list hfs (upd 1 (Some b) (reorder_top s hfs)) l); [|exact A]. apply Forall_upd_from; [apply reorder_top_from_list; exact NE|].
  cbn [from_list]. unfold reorder_bottom in B. exact (get_adjacent_from _ _ _ _ _ B).
Qed.

(* ================================================================== B. add_cell from eight vertices *)

Lemma bu_lens s : bu_inv s -> length (edel s) = ne s /\ length (fdel s) = nf s.
Proof. intros (_ & _ & _ & _ & (_ & _ & _ & a & b & _)). split; assumption. Qed.

(* ---- add_edge: an edge joining the two vertices, found or appended *)
Lemma add_edge_spec s v w : bu_inv s -> v < nv s -> w < nv s ->
  let r := add_edge s v w false in
  grow s (fst r) /\ bu_inv (fst r) /\ snd r < ne (fst r) /\ joins (fst r) (snd r) v w /\ faces (fst r) = faces s.
Proof.
  intros B Hv Hw. cbv zeta. pose proof (bu_inv_add_edge s v w false B Hv Hw) as B1. unfold add_edge in *.
  destruct (find_dup_edge s v w) as [e|] eqn:F.
  - cbn [fst snd] in *. assert (e < ne s /\ e_deleted s e = false /\ joins s e v w) as (r & _ & j).
    { destruct B as (VO & _). destruct (vbu s) eqn:V.
      - apply (find_dup_cached_sound s v w e V); [intros h; apply (VO V v Hv h) | exact F].
      - exact (find_dup_scan_sound s v w e V F). }
    split; [apply grow_refl|]. auto.
  - pose proof (grow_append_edge s v w) as G. pose proof (append_edge_view s v w) as W. cbv zeta in W. destruct W as (_ & w2 & w3 & _).
    assert (S1 : snd (append_edge s v w) = ne s) by reflexivity.
    destruct (append_edge s v w) as [s1 e]. cbn [fst snd] in *. subst e.
    split; [exact G|]. split; [exact B1|]. split; [unfold ne; rewrite w2, app_length; cbn; lia|]. split; [|exact w3].
    left. unfold edge_at, ne. rewrite w2, app_nth2, Nat.sub_diag by lia. reflexivity.
Qed.

Lemma joins_from s e v w : joins s e v w -> he_from s (2 * e + (if snd (edge_at s e) =? v then 1 else 0)) = v.
Proof.
  intros [J|J]; rewrite J; cbn [snd].
  - destruct (Nat.eqb_spec w v) as [->|N].
    + rewrite he_from_odd, J. reflexivity.
    + rewrite Nat.add_0_r, he_from_even, J. reflexivity.
  - rewrite Nat.eqb_refl, he_from_odd, J. reflexivity.
Qed.

(* ---- one halfedge of add_face(vertices) *)
Lemma add_face_v_step_from v w s hes : bu_inv s -> v < nv s -> w < nv s -> (forall h, In h hes -> h < 2 * ne s) ->
  let acc' := add_face_v_step v w (s, hes) in
  grow s (fst acc') /\ faces (fst acc') = faces s /\ bu_inv (fst acc') /\ (forall h, In h (snd acc') -> h < 2 * ne (fst acc')) /\
  map (he_from (fst acc')) (snd acc') = map (he_from s) hes ++ [v].
Proof.
  intros B Hv Hw R. cbv zeta. unfold add_face_v_step. pose proof (add_edge_spec s v w B Hv Hw) as S. cbv zeta in S.
  destruct (add_edge s v w false) as [s1 e]. cbn [fst snd] in *. destruct S as (G & B1 & Re & J & Fs).
  destruct (bu_lens s B) as [Le Lf].
  split; [exact G|]. split; [exact Fs|]. split; [exact B1|]. split.
  - intros h Hh. apply in_app_iff in Hh. destruct Hh as [Hh|[<-|[]]].
    + pose proof (R h Hh) as X1. pose proof (grow_ne s s1 G Le Lf) as X2. lia.
    + destruct (snd (edge_at s1 e) =? v); lia.
  - rewrite map_app. cbn [map]. rewrite (joins_from s1 e v w J). f_equal. apply map_ext_in. intros h Hh.
    apply (grow_he_from s s1 G). pose proof (R h Hh). lia.
Qed.

Lemma add_face_v_edges_from first : forall vs s hes, bu_inv s -> first < nv s -> (forall v, In v vs -> v < nv s) ->
  (forall h, In h hes -> h < 2 * ne s) ->
  let acc' := add_face_v_edges first vs (s, hes) in
  grow s (fst acc') /\ faces (fst acc') = faces s /\ bu_inv (fst acc') /\ (forall h, In h (snd acc') -> h < 2 * ne (fst acc')) /\
  map (he_from (fst acc')) (snd acc') = map (he_from s) hes ++ vs.
Proof.
  induction vs as [|v t IH]; intros s hes B Hf Hvs R; cbv zeta.
  - cbn [add_face_v_edges fst snd]. rewrite app_nil_r. split; [apply grow_refl|]. auto.
  - cbn [add_face_v_edges]. destruct t as [|w t'].
    + exact (add_face_v_step_from v first s hes B (Hvs v (or_introl eq_refl)) Hf R).
    + pose proof (add_face_v_step_from v w s hes B (Hvs v (or_introl eq_refl)) (Hvs w (or_intror (or_introl eq_refl))) R) as S. cbv zeta in S.
      destruct (add_face_v_step v w (s, hes)) as [s1 hes1]. cbn [fst snd] in S. destruct S as (G1 & F1 & B1 & R1 & M1).
      assert (NV : nv s1 = nv s) by (destruct G1 as (n & _); exact n).
      specialize (IH s1 hes1 B1 ltac:(rewrite NV; exact Hf) ltac:(intros u Hu; rewrite NV; apply Hvs; right; exact Hu) R1). cbv zeta in IH.
      destruct IH as (G2 & F2 & B2 & R2 & M2).
      split; [exact (grow_trans s s1 _ G1 G2)|]. split; [congruence|]. split; [exact B2|]. split; [exact R2|].
      rewrite M2, M1, <- app_assoc. reflexivity.
Qed.

(* ---- add_face(vertices): the new face is the halfface 2 * nf s on exactly these vertices, in this order *)
Lemma add_face_v_vertices s vs : bu_inv s -> vs <> [] -> (forall v, In v vs -> v < nv s) ->
  exists s', add_face_v s vs = (s', Some (nf s)) /\ grow s s' /\ bu_inv s' /\ nf s' = S (nf s) /\ hf_vertices s' (2 * nf s) = vs.
Proof.
  intros B NE Hvs. pose proof (bu_inv_add_face_v s vs B Hvs) as B'. unfold add_face_v in *. destruct vs as [|first t]; [contradiction|].
  pose proof (add_face_v_edges_from first (first :: t) s [] B (Hvs first (or_introl eq_refl)) Hvs ltac:(intros h [])) as S. cbv zeta in S.
  destruct (add_face_v_edges first (first :: t) (s, [])) as [s1 hes]. cbn [fst snd] in S. destruct S as (G1 & F1 & B1 & R1 & M1).
  unfold add_face in *. cbn [andb] in *. pose proof (grow_append_face s1 hes) as G2. pose proof (append_face_view s1 hes) as W. cbv zeta in W.
  destruct W as (_ & w2 & w3 & _). assert (SN : snd (append_face s1 hes) = nf s1) by reflexivity.
  destruct (append_face s1 hes) as [s2 f]. cbn [fst snd] in *. subst f.
  assert (NF1 : nf s1 = nf s) by (unfold nf; rewrite F1; reflexivity). rewrite NF1.
  exists s2. split; [reflexivity|]. split; [exact (grow_trans s s1 s2 G1 G2)|]. split; [exact B'|].
  split; [unfold nf; rewrite w3, app_length, F1; cbn; lia|].
  unfold hf_vertices, halfface. rewrite dbl_div, dbl_even. unfold face_at. rewrite w3. rewrite <- NF1. unfold nf. rewrite nth_middle.
  cbn [map app] in M1. rewrite <- M1. apply map_ext. intros h. unfold he_from, edge_at. rewrite w2. reflexivity.
Qed.

(* ---- the vertices of a live halfface survive growth *)
Lemma live_hf_grow s t hf : bu_inv s -> grow s t -> hf / 2 < nf s -> f_deleted s (hf / 2) = false ->
  hf_vertices t hf = hf_vertices s hf /\ hf / 2 < nf t /\ f_deleted t (hf / 2) = false.
Proof.
  intros B G R D. destruct (bu_lens s B) as [Le Lf]. destruct B as (_ & _ & _ & (_ & R2 & _) & _). split; [|split].
  - apply (grow_hf_vertices s t hf G R). intros h Hh. pose proof (R2 _ R D h Hh). lia.
  - pose proof (grow_nf s t G Le Lf). lia.
  - rewrite (grow_f_deleted s t G Lf _ R). exact D.
Qed.

Definition same_elems (l m : list nat) : Prop := forall v, In v l <-> In v m.

(* ---- find_halfface_extensive: a live halfface on the vertices of the quad *)
Lemma find_extensive_vertices s q hf : bu_inv s -> nth 0 q 0 < nv s -> find_halfface_extensive s q = Some hf ->
  hf / 2 < nf s /\ f_deleted s (hf / 2) = false /\ same_elems q (hf_vertices s hf).
Proof.
  intros B Ha. unfold find_halfface_extensive, find_halfedge. destruct (vbu s) eqn:V; [|discriminate].
  destruct (find (fun h => he_to s h =? nth 1 q 0) (out_at s (nth 0 q 0))) as [he0|] eqn:F0; [|discriminate].
  destruct (ebu s) eqn:E; [|discriminate]. intros F. apply find_some in F. destruct F as [Hin C].
  apply find_some in F0. destruct F0 as [Hout _]. destruct B as (VO & EO & _).
  apply (VO V _ Ha) in Hout. destruct Hout as (r0 & _).
  apply (EO E he0 ltac:(lia)) in Hin. destruct Hin as (rf & df & _). split; [exact rf|]. split; [exact df|].
  apply andb_true_iff in C. destruct C as [C1 C2]. apply Nat.eqb_eq in C1. rewrite forallb_forall in C2.
  set (hes := halfface s hf) in *. set (n := length hes) in *.
  set (off := fold_left (fun o i => if nth i hes 0 =? he0 then i else o) (seq 0 n) 0) in *.
  assert (K : forall i, i < n -> he_from s (nth ((i + off) mod n) hes 0) = nth i q 0).
  { intros i Hi. apply Nat.eqb_eq. apply C2. apply in_seq. lia. }
  intros v. unfold hf_vertices. fold hes. split.
  - intros Hv. destruct (In_nth q v 0 Hv) as (i & Hi & <-). rewrite <- C1 in Hi. rewrite <- (K i Hi).
    apply in_map. apply nth_In. fold n. apply Nat.mod_upper_bound. lia.
  - intros Hv. apply in_map_iff in Hv. destruct Hv as (h & <- & Hh). destruct (In_nth hes h 0 Hh) as (j & Hj & <-). fold n in Hj.
    set (i := (j + n - off mod n) mod n).
    assert (Hi : i < n) by (apply Nat.mod_upper_bound; lia).
    assert (EQ : (i + off) mod n = j).
    { unfold i. pose proof (Nat.mod_upper_bound off n ltac:(lia)) as U.
      rewrite Nat.add_mod_idemp_l by lia. rewrite (Nat.div_mod_eq off n) at 2.
      replace (j + n - off mod n + (n * (off / n) + off mod n)) with (j + (1 + off / n) * n) by nia.
      rewrite Nat.mod_add by lia. apply Nat.mod_small. exact Hj. }
    rewrite <- EQ, (K i Hi). apply nth_In. rewrite <- C1. exact Hi.
Qed.

(* ---- the six find-or-create steps *)
Definition on_quad (t : mesh) (q : list nat) (hf : nat) : Prop :=
  hf / 2 < nf t /\ f_deleted t (hf / 2) = false /\ same_elems q (hf_vertices t hf).

Lemma on_quad_grow t t' q hf : bu_inv t -> grow t t' -> on_quad t q hf -> on_quad t' q hf.
Proof. intros B G (r & d & e). destruct (live_hf_grow t t' hf B G r d) as (E & r' & d'). split; [exact r'|]. split; [exact d'|]. rewrite E. exact e. Qed.

Lemma forall2_on_quad_grow t t' qs l : bu_inv t -> grow t t' -> Forall2 (on_quad t) qs l -> Forall2 (on_quad t') qs l.
Proof. intros B G F. induction F; constructor; [eapply on_quad_grow; eassumption | assumption]. Qed.

Definition quad_step (acc : mesh * list nat) (qf : list nat * option nat) : mesh * list nat :=
  let '(s', l) := acc in
  match snd qf with
  | Some hf => (s', l ++ [hf])
  | None => match add_face_v s' (fst qf) with
            | (s'', Some f) => (s'', l ++ [2 * f])
            | (s'', None) => (s'', l ++ [0])
            end
  end.

Lemma fold_quads s : bu_inv s -> forall qs t l q0,
  grow s t -> bu_inv t -> Forall2 (on_quad t) q0 l ->
  (forall qf, In qf qs -> fst qf <> [] /\ (forall v, In v (fst qf) -> v < nv s) /\ snd qf = find_halfface_extensive s (fst qf)) ->
  grow s (fst (fold_left quad_step qs (t, l))) /\ bu_inv (fst (fold_left quad_step qs (t, l))) /\
  Forall2 (on_quad (fst (fold_left quad_step qs (t, l)))) (q0 ++ map fst qs) (snd (fold_left quad_step qs (t, l))).
Proof.
  intros B. induction qs as [|[q f] qs IH]; intros t l q0 G Bt F H.
  - cbn [fold_left map fst snd]. rewrite app_nil_r. auto.
  - cbn [fold_left map]. destruct (H (q, f) (or_introl eq_refl)) as (NE & RV & EF). cbn [fst snd] in NE, RV, EF.
    assert (NV : nv t = nv s) by (destruct G as (n & _); exact n).
    assert (NX : exists t1 hf, quad_step (t, l) (q, f) = (t1, l ++ [hf]) /\ grow t t1 /\ bu_inv t1 /\ on_quad t1 q hf).
    { unfold quad_step. cbn [fst snd]. destruct f as [hf|].
      - exists t, hf. split; [reflexivity|]. split; [apply grow_refl|]. split; [exact Bt|].
        assert (N0 : nth 0 q 0 < nv s) by (apply RV; destruct q; [contradiction | left; reflexivity]).
        destruct (find_extensive_vertices s q hf B N0 (eq_sym EF)) as (r & d & e).
        exact (on_quad_grow s t q hf B G (conj r (conj d e))).
      - destruct (add_face_v_vertices t q Bt NE ltac:(intros v Hv; rewrite NV; apply RV; exact Hv)) as (t1 & Q & G1 & B1 & N1 & V1).
        rewrite Q. exists t1, (2 * nf t). split; [reflexivity|]. split; [exact G1|]. split; [exact B1|].
        destruct (bu_lens t Bt) as [_ Lf]. unfold on_quad. rewrite dbl_div.
        split; [lia|]. split; [apply (grow_f_new t t1 G1 Lf); lia|]. rewrite V1. intros v. tauto. }
    destruct NX as (t1 & hf & Q & G1 & B1 & O1). rewrite Q. cbn [fst].
    replace (q0 ++ q :: map fst qs) with ((q0 ++ [q]) ++ map fst qs) by (rewrite <- app_assoc; reflexivity).
    apply IH; [exact (grow_trans s t t1 G G1) | exact B1 | | intros qf Hqf; apply H; right; exact Hqf].
    apply Forall2_app; [exact (forall2_on_quad_grow t t1 q0 l Bt G1 F) | constructor; [exact O1 | constructor]].
Qed.

Lemma eight (l : list nat) : length l = 8 -> exists a0 a1 a2 a3 a4 a5 a6 a7, l = [a0; a1; a2; a3; a4; a5; a6; a7].
Proof.
  destruct l as [|a0 [|a1 [|a2 [|a3 [|a4 [|a5 [|a6 [|a7 [|]]]]]]]]]; try discriminate. intros _.
  exists a0, a1, a2, a3, a4, a5, a6, a7. reflexivity.
Qed.

Lemma forall2_flat_elems t qs l : Forall2 (on_quad t) qs l -> forall v, In v (flat_map (hf_vertices t) l) <-> In v (concat qs).
Proof.
  intros F v. induction F as [|q hf qs l (_ & _ & E) _ IH]; [tauto|]. cbn [flat_map concat]. rewrite !in_app_iff, IH, (E v). tauto.
Qed.

(* add_cell from eight vertices, with topology check: the accepted cell is on exactly the eight given (distinct) vertices *)
Theorem hex_add_cell_v_checked_eight s vs s' c : bu_inv s -> (forall v, In v vs -> v < nv s) ->
  hex_add_cell_v s vs true = (s', Some c) ->
  length (hfs_vertex_set s' (cell_at s' c)) = 8 /\ same_elems (hfs_vertex_set s' (cell_at s' c)) vs /\ length (cell_at s' c) = 6.
Proof.
  intros B RV H. unfold hex_add_cell_v in H. destruct (negb (full_bu s)); [discriminate|].
  destruct (Nat.eqb_spec (length vs) 8) as [L8|L8]; cbn [negb] in H; [|discriminate]. cbn [andb] in H.
  destruct (Nat.eqb_spec (length (set_of_list vs)) 8) as [D8|D8]; cbn [negb] in H; [|discriminate].
  fold quad_step in H.
  set (qs := combine (hex_quads vs) (map (find_halfface_extensive s) (hex_quads vs))) in *.
  destruct (eight vs L8) as (a0 & a1 & a2 & a3 & a4 & a5 & a6 & a7 & EV).
  assert (HQ : forall qf, In qf qs -> fst qf <> [] /\ (forall v, In v (fst qf) -> v < nv s) /\ snd qf = find_halfface_extensive s (fst qf)).
  { intros [q f] Hin. unfold qs in Hin. rewrite EV in Hin. unfold hex_quads in Hin. cbn [nth map combine] in Hin. cbn [fst snd].
    assert (RV' : forall v, In v [a0; a1; a2; a3; a4; a5; a6; a7] -> v < nv s) by (rewrite <- EV; exact RV).
    repeat (destruct Hin as [Hin|Hin]; [injection Hin as <- <-; (split; [discriminate|]); (split; [|reflexivity]);
      intros v Hv; apply RV'; cbn [In] in *; tauto|]). destruct Hin. }
  pose proof (fold_quads s B qs s [] [] (grow_refl s) B (Forall2_nil _) HQ) as (G1 & B1 & F1).
  destruct (fold_left quad_step qs (s, [])) as [s1 hfs]. cbn [fst snd app] in *.
  assert (MQ : map fst qs = hex_quads vs).
  { unfold qs. rewrite EV. unfold hex_quads. reflexivity. }
  rewrite MQ in F1.
  destruct (closed_by_sets s1 hfs); cbn [negb] in H; [|discriminate].
  destruct (fbu s1 && existsb _ hfs); [discriminate|].
  pose proof (edges_add_cell s1 hfs false) as EE. rewrite H in EE. cbn [fst] in EE.
  destruct (add_cell_cases s1 hfs false) as [R|(s2 & R & Cs & Fs)]; rewrite R in H; [discriminate|]. injection H as <- <-.
  assert (CA : cell_at s2 (nc s1) = hfs) by (unfold cell_at, nc; rewrite Cs, app_nth2, Nat.sub_diag by lia; reflexivity).
  rewrite CA, (vertex_set_same_state s1 s2 hfs Fs EE).
  assert (SE : same_elems (hfs_vertex_set s1 hfs) vs).
  { intros v. unfold hfs_vertex_set. rewrite set_of_list_In, (forall2_flat_elems s1 _ hfs F1 v).
    rewrite EV. unfold hex_quads. cbn [nth concat app In]. tauto. }
  split; [|split; [exact SE|]].
  - rewrite <- D8. f_equal. unfold hfs_vertex_set. apply strictly_sorted_ext; try apply set_of_list_sorted.
    intros v. rewrite (set_of_list_In v vs). exact (SE v).
  - rewrite <- (forall2_len _ _ _ F1). rewrite EV. reflexivity.
Qed.

Print Assumptions hex_add_cell_checked_eight.
Print Assumptions hex_add_cell_v_checked_eight.
