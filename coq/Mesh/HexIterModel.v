(* Mesh/HexIterModel.v -- HexahedralMeshIterators.cc on top of the kernel model: the HexVertexIter
   constructor walk (:226-282), CellSheetCellIter (:48-84) and HalfFaceSheetHalfFaceIter (:121-186).
   Each function returns the handle sequence of one lap ("for (it = ..; it.valid(); ++it)").
   Definitions only. *)
From OVM Require Export Mesh.HexModel.
From OVM Require Import Base.Int32 Gen.HexOrient.
Local Open Scope nat_scope.

(* prev_halfedge_in_halfface with possibly invalid arguments (halfface(-1) reads as halfface 1) *)
Definition prev_he_o (s : mesh) (he : option nat) (hf : option nat) : option nat :=
  match he with
  | None => None
  | Some he => prev_he_in_hf_list (halfface_o s hf) he
  end.

(* HexVertexIter: the eight vertices; None = UB (empty lists, halfedge(Invalid), incident_cell(Invalid)) *)
Definition hex_vertices (s : mesh) (c : nat) : ub (list nat) :=
  do hfs <- rd (cells s) c;
  do hf0 <- rd hfs 0;
  do e0 <- rd (halfface s hf0) 0;
  let v0 := he_from s e0 in
  do e1 <- prev_he_in_hf s e0 hf0;
  let v1 := he_from s e1 in
  do e2 <- prev_he_in_hf s e1 hf0;
  let v2 := he_from s e2 in
  do e3 <- prev_he_in_hf s e2 hf0;
  let v3 := he_from s e3 in
  do e4 <- prev_he_in_hf s e3 hf0;
  do hf1 <- adjacent_halfface_in_cell s hf0 e4;      (* an invalid side halfface is used as an index below *)
  let e5 := opp e4 in
  let e6 := next_he_in_hf s e5 hf1 in
  let e7 := next_he_o s e6 (Some hf1) in
  let hf2 := match e7 with Some e => adjacent_halfface_in_cell s hf1 e | None => None end in
  do e7' <- e7;                                       (* halfedge(opposite(Invalid)) *)
  let e8 := opp e7' in
  let v4 := he_to s e8 in
  (* an invalid halfedge handle (-1) reads as halfedge 1 in halfedge(); prev(-1, .) stays invalid *)
  let e9 := prev_he_o s (Some e8) hf2 in
  let v5 := he_to_o s e9 in
  let e10 := prev_he_o s e9 hf2 in
  let v6 := he_to_o s e10 in
  let v7 := he_from_o s e10 in
  Some [v0; v1; v2; v3; v4; v5; v6; v7].

(* CellSheetCellIter(c, orthDir): neighbours across the halffaces whose position is neither orthDir nor its
   opposite; sorted, duplicates removed *)
Definition cell_sheet_cells (s : mesh) (c : nat) (dir : Z) : list nat :=
  if negb (fbu s) then [] else
  set_of_list
    (flat_map (fun hf =>
                 let o := orientation s hf c in
                 if negb (Z.eqb o dir) && negb (Z.eqb o (HEX_opposite_orientation dir)) then
                   match cell_of s (opp hf) with Some n => [n] | None => [] end
                 else [])
              (cell_at s c)).

(* HalfFaceSheetHalfFaceIter(hf): for every sheet neighbour, each of its halffaces that contains a halfedge
   of the opposite halfface of hf (first such halfedge decides; pairs (halfface, common edge)) *)
Definition halfface_sheet_halffaces (s : mesh) (hf : nat) : list (nat * nat) :=
  if negb (fbu s) then [] else
  match cell_of s hf with
  | None => []
  | Some ch =>
      let o := orientation s hf ch in
      let hes := halfface s (opp hf) in
      flat_map (fun n =>
                  flat_map (fun hf' =>
                              match find (fun he => memb he hes) (halfface s hf') with
                              | Some he => [(hf', he / 2)]
                              | None => []
                              end)
                           (cell_at s n))
               (cell_sheet_cells s ch o)
  end.
