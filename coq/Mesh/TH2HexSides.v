(* Mesh/TH2HexSides.v -- inside the frame of a well-formed ordered hex cell (Mesh/TH2HexFrame.v): the eight corner
   vertices are distinct, every side halfface is the quad  opp e -> p -> opp g -> q  between an edge e of the top
   and an edge g of the bottom (the top edge and the bottom edge are opposite in its cycle), its vertices are the
   end points of e and g, and p joins the source of e to the target of g.  Proofs only. *)
From Coq Require Import ZArith Lia Bool Arith List ZifyNat ZifyBool Permutation.
From OVM Require Import Base.ListX Base.ListLemmas Kernel.State Kernel.Ops Kernel.Mirror Kernel2.LookupModel Kernel2.ListAux
                        Kernel2.AdjacentProofs Mesh.TetModel Mesh.HexModel Mesh.HexIterModel Mesh.TetProofs Mesh.HexProofs
                        Mesh.TH2HexBase Mesh.TH2HexAdj Mesh.TH2HexOrd Mesh.TH2HexFrame.
Import ListNotations.
Ltac Zify.zify_post_hook ::= Z.div_mod_to_equations.
Local Open Scope nat_scope.

(* what adjacent_halfface_in_cell returns inside a closed cell *)
Lemma nbr_props s c h he a :
  closed_cell s c -> In h (cell_at s c) -> In he (halfface s h) -> adjacent_halfface_in_cell s h he = Some a ->
  In a (cell_at s c) /\ a <> h /\ In (opp he) (halfface s a) /\ adjacent_halfface_in_cell s a (opp he) = Some h.
Proof.
  intros Hcl Hin Hhe Hadj. destruct (adjacent_closed_cell s c h he Hcl Hin Hhe) as (x&E&(I'&N1&_&O')&_&Back).
  rewrite Hadj in E. inversion E; subst x. tauto.
Qed.

Section Sides.
  Variables (s : mesh) (c e0 e1 e2 e3 g0 g1 g2 g3 a0 a1 a2 a3 : nat).
  Hypothesis Hshape : hex_shape s.
  Hypothesis Hc : c < nc s.
  Hypothesis Hwf : hex_cell_wf s c.
  Hypothesis Hfr : hex_frame s c e0 e1 e2 e3 g0 g1 g2 g3 a0 a1 a2 a3.

  Let l := cell_at s c.
  Let h0 := hx l 0.
  Let h1 := hx l 1.

  Lemma sd_len : length l = 6.
  Proof. exact (proj2 (kshape_live 4 6 s Hshape) c Hc). Qed.

  Lemma sd_in_pos i : i < 6 -> In (hx l i) l.
  Proof. intros Hi. unfold hx. apply nth_In. rewrite sd_len. exact Hi. Qed.

  Lemma sd_in0 : In h0 l. Proof. apply sd_in_pos. lia. Qed.
  Lemma sd_in1 : In h1 l. Proof. apply sd_in_pos. lia. Qed.

  Lemma sd_cl : closed_cell s c. Proof. exact (proj1 Hwf). Qed.
  Lemma sd_loop h : In h l -> loop_ok s (halfface s h) = true. Proof. exact (proj1 (proj2 Hwf) h). Qed.

  Lemma sd_top : halfface s h0 = [e0; e1; e2; e3]. Proof. exact (proj1 Hfr). Qed.
  Lemma sd_bot : rot4 (halfface s h1) [g0; g1; g2; g3]. Proof. exact (proj1 (proj2 Hfr)). Qed.

  Lemma sd_top_nodup : NoDup [e0; e1; e2; e3].
  Proof. rewrite <- sd_top. exact (closed_cell_hf_NoDup s c h0 sd_cl sd_in0). Qed.

  Lemma sd_bot_nodup_stored : NoDup (halfface s h1).
  Proof. exact (closed_cell_hf_NoDup s c h1 sd_cl sd_in1). Qed.

  Lemma sd_bot_nodup : NoDup [g0; g1; g2; g3].
  Proof. exact (rot4_NoDup _ _ sd_bot sd_bot_nodup_stored). Qed.

  Lemma sd_in_top e : In e [e0; e1; e2; e3] -> In e (halfface s h0).
  Proof. rewrite sd_top. auto. Qed.

  Lemma sd_in_bot g : In g [g0; g1; g2; g3] -> In g (halfface s h1).
  Proof. intros H. apply (rot4_In _ _ g sd_bot). exact H. Qed.

  (* ---- closed loops of the top and of the (rotated) bottom *)
  Lemma sd_top_loop : he_to s e0 = he_from s e1 /\ he_to s e1 = he_from s e2 /\ he_to s e2 = he_from s e3 /\ he_to s e3 = he_from s e0.
  Proof. apply loop4. rewrite <- sd_top. apply sd_loop. exact sd_in0. Qed.

  Lemma sd_bot_loop : he_to s g0 = he_from s g1 /\ he_to s g1 = he_from s g2 /\ he_to s g2 = he_from s g3 /\ he_to s g3 = he_from s g0.
  Proof. apply (loop_rot4_eqs s _ _ _ _ _ sd_bot). apply sd_loop. exact sd_in1. Qed.

  (* ---- the eight corners *)
  Theorem sd_corners_nodup :
    NoDup [he_from s e0; he_from s e1; he_from s e2; he_from s e3; he_from s g0; he_from s g1; he_from s g2; he_from s g3].
  Proof.
    pose proof (proj2 (proj2 Hwf)) as ND. fold l in ND. fold h0 in ND. fold h1 in ND.
    unfold hf_vertices in ND. rewrite sd_top in ND.
    assert (P : Permutation (map (he_from s) (halfface s h1)) (map (he_from s) [g0; g1; g2; g3])).
    { apply Permutation_map. apply rot4_perm. exact sd_bot. }
    exact (Permutation_NoDup (Permutation_app_head _ P) ND).
  Qed.

  Lemma sd_UW v : In v (hf_vertices s h0) -> In v (hf_vertices s h1) -> False.
  Proof. apply nodup_app_disj. exact (proj2 (proj2 Hwf)). Qed.

  (* ---- a side halfface between a top edge and a bottom edge *)
  Theorem sd_side_structure A e g :
    In A l -> In e (halfface s h0) -> In g (halfface s h1) -> In (opp e) (halfface s A) -> In (opp g) (halfface s A) ->
    exists p q, rot4 (halfface s A) [opp e; p; opp g; q] /\
                he_from s p = he_from s e /\ he_to s p = he_to s g /\ he_from s q = he_from s g /\ he_to s q = he_to s e.
  Proof.
    intros HA He Hg Oe Og.
    pose proof (hf_len4_in s A (opp e) Hshape Oe) as L4.
    destruct (rot4_start _ (opp e) L4 Oe) as (y1&y2&y3&R).
    destruct (loop_rot4_eqs s _ _ _ _ _ R (sd_loop A HA)) as (Q0&Q1&Q2&Q3).
    rewrite he_to_opp in Q0. rewrite he_from_opp in Q3.
    assert (Ue : In (he_from s e) (hf_vertices s h0)) by (apply from_in_vertices; exact He).
    assert (Ue' : In (he_to s e) (hf_vertices s h0)) by (apply to_in_vertices; [apply sd_loop; exact sd_in0 | exact He]).
    assert (Wg : In (he_from s g) (hf_vertices s h1)) by (apply from_in_vertices; exact Hg).
    assert (Wg' : In (he_to s g) (hf_vertices s h1)) by (apply to_in_vertices; [apply sd_loop; exact sd_in1 | exact Hg]).
    apply (rot4_In _ _ (opp g) R) in Og. destruct Og as [E|[E|[E|[E|[]]]]].
    - exfalso. apply opp_inj in E. subst g. exact (sd_UW _ Ue Wg).
    - exfalso. subst y1. rewrite he_from_opp in Q0. rewrite Q0 in Ue. exact (sd_UW _ Ue Wg').
    - subst y2. rewrite he_from_opp in Q1. rewrite he_to_opp in Q2. exists y1, y3. split; [exact R|].
      repeat split; congruence.
    - exfalso. subst y3. rewrite he_to_opp in Q3. rewrite Q3 in Wg. exact (sd_UW _ Ue' Wg).
  Qed.

  (* its vertices are the end points of the two edges *)
  Theorem sd_side_vertices A e g v :
    In A l -> In e (halfface s h0) -> In g (halfface s h1) -> In (opp e) (halfface s A) -> In (opp g) (halfface s A) ->
    In v (hf_vertices s A) -> v = he_to s e \/ v = he_from s e \/ v = he_to s g \/ v = he_from s g.
  Proof.
    intros HA He Hg Oe Og Hv. destruct (sd_side_structure A e g HA He Hg Oe Og) as (p&q&R&P1&_&Q1&_).
    unfold hf_vertices in Hv. apply (rot4_In _ _ v (rot4_map (he_from s) _ _ R)) in Hv.
    cbn [map In] in Hv. rewrite !he_from_opp in Hv. destruct Hv as [E|[E|[E|[E|[]]]]]; subst v; auto.
  Qed.

  (* ---- the four side halffaces *)
  Lemma sd_adj_top : adjacent_halfface_in_cell s h0 e0 = Some a0 /\ adjacent_halfface_in_cell s h0 e1 = Some a1 /\
                     adjacent_halfface_in_cell s h0 e2 = Some a2 /\ adjacent_halfface_in_cell s h0 e3 = Some a3.
  Proof. exact (proj1 (proj2 (proj2 Hfr))). Qed.

  Lemma sd_adj_bot : adjacent_halfface_in_cell s h1 g0 = Some a0 /\ adjacent_halfface_in_cell s h1 g1 = Some a3 /\
                     adjacent_halfface_in_cell s h1 g2 = Some a2 /\ adjacent_halfface_in_cell s h1 g3 = Some a1.
  Proof. exact (proj1 (proj2 (proj2 (proj2 Hfr)))). Qed.

  (* a side: in the cell, holding the opposite of its top edge and of its bottom edge, and leading back *)
  Definition is_side (A e g : nat) : Prop :=
    In A l /\ In e (halfface s h0) /\ In g (halfface s h1) /\ In (opp e) (halfface s A) /\ In (opp g) (halfface s A) /\
    adjacent_halfface_in_cell s A (opp e) = Some h0 /\ adjacent_halfface_in_cell s A (opp g) = Some h1.

  Lemma sd_is_side A e g : In e [e0; e1; e2; e3] -> In g [g0; g1; g2; g3] ->
    adjacent_halfface_in_cell s h0 e = Some A -> adjacent_halfface_in_cell s h1 g = Some A -> is_side A e g.
  Proof.
    intros He Hg At Ab. apply sd_in_top in He. apply sd_in_bot in Hg.
    destruct (nbr_props s c h0 e A sd_cl sd_in0 He At) as (I1&_&O1&B1).
    destruct (nbr_props s c h1 g A sd_cl sd_in1 Hg Ab) as (_&_&O2&B2).
    unfold is_side. tauto.
  Qed.

  Lemma sd_side0 : is_side a0 e0 g0.
  Proof. apply sd_is_side; [cbn [In]; auto | cbn [In]; auto | exact (proj1 sd_adj_top) | exact (proj1 sd_adj_bot)]. Qed.
  Lemma sd_side1 : is_side a1 e1 g3.
  Proof.
    apply sd_is_side; [cbn [In]; auto | cbn [In]; auto 6 | exact (proj1 (proj2 sd_adj_top)) | exact (proj2 (proj2 (proj2 sd_adj_bot)))].
  Qed.
  Lemma sd_side2 : is_side a2 e2 g2.
  Proof.
    apply sd_is_side; [cbn [In]; auto | cbn [In]; auto | exact (proj1 (proj2 (proj2 sd_adj_top))) | exact (proj1 (proj2 (proj2 sd_adj_bot)))].
  Qed.
  Lemma sd_side3 : is_side a3 e3 g1.
  Proof.
    apply sd_is_side; [cbn [In]; auto 6 | cbn [In]; auto | exact (proj2 (proj2 (proj2 sd_adj_top))) | exact (proj1 (proj2 sd_adj_bot))].
  Qed.

  (* the joining halfedge of a side: from the source of its top edge to the target of its bottom edge *)
  Lemma sd_side_join A e g : is_side A e g ->
    exists p, In p (halfface s A) /\ he_from s p = he_from s e /\ he_to s p = he_to s g.
  Proof.
    intros (HA&He&Hg&Oe&Og&_). destruct (sd_side_structure A e g HA He Hg Oe Og) as (p&q&R&P1&P2&_).
    exists p. split; [|split; assumption]. apply (rot4_In _ _ p R). cbn [In]. auto.
  Qed.

  (* list positions of the sides *)
  Lemma sd_side_position A : In A [a0; a1; a2; a3] -> exists i, 2 <= i < 6 /\ A = hx l i.
  Proof.
    intros HA. destruct (proj1 (proj2 (proj2 (proj2 (proj2 Hfr))))) as (k&Hk&E). fold l in E.
    assert (G : In A [hx l 2; hx l 4; hx l 3; hx l 5]).
    { rewrite E in HA. destruct k as [|[|[|[|k]]]]; [| | | | exfalso; lia]; cbn [Nat.iter nat_rect rot1n app In] in HA; cbn [In]; tauto. }
    destruct G as [<-|[<-|[<-|[<-|[]]]]]; [exists 2 | exists 4 | exists 3 | exists 5]; (split; [lia | reflexivity]).
  Qed.
End Sides.
