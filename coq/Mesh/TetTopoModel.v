(* Mesh/TetTopoModel.v -- Unstable/Topology/TetTopology.{hh,cc} and TriangleTopology.{hh,cc} on top of
   the kernel model.  The label enums and the constexpr label functions come from the REGENERATED
   Gen/TetLabels.v (translate/leafs_tethex.py); hand-written here: the constructor walk
   (TetTopology.cc:19-90), the array accessors vh<I>/heh<I>/hfh<I> (TetTopology.hh:197-222), get_label
   (TetTopology.cc:112-182), triangle_topology<HFL> (TetTopology_impl.hh) and the two TriangleTopology
   constructors.  Definitions only.

   An array entry [None] is a default-constructed (invalid, -1) handle. *)
From OVM Require Export Mesh.TetModel.
From OVM Require Import Base.Int32 Gen.TetLabels.
Local Open Scope nat_scope.

Record ttopo := { tt_vh : list (option nat); tt_heh : list (option nat); tt_hfh : list (option nat) }.

Definition zi (z : Z) : nat := Z.to_nat z.                    (* a label used as an array index *)
Definition oopp (o : option nat) : option nat := option_map opp o.      (* opposite_handle() *)
Definition oget (l : list (option nat)) (i : nat) : option nat := nth i l None.
Definition oeqb (o : option nat) (h : nat) : bool := match o with Some x => x =? h | None => false end.

(* hfh_[I>>2] for an inner label I *)
Definition hfl_slot (l : Z) : nat := zi (Z.shiftr l 2).

(* ---- accessors (template arguments become ordinary arguments) *)
Definition tt_vh_l (t : ttopo) (l : Z) : option nat := oget (tt_vh t) (zi l).
Definition tt_heh_l (t : ttopo) (l : Z) : option nat :=
  if HEL_is_forward l then oget (tt_heh t) (zi l) else oopp (oget (tt_heh t) (zi (Z.land l 7))).
Definition tt_hfh_l (t : ttopo) (l : Z) : option nat :=
  if HFL_is_inner l then oget (tt_hfh t) (hfl_slot l) else oopp (oget (tt_hfh t) (zi (Z.shiftr (Z.land l 15) 2))).

(* hfl_hel<HFL, Idx>() *)
Definition TT_hfl_hel (l idx : Z) : Z := TT_hel (TT_hfl_vl l idx) (TT_hfl_vl l (Z.rem (idx + 1) 3)).

(* ---- constructor TetTopology(mesh, ch, abc, a); [a = None] is the default argument VH() *)

(* the side halffaces: first halfedge (in halfface order) equal to ba / cb / ac decides the slot *)
Fixpoint tt_side_scan (hes all : list nat) (k : nat) (ba cb ac : nat) : option (Z * Z * nat) :=
  match hes with
  | [] => None
  | h :: t =>
      let nxt := nth (if S k =? length all then 0 else S k) all 0 in
      if h =? ba then Some (HFL_BAD, HEL_AD, nxt)
      else if h =? cb then Some (HFL_CBD, HEL_BD, nxt)
      else if h =? ac then Some (HFL_ACD, HEL_CD, nxt)
      else tt_side_scan t all (S k) ba cb ac
  end.

Definition tt_side (s : mesh) (abc : option nat) (ba cb ac : nat) (t : ttopo) (cur : nat) : ttopo :=
  if oeqb abc cur then t else
  let hes := halfface s cur in
  match tt_side_scan hes hes 0 ba cb ac with
  | None => t
  | Some (hfl, hel, nxt) =>
      {| tt_vh := tt_vh t; tt_heh := upd (zi hel) (Some nxt) (tt_heh t); tt_hfh := upd (hfl_slot hfl) (Some cur) (tt_hfh t) |}
  end.

(* [abc = None]: the invalid halfface handle (the result of find_halfface for a vertex outside the cell); its
   circulator reads face 0 reversed, i.e. halfface 1 *)
Definition tt_make_o (s : mesh) (ch : nat) (abc : option nat) (a : option nat) : ub ttopo :=
  let hes := halfface_o s abc in
  let n := length hes in
  if n =? 0 then None else                                 (* *abc_he_it of an invalid circulator *)
  do i <- match a with
          | None => Some 0
          | Some a => find_index (fun h => he_from s h =? a) hes     (* None: the while loop never ends *)
          end;
  let ab := nth i hes 0 in
  let bc := nth ((i + 1) mod n) hes 0 in
  let ca := nth ((i + 2) mod n) hes 0 in
  let t0 := {| tt_vh := [Some (he_from s ab); Some (he_from s bc); Some (he_from s ca); None];
               tt_heh := upd (zi HEL_CA) (Some ca) (upd (zi HEL_BC) (Some bc) (upd (zi HEL_AB) (Some ab) (repeat None 6)));
               tt_hfh := upd (hfl_slot HFL_ABC) abc (repeat None 4) |} in
  do hfhs <- rd (cells s) ch;
  let t1 := fold_left (tt_side s abc (opp ab) (opp bc) (opp ca)) hfhs t0 in
  (* vh_[D] = to_vertex_handle(ad()); an unset ad() (-1) reads as halfedge 1 *)
  Some {| tt_vh := upd (zi VL_D) (Some (he_to_o s (oget (tt_heh t1) (zi HEL_AD)))) (tt_vh t1);
          tt_heh := tt_heh t1; tt_hfh := tt_hfh t1 |}.

Definition tt_make (s : mesh) (ch abc : nat) (a : option nat) : ub ttopo := tt_make_o s ch (Some abc) a.

(* TetTopology(mesh, abc, a) *)
Definition tt_make_hf (s : mesh) (abc : nat) (a : option nat) : ub ttopo :=
  do oc <- rd (inc_cell s) abc;
  do ch <- oc;                                             (* cell(InvalidCellHandle) *)
  tt_make s ch abc a.

(* TetTopology(mesh, ch, a): the first halfface of the cell that contains a (TetTopology.cc:7-16) *)
Definition tt_make_c_v (s : mesh) (ch a : nat) : ub ttopo :=
  do hfhs <- rd (cells s) ch;
  tt_make_o s ch (find (fun hf => memb a (hf_vertices s hf)) hfhs) (Some a).   (* not found: "assert(false); return {}" *)

(* TetTopology(mesh, ch) *)
Definition tt_make_c (s : mesh) (ch : nat) : ub ttopo :=
  do hfhs <- rd (cells s) ch;
  do abc <- rd hfhs 0;
  tt_make s ch abc None.

(* ---- get_label *)
Definition tt_label_v (t : ttopo) (v : nat) : option Z :=
  option_map Z.of_nat (find_index (fun o => oeqb o v) (tt_vh t)).

(* edge_handle() of an unset entry is (-1)/2 = 0 *)
Definition ofull (o : option nat) : nat := match o with Some x => x / 2 | None => 0 end.

Definition tt_label_he (t : ttopo) (h : nat) : option Z :=
  match find_index (fun o => ofull o =? h / 2) (tt_heh t) with
  | None => None
  | Some i => let l := Z.of_nat i in
              Some (if oeqb (oget (tt_heh t) i) h then l else HEL_opposite l)
  end.

Definition tt_label_hf (t : ttopo) (h : nat) : option Z :=
  match find_index (fun o => ofull o =? h / 2) (tt_hfh t) with
  | None => None
  | Some i => let l := Z.shiftl (Z.of_nat i) 2 in
              Some (if oeqb (oget (tt_hfh t) i) h then l else HFL_opposite l)
  end.

(* detail::try_get_label<HFL> *)
Definition tt_try_starts (l first : Z) : option Z :=
  if Z.eqb (TT_hfl_vl (l + 1) 0) first then Some (l + 1)%Z
  else if Z.eqb (TT_hfl_vl (l + 2) 0) first then Some (l + 2)%Z
  else if Z.eqb (TT_hfl_vl (l + 3) 0) first then Some (l + 3)%Z
  else None.
Definition tt_try_label (t : ttopo) (l : Z) (h : nat) (first : Z) : option Z :=
  if oeqb (tt_hfh_l t l) h then tt_try_starts l first
  else if oeqb (tt_hfh_l t l) (opp h) then
    let l' := HFL_opposite l in
    if oeqb (tt_hfh_l t l') h then tt_try_starts l' first else None
  else None.

Definition tt_label_hf_v (t : ttopo) (h first : nat) : option Z :=
  match tt_label_v t first with
  | None => None
  | Some fl =>
      match tt_try_label t HFL_OppA h fl with Some l => Some l | None =>
      match tt_try_label t HFL_OppB h fl with Some l => Some l | None =>
      match tt_try_label t HFL_OppC h fl with Some l => Some l | None =>
      tt_try_label t HFL_OppD h fl end end end
  end.

(* ---- TriangleTopology: (a,b,c), (ab,bc,ca) *)
Record tritopo := { tr_vh : list (option nat); tr_heh : list (option nat) }.

(* triangle_topology<HFL>(); None = "invalid hfl" exception for labels without a start vertex *)
Definition tt_triangle (t : ttopo) (l : Z) : option tritopo :=
  if HFL_has_start l then
    Some {| tr_vh := map (fun i => tt_vh_l t (TT_hfl_vl l i)) [0; 1; 2]%Z;
            tr_heh := map (fun i => tt_heh_l t (TT_hfl_hel l i)) [0; 1; 2]%Z |}
  else None.

(* TriangleTopology(mesh, hfh): one lap; more than three halfedges write past the arrays *)
Definition tri_make (s : mesh) (hf : nat) : ub tritopo :=
  let hes := halfface s hf in
  if 3 <? length hes then None else
  Some {| tr_vh := firstn 3 (map (fun h => Some (he_from s h)) hes ++ repeat None 3);
          tr_heh := firstn 3 (map Some hes ++ repeat None 3) |}.

(* TriangleTopology(mesh, hfh, a): two laps, skip to the first halfedge leaving a, then three in a row *)
Definition tri_make_v (s : mesh) (hf a : nat) : ub tritopo :=
  let hes := halfface s hf in
  let two := hes ++ hes in
  match find_index (fun h => he_from s h =? a) two with
  | None => Some {| tr_vh := repeat None 3; tr_heh := repeat None 3 |}
  | Some i =>
      let l := firstn 3 (skipn i two) in
      Some {| tr_vh := firstn 3 (map (fun h => Some (he_from s h)) l ++ repeat None 3);
              tr_heh := firstn 3 (map Some l ++ repeat None 3) |}
  end.

(* ------------------------------------------------------------------ consistency predicates (computable) *)

Definition oall {A} (f : A -> bool) (o : option A) : bool := match o with Some x => f x | None => false end.

(* every labelled halfedge joins its two labelled vertices *)
Definition tt_he_consistent (s : mesh) (t : ttopo) : bool :=
  forallb (fun l => oall (fun h => oeqb (tt_vh_l t (TT_hel_from l)) (he_from s h) &&
                                   oeqb (tt_vh_l t (TT_hel_to l)) (he_to s h)) (tt_heh_l t l)) HEL_all.

(* four distinct (valid) vertices *)
Definition tt_v_distinct (t : ttopo) : bool :=
  match tt_vh t with
  | [Some a; Some b; Some c; Some d] =>
      negb (a =? b) && negb (a =? c) && negb (a =? d) && negb (b =? c) && negb (b =? d) && negb (c =? d)
  | _ => false
  end.

Definition rot1 {A} (l : list A) : list A := match l with [] => [] | x :: t => t ++ [x] end.
Definition is_rotation (l m : list nat) : bool :=
  (length l =? length m) &&
  existsb (fun k => if list_eq_dec Nat.eq_dec (Nat.iter k rot1 l) m then true else false) (seq 0 (length l)).

(* every labelled halfface with a start is the halfface on those vertices in that rotation; inner labels
   are halffaces of the cell [ch], outer labels their opposites *)
Definition tt_hf_consistent (s : mesh) (ch : nat) (t : ttopo) : bool :=
  forallb (fun l =>
    if HFL_has_start l then
      oall (fun hf =>
              let want := map (fun i => tt_vh_l t (TT_hfl_vl l i)) [0; 1; 2]%Z in
              match want with
              | [Some x; Some y; Some z] => is_rotation (hf_vertices s hf) [x; y; z]
              | _ => false
              end &&
              (if HFL_is_inner l then memb hf (cell_at s ch) else memb (opp hf) (cell_at s ch)))
           (tt_hfh_l t l)
    else true) HFL_all.

(* get_label inverts the accessors *)
Definition tt_label_consistent (t : ttopo) : bool :=
  forallb (fun l => oall (fun v => match tt_label_v t v with Some l' => Z.eqb l l' | None => false end) (tt_vh_l t l)) VL_all &&
  forallb (fun l => oall (fun h => match tt_label_he t h with Some l' => Z.eqb l l' | None => false end) (tt_heh_l t l)) HEL_all &&
  forallb (fun l =>
     if HFL_has_start l then
       oall (fun hf => oall (fun v => match tt_label_hf_v t hf v with Some l' => Z.eqb l l' | None => false end)
                            (tt_vh_l t (TT_hfl_vl l 0))) (tt_hfh_l t l)
     else
       oall (fun hf => match tt_label_hf t hf with Some l' => Z.eqb l l' | None => false end) (tt_hfh_l t l)) HFL_all.

Definition tt_consistent (s : mesh) (ch : nat) (t : ttopo) : bool :=
  tt_v_distinct t && tt_he_consistent s t && tt_hf_consistent s ch t && tt_label_consistent t.
