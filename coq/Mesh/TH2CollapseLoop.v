(* Mesh/TH2CollapseLoop.v -- C15, collapse_edge: the first loop (rebuild every tet of the star of a that does not contain
   the edge on b, then delete it), step by step, under the loop invariant L1. *)
From Coq Require Import ZArith Lia Bool Arith List ZifyNat ZifyBool.
From OVM Require Import Base.ListX Base.ListLemmas Kernel.State Kernel.Ops Kernel.Mirror Kernel.Recompute Kernel.Closure Kernel.Sizes
                        Kernel.ExactInv Kernel.ExactRun Kernel.DeferredDelete Kernel2.ReorderExact Kernel2.ExactBase Kernel2.ExactHistory
                        Kernel2.ExactDelCell Mesh.TetModel Mesh.TetProofs Mesh.TH2CollapseBase.
Import ListNotations.
Ltac Zify.zify_post_hook ::= Z.div_mod_to_equations.
Local Open Scope nat_scope.

(* the halfedges of every live face are live *)
Definition face_edges_live (s : mesh) : Prop :=
  forall f, f < nf s -> f_deleted s f = false -> forall h, In h (face_at s f) -> e_deleted s (h / 2) = false.

Lemma dbl_div n : 2 * n / 2 = n. Proof. lia. Qed.
Lemma dbl_even n : Nat.even (2 * n) = true. Proof. rewrite even_mod2. apply Nat.eqb_eq. lia. Qed.
Lemma half_lt h n : h / 2 < n -> h < 2 * n. Proof. lia. Qed.

Lemma cdel_tet_add_halfedge s x y : cdel (fst (tet_add_halfedge s x y)) = cdel s.
Proof.
  unfold tet_add_halfedge, add_edge, append_edge. destruct (find_halfedge s x y); [reflexivity|]. cbv zeta.
  destruct (find_dup_edge s x y); [reflexivity|]. cbn [fst].
  repeat match goal with |- context [if ?c then _ else _] => destruct c end; reflexivity.
Qed.

Section Loop.
  Variables (a b : nat) (s0 : mesh).
  Hypothesis Hab : a <> b.

  (* the invariant of the first loop: the state is s0 with edges and faces appended, none of them at the vertex a; caches exact *)
  Definition L1 (t : mesh) : Prop :=
    grow s0 t /\ bu_inv2 t /\ szd t /\ vbu t = true /\ tet_shape t /\ faces_loop t /\ face_edges_live t /\ b < nv t /\
    (forall e, ne s0 <= e -> e < ne t -> fst (edge_at t e) <> a /\ snd (edge_at t e) <> a) /\
    (forall f, nf s0 <= f -> f < nf t -> forall h, In h (face_at t f) -> h / 2 < ne t /\ he_from t h <> a /\ he_to t h <> a).

  Lemma L1_lens t : L1 t -> length (edel t) = ne t /\ length (fdel t) = nf t /\ length (cdel t) = nc t.
  Proof. intros (_ & B & _). destruct (bu_inv2_lens t B) as (_ & _ & _ & x & y & z). auto. Qed.

  (* halfedges of live faces are in range, live, with endpoints below nv *)
  Lemma L1_he t f h : L1 t -> f < nf t -> f_deleted t f = false -> In h (face_at t f) ->
    h / 2 < ne t /\ e_deleted t (h / 2) = false /\ he_from t h < nv t /\ he_to t h < nv t.
  Proof.
    intros (_ & B & _ & _ & _ & _ & FL & _) Hf D Hh. destruct (bu_inv2_refs t B) as (R1 & R2 & _).
    pose proof (R2 f Hf D h Hh) as R. assert (R' : h / 2 < ne t) by lia. pose proof (FL f Hf D h Hh) as Dl.
    destruct (R1 (h / 2) R' Dl) as [X Y]. split; [exact R'|]. split; [exact Dl|].
    unfold he_from, he_to. destruct (edge_at t (h / 2)) as [p q]. cbn [fst snd] in X, Y. destruct (Nat.even h); split; assumption.
  Qed.

  Lemma L1_hf_he t hf h : L1 t -> hf / 2 < nf t -> f_deleted t (hf / 2) = false -> In h (halfface t hf) ->
    h / 2 < ne t /\ e_deleted t (h / 2) = false /\ he_from t h < nv t /\ he_to t h < nv t.
  Proof.
    intros L Hf D Hh. apply In_halfface in Hh. destruct (Nat.even hf).
    - exact (L1_he t _ h L Hf D Hh).
    - destruct (L1_he t _ _ L Hf D Hh) as (x1 & x2 & x3 & x4). rewrite opp_div2 in x1, x2. rewrite he_from_opp in x3. rewrite he_to_opp in x4. auto.
  Qed.

  (* ---------------------------------------------------------------- preservation: a step that appends edges only *)
  Lemma L1_edges_step t t1 : L1 t -> grow t t1 -> faces t1 = faces t -> bu_inv2 t1 -> szd t1 ->
    (forall e, ne t <= e -> e < ne t1 -> fst (edge_at t1 e) <> a /\ snd (edge_at t1 e) <> a) -> L1 t1.
  Proof.
    intros L G FE B1 Z1 NA. pose proof (L1_lens t L) as (Le & Lf & _).
    destruct L as (G0 & B & Z & V & K & FLo & FL & Hb & AE & AF).
    assert (NF : nf t1 = nf t) by (unfold nf; rewrite FE; reflexivity).
    assert (FA : forall f, face_at t1 f = face_at t f) by (intros f; unfold face_at; rewrite FE; reflexivity).
    assert (FD : forall f, f < nf t -> f_deleted t1 f = f_deleted t f) by (intros f Hf; apply (grow_f_deleted t t1 G Lf f Hf)).
    assert (HE : forall f h, f < nf t -> f_deleted t f = false -> In h (face_at t f) ->
                 he_from t1 h = he_from t h /\ he_to t1 h = he_to t h /\ e_deleted t1 (h / 2) = false).
    { intros f h Hf D Hh. destruct (L1_he t f h (conj G0 (conj B (conj Z (conj V (conj K (conj FLo (conj FL (conj Hb (conj AE AF))))))))) Hf D Hh) as (r & d & _).
      split; [apply (grow_he_from t t1 G); exact r|]. split; [apply (grow_he_to t t1 G); exact r|].
      rewrite (grow_e_deleted t t1 G Le) by exact r. exact d. }
    unfold L1. split; [eapply grow_trans; eassumption|]. split; [exact B1|]. split; [exact Z1|].
    split; [destruct G as (_ & _ & _ & _ & _ & v & _); congruence|].
    split; [destruct K as [K1 K2]; split; [rewrite FE; exact K1 | destruct G as (_ & _ & _ & _ & c & _); rewrite c; exact K2]|].
    split.
    { intros f Hf D. rewrite NF in Hf. rewrite FD in D by exact Hf. rewrite FA.
      rewrite (loop_ok_ext t t1 (face_at t f)); [apply FLo; assumption|]. intros h Hh. destruct (HE f h Hf D Hh) as (x & y & _). split; assumption. }
    split.
    { intros f Hf D h Hh. rewrite NF in Hf. rewrite FD in D by exact Hf. rewrite FA in Hh. exact (proj2 (proj2 (HE f h Hf D Hh))). }
    split; [destruct G as (n & _); rewrite n; exact Hb|].
    split.
    { intros e H1 H2. destruct (le_lt_dec (ne t) e) as [X|X]; [apply NA; assumption|].
      rewrite (grow_edge_at t t1 G e X). apply AE; assumption. }
    intros f H1 H2 h Hh. rewrite NF in H2. rewrite FA in Hh. destruct (AF f H1 H2 h Hh) as (r & x & y).
    split; [pose proof (grow_ne t t1 G); lia|]. rewrite (grow_he_from t t1 G h r), (grow_he_to t t1 G h r). split; assumption.
  Qed.

  Lemma L1_swap_prop k i j t : L1 t -> L1 (swap_prop_elems k i j t).
  Proof.
    intros (G0 & B & Z & V & K & FLo & FL & Hb & AE & AF).
    unfold L1. split; [exact G0|]. split; [exact B|]. split; [exact (szd_swap_prop k i j t Z)|]. split; [exact V|].
    split; [exact K|].
    split; [intros f Hf D; rewrite (loop_ok_ext t (swap_prop_elems k i j t)); [exact (FLo f Hf D) | intros h _; split; reflexivity]|].
    split; [exact FL|]. split; [exact Hb|]. split; [exact AE | exact AF].
  Qed.

  Lemma sub_lt t x : L1 t -> x < nv t -> sub a b x < nv t.
  Proof. intros (_ & _ & _ & _ & _ & _ & _ & Hb & _) Hx. unfold sub. destruct (x =? a); assumption. Qed.

  (* ---------------------------------------------------------------- one halfedge *)
  Lemma collapse_he_spec t l e : L1 t -> e / 2 < ne t -> he_from t e < nv t -> he_to t e < nv t ->
    let r := collapse_he a b (t, l) e in
    L1 (fst r) /\ grow t (fst r) /\ faces (fst r) = faces t /\ cdel (fst r) = cdel t /\
    exists h', snd r = l ++ [h'] /\ h' / 2 < ne (fst r) /\ e_deleted (fst r) (h' / 2) = false /\
               he_from (fst r) h' = sub a b (he_from t e) /\ he_to (fst r) h' = sub a b (he_to t e).
  Proof.
    intros L R Hx Hy. cbv zeta. unfold collapse_he. cbv zeta.
    fold (sub a b (he_from t e)). fold (sub a b (he_to t e)).
    set (x := sub a b (he_from t e)). set (y := sub a b (he_to t e)).
    pose proof L as (G0 & B & Z & V & _).
    pose proof (tet_add_halfedge_spec t x y B Z V (sub_lt t _ L Hx) (sub_lt t _ L Hy)) as S. cbv zeta in S.
    pose proof (fc_tet_add_halfedge t x y) as (FE & _). pose proof (cdel_tet_add_halfedge t x y) as CD.
    destruct (tet_add_halfedge t x y) as [t1 h']. cbn [fst snd] in *.
    destruct S as (G & B1 & Z1 & r1 & d1 & f1 & t1' & NE & _).
    assert (L1' : L1 t1).
    { apply (L1_edges_step t t1 L G FE B1 Z1). intros e' H1 H2. rewrite (NE e' H1 H2). cbn [fst snd]. unfold x, y. split; apply sub_neq; exact Hab. }
    split; [apply L1_swap_prop; exact L1'|]. split; [exact G|]. split; [exact FE|]. split; [exact CD|].
    exists h'. split; [reflexivity|]. split; [exact r1|]. split; [exact d1|]. split; [exact f1 | exact t1'].
  Qed.

  (* ---------------------------------------------------------------- appending a triangle that avoids a *)
  Lemma grow_append_face t hes : grow t (fst (append_face t hes)).
  Proof.
    pose proof (append_face_view t hes) as V. cbv zeta in V.
    destruct V as (v1 & v2 & v3 & v4 & v5 & v6 & v7 & v8 & v9 & v10 & _).
    assert (D : deferred (fst (append_face t hes)) = deferred t) by apply deferred_append_face.
    assert (VD : vdel (fst (append_face t hes)) = vdel t).
    { unfold append_face. cbv zeta. cbn [fst]. repeat match goal with |- context [if ?c then _ else _] => destruct c end; reflexivity. }
    unfold grow. repeat split; try assumption.
    - exists []. rewrite v2, v5, !app_nil_r. split; reflexivity.
    - exists [hes]. split; assumption.
  Qed.

  Lemma L1_face_step t h0 h1 h2 : L1 t ->
    (forall h, In h [h0; h1; h2] -> h / 2 < ne t /\ e_deleted t (h / 2) = false /\ he_from t h <> a /\ he_to t h <> a) ->
    loop_ok t [h0; h1; h2] = true -> simple_hes [h0; h1; h2] ->
    let t1 := fst (append_face t [h0; h1; h2]) in
    L1 t1 /\ grow t t1 /\ edges t1 = edges t /\ faces t1 = faces t ++ [[h0; h1; h2]] /\ cdel t1 = cdel t.
  Proof.
    intros L HH LO SI. cbv zeta. pose proof (L1_lens t L) as (Le & Lf & _).
    pose proof L as (G0 & B & Z & V & K & FLo & FL & Hb & AE & AF).
    pose proof (grow_append_face t [h0; h1; h2]) as G.
    pose proof (append_face_view t [h0; h1; h2]) as W. cbv zeta in W. destruct W as (w1 & w2 & w3 & w4 & _ & _ & w7 & _).
    assert (B1 : bu_inv2 (fst (append_face t [h0; h1; h2]))).
    { pose proof (bu_inv2_add_face t [h0; h1; h2] false B) as X. unfold add_face in X. cbn [andb] in X.
      destruct (append_face t [h0; h1; h2]) as [u f]. apply X; [|exact SI]. intros h Hh. destruct (HH h Hh) as (r & _). lia. }
    assert (Z1 : szd (fst (append_face t [h0; h1; h2]))).
    { pose proof (szd_add_face t [h0; h1; h2] false Z) as X. unfold add_face in X. cbn [andb] in X.
      destruct (append_face t [h0; h1; h2]) as [u f]. exact X. }
    assert (K1 : tet_shape (fst (append_face t [h0; h1; h2]))) by (apply kshape_append_face; [exact K | reflexivity]).
    set (t1 := fst (append_face t [h0; h1; h2])) in *.
    assert (NF : nf t1 = S (nf t)) by (unfold nf; rewrite w3, app_length; simpl; lia).
    assert (NE : ne t1 = ne t) by (unfold ne; rewrite w2; reflexivity).
    assert (EA : forall e, edge_at t1 e = edge_at t e) by (intros e; unfold edge_at; rewrite w2; reflexivity).
    assert (HF : forall h, he_from t1 h = he_from t h) by (intros h; unfold he_from; rewrite EA; reflexivity).
    assert (HT : forall h, he_to t1 h = he_to t h) by (intros h; unfold he_to; rewrite EA; reflexivity).
    assert (FA : forall f, face_at t1 f = if f <? nf t then face_at t f else if f =? nf t then [h0; h1; h2] else []).
    { intros f. unfold face_at. rewrite w3. apply nth_app_last. }
    assert (ED : forall e, e_deleted t1 e = e_deleted t e).
    { intros e. destruct (le_lt_dec (ne t) e) as [X|X].
      - rewrite (grow_e_new t t1 G Le e X). unfold e_deleted. symmetry. apply nth_overflow. rewrite Le. exact X.
      - apply (grow_e_deleted t t1 G Le e X). }
    split; [|split; [exact G|split; [exact w2 | split; [exact w3 | exact w7]]]].
    unfold L1. split; [eapply grow_trans; eassumption|]. split; [exact B1|]. split; [exact Z1|].
    split; [destruct G as (_ & _ & _ & _ & _ & v & _); congruence|]. split; [exact K1|].
    split.
    { intros f Hf D. rewrite FA. destruct (Nat.ltb_spec f (nf t)) as [X|X].
      - rewrite (grow_f_deleted t t1 G Lf f X) in D. rewrite (loop_ok_ext t t1); [apply FLo; assumption|]. intros h _. split; [apply HF | apply HT].
      - replace f with (nf t) by lia. rewrite Nat.eqb_refl. rewrite (loop_ok_ext t t1); [exact LO|]. intros h _. split; [apply HF | apply HT]. }
    split.
    { intros f Hf D h Hh. rewrite FA in Hh. rewrite ED. destruct (Nat.ltb_spec f (nf t)) as [X|X].
      - rewrite (grow_f_deleted t t1 G Lf f X) in D. exact (FL f X D h Hh).
      - replace f with (nf t) in Hh by lia. rewrite Nat.eqb_refl in Hh. exact (proj1 (proj2 (HH h Hh))). }
    split; [destruct G as (n & _); rewrite n; exact Hb|].
    split.
    { intros e H1 H2. rewrite EA. apply AE; [exact H1 | lia]. }
    intros f H1 H2 h Hh. rewrite FA in Hh. rewrite NE, HF, HT. destruct (Nat.ltb_spec f (nf t)) as [X|X].
    - exact (AF f H1 X h Hh).
    - replace f with (nf t) in Hh by lia. rewrite Nat.eqb_refl in Hh. destruct (HH h Hh) as (r & _ & x & y). auto.
  Qed.

  (* ---------------------------------------------------------------- a triangle on three distinct vertices is simple *)
  Lemma triangle_simple t h0 h1 h2 x y z :
    he_from t h0 = x -> he_to t h0 = y -> he_from t h1 = y -> he_to t h1 = z -> he_from t h2 = z -> he_to t h2 = x ->
    x <> y -> y <> z -> x <> z -> simple_hes [h0; h1; h2].
  Proof.
    intros F0 T0 F1 T1 F2 T2 Nxy Nyz Nxz. split.
    - repeat constructor; cbn [In]; intuition congruence.
    - intros h Hh Ho.
      assert (Q : forall g, In g [h0; h1; h2] -> In (opp g) [h0; h1; h2] -> False).
      { intros g Hg Hog. pose proof (he_from_opp t g) as A1. pose proof (he_to_opp t g) as A2. pose proof (opp_neq g) as A3.
        destruct Hg as [<-|[<-|[<-|[]]]]; destruct Hog as [E|[E|[E|[]]]]; try (symmetry in E; contradiction); rewrite <- E in *; congruence. }
      exact (Q h Hh Ho).
  Qed.

  Lemma hf_vertices_swap_prop k i j t h : hf_vertices (swap_prop_elems k i j t) h = hf_vertices t h.
  Proof. reflexivity. Qed.

  (* the image of a halfface on the vertices vs: a live halfface on the substituted vertices, in the same cyclic order *)
  Definition img (t : mesh) (vs : list nat) (hfh : nat) : Prop :=
    hfh / 2 < nf t /\ f_deleted t (hfh / 2) = false /\ rot3 (map (sub a b) vs) (hf_vertices t hfh).

  Lemma img_swap_prop k i j t vs h : img t vs h -> img (swap_prop_elems k i j t) vs h.
  Proof. intros H. exact H. Qed.

  Lemma live_hf_vertices_grow t t' hf : L1 t -> grow t t' -> hf / 2 < nf t -> f_deleted t (hf / 2) = false ->
    hf_vertices t' hf = hf_vertices t hf /\ hf / 2 < nf t' /\ f_deleted t' (hf / 2) = false.
  Proof.
    intros L G Hf D. pose proof (L1_lens t L) as (Le & Lf & _). split; [|split].
    - apply (grow_hf_vertices t t' hf G Hf). intros h Hh. exact (proj1 (L1_he t _ h L Hf D Hh)).
    - pose proof (grow_nf t t' G). lia.
    - rewrite (grow_f_deleted t t' G Lf _ Hf). exact D.
  Qed.

  Lemma img_grow t t' vs hfh : L1 t -> grow t t' -> img t vs hfh -> img t' vs hfh.
  Proof.
    intros L G (R & D & Ro). destruct (live_hf_vertices_grow t t' hfh L G R D) as (E & R' & D').
    split; [exact R'|]. split; [exact D'|]. rewrite E. exact Ro.
  Qed.

  Lemma snd_append_face t hes : snd (append_face t hes) = nf t.
  Proof. reflexivity. Qed.

  (* ---------------------------------------------------------------- one halfface *)
  Lemma collapse_hf_spec t l hf x y z : L1 t -> hf / 2 < nf t -> f_deleted t (hf / 2) = false ->
    hf_vertices t hf = [x; y; z] -> NoDup [x; y; z] -> ~ In b [x; y; z] ->
    exists t' hfh, collapse_hf a b (Some (t, l)) hf = Some (t', l ++ [hfh]) /\ L1 t' /\ grow t t' /\ cdel t' = cdel t /\ img t' [x; y; z] hfh.
  Proof.
    intros L Hf D HV ND NB.
    assert (Nxy : x <> y /\ y <> z /\ x <> z).
    { inversion ND as [|? ? n1 ND1]; subst. inversion ND1 as [|? ? n2 _]; subst. cbn [In] in n1, n2. intuition congruence. }
    destruct Nxy as (Nxy & Nyz & Nxz).
    assert (NBx : x <> b /\ y <> b /\ z <> b) by (cbn [In] in NB; intuition congruence). destruct NBx as (Bx & By & Bz).
    unfold hf_vertices in HV. destruct (halfface t hf) as [|e0 [|e1 [|e2 [|]]]] eqn:EH; try discriminate.
    cbn [map] in HV. injection HV as F0 F1 F2.
    pose proof L as (G0 & B & Z & V & K & FLo & FL & Hb & AE & AF).
    destruct (halfface_loop t hf e0 e1 e2 (FLo _ Hf D) EH) as (T0 & T1 & T2).
    assert (I0 : In e0 (halfface t hf)) by (rewrite EH; left; reflexivity).
    assert (I1 : In e1 (halfface t hf)) by (rewrite EH; right; left; reflexivity).
    assert (I2 : In e2 (halfface t hf)) by (rewrite EH; right; right; left; reflexivity).
    destruct (L1_hf_he t hf e0 L Hf D I0) as (r0 & _ & fx0 & tx0).
    destruct (L1_hf_he t hf e1 L Hf D I1) as (r1 & _ & fx1 & tx1).
    destruct (L1_hf_he t hf e2 L Hf D I2) as (r2 & _ & fx2 & tx2).
    unfold collapse_hf, bind. rewrite EH. cbn [rd nth_error fold_left].
    (* first halfedge *)
    pose proof (collapse_he_spec t [] e0 L r0 fx0 tx0) as S1. cbv zeta in S1.
    destruct (collapse_he a b (t, []) e0) as [t1 l1]. cbn [fst snd] in S1.
    destruct S1 as (L1a & G1 & FE1 & CD1 & h0 & -> & p0 & d0 & f0 & q0). cbn [app].
    pose proof (L1_lens t L) as (Le & Lf & _).
    (* second *)
    assert (r1' : e1 / 2 < ne t1) by (pose proof (grow_ne t t1 G1); lia).
    assert (NV1 : nv t1 = nv t) by (destruct G1 as (n & _); exact n).
    pose proof (collapse_he_spec t1 [h0] e1 L1a r1') as S2. cbv zeta in S2.
    rewrite (grow_he_from t t1 G1 e1 r1), (grow_he_to t t1 G1 e1 r1), NV1 in S2. specialize (S2 fx1 tx1).
    destruct (collapse_he a b (t1, [h0]) e1) as [t2 l2]. cbn [fst snd] in S2.
    destruct S2 as (L1b & G2 & FE2 & CD2 & h1 & -> & p1 & d1 & f1 & q1). cbn [app].
    pose proof (L1_lens t1 L1a) as (Le1 & Lf1 & _).
    (* third *)
    pose proof (grow_trans t t1 t2 G1 G2) as G12.
    assert (r2' : e2 / 2 < ne t2) by (pose proof (grow_ne t t2 G12); lia).
    assert (NV2 : nv t2 = nv t) by (destruct G12 as (n & _); exact n).
    pose proof (collapse_he_spec t2 [h0; h1] e2 L1b r2') as S3. cbv zeta in S3.
    rewrite (grow_he_from t t2 G12 e2 r2), (grow_he_to t t2 G12 e2 r2), NV2 in S3. specialize (S3 fx2 tx2).
    destruct (collapse_he a b (t2, [h0; h1]) e2) as [t3 l3]. cbn [fst snd] in S3.
    destruct S3 as (L1c & G3 & FE3 & CD3 & h2 & -> & p2 & d2 & f2 & q2). cbn [app].
    pose proof (L1_lens t2 L1b) as (Le2 & Lf2 & _).
    pose proof (grow_trans t1 t2 t3 G2 G3) as G23. pose proof (grow_trans t t2 t3 G12 G3) as G13.
    (* everything about h0 h1 h2 in t3 *)
    assert (p0' : h0 / 2 < ne t3) by (pose proof (grow_ne t1 t3 G23); lia).
    assert (p1' : h1 / 2 < ne t3) by (pose proof (grow_ne t2 t3 G3); lia).
    assert (d0' : e_deleted t3 (h0 / 2) = false) by (rewrite (grow_e_deleted t1 t3 G23 Le1 _ p0); exact d0).
    assert (d1' : e_deleted t3 (h1 / 2) = false) by (rewrite (grow_e_deleted t2 t3 G3 Le2 _ p1); exact d1).
    assert (f0' : he_from t3 h0 = sub a b x) by (rewrite (grow_he_from t1 t3 G23 h0 p0), f0, F0; reflexivity).
    assert (q0' : he_to t3 h0 = sub a b y) by (rewrite (grow_he_to t1 t3 G23 h0 p0), q0, T0, F1; reflexivity).
    assert (f1' : he_from t3 h1 = sub a b y) by (rewrite (grow_he_from t2 t3 G3 h1 p1), f1, F1; reflexivity).
    assert (q1' : he_to t3 h1 = sub a b z) by (rewrite (grow_he_to t2 t3 G3 h1 p1), q1, T1, F2; reflexivity).
    assert (f2' : he_from t3 h2 = sub a b z) by (rewrite f2, F2; reflexivity).
    assert (q2' : he_to t3 h2 = sub a b x) by (rewrite q2, T2, F0; reflexivity).
    set (x' := sub a b x) in *. set (y' := sub a b y) in *. set (z' := sub a b z) in *.
    assert (Nxy' : x' <> y') by (intros E; apply Nxy; exact (sub_inj_on a b x y Bx By E)).
    assert (Nyz' : y' <> z') by (intros E; apply Nyz; exact (sub_inj_on a b y z By Bz E)).
    assert (Nxz' : x' <> z') by (intros E; apply Nxz; exact (sub_inj_on a b x z Bx Bz E)).
    assert (Ax : x' <> a) by (apply sub_neq; exact Hab). assert (Ay : y' <> a) by (apply sub_neq; exact Hab).
    assert (Az : z' <> a) by (apply sub_neq; exact Hab).
    assert (FF3 : faces t3 = faces t) by congruence. assert (CC3 : cdel t3 = cdel t) by congruence.
    pose proof L1c as (_ & B3 & Z3 & V3 & K3 & FLo3 & _).
    (* add_halfface *)
    unfold tet_add_halfface. cbn [nth]. unfold find_halfface_hes. rewrite (bu_inv2_ebu t3 B3).
    destruct (find (fun hf0 => memb h1 (halfface t3 hf0)) (hfs_at t3 h0)) as [hfh|] eqn:FH.
    - apply find_some in FH. destruct FH as [Hin Hm]. apply memb_In in Hm.
      apply (bu_inv2_ebu_ok t3 B3 (bu_inv2_ebu t3 B3) h0 (half_lt _ _ p0')) in Hin. destruct Hin as (Rh & Dh & Ih).
      destruct (halfface_three t3 hfh (proj1 (kshape_live 3 4 t3 K3) _ Rh)) as (g0 & g1 & g2 & EG).
      destruct (halfface_loop t3 hfh g0 g1 g2 (FLo3 _ Rh Dh) EG) as (c0 & c1 & c2).
      rewrite EG in Ih, Hm.
      pose proof (loop_through t3 g0 g1 g2 h0 h1 x' y' z' c0 c1 c2 Ih Hm f0' q0' f1' q1' Nxy' Nyz' Nxz') as RO.
      exists (swap_prop_elems KHF hf hfh t3), hfh. split; [reflexivity|]. split; [apply L1_swap_prop; exact L1c|]. split; [exact G13|].
      split; [exact CC3|]. apply img_swap_prop. split; [exact Rh|]. split; [exact Dh|]. unfold hf_vertices. rewrite EG. exact RO.
    - unfold tet_add_face. cbn [length Nat.eqb negb]. unfold add_face. cbn [andb].
      assert (HH : forall h, In h [h0; h1; h2] -> h / 2 < ne t3 /\ e_deleted t3 (h / 2) = false /\ he_from t3 h <> a /\ he_to t3 h <> a).
      { intros h [<-|[<-|[<-|[]]]]; repeat split; try assumption; congruence. }
      assert (LO : loop_ok t3 [h0; h1; h2] = true) by (apply loop3; repeat split; congruence).
      pose proof (triangle_simple t3 h0 h1 h2 x' y' z' f0' q0' f1' q1' f2' q2' Nxy' Nyz' Nxz') as SI.
      pose proof (L1_face_step t3 h0 h1 h2 L1c HH LO SI) as S4. cbv zeta in S4.
      pose proof (snd_append_face t3 [h0; h1; h2]) as SN.
      destruct (append_face t3 [h0; h1; h2]) as [t4 fn]. cbn [fst snd] in *. subst fn. cbn [option_map].
      destruct S4 as (L1d & G4 & EE4 & FF4 & CD4).
      exists (swap_prop_elems KHF hf (2 * nf t3) t4), (2 * nf t3). split; [reflexivity|].
      split; [apply L1_swap_prop; exact L1d|]. split; [exact (grow_trans t t3 t4 G13 G4)|].
      split; [change (cdel t4 = cdel t); congruence|].
      assert (NF4 : nf t4 = S (nf t3)) by (unfold nf; rewrite FF4, app_length; simpl; lia).
      pose proof (L1_lens t3 L1c) as (_ & Lf3 & _).
      apply img_swap_prop. unfold img. rewrite dbl_div.
      split; [rewrite NF4; apply Nat.lt_succ_diag_r|]. split; [apply (grow_f_new t3 t4 G4 Lf3); apply Nat.le_refl|].
      unfold hf_vertices, halfface. rewrite dbl_div, dbl_even.
      unfold face_at. rewrite FF4. unfold nf. rewrite nth_middle. cbn [map].
      assert (HF : forall h, he_from t4 h = he_from t3 h) by (intros h; unfold he_from, edge_at; rewrite EE4; reflexivity).
      rewrite !HF, f0', f1', f2'. apply rot3_refl.
  Qed.

  (* ---------------------------------------------------------------- deleting a (live) cell *)
  Lemma flag_all_nil l : flag_all [] l = l. Proof. reflexivity. Qed.

  Lemma L1_delete_cell t ch : L1 t -> ch < nc t -> c_deleted t ch = false ->
    L1 (delete_cell ch t) /\ grow t (delete_cell ch t) /\ cdel (delete_cell ch t) = flag_all [ch] (cdel t).
  Proof.
    intros L Hc D. pose proof L as (_ & B & Z & _).
    pose proof (delete_cell_deferred ch t (bu_inv2_deferred t B)) as S.
    destruct S as (x1 & x2 & x3 & x4 & x5 & x6 & x7 & x8 & _ & _ & _ & _ & (f1 & f2 & f3 & f4 & _) & _).
    rewrite flag_all_nil in x5, x6, x7.
    assert (G : grow t (delete_cell ch t)).
    { unfold grow. repeat split; try assumption.
      - exists []. rewrite x2, x6, !app_nil_r. split; reflexivity.
      - exists []. rewrite x3, x7, !app_nil_r. split; reflexivity. }
    split; [|split; [exact G | exact x8]].
    apply (L1_edges_step t _ L G x3 (bu_inv2_delete_cell ch t B Hc D) (szd_delete_cell ch t Z)).
    intros e H1 H2. exfalso. unfold ne in *. rewrite x2 in H2. lia.
  Qed.

  Lemma nth_error_cell t c : c < nc t -> nth_error (cells t) c = Some (cell_at t c).
  Proof. intros H. unfold cell_at. apply nth_error_nth'. exact H. Qed.

  Definition tri_ok (t : mesh) (hf : nat) : Prop :=
    exists x y z, hf_vertices t hf = [x; y; z] /\ NoDup [x; y; z] /\ ~ In b [x; y; z].

  Lemma live_cell_hf t c hf : L1 t -> c < nc t -> c_deleted t c = false -> In hf (cell_at t c) ->
    hf / 2 < nf t /\ f_deleted t (hf / 2) = false.
  Proof. intros (_ & (_ & _ & _ & _ & _ & CR & _) & _) Hc D Hin. exact (CR c hf Hc D Hin). Qed.

  Lemma tri_ok_grow t t' hf : L1 t -> grow t t' -> hf / 2 < nf t -> f_deleted t (hf / 2) = false -> tri_ok t hf ->
    tri_ok t' hf /\ hf / 2 < nf t' /\ f_deleted t' (hf / 2) = false /\ hf_vertices t' hf = hf_vertices t hf.
  Proof.
    intros L G R D (x & y & z & E & N & NB). destruct (live_hf_vertices_grow t t' hf L G R D) as (E' & R' & D').
    split; [exists x, y, z; rewrite E', E; auto|]. auto.
  Qed.

  (* ---------------------------------------------------------------- one cell of the star *)
  Lemma collapse_cell_spec t coll news ch c0 c1 c2 c3 : L1 t -> ch < nc t -> c_deleted t ch = false -> memb ch coll = false ->
    cell_at t ch = [c0; c1; c2; c3] -> (forall hf, In hf [c0; c1; c2; c3] -> tri_ok t hf) ->
    exists t' n0 n1 n2 n3,
      collapse_cell a b coll (Some (t, news)) ch = Some (t', news ++ [(ch, [n0; n1; n2; n3])]) /\
      L1 t' /\ grow t t' /\ cdel t' = flag_all [ch] (cdel t) /\
      img t' (hf_vertices t c0) n0 /\ img t' (hf_vertices t c1) n1 /\ img t' (hf_vertices t c2) n2 /\ img t' (hf_vertices t c3) n3.
  Proof.
    intros L Hc D M EC TO.
    assert (LV : forall hf, In hf [c0; c1; c2; c3] -> hf / 2 < nf t /\ f_deleted t (hf / 2) = false).
    { intros hf Hin. apply (live_cell_hf t ch hf L Hc D). rewrite EC. exact Hin. }
    unfold collapse_cell, bind. rewrite M. unfold rd. rewrite (nth_error_cell t ch Hc), EC. cbn [nth_error fold_left].
    (* halfface 0 *)
    destruct (LV c0 ltac:(left; reflexivity)) as [R0 D0]. destruct (TO c0 ltac:(left; reflexivity)) as (x0 & y0 & z0 & E0 & N0 & B0).
    destruct (collapse_hf_spec t [] c0 x0 y0 z0 L R0 D0 E0 N0 B0) as (t1 & n0 & Q1 & L1a & G1 & CD1 & I0). rewrite Q1. cbn [app].
    (* halfface 1 *)
    destruct (LV c1 ltac:(right; left; reflexivity)) as [R1 D1].
    destruct (tri_ok_grow t t1 c1 L G1 R1 D1 (TO c1 ltac:(right; left; reflexivity))) as ((x1 & y1 & z1 & E1 & N1 & B1) & R1' & D1' & V1).
    destruct (collapse_hf_spec t1 [n0] c1 x1 y1 z1 L1a R1' D1' E1 N1 B1) as (t2 & n1 & Q2 & L1b & G2 & CD2 & I1). rewrite Q2. cbn [app].
    pose proof (grow_trans t t1 t2 G1 G2) as G12.
    (* halfface 2 *)
    destruct (LV c2 ltac:(right; right; left; reflexivity)) as [R2 D2].
    destruct (tri_ok_grow t t2 c2 L G12 R2 D2 (TO c2 ltac:(right; right; left; reflexivity))) as ((x2 & y2 & z2 & E2 & N2 & B2) & R2' & D2' & V2).
    destruct (collapse_hf_spec t2 [n0; n1] c2 x2 y2 z2 L1b R2' D2' E2 N2 B2) as (t3 & n2 & Q3 & L1c & G3 & CD3 & I2). rewrite Q3. cbn [app].
    pose proof (grow_trans t t2 t3 G12 G3) as G13.
    (* halfface 3 *)
    destruct (LV c3 ltac:(right; right; right; left; reflexivity)) as [R3 D3].
    destruct (tri_ok_grow t t3 c3 L G13 R3 D3 (TO c3 ltac:(right; right; right; left; reflexivity))) as ((x3 & y3 & z3 & E3 & N3 & B3) & R3' & D3' & V3).
    destruct (collapse_hf_spec t3 [n0; n1; n2] c3 x3 y3 z3 L1c R3' D3' E3 N3 B3) as (t4 & n3 & Q4 & L1d & G4 & CD4 & I3). rewrite Q4. cbn [app].
    pose proof (grow_trans t t3 t4 G13 G4) as G14.
    (* delete the cell *)
    assert (Hc4 : ch < nc t4) by (rewrite (grow_nc t t4 G14); exact Hc).
    assert (CD : cdel t4 = cdel t) by congruence.
    assert (D4 : c_deleted t4 ch = false) by (unfold c_deleted; rewrite CD; exact D).
    destruct (L1_delete_cell t4 ch L1d Hc4 D4) as (L1e & G5 & CD5).
    exists (delete_cell ch t4), n0, n1, n2, n3. split; [reflexivity|]. split; [exact L1e|].
    split; [exact (grow_trans t t4 _ G14 G5)|]. split; [rewrite CD5, CD; reflexivity|].
    rewrite E0. rewrite <- V1, E1. rewrite <- V2, E2. rewrite <- V3, E3.
    split; [apply (img_grow t4 _ _ n0 L1d G5); apply (img_grow t3 t4 _ n0 L1c G4); apply (img_grow t2 t3 _ n0 L1b G3); apply (img_grow t1 t2 _ n0 L1a G2); exact I0|].
    split; [apply (img_grow t4 _ _ n1 L1d G5); apply (img_grow t3 t4 _ n1 L1c G4); apply (img_grow t2 t3 _ n1 L1b G3); exact I1|].
    split; [apply (img_grow t4 _ _ n2 L1d G5); apply (img_grow t3 t4 _ n2 L1c G4); exact I2|].
    apply (img_grow t4 _ _ n3 L1d G5). exact I3.
  Qed.
End Loop.
