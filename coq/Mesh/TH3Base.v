(* Mesh/TH3Base.v -- C15 / C16, cells CREATED from vertices: the shared toolkit.

     no_par s        no two live edges join the same pair of vertices (parallel edges are legal in the kernel - add_edge(a,b,true) -
                     but add_cell(vertices) looks every edge up by its end vertices: with parallel edges a face found on one edge and
                     a face created on the other do not fit together)
     cre_inv s       = bu_inv s (exact caches, Kernel/ExactInv.v) /\ faces_loop s (every live face a closed loop) /\
                       face_edges_live s (halfedges of live faces are live) /\ no_par s
                     the invariant under which add_face(vertices) / add_edge are followed here; preserved by both
     he_ends s h     = (from-vertex, to-vertex);  under no_par a live halfedge is determined by its ends
     add_face_v_cre  add_face(vertices): the new face 2 * nf s is a closed loop whose halfedges run v0->v1, v1->v2, ..., v(n-1)->v0
   Proofs only. *)
From Coq Require Import ZArith Lia Bool Arith List ZifyNat ZifyBool Permutation.
From OVM Require Import Base.ListX Base.ListLemmas Kernel.State Kernel.Ops Kernel.Mirror Kernel.Recompute Kernel.Closure Kernel.CellCheck
                        Kernel.Construct Kernel.ExactInv Kernel.ExactRun
                        Mesh.TetModel Mesh.TetProofs Mesh.HexModel Mesh.HexProofs Mesh.TH2CollapseBase Mesh.TH2CollapseLoop Mesh.TH2HexChecked
                        Mesh.TH2HexEight.
Import ListNotations.
Ltac Zify.zify_post_hook ::= Z.div_mod_to_equations.
Local Open Scope nat_scope.

(* ================================================================== 1. no parallel edges *)

Definition no_par (s : mesh) : Prop :=
  forall e e' a b, e < ne s -> e' < ne s -> e_deleted s e = false -> e_deleted s e' = false ->
    joins s e a b -> joins s e' a b -> e = e'.

Definition same_ends (p q : nat * nat) : bool :=
  ((fst p =? fst q) && (snd p =? snd q)) || ((fst p =? snd q) && (snd p =? fst q)).

Definition no_par_b (s : mesh) : bool :=
  forallb (fun e => forallb (fun e' => e_deleted s e || e_deleted s e' || (e =? e') || negb (same_ends (edge_at s e) (edge_at s e')))
                            (seq 0 (ne s))) (seq 0 (ne s)).

Lemma no_par_b_sound s : no_par_b s = true -> no_par s.
Proof.
  unfold no_par_b. rewrite forallb_forall. intros H e e' a b He He' D D' J J'.
  specialize (H e ltac:(apply in_seq; lia)). rewrite forallb_forall in H. specialize (H e' ltac:(apply in_seq; lia)).
  rewrite D, D' in H. cbn [orb] in H. destruct (Nat.eqb_spec e e') as [E|N]; [exact E|]. cbn [orb] in H. exfalso.
  apply negb_true_iff in H. unfold joins in J, J'. unfold same_ends in H.
  destruct J as [J|J], J' as [J'|J']; rewrite J, J' in H; cbn [fst snd] in H; rewrite ?Nat.eqb_refl in H; cbn [andb orb] in H;
    rewrite ?orb_true_r in H; discriminate.
Qed.

(* ================================================================== 2. halfedges by their ends *)

Definition he_ends (s : mesh) (h : nat) : nat * nat := (he_from s h, he_to s h).
Definition live_he_p (s : mesh) (h : nat) : Prop := h / 2 < ne s /\ e_deleted s (h / 2) = false.

Lemma live_he_p_opp s h : live_he_p s h -> live_he_p s (opp h).
Proof. unfold live_he_p. rewrite opp_div2. tauto. Qed.

Lemma he_to_cases s h : he_to s h = if h mod 2 =? 0 then snd (edge_at s (h / 2)) else fst (edge_at s (h / 2)).
Proof. unfold he_to. rewrite even_mod2. destruct (edge_at s (h / 2)). destruct (h mod 2 =? 0); reflexivity. Qed.

Lemma he_unique s h h' : no_par s -> live_he_p s h -> live_he_p s h' ->
  he_from s h = he_from s h' -> he_to s h = he_to s h' -> he_from s h <> he_to s h -> h = h'.
Proof.
  intros NP [R D] [R' D'] F T N.
  assert (E : h / 2 = h' / 2).
  { apply (NP (h / 2) (h' / 2) (he_from s h) (he_to s h) R R' D D').
    - apply he_to_from_joins; reflexivity.
    - apply he_to_from_joins; symmetry; assumption. }
  rewrite !he_from_cases in F. rewrite !he_to_cases in T. rewrite he_from_cases, he_to_cases in N. rewrite <- E in F, T.
  destruct (Nat.eqb_spec (h mod 2) 0) as [P|P], (Nat.eqb_spec (h' mod 2) 0) as [P'|P']; try lia; exfalso; congruence.
Qed.

Lemma he_unique_opp s h h' : no_par s -> live_he_p s h -> live_he_p s h' ->
  he_from s h' = he_to s h -> he_to s h' = he_from s h -> he_from s h <> he_to s h -> h' = opp h.
Proof.
  intros NP L L' F T N. symmetry. apply (he_unique s (opp h) h' NP (live_he_p_opp s h L) L').
  - rewrite he_from_opp. symmetry. exact F.
  - rewrite he_to_opp. symmetry. exact T.
  - rewrite he_from_opp, he_to_opp. intros E. apply N. symmetry. exact E.
Qed.

(* ================================================================== 3. the invariant *)

Definition cre_inv (s : mesh) : Prop := bu_inv s /\ faces_loop s /\ face_edges_live s /\ no_par s.

Definition face_edges_live_b (s : mesh) : bool :=
  forallb (fun f => f_deleted s f || forallb (fun h => negb (e_deleted s (h / 2))) (face_at s f)) (seq 0 (nf s)).

Lemma face_edges_live_b_sound s : face_edges_live_b s = true -> face_edges_live s.
Proof.
  unfold face_edges_live_b. rewrite forallb_forall. intros H f Hf D h Hh. specialize (H f ltac:(apply in_seq; lia)).
  rewrite D in H. cbn [orb] in H. rewrite forallb_forall in H. specialize (H h Hh). apply negb_true_iff in H. exact H.
Qed.

Lemma cre_bu s : cre_inv s -> bu_inv s. Proof. intros (B & _). exact B. Qed.
Lemma cre_no_par s : cre_inv s -> no_par s. Proof. intros (_ & _ & _ & N). exact N. Qed.

Lemma cre_face_he s f h : cre_inv s -> f < nf s -> f_deleted s f = false -> In h (face_at s f) -> live_he_p s h.
Proof.
  intros (B & _ & FL & _) Hf D Hh. destruct B as (_ & _ & _ & (_ & R2 & _) & _).
  pose proof (R2 f Hf D h Hh). split; [lia | exact (FL f Hf D h Hh)].
Qed.

Lemma cre_hf_he s hf h : cre_inv s -> hf / 2 < nf s -> f_deleted s (hf / 2) = false -> In h (halfface s hf) -> live_he_p s h.
Proof.
  intros C Hf D Hh. apply In_halfface in Hh. destruct (Nat.even hf).
  - exact (cre_face_he s _ h C Hf D Hh).
  - rewrite <- (opp_involutive h). apply live_he_p_opp. exact (cre_face_he s _ _ C Hf D Hh).
Qed.

Lemma cre_hf_loop s hf : cre_inv s -> hf / 2 < nf s -> f_deleted s (hf / 2) = false -> loop_ok s (halfface s hf) = true.
Proof.
  intros (_ & FLo & _) Hf D. specialize (FLo _ Hf D). unfold halfface. destruct (Nat.even hf); [exact FLo|].
  apply loop_ok_spec. apply closed_cycle_mirror. apply loop_ok_spec. exact FLo.
Qed.

(* ================================================================== 4. preservation: steps that append edges only *)

Lemma cre_edges_step s t : cre_inv s -> grow s t -> faces t = faces s -> bu_inv t -> no_par t -> cre_inv t.
Proof.
  intros C G FE Bt Nt. pose proof C as (B & FLo & FL & _). destruct (bu_lens s B) as [Le Lf].
  assert (NF : nf t = nf s) by (unfold nf; rewrite FE; reflexivity).
  assert (FA : forall f, face_at t f = face_at s f) by (intros f; unfold face_at; rewrite FE; reflexivity).
  split; [exact Bt|]. split; [|split; [|exact Nt]].
  - intros f Hf D. rewrite NF in Hf. rewrite (grow_f_deleted s t G Lf f Hf) in D. rewrite FA.
    rewrite (loop_ok_ext s t (face_at s f)); [exact (FLo f Hf D)|].
    intros h Hh. destruct (cre_face_he s f h C Hf D Hh) as [R _].
    split; [apply (grow_he_from s t G); exact R | apply (grow_he_to s t G); exact R].
  - intros f Hf D h Hh. rewrite NF in Hf. rewrite (grow_f_deleted s t G Lf f Hf) in D. rewrite FA in Hh.
    destruct (cre_face_he s f h C Hf D Hh) as [R Dl]. rewrite (grow_e_deleted s t G Le _ R). exact Dl.
Qed.

(* ---- add_edge without duplicates: found or appended, always live; no parallel edge arises *)
Lemma joins_to s e v w : joins s e v w -> he_to s (2 * e + (if snd (edge_at s e) =? v then 1 else 0)) = w.
Proof.
  intros [J|J]; rewrite J; cbn [snd].
  - destruct (Nat.eqb_spec w v) as [->|N].
    + rewrite he_to_cases. replace ((2 * e + 1) mod 2 =? 0) with false by (symmetry; apply Nat.eqb_neq; lia).
      replace ((2 * e + 1) / 2) with e by lia. rewrite J. reflexivity.
    + rewrite Nat.add_0_r, he_to_cases. replace (2 * e mod 2 =? 0) with true by (symmetry; apply Nat.eqb_eq; lia).
      replace (2 * e / 2) with e by lia. rewrite J. reflexivity.
  - rewrite Nat.eqb_refl, he_to_cases. replace ((2 * e + 1) mod 2 =? 0) with false by (symmetry; apply Nat.eqb_neq; lia).
    replace ((2 * e + 1) / 2) with e by lia. rewrite J. reflexivity.
Qed.

Lemma joins_sym s e a b : joins s e a b -> joins s e b a.
Proof. unfold joins. tauto. Qed.

Lemma joins_same_pair s e a b c d : joins s e a b -> joins s e c d -> (a = c /\ b = d) \/ (a = d /\ b = c).
Proof. unfold joins. intros [J|J] [K|K]; rewrite J in K; injection K as <- <-; tauto. Qed.

Lemma add_edge_cre s v w : cre_inv s -> v < nv s -> w < nv s ->
  let r := add_edge s v w false in
  grow s (fst r) /\ faces (fst r) = faces s /\ cre_inv (fst r) /\
  snd r < ne (fst r) /\ e_deleted (fst r) (snd r) = false /\ joins (fst r) (snd r) v w.
Proof.
  intros C Hv Hw. cbv zeta. pose proof C as (B & _ & _ & NP).
  pose proof (bu_inv_add_edge s v w false B Hv Hw) as B1. destruct (bu_lens s B) as [Le Lf].
  assert (OX : vbu s = true -> out_exact_at s v) by (intros V h; destruct B as (VO & _); apply (VO V v Hv h)).
  unfold add_edge in *. destruct (find_dup_edge s v w) as [e|] eqn:F.
  - cbn [fst snd] in *.
    assert (e < ne s /\ e_deleted s e = false /\ joins s e v w) as (r & d & j).
    { destruct (vbu s) eqn:V; [apply (find_dup_cached_sound s v w e V (OX eq_refl) F) | exact (find_dup_scan_sound s v w e V F)]. }
    split; [apply grow_refl|]. split; [reflexivity|]. split; [exact C|]. auto.
  - assert (NONE : forall e, e < ne s -> e_deleted s e = false -> ~ joins s e v w).
    { destruct (vbu s) eqn:V; [apply (find_dup_cached_complete s v w V (OX eq_refl) F) | exact (find_dup_scan_complete s v w V F)]. }
    pose proof (grow_append_edge s v w) as G. pose proof (append_edge_view s v w) as W. cbv zeta in W. destruct W as (_ & w2 & w3 & _).
    assert (S1 : snd (append_edge s v w) = ne s) by reflexivity.
    destruct (append_edge s v w) as [s1 e]. cbn [fst snd] in *. subst e.
    assert (NE1 : ne s1 = S (ne s)) by (unfold ne; rewrite w2, app_length; cbn; lia).
    assert (EA : edge_at s1 (ne s) = (v, w)) by (unfold edge_at, ne; rewrite w2, app_nth2, Nat.sub_diag by lia; reflexivity).
    assert (NP1 : no_par s1).
    { intros e e' a b He He' D D' J J'. rewrite NE1 in He, He'.
      assert (OLD : forall x, x < ne s -> e_deleted s1 x = false -> forall p q, joins s1 x p q -> e_deleted s x = false /\ joins s x p q).
      { intros x Hx Dx p q Jx. rewrite (grow_e_deleted s s1 G Le x Hx) in Dx. split; [exact Dx|].
        unfold joins in *. rewrite (grow_edge_at s s1 G x Hx) in Jx. exact Jx. }
      destruct (Nat.eq_dec e (ne s)) as [->|Ne], (Nat.eq_dec e' (ne s)) as [->|Ne']; [reflexivity | | |].
      - exfalso. destruct (OLD e' ltac:(lia) D' a b J') as [d j]. apply (NONE e' ltac:(lia) d).
        assert (Jn : joins s1 (ne s) v w) by (left; exact EA).
        destruct (joins_same_pair s1 (ne s) a b v w J Jn) as [[-> ->]|[-> ->]]; [exact j | apply joins_sym; exact j].
      - exfalso. destruct (OLD e ltac:(lia) D a b J) as [d j]. apply (NONE e ltac:(lia) d).
        assert (Jn : joins s1 (ne s) v w) by (left; exact EA).
        destruct (joins_same_pair s1 (ne s) a b v w J' Jn) as [[-> ->]|[-> ->]]; [exact j | apply joins_sym; exact j].
      - destruct (OLD e ltac:(lia) D a b J) as [d j]. destruct (OLD e' ltac:(lia) D' a b J') as [d' j'].
        apply (NP e e' a b); try assumption; lia. }
    split; [exact G|]. split; [exact w3|]. split; [exact (cre_edges_step s s1 C G w3 B1 NP1)|].
    split; [lia|]. split; [apply (grow_e_new s s1 G Le); lia | left; exact EA].
Qed.

(* ================================================================== 5. add_face(vertices): the halfedges in order *)

(* the cyclic pairs v0->v1, v1->v2, ..., v(n-1)->first *)
Fixpoint cyc_pairs (first : nat) (vs : list nat) : list (nat * nat) :=
  match vs with
  | [] => []
  | v :: t => match t with [] => [(v, first)] | w :: _ => (v, w) :: cyc_pairs first t end
  end.

Lemma add_face_v_step_cre v w s hes : cre_inv s -> v < nv s -> w < nv s -> (forall h, In h hes -> live_he_p s h) ->
  let acc' := add_face_v_step v w (s, hes) in
  grow s (fst acc') /\ faces (fst acc') = faces s /\ cre_inv (fst acc') /\ (forall h, In h (snd acc') -> live_he_p (fst acc') h) /\
  map (he_ends (fst acc')) (snd acc') = map (he_ends s) hes ++ [(v, w)].
Proof.
  intros C Hv Hw R. cbv zeta. unfold add_face_v_step. pose proof (add_edge_cre s v w C Hv Hw) as S. cbv zeta in S.
  destruct (add_edge s v w false) as [s1 e]. cbn [fst snd] in *. destruct S as (G & Fs & C1 & Re & De & J).
  destruct (bu_lens s (cre_bu s C)) as [Le Lf].
  split; [exact G|]. split; [exact Fs|]. split; [exact C1|]. split.
  - intros h Hh. apply in_app_iff in Hh. destruct Hh as [Hh|[<-|[]]].
    + destruct (R h Hh) as [r d]. pose proof (grow_ne s s1 G Le Lf). split; [lia|]. rewrite (grow_e_deleted s s1 G Le _ r). exact d.
    + assert (E2 : (2 * e + (if snd (edge_at s1 e) =? v then 1 else 0)) / 2 = e) by (destruct (snd (edge_at s1 e) =? v); lia).
      unfold live_he_p. rewrite E2. split; assumption.
  - rewrite map_app. cbn [map]. unfold he_ends at 2. rewrite (joins_from s1 e v w J), (joins_to s1 e v w J). f_equal.
    apply map_ext_in. intros h Hh. destruct (R h Hh) as [r _]. unfold he_ends.
    rewrite (grow_he_from s s1 G h r), (grow_he_to s s1 G h r). reflexivity.
Qed.

Lemma add_face_v_edges_cre first : forall vs s hes, cre_inv s -> first < nv s -> (forall v, In v vs -> v < nv s) ->
  (forall h, In h hes -> live_he_p s h) ->
  let acc' := add_face_v_edges first vs (s, hes) in
  grow s (fst acc') /\ faces (fst acc') = faces s /\ cre_inv (fst acc') /\ (forall h, In h (snd acc') -> live_he_p (fst acc') h) /\
  map (he_ends (fst acc')) (snd acc') = map (he_ends s) hes ++ cyc_pairs first vs.
Proof.
  induction vs as [|v t IH]; intros s hes C Hf Hvs R; cbv zeta.
  - cbn [add_face_v_edges fst snd cyc_pairs]. rewrite app_nil_r. split; [apply grow_refl|]. auto.
  - cbn [add_face_v_edges cyc_pairs]. destruct t as [|w t'].
    + exact (add_face_v_step_cre v first s hes C (Hvs v (or_introl eq_refl)) Hf R).
    + pose proof (add_face_v_step_cre v w s hes C (Hvs v (or_introl eq_refl)) (Hvs w (or_intror (or_introl eq_refl))) R) as S. cbv zeta in S.
      destruct (add_face_v_step v w (s, hes)) as [s1 hes1]. cbn [fst snd] in S. destruct S as (G1 & F1 & C1 & R1 & M1).
      assert (NV : nv s1 = nv s) by (destruct G1 as (n & _); exact n).
      specialize (IH s1 hes1 C1 ltac:(rewrite NV; exact Hf) ltac:(intros u Hu; rewrite NV; apply Hvs; right; exact Hu) R1). cbv zeta in IH.
      destruct IH as (G2 & F2 & C2 & R2 & M2).
      split; [exact (grow_trans s s1 _ G1 G2)|]. split; [congruence|]. split; [exact C2|]. split; [exact R2|].
      rewrite M2, M1, <- app_assoc. reflexivity.
Qed.

(* a list of halfedges whose ends are the cyclic pairs of a vertex list is a closed loop *)
Lemma chain_of_cyc_pairs s f0 fv : forall vs hes, vs <> [] -> map (he_ends s) hes = cyc_pairs fv vs -> he_from s f0 = fv ->
  chain_ok s f0 hes = true.
Proof.
  induction vs as [|v t IH]; intros hes NE M F0; [contradiction|]. cbn [cyc_pairs] in M. destruct t as [|w t'].
  - destruct hes as [|h [|h2 r]]; cbn [map] in M; try discriminate.
    assert (T : he_to s h = fv) by (pose proof (f_equal (fun l => snd (hd (0, 0) l)) M) as X; exact X).
    cbn [chain_ok]. rewrite T, F0. apply Nat.eqb_refl.
  - destruct hes as [|h hes']; cbn [map] in M; [discriminate|].
    assert (T : he_to s h = w) by (pose proof (f_equal (fun l => snd (hd (0, 0) l)) M) as X; exact X).
    assert (M' : map (he_ends s) hes' = cyc_pairs fv (w :: t')) by (pose proof (f_equal (@tl _) M) as X; exact X).
    assert (HD : exists h2 r, hes' = h2 :: r /\ he_from s h2 = w).
    { destruct hes' as [|h2 r]; [cbn [map cyc_pairs] in M'; destruct t'; discriminate|]. exists h2, r. split; [reflexivity|].
      pose proof (f_equal (fun l => fst (hd (0, 0) l)) M') as X. cbn [map hd fst he_ends cyc_pairs] in X. destruct t'; exact X. }
    destruct HD as (h2 & r & -> & F2). cbn [chain_ok]. rewrite T, F2, Nat.eqb_refl. cbn [andb].
    apply (IH (h2 :: r)); [discriminate | exact M' | exact F0].
Qed.

Lemma loop_of_cyc_pairs s v t hes : map (he_ends s) hes = cyc_pairs v (v :: t) -> loop_ok s hes = true.
Proof.
  intros M. destruct hes as [|h r]; [cbn [map cyc_pairs] in M; destruct t; discriminate|]. cbn [loop_ok].
  apply (chain_of_cyc_pairs s h v (v :: t)); [discriminate | exact M|].
  pose proof (f_equal (fun l => fst (hd (0, 0) l)) M) as X. cbn [map hd fst he_ends cyc_pairs] in X. destruct t; exact X.
Qed.

Lemma cyc_pairs_fst first vs : map fst (cyc_pairs first vs) = vs.
Proof.
  induction vs as [|v t IH]; [reflexivity|]. cbn [cyc_pairs]. destruct t as [|w t']; [reflexivity|].
  cbn [map fst]. f_equal. exact IH.
Qed.

(* add_face(vertices) under cre_inv *)
Theorem add_face_v_cre s vs : cre_inv s -> vs <> [] -> (forall v, In v vs -> v < nv s) ->
  exists s' hes, add_face_v s vs = (s', Some (nf s)) /\ grow s s' /\ cre_inv s' /\ nf s' = S (nf s) /\
    halfface s' (2 * nf s) = hes /\ map (he_ends s') hes = cyc_pairs (hd 0 vs) vs /\
    (forall h, In h hes -> live_he_p s' h) /\ hf_vertices s' (2 * nf s) = vs.
Proof.
  intros C NE Hvs. pose proof (bu_inv_add_face_v s vs (cre_bu s C) Hvs) as B'. unfold add_face_v in *. destruct vs as [|first t]; [contradiction|].
  pose proof (add_face_v_edges_cre first (first :: t) s [] C (Hvs first (or_introl eq_refl)) Hvs ltac:(intros h [])) as S. cbv zeta in S.
  destruct (add_face_v_edges first (first :: t) (s, [])) as [s1 hes]. cbn [fst snd] in S. destruct S as (G1 & F1 & C1 & R1 & M1).
  cbn [map app] in M1.
  unfold add_face in *. cbn [andb] in *. pose proof (grow_append_face s1 hes) as G2. pose proof (append_face_view s1 hes) as W. cbv zeta in W.
  destruct W as (_ & w2 & w3 & _ & w5 & _). assert (SN : snd (append_face s1 hes) = nf s1) by reflexivity.
  destruct (append_face s1 hes) as [s2 f]. cbn [fst snd] in *. subst f.
  assert (NF1 : nf s1 = nf s) by (unfold nf; rewrite F1; reflexivity). rewrite NF1.
  destruct (bu_lens s1 (cre_bu s1 C1)) as [Le1 Lf1].
  assert (HE : forall h, he_ends s2 h = he_ends s1 h) by (intros h; unfold he_ends, he_from, he_to, edge_at; rewrite w2; reflexivity).
  assert (ED : forall e, e_deleted s2 e = e_deleted s1 e) by (intros e; unfold e_deleted; rewrite w5; reflexivity).
  assert (NE2 : ne s2 = ne s1) by (unfold ne; rewrite w2; reflexivity).
  assert (HF : halfface s2 (2 * nf s) = hes).
  { unfold halfface. rewrite dbl_div, dbl_even. unfold face_at. rewrite w3. rewrite <- NF1. unfold nf. apply nth_middle. }
  assert (M2 : map (he_ends s2) hes = cyc_pairs first (first :: t)) by (rewrite <- M1; apply map_ext; exact HE).
  assert (R2 : forall h, In h hes -> live_he_p s2 h) by (intros h Hh; unfold live_he_p; rewrite NE2, ED; exact (R1 h Hh)).
  assert (NF2 : nf s2 = S (nf s)) by (unfold nf; rewrite w3, app_length, F1; cbn; lia).
  exists s2, hes. split; [reflexivity|]. split; [exact (grow_trans s s1 s2 G1 G2)|]. split.
  { (* cre_inv s2 *)
    pose proof C1 as (_ & FLo1 & FL1 & NP1).
    assert (FAo : forall f, f < nf s1 -> face_at s2 f = face_at s1 f) by (intros f Hf; unfold face_at; rewrite w3; apply app_nth1; exact Hf).
    assert (FAn : face_at s2 (nf s1) = hes) by (unfold face_at, nf; rewrite w3; apply nth_middle).
    assert (LO : forall l, loop_ok s2 l = loop_ok s1 l).
    { intros l. apply loop_ok_ext. intros h _. pose proof (HE h) as X. unfold he_ends in X. injection X as X1 X2. split; assumption. }
    split; [exact B'|]. split; [|split].
    - intros f Hf D. rewrite NF2, <- NF1 in Hf. destruct (Nat.eq_dec f (nf s1)) as [->|Nf].
      + rewrite FAn. exact (loop_of_cyc_pairs s2 first t hes M2).
      + assert (Hf' : f < nf s1) by lia. rewrite (grow_f_deleted s1 s2 G2 Lf1 f Hf') in D. rewrite (FAo f Hf'), LO. exact (FLo1 f Hf' D).
    - intros f Hf D h Hh. rewrite NF2, <- NF1 in Hf. rewrite ED. destruct (Nat.eq_dec f (nf s1)) as [->|Nf].
      + rewrite FAn in Hh. exact (proj2 (R1 h Hh)).
      + assert (Hf' : f < nf s1) by lia. rewrite (grow_f_deleted s1 s2 G2 Lf1 f Hf') in D. rewrite (FAo f Hf') in Hh. exact (FL1 f Hf' D h Hh).
    - intros e e' a b He He' D D' J J'. rewrite NE2 in He, He'. rewrite ED in D, D'. unfold joins, edge_at in J, J'. rewrite w2 in J, J'.
      exact (NP1 e e' a b He He' D D' J J'). }
  split; [exact NF2|]. split; [exact HF|]. split; [exact M2|]. split; [exact R2|].
  unfold hf_vertices. rewrite HF. rewrite <- (cyc_pairs_fst first (first :: t)), <- M2, map_map. reflexivity.
Qed.

(* ================================================================== 6. from the kernel's history invariant *)

Lemma cre_inv_intro s : bu_inv s -> faces_loop s -> face_edges_live s -> no_par s -> cre_inv s.
Proof. intros. unfold cre_inv. auto. Qed.

Print Assumptions add_face_v_cre.
Print Assumptions he_unique_opp.
