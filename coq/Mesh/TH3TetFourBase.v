(* Mesh/TH3TetFourBase.v -- C15, add_cell(vh0, vh1, vh2, vh3, check): one add_halfface(v0, v1, v2) step under cre_inv.

     tet_add_halfedge_cre     add_halfedge(a, b): a live halfedge a->b, found or on a NEW edge (a, b); cre_inv kept
     append_face_cre          add_face(halfedges) of a closed loop of live halfedges keeps cre_inv
     find_hes_tri_on          find_halfface(halfedges) reads two halfedges; closed loops of three give the third
     tet_add_halfface_v_cre   add_halfface(a, b, c): a triangle on a->b, b->c, c->a; the halfface find_halfface(a,b,c) finds in s
                              if there is one (state unchanged), otherwise a new face stored in the order a, b, c
   Proofs only. *)
From Coq Require Import ZArith Lia Bool Arith List ZifyNat ZifyBool.
From OVM Require Import Base.ListX Base.ListLemmas Kernel.State Kernel.Ops Kernel.Mirror Kernel.Recompute Kernel.Closure Kernel.CellCheck
                        Kernel.Construct Kernel.ExactInv Kernel.ExactRun
                        Mesh.TetModel Mesh.TetProofs Mesh.HexModel Mesh.HexProofs Mesh.TH2CollapseBase Mesh.TH2CollapseLoop Mesh.TH2HexChecked
                        Mesh.TH2HexEight Mesh.TH3Base Mesh.TH3TetFound.
Import ListNotations.
Ltac Zify.zify_post_hook ::= Z.div_mod_to_equations.
Local Open Scope nat_scope.

(* ================================================================== 1. growth facts *)

Lemma live_he_grow s t h : bu_inv s -> grow s t -> live_he_p s h -> live_he_p t h /\ he_ends t h = he_ends s h.
Proof.
  intros B G [r d]. destruct (bu_lens s B) as [Le Lf]. split.
  - split; [pose proof (grow_ne s t G Le Lf); lia | rewrite (grow_e_deleted s t G Le _ r); exact d].
  - unfold he_ends. rewrite (grow_he_from s t G h r), (grow_he_to s t G h r). reflexivity.
Qed.

(* growth by edges only: the faces and their flags are the same *)
Lemma grow_same_faces s t : grow s t -> faces t = faces s -> fdel t = fdel s.
Proof.
  intros (_ & _ & _ & (F & FF & FD) & _) E. rewrite E in FF. rewrite <- (app_nil_r (faces s)) in FF at 1. apply app_inv_head in FF. subst F.
  rewrite FD. cbn [length repeat]. apply app_nil_r.
Qed.

(* ================================================================== 2. add_halfedge *)

Lemma tet_add_halfedge_cre s a b : cre_inv s -> vbu s = true -> a < nv s -> b < nv s ->
  let r := tet_add_halfedge s a b in
  grow s (fst r) /\ faces (fst r) = faces s /\ cre_inv (fst r) /\ live_he_p (fst r) (snd r) /\ he_ends (fst r) (snd r) = (a, b) /\
  match find_halfedge s a b with
  | Some h => r = (s, h)
  | None => snd r = 2 * ne s
  end.
Proof.
  intros C V Ha Hb. cbv zeta. pose proof (cre_bu s C) as B. unfold tet_add_halfedge.
  destruct (find_halfedge s a b) as [h|] eqn:F.
  - cbn [fst snd]. destruct (find_halfedge_spec s a b h B Ha F) as (L & f & t).
    split; [apply grow_refl|]. split; [reflexivity|]. split; [exact C|]. split; [exact L|]. split; [|reflexivity].
    unfold he_ends. rewrite f, t. reflexivity.
  - assert (AE : add_edge s a b false = append_edge s a b).
    { unfold find_halfedge in F. rewrite V in F. unfold add_edge, find_dup_edge. rewrite V, F. reflexivity. }
    pose proof (add_edge_cre s a b C Ha Hb) as S. cbv zeta in S. rewrite AE in *.
    pose proof (append_edge_view s a b) as W. cbv zeta in W. destruct W as (_ & w2 & _).
    assert (S1 : snd (append_edge s a b) = ne s) by reflexivity.
    destruct (append_edge s a b) as [s1 e]. cbn [fst snd] in *. subst e. destruct S as (G & Fs & C1 & Re & De & _).
    assert (EA : edge_at s1 (ne s) = (a, b)) by (unfold edge_at, ne; rewrite w2, app_nth2, Nat.sub_diag by lia; reflexivity).
    split; [exact G|]. split; [exact Fs|]. split; [exact C1|]. split; [|split; [|reflexivity]].
    + unfold live_he_p. rewrite dbl_div. split; assumption.
    + unfold he_ends. rewrite he_from_cases, he_to_cases, dbl_div, EA.
      replace (2 * ne s mod 2 =? 0) with true by (symmetry; apply Nat.eqb_eq; lia). reflexivity.
Qed.

(* ================================================================== 3. add_face(halfedges) of a closed loop *)

Lemma append_face_cre s hes : cre_inv s -> (forall h, In h hes -> live_he_p s h) -> loop_ok s hes = true ->
  let s2 := fst (append_face s hes) in
  snd (append_face s hes) = nf s /\ grow s s2 /\ cre_inv s2 /\ nf s2 = S (nf s) /\ halfface s2 (2 * nf s) = hes /\
  (forall h, he_ends s2 h = he_ends s h).
Proof.
  intros C Lv Lo. cbv zeta. pose proof (cre_bu s C) as B.
  assert (Rg : forall h, In h hes -> h < 2 * ne s) by (intros h Hh; destruct (Lv h Hh) as [r _]; lia).
  pose proof (bu_inv_append_face s hes B Rg) as B'. pose proof (grow_append_face s hes) as G.
  pose proof (append_face_view s hes) as W. cbv zeta in W. destruct W as (_ & w2 & w3 & _ & w5 & _).
  assert (SN : snd (append_face s hes) = nf s) by reflexivity.
  destruct (append_face s hes) as [s2 f]. cbn [fst snd] in *. subst f.
  destruct (bu_lens s B) as [Le Lf].
  assert (HE : forall h, he_ends s2 h = he_ends s h) by (intros h; unfold he_ends, he_from, he_to, edge_at; rewrite w2; reflexivity).
  assert (ED : forall e, e_deleted s2 e = e_deleted s e) by (intros e; unfold e_deleted; rewrite w5; reflexivity).
  assert (NE2 : ne s2 = ne s) by (unfold ne; rewrite w2; reflexivity).
  assert (NF2 : nf s2 = S (nf s)) by (unfold nf; rewrite w3, app_length; cbn; lia).
  assert (HF : halfface s2 (2 * nf s) = hes).
  { unfold halfface. rewrite dbl_div, dbl_even. unfold face_at. rewrite w3. unfold nf. apply nth_middle. }
  split; [reflexivity|]. split; [exact G|]. split; [|split; [exact NF2|split; [exact HF | exact HE]]].
  pose proof C as (_ & FLo & FL & NP).
  assert (FAo : forall f, f < nf s -> face_at s2 f = face_at s f) by (intros f Hf; unfold face_at; rewrite w3; apply app_nth1; exact Hf).
  assert (FAn : face_at s2 (nf s) = hes) by (unfold face_at, nf; rewrite w3; apply nth_middle).
  assert (LO : forall l, loop_ok s2 l = loop_ok s l).
  { intros l. apply loop_ok_ext. intros h _. pose proof (HE h) as X. unfold he_ends in X. injection X as X1 X2. split; assumption. }
  split; [exact B'|]. split; [|split].
  - intros f Hf D. rewrite NF2 in Hf. destruct (Nat.eq_dec f (nf s)) as [->|Nf].
    + rewrite FAn, LO. exact Lo.
    + assert (Hf' : f < nf s) by lia. rewrite (grow_f_deleted s s2 G Lf f Hf') in D. rewrite (FAo f Hf'), LO. exact (FLo f Hf' D).
  - intros f Hf D h Hh. rewrite NF2 in Hf. rewrite ED. destruct (Nat.eq_dec f (nf s)) as [->|Nf].
    + rewrite FAn in Hh. exact (proj2 (Lv h Hh)).
    + assert (Hf' : f < nf s) by lia. rewrite (grow_f_deleted s s2 G Lf f Hf') in D. rewrite (FAo f Hf') in Hh. exact (FL f Hf' D h Hh).
  - intros e e' x y He He' D D' J J'. rewrite NE2 in He, He'. rewrite ED in D, D'. unfold joins, edge_at in J, J'. rewrite w2 in J, J'.
    exact (NP e e' x y He He' D D' J J').
Qed.

(* ================================================================== 4. find_halfface(halfedges) *)

Lemma find_hes_tri_on s a b c he0 he1 hf : cre_inv s -> tet_shape s -> live_he_p s he0 ->
  he_ends s he0 = (a, b) -> he_ends s he1 = (b, c) -> a <> b -> b <> c -> a <> c ->
  find_halfface_hes s he0 he1 = Some hf -> tri_on s hf a b c.
Proof.
  intros C K [r0 _] E0 E1 Nab Nbc Nac. pose proof (cre_bu s C) as B. unfold he_ends in E0, E1. injection E0 as f0 t0. injection E1 as f1 t1.
  unfold find_halfface_hes. destruct (ebu s) eqn:E; [|discriminate]. intros F. apply find_some in F. destruct F as [Hin M].
  apply memb_In in M. pose proof B as (_ & EO & _). apply (EO E he0 ltac:(lia)) in Hin. destruct Hin as (rf & df & I0).
  split; [exact rf|]. split; [exact df|].
  assert (L3 : length (face_at s (hf / 2)) = 3) by (apply (proj1 (kshape_live 3 4 s K)); exact rf).
  destruct (halfface_three s hf L3) as (g0 & g1 & g2 & Eh). exists g0, g1, g2. split; [exact Eh|].
  pose proof (cre_hf_loop s hf C rf df) as Lo. rewrite Eh in Lo. apply loop3 in Lo. destruct Lo as (l0 & l1 & l2).
  rewrite Eh in I0, M. unfold tri_pairs. cbn [rotp map]. unfold he_ends.
  destruct I0 as [<-|[<-|[<-|[]]]]; destruct M as [<-|[<-|[<-|[]]]]; try (exfalso; congruence).
  - left. repeat f_equal; congruence.
  - right. right. repeat f_equal; congruence.
  - right. left. repeat f_equal; congruence.
Qed.

(* nothing is found in a state grown by edges only unless it was there before *)
Lemma find_hes_none_grow s t he0 he1 : cre_inv s -> bu_inv t -> grow s t -> faces t = faces s -> ebu s = true -> he0 < 2 * ne t ->
  (he0 < 2 * ne s -> he1 < 2 * ne s -> find_halfface_hes s he0 he1 = None) -> find_halfface_hes t he0 he1 = None.
Proof.
  intros C Bt G Fs E R0 H. pose proof (cre_bu s C) as B.
  assert (Et : ebu t = true) by (destruct G as (_ & _ & _ & _ & _ & _ & X & _); congruence).
  unfold find_halfface_hes. rewrite Et. destruct (find (fun hf => memb he1 (halfface t hf)) (hfs_at t he0)) as [x|] eqn:F; [exfalso|reflexivity].
  apply find_some in F. destruct F as [Hin M]. apply memb_In in M. pose proof Bt as (_ & EOt & _). apply (EOt Et he0 R0) in Hin.
  destruct Hin as (rf & df & I0). assert (NF : nf t = nf s) by (unfold nf; rewrite Fs; reflexivity). rewrite NF in rf.
  assert (FD : f_deleted t (x / 2) = f_deleted s (x / 2)) by (unfold f_deleted; rewrite (grow_same_faces s t G Fs); reflexivity).
  rewrite FD in df. rewrite (halfface_faces s t x Fs) in I0, M.
  destruct (cre_hf_he s x he0 C rf df I0) as [r0 _]. destruct (cre_hf_he s x he1 C rf df M) as [r1 _].
  specialize (H ltac:(lia) ltac:(lia)). unfold find_halfface_hes in H. rewrite E in H.
  pose proof B as (_ & EO & _).
  assert (Hs : In x (hfs_at s he0)) by (apply (EO E he0 ltac:(lia)); auto).
  pose proof (find_none _ _ H x Hs) as N. cbv beta in N. apply memb_In in M. congruence.
Qed.

(* ================================================================== 5. add_halfface(a, b, c) *)

Lemma halfface_len3 s hf g0 g1 g2 : halfface s hf = [g0; g1; g2] -> length (face_at s (hf / 2)) = 3.
Proof.
  intros E. apply (f_equal (@length nat)) in E. unfold halfface in E. destruct (Nat.even hf); [exact E|].
  rewrite rev_length, map_length in E. exact E.
Qed.

Lemma tri_on_face3 t hf a b c : tri_on t hf a b c -> length (face_at t (hf / 2)) = 3.
Proof. intros (_ & _ & g0 & g1 & g2 & E & _). exact (halfface_len3 t hf g0 g1 g2 E). Qed.

Lemma tet_add_halfface_v_cre s a b c : cre_inv s -> tet_shape s -> vbu s = true -> ebu s = true ->
  a < nv s -> b < nv s -> c < nv s -> a <> b -> b <> c -> a <> c ->
  let r := tet_add_halfface_v s a b c false in
  exists hf, snd r = Some hf /\ grow s (fst r) /\ cre_inv (fst r) /\ tet_shape (fst r) /\ tri_on (fst r) hf a b c /\
    match find_halfface_vs s a b c with
    | Some hf0 => r = (s, Some hf0)
    | None => hf = 2 * nf s /\ hf_vertices (fst r) hf = [a; b; c]
    end.
Proof.
  intros C K V E Ha Hb Hc Nab Nbc Nac. cbv zeta. pose proof (shape_tet_add_halfface_v s a b c false K) as K'.
  unfold tet_add_halfface_v in *. unfold find_halfface_vs.
  pose proof (tet_add_halfedge_cre s a b C V Ha Hb) as S1. cbv zeta in S1.
  destruct (tet_add_halfedge s a b) as [s1 h0]. cbn [fst snd] in S1. destruct S1 as (G1 & F1 & C1 & L0 & E0 & R0).
  assert (V1 : vbu s1 = true) by (destruct G1 as (_ & _ & _ & _ & _ & X & _); congruence). pose proof (grow_nv s s1 G1) as NV1.
  pose proof (tet_add_halfedge_cre s1 b c C1 V1 ltac:(lia) ltac:(lia)) as S2. cbv zeta in S2.
  destruct (tet_add_halfedge s1 b c) as [s2 h1]. cbn [fst snd] in S2. destruct S2 as (G2 & F2 & C2 & L1 & E1 & R1).
  assert (V2 : vbu s2 = true) by (destruct G2 as (_ & _ & _ & _ & _ & X & _); congruence). pose proof (grow_nv s1 s2 G2) as NV2.
  pose proof (tet_add_halfedge_cre s2 c a C2 V2 ltac:(lia) ltac:(lia)) as S3. cbv zeta in S3.
  destruct (tet_add_halfedge s2 c a) as [s3 h2]. cbn [fst snd] in S3. destruct S3 as (G3 & F3 & C3 & L2 & E2 & R2).
  pose proof (grow_trans s1 s2 s3 G2 G3) as G13. pose proof (grow_trans s s1 s3 G1 G13) as G03.
  destruct (live_he_grow s1 s3 h0 (cre_bu s1 C1) G13 L0) as [L0' E0']. rewrite E0 in E0'.
  destruct (live_he_grow s2 s3 h1 (cre_bu s2 C2) G3 L1) as [L1' E1']. rewrite E1 in E1'.
  assert (Fs3 : faces s3 = faces s) by congruence.
  assert (K3 : tet_shape s3) by (destruct K as [Kf Kc]; split; [rewrite Fs3; exact Kf | destruct G03 as (_ & _ & _ & _ & Cc & _); rewrite Cc; exact Kc]).
  assert (E3 : ebu s3 = true) by (destruct G03 as (_ & _ & _ & _ & _ & _ & X & _); congruence).
  unfold tet_add_halfface in *. cbn [nth] in *.
  destruct (find_halfface_hes s3 h0 h1) as [hf|] eqn:FH.
  - (* found *)
    cbn [fst snd] in *. exists hf. split; [reflexivity|]. split; [exact G03|]. split; [exact C3|]. split; [exact K3|].
    pose proof (find_hes_tri_on s3 a b c h0 h1 hf C3 K3 L0' E0' E1' Nab Nbc Nac FH) as T. split; [exact T|].
    destruct (find_halfedge s a b) as [he0|] eqn:Q0.
    + injection R0 as -> <-. destruct (find_halfedge s b c) as [he1|] eqn:Q1.
      * injection R1 as -> <-. destruct (find_halfface_hes s h0 h1) as [hf0|] eqn:Q2.
        -- (* the face exists in s: the third halfedge is found, the state does not change *)
           pose proof (find_hes_tri_on s a b c h0 h1 hf0 C K L0 E0 E1 Nab Nbc Nac Q2) as T0.
           destruct (proj1 (tri_on_pairs s hf0 a b c (c, a) T0) ltac:(cbn [tri_pairs In]; auto)) as (g & Hg & Eg).
           pose proof T0 as (r0 & d0 & _). destruct (cre_hf_he s hf0 g C r0 d0 Hg) as [rg dg].
           unfold he_ends in Eg. injection Eg as fg tg.
           destruct (find_halfedge s c a) as [he2|] eqn:Q3.
           ++ injection R2 as -> <-. rewrite Q2 in FH. injection FH as <-. reflexivity.
           ++ exfalso. unfold find_halfedge in Q3. rewrite V in Q3.
              assert (Hin : In g (out_at s c)) by (destruct (cre_bu s C) as (VO & _); apply (VO V c Hc g); auto).
              pose proof (find_none _ _ Q3 g Hin) as N. cbv beta in N. rewrite tg, Nat.eqb_refl in N. discriminate.
        -- exfalso. rewrite (find_hes_none_grow s s3 h0 h1 C (cre_bu s3 C3) G3 F3 E (half_lt _ _ (proj1 L0')) (fun _ _ => Q2)) in FH. discriminate.
      * exfalso. rewrite (find_hes_none_grow s s3 h0 h1 C (cre_bu s3 C3) G13 ltac:(congruence) E (half_lt _ _ (proj1 L0')) ltac:(intros _ X; lia)) in FH.
        discriminate.
    + exfalso. rewrite (find_hes_none_grow s s3 h0 h1 C (cre_bu s3 C3) G03 Fs3 E (half_lt _ _ (proj1 L0')) ltac:(intros X; lia)) in FH. discriminate.
  - (* created *)
    unfold tet_add_face in *. cbn [length Nat.eqb negb] in *. unfold add_face in *. cbn [andb] in *.
    assert (Lv : forall h, In h [h0; h1; h2] -> live_he_p s3 h) by (intros h [<-|[<-|[<-|[]]]]; assumption).
    assert (Lo : loop_ok s3 [h0; h1; h2] = true).
    { apply loop3. unfold he_ends in E0', E1', E2. injection E0' as f0 t0. injection E1' as f1 t1. injection E2 as f2 t2. repeat split; congruence. }
    pose proof (append_face_cre s3 [h0; h1; h2] C3 Lv Lo) as S4. cbv zeta in S4.
    destruct (append_face s3 [h0; h1; h2]) as [s4 f]. cbn [fst snd option_map] in *. destruct S4 as (-> & G4 & C4 & NF4 & HF4 & HE4).
    exists (2 * nf s3). split; [reflexivity|]. split; [exact (grow_trans s s3 s4 G03 G4)|]. split; [exact C4|]. split; [exact K'|].
    destruct (bu_lens s3 (cre_bu s3 C3)) as [Le3 Lf3].
    assert (T : tri_on s4 (2 * nf s3) a b c).
    { unfold tri_on. rewrite dbl_div. split; [lia|]. split; [apply (grow_f_new s3 s4 G4 Lf3); lia|]. exists h0, h1, h2. split; [exact HF4|].
      unfold tri_pairs. cbn [rotp map]. left. rewrite !HE4, E0', E1', E2. reflexivity. }
    split; [exact T|].
    assert (HV : 2 * nf s3 = 2 * nf s /\ hf_vertices s4 (2 * nf s3) = [a; b; c]).
    { split; [unfold nf; rewrite Fs3; reflexivity|]. unfold hf_vertices. rewrite HF4. cbn [map]. pose proof (HE4 h0) as X0. pose proof (HE4 h1) as X1. pose proof (HE4 h2) as X2.
      rewrite E0' in X0. rewrite E1' in X1. rewrite E2 in X2. unfold he_ends in X0, X1, X2. injection X0 as -> _. injection X1 as -> _. injection X2 as -> _.
      reflexivity. }
    destruct (find_halfedge s a b) as [he0|] eqn:Q0; [|exact HV]. injection R0 as -> <-.
    destruct (find_halfedge s b c) as [he1|] eqn:Q1; [|exact HV]. injection R1 as -> <-.
    destruct (find_halfface_hes s h0 h1) as [hf0|] eqn:Q2; [|exact HV]. exfalso.
    (* the face exists in s: everything is found, contradiction with FH *)
    pose proof (find_hes_tri_on s a b c h0 h1 hf0 C K L0 E0 E1 Nab Nbc Nac Q2) as T0.
    destruct (proj1 (tri_on_pairs s hf0 a b c (c, a) T0) ltac:(cbn [tri_pairs In]; auto)) as (g & Hg & Eg).
    pose proof T0 as (r0 & d0 & _). destruct (cre_hf_he s hf0 g C r0 d0 Hg) as [rg dg]. unfold he_ends in Eg. injection Eg as fg tg.
    destruct (find_halfedge s c a) as [he2|] eqn:Q3.
    + injection R2 as -> <-. congruence.
    + unfold find_halfedge in Q3. rewrite V in Q3.
      assert (Hin : In g (out_at s c)) by (destruct (cre_bu s C) as (VO & _); apply (VO V c Hc g); auto).
      pose proof (find_none _ _ Q3 g Hin) as N. cbv beta in N. rewrite tg, Nat.eqb_refl in N. discriminate.
Qed.

Print Assumptions tet_add_halfface_v_cre.
