(* Mesh/TH3TetEx.v -- C15, tetrahedra created from vertices: the hypotheses of Mesh/TH3TetMain.v are decidable and
   satisfiable (non-vacuity), and each of them is needed.

     cre_inv_b / tet_shape_b with soundness lemmas
     Examples: three tets around an edge (the third one finds TWO of its faces, stored in another rotation and on the other
     side), a tet on a pre-existing face stored as (2,0,1), with the exact get_cell_vertices values, and the theorems applied
     Refutations (the unchecked add_cell(vertices, false); the checked call rejects all four witnesses):
       ..._without_no_par_refuted       a face (0,3,1) whose halfedge 1->0 lies on a parallel edge is found; the created face
                                        (0,1,2) uses the first edge 0-1: the cell is not closed at the halfedge level
       ..._without_faces_loop_refuted   a found face [0->1, 1->2, 4->0] (add_face without check): get_cell_vertices = 0 1 4 2
       ..._without_nodup_refuted        [0;1;2;0]: get_cell_vertices is empty, halfface_opposite_vertex reads out of range
       ..._without_tet_shape_refuted    a found quad (0,1,2,4): get_cell_vertices has five entries
   Proofs only. *)
From Coq Require Import ZArith Lia Bool Arith List ZifyNat ZifyBool.
From OVM Require Import Base.ListX Base.ListLemmas Kernel.State Kernel.Ops Kernel.Mirror Kernel.Recompute Kernel.Closure Kernel.CellCheck
                        Kernel.Construct Kernel.ExactInv Kernel.ExactRun Kernel3.GcDefs Kernel3.GcInv
                        Mesh.TetModel Mesh.TetProofs Mesh.TH2CollapseBase Mesh.TH2CollapseLoop
                        Mesh.TH2TopoWf Mesh.TH3Base Mesh.TH3TetFound Mesh.TH3TetCell Mesh.TH3TetMain.
Import ListNotations.
Ltac Zify.zify_post_hook ::= Z.div_mod_to_equations.
Local Open Scope nat_scope.

(* ================================================================== 1. checkers *)

Definition cre_inv_b (s : mesh) : bool := ginv_b s && faces_loop_b s && face_edges_live_b s && no_par_b s.

Lemma cre_inv_b_sound s : cre_inv_b s = true -> cre_inv s.
Proof.
  unfold cre_inv_b. rewrite !andb_true_iff. intros [[[G L] E] N].
  split; [exact (proj1 (ginv_b_sound s G))|]. split; [exact (faces_loop_b_sound s L)|]. split; [exact (face_edges_live_b_sound s E)|].
  exact (no_par_b_sound s N).
Qed.

Lemma bu_of_ginv_b s : ginv_b s = true -> bu_inv s.
Proof. intros G. exact (proj1 (ginv_b_sound s G)). Qed.

Definition tet_shape_b (s : mesh) : bool := forallb (fun f => length f =? 3) (faces s) && forallb (fun c => length c =? 4) (cells s).

Lemma tet_shape_b_sound s : tet_shape_b s = true -> tet_shape s.
Proof.
  unfold tet_shape_b, tet_shape, kshape. rewrite andb_true_iff, !forallb_forall. intros [A B].
  split; apply Forall_forall; intros x Hx; apply Nat.eqb_eq; auto.
Qed.

Fixpoint nodup4_b (l : list nat) : bool := match l with [] => true | x :: t => negb (memb x t) && nodup4_b t end.

Lemma nodup4_b_sound l : nodup4_b l = true -> NoDup l.
Proof.
  induction l as [|x t IH]; [constructor|]. cbn [nodup4_b]. rewrite andb_true_iff, negb_true_iff. intros [M N]. constructor; [|exact (IH N)].
  intros H. apply memb_In in H. congruence.
Qed.

(* the hypotheses of the theorems of Mesh/TH3TetMain.v, as one boolean *)
Definition cre_ready_b (s : mesh) (vs : list nat) : bool :=
  cre_inv_b s && tet_shape_b s && nodup4_b vs && forallb (fun v => v <? nv s) vs.

Lemma cre_ready_b_sound s v0 v1 v2 v3 : cre_ready_b s [v0; v1; v2; v3] = true ->
  cre_inv s /\ tet_shape s /\ NoDup [v0; v1; v2; v3] /\ (forall v, In v [v0; v1; v2; v3] -> v < nv s).
Proof.
  unfold cre_ready_b. rewrite !andb_true_iff. intros [[[C K] N] R].
  split; [exact (cre_inv_b_sound s C)|]. split; [exact (tet_shape_b_sound s K)|]. split; [exact (nodup4_b_sound _ N)|].
  rewrite forallb_forall in R. intros v Hv. apply Nat.ltb_lt. exact (R v Hv).
Qed.

(* ================================================================== 2. examples *)

(* two tets on the common face {1,2,3}; the third tet (2,1,0,4) finds (2,1,0) as halfface 1, stored (0,2,1), and (2,4,1) as
   halfface 11, stored (1,2,4): both the opposite side of a face created by an earlier cell, both in another rotation *)
Notation two_tets := (tet_run [TK (AddVertices 6); TAddCellV [0; 1; 2; 3] true; TAddCellV [1; 2; 3; 4] true]).

Example tet_glued_on_two_faces :
  cre_ready_b two_tets [2; 1; 0; 4] = true /\ full_bu two_tets = true /\
  find_halfface_vs two_tets 2 1 0 = Some 1 /\ hf_vertices two_tets 1 = [0; 2; 1] /\
  find_halfface_vs two_tets 2 0 4 = None /\
  find_halfface_vs two_tets 2 4 1 = Some 11 /\ hf_vertices two_tets 11 = [1; 2; 4] /\
  find_halfface_vs two_tets 1 4 0 = None /\
  exists s', tet_add_cell_v two_tets [2; 1; 0; 4] true = (s', Some 2) /\
    cell_at s' 2 = [1; 14; 11; 16] /\ gcv_c s' 2 = Some [0; 2; 1; 4] /\
    gcv_hf s' 11 = Some [1; 2; 4; 0] /\ gcv_hf s' 14 = Some [2; 0; 4; 1] /\
    tet_cell_ok_b s' 2 = true /\ tet_cell_inc_b s' 2 = true /\ cre_inv_b s' = true.
Proof.
  vm_compute. repeat split. eexists. repeat split.
Qed.

(* the theorems applied to it: nothing is computed about the new cell *)
Example tet_add_cell_v_wf_applies s' c : tet_add_cell_v two_tets [2; 1; 0; 4] true = (s', Some c) ->
  c = 2 /\ tet_cell_ok_b s' c = true /\ tet_cell_inc_b s' c = true /\ tet_wf s' c (cell_at s' c) [2; 1; 0; 4] /\
  gcv_c s' c = Some [0; 2; 1; 4].
Proof.
  intros A. assert (RB : cre_ready_b two_tets [2; 1; 0; 4] = true) by (vm_compute; reflexivity).
  destruct (cre_ready_b_sound _ _ _ _ _ RB) as (C & K & ND & R).
  destruct (tet_add_cell_v_wf two_tets 2 1 0 4 true s' c C K ND R A) as (Ec & _ & _ & OK & INC & WF & _).
  assert (F : find_halfface_vs two_tets 2 1 0 = Some 1) by (vm_compute; reflexivity).
  pose proof (tet_add_cell_v_order_found two_tets 2 1 0 4 true s' c C K ND R A 1 F) as G.
  assert (HV : hf_vertices two_tets 1 = [0; 2; 1]) by (vm_compute; reflexivity). rewrite HV in G.
  assert (NC : nc two_tets = 2) by (vm_compute; reflexivity). rewrite NC in Ec. auto.
Qed.

(* a pre-existing face stored as (2,0,1), on the SAME side: get_cell_vertices starts at 2 *)
Notation face_201 := (tet_run [TK (AddVertices 4); TK (AddFaceV [2; 0; 1])]).

Example tet_on_rotated_face :
  cre_ready_b face_201 [0; 1; 2; 3] = true /\ full_bu face_201 = true /\ find_halfface_vs face_201 0 1 2 = Some 0 /\
  exists s', tet_add_cell_v face_201 [0; 1; 2; 3] true = (s', Some 0) /\ gcv_c s' 0 = Some [2; 0; 1; 3] /\
    tet_cell_ok_b s' 0 = true /\ tet_iter s' 0 1 = Some [2; 0; 1; 3] /\ gcv_c_v s' 0 0 = Some [0; 1; 2; 3].
Proof.
  vm_compute. repeat split. eexists. repeat split.
Qed.

(* a fresh tet: the documented order *)
Example tet_fresh :
  cre_ready_b (tet_run [TK (AddVertices 4)]) [0; 1; 2; 3] = true /\
  exists s', tet_add_cell_v (tet_run [TK (AddVertices 4)]) [0; 1; 2; 3] false = (s', Some 0) /\ gcv_c s' 0 = Some [0; 1; 2; 3].
Proof.
  vm_compute. split; [reflexivity|]. eexists. repeat split.
Qed.

(* ================================================================== 3. every hypothesis is needed *)

(* ---- no parallel edges.  Edges 0 and 1 both join 0 and 1; the face (0,3,1) = [0->3, 3->1, 1->0 on edge 1] passes add_face's
   check.  find_halfface(0,3,1) reads 0->3 and 3->1 only and finds it; add_face(0,1,2) takes the FIRST edge 0-1. *)
Notation par_pre := (tet_run [TK (AddVertices 4); TK (AddEdge 0 1 false); TK (AddEdge 0 1 true); TK (AddEdge 0 3 false); TK (AddEdge 3 1 false);
                             TK (AddFace [4; 6; 3] true)]).

Theorem tet_add_cell_v_wf_without_no_par_refuted :
  exists s v0 v1 v2 v3 s' c,
    bu_inv s /\ faces_loop s /\ face_edges_live s /\ tet_shape s /\ NoDup [v0; v1; v2; v3] /\ (forall v, In v [v0; v1; v2; v3] -> v < nv s) /\
    tet_add_cell_v s [v0; v1; v2; v3] false = (s', Some c) /\
    tet_cell_ok_b s' c = false /\ cell_closed_b s' (cell_at s' c) = false /\ gcv_c s' c = Some [0; 1; 2; 3] /\
    snd (tet_add_cell_v s [v0; v1; v2; v3] true) = None.
Proof.
  exists par_pre, 0, 1, 2, 3, (fst (tet_add_cell_v par_pre [0; 1; 2; 3] false)), 0.
  split; [apply bu_of_ginv_b; vm_compute; reflexivity|].
  split; [apply faces_loop_b_sound; vm_compute; reflexivity|]. split; [apply face_edges_live_b_sound; vm_compute; reflexivity|].
  split; [apply tet_shape_b_sound; vm_compute; reflexivity|]. split; [apply nodup4_b_sound; vm_compute; reflexivity|].
  split; [intros v Hv; apply Nat.ltb_lt; revert v Hv; apply forallb_forall; vm_compute; reflexivity|].
  vm_compute. repeat split.
Qed.

(* ---- closed loops.  The face [0->1, 1->2, 4->0], added without check, is found as (0,1,2). *)
Notation open_pre := (tet_run [TK (AddVertices 5); TK (AddEdge 0 1 false); TK (AddEdge 1 2 false); TK (AddEdge 4 0 false); TK (AddFace [0; 2; 4] false)]).

Theorem tet_add_cell_v_wf_without_faces_loop_refuted :
  exists s v0 v1 v2 v3 s' c,
    bu_inv s /\ face_edges_live s /\ no_par s /\ tet_shape s /\ NoDup [v0; v1; v2; v3] /\ (forall v, In v [v0; v1; v2; v3] -> v < nv s) /\
    tet_add_cell_v s [v0; v1; v2; v3] false = (s', Some c) /\
    tet_cell_ok_b s' c = false /\ gcv_c s' c = Some [0; 1; 4; 2] /\ [v0; v1; v2; v3] = [0; 1; 2; 3] /\
    snd (tet_add_cell_v s [v0; v1; v2; v3] true) = None.
Proof.
  exists open_pre, 0, 1, 2, 3, (fst (tet_add_cell_v open_pre [0; 1; 2; 3] false)), 0.
  split; [apply bu_of_ginv_b; vm_compute; reflexivity|].
  split; [apply face_edges_live_b_sound; vm_compute; reflexivity|]. split; [apply no_par_b_sound; vm_compute; reflexivity|].
  split; [apply tet_shape_b_sound; vm_compute; reflexivity|]. split; [apply nodup4_b_sound; vm_compute; reflexivity|].
  split; [intros v Hv; apply Nat.ltb_lt; revert v Hv; apply forallb_forall; vm_compute; reflexivity|].
  vm_compute. repeat split.
Qed.

(* ---- distinct vertices *)
Theorem tet_add_cell_v_wf_without_nodup_refuted :
  exists s v0 v1 v2 v3 s' c,
    cre_inv s /\ tet_shape s /\ (forall v, In v [v0; v1; v2; v3] -> v < nv s) /\
    tet_add_cell_v s [v0; v1; v2; v3] false = (s', Some c) /\
    tet_cell_ok_b s' c = false /\ gcv_c s' c = Some [] /\ halfface_opposite_vertex s' 0 = None /\ tet_iter s' c 1 = None /\
    snd (tet_add_cell_v s [v0; v1; v2; v3] true) = None.
Proof.
  exists (tet_run [TK (AddVertices 4)]), 0, 1, 2, 0, (fst (tet_add_cell_v (tet_run [TK (AddVertices 4)]) [0; 1; 2; 0] false)), 0.
  split; [apply cre_inv_b_sound; vm_compute; reflexivity|]. split; [apply tet_shape_b_sound; vm_compute; reflexivity|].
  split; [intros v Hv; apply Nat.ltb_lt; revert v Hv; apply forallb_forall; vm_compute; reflexivity|].
  vm_compute. repeat split.
Qed.

(* ---- three halfedges per face.  A quad (0,1,2,4) made by the base kernel's add_face(vertices) - the tet kernel's own
   add_face rejects it - is found as (0,1,2). *)
Notation quad_pre := (fst (add_face_v (add_n_vertices 5 empty_mesh) [0; 1; 2; 4])).

Theorem tet_add_cell_v_wf_without_tet_shape_refuted :
  exists s v0 v1 v2 v3 s' c,
    cre_inv s /\ NoDup [v0; v1; v2; v3] /\ (forall v, In v [v0; v1; v2; v3] -> v < nv s) /\
    tet_add_cell_v s [v0; v1; v2; v3] false = (s', Some c) /\
    tet_cell_ok_b s' c = false /\ gcv_c s' c = Some [0; 1; 2; 4; 3] /\
    snd (tet_add_cell_v s [v0; v1; v2; v3] true) = None.
Proof.
  exists quad_pre, 0, 1, 2, 3, (fst (tet_add_cell_v quad_pre [0; 1; 2; 3] false)), 0.
  split; [apply cre_inv_b_sound; vm_compute; reflexivity|]. split; [apply nodup4_b_sound; vm_compute; reflexivity|].
  split; [intros v Hv; apply Nat.ltb_lt; revert v Hv; apply forallb_forall; vm_compute; reflexivity|].
  vm_compute. repeat split.
Qed.

Print Assumptions cre_ready_b_sound.
Print Assumptions tet_glued_on_two_faces.
Print Assumptions tet_add_cell_v_wf_applies.
Print Assumptions tet_on_rotated_face.
Print Assumptions tet_add_cell_v_wf_without_no_par_refuted.
Print Assumptions tet_add_cell_v_wf_without_faces_loop_refuted.
Print Assumptions tet_add_cell_v_wf_without_nodup_refuted.
Print Assumptions tet_add_cell_v_wf_without_tet_shape_refuted.
