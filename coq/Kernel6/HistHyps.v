(* Kernel6/HistHyps.v -- the state hypotheses of the C05 theorems (Iter/BuildersProofs.v: bu_exact, wf_iter, flags_sized) and of the
   C10 theorems (Kernel2/LookupProofs.v: vbu_exact, ebu_exact, cell_cache_ok, wf_faces, wf_cells; Kernel2/AdjacentProofs.v: closed_cell;
   the side condition "the halffaces of the cell list no halfedge twice") follow from THE invariant full_inv (Kernel4/AllDefs.v) of the
   unified history theorem (Kernel4/AllHistory.v full_inv_along_histories), hence hold in every reachable state of the class all_ok.

   What does NOT follow (and is not a state invariant at all, but a shape condition on the mesh the caller built):
     no_parallel_edges, two_halfedges_determine_halfface, closed_face, simple_face  -- refuted below on histories of the class
     (no_parallel_edges_refuted, two_halfedges_determine_halfface_refuted, simple_face_refuted, closed_face_refuted).
   What carries an "enabled" premise:  vbu_exact / ebu_exact contain  vbu s = true / ebu s = true  as a conjunct, so the premise is
   needed (full_inv says nothing about a disabled cache);  cell_cache_ok / closed_cell read the halfface->cell cache: premise fbu s = true,
   and they speak about ONE cell, which must be live (a deferred-deleted cell is exempt from full_inv: cell_cache_ok_deleted_refuted). *)
From Coq Require Import ZArith Lia Bool Arith List ZifyNat ZifyBool.
From OVM Require Import Base.ListX Kernel.State Kernel.Ops Kernel.Mirror Kernel.Closure Kernel.ExactInv Kernel.Reenable
                        Kernel2.LookupModel Kernel2.AdjacentProofs Kernel2.LookupProofs Kernel2.ExactBase
                        Kernel3.GcDefs Kernel4.AllDefs Kernel4.AllHistory Kernel4.AllCorollaries Kernel4.AllExample.
From OVM Require Iter.BuildersProofs.
Import ListNotations.
Ltac Zify.zify_post_hook ::= Z.div_mod_to_equations.
Local Open Scope nat_scope.

Module BP := OVM.Iter.BuildersProofs.

(* ================================================================== C05: bu_exact, wf_iter, flags_sized *)

Theorem full_inv_bu_exact s : full_inv s -> BP.bu_exact s.
Proof. exact (AllCorollaries.full_inv_bu_exact s). Qed.

Theorem full_inv_wf_iter s : full_inv s -> BP.wf_iter s.
Proof. intros H. exact (proj1 (all_inv_wf_iter s (proj1 H))). Qed.

Theorem full_inv_flags_sized s : full_inv s -> BP.flags_sized s.
Proof. intros H. exact (proj2 (all_inv_wf_iter s (proj1 H))). Qed.

Theorem full_inv_C05_hyps s : full_inv s -> BP.bu_exact s /\ BP.wf_iter s /\ BP.flags_sized s.
Proof. intros H. exact (conj (full_inv_bu_exact s H) (conj (full_inv_wf_iter s H) (full_inv_flags_sized s H))). Qed.

(* ================================================================== C10 from bu_exact + wf_iter *)

Lemma lt_of_live_e s e : live_e s e = true -> e < ne s.
Proof. unfold live_e. rewrite andb_true_iff, Nat.ltb_lt. tauto. Qed.
Lemma lt_of_live_f s f : live_f s f = true -> f < nf s.
Proof. unfold live_f. rewrite andb_true_iff, Nat.ltb_lt. tauto. Qed.
Lemma lt_of_live_v s v : live_v s v = true -> v < nv s.
Proof. unfold live_v. rewrite andb_true_iff, Nat.ltb_lt. tauto. Qed.

Lemma he_from_cases s h : he_from s h = fst (edge_at s (h / 2)) \/ he_from s h = snd (edge_at s (h / 2)).
Proof. unfold he_from. destruct (edge_at s (h / 2)) as [a b]. destruct (Nat.even h); cbn [fst snd]; auto. Qed.

Theorem wf_faces_of_wf_iter s : BP.wf_iter s -> wf_faces s.
Proof. intros (_ & W & _) f h L Hin. unfold live_he. exact (W f L h Hin). Qed.

Theorem wf_cells_of_wf_iter s : BP.wf_iter s -> wf_cells s.
Proof. intros (_ & _ & W & _) c hf L Hin. unfold live_hf. exact (W c L hf Hin). Qed.

Theorem wf_edges_of_wf_iter s : BP.wf_iter s -> wf_edges s.
Proof. intros (W & _). exact W. Qed.

Theorem vbu_exact_of_iter_hyps s : BP.bu_exact s -> BP.wf_iter s -> vbu s = true -> vbu_exact s.
Proof.
  intros (B & _) (We & _ & _ & Lv & _) V. split; [exact V|]. intros v h. unfold live_he.
  destruct (Nat.lt_ge_cases v (nv s)) as [Hv|Hv].
  - destruct (B V v Hv) as [_ X]. rewrite (X h). split.
    + intros (_ & L & E). exact (conj L E).
    + intros (L & E). pose proof (lt_of_live_e s _ L). split; [lia|]. exact (conj L E).
  - unfold out_at. rewrite nth_overflow by (rewrite (Lv V); exact Hv). split; [intros []|].
    intros (L & E). exfalso. destruct (We _ L) as [A1 A2]. apply lt_of_live_v in A1, A2.
    destruct (he_from_cases s h) as [C|C]; rewrite C in E; lia.
Qed.

Theorem ebu_exact_of_iter_hyps s : BP.bu_exact s -> BP.wf_iter s -> ebu s = true -> ebu_exact s.
Proof.
  intros (_ & B & _) (_ & Wf & _ & _ & Le & _) E. split; [exact E|]. intros h hf. unfold live_hf.
  destruct (Nat.lt_ge_cases h (2 * ne s)) as [Hh|Hh].
  - destruct (B E h Hh) as [_ X]. rewrite (X hf). split.
    + intros (_ & L & I). exact (conj L I).
    + intros (L & I). pose proof (lt_of_live_f s _ L). split; [lia|]. exact (conj L I).
  - unfold hfs_at. rewrite nth_overflow by (rewrite (Le E); exact Hh). split; [intros []|].
    intros (L & I). exfalso. destruct (In_halfface_face s hf h I) as [J|J].
    + pose proof (lt_of_live_e s _ (Wf _ L _ J)). lia.
    + pose proof (lt_of_live_e s _ (Wf _ L _ J)) as K. rewrite opp_div2 in K. lia.
Qed.

Theorem cell_cache_ok_of_iter_hyps s c : BP.bu_exact s -> BP.wf_iter s -> fbu s = true -> live_c s c = true -> cell_cache_ok s c.
Proof.
  intros (_ & _ & B) (_ & _ & Wc & _) F L hf Hin.
  pose proof (lt_of_live_f s _ (Wc c L hf Hin)) as K. apply (B F hf ltac:(lia) c). exact (conj L Hin).
Qed.

Theorem fbu_exact_of_iter_hyps s : BP.bu_exact s -> BP.wf_iter s -> fbu s = true -> fbu_exact s.
Proof.
  intros (_ & _ & B) (_ & _ & Wc & _ & _ & Lf) F. split; [exact F|]. intros hf c.
  destruct (Nat.lt_ge_cases hf (2 * nf s)) as [Hh|Hh]; [exact (B F hf Hh c)|].
  unfold cell_of. rewrite nth_overflow by (rewrite (Lf F); exact Hh). split; [discriminate|].
  intros (L & I). exfalso. pose proof (lt_of_live_f s _ (Wc c L hf I)). lia.
Qed.

(* ================================================================== C10 from full_inv *)

Theorem full_inv_wf_faces s : full_inv s -> wf_faces s.
Proof. intros H. exact (wf_faces_of_wf_iter s (full_inv_wf_iter s H)). Qed.

Theorem full_inv_wf_cells s : full_inv s -> wf_cells s.
Proof. intros H. exact (wf_cells_of_wf_iter s (full_inv_wf_iter s H)). Qed.

Theorem full_inv_wf_mesh s : full_inv s -> wf_mesh s.
Proof. intros H. exact (conj (wf_edges_of_wf_iter s (full_inv_wf_iter s H)) (conj (full_inv_wf_faces s H) (full_inv_wf_cells s H))). Qed.

Theorem full_inv_vbu_exact s : full_inv s -> vbu s = true -> vbu_exact s.
Proof. intros H. exact (vbu_exact_of_iter_hyps s (full_inv_bu_exact s H) (full_inv_wf_iter s H)). Qed.

Theorem full_inv_ebu_exact s : full_inv s -> ebu s = true -> ebu_exact s.
Proof. intros H. exact (ebu_exact_of_iter_hyps s (full_inv_bu_exact s H) (full_inv_wf_iter s H)). Qed.

Theorem full_inv_fbu_exact s : full_inv s -> fbu s = true -> fbu_exact s.
Proof. intros H. exact (fbu_exact_of_iter_hyps s (full_inv_bu_exact s H) (full_inv_wf_iter s H)). Qed.

Theorem full_inv_cell_cache_ok_partial s c : full_inv s -> fbu s = true -> live_c s c = true -> cell_cache_ok s c.
Proof. intros H. exact (cell_cache_ok_of_iter_hyps s c (full_inv_bu_exact s H) (full_inv_wf_iter s H)). Qed.

(* _partial: only LIVE cells (a deferred-deleted cell keeps its definition but the cache no longer names it:
   cell_cache_ok_deleted_refuted below), and only with the face incidences on (cell_of reads that cache).
   closed_cell = the cache half (cell_cache_ok) + the topological half (cells_topo, carried by full_inv for every live cell whatever
   incidences are enabled) *)
Theorem full_inv_closed_cell_partial s c : full_inv s -> fbu s = true -> live_c s c = true -> closed_cell s c.
Proof.
  intros H F L hf Hin. split; [exact (full_inv_cell_cache_ok_partial s c H F L hf Hin)|].
  destruct H as (_ & (T & _) & _). apply AllCorollaries.live_c_iff in L. destruct L as [A B]. exact (T c A B hf Hin).
Qed.

Lemma NoDup_halfface_of_simple s x : simple_hes (face_at s (x / 2)) -> NoDup (halfface s x).
Proof.
  intros [N _]. unfold halfface. destruct (Nat.even x); [exact N|]. apply NoDup_rev.
  apply FinFun.Injective_map_NoDup; [|exact N]. intros a b. apply opp_inj.
Qed.

(* the side condition of C10_find_halfface_in_cell_complete, for a live cell *)
Theorem full_inv_cell_halffaces_nodup s c : full_inv s -> live_c s c = true ->
  forall hf, In hf (cell_at s c) -> NoDup (halfface s hf).
Proof.
  intros H L hf Hin. pose proof (full_inv_wf_cells s H c hf L Hin) as K. unfold live_hf in K.
  apply AllCorollaries.live_f_iff in K. destruct K as [A B]. destruct H as ((_ & _ & FS & _) & _).
  apply NoDup_halfface_of_simple. exact (FS _ A B).
Qed.

Theorem full_inv_live_halfface_nodup s hf : full_inv s -> live_hf s hf = true -> NoDup (halfface s hf).
Proof.
  intros H K. unfold live_hf in K. apply AllCorollaries.live_f_iff in K. destruct K as [A B]. destruct H as ((_ & _ & FS & _) & _).
  apply NoDup_halfface_of_simple. exact (FS _ A B).
Qed.

(* everything at once: the state hypotheses of Props/Properties_C10.v *)
Theorem full_inv_C10_hyps s : full_inv s ->
  wf_faces s /\ wf_cells s /\
  (vbu s = true -> vbu_exact s) /\ (ebu s = true -> ebu_exact s) /\
  (fbu s = true -> forall c, live_c s c = true -> cell_cache_ok s c /\ closed_cell s c) /\
  (forall c, live_c s c = true -> forall hf, In hf (cell_at s c) -> NoDup (halfface s hf)).
Proof.
  intros H. split; [exact (full_inv_wf_faces s H)|]. split; [exact (full_inv_wf_cells s H)|].
  split; [exact (full_inv_vbu_exact s H)|]. split; [exact (full_inv_ebu_exact s H)|].
  split; [intros F c L; exact (conj (full_inv_cell_cache_ok_partial s c H F L) (full_inv_closed_cell_partial s c H F L))|].
  intros c L. exact (full_inv_cell_halffaces_nodup s c H L).
Qed.

(* ================================================================== in every reachable state *)

Theorem reach_C05_hyps ops : all_ok ops = true -> let s := run ops in BP.bu_exact s /\ BP.wf_iter s /\ BP.flags_sized s.
Proof. intros F. cbv zeta. exact (full_inv_C05_hyps _ (full_inv_along_histories ops F)). Qed.

Theorem reach_C10_hyps ops : all_ok ops = true -> let s := run ops in
  wf_faces s /\ wf_cells s /\
  (vbu s = true -> vbu_exact s) /\ (ebu s = true -> ebu_exact s) /\
  (fbu s = true -> forall c, live_c s c = true -> cell_cache_ok s c /\ closed_cell s c) /\
  (forall c, live_c s c = true -> forall hf, In hf (cell_at s c) -> NoDup (halfface s hf)).
Proof. intros F. cbv zeta. exact (full_inv_C10_hyps _ (full_inv_along_histories ops F)). Qed.

(* ================================================================== what is NOT an invariant of the class *)

(* FULL STATEMENTS (false):  forall s, full_inv s -> vbu_exact s   (resp. ebu_exact s): the predicates contain  vbu s = true  /
   ebu s = true, and switching an incidence kind off is an operation of the class.  The strongest true variants are
   full_inv_vbu_exact / full_inv_ebu_exact above (premise: the kind is enabled). *)
Theorem vbu_exact_unconditional_refuted : exists ops, all_ok ops = true /\ ~ vbu_exact (run ops) /\ ~ ebu_exact (run ops).
Proof.
  exists [EnableVBU false; EnableEBU false]. split; [vm_compute; reflexivity|].
  split; intros [E _]; vm_compute in E; discriminate.
Qed.

(* FULL STATEMENT (false):  forall s c, full_inv s -> fbu s = true -> cell_cache_ok s c.  A deferred-deleted cell keeps its definition,
   the halfface->cell cache no longer names it (full_inv exempts deleted entities).  True variant: full_inv_cell_cache_ok_partial (live cell). *)
Theorem cell_cache_ok_deleted_refuted : exists ops c, all_ok ops = true /\ fbu (run ops) = true /\ c < nc (run ops) /\ ~ cell_cache_ok (run ops) c.
Proof.
  exists [AddVertices 4; AddFaceV [0;1;2]; AddFaceV [0;2;3]; AddFaceV [0;3;1]; AddFaceV [1;3;2]; AddCell [0;2;4;6] true;
          EnableDeferred true; DelCell 0], 0.
  split; [vm_compute; reflexivity|]. split; [vm_compute; reflexivity|]. split; [vm_compute; lia|].
  intros H. specialize (H 0). vm_compute in H. specialize (H (or_introl eq_refl)). discriminate.
Qed.

(* the shape conditions of the "coincides with the full relation" theorems are properties of the mesh the caller built, not
   invariants:  parallel edges, two faces sharing two halfedges, a face that is no closed loop / visits a vertex twice are all
   constructible inside the class *)
Theorem no_parallel_edges_refuted : exists ops, all_ok ops = true /\ ~ no_parallel_edges (run ops).
Proof.
  exists [AddVertices 2; AddEdge 0 1 false; AddEdge 0 1 true]. split; [vm_compute; reflexivity|].
  intros H. specialize (H 0 2). vm_compute in H. specialize (H eq_refl eq_refl eq_refl eq_refl). discriminate.
Qed.

Theorem two_halfedges_determine_halfface_refuted : exists ops, all_ok ops = true /\ ~ two_halfedges_determine_halfface (run ops).
Proof.
  exists [AddVertices 5; AddFaceV [0; 1; 2; 3]; AddFaceV [0; 1; 2; 4]]. split; [vm_compute; reflexivity|].
  intros H. specialize (H 0 2 0 2). vm_compute in H.
  assert (X : 0 = 2); [|discriminate]. apply H; try reflexivity; try discriminate; auto.
Qed.

Theorem closed_face_refuted : exists ops hf, all_ok ops = true /\ live_hf (run ops) hf = true /\ ~ closed_face (run ops) hf.
Proof.
  exists [AddVertices 4; AddEdge 0 1 false; AddEdge 2 3 false; AddFace [0; 2] false], 0.
  split; [vm_compute; reflexivity|]. split; [vm_compute; reflexivity|].
  intros H. apply loop_ok_spec in H. vm_compute in H. discriminate.
Qed.

Theorem simple_face_refuted : exists ops hf, all_ok ops = true /\ live_hf (run ops) hf = true /\ ~ simple_face (run ops) hf.
Proof.
  exists [AddVertices 3; AddEdge 0 1 false; AddEdge 0 2 false; AddFace [0; 2] false], 0.
  split; [vm_compute; reflexivity|]. split; [vm_compute; reflexivity|].
  intros H. vm_compute in H. inversion H as [|x l Hx _]. apply Hx. left. reflexivity.
Qed.

(* ================================================================== non-vacuity *)

(* two tetrahedra glued on a face, one cell deleted in deferred mode (it stays in its slot, flagged); and the first 25 operations of
   Kernel4/AllExample.v all_example (three tetrahedra, properties, a deferred fast delete_cell, swaps, a deferred delete_vertex) *)
Example reach_example :
  let ops := [AddVertices 5;
              AddFaceV [0;1;2]; AddFaceV [0;2;3]; AddFaceV [0;3;1]; AddFaceV [1;3;2]; AddCell [0;2;4;6] true;
              AddFaceV [1;2;4]; AddFaceV [2;3;4]; AddFaceV [3;1;4]; AddCell [7;9;11;13] true;
              EnableDeferred true; DelCell 0] in
  all_ok ops = true /\ nc (run ops) = 2 /\ live_c (run ops) 0 = false /\ live_c (run ops) 1 = true /\
  vbu (run ops) = true /\ ebu (run ops) = true /\ fbu (run ops) = true /\
  all_ok (firstn 25 all_example) = true.
Proof. vm_compute. repeat split. Qed.
