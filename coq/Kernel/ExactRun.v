(* Kernel/ExactRun.v -- C01: the cache-exactness invariant holds after EVERY history of growth operations
   (add_vertex, add_n_vertices, add_edge with or without duplicates, add_face with or without topology check, add_face from
   vertices, rejected calls included), in every incidence/deletion configuration reachable by such histories. *)
From Coq Require Import ZArith Lia Bool Arith List ZifyNat ZifyBool.
From OVM Require Import Base.ListX Base.ListLemmas Base.ListLemmas2 Kernel.State Kernel.Ops Kernel.Mirror Kernel.Construct
                        Kernel.Recompute Kernel.Closure Kernel.DeferredDelete Kernel.Reenable Kernel.ExactInv.
Import ListNotations.
Ltac Zify.zify_post_hook ::= Z.div_mod_to_equations.
Local Open Scope nat_scope.

Lemma live_v_lt s v : live_v s v = true -> v < nv s.
Proof. unfold live_v. rewrite andb_true_iff, Nat.ltb_lt. tauto. Qed.
Lemma live_he_lt s h : live_he s h = true -> h < 2 * ne s.
Proof. unfold live_he, live_e. rewrite andb_true_iff, Nat.ltb_lt. intros [H _]. lia. Qed.

Lemma add_edge_result_in_range s a b d : bu_inv s -> a < nv s -> snd (add_edge s a b d) < ne (fst (add_edge s a b d)) /\ ne s <= ne (fst (add_edge s a b d)) /\ nv (fst (add_edge s a b d)) = nv s.
Proof.
  intros H Ha. unfold add_edge.
  assert (AP : snd (append_edge s a b) < ne (fst (append_edge s a b)) /\ ne s <= ne (fst (append_edge s a b)) /\ nv (fst (append_edge s a b)) = nv s).
  { pose proof (append_edge_view s a b) as W. cbv zeta in W. destruct W as (w1&w2&_).
    assert (snd (append_edge s a b) = ne s) by (unfold append_edge; reflexivity).
    unfold ne in *. rewrite w2, app_length, H0. simpl. repeat split; try lia. exact w1. }
  destruct d; [exact AP|]. destruct (find_dup_edge s a b) as [e|] eqn:F; [|exact AP]. cbn [fst snd].
  destruct H as (VO & _). destruct (vbu s) eqn:V.
  - assert (OX : out_exact_at s a) by (intros h; apply (VO V a Ha h)).
    destruct (find_dup_cached_sound s a b e V OX F) as (r & _). lia.
  - destruct (find_dup_scan_sound s a b e V F) as (r & _). lia.
Qed.

Lemma add_face_v_step_inv v w acc : bu_inv (fst acc) -> v < nv (fst acc) -> w < nv (fst acc) ->
  (forall h, In h (snd acc) -> h < 2 * ne (fst acc)) ->
  let acc' := add_face_v_step v w acc in
  bu_inv (fst acc') /\ nv (fst acc') = nv (fst acc) /\ (forall h, In h (snd acc') -> h < 2 * ne (fst acc')).
Proof.
  destruct acc as [s hes]. cbn [fst snd]. intros H Hv Hw Hr. unfold add_face_v_step.
  pose proof (bu_inv_add_edge s v w false H Hv Hw) as B. pose proof (add_edge_result_in_range s v w false H Hv) as (R1 & R2 & R3).
  destruct (add_edge s v w false) as [s' e]. cbn [fst snd] in *. split; [exact B|]. split; [exact R3|].
  intros h Hh. apply in_app_iff in Hh. destruct Hh as [Hh|[<-|[]]].
  - specialize (Hr h Hh). lia.
  - destruct (snd (edge_at s' e) =? v); lia.
Qed.

Lemma add_face_v_edges_inv first : forall vs acc, bu_inv (fst acc) -> first < nv (fst acc) -> (forall v, In v vs -> v < nv (fst acc)) ->
  (forall h, In h (snd acc) -> h < 2 * ne (fst acc)) ->
  let acc' := add_face_v_edges first vs acc in
  bu_inv (fst acc') /\ (forall h, In h (snd acc') -> h < 2 * ne (fst acc')).
Proof.
  induction vs as [|v t IH]; intros acc H Hf Hvs Hr; simpl; [tauto|].
  destruct t as [|w t'].
  - destruct (add_face_v_step_inv v first acc H (Hvs v (or_introl eq_refl)) Hf Hr) as (a & _ & c). tauto.
  - destruct (add_face_v_step_inv v w acc H (Hvs v (or_introl eq_refl)) (Hvs w (or_intror (or_introl eq_refl))) Hr) as (a & b & c).
    apply IH; auto; try (rewrite b; assumption). intros u Hu. rewrite b. apply Hvs. right. exact Hu.
Qed.

Theorem bu_inv_add_face s hes c : bu_inv s -> (forall h, In h hes -> h < 2 * ne s) -> bu_inv (fst (add_face s hes c)).
Proof.
  intros H Hr. unfold add_face. destruct (c && negb (loop_ok s hes)); [exact H|].
  pose proof (bu_inv_append_face s hes H Hr). destruct (append_face s hes). exact H0.
Qed.

Theorem bu_inv_add_face_v s vs : bu_inv s -> (forall v, In v vs -> v < nv s) -> bu_inv (fst (add_face_v s vs)).
Proof.
  intros H Hvs. unfold add_face_v. destruct vs as [|f t]; [exact H|].
  pose proof (add_face_v_edges_inv f (f :: t) (s, []) H (Hvs f (or_introl eq_refl)) Hvs ltac:(intros h [])) as (B & R).
  destruct (add_face_v_edges f (f :: t) (s, [])) as [s1 hes]. cbn [fst snd] in *. apply bu_inv_add_face; assumption.
Qed.

(* toggling vertex incidences, fast mode *)
Theorem bu_inv_enable_vbu b s : bu_inv s -> bu_inv (enable_vbu b s).
Proof.
  intros (VO & EO & FO & (R1 & R2 & R3) & (L1 & L2 & L3 & L4 & L5 & L6)).
  pose proof (enable_vbu_effect b s) as E. cbv zeta in E. set (s' := enable_vbu b s) in *.
  destruct E as ((c1&c2&c3&c4&c5&c6&c7&c8&_)&e2&e3&e4&e5&e6&e7).
  assert (NE : ne s' = ne s) by (unfold ne; rewrite c2; reflexivity).
  assert (NF : nf s' = nf s) by (unfold nf; rewrite c3; reflexivity).
  assert (NC : nc s' = nc s) by (unfold nc; rewrite c4; reflexivity).
  unfold bu_inv. split; [|split; [|split; [|split; [split; [|split]|unfold lens_ok; split; [|split; [|split; [|split; [|split]]]]]]]].
  - intros V v Hv h. rewrite e2 in V. rewrite V in e7. rewrite c1 in Hv. unfold out_at, e_deleted, he_from, edge_at. rewrite e7, NE, c6, c2.
    destruct (vbu s) eqn:V0; [first [exact (VO V0 v Hv h) | exact (VO eq_refl v Hv h)]|]. destruct (compute_vbu_exact s) as [_ X]. exact (proj2 (X v Hv) h).
  - intros E h Hh x. rewrite e3 in E. rewrite NE in Hh. unfold hfs_at, halfface, face_at, f_deleted. rewrite e5, NF, c7, c3. exact (EO E h Hh x).
  - intros F hf Hhf c. rewrite e4 in F. rewrite NF in Hhf. unfold cell_of, cell_at, c_deleted. rewrite e6, NC, c8, c4. exact (FO F hf Hhf c).
  - intros e He Hd. rewrite NE in He. unfold e_deleted, edge_at in *. rewrite c6 in Hd. rewrite c2, c1. exact (R1 e He Hd).
  - intros f Hf Hd h Hh. rewrite NF in Hf. unfold f_deleted, face_at in *. rewrite c7 in Hd. rewrite c3 in Hh. rewrite NE. exact (R2 f Hf Hd h Hh).
  - intros c Hc Hd hf Hh. rewrite NC in Hc. unfold c_deleted, cell_at in *. rewrite c8 in Hd. rewrite c4 in Hh. rewrite NF. exact (R3 c Hc Hd hf Hh).
  - intros V. rewrite e2 in V. rewrite V in e7. rewrite e7, c1. destruct (vbu s) eqn:V0; [first [exact (L1 V0) | exact (L1 eq_refl)]|]. exact (proj1 (compute_vbu_exact s)).
  - intros E. rewrite e3 in E. rewrite e5, NE. exact (L2 E).
  - intros F. rewrite e4 in F. rewrite e6, NF. exact (L3 F).
  - rewrite c6, NE. exact L4.
  - rewrite c7, NF. exact L5.
  - rewrite c8, NC. exact L6.
Qed.

Theorem bu_inv_enable_fast b s : bu_inv s -> bu_inv (enable_fast b s).
Proof.
  intros H. unfold enable_fast. destruct H as (VO & EO & FO & R & L). unfold bu_inv, vbu_ok, ebu_ok, fbu_ok, refs_ok, lens_ok,
    out_at, hfs_at, cell_of, ne, nf, nc, e_deleted, f_deleted, c_deleted, he_from, halfface, edge_at, face_at, cell_at in *.
  cbn [set_flags nv edges faces cells vdel edel fdel cdel vbu ebu fbu out_hes inc_hfs inc_cell]. tauto.
Qed.

(* growth operations *)
Definition grow_op (o : op) : bool :=
  match o with
  | AddVertex | AddVertices _ | AddEdge _ _ _ | AddFace _ _ | AddFaceV _ | EnableVBU _ | EnableFast _ => true
  | _ => false
  end.

Lemma forallb_lt {A} (p : A -> bool) l : forallb p l = true -> forall x, In x l -> p x = true.
Proof. intros H. apply forallb_forall. exact H. Qed.

Theorem bu_inv_grow_step s o : bu_inv s -> grow_op o = true -> bu_inv (match step s o with Ok s' _ => s' | Rejected => s end).
Proof.
  intros H G. unfold step. destruct (valid_op s o) eqn:V; [|exact H].
  destruct o; try discriminate; cbn [exec valid_op] in *.
  - pose proof (bu_inv_add_vertex s H). destruct (add_vertex s). exact H0.
  - apply bu_inv_add_n_vertices. exact H.
  - apply andb_true_iff in V. destruct V as [V1 V2].
    pose proof (bu_inv_add_edge s a b dup H (live_v_lt _ _ V1) (live_v_lt _ _ V2)). destruct (add_edge s a b dup). exact H0.
  - apply andb_true_iff in V. destruct V as [_ V2].
    pose proof (bu_inv_add_face s hes check H (fun h Hh => live_he_lt s h (forallb_lt _ _ V2 h Hh))).
    destruct (add_face s hes check). exact H0.
  - apply andb_true_iff in V. destruct V as [_ V2].
    pose proof (bu_inv_add_face_v s vs H (fun v Hv => live_v_lt s v (forallb_lt _ _ V2 v Hv))).
    destruct (add_face_v s vs). exact H0.
  - apply bu_inv_enable_vbu. exact H.
  - apply bu_inv_enable_fast. exact H.
Qed.

Theorem bu_inv_growth_histories ops : forallb grow_op ops = true -> bu_inv (run ops).
Proof.
  unfold run. assert (G : forall s, bu_inv s -> forallb grow_op ops = true -> bu_inv (run_from s ops)).
  { induction ops as [|o ops IH]; intros s H F; [exact H|]. simpl in F. apply andb_true_iff in F. destruct F as [F1 F2].
    unfold run_from. cbn [fold_left]. apply IH; [|exact F2]. apply bu_inv_grow_step; assumption. }
  intros F. apply G; [apply bu_inv_empty|exact F].
Qed.
