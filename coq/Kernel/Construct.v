(* Kernel/Construct.v -- C11: construction validates.  Frame lemmas for rejected / deduplicated calls,
   exact effect of accepted calls, and the meaning of the two topology checks. *)
From Coq Require Import ZArith Lia Bool Arith List ZifyNat ZifyBool Permutation.
From OVM Require Import Base.ListX Base.ListLemmas Kernel.State Kernel.Ops Kernel.Mirror.
Import ListNotations.
Ltac Zify.zify_post_hook ::= Z.div_mod_to_equations.
Local Open Scope nat_scope.

(* ---------------------------------------------------------------- rejected / deduplicated calls change nothing *)

Lemma add_face_rejected s hes : loop_ok s hes = false -> add_face s hes true = (s, None).
Proof. intros H. unfold add_face. rewrite H. reflexivity. Qed.

Lemma add_face_accepted_iff s hes : (exists s' f, add_face s hes true = (s', Some f)) <-> loop_ok s hes = true.
Proof.
  unfold add_face. destruct (loop_ok s hes); simpl; split.
  - reflexivity.
  - intros _. destruct (append_face s hes) as [s' f]. eauto.
  - intros [s' [f H]]. discriminate.
  - discriminate.
Qed.

Lemma add_cell_rejected s hfs : cell_check s hfs = false -> add_cell s hfs true = (s, None).
Proof. intros H. unfold add_cell. rewrite H. reflexivity. Qed.

Lemma add_cell_accepted_iff s hfs : (exists s' c, add_cell s hfs true = (s', Some c)) <-> cell_check s hfs = true.
Proof.
  unfold add_cell. destruct (cell_check s hfs); simpl; split.
  - reflexivity.
  - intros _. destruct (append_cell s hfs) as [s' c]. eauto.
  - intros [s' [c H]]. discriminate.
  - discriminate.
Qed.

Lemma add_edge_dedup s a b e : find_dup_edge s a b = Some e -> add_edge s a b false = (s, e).
Proof. intros H. unfold add_edge. rewrite H. reflexivity. Qed.

Lemma add_edge_fresh s a b : find_dup_edge s a b = None -> add_edge s a b false = append_edge s a b.
Proof. intros H. unfold add_edge. rewrite H. reflexivity. Qed.

(* ---------------------------------------------------------------- the duplicate search *)

Definition joins (s : mesh) (e a b : nat) : Prop :=
  edge_at s e = (a, b) \/ edge_at s e = (b, a).

(* linear scan (vertex incidences disabled): first live edge between a and b, in either direction *)
Lemma find_dup_scan_sound s a b e : vbu s = false -> find_dup_edge s a b = Some e ->
  e < ne s /\ e_deleted s e = false /\ joins s e a b.
Proof.
  intros Hv. unfold find_dup_edge. rewrite Hv. intros H. apply find_some in H. destruct H as [Hin H].
  apply in_seq in Hin. unfold joins. destruct (edge_at s e) as [x y].
  rewrite andb_true_iff, negb_true_iff, orb_true_iff, !andb_true_iff, !Nat.eqb_eq in H.
  destruct H as [Hd [[-> ->]|[-> ->]]]; repeat split; auto; lia.
Qed.

Lemma find_dup_scan_complete s a b : vbu s = false -> find_dup_edge s a b = None ->
  forall e, e < ne s -> e_deleted s e = false -> ~ joins s e a b.
Proof.
  intros Hv. unfold find_dup_edge. rewrite Hv. intros H e He Hd J.
  pose proof (find_none _ _ H e ltac:(apply in_seq; lia)) as Hn. simpl in Hn.
  unfold joins in J. destruct (edge_at s e) as [x y]. rewrite Hd in Hn. simpl in Hn.
  destruct J as [J|J]; inversion J; subst; rewrite !Nat.eqb_refl in Hn; simpl in Hn;
    rewrite ?orb_true_r in Hn; discriminate.
Qed.

(* cache-guided search: under exactness of the outgoing-halfedge cache of vertex a *)
Definition out_exact_at (s : mesh) (a : nat) : Prop :=
  forall h, In h (out_at s a) <-> (h / 2 < ne s /\ e_deleted s (h / 2) = false /\ he_from s h = a).

Lemma he_to_from_joins s h a b : he_from s h = a -> he_to s h = b -> joins s (h / 2) a b.
Proof.
  unfold he_from, he_to, joins. destruct (edge_at s (h / 2)) as [x y].
  destruct (Nat.even h); intros -> ->; auto.
Qed.

Lemma find_dup_cached_sound s a b e : vbu s = true -> out_exact_at s a -> find_dup_edge s a b = Some e ->
  e < ne s /\ e_deleted s e = false /\ joins s e a b.
Proof.
  intros Hv Hx. unfold find_dup_edge. rewrite Hv. intros H.
  destruct (find _ _) as [h|] eqn:F; [|discriminate]. inversion H; subst; clear H.
  apply find_some in F. destruct F as [Hin Hto]. apply Nat.eqb_eq in Hto.
  apply Hx in Hin. destruct Hin as [Hr [Hd Hf]]. repeat split; auto. apply he_to_from_joins; assumption.
Qed.

Lemma find_dup_cached_complete s a b : vbu s = true -> out_exact_at s a -> find_dup_edge s a b = None ->
  forall e, e < ne s -> e_deleted s e = false -> ~ joins s e a b.
Proof.
  intros Hv Hx. unfold find_dup_edge. rewrite Hv. intros H e He Hd J.
  destruct (find _ _) as [h|] eqn:F; [discriminate|].
  (* the halfedge of e that leaves a is in the cache and points to b *)
  assert (exists h, h / 2 = e /\ he_from s h = a /\ he_to s h = b) as [h [Hh [Hf Ht]]].
  { unfold joins in J. destruct J as [J|J].
    - exists (2 * e). unfold he_from, he_to. replace (2 * e / 2) with e by lia. rewrite J.
      replace (Nat.even (2 * e)) with true by (symmetry; rewrite even_mod2; apply Nat.eqb_eq; lia). auto.
    - exists (2 * e + 1). unfold he_from, he_to. replace ((2 * e + 1) / 2) with e by lia. rewrite J.
      replace (Nat.even (2 * e + 1)) with false by (symmetry; rewrite even_mod2; apply Nat.eqb_neq; lia). auto. }
  assert (Hin : In h (out_at s a)). { apply Hx. rewrite Hh. auto. }
  pose proof (find_none _ _ F h Hin) as Hn. simpl in Hn. rewrite Ht, Nat.eqb_refl in Hn. discriminate.
Qed.

(* ---------------------------------------------------------------- accepted calls append exactly one entity *)

Ltac rs := cbn [set_nv set_edges set_faces set_cells set_vdel set_edel set_fdel set_cdel set_counts set_flags
                set_out_hes set_inc_hfs set_inc_cell set_props resize_props resize_eprops resize_fprops resize_cprops resize_vprops
                nv edges faces cells vdel edel fdel cdel ndv nde ndf ndc vbu ebu fbu deferred fast
                out_hes inc_hfs inc_cell pv pe phe pf phf pc pm props fst snd].

Lemma props_resize_other k k' n s : k <> k' -> props k (resize_props k' n s) = props k s.
Proof. intros H. destruct k, k'; try congruence; reflexivity. Qed.
Lemma props_resize_same k n s : props k (resize_props k n s) = map (presize n) (props k s).
Proof. destruct k; reflexivity. Qed.

Definition topo_eq_except_edges (s s' : mesh) : Prop :=
  nv s' = nv s /\ faces s' = faces s /\ cells s' = cells s /\ vdel s' = vdel s /\ fdel s' = fdel s /\ cdel s' = cdel s /\
  ndv s' = ndv s /\ nde s' = nde s /\ ndf s' = ndf s /\ ndc s' = ndc s /\
  vbu s' = vbu s /\ ebu s' = ebu s /\ fbu s' = fbu s /\ deferred s' = deferred s /\ fast s' = fast s.

Lemma append_edge_effect s a b : let '(s', e) := append_edge s a b in
  e = ne s /\ edges s' = edges s ++ [(a, b)] /\ edel s' = edel s ++ [false] /\ topo_eq_except_edges s s' /\
  inc_cell s' = inc_cell s /\
  pv s' = pv s /\ pf s' = pf s /\ phf s' = phf s /\ pc s' = pc s /\ pm s' = pm s /\
  pe s' = map (presize (S (ne s))) (pe s) /\ phe s' = map (presize (2 * S (ne s))) (phe s).
Proof.
  unfold append_edge. rs.
  destruct (vbu s) eqn:V; destruct (ebu s) eqn:E; rs; rewrite ?V, ?E; rs; unfold topo_eq_except_edges; rs;
    repeat split; auto.
Qed.

Lemma append_face_effect s hes : let '(s', f) := append_face s hes in
  f = nf s /\ faces s' = faces s ++ [hes] /\ fdel s' = fdel s ++ [false] /\
  nv s' = nv s /\ edges s' = edges s /\ cells s' = cells s /\ vdel s' = vdel s /\ edel s' = edel s /\ cdel s' = cdel s /\
  out_hes s' = out_hes s /\
  pv s' = pv s /\ pe s' = pe s /\ phe s' = phe s /\ pc s' = pc s /\ pm s' = pm s /\
  pf s' = map (presize (S (nf s))) (pf s) /\ phf s' = map (presize (2 * S (nf s))) (phf s).
Proof.
  unfold append_face. rs.
  destruct (ebu s) eqn:E; destruct (fbu s) eqn:F; rs; rewrite ?E, ?F; rs; repeat split; auto.
Qed.

Lemma reorder_incident_halffaces_frame e s : let s' := reorder_incident_halffaces e s in
  nv s' = nv s /\ edges s' = edges s /\ faces s' = faces s /\ cells s' = cells s /\
  vdel s' = vdel s /\ edel s' = edel s /\ fdel s' = fdel s /\ cdel s' = cdel s /\
  out_hes s' = out_hes s /\ inc_cell s' = inc_cell s /\
  (forall k, props k s' = props k s) /\
  (ndv s' = ndv s /\ nde s' = nde s /\ ndf s' = ndf s /\ ndc s' = ndc s) /\
  (vbu s' = vbu s /\ ebu s' = ebu s /\ fbu s' = fbu s /\ deferred s' = deferred s /\ fast s' = fast s).
Proof.
  unfold reorder_incident_halffaces. destruct (reorder_list s e); rs; repeat split; auto; intros k; destruct k; reflexivity.
Qed.

Lemma reorder_edges_frame es : forall s, let s' := reorder_edges es s in
  nv s' = nv s /\ edges s' = edges s /\ faces s' = faces s /\ cells s' = cells s /\
  vdel s' = vdel s /\ edel s' = edel s /\ fdel s' = fdel s /\ cdel s' = cdel s /\
  out_hes s' = out_hes s /\ inc_cell s' = inc_cell s /\
  (forall k, props k s' = props k s) /\
  (ndv s' = ndv s /\ nde s' = nde s /\ ndf s' = ndf s /\ ndc s' = ndc s) /\
  (vbu s' = vbu s /\ ebu s' = ebu s /\ fbu s' = fbu s /\ deferred s' = deferred s /\ fast s' = fast s).
Proof.
  unfold reorder_edges. induction es as [|e es IH]; intros s; simpl.
  - repeat split; auto.
  - specialize (IH (reorder_incident_halffaces e s)). simpl in IH.
    pose proof (reorder_incident_halffaces_frame e s) as F. simpl in F.
    destruct IH as (A1&A2&A3&A4&A5&A6&A7&A8&A9&A10&A11&(B1&B2&B3&B4)&(C1&C2&C3&C4&C5)).
    destruct F as (D1&D2&D3&D4&D5&D6&D7&D8&D9&D10&D11&(E1&E2&E3&E4)&(G1&G2&G3&G4&G5)).
    repeat split; try congruence. all: try (intros k; rewrite A11; apply D11).
Qed.

Lemma append_cell_effect s hfs : let '(s', c) := append_cell s hfs in
  c = nc s /\ cells s' = cells s ++ [hfs] /\ cdel s' = cdel s ++ [false] /\
  nv s' = nv s /\ edges s' = edges s /\ faces s' = faces s /\ vdel s' = vdel s /\ edel s' = edel s /\ fdel s' = fdel s /\
  out_hes s' = out_hes s /\
  pv s' = pv s /\ pe s' = pe s /\ phe s' = phe s /\ pf s' = pf s /\ phf s' = phf s /\ pm s' = pm s /\
  pc s' = map (presize (S (nc s))) (pc s).
Proof.
  unfold append_cell.
  set (s2 := resize_cprops (S (nc s)) (set_cdel (cdel s ++ [false]) (set_cells (cells s ++ [hfs]) s))).
  assert (F2 : cells s2 = cells s ++ [hfs] /\ cdel s2 = cdel s ++ [false] /\
               nv s2 = nv s /\ edges s2 = edges s /\ faces s2 = faces s /\ vdel s2 = vdel s /\ edel s2 = edel s /\ fdel s2 = fdel s /\
               out_hes s2 = out_hes s /\
               pv s2 = pv s /\ pe s2 = pe s /\ phe s2 = phe s /\ pf s2 = pf s /\ phf s2 = phf s /\ pm s2 = pm s /\
               pc s2 = map (presize (S (nc s))) (pc s)).
  { unfold s2. rs. repeat split; reflexivity. }
  clearbody s2.
  destruct (fbu s2) eqn:F.
  - set (s3 := set_inc_cell _ s2).
    assert (F3 : cells s3 = cells s2 /\ cdel s3 = cdel s2 /\
               nv s3 = nv s2 /\ edges s3 = edges s2 /\ faces s3 = faces s2 /\ vdel s3 = vdel s2 /\ edel s3 = edel s2 /\ fdel s3 = fdel s2 /\
               out_hes s3 = out_hes s2 /\ (forall k, props k s3 = props k s2)).
    { unfold s3. rs. repeat split; try reflexivity. all: try (intros k; destruct k; reflexivity). }
    clearbody s3.
    destruct F2 as (a1&a2&a3&a4&a5&a6&a7&a8&a9&a10&a11&a12&a13&a14&a15&a16).
    destruct F3 as (b1&b2&b3&b4&b5&b6&b7&b8&b9&b10).
    pose proof (b10 KV) as PV. pose proof (b10 KE) as PE. pose proof (b10 KHE) as PHE. pose proof (b10 KF) as PF.
    pose proof (b10 KHF) as PHF. pose proof (b10 KC) as PC. pose proof (b10 KM) as PM.
    cbn [props] in PV, PE, PHE, PF, PHF, PC, PM.
    destruct (ebu s3) eqn:E.
    + match goal with |- context [reorder_edges ?es s3] => pose proof (reorder_edges_frame es s3) as R; set (s4 := reorder_edges es s3) in * end.
      cbv zeta in R. destruct R as (A1&A2&A3&A4&A5&A6&A7&A8&A9&A10&A11&_).
      pose proof (A11 KV) as QV. pose proof (A11 KE) as QE. pose proof (A11 KHE) as QHE. pose proof (A11 KF) as QF.
      pose proof (A11 KHF) as QHF. pose proof (A11 KC) as QC. pose proof (A11 KM) as QM.
      cbn [props] in QV, QE, QHE, QF, QHF, QC, QM.
      lazy beta iota. repeat split; congruence.
    + lazy beta iota. repeat split; congruence.
  - lazy beta iota. destruct F2 as (a1&a2&a3&a4&a5&a6&a7&a8&a9&a10&a11&a12&a13&a14&a15&a16). repeat split; congruence.
Qed.
