(* Kernel/SwapEdgeCache.v -- C17 for edges in EVERY mode: with edge incidences on, swap_edge_indices finds the faces to rewrite
   through incident_hfs_per_he_ of the halfedges 2a and 2b (processed set of faces); with vertex incidences on it renames the
   outgoing-halfedge lists of the four endpoints (processed set of vertices).  It computes exactly the relabeling precisely when
   every face listing a halfedge of a or b is found there (true of all live faces when the cache is exact; a deferred-deleted
   face on a or b is the edge instance of finding D13) and every outgoing list naming a halfedge of a/b belongs to an endpoint. *)
From Coq Require Import ZArith Lia Bool Arith List ZifyNat ZifyBool.
From OVM Require Import Base.ListX Base.ListLemmas Base.ListLemmas2 Base.FoldOnce Kernel.State Kernel.Ops Kernel.Mirror Kernel.Recompute
                        Kernel.SwapEffects Kernel.SwapInvol Kernel.Closure Kernel.ExactInv Kernel.SwapFaceCache.
Import ListNotations.
Ltac Zify.zify_post_hook ::= Z.div_mod_to_equations.
Local Open Scope nat_scope.

Ltac rse := cbn [set_nv set_edges set_faces set_cells set_vdel set_edel set_fdel set_cdel set_counts set_flags
                set_out_hes set_inc_hfs set_inc_cell set_props swap_prop_elems
                nv edges faces cells vdel edel fdel cdel ndv nde ndf ndc vbu ebu fbu deferred fast
                out_hes inc_hfs inc_cell pv pe phe pf phf pc pm props].

Definition hf_key (x : nat) : option nat := Some (x / 2).
Definition edge_hfs (s : mesh) (a b : nat) : list nat := hfs_at s (2 * a) ++ hfs_at s (2 * b).
Definition edge_ends (s : mesh) (a b : nat) : list nat :=
  [fst (edge_at s a); snd (edge_at s a); fst (edge_at s b); snd (edge_at s b)].

(* ---------------------------------------------------------------- the two loops are instances of Base/FoldOnce.v *)
Lemma swap_edge_faces_loop a b s : a <> b -> ebu s = true ->
  faces (swap_edge_indices a b s) =
  fst (fold_left (once_step hf_key (map (swap_half a b)) []) (edge_hfs s a b) (faces s, [])).
Proof.
  intros N E. unfold swap_edge_indices. rewrite (proj2 (Nat.eqb_neq a b) N), E.
  destruct (vbu s) eqn:V; rse; rewrite ?E, ?V; rse;
    repeat match goal with |- context [let '(x, y) := ?p in _] => destruct p end; rse;
    unfold edge_hfs; f_equal; apply fold_left_ext;
    intros [fs done] x; unfold once_step, hf_key; cbn [fst snd]; reflexivity.
Qed.

Lemma swap_edge_out_hes_loop a b s : a <> b -> vbu s = true ->
  out_hes (swap_edge_indices a b s) =
  fst (fold_left (once_step (@Some nat) (map (swap_half a b)) []) (edge_ends s a b) (out_hes s, [])).
Proof.
  intros N V. unfold swap_edge_indices. rewrite (proj2 (Nat.eqb_neq a b) N).
  destruct (ebu s) eqn:E; rse; rewrite ?E, ?V; rse; unfold edge_ends, edge_at; rse;
    destruct (nth a (edges s) (0, 0)) as [a0 a1]; destruct (nth b (edges s) (0, 0)) as [b0 b1]; rse; cbn [fst snd];
    f_equal; apply fold_left_ext; intros [ll done] x; unfold once_step, map_at; cbn [fst snd]; reflexivity.
Qed.

Lemma swap_edge_inc_hfs_ebu a b s : a <> b -> ebu s = true ->
  inc_hfs (swap_edge_indices a b s) = swap_nth (2 * a + 1) (2 * b + 1) [] (swap_nth (2 * a) (2 * b) [] (inc_hfs s)).
Proof.
  intros N E. unfold swap_edge_indices. rewrite (proj2 (Nat.eqb_neq a b) N), E.
  destruct (vbu s) eqn:V; rse; rewrite ?E, ?V; rse;
    repeat match goal with |- context [let '(x, y) := ?p in _] => destruct p end; rse; rewrite ?E; reflexivity.
Qed.

Lemma swap_half_at a b : a <> b ->
  swap_half a b (2 * a) = 2 * b /\ swap_half a b (2 * a + 1) = 2 * b + 1 /\
  swap_half a b (2 * b) = 2 * a /\ swap_half a b (2 * b + 1) = 2 * a + 1.
Proof.
  intros N. unfold swap_half.
  replace (2 * a / 2) with a by lia. replace ((2 * a + 1) / 2) with a by lia.
  replace (2 * b / 2) with b by lia. replace ((2 * b + 1) / 2) with b by lia.
  rewrite !Nat.eqb_refl. replace (b =? a) with false by (symmetry; apply Nat.eqb_neq; lia).
  lia.
Qed.

(* ---------------------------------------------------------------- the exact conditions *)
Definition faces_found (s : mesh) (a b : nat) : Prop :=
  forall f, f < nf s -> (exists h, In h (face_at s f) /\ (h / 2 = a \/ h / 2 = b)) ->
  exists x, In x (edge_hfs s a b) /\ x / 2 = f.

Definition out_sound (s : mesh) (a b : nat) : Prop :=
  forall v, v < length (out_hes s) -> (exists h, In h (out_at s v) /\ (h / 2 = a \/ h / 2 = b)) -> In v (edge_ends s a b).

(* H_E: no deferred-deleted face lists a halfedge of a or b *)
Definition no_deleted_face_lists (s : mesh) (a b : nat) : Prop :=
  forall f, f < nf s -> f_deleted s f = true -> forall h, In h (face_at s f) -> h / 2 <> a /\ h / 2 <> b.

Lemma faces_found_of_exact s a b : ebu_ok s -> ebu s = true -> a < ne s -> b < ne s ->
  no_deleted_face_lists s a b -> faces_found s a b.
Proof.
  intros OK E Ha Hb HD f Hf [h [Hin Hab]]. destruct (f_deleted s f) eqn:D.
  - exfalso. destruct (HD f Hf D h Hin). lia.
  - assert (G : forall e, e < ne s -> h / 2 = e -> exists x, In x (hfs_at s (2 * e)) /\ x / 2 = f).
    { intros e He Ee.
      assert (J : In (2 * e) (halfface s (2 * f)) \/ In (2 * e) (halfface s (2 * f + 1))) by (apply In_face_either; exists h; tauto).
      destruct J as [J|J].
      - exists (2 * f). split; [|lia]. apply (OK E (2 * e) ltac:(lia)). replace (2 * f / 2) with f by lia. tauto.
      - exists (2 * f + 1). split; [|lia]. apply (OK E (2 * e) ltac:(lia)). replace ((2 * f + 1) / 2) with f by lia. tauto. }
    unfold edge_hfs. destruct Hab as [Ea|Eb].
    + destruct (G a Ha Ea) as [x [Hx Ex]]. exists x. rewrite in_app_iff. tauto.
    + destruct (G b Hb Eb) as [x [Hx Ex]]. exists x. rewrite in_app_iff. tauto.
Qed.

Lemma out_sound_of_exact s a b : vbu_ok s -> vbu s = true -> length (out_hes s) = nv s -> out_sound s a b.
Proof.
  intros OK V L v Hv [h [Hin Hab]]. apply (OK V v ltac:(lia) h) in Hin. destruct Hin as (_ & _ & I).
  rewrite he_from_cases in I. unfold edge_ends. cbn [In].
  destruct Hab as [<-|<-]; destruct (h mod 2 =? 0); tauto.
Qed.

(* ---------------------------------------------------------------- (E) faces *)
Theorem swap_edge_faces_relabeled_iff a b s : a <> b -> ebu s = true ->
  (faces (swap_edge_indices a b s) = map (map (swap_half a b)) (faces s) <-> faces_found s a b).
Proof.
  intros N E. rewrite swap_edge_faces_loop by assumption. split.
  - intros H f Hf [h [Hin Hab]].
    destruct (named hf_key f (edge_hfs s a b)) eqn:Nm.
    + apply named_iff in Nm. destruct Nm as [x [Hx Ex]]. exists x. split; [exact Hx|]. unfold hf_key in Ex. congruence.
    + exfalso. pose proof (fold_once_is_map_only_if _ _ _ _ _ H f Hf Nm) as Q.
      destruct (swap_half_fixes_inv a b _ N Q h Hin). lia.
  - intros FF. apply fold_once_is_map. intros f Hf Nm. apply swap_half_fixes. intros h Hin.
    destruct (Nat.eq_dec (h / 2) a) as [Ea|Na]; [|destruct (Nat.eq_dec (h / 2) b) as [Eb|Nb]; [|split; assumption]]; exfalso.
    + destruct (FF f Hf (ex_intro _ h (conj Hin (or_introl Ea)))) as [x [Hx Ex]].
      apply (proj1 (named_false_iff _ _ _) Nm x Hx). unfold hf_key. congruence.
    + destruct (FF f Hf (ex_intro _ h (conj Hin (or_intror Eb)))) as [x [Hx Ex]].
      apply (proj1 (named_false_iff _ _ _) Nm x Hx). unfold hf_key. congruence.
Qed.

Theorem swap_edge_faces_relabeled a b s : a <> b -> ebu s = true -> faces_found s a b ->
  faces (swap_edge_indices a b s) = map (map (swap_half a b)) (faces s).
Proof. intros N E FF. apply swap_edge_faces_relabeled_iff; assumption. Qed.

(* ---------------------------------------------------------------- (E) the vertex -> outgoing halfedges cache *)
Theorem swap_edge_out_hes_relabeled_iff a b s : a <> b -> vbu s = true ->
  (out_hes (swap_edge_indices a b s) = map (map (swap_half a b)) (out_hes s) <-> out_sound s a b).
Proof.
  intros N V. rewrite swap_edge_out_hes_loop by assumption. split.
  - intros H v Hv [h [Hin Hab]].
    destruct (named (@Some nat) v (edge_ends s a b)) eqn:Nm.
    + apply named_iff in Nm. destruct Nm as [y [Hy Ey]]. injection Ey as ->. exact Hy.
    + exfalso. pose proof (fold_once_is_map_only_if _ _ _ _ _ H v Hv Nm) as Q.
      destruct (swap_half_fixes_inv a b _ N Q h Hin). lia.
  - intros OS. apply fold_once_is_map. intros v Hv Nm. apply swap_half_fixes. intros h Hin.
    destruct (Nat.eq_dec (h / 2) a) as [Ea|Na]; [|destruct (Nat.eq_dec (h / 2) b) as [Eb|Nb]; [|split; assumption]]; exfalso.
    + exact (proj1 (named_false_iff _ _ _) Nm v (OS v Hv (ex_intro _ h (conj Hin (or_introl Ea)))) eq_refl).
    + exact (proj1 (named_false_iff _ _ _) Nm v (OS v Hv (ex_intro _ h (conj Hin (or_intror Eb)))) eq_refl).
Qed.

Theorem swap_edge_out_hes_relabeled a b s : a <> b -> vbu s = true -> out_sound s a b ->
  out_hes (swap_edge_indices a b s) = map (map (swap_half a b)) (out_hes s).
Proof. intros N V OS. apply swap_edge_out_hes_relabeled_iff; assumption. Qed.

(* ---------------------------------------------------------------- (E) the whole state *)
Definition edge_relabeled (a b : nat) (s : mesh) : mesh := {|
  nv := nv s;
  edges := swap_nth a b (0, 0) (edges s);
  faces := map (map (swap_half a b)) (faces s);
  cells := cells s;
  vdel := vdel s; edel := swap_nth a b false (edel s); fdel := fdel s; cdel := cdel s;
  ndv := ndv s; nde := nde s; ndf := ndf s; ndc := ndc s;
  vbu := vbu s; ebu := ebu s; fbu := fbu s; deferred := deferred s; fast := fast s;
  out_hes := if vbu s then map (map (swap_half a b)) (out_hes s) else out_hes s;
  inc_hfs := if ebu s then swap_nth (2 * a + 1) (2 * b + 1) [] (swap_nth (2 * a) (2 * b) [] (inc_hfs s)) else inc_hfs s;
  inc_cell := inc_cell s;
  pv := pv s; pe := map (pswap a b) (pe s); phe := half_swap_props a b (phe s);
  pf := pf s; phf := phf s; pc := pc s; pm := pm s |}.

Theorem swap_edge_is_relabeling a b s : a <> b ->
  (ebu s = true -> faces_found s a b) -> (vbu s = true -> out_sound s a b) ->
  swap_edge_indices a b s = edge_relabeled a b s.
Proof.
  intros N FF OS. pose proof (swap_edge_effect a b s N) as E1. cbv zeta in E1.
  destruct E1 as (c1&c2&c3&c4&c5&c6&c7&c8&c9&c10&c11&c12&c13&c14&c15&(n1&n2&n3&n4)&(f1&f2&f3&f4&f5)&ci&cj).
  apply mesh_ext; unfold edge_relabeled; rse; try assumption.
  - destruct (ebu s) eqn:E; [apply swap_edge_faces_relabeled; auto|apply ci; reflexivity].
  - destruct (vbu s) eqn:V; [apply swap_edge_out_hes_relabeled; auto|apply cj; reflexivity].
  - destruct (ebu s) eqn:E; [apply swap_edge_inc_hfs_ebu; auto|apply ci; reflexivity].
Qed.

Definition caches_off_e (s : mesh) : mesh := set_flags false false (fbu s) (deferred s) (fast s) s.

Theorem swap_edge_cache_guided_is_scan_plus_relabeled_caches a b s : a <> b ->
  (ebu s = true -> faces_found s a b) -> (vbu s = true -> out_sound s a b) ->
  swap_edge_indices a b s =
  set_flags (vbu s) (ebu s) (fbu s) (deferred s) (fast s)
    (set_inc_hfs (inc_hfs (edge_relabeled a b s))
      (set_out_hes (out_hes (edge_relabeled a b s)) (swap_edge_indices a b (caches_off_e s)))).
Proof.
  intros N FF OS. rewrite (swap_edge_is_relabeling a b s N FF OS).
  pose proof (swap_edge_effect a b (caches_off_e s) N) as E1. cbv zeta in E1.
  destruct E1 as (c1&c2&c3&c4&c5&c6&c7&c8&c9&c10&c11&c12&c13&c14&c15&(n1&n2&n3&n4)&(f1&f2&f3&f4&f5)&ci&cj).
  destruct (ci eq_refl) as [ci1 ci2].
  apply mesh_ext; rse; try reflexivity; symmetry; assumption.
Qed.

(* ---------------------------------------------------------------- the conditions hold again after the swap *)
Lemma face_at_edge_relabeled a b s f : face_at (edge_relabeled a b s) f = map (swap_half a b) (face_at s f).
Proof. unfold face_at, edge_relabeled. rse. apply nth_map_map_half. Qed.

Lemma hfs_at_edge_relabeled a b s h : a <> b -> ebu s = true -> a < ne s -> b < ne s -> length (inc_hfs s) = 2 * ne s ->
  hfs_at (edge_relabeled a b s) h = hfs_at s (swap_half a b h).
Proof. intros N E Ha Hb L. unfold hfs_at, edge_relabeled. rse. rewrite E. apply nth_half_swap; lia. Qed.

Lemma edge_at_edge_relabeled a b s e : a < ne s -> b < ne s -> edge_at (edge_relabeled a b s) e = edge_at s (swap_idx a b e).
Proof.
  intros Ha Hb. unfold edge_at, edge_relabeled. rse. rewrite nth_swap_nth by assumption. unfold swap_idx.
  destruct (Nat.eqb_spec e a); [reflexivity|]. destruct (Nat.eqb_spec e b); reflexivity.
Qed.

Lemma out_at_edge_relabeled a b s v : vbu s = true -> out_at (edge_relabeled a b s) v = map (swap_half a b) (out_at s v).
Proof. intros V. unfold out_at, edge_relabeled. rse. rewrite V. apply nth_map_map_half. Qed.

Lemma faces_found_preserved a b s : a <> b -> ebu s = true -> a < ne s -> b < ne s -> length (inc_hfs s) = 2 * ne s ->
  faces_found s a b -> faces_found (edge_relabeled a b s) a b.
Proof.
  intros N E Ha Hb L FF f Hf [h [Hin Hab]]. rewrite face_at_edge_relabeled in Hin. apply in_map_iff in Hin.
  destruct Hin as [h0 [<- Hin]]. destruct (swap_half_div a b h0 N) as [D1 D2].
  assert (Hf0 : f < nf s) by (revert Hf; unfold nf, edge_relabeled; rse; rewrite map_length; tauto).
  assert (Hab0 : h0 / 2 = a \/ h0 / 2 = b) by tauto.
  destruct (FF f Hf0 (ex_intro _ h0 (conj Hin Hab0))) as [x [Hx Ex]]. exists x. split; [|exact Ex].
  unfold edge_hfs in *. rewrite !hfs_at_edge_relabeled by assumption.
  destruct (swap_half_at a b N) as (S1 & _ & S3 & _). rewrite S1, S3. rewrite in_app_iff in *. tauto.
Qed.

Lemma out_sound_preserved a b s : a <> b -> vbu s = true -> a < ne s -> b < ne s ->
  out_sound s a b -> out_sound (edge_relabeled a b s) a b.
Proof.
  intros N V Ha Hb OS v Hv [h [Hin Hab]]. rewrite out_at_edge_relabeled in Hin by exact V. apply in_map_iff in Hin.
  destruct Hin as [h0 [<- Hin]]. destruct (swap_half_div a b h0 N) as [D1 D2].
  assert (Hv0 : v < length (out_hes s)) by (revert Hv; unfold edge_relabeled; rse; rewrite V, map_length; tauto).
  assert (Hab0 : h0 / 2 = a \/ h0 / 2 = b) by tauto.
  pose proof (OS v Hv0 (ex_intro _ h0 (conj Hin Hab0))) as I.
  unfold edge_ends in *. rewrite !edge_at_edge_relabeled by assumption. unfold swap_idx. rewrite !Nat.eqb_refl.
  destruct (Nat.eqb_spec b a); [congruence|]. cbn [In] in *. tauto.
Qed.

Lemma no_deleted_face_lists_preserved a b s : a <> b -> no_deleted_face_lists s a b -> no_deleted_face_lists (edge_relabeled a b s) a b.
Proof.
  intros N HD f Hf D h Hin. rewrite face_at_edge_relabeled in Hin. apply in_map_iff in Hin. destruct Hin as [h0 [<- Hin]].
  assert (Hf0 : f < nf s) by (revert Hf; unfold nf, edge_relabeled; rse; rewrite map_length; tauto).
  destruct (HD f Hf0 D h0 Hin). destruct (swap_half_div a b h0 N). tauto.
Qed.

Lemma edge_relabeled_involutive a b s : sized s -> a <> b -> a < ne s -> b < ne s ->
  (ebu s = true -> length (inc_hfs s) = 2 * ne s) ->
  edge_relabeled a b (edge_relabeled a b s) = s.
Proof.
  intros (Lv & Le & Lf & Lc & Lp) N Ha Hb L. unfold ne in *.
  apply mesh_ext; unfold edge_relabeled; rse; try reflexivity.
  - apply swap_nth_involutive; assumption.
  - rewrite map_map. apply map_fixed. intros l _. apply map_map_involutive. apply swap_half_involutive.
  - apply swap_nth_involutive; lia.
  - destruct (vbu s); [|reflexivity]. rewrite map_map. apply map_fixed. intros l _. apply map_map_involutive. apply swap_half_involutive.
  - destruct (ebu s); [|reflexivity]. apply half_swap_involutive; [assumption|rewrite L by reflexivity; lia..].
  - apply (map_pswap_involutive a b (pe s) (length (edges s))); try assumption. intros p Hp. apply (Lp KE p Hp).
  - apply (half_swap_props_involutive a b (phe s) (length (edges s))); try assumption. intros p Hp. apply (Lp KHE p Hp).
Qed.

(* ---------------------------------------------------------------- (E) involution in every mode *)
Theorem swap_edge_involutive_every_mode a b s : sized s -> a < ne s -> b < ne s ->
  (ebu s = true -> faces_found s a b /\ length (inc_hfs s) = 2 * ne s) ->
  (vbu s = true -> out_sound s a b) ->
  swap_edge_indices a b (swap_edge_indices a b s) = s.
Proof.
  intros Z Ha Hb HE HV. destruct (Nat.eq_dec a b) as [->|N]; [rewrite !swap_edge_self; reflexivity|].
  rewrite (swap_edge_is_relabeling a b s N) by (intros; auto; apply HE; assumption).
  rewrite (swap_edge_is_relabeling a b (edge_relabeled a b s) N).
  - apply edge_relabeled_involutive; try assumption. intros E. apply HE. exact E.
  - intros E. change (ebu s = true) in E. destruct (HE E). apply faces_found_preserved; assumption.
  - intros V. change (vbu s = true) in V. apply out_sound_preserved; auto.
Qed.

(* ---------------------------------------------------------------- in terms of the exactness invariant of C01 *)
Theorem swap_edge_exact_relabeling a b s : a <> b -> a < ne s -> b < ne s ->
  ebu_ok s -> vbu_ok s -> lens_ok s -> no_deleted_face_lists s a b ->
  swap_edge_indices a b s = edge_relabeled a b s.
Proof.
  intros N Ha Hb EO VO (L1 & L2 & _) HD. apply swap_edge_is_relabeling; [exact N| |].
  - intros E. apply faces_found_of_exact; assumption.
  - intros V. apply out_sound_of_exact; auto.
Qed.

Theorem swap_edge_exact_involutive a b s : sized s -> a < ne s -> b < ne s ->
  ebu_ok s -> vbu_ok s -> lens_ok s -> no_deleted_face_lists s a b ->
  swap_edge_indices a b (swap_edge_indices a b s) = s.
Proof.
  intros Z Ha Hb EO VO (L1 & L2 & _) HD. destruct (Nat.eq_dec a b) as [->|N]; [rewrite !swap_edge_self; reflexivity|].
  apply swap_edge_involutive_every_mode; try assumption.
  - intros E. split; [apply faces_found_of_exact; assumption|exact (L2 E)].
  - intros V. apply out_sound_of_exact; auto.
Qed.

(* ---------------------------------------------------------------- executable forms of the two conditions (for examples by computation) *)
Definition faces_foundb (s : mesh) (a b : nat) : bool :=
  forallb (fun f => negb (existsb (is_ab a b) (face_at s f)) || existsb (fun x => x / 2 =? f) (edge_hfs s a b)) (seq 0 (nf s)).

Definition out_soundb (s : mesh) (a b : nat) : bool :=
  forallb (fun v => negb (existsb (is_ab a b) (out_at s v)) || memb v (edge_ends s a b)) (seq 0 (length (out_hes s))).

Lemma faces_foundb_sound s a b : faces_foundb s a b = true -> faces_found s a b.
Proof.
  unfold faces_foundb. rewrite forallb_forall. intros H f Hf [h [Hin Hab]].
  specialize (H f ltac:(apply in_seq; lia)). apply orb_true_iff in H. destruct H as [H|H].
  - exfalso. apply negb_true_iff in H. assert (Q : existsb (is_ab a b) (face_at s f) = true); [|congruence].
    apply existsb_exists. exists h. split; [exact Hin|apply is_ab_spec; exact Hab].
  - apply existsb_exists in H. destruct H as [x [Hx Ex]]. exists x. split; [exact Hx|apply Nat.eqb_eq; exact Ex].
Qed.

Lemma out_soundb_sound s a b : out_soundb s a b = true -> out_sound s a b.
Proof.
  unfold out_soundb. rewrite forallb_forall. intros H v Hv [h [Hin Hab]].
  specialize (H v ltac:(apply in_seq; lia)). apply orb_true_iff in H. destruct H as [H|H].
  - exfalso. apply negb_true_iff in H. assert (Q : existsb (is_ab a b) (out_at s v) = true); [|congruence].
    apply existsb_exists. exists h. split; [exact Hin|apply is_ab_spec; exact Hab].
  - apply memb_In. exact H.
Qed.

Definition no_deleted_face_listsb (s : mesh) (a b : nat) : bool :=
  forallb (fun f => negb (f_deleted s f) || negb (existsb (is_ab a b) (face_at s f))) (seq 0 (nf s)).

Lemma no_deleted_face_listsb_sound s a b : no_deleted_face_listsb s a b = true -> no_deleted_face_lists s a b.
Proof.
  unfold no_deleted_face_listsb. rewrite forallb_forall. intros H f Hf D h Hin.
  specialize (H f ltac:(apply in_seq; lia)). rewrite D in H. cbn [negb orb] in H. apply negb_true_iff in H.
  assert (Q : is_ab a b h = false).
  { destruct (is_ab a b h) eqn:Q; [|reflexivity]. assert (existsb (is_ab a b) (face_at s f) = true); [|congruence].
    apply existsb_exists. exists h. tauto. }
  unfold is_ab in Q. apply orb_false_iff in Q. rewrite !Nat.eqb_neq in Q. exact Q.
Qed.

(* ---------------------------------------------------------------- summaries exported by Props/Properties_C17.v *)
Theorem swap_edge_exact_summary a b s : a <> b -> a < ne s -> b < ne s ->
  ebu_ok s -> vbu_ok s -> lens_ok s -> no_deleted_face_lists s a b ->
  let s' := swap_edge_indices a b s in
  faces s' = map (map (swap_half a b)) (faces s) /\
  (vbu s = true -> out_hes s' = map (map (swap_half a b)) (out_hes s)) /\
  (ebu s = true -> inc_hfs s' = swap_nth (2 * a + 1) (2 * b + 1) [] (swap_nth (2 * a) (2 * b) [] (inc_hfs s))) /\
  s' = edge_relabeled a b s /\
  s' = set_flags (vbu s) (ebu s) (fbu s) (deferred s) (fast s)
         (set_inc_hfs (inc_hfs (edge_relabeled a b s))
           (set_out_hes (out_hes (edge_relabeled a b s)) (swap_edge_indices a b (caches_off_e s)))).
Proof.
  intros N Ha Hb EO VO L HD. cbv zeta.
  pose proof (swap_edge_exact_relabeling a b s N Ha Hb EO VO L HD) as R.
  destruct L as (L1 & L2 & _).
  assert (FF : ebu s = true -> faces_found s a b) by (intros E; apply faces_found_of_exact; assumption).
  assert (OS : vbu s = true -> out_sound s a b) by (intros V; apply out_sound_of_exact; auto).
  split; [rewrite R; reflexivity|]. split; [intros V; apply swap_edge_out_hes_relabeled; auto|].
  split; [intros E; apply swap_edge_inc_hfs_ebu; assumption|]. split; [exact R|].
  apply swap_edge_cache_guided_is_scan_plus_relabeled_caches; assumption.
Qed.

Theorem swap_edge_exactly_when a b s : a <> b ->
  let s' := swap_edge_indices a b s in
  (ebu s = true -> (faces s' = map (map (swap_half a b)) (faces s) <-> faces_found s a b)) /\
  (vbu s = true -> (out_hes s' = map (map (swap_half a b)) (out_hes s) <-> out_sound s a b)).
Proof.
  intros N. split; intros M; [apply swap_edge_faces_relabeled_iff|apply swap_edge_out_hes_relabeled_iff]; assumption.
Qed.

(* ---------------------------------------------------------------- the exactness invariant of C01 survives the relabeling *)
Lemma opp_swap_half a b y : opp (swap_half a b y) = swap_half a b (opp y).
Proof.
  destruct (swap_half_spec a b y) as [P1 P2]. destruct (swap_half_spec a b (opp y)) as [Q1 Q2].
  rewrite opp_div2 in Q1. rewrite opp_mod2 in Q2. rewrite opp_spec, P1, P2.
  pose proof (Nat.div_mod_eq (swap_half a b (opp y)) 2) as D. rewrite Q1, Q2 in D. lia.
Qed.

Lemma halfface_edge_relabeled a b s x : halfface (edge_relabeled a b s) x = map (swap_half a b) (halfface s x).
Proof.
  unfold halfface. rewrite face_at_edge_relabeled. destruct (Nat.even x); [reflexivity|].
  rewrite map_rev, !map_map. f_equal. apply map_ext. intros y. apply opp_swap_half.
Qed.

Lemma e_deleted_edge_relabeled a b s e : a < length (edel s) -> b < length (edel s) ->
  e_deleted (edge_relabeled a b s) e = e_deleted s (swap_idx a b e).
Proof.
  intros Ha Hb. unfold e_deleted, edge_relabeled. rse. rewrite nth_swap_nth by assumption. unfold swap_idx.
  destruct (Nat.eqb_spec e a); [reflexivity|]. destruct (Nat.eqb_spec e b); reflexivity.
Qed.

Lemma he_from_edge_relabeled a b s h : a < ne s -> b < ne s -> he_from (edge_relabeled a b s) h = he_from s (swap_half a b h).
Proof.
  intros Ha Hb. unfold he_from. rewrite edge_at_edge_relabeled by assumption. rewrite swap_half_even.
  destruct (swap_half_spec a b h) as [Q _]. rewrite Q. reflexivity.
Qed.

Theorem bu_inv_edge_relabeled a b s : a <> b -> a < ne s -> b < ne s -> bu_inv s -> bu_inv (edge_relabeled a b s).
Proof.
  intros N Ha Hb (VO & EO & FO & (R1 & R2 & R3) & (L1 & L2 & L3 & L4 & L5 & L6)).
  assert (NE : ne (edge_relabeled a b s) = ne s) by (unfold ne, edge_relabeled; rse; apply swap_nth_length).
  assert (NF : nf (edge_relabeled a b s) = nf s) by (unfold nf, edge_relabeled; rse; apply map_length).
  split; [|split; [|split; [|split; [split; [|split]|]]]].
  - (* vbu_ok *)
    intros V v Hv h. change (vbu s = true) in V. change (v < nv s) in Hv.
    rewrite out_at_edge_relabeled by exact V. rewrite In_map_swap_half, (VO V v Hv (swap_half a b h)), NE.
    rewrite e_deleted_edge_relabeled by lia. rewrite he_from_edge_relabeled by assumption.
    destruct (swap_half_spec a b h) as [Q _]. rewrite Q. pose proof (swap_idx_lt a b (ne s) (h / 2) Ha Hb). tauto.
  - (* ebu_ok *)
    intros E h Hh x. change (ebu s = true) in E. rewrite NE in Hh.
    rewrite hfs_at_edge_relabeled by (try assumption; exact (L2 E)).
    rewrite (EO E (swap_half a b h) (proj2 (swap_half_lt a b (ne s) h Ha Hb) Hh) x), NF.
    rewrite halfface_edge_relabeled, In_map_swap_half. reflexivity.
  - (* fbu_ok *)
    intros F hf Hhf c. rewrite NF in Hhf. exact (FO F hf Hhf c).
  - (* refs_ok, edges *)
    intros e He D. rewrite NE in He. rewrite e_deleted_edge_relabeled in D by lia. rewrite edge_at_edge_relabeled by assumption.
    exact (R1 (swap_idx a b e) (proj2 (swap_idx_lt a b (ne s) e Ha Hb) He) D).
  - (* refs_ok, faces *)
    intros f Hf D h Hin. rewrite NF in Hf. rewrite face_at_edge_relabeled in Hin. apply In_map_swap_half in Hin.
    rewrite NE. apply (swap_half_lt a b (ne s) h Ha Hb). exact (R2 f Hf D _ Hin).
  - (* refs_ok, cells *)
    intros c Hc D hf Hin. rewrite NF. exact (R3 c Hc D hf Hin).
  - (* lens_ok *)
    unfold lens_ok. rewrite NE, NF. unfold edge_relabeled. rse. split; [|split; [|split; [exact L3|split; [|split; [exact L5|exact L6]]]]].
    + intros V. rewrite V, map_length. exact (L1 V).
    + intros E. rewrite E, !swap_nth_length. exact (L2 E).
    + rewrite swap_nth_length. exact L4.
Qed.

(* so: an edge swap keeps the caches exact, provided no deferred-deleted face lists a halfedge of a or b *)
Theorem bu_inv_swap_edge a b s : a < ne s -> b < ne s -> bu_inv s -> no_deleted_face_lists s a b -> bu_inv (swap_edge_indices a b s).
Proof.
  intros Ha Hb B HD. destruct (Nat.eq_dec a b) as [->|N]; [rewrite swap_edge_self; exact B|].
  pose proof B as (VO & EO & FO & R & L).
  rewrite (swap_edge_exact_relabeling a b s N Ha Hb EO VO L HD). apply bu_inv_edge_relabeled; assumption.
Qed.
