(* Kernel/Ops.v -- the mutators of TopologyKernel as total functions on [mesh], following the
   branches of TopologyKernel.cc (cache-guided vs. linear scan, deferred x fast, each bottom-up
   flag).  Line references are to src/OpenVolumeMesh/Core/TopologyKernel.cc unless noted.
   No proofs in this file. *)
From OVM Require Export Kernel.State.
Local Open Scope nat_scope.

(* ------------------------------------------------------------------ property arrays *)

Definition presize (n : nat) (p : parray) : parray :=
  {| pdef := pdef p; pdata := resize n (pdef p) (pdata p) |}.
Definition pdelete (i : nat) (p : parray) : parray :=
  {| pdef := pdef p; pdata := remove_nth i (pdata p) |}.
Definition pswap (i j : nat) (p : parray) : parray :=
  {| pdef := pdef p; pdata := swap_nth i j (pdef p) (pdata p) |}.
Definition pset (i : nat) (v : Z) (p : parray) : parray :=
  {| pdef := pdef p; pdata := upd i v (pdata p) |}.

Definition resize_props (k : kind) (n : nat) (s : mesh) : mesh :=
  set_props k (map (presize n) (props k s)) s.
Definition delete_prop_elem (k : kind) (i : nat) (s : mesh) : mesh :=
  set_props k (map (pdelete i) (props k s)) s.
Definition swap_prop_elems (k : kind) (i j : nat) (s : mesh) : mesh :=
  set_props k (map (pswap i j) (props k s)) s.

(* ResourceManager.cc:93-109 *)
Definition resize_vprops n s := resize_props KV n s.
Definition resize_eprops n s := resize_props KHE (2 * n) (resize_props KE n s).
Definition resize_fprops n s := resize_props KHF (2 * n) (resize_props KF n s).
Definition resize_cprops n s := resize_props KC n s.

(* ResourceManager.cc:127-146: entity, then half-entity 1, then half-entity 0 *)
Definition vertex_deleted h s := delete_prop_elem KV h s.
Definition edge_deleted h s :=
  delete_prop_elem KHE (2 * h) (delete_prop_elem KHE (2 * h + 1) (delete_prop_elem KE h s)).
Definition face_deleted h s :=
  delete_prop_elem KHF (2 * h) (delete_prop_elem KHF (2 * h + 1) (delete_prop_elem KF h s)).
Definition cell_deleted h s := delete_prop_elem KC h s.

(* ------------------------------------------------------------------ small cache helpers *)

Definition push_at (i x : nat) (ll : list (list nat)) : list (list nat) :=
  upd i (nth i ll [] ++ [x]) ll.
Definition remove_at (i x : nat) (ll : list (list nat)) : list (list nat) :=
  upd i (remove_val x (nth i ll [])) ll.
Definition map_at (i : nat) (f : nat -> nat) (ll : list (list nat)) : list (list nat) :=
  upd i (map f (nth i ll [])) ll.

(* HEHandleCorrection / HFHandleCorrection (threshold t = 2h+1) and V/CHandleCorrection (t = h);
   Base/HandleBridge.v ties these to the regenerated Handles.hh leaves *)
Definition cor2 (t x : nat) : nat := if t <? x then x - 2 else x.
Definition cor1 (t x : nat) : nat := if t <? x then x - 1 else x.

(* the relabeling used by swap_face_indices / swap_edge_indices on half-handles (1498-1503) *)
Definition swap_half (a b x : nat) : nat :=
  if x / 2 =? a then 2 * b + x mod 2
  else if x / 2 =? b then 2 * a + x mod 2
  else x.
Definition swap_idx (a b x : nat) : nat :=
  if x =? a then b else if x =? b then a else x.

(* ------------------------------------------------------------------ adjacency / reorder *)

(* adjacent_halfface_in_cell, 2210-2277 *)
Inductive adj_state := AdjRun (skipped : bool) (idx : option nat) | AdjRet (r : option nat).

Definition adj_inner (s : mesh) (hf he hfh : nat) (st : adj_state) (heh : nat) : adj_state :=
  match st with
  | AdjRet _ => st
  | AdjRun skipped idx =>
      if (opp heh =? he) && negb (hfh =? opp hf) then
        match idx with
        | Some _ => AdjRet None
        | None => if skipped then AdjRet (Some hfh) else AdjRun skipped (Some hfh)
        end
      else st
  end.

Definition adj_outer (s : mesh) (hf he : nat) (st : adj_state) (hfh : nat) : adj_state :=
  match st with
  | AdjRet _ => st
  | AdjRun skipped idx =>
      if hfh =? hf then
        match idx with
        | Some i => AdjRet (Some i)
        | None => AdjRun true idx
        end
      else fold_left (adj_inner s hf he hfh) (halfface s hfh) st
  end.

Definition adjacent_halfface_in_cell (s : mesh) (hf he : nat) : option nat :=
  match cell_of s hf with
  | None => None
  | Some ch =>
      let hes := halfface s hf in
      let has_he := memb he hes in
      let has_opp := memb (opp he) hes in
      let he' := if has_he then Some he else if has_opp then Some (opp he) else None in
      match he' with
      | None => None
      | Some he1 =>
          match fold_left (adj_outer s hf he1) (cell_at s ch) (AdjRun false None) with
          | AdjRet r => r
          | AdjRun _ _ => None
          end
      end
  end.

Definition hf_is_open (s : mesh) (hf : nat) : bool :=
  match cell_of s hf with
  | None => true
  | Some c => c_deleted s c
  end.

(* forward walk of reorder_incident_halffaces (307-324); None = "return without reordering" *)
Fixpoint reorder_fwd (fuel : nat) (s : mesh) (n heh start cur : nat) (acc : list nat) : option (list nat) :=
  match fuel with
  | 0 => None
  | S fuel' =>
      let acc' := acc ++ [cur] in
      if n <? length acc' then None
      else if hf_is_open s cur then Some acc'
      else match adjacent_halfface_in_cell s cur heh with
           | None => None
           | Some a =>
               let cur' := opp a in
               if cur' =? start then Some acc' else reorder_fwd fuel' s n heh start cur' acc'
           end
  end.

(* backward walk (336-356) *)
Fixpoint reorder_bwd (fuel : nat) (s : mesh) (n heh cur : nat) (acc : list nat) : option (list nat) :=
  match fuel with
  | 0 => None
  | S fuel' =>
      let cur1 := opp cur in
      if hf_is_open s cur1 then Some acc
      else match adjacent_halfface_in_cell s cur1 heh with
           | None => None
           | Some a =>
               let acc' := a :: acc in
               if n <? length acc' then None
               else reorder_bwd fuel' s n heh a acc'
           end
  end.

Definition reorder_list (s : mesh) (e : nat) : option (list nat) :=
  let heh := 2 * e in
  let inc := hfs_at s heh in
  let n := length inc in
  if n <? 2 then None
  else
    match inc with
    | [] => None
    | start :: _ =>
        match reorder_fwd (n + 2) s n heh start start [] with
        | None => None
        | Some acc =>
            let r := if length acc =? n then Some acc
                     else reorder_bwd (n + 2) s n (opp heh) start acc in
            match r with
            | Some acc2 => if length acc2 =? n then Some acc2 else None
            | None => None
            end
        end
    end.

Definition reorder_incident_halffaces (e : nat) (s : mesh) : mesh :=
  match reorder_list s e with
  | None => s
  | Some l =>
      let heh := 2 * e in
      let oppl := map opp (rev l) in
      let old := hfs_at s (heh + 1) in
      set_inc_hfs (upd (heh + 1) (oppl ++ skipn (length oppl) old) (upd heh l (inc_hfs s))) s
  end.

Definition reorder_edges (es : list nat) (s : mesh) : mesh :=
  fold_left (fun s e => reorder_incident_halffaces e s) es s.

Definition live_edges (s : mesh) : list nat := filter (fun e => negb (e_deleted s e)) (seq 0 (ne s)).
Definition live_faces (s : mesh) : list nat := filter (fun f => negb (f_deleted s f)) (seq 0 (nf s)).
Definition live_cells (s : mesh) : list nat := filter (fun c => negb (c_deleted s c)) (seq 0 (nc s)).
Definition live_vertices (s : mesh) : list nat := filter (fun v => negb (v_deleted s v)) (seq 0 (nv s)).

(* ------------------------------------------------------------------ additions *)

Definition all_b {A} (p : A -> bool) (l : list A) : bool := forallb p l.

Definition add_vertex (s : mesh) : mesh * nat :=
  let n := S (nv s) in
  let s1 := set_vdel (vdel s ++ [false]) (set_nv n s) in
  let s2 := if vbu s1 then set_out_hes (resize n [] (out_hes s1)) s1 else s1 in
  (resize_vprops n s2, nv s).

Fixpoint add_n_vertices (n : nat) (s : mesh) : mesh :=
  match n with 0 => s | S k => add_n_vertices k (fst (add_vertex s)) end.

(* 123-143; the linear scan skips deleted edges (see KNOWN_FINDINGS "fixed" D3) *)
Definition find_dup_edge (s : mesh) (a b : nat) : option nat :=
  if vbu s then
    option_map (fun h => h / 2) (find (fun h => he_to s h =? b) (out_at s a))
  else
    find (fun e => let '(x, y) := edge_at s e in
                   negb (e_deleted s e) && (((x =? a) && (y =? b)) || ((x =? b) && (y =? a))))
         (seq 0 (ne s)).

Definition append_edge (s : mesh) (a b : nat) : mesh * nat :=
  let e := ne s in
  let s1 := set_edel (edel s ++ [false]) (set_edges (edges s ++ [(a, b)]) s) in
  let s2 := resize_eprops (S e) s1 in
  let s3 := if vbu s2 then set_out_hes (push_at b (2 * e + 1) (push_at a (2 * e) (out_hes s2))) s2 else s2 in
  let s4 := if ebu s3 then set_inc_hfs (resize (2 * S e) [] (inc_hfs s3)) s3 else s3 in
  (s4, e).

Definition add_edge (s : mesh) (a b : nat) (dup : bool) : mesh * nat :=
  if dup then append_edge s a b
  else match find_dup_edge s a b with
       | Some e => (s, e)
       | None => append_edge s a b
       end.

(* 185-192 *)
Fixpoint chain_ok (s : mesh) (first : nat) (hes : list nat) : bool :=
  match hes with
  | [] => true
  | h :: t =>
      match t with
      | [] => he_to s h =? he_from s first
      | h2 :: _ => (he_to s h =? he_from s h2) && chain_ok s first t
      end
  end.
Definition loop_ok (s : mesh) (hes : list nat) : bool :=
  match hes with [] => false | h :: _ => chain_ok s h hes end.

Definition add_face_inc (f : nat) (hes : list nat) (ll : list (list nat)) : list (list nat) :=
  fold_left (fun ll he => push_at (opp he) (2 * f + 1) (push_at he (2 * f) ll)) hes ll.

Definition append_face (s : mesh) (hes : list nat) : mesh * nat :=
  let f := nf s in
  let s1 := set_fdel (fdel s ++ [false]) (set_faces (faces s ++ [hes]) s) in
  let s2 := resize_fprops (S f) s1 in
  let s3 := if ebu s2 then set_inc_hfs (add_face_inc f hes (inc_hfs s2)) s2 else s2 in
  let s4 := if fbu s3 then set_inc_cell (resize (2 * S f) None (inc_cell s3)) s3 else s3 in
  (s4, f).

Definition add_face (s : mesh) (hes : list nat) (check : bool) : mesh * option nat :=
  if check && negb (loop_ok s hes) then (s, None)
  else let '(s', f) := append_face s hes in (s', Some f).

(* 235-267 *)
Definition add_face_v_step (v w : nat) (acc : mesh * list nat) : mesh * list nat :=
  let '(s, hes) := acc in
  let '(s', e) := add_edge s v w false in
  let swp := if snd (edge_at s' e) =? v then 1 else 0 in
  (s', hes ++ [2 * e + swp]).

Fixpoint add_face_v_edges (first : nat) (vs : list nat) (acc : mesh * list nat) : mesh * list nat :=
  match vs with
  | [] => acc
  | v :: t =>
      match t with
      | [] => add_face_v_step v first acc
      | w :: _ => add_face_v_edges first t (add_face_v_step v w acc)
      end
  end.

Definition add_face_v (s : mesh) (vs : list nat) : mesh * option nat :=
  match vs with
  | [] => (s, None)
  | first :: _ =>
      let '(s1, hes) := add_face_v_edges first vs (s, []) in
      add_face s1 hes false
  end.

(* 388-434 *)
Definition cell_check (s : mesh) (hfs : list nat) : bool :=
  match hfs with
  | [] => false
  | _ =>
      let hes := sort_nat (concat (map (halfface s) hfs)) in
      if has_adjacent_dup hes then false
      else length hes =? 2 * length (unique_by (fun a b => a / 2 =? b / 2) hes)
  end.

Definition face_edge_handles (s : mesh) (f : nat) : list nat := map (fun h => h / 2) (face_at s f).

Definition append_cell (s : mesh) (hfs : list nat) : mesh * nat :=
  let c := nc s in
  let s1 := set_cdel (cdel s ++ [false]) (set_cells (cells s ++ [hfs]) s) in
  let s2 := resize_cprops (S c) s1 in
  if fbu s2 then
    let s3 := set_inc_cell (fold_left (fun l hf => upd hf (Some c) l) hfs (inc_cell s2)) s2 in
    let es := set_of_list (concat (map (fun hf => face_edge_handles s3 (hf / 2)) hfs)) in
    ((if ebu s3 then reorder_edges es s3 else s3), c)
  else (s2, c).

Definition add_cell (s : mesh) (hfs : list nat) (check : bool) : mesh * option nat :=
  if check && negb (cell_check s hfs) then (s, None)
  else let '(s', c) := append_cell s hfs in (s', Some c).

(* ------------------------------------------------------------------ set_* (495-592) *)

Definition set_edge (s : mesh) (e a b : nat) : mesh :=
  let '(fv, tv) := edge_at s e in
  let s1 := if vbu s then
              set_out_hes (push_at b (2 * e + 1) (push_at a (2 * e)
                 (remove_at tv (2 * e + 1) (remove_at fv (2 * e) (out_hes s))))) s
            else s in
  set_edges (upd e (a, b) (edges s1)) s1.

Definition set_face (s : mesh) (f : nat) (hes : list nat) : mesh :=
  let s1 := if ebu s then
              let ll1 := fold_left (fun ll he => remove_at (opp he) (2 * f + 1) (remove_at he (2 * f) ll))
                                   (face_at s f) (inc_hfs s) in
              set_inc_hfs (add_face_inc f hes ll1) s
            else s in
  set_faces (upd f hes (faces s1)) s1.

Definition set_cell (s : mesh) (c : nat) (hfs : list nat) : mesh :=
  let s1 := if fbu s then
              let l1 := fold_left (fun l hf => upd hf None l) (cell_at s c) (inc_cell s) in
              set_inc_cell (fold_left (fun l hf => upd hf (Some c) l) hfs l1) s
            else s in
  set_cells (upd c hfs (cells s1)) s1.

(* ------------------------------------------------------------------ swaps (1431-1791) *)

Definition swap_cell_indices (a b : nat) (s : mesh) : mesh :=
  if a =? b then s else
  let fix1 (x y : nat) (l : list (option nat)) (hf : nat) :=
      match nth hf l None with
      | Some c => if c =? x then upd hf (Some y) l else l
      | None => l
      end in
  let s1 := if fbu s then
              (* the halffaces pointing to a are found first, then b -> a, then those -> b (fix: swap_cell_indices ... flip back) *)
              let to_b := filter (fun hf => match nth hf (inc_cell s) None with Some c => c =? a | None => false end) (cell_at s a) in
              let l1 := fold_left (fix1 b a) (cell_at s b) (inc_cell s) in
              let l2 := fold_left (fun l hf => upd hf (Some b) l) to_b l1 in
              set_inc_cell l2 s
            else s in
  let s2 := set_cdel (swap_nth a b false (cdel s1)) (set_cells (swap_nth a b [] (cells s1)) s1) in
  swap_prop_elems KC a b s2.

Definition swap_face_indices (a b : nat) (s : mesh) : mesh :=
  if a =? b then s else
  let sw := swap_half a b in
  (* cells that contain a swapped face: cache-guided with processed set, or all cells *)
  let cells1 :=
    if fbu s then
      let step (acc : list (list nat) * list nat) (hfh : nat) :=
          let '(cs, done) := acc in
          match cell_of s hfh with
          | None => acc
          | Some ch => if memb ch done then acc
                       else (upd ch (map sw (nth ch cs [])) cs, ch :: done)
          end in
      fst (fold_left step [2 * a; 2 * a + 1; 2 * b; 2 * b + 1] (cells s, []))
    else map (map sw) (cells s) in
  let s1 := set_cells cells1 s in
  let inc1 :=
    if ebu s1 then
      let step (acc : list (list nat) * list nat) (heh : nat) :=
          let '(ll, done) := acc in
          if memb heh done then acc else (map_at heh sw ll, heh :: done) in
      let hes := halfface s1 (2 * a) ++ halfface s1 (2 * a + 1) ++ halfface s1 (2 * b) ++ halfface s1 (2 * b + 1) in
      fst (fold_left step hes (inc_hfs s1, []))
    else inc_hfs s1 in
  let s2 := set_inc_hfs inc1 s1 in
  let s3 := set_fdel (swap_nth a b false (fdel s2)) (set_faces (swap_nth a b [] (faces s2)) s2) in
  let s4 := if fbu s3 then
              set_inc_cell (swap_nth (2 * a + 1) (2 * b + 1) None (swap_nth (2 * a) (2 * b) None (inc_cell s3))) s3
            else s3 in
  swap_prop_elems KHF (2 * a + 1) (2 * b + 1)
    (swap_prop_elems KHF (2 * a) (2 * b) (swap_prop_elems KF a b s4)).

Definition swap_edge_indices (a b : nat) (s : mesh) : mesh :=
  if a =? b then s else
  let sw := swap_half a b in
  let faces1 :=
    if ebu s then
      let step (acc : list (list nat) * list nat) (hfh : nat) :=
          let '(fs, done) := acc in
          let f := hfh / 2 in
          if memb f done then acc else (upd f (map sw (nth f fs [])) fs, f :: done) in
      fst (fold_left step (hfs_at s (2 * a) ++ hfs_at s (2 * b)) (faces s, []))
    else map (map sw) (faces s) in
  let s1 := set_faces faces1 s in
  let out1 :=
    if vbu s1 then
      let step (acc : list (list nat) * list nat) (v : nat) :=
          let '(ll, done) := acc in
          if memb v done then acc else (map_at v sw ll, v :: done) in
      let '(a0, a1) := edge_at s1 a in
      let '(b0, b1) := edge_at s1 b in
      fst (fold_left step [a0; a1; b0; b1] (out_hes s1, []))
    else out_hes s1 in
  let s2 := set_out_hes out1 s1 in
  let s3 := set_edel (swap_nth a b false (edel s2)) (set_edges (swap_nth a b (0, 0) (edges s2)) s2) in
  let s4 := if ebu s3 then
              set_inc_hfs (swap_nth (2 * a + 1) (2 * b + 1) [] (swap_nth (2 * a) (2 * b) [] (inc_hfs s3))) s3
            else s3 in
  swap_prop_elems KHE (2 * a + 1) (2 * b + 1)
    (swap_prop_elems KHE (2 * a) (2 * b) (swap_prop_elems KE a b s4)).

Definition swap_vertex_indices (a b : nat) (s : mesh) : mesh :=
  if a =? b then s else
  let swe (e : nat * nat) := (swap_idx a b (fst e), swap_idx a b (snd e)) in
  let edges1 :=
    if vbu s then
      let step (acc : list (nat * nat) * list nat) (heh : nat) :=
          let '(es, done) := acc in
          let e := heh / 2 in
          if memb e done then acc else (upd e (swe (nth e es (0, 0))) es, e :: done) in
      fst (fold_left step (out_at s a ++ out_at s b) (edges s, []))
    else map swe (edges s) in
  let s1 := set_edges edges1 s in
  let s2 := set_vdel (swap_nth a b false (vdel s1)) s1 in
  let s3 := if vbu s2 then set_out_hes (swap_nth a b [] (out_hes s2)) s2 else s2 in
  swap_prop_elems KV a b s3.

(* ------------------------------------------------------------------ delete_*_core (936-1429) *)

Definition delete_cell_core (h0 : nat) (s0 : mesh) : mesh :=
  let do_swap := fast s0 && negb (deferred s0) in
  let h := if do_swap then nc s0 - 1 else h0 in
  let s := if do_swap then swap_cell_indices h0 h s0 else s0 in
  let s1 :=
    if fbu s then
      let hfs := cell_at s h in
      let l1 := fold_left (fun l hf => match nth hf l None with
                                       | Some c => if c =? h then upd hf None l else l
                                       | None => l end) hfs (inc_cell s) in
      let s' := set_inc_cell l1 s in
      let es := set_of_list (map (fun he => he / 2) (concat (map (halfface s') hfs))) in
      if ebu s' then reorder_edges es s' else s'
    else s in
  if deferred s1 then
    set_cdel (upd h true (cdel s1)) (set_counts (ndv s1) (nde s1) (ndf s1) (S (ndc s1)) s1)
  else
    let s2 := if negb (fast s1) && fbu s1 then
                set_inc_cell (map (option_map (cor1 h)) (inc_cell s1)) s1
              else s1 in
    let s3 := set_cdel (remove_nth h (cdel s2)) (set_cells (remove_nth h (cells s2)) s2) in
    cell_deleted h s3.

Definition delete_face_core (h0 : nat) (s0 : mesh) : mesh :=
  let do_swap := fast s0 && negb (deferred s0) in
  let h := if do_swap then nf s0 - 1 else h0 in
  let s := if do_swap then swap_face_indices h0 h s0 else s0 in
  let s1 :=
    if ebu s then
      fold_left (fun s' he =>
                   let s'' := set_inc_hfs (remove_at (opp he) (2 * h + 1) (remove_at he (2 * h) (inc_hfs s'))) s' in
                   if fbu s'' then reorder_incident_halffaces (he / 2) s'' else s'')
                (face_at s h) s
    else s in
  if deferred s1 then
    set_fdel (upd h true (fdel s1)) (set_counts (ndv s1) (nde s1) (S (ndf s1)) (ndc s1) s1)
  else
    let fixc (hfs : list nat) := map (cor2 (2 * h + 1)) (remove_val (2 * h + 1) (remove_val (2 * h) hfs)) in
    let s2 :=
      if negb (fast s1) then
        if fbu s1 then
          let upd_cells := set_of_list (flat_map (fun o => match o with Some c => [c] | None => [] end)
                                                 (skipn (2 * h) (inc_cell s1))) in
          set_cells (fold_left (fun cs c => upd c (fixc (nth c cs [])) cs) upd_cells (cells s1)) s1
        else
          set_cells (fold_left (fun cs c => upd c (fixc (nth c cs [])) cs) (live_cells s1) (cells s1)) s1
      else s1 in
    let s3 := if fbu s2 then set_inc_cell (remove_nth (2 * h) (remove_nth (2 * h + 1) (inc_cell s2))) s2 else s2 in
    let s4 := if negb (fast s3) && ebu s3 then
                set_inc_hfs (map (map (cor2 (2 * h + 1))) (inc_hfs s3)) s3
              else s3 in
    let s5 := set_fdel (remove_nth h (fdel s4)) (set_faces (remove_nth h (faces s4)) s4) in
    face_deleted h s5.

Definition delete_edge_core (h0 : nat) (s0 : mesh) : mesh :=
  let do_swap := fast s0 && negb (deferred s0) in
  let h := if do_swap then ne s0 - 1 else h0 in
  let s := if do_swap then swap_edge_indices h0 h s0 else s0 in
  let s1 :=
    if vbu s then
      let '(v0, v1) := edge_at s h in
      set_out_hes (remove_at v1 (2 * h + 1) (remove_at v0 (2 * h) (out_hes s))) s
    else s in
  if deferred s1 then
    set_edel (upd h true (edel s1)) (set_counts (ndv s1) (S (nde s1)) (ndf s1) (ndc s1) s1)
  else
    let fixf (hes : list nat) := map (cor2 (2 * h + 1)) (remove_val (2 * h + 1) (remove_val (2 * h) hes)) in
    let s2 :=
      if negb (fast s1) then
        if ebu s1 then
          let upd_faces := set_of_list (map (fun hf => hf / 2) (concat (skipn (2 * h) (inc_hfs s1)))) in
          set_faces (fold_left (fun fs f => upd f (fixf (nth f fs [])) fs) upd_faces (faces s1)) s1
        else
          set_faces (fold_left (fun fs f => upd f (fixf (nth f fs [])) fs) (live_faces s1) (faces s1)) s1
      else s1 in
    let s3 := if ebu s2 then set_inc_hfs (remove_nth (2 * h) (remove_nth (2 * h + 1) (inc_hfs s2))) s2 else s2 in
    let s4 := if negb (fast s3) && vbu s3 then
                set_out_hes (map (map (cor2 (2 * h + 1))) (out_hes s3)) s3
              else s3 in
    let s5 := set_edel (remove_nth h (edel s4)) (set_edges (remove_nth h (edges s4)) s4) in
    edge_deleted h s5.

Definition delete_vertex_core (h0 : nat) (s0 : mesh) : mesh :=
  let do_swap := fast s0 && negb (deferred s0) in
  let h := if do_swap then nv s0 - 1 else h0 in
  let s := if do_swap then swap_vertex_indices h0 h s0 else s0 in
  if deferred s then
    set_vdel (upd h true (vdel s)) (set_counts (S (ndv s)) (nde s) (ndf s) (ndc s) s)
  else
    let s1 :=
      if vbu s then
        (* 965-978: for i in [h, nv): for every outgoing halfedge, endpoints equal to i become i-1 *)
        let fixi (i : nat) (es : list (nat * nat)) (he : nat) :=
            let e := he / 2 in
            let '(x, y) := nth e es (0, 0) in
            upd e ((if x =? i then i - 1 else x), (if y =? i then i - 1 else y)) es in
        set_edges (fold_left (fun es i => fold_left (fixi i) (out_at s i) es)
                             (seq h (nv s - h)) (edges s)) s
      else
        (* 983-993: every not-deleted edge *)
        set_edges (fold_left (fun es e => let '(x, y) := nth e es (0, 0) in
                                          upd e (cor1 h x, cor1 h y) es)
                             (live_edges s) (edges s)) s in
    let s2 := if vbu s1 then set_out_hes (remove_nth h (out_hes s1)) s1 else s1 in
    let s3 := set_vdel (remove_nth h (vdel s2)) (set_nv (nv s2 - 1) s2) in
    vertex_deleted h s3.

(* ------------------------------------------------------------------ closure gathering (793-915) *)

Definition incident_edges_of_vertex (s : mesh) (v : nat) : list nat :=
  if vbu s then set_of_list (map (fun h => h / 2) (out_at s v))
  else filter (fun e => let '(x, y) := edge_at s e in (x =? v) || (y =? v)) (live_edges s).

Definition incident_faces_of_edges (s : mesh) (es : list nat) : list nat :=
  if ebu s then set_of_list (map (fun hf => hf / 2) (concat (map (fun e => hfs_at s (2 * e)) es)))
  else filter (fun f => existsb (fun he => memb (he / 2) es) (face_at s f)) (live_faces s).

Definition incident_cells_of_faces (s : mesh) (fs : list nat) : list nat :=
  if fbu s then
    set_of_list (flat_map (fun f => (match cell_of s (2 * f) with Some c => [c] | None => [] end)
                                 ++ (match cell_of s (2 * f + 1) with Some c => [c] | None => [] end)) fs)
  else filter (fun c => existsb (fun hf => memb (hf / 2) fs) (cell_at s c)) (live_cells s).

Definition del_desc (core : nat -> mesh -> mesh) (l : list nat) (s : mesh) : mesh :=
  fold_left (fun s x => core x s) (rev l) s.

Definition delete_cell (c : nat) (s : mesh) : mesh := delete_cell_core c s.

Definition delete_face (f : nat) (s : mesh) : mesh :=
  let cs := incident_cells_of_faces s [f] in
  delete_face_core f (del_desc delete_cell_core cs s).

Definition delete_edge (e : nat) (s : mesh) : mesh :=
  let fs := incident_faces_of_edges s [e] in
  let cs := incident_cells_of_faces s fs in
  delete_edge_core e (del_desc delete_face_core fs (del_desc delete_cell_core cs s)).

Definition delete_vertex (v : nat) (s : mesh) : mesh :=
  let es := incident_edges_of_vertex s v in
  let fs := incident_faces_of_edges s es in
  let cs := incident_cells_of_faces s fs in
  delete_vertex_core v
    (del_desc delete_edge_core es (del_desc delete_face_core fs (del_desc delete_cell_core cs s))).

(* ------------------------------------------------------------------ collect_garbage (743-788) *)

Definition gc_pass (n : nat) (is_del : mesh -> nat -> bool) (clear_flag : nat -> mesh -> mesh)
           (core : nat -> mesh -> mesh) (s : mesh) : mesh :=
  fold_left (fun s i => if is_del s i then core i (clear_flag i s) else s) (rev (seq 0 n)) s.

Definition collect_garbage (s : mesh) : mesh :=
  if negb (deferred s) || negb (needs_gc s) then s else
  let s0 := set_flags (vbu s) (ebu s) (fbu s) false (fast s) s in
  let s1 := gc_pass (nc s0) c_deleted (fun i s => set_cdel (upd i false (cdel s)) s) delete_cell_core s0 in
  let s1 := set_counts (ndv s1) (nde s1) (ndf s1) 0 s1 in
  let s2 := gc_pass (nf s1) f_deleted (fun i s => set_fdel (upd i false (fdel s)) s) delete_face_core s1 in
  let s2 := set_counts (ndv s2) (nde s2) 0 (ndc s2) s2 in
  let s3 := gc_pass (ne s2) e_deleted (fun i s => set_edel (upd i false (edel s)) s) delete_edge_core s2 in
  let s3 := set_counts (ndv s3) 0 (ndf s3) (ndc s3) s3 in
  let s4 := gc_pass (nv s3) v_deleted (fun i s => set_vdel (upd i false (vdel s)) s) delete_vertex_core s3 in
  let s4 := set_counts 0 (nde s4) (ndf s4) (ndc s4) s4 in
  set_flags (vbu s4) (ebu s4) (fbu s4) true (fast s4) s4.

Definition enable_deferred (b : bool) (s : mesh) : mesh :=
  let s1 := if deferred s && negb b then collect_garbage s else s in
  set_flags (vbu s1) (ebu s1) (fbu s1) b (fast s1) s1.

Definition enable_fast (b : bool) (s : mesh) : mesh :=
  set_flags (vbu s) (ebu s) (fbu s) (deferred s) b s.

(* ------------------------------------------------------------------ bottom-up toggles (900-967, 2292-2376) *)

Definition compute_vbu (s : mesh) : list (list nat) :=
  fold_left (fun ll e => let '(a, b) := edge_at s e in push_at b (2 * e + 1) (push_at a (2 * e) ll))
            (live_edges s) (repeat [] (nv s)).

Definition compute_ebu (s : mesh) : list (list nat) :=
  fold_left (fun ll f => add_face_inc f (face_at s f) ll) (live_faces s) (repeat [] (2 * ne s)).

Definition compute_fbu (s : mesh) : list (option nat) :=
  fold_left (fun l c => fold_left (fun l hf => match nth hf l None with
                                               | None => upd hf (Some c) l
                                               | Some _ => l end) (cell_at s c) l)
            (live_cells s) (repeat None (2 * nf s)).

Definition enable_vbu (b : bool) (s : mesh) : mesh :=
  let s1 := if b && negb (vbu s) then set_out_hes (compute_vbu s) s else s in
  let s2 := if negb b then set_out_hes [] s1 else s1 in
  set_flags b (ebu s2) (fbu s2) (deferred s2) (fast s2) s2.

Definition enable_ebu (b : bool) (s : mesh) : mesh :=
  let s1 := if b && negb (ebu s) then
              let s' := set_inc_hfs (compute_ebu s) s in
              if fbu s' then reorder_edges (live_edges s') s' else s'
            else s in
  let s2 := if negb b then set_inc_hfs [] s1 else s1 in
  set_flags (vbu s2) b (fbu s2) (deferred s2) (fast s2) s2.

Definition enable_fbu (b : bool) (s : mesh) : mesh :=
  let upd_order := b && negb (fbu s) in
  let s1 := if upd_order then set_inc_cell (compute_fbu s) s else s in
  let s2 := if negb b then set_inc_cell [] s1 else s1 in
  let s3 := set_flags (vbu s2) (ebu s2) b (deferred s2) (fast s2) s2 in
  if upd_order && ebu s3 then reorder_edges (live_edges s3) s3 else s3.

(* ------------------------------------------------------------------ clear (TopologyKernel.hh:865-892) *)

Definition clear_mesh (clear_props : bool) (s : mesh) : mesh :=
  let s0 := {| nv := 0; edges := []; faces := []; cells := [];
               vdel := []; edel := []; fdel := []; cdel := [];
               ndv := 0; nde := 0; ndf := 0; ndc := 0;
               vbu := vbu s; ebu := ebu s; fbu := fbu s; deferred := deferred s; fast := fast s;
               out_hes := []; inc_hfs := []; inc_cell := [];
               pv := pv s; pe := pe s; phe := phe s; pf := pf s; phf := phf s; pc := pc s; pm := pm s |} in
  (* clear_all_props() only anonymizes the storages; still-held ones stay tracked, and after the
     "fix: clear() resizes ..." commit they are resized to 0 in both cases *)
  resize_cprops 0 (resize_fprops 0 (resize_eprops 0 (resize_vprops 0 s0))).

(* ------------------------------------------------------------------ the step function *)

Inductive op :=
| AddVertex
| AddVertices (n : nat)
| AddEdge (a b : nat) (dup : bool)
| AddFace (hes : list nat) (check : bool)
| AddFaceV (vs : list nat)
| AddCell (hfs : list nat) (check : bool)
| SetEdge (e a b : nat)
| SetFace (f : nat) (hes : list nat)
| SetCell (c : nat) (hfs : list nat)
| DelVertex (v : nat) | DelEdge (e : nat) | DelFace (f : nat) | DelCell (c : nat)
| SwapV (a b : nat) | SwapE (a b : nat) | SwapF (a b : nat) | SwapC (a b : nat)
| CollectGarbage
| Clear (clear_props : bool)
| EnableVBU (b : bool) | EnableEBU (b : bool) | EnableFBU (b : bool)
| EnableDeferred (b : bool) | EnableFast (b : bool)
| PropCreate (k : kind) (def : Z)
| PropSet (k : kind) (p i : nat) (v : Z)
| PropDrop (k : kind) (p : nat).

Inductive outcome :=
| Ok (s : mesh) (r : option nat)
| Rejected.

(* documented preconditions ("valid arguments"); a call outside them is skipped by both sides *)
Definition valid_op (s : mesh) (o : op) : bool :=
  match o with
  | AddVertex | AddVertices _ => true
  | AddEdge a b _ => live_v s a && live_v s b
  | AddFace hes check => (check || negb (match hes with [] => true | _ => false end)) && all_b (live_he s) hes
  | AddFaceV vs => negb (match vs with [] => true | _ => false end) && all_b (live_v s) vs
  | AddCell hfs _ => all_b (live_hf s) hfs
  | SetEdge e a b => live_e s e && live_v s a && live_v s b
  | SetFace f hes => live_f s f && negb (match hes with [] => true | _ => false end) && all_b (live_he s) hes
  | SetCell c hfs => live_c s c && all_b (live_hf s) hfs
  | DelVertex v => live_v s v
  | DelEdge e => live_e s e
  | DelFace f => live_f s f
  | DelCell c => live_c s c
  | SwapV a b => (a <? nv s) && (b <? nv s)
  | SwapE a b => (a <? ne s) && (b <? ne s)
  | SwapF a b => (a <? nf s) && (b <? nf s)
  | SwapC a b => (a <? nc s) && (b <? nc s)
  | CollectGarbage | Clear _ => true
  | EnableVBU _ | EnableEBU _ | EnableFBU _ | EnableDeferred _ | EnableFast _ => true
  | PropCreate _ _ => true
  | PropSet k p i _ => match nth_error (props k s) p with
                       | Some pa => i <? length (pdata pa)
                       | None => false end
  | PropDrop k p => p <? length (props k s)
  end.

Definition exec (s : mesh) (o : op) : mesh * option nat :=
  match o with
  | AddVertex => let '(s', v) := add_vertex s in (s', Some v)
  | AddVertices n => (add_n_vertices n s, None)
  | AddEdge a b dup => let '(s', e) := add_edge s a b dup in (s', Some e)
  | AddFace hes check => add_face s hes check
  | AddFaceV vs => add_face_v s vs
  | AddCell hfs check => add_cell s hfs check
  | SetEdge e a b => (set_edge s e a b, None)
  | SetFace f hes => (set_face s f hes, None)
  | SetCell c hfs => (set_cell s c hfs, None)
  | DelVertex v => (delete_vertex v s, None)
  | DelEdge e => (delete_edge e s, None)
  | DelFace f => (delete_face f s, None)
  | DelCell c => (delete_cell c s, None)
  | SwapV a b => (swap_vertex_indices a b s, None)
  | SwapE a b => (swap_edge_indices a b s, None)
  | SwapF a b => (swap_face_indices a b s, None)
  | SwapC a b => (swap_cell_indices a b s, None)
  | CollectGarbage => (collect_garbage s, None)
  | Clear cp => (clear_mesh cp s, None)
  | EnableVBU b => (enable_vbu b s, None)
  | EnableEBU b => (enable_ebu b s, None)
  | EnableFBU b => (enable_fbu b s, None)
  | EnableDeferred b => (enable_deferred b s, None)
  | EnableFast b => (enable_fast b s, None)
  | PropCreate k d => (set_props k (props k s ++ [{| pdef := d; pdata := repeat d (count k s) |}]) s, None)
  | PropSet k p i v => (set_props k (upd p (pset i v (nth p (props k s) {| pdef := 0%Z; pdata := [] |})) (props k s)) s, None)
  | PropDrop k p => (set_props k (remove_nth p (props k s)) s, None)
  end.

Definition step (s : mesh) (o : op) : outcome :=
  if valid_op s o then let '(s', r) := exec s o in Ok s' r else Rejected.

(* run a history; rejected calls are skipped (both sides of the correspondence do the same) *)
Definition run_from (s : mesh) (ops : list op) : mesh :=
  fold_left (fun s o => match step s o with Ok s' _ => s' | Rejected => s end) ops s.
Definition run (ops : list op) : mesh := run_from empty_mesh ops.
