(* Kernel/State.v -- the state of OpenVolumeMesh::TopologyKernel (+ the property arrays that
   ResourceManager keeps in step with it), mirroring TopologyKernel.hh:576,999-1016,1186-1201.
   Handles are nat (a stored handle is never negative); "-1" is option None. *)
From OVM Require Export Base.ListX.
Local Open Scope nat_scope.

Inductive kind := KV | KE | KHE | KF | KHF | KC | KM.

Record parray := { pdef : Z; pdata : list Z }.

Record mesh := {
  nv : nat;
  edges : list (nat * nat);
  faces : list (list nat);
  cells : list (list nat);
  vdel : list bool; edel : list bool; fdel : list bool; cdel : list bool;
  ndv : nat; nde : nat; ndf : nat; ndc : nat;
  vbu : bool; ebu : bool; fbu : bool; deferred : bool; fast : bool;
  out_hes : list (list nat);           (* outgoing_hes_per_vertex_ *)
  inc_hfs : list (list nat);           (* incident_hfs_per_he_ *)
  inc_cell : list (option nat);        (* incident_cell_per_hf_ *)
  pv : list parray; pe : list parray; phe : list parray;
  pf : list parray; phf : list parray; pc : list parray; pm : list parray
}.

Definition empty_mesh : mesh := {|
  nv := 0; edges := []; faces := []; cells := [];
  vdel := []; edel := []; fdel := []; cdel := [];
  ndv := 0; nde := 0; ndf := 0; ndc := 0;
  vbu := true; ebu := true; fbu := true; deferred := true; fast := true;
  out_hes := []; inc_hfs := []; inc_cell := [];
  pv := []; pe := []; phe := []; pf := []; phf := []; pc := []; pm := [] |}.

(* record update helpers (plain functions: extraction-friendly, no notation magic) *)
Definition set_nv x s := {| nv := x; edges := edges s; faces := faces s; cells := cells s;
  vdel := vdel s; edel := edel s; fdel := fdel s; cdel := cdel s;
  ndv := ndv s; nde := nde s; ndf := ndf s; ndc := ndc s;
  vbu := vbu s; ebu := ebu s; fbu := fbu s; deferred := deferred s; fast := fast s;
  out_hes := out_hes s; inc_hfs := inc_hfs s; inc_cell := inc_cell s;
  pv := pv s; pe := pe s; phe := phe s; pf := pf s; phf := phf s; pc := pc s; pm := pm s |}.
Definition set_edges x s := {| nv := nv s; edges := x; faces := faces s; cells := cells s;
  vdel := vdel s; edel := edel s; fdel := fdel s; cdel := cdel s;
  ndv := ndv s; nde := nde s; ndf := ndf s; ndc := ndc s;
  vbu := vbu s; ebu := ebu s; fbu := fbu s; deferred := deferred s; fast := fast s;
  out_hes := out_hes s; inc_hfs := inc_hfs s; inc_cell := inc_cell s;
  pv := pv s; pe := pe s; phe := phe s; pf := pf s; phf := phf s; pc := pc s; pm := pm s |}.
Definition set_faces x s := {| nv := nv s; edges := edges s; faces := x; cells := cells s;
  vdel := vdel s; edel := edel s; fdel := fdel s; cdel := cdel s;
  ndv := ndv s; nde := nde s; ndf := ndf s; ndc := ndc s;
  vbu := vbu s; ebu := ebu s; fbu := fbu s; deferred := deferred s; fast := fast s;
  out_hes := out_hes s; inc_hfs := inc_hfs s; inc_cell := inc_cell s;
  pv := pv s; pe := pe s; phe := phe s; pf := pf s; phf := phf s; pc := pc s; pm := pm s |}.
Definition set_cells x s := {| nv := nv s; edges := edges s; faces := faces s; cells := x;
  vdel := vdel s; edel := edel s; fdel := fdel s; cdel := cdel s;
  ndv := ndv s; nde := nde s; ndf := ndf s; ndc := ndc s;
  vbu := vbu s; ebu := ebu s; fbu := fbu s; deferred := deferred s; fast := fast s;
  out_hes := out_hes s; inc_hfs := inc_hfs s; inc_cell := inc_cell s;
  pv := pv s; pe := pe s; phe := phe s; pf := pf s; phf := phf s; pc := pc s; pm := pm s |}.
Definition set_vdel x s := {| nv := nv s; edges := edges s; faces := faces s; cells := cells s;
  vdel := x; edel := edel s; fdel := fdel s; cdel := cdel s;
  ndv := ndv s; nde := nde s; ndf := ndf s; ndc := ndc s;
  vbu := vbu s; ebu := ebu s; fbu := fbu s; deferred := deferred s; fast := fast s;
  out_hes := out_hes s; inc_hfs := inc_hfs s; inc_cell := inc_cell s;
  pv := pv s; pe := pe s; phe := phe s; pf := pf s; phf := phf s; pc := pc s; pm := pm s |}.
Definition set_edel x s := {| nv := nv s; edges := edges s; faces := faces s; cells := cells s;
  vdel := vdel s; edel := x; fdel := fdel s; cdel := cdel s;
  ndv := ndv s; nde := nde s; ndf := ndf s; ndc := ndc s;
  vbu := vbu s; ebu := ebu s; fbu := fbu s; deferred := deferred s; fast := fast s;
  out_hes := out_hes s; inc_hfs := inc_hfs s; inc_cell := inc_cell s;
  pv := pv s; pe := pe s; phe := phe s; pf := pf s; phf := phf s; pc := pc s; pm := pm s |}.
Definition set_fdel x s := {| nv := nv s; edges := edges s; faces := faces s; cells := cells s;
  vdel := vdel s; edel := edel s; fdel := x; cdel := cdel s;
  ndv := ndv s; nde := nde s; ndf := ndf s; ndc := ndc s;
  vbu := vbu s; ebu := ebu s; fbu := fbu s; deferred := deferred s; fast := fast s;
  out_hes := out_hes s; inc_hfs := inc_hfs s; inc_cell := inc_cell s;
  pv := pv s; pe := pe s; phe := phe s; pf := pf s; phf := phf s; pc := pc s; pm := pm s |}.
Definition set_cdel x s := {| nv := nv s; edges := edges s; faces := faces s; cells := cells s;
  vdel := vdel s; edel := edel s; fdel := fdel s; cdel := x;
  ndv := ndv s; nde := nde s; ndf := ndf s; ndc := ndc s;
  vbu := vbu s; ebu := ebu s; fbu := fbu s; deferred := deferred s; fast := fast s;
  out_hes := out_hes s; inc_hfs := inc_hfs s; inc_cell := inc_cell s;
  pv := pv s; pe := pe s; phe := phe s; pf := pf s; phf := phf s; pc := pc s; pm := pm s |}.
Definition set_counts a b c d s := {| nv := nv s; edges := edges s; faces := faces s; cells := cells s;
  vdel := vdel s; edel := edel s; fdel := fdel s; cdel := cdel s;
  ndv := a; nde := b; ndf := c; ndc := d;
  vbu := vbu s; ebu := ebu s; fbu := fbu s; deferred := deferred s; fast := fast s;
  out_hes := out_hes s; inc_hfs := inc_hfs s; inc_cell := inc_cell s;
  pv := pv s; pe := pe s; phe := phe s; pf := pf s; phf := phf s; pc := pc s; pm := pm s |}.
Definition set_flags a b c d e s := {| nv := nv s; edges := edges s; faces := faces s; cells := cells s;
  vdel := vdel s; edel := edel s; fdel := fdel s; cdel := cdel s;
  ndv := ndv s; nde := nde s; ndf := ndf s; ndc := ndc s;
  vbu := a; ebu := b; fbu := c; deferred := d; fast := e;
  out_hes := out_hes s; inc_hfs := inc_hfs s; inc_cell := inc_cell s;
  pv := pv s; pe := pe s; phe := phe s; pf := pf s; phf := phf s; pc := pc s; pm := pm s |}.
Definition set_out_hes x s := {| nv := nv s; edges := edges s; faces := faces s; cells := cells s;
  vdel := vdel s; edel := edel s; fdel := fdel s; cdel := cdel s;
  ndv := ndv s; nde := nde s; ndf := ndf s; ndc := ndc s;
  vbu := vbu s; ebu := ebu s; fbu := fbu s; deferred := deferred s; fast := fast s;
  out_hes := x; inc_hfs := inc_hfs s; inc_cell := inc_cell s;
  pv := pv s; pe := pe s; phe := phe s; pf := pf s; phf := phf s; pc := pc s; pm := pm s |}.
Definition set_inc_hfs x s := {| nv := nv s; edges := edges s; faces := faces s; cells := cells s;
  vdel := vdel s; edel := edel s; fdel := fdel s; cdel := cdel s;
  ndv := ndv s; nde := nde s; ndf := ndf s; ndc := ndc s;
  vbu := vbu s; ebu := ebu s; fbu := fbu s; deferred := deferred s; fast := fast s;
  out_hes := out_hes s; inc_hfs := x; inc_cell := inc_cell s;
  pv := pv s; pe := pe s; phe := phe s; pf := pf s; phf := phf s; pc := pc s; pm := pm s |}.
Definition set_inc_cell x s := {| nv := nv s; edges := edges s; faces := faces s; cells := cells s;
  vdel := vdel s; edel := edel s; fdel := fdel s; cdel := cdel s;
  ndv := ndv s; nde := nde s; ndf := ndf s; ndc := ndc s;
  vbu := vbu s; ebu := ebu s; fbu := fbu s; deferred := deferred s; fast := fast s;
  out_hes := out_hes s; inc_hfs := inc_hfs s; inc_cell := x;
  pv := pv s; pe := pe s; phe := phe s; pf := pf s; phf := phf s; pc := pc s; pm := pm s |}.

Definition props (k : kind) (s : mesh) : list parray :=
  match k with KV => pv s | KE => pe s | KHE => phe s | KF => pf s | KHF => phf s | KC => pc s | KM => pm s end.

Definition set_props (k : kind) (x : list parray) (s : mesh) : mesh :=
  {| nv := nv s; edges := edges s; faces := faces s; cells := cells s;
     vdel := vdel s; edel := edel s; fdel := fdel s; cdel := cdel s;
     ndv := ndv s; nde := nde s; ndf := ndf s; ndc := ndc s;
     vbu := vbu s; ebu := ebu s; fbu := fbu s; deferred := deferred s; fast := fast s;
     out_hes := out_hes s; inc_hfs := inc_hfs s; inc_cell := inc_cell s;
     pv := match k with KV => x | _ => pv s end;
     pe := match k with KE => x | _ => pe s end;
     phe := match k with KHE => x | _ => phe s end;
     pf := match k with KF => x | _ => pf s end;
     phf := match k with KHF => x | _ => phf s end;
     pc := match k with KC => x | _ => pc s end;
     pm := match k with KM => x | _ => pm s end |}.

(* ---------------------------------------------------------------- basic observers *)

Definition ne (s : mesh) : nat := length (edges s).
Definition nf (s : mesh) : nat := length (faces s).
Definition nc (s : mesh) : nat := length (cells s).

Definition count (k : kind) (s : mesh) : nat :=
  match k with
  | KV => nv s | KE => ne s | KHE => 2 * ne s | KF => nf s | KHF => 2 * nf s | KC => nc s | KM => 1
  end.

(* SubHandleT::opp : idx ^ 1 (Base/HandleBridge.v ties this to the regenerated leaf) *)
Definition opp (h : nat) : nat := if Nat.even h then S h else pred h.

Definition edge_at (s : mesh) (e : nat) : nat * nat := nth e (edges s) (0, 0).
Definition face_at (s : mesh) (f : nat) : list nat := nth f (faces s) [].
Definition cell_at (s : mesh) (c : nat) : list nat := nth c (cells s) [].

(* halfedge(h): the stored edge for even handles, the mirrored one for odd handles *)
Definition he_from (s : mesh) (h : nat) : nat :=
  let '(a, b) := edge_at s (h / 2) in if Nat.even h then a else b.
Definition he_to (s : mesh) (h : nat) : nat :=
  let '(a, b) := edge_at s (h / 2) in if Nat.even h then b else a.

(* halfface(hf).halfedges(): stored list for even handles, reversed list of opposites for odd *)
Definition halfface (s : mesh) (hf : nat) : list nat :=
  let f := face_at s (hf / 2) in if Nat.even hf then f else rev (map opp f).

Definition v_deleted (s : mesh) (v : nat) : bool := nth v (vdel s) false.
Definition e_deleted (s : mesh) (e : nat) : bool := nth e (edel s) false.
Definition f_deleted (s : mesh) (f : nat) : bool := nth f (fdel s) false.
Definition c_deleted (s : mesh) (c : nat) : bool := nth c (cdel s) false.

Definition live_v s v := (v <? nv s) && negb (v_deleted s v).
Definition live_e s e := (e <? ne s) && negb (e_deleted s e).
Definition live_f s f := (f <? nf s) && negb (f_deleted s f).
Definition live_c s c := (c <? nc s) && negb (c_deleted s c).
Definition live_he s h := live_e s (h / 2).
Definition live_hf s h := live_f s (h / 2).

Definition out_at (s : mesh) (v : nat) : list nat := nth v (out_hes s) [].
Definition hfs_at (s : mesh) (h : nat) : list nat := nth h (inc_hfs s) [].
Definition cell_of (s : mesh) (hf : nat) : option nat := nth hf (inc_cell s) None.

Definition needs_gc (s : mesh) : bool :=
  (0 <? ndv s) || (0 <? nde s) || (0 <? ndf s) || (0 <? ndc s).

Definition n_logical (k : kind) (s : mesh) : nat :=
  match k with
  | KV => nv s - ndv s | KE => ne s - nde s | KHE => 2 * (ne s - nde s)
  | KF => nf s - ndf s | KHF => 2 * (nf s - ndf s) | KC => nc s - ndc s | KM => 1
  end.
