(* Kernel/SwapEffects.v -- what the four swap_*_indices do to every component of the state (C17, C03). *)
From Coq Require Import ZArith Lia Bool Arith List ZifyNat ZifyBool.
From OVM Require Import Base.ListX Base.ListLemmas Kernel.State Kernel.Ops.
Import ListNotations.
Ltac Zify.zify_post_hook ::= Z.div_mod_to_equations.
Local Open Scope nat_scope.

Ltac rs := cbn [set_nv set_edges set_faces set_cells set_vdel set_edel set_fdel set_cdel set_counts set_flags
                set_out_hes set_inc_hfs set_inc_cell set_props swap_prop_elems delete_prop_elem resize_props
                resize_eprops resize_fprops resize_cprops resize_vprops
                nv edges faces cells vdel edel fdel cdel ndv nde ndf ndc vbu ebu fbu deferred fast
                out_hes inc_hfs inc_cell pv pe phe pf phf pc pm props fst snd].

(* ---------------------------------------------------------------- self swap *)
Lemma swap_cell_self a s : swap_cell_indices a a s = s.
Proof. unfold swap_cell_indices. rewrite Nat.eqb_refl. reflexivity. Qed.
Lemma swap_face_self a s : swap_face_indices a a s = s.
Proof. unfold swap_face_indices. rewrite Nat.eqb_refl. reflexivity. Qed.
Lemma swap_edge_self a s : swap_edge_indices a a s = s.
Proof. unfold swap_edge_indices. rewrite Nat.eqb_refl. reflexivity. Qed.
Lemma swap_vertex_self a s : swap_vertex_indices a a s = s.
Proof. unfold swap_vertex_indices. rewrite Nat.eqb_refl. reflexivity. Qed.

(* ---------------------------------------------------------------- effect on flags, properties and the own definition array: ALL modes *)

Definition half_swap_props (a b : nat) (l : list parray) : list parray :=
  map (pswap (2 * a + 1) (2 * b + 1)) (map (pswap (2 * a) (2 * b)) l).

Lemma swap_cell_effect a b s : a <> b -> let s' := swap_cell_indices a b s in
  cells s' = swap_nth a b [] (cells s) /\ cdel s' = swap_nth a b false (cdel s) /\ pc s' = map (pswap a b) (pc s) /\
  nv s' = nv s /\ edges s' = edges s /\ faces s' = faces s /\ vdel s' = vdel s /\ edel s' = edel s /\ fdel s' = fdel s /\
  out_hes s' = out_hes s /\ inc_hfs s' = inc_hfs s /\
  pv s' = pv s /\ pe s' = pe s /\ phe s' = phe s /\ pf s' = pf s /\ phf s' = phf s /\ pm s' = pm s /\
  (ndv s' = ndv s /\ nde s' = nde s /\ ndf s' = ndf s /\ ndc s' = ndc s) /\
  (vbu s' = vbu s /\ ebu s' = ebu s /\ fbu s' = fbu s /\ deferred s' = deferred s /\ fast s' = fast s) /\
  (fbu s = false -> inc_cell s' = inc_cell s).
Proof.
  intros H. unfold swap_cell_indices. rewrite (proj2 (Nat.eqb_neq a b) H).
  destruct (fbu s) eqn:F; rs; repeat split; auto; discriminate.
Qed.

Lemma swap_face_effect a b s : a <> b -> let s' := swap_face_indices a b s in
  faces s' = swap_nth a b [] (faces s) /\ fdel s' = swap_nth a b false (fdel s) /\
  pf s' = map (pswap a b) (pf s) /\ phf s' = half_swap_props a b (phf s) /\
  nv s' = nv s /\ edges s' = edges s /\ vdel s' = vdel s /\ edel s' = edel s /\ cdel s' = cdel s /\
  out_hes s' = out_hes s /\
  pv s' = pv s /\ pe s' = pe s /\ phe s' = phe s /\ pc s' = pc s /\ pm s' = pm s /\
  (ndv s' = ndv s /\ nde s' = nde s /\ ndf s' = ndf s /\ ndc s' = ndc s) /\
  (vbu s' = vbu s /\ ebu s' = ebu s /\ fbu s' = fbu s /\ deferred s' = deferred s /\ fast s' = fast s) /\
  (fbu s = false -> cells s' = map (map (swap_half a b)) (cells s) /\ inc_cell s' = inc_cell s) /\
  (ebu s = false -> inc_hfs s' = inc_hfs s).
Proof.
  intros H. unfold swap_face_indices. rewrite (proj2 (Nat.eqb_neq a b) H).
  destruct (fbu s) eqn:F; destruct (ebu s) eqn:E; rs; rewrite ?F, ?E; rs; unfold half_swap_props;
    repeat split; auto; try discriminate.
Qed.

Lemma swap_edge_effect a b s : a <> b -> let s' := swap_edge_indices a b s in
  edges s' = swap_nth a b (0, 0) (edges s) /\ edel s' = swap_nth a b false (edel s) /\
  pe s' = map (pswap a b) (pe s) /\ phe s' = half_swap_props a b (phe s) /\
  nv s' = nv s /\ cells s' = cells s /\ vdel s' = vdel s /\ fdel s' = fdel s /\ cdel s' = cdel s /\
  inc_cell s' = inc_cell s /\
  pv s' = pv s /\ pf s' = pf s /\ phf s' = phf s /\ pc s' = pc s /\ pm s' = pm s /\
  (ndv s' = ndv s /\ nde s' = nde s /\ ndf s' = ndf s /\ ndc s' = ndc s) /\
  (vbu s' = vbu s /\ ebu s' = ebu s /\ fbu s' = fbu s /\ deferred s' = deferred s /\ fast s' = fast s) /\
  (ebu s = false -> faces s' = map (map (swap_half a b)) (faces s) /\ inc_hfs s' = inc_hfs s) /\
  (vbu s = false -> out_hes s' = out_hes s).
Proof.
  intros H. unfold swap_edge_indices. rewrite (proj2 (Nat.eqb_neq a b) H).
  destruct (ebu s) eqn:E; destruct (vbu s) eqn:V; rs; rewrite ?E, ?V; rs; unfold half_swap_props;
    repeat match goal with |- context [let '(x, y) := ?p in _] => destruct p end; rs;
    repeat split; auto; try discriminate.
Qed.

Definition swap_ends (a b : nat) (e : nat * nat) : nat * nat := (swap_idx a b (fst e), swap_idx a b (snd e)).

Lemma swap_vertex_effect a b s : a <> b -> let s' := swap_vertex_indices a b s in
  nv s' = nv s /\ vdel s' = swap_nth a b false (vdel s) /\ pv s' = map (pswap a b) (pv s) /\
  faces s' = faces s /\ cells s' = cells s /\ edel s' = edel s /\ fdel s' = fdel s /\ cdel s' = cdel s /\
  inc_hfs s' = inc_hfs s /\ inc_cell s' = inc_cell s /\
  pe s' = pe s /\ phe s' = phe s /\ pf s' = pf s /\ phf s' = phf s /\ pc s' = pc s /\ pm s' = pm s /\
  (ndv s' = ndv s /\ nde s' = nde s /\ ndf s' = ndf s /\ ndc s' = ndc s) /\
  (vbu s' = vbu s /\ ebu s' = ebu s /\ fbu s' = fbu s /\ deferred s' = deferred s /\ fast s' = fast s) /\
  (vbu s = false -> edges s' = map (swap_ends a b) (edges s) /\ out_hes s' = out_hes s).
Proof.
  intros H. unfold swap_vertex_indices. rewrite (proj2 (Nat.eqb_neq a b) H).
  destruct (vbu s) eqn:V; rs; rewrite ?V; rs; repeat split; auto; try discriminate.
Qed.

(* ---------------------------------------------------------------- the relabelings are involutions *)
Lemma swap_idx_involutive a b x : swap_idx a b (swap_idx a b x) = x.
Proof.
  unfold swap_idx. destruct (Nat.eqb_spec x a) as [->|N1].
  - destruct (Nat.eqb_spec b a) as [->|]; [reflexivity|]. rewrite Nat.eqb_refl. reflexivity.
  - destruct (Nat.eqb_spec x b) as [->|N2].
    + rewrite Nat.eqb_refl. reflexivity.
    + destruct (Nat.eqb_spec x a); [lia|]. destruct (Nat.eqb_spec x b); [lia|]. reflexivity.
Qed.

Lemma swap_half_involutive a b x : swap_half a b (swap_half a b x) = x.
Proof.
  unfold swap_half.
  destruct (Nat.eqb_spec (x / 2) a) as [E1|N1].
  - replace ((2 * b + x mod 2) / 2) with b by lia. replace ((2 * b + x mod 2) mod 2) with (x mod 2) by lia.
    destruct (Nat.eqb_spec b a) as [->|]; [lia|]. rewrite Nat.eqb_refl. lia.
  - destruct (Nat.eqb_spec (x / 2) b) as [E2|N2].
    + replace ((2 * a + x mod 2) / 2) with a by lia. replace ((2 * a + x mod 2) mod 2) with (x mod 2) by lia.
      rewrite Nat.eqb_refl. lia.
    + destruct (Nat.eqb_spec (x / 2) a); [lia|]. destruct (Nat.eqb_spec (x / 2) b); [lia|]. reflexivity.
Qed.

Lemma swap_half_other a b x : x / 2 <> a -> x / 2 <> b -> swap_half a b x = x.
Proof.
  intros H1 H2. unfold swap_half. destruct (Nat.eqb_spec (x / 2) a); [lia|]. destruct (Nat.eqb_spec (x / 2) b); [lia|]. reflexivity.
Qed.

Lemma swap_half_spec a b x : swap_half a b x / 2 = swap_idx a b (x / 2) /\ swap_half a b x mod 2 = x mod 2.
Proof.
  unfold swap_half, swap_idx.
  destruct (Nat.eqb_spec (x / 2) a); [split; lia|]. destruct (Nat.eqb_spec (x / 2) b); split; lia.
Qed.

Lemma map_map_involutive {A} (f : A -> A) l : (forall x, f (f x) = x) -> map f (map f l) = l.
Proof. intros H. rewrite map_map. rewrite <- (map_id l) at 2. apply map_ext. exact H. Qed.

Lemma pswap_involutive i j p : i < length (pdata p) -> j < length (pdata p) -> pswap i j (pswap i j p) = p.
Proof.
  intros Hi Hj. destruct p as [d l]. unfold pswap. simpl in *. f_equal. apply swap_nth_involutive; assumption.
Qed.

Lemma pswap_length i j p : length (pdata (pswap i j p)) = length (pdata p).
Proof. destruct p. unfold pswap. simpl. apply swap_nth_length. Qed.

Lemma map_pswap_involutive i j l n : (forall p, In p l -> length (pdata p) = n) -> i < n -> j < n ->
  map (pswap i j) (map (pswap i j) l) = l.
Proof.
  intros H Hi Hj. rewrite map_map. rewrite <- (map_id l) at 2. apply map_ext_in.
  intros p Hp. apply pswap_involutive; rewrite (H p Hp); assumption.
Qed.

Lemma pswap_comm_disjoint i j i' j' p : i < length (pdata p) -> j < length (pdata p) -> i' < length (pdata p) -> j' < length (pdata p) ->
  i <> i' -> i <> j' -> j <> i' -> j <> j' ->
  pswap i j (pswap i' j' p) = pswap i' j' (pswap i j p).
Proof.
  intros Hi Hj Hi' Hj' N1 N2 N3 N4. destruct p as [d dl]. unfold pswap. simpl in *. f_equal.
  apply (list_ext_nth _ _ d).
  - rewrite !swap_nth_length. reflexivity.
  - intros k Hk. rewrite !nth_swap_nth by (rewrite ?swap_nth_length; lia).
    repeat match goal with |- context [?x =? ?y] => destruct (Nat.eqb_spec x y) end; try lia; reflexivity.
Qed.

Lemma half_swap_props_involutive a b l n : (forall p, In p l -> length (pdata p) = 2 * n) -> a < n -> b < n -> a <> b ->
  half_swap_props a b (half_swap_props a b l) = l.
Proof.
  intros H Ha Hb Hab. unfold half_swap_props. rewrite !map_map. rewrite <- (map_id l) at 2. apply map_ext_in.
  intros p Hp. specialize (H p Hp).
  rewrite (pswap_comm_disjoint (2 * a) (2 * b) (2 * a + 1) (2 * b + 1)) by (rewrite ?pswap_length; lia).
  rewrite pswap_involutive by (rewrite ?pswap_length; lia).
  apply pswap_involutive; lia.
Qed.
