(* Kernel/Closure.v -- C02 / C12: the set of entities a deletion removes (the upward closure) is the same whether
   it is gathered through the bottom-up incidence caches or by scanning the definitions, provided the caches are
   exact; the scan IS the brute-force closure over the stored definitions of the not-deleted entities. *)
From Coq Require Import ZArith Lia Bool Arith List ZifyNat ZifyBool.
From OVM Require Import Base.ListX Base.ListLemmas Base.ListLemmas2 Kernel.State Kernel.Ops Kernel.Mirror Kernel.Recompute.
Import ListNotations.
Ltac Zify.zify_post_hook ::= Z.div_mod_to_equations.
Local Open Scope nat_scope.

(* ---- exactness of the three caches (membership form), the invariant of C01 *)
Definition vbu_ok (s : mesh) : Prop := vbu s = true -> forall v, v < nv s -> forall h,
  In h (out_at s v) <-> (h / 2 < ne s /\ e_deleted s (h / 2) = false /\ he_from s h = v).
Definition ebu_ok (s : mesh) : Prop := ebu s = true -> forall h, h < 2 * ne s -> forall x,
  In x (hfs_at s h) <-> (x / 2 < nf s /\ f_deleted s (x / 2) = false /\ In h (halfface s x)).
Definition fbu_ok (s : mesh) : Prop := fbu s = true -> forall hf, hf < 2 * nf s -> forall c,
  cell_of s hf = Some c <-> (c < nc s /\ c_deleted s c = false /\ In hf (cell_at s c)).

(* ---- the brute-force closure, one level at a time *)
Definition edges_at_vertex (s : mesh) (v : nat) : list nat :=
  filter (fun e => let '(x, y) := edge_at s e in (x =? v) || (y =? v)) (live_edges s).
Definition faces_at_edges (s : mesh) (es : list nat) : list nat :=
  filter (fun f => existsb (fun he => memb (he / 2) es) (face_at s f)) (live_faces s).
Definition cells_at_faces (s : mesh) (fs : list nat) : list nat :=
  filter (fun c => existsb (fun hf => memb (hf / 2) fs) (cell_at s c)) (live_cells s).

Lemma strictly_sorted_seq a n : strictly_sorted (seq a n).
Proof.
  revert a. induction n as [|n IH]; intros a; simpl; [constructor|].
  destruct n as [|n]; simpl; [constructor|]. constructor; [lia|]. apply (IH (S a)).
Qed.

Lemma strictly_sorted_cons_filter p x l : strictly_sorted (x :: l) -> strictly_sorted (filter p l) -> strictly_sorted (x :: filter p l).
Proof.
  intros H Hf. destruct (filter p l) as [|y t] eqn:E; [constructor|]. constructor; [|exact Hf].
  assert (In y (filter p l)) by (rewrite E; left; reflexivity). apply filter_In in H0. destruct H0 as [H0 _].
  exact (strictly_sorted_lt _ _ H _ H0).
Qed.

Lemma strictly_sorted_filter p l : strictly_sorted l -> strictly_sorted (filter p l).
Proof.
  induction l as [|x l IH]; intros H; simpl; [constructor|].
  assert (Hl : strictly_sorted l) by (inversion H; subst; [constructor|assumption]).
  destruct (p x); [|apply IH; exact Hl]. apply strictly_sorted_cons_filter; [exact H|apply IH; exact Hl].
Qed.

Lemma sorted_live_edges s : strictly_sorted (live_edges s).
Proof. apply strictly_sorted_filter, strictly_sorted_seq. Qed.
Lemma sorted_live_faces s : strictly_sorted (live_faces s).
Proof. apply strictly_sorted_filter, strictly_sorted_seq. Qed.
Lemma sorted_live_cells s : strictly_sorted (live_cells s).
Proof. apply strictly_sorted_filter, strictly_sorted_seq. Qed.

Lemma he_from_cases s h : he_from s h = if h mod 2 =? 0 then fst (edge_at s (h / 2)) else snd (edge_at s (h / 2)).
Proof. unfold he_from. rewrite even_mod2. destruct (edge_at s (h / 2)). destruct (h mod 2 =? 0); reflexivity. Qed.

(* ---- level 1: edges at a vertex *)
Theorem incident_edges_cache_is_scan s v : vbu_ok s -> v < nv s -> incident_edges_of_vertex s v = edges_at_vertex s v.
Proof.
  intros OK Hv. unfold incident_edges_of_vertex, edges_at_vertex. destruct (vbu s) eqn:V; [|reflexivity].
  apply strictly_sorted_ext; [apply set_of_list_sorted|apply strictly_sorted_filter, sorted_live_edges|].
  intros e. rewrite set_of_list_In, in_map_iff, filter_In, In_live_edges. split.
  - intros [h [<- Hh]]. apply (OK V v Hv) in Hh. destruct Hh as (R & D & F). repeat split; auto.
    rewrite he_from_cases in F. destruct (edge_at s (h / 2)) as [x y]. cbn [fst snd] in F.
    destruct (h mod 2 =? 0); subst v; rewrite Nat.eqb_refl; [reflexivity|apply orb_true_r].
  - intros [[R D] F]. destruct (edge_at s e) as [x y] eqn:E.
    apply orb_true_iff in F. destruct F as [F|F]; apply Nat.eqb_eq in F.
    + exists (2 * e). split; [lia|]. apply (OK V v Hv). replace (2 * e / 2) with e by lia. repeat split; auto.
      rewrite he_from_even, E. exact F.
    + exists (2 * e + 1). split; [lia|]. apply (OK V v Hv). replace ((2 * e + 1) / 2) with e by lia. repeat split; auto.
      rewrite he_from_odd, E. exact F.
Qed.

(* ---- level 2: faces at a set of edges *)
Lemma In_face_either s f e : (In (2 * e) (halfface s (2 * f)) \/ In (2 * e) (halfface s (2 * f + 1))) <->
  exists he, In he (face_at s f) /\ he / 2 = e.
Proof.
  rewrite !In_halfface. replace (2 * f / 2) with f by lia. replace ((2 * f + 1) / 2) with f by lia.
  replace (Nat.even (2 * f)) with true by (symmetry; rewrite even_mod2; apply Nat.eqb_eq; lia).
  replace (Nat.even (2 * f + 1)) with false by (symmetry; rewrite even_mod2; apply Nat.eqb_neq; lia).
  assert (O : opp (2 * e) = 2 * e + 1) by (rewrite opp_spec; lia).
  rewrite O. split.
  - intros [H|H]; [exists (2 * e)|exists (2 * e + 1)]; split; auto; lia.
  - intros [he [H E]]. assert (he = 2 * e \/ he = 2 * e + 1) as [->| ->] by lia; tauto.
Qed.

Theorem incident_faces_cache_is_scan s es : ebu_ok s -> (forall e, In e es -> e < ne s) ->
  incident_faces_of_edges s es = faces_at_edges s es.
Proof.
  intros OK R. unfold incident_faces_of_edges, faces_at_edges. destruct (ebu s) eqn:E; [|reflexivity].
  apply strictly_sorted_ext; [apply set_of_list_sorted|apply strictly_sorted_filter, sorted_live_faces|].
  intros f. rewrite set_of_list_In, in_map_iff, filter_In, In_live_faces, existsb_exists. split.
  - intros [x [<- Hx]]. apply in_concat in Hx. destruct Hx as [l [Hl Hx]]. apply in_map_iff in Hl. destruct Hl as [e [<- He]].
    apply (OK E (2 * e) ltac:(specialize (R e He); lia)) in Hx. destruct Hx as (Rf & D & I).
    split; [tauto|].
    assert (J : In (2 * e) (halfface s (2 * (x / 2))) \/ In (2 * e) (halfface s (2 * (x / 2) + 1))).
    { assert (x = 2 * (x / 2) \/ x = 2 * (x / 2) + 1) as [Q|Q] by lia; rewrite <- Q; tauto. }
    apply In_face_either in J. destruct J as [he [H1 H2]]. exists he. split; [exact H1|]. apply memb_In. rewrite H2. exact He.
  - intros [[Rf D] [he [H1 H2]]]. apply memb_In in H2. set (e := he / 2) in *.
    assert (J : In (2 * e) (halfface s (2 * f)) \/ In (2 * e) (halfface s (2 * f + 1))) by (apply In_face_either; exists he; tauto).
    destruct J as [J|J].
    + exists (2 * f). split; [lia|]. apply in_concat. exists (hfs_at s (2 * e)). split; [apply in_map_iff; exists e; tauto|].
      apply (OK E (2 * e) ltac:(specialize (R e H2); lia)). replace (2 * f / 2) with f by lia. tauto.
    + exists (2 * f + 1). split; [lia|]. apply in_concat. exists (hfs_at s (2 * e)). split; [apply in_map_iff; exists e; tauto|].
      apply (OK E (2 * e) ltac:(specialize (R e H2); lia)). replace ((2 * f + 1) / 2) with f by lia. tauto.
Qed.

(* ---- level 3: cells at a set of faces *)
Theorem incident_cells_cache_is_scan s fs : fbu_ok s -> (forall f, In f fs -> f < nf s) ->
  incident_cells_of_faces s fs = cells_at_faces s fs.
Proof.
  intros OK R. unfold incident_cells_of_faces, cells_at_faces. destruct (fbu s) eqn:F; [|reflexivity].
  apply strictly_sorted_ext; [apply set_of_list_sorted|apply strictly_sorted_filter, sorted_live_cells|].
  intros c. rewrite set_of_list_In, in_flat_map, filter_In, In_live_cells, existsb_exists. split.
  - intros [f [Hf Hc]]. specialize (R f Hf). apply in_app_iff in Hc.
    assert (J : cell_of s (2 * f) = Some c \/ cell_of s (2 * f + 1) = Some c).
    { destruct Hc as [Hc|Hc]; [left|right]; destruct (cell_of s _) as [c'|]; simpl in Hc; try tauto; destruct Hc as [->|[]]; reflexivity. }
    destruct J as [J|J]; [apply (OK F (2 * f) ltac:(lia)) in J|apply (OK F (2 * f + 1) ltac:(lia)) in J];
      destruct J as (Rc & D & I); (split; [tauto|]); [exists (2 * f)|exists (2 * f + 1)]; (split; [exact I|]); apply memb_In;
      [replace (2 * f / 2) with f by lia|replace ((2 * f + 1) / 2) with f by lia]; exact Hf.
  - intros [[Rc D] [hf [H1 H2]]]. apply memb_In in H2. exists (hf / 2). split; [exact H2|]. specialize (R _ H2).
    apply in_app_iff.
    assert (hf = 2 * (hf / 2) \/ hf = 2 * (hf / 2) + 1) as [Q|Q] by lia.
    + left. rewrite <- Q. replace (cell_of s hf) with (Some c); [left; reflexivity|]. symmetry. apply (OK F hf ltac:(lia)). tauto.
    + right. rewrite <- Q. replace (cell_of s hf) with (Some c); [left; reflexivity|]. symmetry. apply (OK F hf ltac:(lia)). tauto.
Qed.

(* the closure lists contain live, in-range entities only, without repetition *)
Lemma edges_at_vertex_live s v e : In e (edges_at_vertex s v) -> e < ne s /\ e_deleted s e = false.
Proof. unfold edges_at_vertex. rewrite filter_In, In_live_edges. tauto. Qed.
Lemma faces_at_edges_live s es f : In f (faces_at_edges s es) -> f < nf s /\ f_deleted s f = false.
Proof. unfold faces_at_edges. rewrite filter_In, In_live_faces. tauto. Qed.
Lemma cells_at_faces_live s fs c : In c (cells_at_faces s fs) -> c < nc s /\ c_deleted s c = false.
Proof. unfold cells_at_faces. rewrite filter_In, In_live_cells. tauto. Qed.
Lemma NoDup_edges_at_vertex s v : NoDup (edges_at_vertex s v).
Proof. apply NoDup_filter, NoDup_live_edges. Qed.
Lemma NoDup_faces_at_edges s es : NoDup (faces_at_edges s es).
Proof. apply NoDup_filter, NoDup_live_faces. Qed.
Lemma NoDup_cells_at_faces s fs : NoDup (cells_at_faces s fs).
Proof. apply NoDup_filter, NoDup_live_cells. Qed.
