(* Kernel/SwapInvol.v -- C17: with the incidence kinds a swap consults switched off (the linear-scan
   implementation), swap_*_indices is exactly the relabeling of SwapEffects.v and applying it twice
   restores the exact original state. *)
From Coq Require Import ZArith Lia Bool Arith List ZifyNat ZifyBool.
From OVM Require Import Base.ListX Base.ListLemmas Kernel.State Kernel.Ops Kernel.SwapEffects.
Import ListNotations.
Ltac Zify.zify_post_hook ::= Z.div_mod_to_equations.
Local Open Scope nat_scope.

Lemma mesh_ext (s t : mesh) :
  nv s = nv t -> edges s = edges t -> faces s = faces t -> cells s = cells t ->
  vdel s = vdel t -> edel s = edel t -> fdel s = fdel t -> cdel s = cdel t ->
  ndv s = ndv t -> nde s = nde t -> ndf s = ndf t -> ndc s = ndc t ->
  vbu s = vbu t -> ebu s = ebu t -> fbu s = fbu t -> deferred s = deferred t -> fast s = fast t ->
  out_hes s = out_hes t -> inc_hfs s = inc_hfs t -> inc_cell s = inc_cell t ->
  pv s = pv t -> pe s = pe t -> phe s = phe t -> pf s = pf t -> phf s = phf t -> pc s = pc t -> pm s = pm t ->
  s = t.
Proof. destruct s, t; simpl; intros; subst; reflexivity. Qed.

(* array lengths agree with the entity counts (C03's size invariant) *)
Definition sized (s : mesh) : Prop :=
  length (vdel s) = nv s /\ length (edel s) = ne s /\ length (fdel s) = nf s /\ length (cdel s) = nc s /\
  (forall k p, In p (props k s) -> length (pdata p) = count k s).

Theorem swap_cell_scan_involutive a b s : sized s -> fbu s = false -> a < nc s -> b < nc s ->
  swap_cell_indices a b (swap_cell_indices a b s) = s.
Proof.
  intros (Lv & Le & Lf & Lc & Lp) F Ha Hb.
  destruct (Nat.eq_dec a b) as [->|N]; [rewrite !swap_cell_self; reflexivity|].
  pose proof (swap_cell_effect a b s N) as E1. cbv zeta in E1.
  set (s1 := swap_cell_indices a b s) in *.
  pose proof (swap_cell_effect a b s1 N) as E2. cbv zeta in E2.
  destruct E1 as (c1&c2&c3&c4&c5&c6&c7&c8&c9&c10&c11&c12&c13&c14&c15&c16&c17&(n1&n2&n3&n4)&(f1&f2&f3&f4&f5)&ci).
  destruct E2 as (d1&d2&d3&d4&d5&d6&d7&d8&d9&d10&d11&d12&d13&d14&d15&d16&d17&(m1&m2&m3&m4)&(g1&g2&g3&g4&g5)&di).
  unfold nc in *.
  apply mesh_ext; try congruence.
  - rewrite d1, c1. apply swap_nth_involutive; assumption.
  - rewrite d2, c2. apply swap_nth_involutive; lia.
  - rewrite di by congruence. apply ci. exact F.
  - rewrite d3, c3. apply (map_pswap_involutive a b (pc s) (length (cells s))); try assumption.
    intros p Hp. apply (Lp KC p Hp).
Qed.

Theorem swap_face_scan_involutive a b s : sized s -> fbu s = false -> ebu s = false -> a < nf s -> b < nf s ->
  swap_face_indices a b (swap_face_indices a b s) = s.
Proof.
  intros (Lv & Le & Lf & Lc & Lp) F E Ha Hb.
  destruct (Nat.eq_dec a b) as [->|N]; [rewrite !swap_face_self; reflexivity|].
  pose proof (swap_face_effect a b s N) as E1. cbv zeta in E1.
  set (s1 := swap_face_indices a b s) in *.
  pose proof (swap_face_effect a b s1 N) as E2. cbv zeta in E2.
  destruct E1 as (c1&c2&c3&c4&c5&c6&c7&c8&c9&c10&c11&c12&c13&c14&c15&(n1&n2&n3&n4)&(f1&f2&f3&f4&f5)&ci&cj).
  destruct E2 as (d1&d2&d3&d4&d5&d6&d7&d8&d9&d10&d11&d12&d13&d14&d15&(m1&m2&m3&m4)&(g1&g2&g3&g4&g5)&di&dj).
  destruct (ci F) as [ci1 ci2]. destruct (di ltac:(congruence)) as [di1 di2].
  unfold nf in *.
  apply mesh_ext; try congruence.
  - rewrite d1, c1. apply swap_nth_involutive; assumption.
  - rewrite di1, ci1. rewrite map_map. rewrite <- (map_id (cells s)) at 2. apply map_ext. intros l.
    apply map_map_involutive. apply swap_half_involutive.
  - rewrite d2, c2. apply swap_nth_involutive; lia.
  - rewrite dj by congruence. apply cj. exact E.
  - rewrite d3, c3. apply (map_pswap_involutive a b (pf s) (length (faces s))); try assumption.
    intros p Hp. apply (Lp KF p Hp).
  - rewrite d4, c4. apply (half_swap_props_involutive a b (phf s) (length (faces s))); try assumption.
    intros p Hp. apply (Lp KHF p Hp).
Qed.

Theorem swap_edge_scan_involutive a b s : sized s -> ebu s = false -> vbu s = false -> a < ne s -> b < ne s ->
  swap_edge_indices a b (swap_edge_indices a b s) = s.
Proof.
  intros (Lv & Le & Lf & Lc & Lp) E V Ha Hb.
  destruct (Nat.eq_dec a b) as [->|N]; [rewrite !swap_edge_self; reflexivity|].
  pose proof (swap_edge_effect a b s N) as E1. cbv zeta in E1.
  set (s1 := swap_edge_indices a b s) in *.
  pose proof (swap_edge_effect a b s1 N) as E2. cbv zeta in E2.
  destruct E1 as (c1&c2&c3&c4&c5&c6&c7&c8&c9&c10&c11&c12&c13&c14&c15&(n1&n2&n3&n4)&(f1&f2&f3&f4&f5)&ci&cj).
  destruct E2 as (d1&d2&d3&d4&d5&d6&d7&d8&d9&d10&d11&d12&d13&d14&d15&(m1&m2&m3&m4)&(g1&g2&g3&g4&g5)&di&dj).
  destruct (ci E) as [ci1 ci2]. destruct (di ltac:(congruence)) as [di1 di2].
  unfold ne in *.
  apply mesh_ext; try congruence.
  - rewrite d1, c1. apply swap_nth_involutive; assumption.
  - rewrite di1, ci1. rewrite map_map. rewrite <- (map_id (faces s)) at 2. apply map_ext. intros l.
    apply map_map_involutive. apply swap_half_involutive.
  - rewrite d2, c2. apply swap_nth_involutive; lia.
  - rewrite dj by congruence. apply cj. exact V.
  - rewrite d3, c3. apply (map_pswap_involutive a b (pe s) (length (edges s))); try assumption.
    intros p Hp. apply (Lp KE p Hp).
  - rewrite d4, c4. apply (half_swap_props_involutive a b (phe s) (length (edges s))); try assumption.
    intros p Hp. apply (Lp KHE p Hp).
Qed.

Theorem swap_vertex_scan_involutive a b s : sized s -> vbu s = false -> a < nv s -> b < nv s ->
  swap_vertex_indices a b (swap_vertex_indices a b s) = s.
Proof.
  intros (Lv & Le & Lf & Lc & Lp) V Ha Hb.
  destruct (Nat.eq_dec a b) as [->|N]; [rewrite !swap_vertex_self; reflexivity|].
  pose proof (swap_vertex_effect a b s N) as E1. cbv zeta in E1.
  set (s1 := swap_vertex_indices a b s) in *.
  pose proof (swap_vertex_effect a b s1 N) as E2. cbv zeta in E2.
  destruct E1 as (c1&c2&c3&c4&c5&c6&c7&c8&c9&c10&c11&c12&c13&c14&c15&c16&(n1&n2&n3&n4)&(f1&f2&f3&f4&f5)&ci).
  destruct E2 as (d1&d2&d3&d4&d5&d6&d7&d8&d9&d10&d11&d12&d13&d14&d15&d16&(m1&m2&m3&m4)&(g1&g2&g3&g4&g5)&di).
  destruct (ci V) as [ci1 ci2]. destruct (di ltac:(congruence)) as [di1 di2].
  apply mesh_ext; try congruence.
  - rewrite di1, ci1. apply map_map_involutive. intros [x y]. unfold swap_ends. simpl.
    rewrite !swap_idx_involutive. reflexivity.
  - rewrite d2, c2. apply swap_nth_involutive; lia.
  - rewrite d3, c3. apply (map_pswap_involutive a b (pv s) (nv s)); try assumption.
    intros p Hp. apply (Lp KV p Hp).
Qed.
