(* Kernel/ShiftFace.v -- C02 / C01, IMMEDIATE NON-FAST mode (deferred = false, fast = false): delete_face_core h is exactly
   "remove slot h of the face array and rename every halfface handle above it":
     - no_flags (every deletion flag is false) is an invariant of the immediate cores and holds initially;
     - the referring definitions: cells s' = map (fix2 h) (cells s), the same whether the cells to rewrite are found through
       the halfface->cell cache (under fbu_ok) or by scanning, and = map (map (cor2 (2h+1))) (cells s) when no cell lists a
       halfface of face h (the situation delete_face/edge/vertex create by deleting the incident cells first);
     - the caches after the step are the shifted caches, and exactness (vbu_ok, ebu_ok, fbu_ok, refs_ok, lens_ok) is PRESERVED
       by the renumbering.
   The first part of the file holds what ShiftEdge.v / ShiftVertex.v / ShiftCompose.v share. *)
From Coq Require Import ZArith Lia Bool Arith List ZifyNat ZifyBool Permutation.
From OVM Require Import Base.ListX Base.ListLemmas Base.ListLemmas2 Kernel.State Kernel.Ops Kernel.Mirror Kernel.Construct
                        Kernel.Recompute Kernel.Closure Kernel.ExactInv Kernel.ExactDelete Kernel.DeleteEffects Kernel.DeleteDefs
                        Kernel2.LookupModel Kernel2.ListAux Kernel2.AdjacentProofs Kernel2.ReorderExact Kernel2.ExactBase Kernel2.ExactDelFace.
Import ListNotations.
Ltac Zify.zify_post_hook ::= Z.div_mod_to_equations.
Local Open Scope nat_scope.

Ltac rsh := cbn [set_nv set_edges set_faces set_cells set_vdel set_edel set_fdel set_cdel set_counts set_flags
                set_out_hes set_inc_hfs set_inc_cell set_props swap_prop_elems delete_prop_elem resize_props
                vertex_deleted edge_deleted face_deleted cell_deleted
                nv edges faces cells vdel edel fdel cdel ndv nde ndf ndc vbu ebu fbu deferred fast
                out_hes inc_hfs inc_cell pv pe phe pf phf pc pm props fst snd].

(* ================================================================== list lemmas *)

Lemma remove_val_id x l : ~ In x l -> remove_val x l = l.
Proof.
  intros H. unfold remove_val. induction l as [|a l IH]; [reflexivity|]. simpl.
  destruct (Nat.eqb_spec a x) as [->|N]; [exfalso; apply H; left; reflexivity|]. simpl. f_equal. apply IH. intros H'. apply H. right. exact H'.
Qed.

Lemma map_id_on {A} (f : A -> A) l : (forall x, In x l -> f x = x) -> map f l = l.
Proof. intros H. induction l as [|a l IH]; [reflexivity|]. simpl. rewrite H by (left; reflexivity). f_equal. apply IH. intros x Hx. apply H. right. exact Hx. Qed.

Lemma nth_remove_two {A} (l : list A) t k d :
  nth k (remove_nth t (remove_nth (t + 1) l)) d = if k <? t then nth k l d else nth (k + 2) l d.
Proof.
  rewrite nth_remove_nth. destruct (Nat.ltb_spec k t) as [H|H].
  - rewrite nth_remove_nth. replace (k <? t + 1) with true by (symmetry; apply Nat.ltb_lt; lia). reflexivity.
  - rewrite nth_remove_nth. replace (S k <? t + 1) with false by (symmetry; apply Nat.ltb_ge; lia). f_equal. lia.
Qed.

Lemma remove_two_length {A} (l : list A) t : t + 1 < length l -> length (remove_nth t (remove_nth (t + 1) l)) = length l - 2.
Proof. intros H. rewrite remove_nth_length by (rewrite remove_nth_length by lia; lia). rewrite remove_nth_length by lia. lia. Qed.

(* a fold that rewrites the slots listed in l (no repetition) with f IS the pointwise application of f at those slots *)
Lemma fold_upd_nodup {A} (f : A -> A) (d : A) : forall (l : list nat) (cs : list A), NoDup l -> forall k,
  nth k (fold_left (fun cs c => upd c (f (nth c cs d)) cs) l cs) d =
  if memb k l && (k <? length cs) then f (nth k cs d) else nth k cs d.
Proof.
  induction l as [|c l IH]; intros cs N k; [reflexivity|].
  inversion N as [|? ? Hc Nl]; subst. cbn [fold_left]. rewrite (IH _ Nl k), upd_length, nth_upd.
  unfold memb at 2. cbn [existsb]. fold (memb k l).
  destruct (Nat.eqb_spec k c) as [->|Nk].
  - replace (memb c l) with false by (symmetry; apply not_true_is_false; intros M; apply memb_In in M; exact (Hc M)).
    rewrite Nat.eqb_refl. cbn [andb orb]. reflexivity.
  - destruct (Nat.eqb_spec c k); [congruence|]. cbn [andb orb]. reflexivity.
Qed.

Lemma fold_upd_length {A} (f : A -> A) (d : A) : forall (l : list nat) (cs : list A),
  length (fold_left (fun cs c => upd c (f (nth c cs d)) cs) l cs) = length cs.
Proof. induction l as [|c l IH]; intros cs; [reflexivity|]. cbn [fold_left]. rewrite IH. apply upd_length. Qed.

(* ... and equals map f as soon as f fixes every slot that is not listed *)
Lemma fold_upd_is_map {A} (f : A -> A) (d : A) (l : list nat) (cs : list A) : NoDup l ->
  (forall k, k < length cs -> ~ In k l -> f (nth k cs d) = nth k cs d) ->
  fold_left (fun cs c => upd c (f (nth c cs d)) cs) l cs = map f cs.
Proof.
  intros N H. apply (list_ext_nth _ _ d). { rewrite fold_upd_length, map_length; reflexivity. }
  intros k Hk. rewrite fold_upd_length in Hk. rewrite (fold_upd_nodup f d l cs N k).
  replace (k <? length cs) with true by (symmetry; apply Nat.ltb_lt; exact Hk). rewrite andb_true_r.
  rewrite (nth_indep (map f cs) d (f d)) by (rewrite map_length; exact Hk). rewrite map_nth.
  destruct (memb k l) eqn:M; [reflexivity|]. symmetry. apply H; [exact Hk|]. intros I. apply memb_In in I. congruence.
Qed.

(* the same for a fold keyed through a function (several keys may hit the same slot) when f is idempotent *)
Lemma fold_upd_idem {A X} (f : A -> A) (d : A) (key : X -> nat) : (forall a, f (f a) = f a) ->
  forall (l : list X) (cs : list A) k,
  nth k (fold_left (fun cs x => upd (key x) (f (nth (key x) cs d)) cs) l cs) d =
  if memb k (map key l) && (k <? length cs) then f (nth k cs d) else nth k cs d.
Proof.
  intros Idem. induction l as [|x l IH]; intros cs k; [reflexivity|].
  cbn [fold_left map]. rewrite (IH _ k), upd_length, nth_upd.
  unfold memb at 2. cbn [existsb]. fold (memb k (map key l)).
  destruct (Nat.eqb_spec k (key x)) as [->|Nk].
  - rewrite Nat.eqb_refl. cbn [andb orb].
    destruct (key x <? length cs); [|rewrite andb_false_r; reflexivity]. rewrite andb_true_r.
    destruct (memb (key x) (map key l)); [apply Idem|reflexivity].
  - destruct (Nat.eqb_spec (key x) k); [congruence|]. cbn [andb orb]. reflexivity.
Qed.

Lemma fold_upd_key_length {A X} (f : A -> A) (d : A) (key : X -> nat) : forall (l : list X) (cs : list A),
  length (fold_left (fun cs x => upd (key x) (f (nth (key x) cs d)) cs) l cs) = length cs.
Proof. induction l as [|c l IH]; intros cs; [reflexivity|]. cbn [fold_left]. rewrite IH. apply upd_length. Qed.

Lemma fold_left_ext {A B} (f g : A -> B -> A) : (forall a b, f a b = g a b) -> forall l a, fold_left f l a = fold_left g l a.
Proof. intros H l. induction l as [|x l IH]; intros a; [reflexivity|]. simpl. rewrite H. apply IH. Qed.

Lemma In_concat_skipn (ll : list (list nat)) n k x : n <= k -> In x (nth k ll []) -> In x (concat (skipn n ll)).
Proof.
  revert n k. induction ll as [|l ll IH]; intros n k Hn Hx.
  - destruct k; destruct Hx.
  - destruct n as [|n].
    + cbn [skipn]. apply in_concat. exists (nth k (l :: ll) []). split; [|exact Hx].
      apply nth_In. destruct (Nat.lt_ge_cases k (length (l :: ll))) as [H|H]; [exact H|]. rewrite nth_overflow in Hx by exact H. destruct Hx.
    + destruct k as [|k]; [lia|]. cbn [skipn]. apply (IH n k); [lia|exact Hx].
Qed.

Lemma In_skipn_nth {A} (l : list A) n x d : In x (skipn n l) -> exists k, n <= k /\ k < length l /\ nth k l d = x.
Proof.
  revert n. induction l as [|a l IH]; intros n Hx.
  - destruct n; destruct Hx.
  - destruct n as [|n].
    + cbn [skipn] in Hx. destruct (In_nth _ _ d Hx) as [k [Hk E]]. exists k. split; [lia|]. split; [exact Hk|exact E].
    + cbn [skipn] in Hx. destruct (IH n Hx) as [k [H1 [H2 H3]]]. exists (S k). cbn [length nth]. repeat split; try lia. exact H3.
Qed.

Lemma nth_In_skipn {A} (l : list A) n k d : n <= k -> k < length l -> In (nth k l d) (skipn n l).
Proof.
  revert n k. induction l as [|a l IH]; intros n k H1 H2; [simpl in H2; lia|].
  destruct n as [|n]; [cbn [skipn]; apply nth_In; exact H2|]. destruct k as [|k]; [lia|]. cbn [skipn nth]. apply IH; simpl in H2; lia.
Qed.

Lemma seq_all_live (del : list bool) n : (forall i, nth i del false = false) -> filter (fun i => negb (nth i del false)) (seq 0 n) = seq 0 n.
Proof.
  intros H. induction n as [|n IH]; [reflexivity|]. rewrite seq_S, filter_app, IH. cbn [filter plus]. rewrite H. reflexivity.
Qed.

(* ================================================================== the shift maps *)

(* inverse of cor2 (2h+1) on the handles that survive: the handle an entity had before the two slots 2h, 2h+1 went away *)
Definition unshift2 (h x : nat) : nat := if x <? 2 * h then x else x + 2.
Definition unshift1 (h x : nat) : nat := if x <? h then x else x + 1.

Ltac ltb_cases := repeat match goal with |- context [?a <? ?b] => destruct (Nat.ltb_spec a b) end.

Lemma cor2_unshift2 h x : cor2 (2 * h + 1) (unshift2 h x) = x.
Proof. unfold cor2, unshift2. ltb_cases; lia. Qed.
Lemma unshift2_cor2 h x : x / 2 <> h -> unshift2 h (cor2 (2 * h + 1) x) = x.
Proof. intros H. unfold cor2, unshift2. ltb_cases; lia. Qed.
Lemma unshift2_div2 h x : unshift2 h x / 2 = unshift1 h (x / 2).
Proof. unfold unshift2, unshift1. ltb_cases; lia. Qed.
Lemma unshift2_div2_neq h x : unshift2 h x / 2 <> h.
Proof. unfold unshift2. ltb_cases; lia. Qed.
Lemma unshift2_even h x : Nat.even (unshift2 h x) = Nat.even x.
Proof. rewrite !even_mod2. unfold unshift2. ltb_cases; [reflexivity|]. f_equal. lia. Qed.
Lemma cor2_div2 h x : x / 2 <> h -> cor2 (2 * h + 1) x / 2 = cor1 h (x / 2).
Proof. intros H. unfold cor2, cor1. ltb_cases; lia. Qed.
Lemma cor2_even h x : Nat.even (cor2 (2 * h + 1) x) = Nat.even x.
Proof. rewrite !even_mod2. unfold cor2. ltb_cases; [|reflexivity]. f_equal. lia. Qed.
Lemma cor2_opp h x : cor2 (2 * h + 1) (opp x) = opp (cor2 (2 * h + 1) x).
Proof. unfold cor2. rewrite (opp_spec x). ltb_cases; rewrite opp_spec; lia. Qed.
Lemma unshift2_opp h x : unshift2 h (opp x) = opp (unshift2 h x).
Proof. unfold unshift2. rewrite (opp_spec x). ltb_cases; rewrite opp_spec; lia. Qed.
Lemma cor1_unshift1 h x : cor1 h (unshift1 h x) = x.
Proof. unfold cor1, unshift1. ltb_cases; lia. Qed.
Lemma unshift1_cor1 h x : x <> h -> unshift1 h (cor1 h x) = x.
Proof. intros H. unfold cor1, unshift1. ltb_cases; lia. Qed.

(* membership in a shifted list that avoids the two dying handles *)
Lemma In_map_cor2 h x l : (forall y, In y l -> y / 2 <> h) -> (In x (map (cor2 (2 * h + 1)) l) <-> In (unshift2 h x) l).
Proof.
  intros H. rewrite in_map_iff. split.
  - intros [y [<- Hy]]. rewrite unshift2_cor2 by (apply H; exact Hy). exact Hy.
  - intros Hx. exists (unshift2 h x). split; [apply cor2_unshift2|exact Hx].
Qed.
Lemma In_map_cor1 h x l : ~ In h l -> (In x (map (cor1 h) l) <-> In (unshift1 h x) l).
Proof.
  intros H. rewrite in_map_iff. split.
  - intros [y [<- Hy]]. rewrite unshift1_cor1 by (intros ->; exact (H Hy)). exact Hy.
  - intros Hx. exists (unshift1 h x). split; [apply cor1_unshift1|exact Hx].
Qed.

(* the rewriting applied to a referring definition: drop the two dying handles, shift the rest *)
Definition fix2 (h : nat) (l : list nat) : list nat := map (cor2 (2 * h + 1)) (remove_val (2 * h + 1) (remove_val (2 * h) l)).

Lemma fix2_free h l : (forall y, In y l -> y / 2 <> h) -> fix2 h l = map (cor2 (2 * h + 1)) l.
Proof.
  intros H. unfold fix2. rewrite (remove_val_id (2 * h) l) by (intros I; apply (H _ I); lia).
  rewrite remove_val_id by (intros I; apply (H _ I); lia). reflexivity.
Qed.
Lemma fix2_below h l : (forall y, In y l -> y < 2 * h) -> fix2 h l = l.
Proof.
  intros H. rewrite fix2_free by (intros y Hy; specialize (H y Hy); lia).
  apply map_id_on. intros x Hx. specialize (H x Hx). unfold cor2. ltb_cases; lia.
Qed.

(* ================================================================== no deletion flag is set *)

Definition no_flags (s : mesh) : Prop :=
  (forall i, v_deleted s i = false) /\ (forall i, e_deleted s i = false) /\ (forall i, f_deleted s i = false) /\ (forall i, c_deleted s i = false).

Lemma no_flags_empty : no_flags empty_mesh.
Proof. unfold no_flags, v_deleted, e_deleted, f_deleted, c_deleted. cbn. repeat split; intros [|i]; reflexivity. Qed.

Lemma nth_remove_nth_false h l : (forall i, nth i l false = false) -> forall i, nth i (remove_nth h l) false = false.
Proof. intros H i. rewrite nth_remove_nth. destruct (i <? h); apply H. Qed.

Theorem no_flags_delete_cell_core h s : deferred s = false -> fast s = false -> no_flags s -> no_flags (delete_cell_core h s).
Proof.
  intros D F (A & B & C & E). pose proof (delete_cell_core_props h s D) as P. cbv zeta in P. rewrite F in P.
  destruct P as (p1 & _ & p3 & p4 & p5 & _). unfold no_flags, v_deleted, e_deleted, f_deleted, c_deleted. rewrite p1, p3, p4, p5.
  repeat split; auto. apply nth_remove_nth_false. exact E.
Qed.
Theorem no_flags_delete_face_core h s : deferred s = false -> fast s = false -> no_flags s -> no_flags (delete_face_core h s).
Proof.
  intros D F (A & B & C & E). pose proof (delete_face_core_props h s D) as P. cbv zeta in P. rewrite F in P.
  destruct P as (p1 & _ & _ & p3 & p4 & p5 & _). unfold no_flags, v_deleted, e_deleted, f_deleted, c_deleted. rewrite p1, p3, p4, p5.
  repeat split; auto. apply nth_remove_nth_false. exact C.
Qed.
Theorem no_flags_delete_edge_core h s : deferred s = false -> fast s = false -> no_flags s -> no_flags (delete_edge_core h s).
Proof.
  intros D F (A & B & C & E). pose proof (delete_edge_core_props h s D) as P. cbv zeta in P. rewrite F in P.
  destruct P as (p1 & _ & _ & p3 & p4 & p5 & _). unfold no_flags, v_deleted, e_deleted, f_deleted, c_deleted. rewrite p1, p3, p4, p5.
  repeat split; auto. apply nth_remove_nth_false. exact B.
Qed.
Theorem no_flags_delete_vertex_core h s : deferred s = false -> fast s = false -> no_flags s -> no_flags (delete_vertex_core h s).
Proof.
  intros D F (A & B & C & E). pose proof (delete_vertex_core_props h s D) as P. cbv zeta in P. rewrite F in P.
  destruct P as (p1 & _ & p3 & p4 & p5 & _). unfold no_flags, v_deleted, e_deleted, f_deleted, c_deleted. rewrite p1, p3, p4, p5.
  repeat split; auto. apply nth_remove_nth_false. exact A.
Qed.

Lemma live_cells_all s : no_flags s -> live_cells s = seq 0 (nc s).
Proof. intros (_ & _ & _ & E). apply seq_all_live. exact E. Qed.
Lemma live_faces_all s : no_flags s -> live_faces s = seq 0 (nf s).
Proof. intros (_ & _ & C & _). apply seq_all_live. exact C. Qed.
Lemma live_edges_all s : no_flags s -> live_edges s = seq 0 (ne s).
Proof. intros (_ & B & _ & _). apply seq_all_live. exact B. Qed.

(* ================================================================== delete_face_core, immediate non-fast: the view *)

Notation fstepF := ExactDelFace.fstep.

(* the loop over the halfedges of the dying face: only inc_hfs changes *)
Definition face_loop (h : nat) (s : mesh) : mesh := if ebu s then fold_left (fstepF h) (face_at s h) s else s.

Lemma face_loop_frame h s : exists x, face_loop h s = set_inc_hfs x s /\ length x = length (inc_hfs s).
Proof.
  unfold face_loop. destruct (ebu s); [apply fold_fstep_frame|]. exists (inc_hfs s). split; [symmetry; apply set_inc_hfs_self|reflexivity].
Qed.

(* the cells whose definition is rewritten: found through the cache at the slots >= 2h, or all not-deleted cells *)
Definition upd_cells_of (h : nat) (s : mesh) : list nat :=
  if fbu s then set_of_list (flat_map (fun o => match o with Some c => [c] | None => [] end) (skipn (2 * h) (inc_cell s)))
  else live_cells s.

Lemma delete_face_core_view h s : deferred s = false -> fast s = false -> let s' := delete_face_core h s in
  nv s' = nv s /\ edges s' = edges s /\ faces s' = remove_nth h (faces s) /\
  cells s' = fold_left (fun cs c => upd c (fix2 h (nth c cs [])) cs) (upd_cells_of h s) (cells s) /\
  vdel s' = vdel s /\ edel s' = edel s /\ fdel s' = remove_nth h (fdel s) /\ cdel s' = cdel s /\
  out_hes s' = out_hes s /\
  inc_cell s' = (if fbu s then remove_nth (2 * h) (remove_nth (2 * h + 1) (inc_cell s)) else inc_cell s) /\
  inc_hfs s' = (if ebu s then map (map (cor2 (2 * h + 1))) (inc_hfs (face_loop h s)) else inc_hfs s) /\
  (vbu s' = vbu s /\ ebu s' = ebu s /\ fbu s' = fbu s /\ deferred s' = false /\ fast s' = false).
Proof.
  intros D F. cbv zeta. unfold delete_face_core. rewrite F. cbn [andb].
  match goal with |- context [if deferred ?x then _ else _] => set (s1 := x) end.
  assert (E : s1 = face_loop h s) by reflexivity. clearbody s1. subst s1.
  unfold upd_cells_of. destruct (ebu s) eqn:Eb.
  - destruct (face_loop_frame h s) as [x [-> Lx]]. rsh. rewrite D, F. cbn [negb]. rsh.
    destruct (fbu s) eqn:Fb; rsh; rewrite ?Fb, ?Eb, ?F; rsh; rewrite ?Fb, ?Eb, ?F; cbn [negb andb]; rsh; rewrite ?Fb, ?Eb, ?F; cbn [negb andb]; rsh; repeat split; auto.
  - unfold face_loop. rewrite Eb, D, F. cbn [negb]. rsh.
    destruct (fbu s) eqn:Fb; rsh; rewrite ?Fb, ?Eb, ?F; rsh; rewrite ?Fb, ?Eb, ?F; cbn [negb andb]; rsh; rewrite ?Fb, ?Eb, ?F; cbn [negb andb]; rsh; repeat split; auto.
Qed.

(* ================================================================== (Fc) the referring definitions *)

(* no cell lists a halfface of face h *)
Definition face_free (s : mesh) (h : nat) : Prop := forall c hf, In hf (cell_at s c) -> hf / 2 <> h.

(* what the cache-guided variant needs: the cache is exact, in-range, and cells reference existing halffaces *)
Definition cells_in_range (s : mesh) : Prop := forall c hf, c < nc s -> In hf (cell_at s c) -> hf < 2 * nf s.

Theorem delete_face_core_cells h s : deferred s = false -> fast s = false -> no_flags s ->
  (fbu s = true -> fbu_ok s /\ cells_in_range s /\ length (inc_cell s) = 2 * nf s) ->
  cells (delete_face_core h s) = map (fix2 h) (cells s).
Proof.
  intros D F NF HC. pose proof (delete_face_core_view h s D F) as V. cbv zeta in V.
  destruct V as (_ & _ & _ & -> & _). apply fold_upd_is_map.
  - unfold upd_cells_of. destruct (fbu s); [apply set_of_list_NoDup|apply NoDup_live_cells].
  - intros k Hk Nin. unfold upd_cells_of in Nin. destruct (fbu s) eqn:Fb.
    + destruct (HC eq_refl) as (FO & CR & L). apply fix2_below. intros y Hy.
      destruct (Nat.lt_ge_cases y (2 * h)) as [Hlt|Hge]; [exact Hlt|]. exfalso. apply Nin.
      assert (Hy2 : y < 2 * nf s) by (apply (CR k y Hk Hy)).
      assert (Cy : cell_of s y = Some k).
      { apply (FO Fb y Hy2 k). split; [exact Hk|]. split; [apply NF|exact Hy]. }
      apply Kernel2.ListAux.set_of_list_In. apply in_flat_map. exists (Some k). split; [|left; reflexivity].
      unfold cell_of in Cy. rewrite <- Cy. apply nth_In_skipn; lia.
    + exfalso. apply Nin. rewrite (live_cells_all s NF). apply in_seq. unfold nc. lia.
Qed.

(* the statement asked for: with no cell at face h, every cell is its old definition under the shifted handles *)
Theorem delete_face_core_cells_shift h s : deferred s = false -> fast s = false -> no_flags s ->
  (fbu s = true -> fbu_ok s /\ cells_in_range s /\ length (inc_cell s) = 2 * nf s) -> face_free s h ->
  cells (delete_face_core h s) = map (map (cor2 (2 * h + 1))) (cells s).
Proof.
  intros D F NF HC FF. rewrite (delete_face_core_cells h s D F NF HC). apply map_ext_in. intros l Hl.
  apply fix2_free. intros y Hy. destruct (In_nth _ _ [] Hl) as [c [Hc E]]. apply (FF c y). unfold cell_at. rewrite E. exact Hy.
Qed.

(* cache-guided and scan variants agree: both equal the same right-hand side (corollary, stated explicitly) *)
Corollary delete_face_core_cells_cache_is_scan h s t : deferred s = false -> fast s = false -> no_flags s ->
  deferred t = false -> fast t = false -> no_flags t -> cells t = cells s ->
  fbu s = true -> fbu_ok s -> cells_in_range s -> length (inc_cell s) = 2 * nf s -> fbu t = false ->
  cells (delete_face_core h s) = cells (delete_face_core h t).
Proof.
  intros D F NF D' F' NF' E Fb FO CR L Fb'. rewrite (delete_face_core_cells h s D F NF) by (intros _; auto).
  rewrite (delete_face_core_cells h t D' F' NF') by (intros X; congruence). rewrite E. reflexivity.
Qed.

(* ================================================================== the invariant carried through immediate deletions *)

(* no flag set, the three caches exact (membership form, Kernel/Closure.v), stored handles in range, array lengths right *)
Definition shift_inv (s : mesh) : Prop := no_flags s /\ vbu_ok s /\ ebu_ok s /\ fbu_ok s /\ refs_ok s /\ lens_ok s.

Lemma shift_inv_empty : shift_inv empty_mesh.
Proof. destruct bu_inv_empty as (A & B & C & D & E). split; [exact no_flags_empty|]. tauto. Qed.

Lemma nth_map_map (f : nat -> nat) ll k : nth k (map (map f) ll) [] = map f (nth k ll []).
Proof. change (@nil nat) with (map f []) at 1. apply map_nth. Qed.

Lemma unshift2_mod2 h x : unshift2 h x mod 2 = x mod 2.
Proof. unfold unshift2. ltb_cases; lia. Qed.
Lemma unshift1_lt h x n : h < n -> (unshift1 h x < n <-> x < n - 1).
Proof. intros H. unfold unshift1. ltb_cases; lia. Qed.
Lemma unshift2_lt h x n : h < n -> (unshift2 h x < 2 * n <-> x < 2 * (n - 1)).
Proof. intros H. unfold unshift2. ltb_cases; lia. Qed.
Lemma nth_remove_nth_unshift {A} (l : list A) h k d : nth k (remove_nth h l) d = nth (unshift1 h k) l d.
Proof. rewrite nth_remove_nth. unfold unshift1. destruct (k <? h); [reflexivity|]. f_equal. lia. Qed.
Lemma nth_remove_two_unshift {A} (l : list A) h k d : nth k (remove_nth (2 * h) (remove_nth (2 * h + 1) l)) d = nth (unshift2 h k) l d.
Proof. rewrite nth_remove_two. unfold unshift2. destruct (k <? 2 * h); reflexivity. Qed.

(* ================================================================== (Fc) the caches after the step; exactness is preserved *)

(* what the loop over the halfedges of the dying face leaves in the halfedge->halfface lists: the old lists without the two
   dying halffaces (up to the order inside a list, which reorder_incident_halffaces may change) *)
Definition face_loop_spec (s : mesh) (h : nat) : Prop :=
  ebu s = true -> forall k, k < 2 * ne s -> forall x, In x (hfs_at (face_loop h s) k) <-> In x (hfs_at s k) /\ x / 2 <> h.

Lemma halfface_remove_face s s' h x : faces s' = remove_nth h (faces s) -> halfface s' x = halfface s (unshift2 h x).
Proof. unfold halfface, face_at. intros ->. rewrite nth_remove_nth_unshift, unshift2_div2, unshift2_even. reflexivity. Qed.

Theorem shift_inv_delete_face_core h s : deferred s = false -> fast s = false -> shift_inv s -> h < nf s -> face_free s h ->
  face_loop_spec s h -> shift_inv (delete_face_core h s).
Proof.
  intros D F (NF & VO & EO & FO & (R1 & R2 & R3) & (L1 & L2 & L3 & L4 & L5 & L6)) Hh FF LS.
  assert (CR : cells_in_range s) by (intros c hf Hc Hhf; apply (R3 c Hc); [apply NF|exact Hhf]).
  pose proof (delete_face_core_cells_shift h s D F NF (fun E => conj FO (conj CR (L3 E))) FF) as Ce.
  pose proof (no_flags_delete_face_core h s D F NF) as NF'.
  pose proof (delete_face_core_view h s D F) as V. cbv zeta in V. set (s' := delete_face_core h s) in *.
  destruct V as (w1 & w2 & w3 & _ & w5 & w6 & w7 & w8 & w9 & w10 & w11 & (m1 & m2 & m3 & m4 & m5)).
  assert (NE : ne s' = ne s) by (unfold ne; rewrite w2; reflexivity).
  assert (NF_ : nf s' = nf s - 1) by (unfold nf; rewrite w3; apply remove_nth_length; exact Hh).
  assert (NC : nc s' = nc s) by (unfold nc; rewrite Ce, map_length; reflexivity).
  assert (CAt : forall c, cell_at s' c = map (cor2 (2 * h + 1)) (cell_at s c)) by (intros c; unfold cell_at; rewrite Ce; apply nth_map_map).
  destruct NF as (NFv & NFe & NFf & NFc). destruct NF' as (NFv' & NFe' & NFf' & NFc').
  split; [repeat split; assumption|]. split; [|split; [|split; [|split; [split; [|split]|unfold lens_ok; split; [|split; [|split; [|split; [|split]]]]]]]].
  - (* vbu_ok *)
    intros V v Hv x. rewrite m1 in V. rewrite w1 in Hv. unfold out_at, e_deleted, he_from, edge_at. rewrite w9, NE, w6, w2. exact (VO V v Hv x).
  - (* ebu_ok *)
    intros E k Hk x. rewrite m2 in E. rewrite NE in Hk. unfold hfs_at. rewrite w11, E, nth_map_map. fold (hfs_at (face_loop h s) k).
    rewrite In_map_cor2 by (intros y Hy; apply (LS E k Hk) in Hy; tauto).
    rewrite (LS E k Hk), (EO E k Hk), NF_, NFf, NFf', (halfface_remove_face s s' h x w3), unshift2_div2.
    pose proof (unshift1_lt h (x / 2) (nf s) Hh). pose proof (unshift2_div2_neq h x). rewrite unshift2_div2 in *. tauto.
  - (* fbu_ok *)
    intros Fb hf Hhf c. rewrite m3 in Fb. rewrite NF_ in Hhf. unfold cell_of. rewrite w10, Fb, nth_remove_two_unshift. fold (cell_of s (unshift2 h hf)).
    assert (Hu : unshift2 h hf < 2 * nf s) by (apply unshift2_lt; assumption).
    rewrite (FO Fb _ Hu c), NC, NFc, NFc', CAt, In_map_cor2 by (intros y Hy; exact (FF _ _ Hy)). reflexivity.
  - intros e He _. rewrite NE in He. unfold edge_at. rewrite w2, w1. apply (R1 e He (NFe e)).
  - intros f Hf _ x Hx. rewrite NF_ in Hf. unfold face_at in Hx. rewrite w3, nth_remove_nth_unshift in Hx. rewrite NE.
    apply (R2 (unshift1 h f)); [apply unshift1_lt; assumption|apply NFf|exact Hx].
  - intros c Hc _ x Hx. rewrite NC in Hc. rewrite CAt in Hx. apply in_map_iff in Hx. destruct Hx as [y [<- Hy]].
    pose proof (R3 c Hc (NFc c) y Hy). pose proof (FF c y Hy). rewrite NF_. unfold cor2. ltb_cases; lia.
  - intros V. rewrite m1 in V. rewrite w9, w1. exact (L1 V).
  - intros E. rewrite m2 in E. rewrite w11, E, NE, map_length. destruct (face_loop_frame h s) as [x [-> Lx]]. cbn [inc_hfs set_inc_hfs]. rewrite Lx. exact (L2 E).
  - intros Fb. rewrite m3 in Fb. rewrite w10, Fb, NF_, remove_two_length by (rewrite (L3 Fb); lia). rewrite (L3 Fb). lia.
  - rewrite w6, NE. exact L4.
  - rewrite w7, NF_, remove_nth_length by (rewrite L5; exact Hh). rewrite L5. reflexivity.
  - rewrite w8, NC. exact L6.
Qed.

(* ---- the loop without re-ordering (fbu off): remove_at only *)
Definition rm_step (h : nat) (ll : list (list nat)) (he : nat) : list (list nat) :=
  remove_at (opp he) (2 * h + 1) (remove_at he (2 * h) ll).

Lemma fold_rm_step_In h hes : forall ll k x,
  In x (nth k (fold_left (rm_step h) hes ll) []) <->
  In x (nth k ll []) /\ ~ (x = 2 * h /\ In k hes) /\ ~ (x = 2 * h + 1 /\ In (opp k) hes).
Proof.
  induction hes as [|he hes IH]; intros ll k x; [cbn [fold_left In]; tauto|].
  cbn [fold_left]. rewrite IH. unfold rm_step. rewrite nth_remove_at, remove_at_length, nth_remove_at. cbn [In].
  assert (O : opp he = k <-> he = opp k) by (split; [intros <-|intros ->]; rewrite opp_involutive; reflexivity).
  destruct (Nat.lt_ge_cases k (length ll)) as [Hk|Hk].
  - destruct (Nat.eqb_spec (opp he) k) as [E1|E1]; destruct (Nat.eqb_spec he k) as [E0|E0]; cbn [andb];
      try (replace (opp he <? length ll) with true by (symmetry; apply Nat.ltb_lt; lia));
      try (replace (he <? length ll) with true by (symmetry; apply Nat.ltb_lt; lia)); rewrite ?remove_val_In; tauto.
  - assert (Nil : nth k ll [] = []) by (apply nth_overflow; exact Hk).
    destruct ((opp he =? k) && (opp he <? length ll)); destruct ((he =? k) && (he <? length ll)); rewrite ?remove_val_In, ?Nil; cbn [In]; tauto.
Qed.

Lemma face_loop_noreorder h s : fbu s = false ->
  face_loop h s = set_inc_hfs (if ebu s then fold_left (rm_step h) (face_at s h) (inc_hfs s) else inc_hfs s) s.
Proof.
  intros Fb. unfold face_loop. destruct (ebu s); [|symmetry; apply set_inc_hfs_self].
  generalize (face_at s h). intros hes. revert s Fb. induction hes as [|he hes IH]; intros s Fb; cbn [fold_left]; [symmetry; apply set_inc_hfs_self|].
  unfold ExactDelFace.fstep at 2. cbv zeta. change (fbu (set_inc_hfs ?y s)) with (fbu s). rewrite Fb.
  rewrite IH by exact Fb. reflexivity.
Qed.

Theorem face_loop_spec_noreorder s h : fbu s = false -> ebu_ok s -> face_loop_spec s h.
Proof.
  intros Fb EO E k Hk x. rewrite (face_loop_noreorder h s Fb), E. unfold hfs_at at 1. cbn [inc_hfs set_inc_hfs]. rewrite fold_rm_step_In.
  fold (hfs_at s k). split; [|intros [A B]; split; [exact A|split; intros [-> _]; lia]].
  intros (A & N1 & N2). split; [exact A|]. intros Ex. apply (EO E k Hk) in A. destruct A as (_ & _ & A). apply In_halfface in A.
  assert (x = 2 * h \/ x = 2 * h + 1) as [->| ->] by lia.
  - replace (Nat.even (2 * h)) with true in A by (symmetry; rewrite even_mod2; apply Nat.eqb_eq; lia). replace (2 * h / 2) with h in A by lia. tauto.
  - replace (Nat.even (2 * h + 1)) with false in A by (symmetry; rewrite even_mod2; apply Nat.eqb_neq; lia). replace ((2 * h + 1) / 2) with h in A by lia. tauto.
Qed.

(* ebu off: vacuous *)
Lemma face_loop_spec_ebu_off s h : ebu s = false -> face_loop_spec s h.
Proof. intros E E'. congruence. Qed.

(* ---- the loop with re-ordering (ebu and fbu on).  Kernel2/ExactDelFace.v analysed this loop for the deferred mode (the
   intermediate specification P_ex, kept by reorder_incident_halffaces because the dying face is in no cell the walk reads).
   The loop does not read the mode flags, so the analysis transports to the immediate mode through set_def. *)
Definition set_def (t : mesh) : mesh := set_flags (vbu t) (ebu t) (fbu t) true (fast t) t.

(* everything reorder_incident_halffaces and the loop read *)
Definition same_reads (s t : mesh) : Prop :=
  faces s = faces t /\ cells s = cells t /\ cdel s = cdel t /\ inc_cell s = inc_cell t /\ inc_hfs s = inc_hfs t /\ fbu s = fbu t.

Lemma hf_is_open_reads s t x : same_reads s t -> hf_is_open s x = hf_is_open t x.
Proof. intros (a & b & c & d & e & f). unfold hf_is_open, cell_of, c_deleted. rewrite d, c. reflexivity. Qed.

Lemma adjacent_reads s t hf he : same_reads s t -> adjacent_halfface_in_cell s hf he = adjacent_halfface_in_cell t hf he.
Proof.
  intros (a & b & c & d & e & f).
  assert (AO : forall he1 st hfh, adj_outer s hf he1 st hfh = adj_outer t hf he1 st hfh).
  { intros he1 st hfh. unfold adj_outer, halfface, face_at. rewrite a. reflexivity. }
  unfold adjacent_halfface_in_cell, cell_of, cell_at, halfface, face_at. rewrite d, a, b.
  destruct (nth hf (inc_cell t) None) as [ch|]; [|reflexivity].
  match goal with |- match ?o with _ => _ end = _ => destruct o as [he1|]; [|reflexivity] end.
  rewrite (fold_left_ext _ _ (AO he1)). reflexivity.
Qed.

Lemma reorder_fwd_reads s t : same_reads s t -> forall fuel n heh start cur acc,
  reorder_fwd fuel s n heh start cur acc = reorder_fwd fuel t n heh start cur acc.
Proof.
  intros H. induction fuel as [|fuel IH]; intros n heh start cur acc; [reflexivity|]. cbn [reorder_fwd].
  rewrite (hf_is_open_reads s t _ H), (adjacent_reads s t _ _ H).
  destruct (n <? length (acc ++ [cur])); [reflexivity|]. destruct (hf_is_open t cur); [reflexivity|].
  destruct (adjacent_halfface_in_cell t cur heh) as [x|]; [|reflexivity]. destruct (opp x =? start); [reflexivity|]. apply IH.
Qed.
Lemma reorder_bwd_reads s t : same_reads s t -> forall fuel n heh cur acc,
  reorder_bwd fuel s n heh cur acc = reorder_bwd fuel t n heh cur acc.
Proof.
  intros H. induction fuel as [|fuel IH]; intros n heh cur acc; [reflexivity|]. cbn [reorder_bwd].
  rewrite (hf_is_open_reads s t _ H), (adjacent_reads s t _ _ H).
  destruct (hf_is_open t (opp cur)); [reflexivity|].
  destruct (adjacent_halfface_in_cell t (opp cur) heh) as [x|]; [|reflexivity]. destruct (n <? length (x :: acc)); [reflexivity|]. apply IH.
Qed.
Lemma reorder_list_reads s t e : same_reads s t -> reorder_list s e = reorder_list t e.
Proof.
  intros H. pose proof H as (_ & _ & _ & _ & Ei & _). unfold reorder_list, hfs_at. rewrite Ei.
  destruct (length (nth (2 * e) (inc_hfs t) []) <? 2); [reflexivity|].
  destruct (nth (2 * e) (inc_hfs t) []) as [|start l]; [reflexivity|].
  rewrite (reorder_fwd_reads s t H). destruct (reorder_fwd _ t _ _ _ _ _) as [acc|]; [|reflexivity].
  rewrite (reorder_bwd_reads s t H). reflexivity.
Qed.
Lemma reorder_reads s t e : same_reads s t -> same_reads (reorder_incident_halffaces e s) (reorder_incident_halffaces e t).
Proof.
  intros H. pose proof H as (a & b & c & d & Ei & f). unfold reorder_incident_halffaces. rewrite (reorder_list_reads s t e H).
  destruct (reorder_list t e) as [l|]; [|exact H]. unfold hfs_at. rewrite Ei. repeat split; assumption.
Qed.
Lemma fstep_reads h s t he : same_reads s t -> same_reads (fstepF h s he) (fstepF h t he).
Proof.
  intros H. pose proof H as (a & b & c & d & Ei & f). unfold ExactDelFace.fstep. cbv zeta. rsh. rewrite Ei, f.
  destruct (fbu t) eqn:Ft; [apply reorder_reads|]; unfold same_reads; rsh; repeat split; congruence.
Qed.
Lemma fold_fstep_reads h hes : forall s t, same_reads s t -> same_reads (fold_left (fstepF h) hes s) (fold_left (fstepF h) hes t).
Proof. induction hes as [|he hes IH]; intros s t H; [exact H|]. cbn [fold_left]. apply IH. apply fstep_reads. exact H. Qed.

Lemma same_reads_set_def s : same_reads s (set_def s).
Proof. repeat split. Qed.

Lemma face_loop_reorder_slots s h : shift_inv s -> slots_nodup s -> live_cells_closed s -> faces_simple s ->
  h < nf s -> face_free s h -> ebu s = true -> fbu s = true -> forall k, k < 2 * ne s ->
  NoDup (hfs_at (face_loop h s) k) /\ forall x, In x (hfs_at (face_loop h s) k) <-> In x (hfs_at s k) /\ x / 2 <> h.
Proof.
  intros (NF & VO & EO & FO & R & L) SN LC FS Hh FF E Fb.
  destruct NF as (NFv & NFe & NFf & NFc). pose proof R as (R1 & R2 & R3).
  set (sd := set_def s).
  assert (CL : cells_ref_live s) by (intros c hf Hc _ Hhf; split; [pose proof (R3 c Hc (NFc c) hf Hhf); lia|apply NFf]).
  assert (HI : core_inv sd).
  { unfold core_inv. split; [exact E|]. split; [exact Fb|]. split; [reflexivity|]. split; [exact VO|]. split; [exact FO|].
    split; [exact R|]. split; [exact L|]. split; [exact CL|]. split; [exact LC|exact FS]. }
  assert (Free : forall z, z / 2 = h -> cell_of s z = None).
  { intros z Hz. destruct (cell_of s z) as [c|] eqn:Ec; [|reflexivity]. exfalso.
    apply (FO Fb z ltac:(lia) c) in Ec. destruct Ec as (_ & _ & Ec). exact (FF c z Ec Hz). }
  assert (S0 : slots_spec (set_inc_hfs (inc_hfs s) sd) (P_ex sd h [])).
  { intros k Hk. split; [exact (SN k Hk)|]. intros x. change (hfs_at (set_inc_hfs (inc_hfs s) sd) k) with (hfs_at s k).
    rewrite (EO E k Hk x). unfold P_ex, P_live. cbn [In]. change (nf sd) with (nf s). change (f_deleted sd) with (f_deleted s).
    change (halfface sd x) with (halfface s x). tauto. }
  destruct (fold_fstep_spec sd h HI Hh (NFf h) (Free (2 * h) ltac:(lia)) (Free (2 * h + 1) ltac:(lia))
              (face_at s h) [] (inc_hfs s) (fun he H => H) eq_refl S0) as [x' [Ex [Lx Sx]]].
  cbn [app] in Sx.
  assert (Eloop : inc_hfs (face_loop h s) = x').
  { unfold face_loop. rewrite E.
    pose proof (fold_fstep_reads h (face_at s h) s (set_inc_hfs (inc_hfs s) sd) ltac:(repeat split)) as (_ & _ & _ & _ & Ei & _).
    rewrite Ei. change (face_at sd h) with (face_at s h) in Ex. rewrite Ex. reflexivity. }
  intros k Hk. unfold hfs_at at 1 2. rewrite Eloop. destruct (Sx k Hk) as [Nd M].
  change (hfs_at (set_inc_hfs x' sd) k) with (nth k x' []) in M, Nd. split; [exact Nd|]. intros x. rewrite M. unfold P_ex, P_live.
  change (nf sd) with (nf s). change (f_deleted sd) with (f_deleted s). change (halfface sd x) with (halfface s x).
  rewrite (EO E k Hk x). split; [|intros [A B]; split; [exact A|tauto]].
  intros [(A & B & C) N]. split; [tauto|]. intros Ex2. apply N. split; [exact Ex2|]. apply In_halfface in C. rewrite Ex2 in C.
  assert (x = 2 * h \/ x = 2 * h + 1) as [->| ->] by lia.
  - replace (Nat.even (2 * h)) with true in C by (symmetry; rewrite even_mod2; apply Nat.eqb_eq; lia). left. exact C.
  - replace (Nat.even (2 * h + 1)) with false in C by (symmetry; rewrite even_mod2; apply Nat.eqb_neq; lia). right. exact C.
Qed.

Theorem face_loop_spec_reorder s h : shift_inv s -> slots_nodup s -> live_cells_closed s -> faces_simple s ->
  h < nf s -> face_free s h -> face_loop_spec s h.
Proof.
  intros I SN LC FS Hh FF E. destruct (fbu s) eqn:Fb; [|apply face_loop_spec_noreorder; [exact Fb|apply I|exact E]].
  intros k Hk. exact (proj2 (face_loop_reorder_slots s h I SN LC FS Hh FF E Fb k Hk)).
Qed.

(* (Fc), caches: all cases together *)
Theorem shift_inv_delete_face_core_full h s : deferred s = false -> fast s = false -> shift_inv s -> h < nf s -> face_free s h ->
  (ebu s = true -> fbu s = true -> slots_nodup s /\ live_cells_closed s /\ faces_simple s) ->
  shift_inv (delete_face_core h s).
Proof.
  intros D F I Hh FF X. apply shift_inv_delete_face_core; try assumption.
  destruct (ebu s) eqn:E; [|apply face_loop_spec_ebu_off; exact E].
  destruct (fbu s) eqn:Fb; [|apply face_loop_spec_noreorder; [exact Fb|apply I]].
  destruct (X eq_refl eq_refl) as (SN & LC & FS). apply face_loop_spec_reorder; assumption.
Qed.

(* ================================================================== the extended invariant (what re-ordering needs) *)

(* with both ebu and fbu on, reorder_incident_halffaces runs inside the cores; it keeps the lists exact when they are
   duplicate-free, the live cells are closed surfaces and no face lists a halfedge twice or with its opposite *)
Definition ext_inv (s : mesh) : Prop := ebu s = true -> fbu s = true -> slots_nodup s /\ live_cells_closed s /\ faces_simple s.
Definition shift_inv2 (s : mesh) : Prop := shift_inv s /\ ext_inv s.

Lemma NoDup_map_inj_on {A B} (f : A -> B) l : NoDup l -> (forall x y, In x l -> In y l -> f x = f y -> x = y) -> NoDup (map f l).
Proof.
  induction 1 as [|a l Ha Nl IH]; intros Inj; [constructor|]. cbn [map]. constructor.
  - intros I. apply in_map_iff in I. destruct I as [y [E Hy]]. assert (y = a) by (apply Inj; [right; exact Hy|left; reflexivity|exact E]). subst y. exact (Ha Hy).
  - apply IH. intros x y Hx Hy. apply Inj; right; assumption.
Qed.

Lemma cor2_inj_on h x y : x / 2 <> h -> y / 2 <> h -> cor2 (2 * h + 1) x = cor2 (2 * h + 1) y -> x = y.
Proof. intros Hx Hy E. rewrite <- (unshift2_cor2 h x Hx), <- (unshift2_cor2 h y Hy), E. reflexivity. Qed.

Lemma eqb_inj (g : nat -> nat) z y : (g z = g y -> z = y) -> (g z =? g y) = (z =? y).
Proof. intros H. destruct (Nat.eqb_spec z y) as [->|N]; [apply Nat.eqb_refl|]. apply Nat.eqb_neq. intros E. exact (N (H E)). Qed.

Lemma length_flat_map_map {A B C D} (f : B -> list C) (f' : A -> list D) (g : A -> B) l :
  (forall z, In z l -> length (f (g z)) = length (f' z)) -> length (flat_map f (map g l)) = length (flat_map f' l).
Proof.
  induction l as [|a l IH]; intros H; [reflexivity|]. cbn [map flat_map]. rewrite !app_length, (H a) by (left; reflexivity).
  rewrite IH by (intros z Hz; apply H; right; exact Hz). reflexivity.
Qed.

Lemma length_filter_map {A B} (p : B -> bool) (g : A -> B) l : length (filter p (map g l)) = length (filter (fun z => p (g z)) l).
Proof. induction l as [|a l IH]; [reflexivity|]. cbn [map filter]. destruct (p (g a)); cbn [length]; rewrite IH; reflexivity. Qed.

Lemma length_filter_ext_in {A} (p q : A -> bool) l : (forall x, In x l -> p x = q x) -> length (filter p l) = length (filter q l).
Proof.
  induction l as [|a l IH]; intros H; [reflexivity|]. cbn [filter]. rewrite (H a) by (left; reflexivity).
  destruct (q a); cbn [length]; rewrite IH by (intros x Hx; apply H; right; exact Hx); reflexivity.
Qed.

(* a closed cell stays closed when its halffaces are renamed by g and the halfedges of its halffaces by k *)
Lemma closed_cell_rename s s' c c' (g k : nat -> nat) :
  cell_at s' c' = map g (cell_at s c) ->
  (forall y, In y (cell_at s c) -> cell_of s' (g y) = Some c') ->
  (forall y z, In y (cell_at s c) -> In z (cell_at s c) -> (g z =? g y) = (z =? y) /\ (g z =? opp (g y)) = (z =? opp y)) ->
  (forall z, In z (cell_at s c) -> halfface s' (g z) = map k (halfface s z)) ->
  (forall y z he0 w, In y (cell_at s c) -> In z (cell_at s c) -> In he0 (halfface s y) -> In w (halfface s z) ->
      (opp (k w) =? k he0) = (opp w =? he0)) ->
  closed_cell s c -> closed_cell s' c'.
Proof.
  intros CA CO GE HK KE Cl hf' Hhf'. rewrite CA in Hhf'. apply in_map_iff in Hhf'. destruct Hhf' as [y [<- Hy]].
  destruct (Cl y Hy) as [_ Cnt]. split; [apply CO; exact Hy|].
  intros he' Hhe'. rewrite (HK y Hy) in Hhe'. apply in_map_iff in Hhe'. destruct Hhe' as [he0 [<- Hhe0]].
  rewrite <- (Cnt he0 Hhe0). unfold adj_matches. rewrite CA. apply length_flat_map_map. intros z Hz.
  destruct (GE y z Hy Hz) as [-> ->]. destruct ((z =? y) || (z =? opp y)); [reflexivity|].
  rewrite !map_length, (HK z Hz), length_filter_map. apply length_filter_ext_in. intros w Hw. exact (KE y z he0 w Hy Hz Hhe0 Hw).
Qed.

(* ---- the face core keeps the extended invariant *)
Theorem shift_inv2_delete_face_core h s : deferred s = false -> fast s = false -> shift_inv2 s -> h < nf s -> face_free s h ->
  shift_inv2 (delete_face_core h s).
Proof.
  intros D F [I X] Hh FF.
  assert (I' : shift_inv (delete_face_core h s)) by (apply shift_inv_delete_face_core_full; assumption).
  split; [exact I'|]. intros E' Fb'.
  pose proof I as ((NFv & NFe & NFf & NFc) & VO & EO & FO & (R1 & R2 & R3) & (L1 & L2 & L3 & L4 & L5 & L6)).
  assert (CR : cells_in_range s) by (intros c hf Hc Hhf; apply (R3 c Hc (NFc c) hf Hhf)).
  pose proof (delete_face_core_cells_shift h s D F (conj NFv (conj NFe (conj NFf NFc))) (fun E => conj FO (conj CR (L3 E))) FF) as Ce.
  pose proof (delete_face_core_view h s D F) as V. cbv zeta in V. set (s' := delete_face_core h s) in *.
  destruct V as (w1 & w2 & w3 & _ & w5 & w6 & w7 & w8 & w9 & w10 & w11 & (m1 & m2 & m3 & m4 & m5)).
  assert (E : ebu s = true) by congruence. assert (Fb : fbu s = true) by congruence.
  destruct (X E Fb) as (SN & LC & FS).
  assert (NE : ne s' = ne s) by (unfold ne; rewrite w2; reflexivity).
  assert (NF_ : nf s' = nf s - 1) by (unfold nf; rewrite w3; apply remove_nth_length; exact Hh).
  assert (NC : nc s' = nc s) by (unfold nc; rewrite Ce, map_length; reflexivity).
  assert (CAt : forall c, cell_at s' c = map (cor2 (2 * h + 1)) (cell_at s c)) by (intros c; unfold cell_at; rewrite Ce; apply nth_map_map).
  pose proof I' as ((NFv' & NFe' & NFf' & NFc') & VO' & EO' & FO' & (R1' & R2' & R3') & _).
  split; [|split].
  - (* slots_nodup *)
    intros k Hk. rewrite NE in Hk. unfold hfs_at. rewrite w11, E, nth_map_map. fold (hfs_at (face_loop h s) k).
    destruct (face_loop_reorder_slots s h I SN LC FS Hh FF E Fb k Hk) as [Nd M].
    apply NoDup_map_inj_on; [exact Nd|]. intros x y Hx Hy. apply cor2_inj_on; [apply (M x); exact Hx|apply (M y); exact Hy].
  - (* live_cells_closed *)
    intros c Hc _. rewrite NC in Hc.
    apply (closed_cell_rename s s' c c (cor2 (2 * h + 1)) (fun x => x)); [apply CAt| | | | |exact (LC c Hc (NFc c))].
    + intros y Hy. apply (FO' Fb'). 
      * apply (R3' c); [rewrite NC; exact Hc|apply NFc'|rewrite CAt; apply in_map; exact Hy].
      * split; [rewrite NC; exact Hc|]. split; [apply NFc'|]. rewrite CAt. apply in_map. exact Hy.
    + intros y z Hy Hz. pose proof (FF c y Hy). pose proof (FF c z Hz). split.
      * apply eqb_inj. apply cor2_inj_on; assumption.
      * rewrite <- cor2_opp. apply eqb_inj. apply cor2_inj_on; [assumption|rewrite opp_div2; assumption].
    + intros z Hz. rewrite map_id, (halfface_remove_face s s' h _ w3), unshift2_cor2 by (exact (FF c z Hz)). reflexivity.
    + intros; reflexivity.
  - (* faces_simple *)
    intros f Hf _. rewrite NF_ in Hf. unfold face_at. rewrite w3, nth_remove_nth_unshift. apply (FS (unshift1 h f)); [apply unshift1_lt; assumption|apply NFf].
Qed.
