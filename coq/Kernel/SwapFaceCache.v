(* Kernel/SwapFaceCache.v -- C17 for faces in EVERY mode: the cache-guided branches of swap_face_indices (face incidences on:
   the cells are found through incident_cell_per_hf_; edge incidences on: the halfedge lists are found through the halfedges of
   the two faces) compute exactly the relabeling, precisely when every cell that lists a halfface of a or b is the incident cell
   of that halfface (true of all live cells when the cache is exact; a deferred-deleted cell listing a/b is the finding D13). *)
From Coq Require Import ZArith Lia Bool Arith List ZifyNat ZifyBool.
From OVM Require Import Base.ListX Base.ListLemmas Base.ListLemmas2 Base.FoldOnce Kernel.State Kernel.Ops Kernel.Mirror Kernel.Recompute
                        Kernel.SwapEffects Kernel.SwapInvol Kernel.SwapCellCache Kernel.Closure Kernel.ExactInv.
Import ListNotations.
Ltac Zify.zify_post_hook ::= Z.div_mod_to_equations.
Local Open Scope nat_scope.

Ltac rsf := cbn [set_nv set_edges set_faces set_cells set_vdel set_edel set_fdel set_cdel set_counts set_flags
                set_out_hes set_inc_hfs set_inc_cell set_props swap_prop_elems
                nv edges faces cells vdel edel fdel cdel ndv nde ndf ndc vbu ebu fbu deferred fast
                out_hes inc_hfs inc_cell pv pe phe pf phf pc pm props].

Definition face_hfs (a b : nat) : list nat := [2 * a; 2 * a + 1; 2 * b; 2 * b + 1].
Definition face_hes (s : mesh) (a b : nat) : list nat :=
  halfface s (2 * a) ++ halfface s (2 * a + 1) ++ halfface s (2 * b) ++ halfface s (2 * b + 1).

(* ---------------------------------------------------------------- the two loops are instances of Base/FoldOnce.v *)
Lemma swap_face_cells_loop a b s : a <> b -> fbu s = true ->
  cells (swap_face_indices a b s) =
  fst (fold_left (once_step (cell_of s) (map (swap_half a b)) []) (face_hfs a b) (cells s, [])).
Proof.
  intros N F. unfold swap_face_indices. rewrite (proj2 (Nat.eqb_neq a b) N), F.
  destruct (ebu s) eqn:E; rsf; rewrite ?E, ?F; rsf; unfold face_hfs; f_equal; apply fold_left_ext;
    intros [cs done] x; unfold once_step; cbn [fst snd]; destruct (cell_of s x); reflexivity.
Qed.

Lemma swap_face_inc_hfs_loop a b s : a <> b -> ebu s = true ->
  inc_hfs (swap_face_indices a b s) =
  fst (fold_left (once_step (@Some nat) (map (swap_half a b)) []) (face_hes s a b) (inc_hfs s, [])).
Proof.
  intros N E. unfold swap_face_indices. rewrite (proj2 (Nat.eqb_neq a b) N).
  destruct (fbu s) eqn:F; rsf; rewrite ?E, ?F; rsf; unfold face_hes; f_equal; apply fold_left_ext;
    intros [ll done] x; unfold once_step, map_at; cbn [fst snd]; reflexivity.
Qed.

Lemma swap_face_inc_cell_fbu a b s : a <> b -> fbu s = true ->
  inc_cell (swap_face_indices a b s) = swap_nth (2 * a + 1) (2 * b + 1) None (swap_nth (2 * a) (2 * b) None (inc_cell s)).
Proof.
  intros N F. unfold swap_face_indices. rewrite (proj2 (Nat.eqb_neq a b) N), F.
  destruct (ebu s) eqn:E; rsf; rewrite ?E, ?F; rsf; reflexivity.
Qed.

(* ---------------------------------------------------------------- small facts about the relabeling of half-handles *)
Lemma In_face_hfs a b hf : In hf (face_hfs a b) <-> hf / 2 = a \/ hf / 2 = b.
Proof. unfold face_hfs. cbn [In]. split; [intros [H|[H|[H|[H|[]]]]]; subst; lia|intros [H|H]; lia]. Qed.

Lemma swap_half_div a b x : a <> b -> (swap_half a b x / 2 = a <-> x / 2 = b) /\ (swap_half a b x / 2 = b <-> x / 2 = a).
Proof.
  intros N. destruct (swap_half_spec a b x) as [H _]. rewrite H. unfold swap_idx.
  destruct (Nat.eqb_spec (x / 2) a); destruct (Nat.eqb_spec (x / 2) b); split; split; intros; try lia.
Qed.

Lemma swap_half_even a b x : Nat.even (swap_half a b x) = Nat.even x.
Proof. rewrite !even_mod2. destruct (swap_half_spec a b x) as [_ H]. rewrite H. reflexivity. Qed.

Lemma swap_half_fixes a b l : (forall x, In x l -> x / 2 <> a /\ x / 2 <> b) -> map (swap_half a b) l = l.
Proof. intros H. apply map_fixed. intros x Hx. destruct (H x Hx). apply swap_half_other; assumption. Qed.

Lemma swap_half_fixes_inv a b l : a <> b -> map (swap_half a b) l = l -> forall x, In x l -> x / 2 <> a /\ x / 2 <> b.
Proof.
  intros N. induction l as [|y t IH]; intros H x Hx; [destruct Hx|]. simpl in H. injection H as H1 H2.
  destruct Hx as [<-|Hx]; [|exact (IH H2 x Hx)].
  destruct (swap_half_spec a b y) as [Q _]. rewrite H1 in Q. unfold swap_idx in Q.
  destruct (Nat.eqb_spec (y / 2) a); [lia|]. destruct (Nat.eqb_spec (y / 2) b); lia.
Qed.

(* exchanging the slots 2a <-> 2b and 2a+1 <-> 2b+1 of an array indexed by half-handles = reading it through swap_half *)
Lemma nth_half_swap {A} a b (d : A) l x : a <> b -> 2 * a + 1 < length l -> 2 * b + 1 < length l ->
  nth x (swap_nth (2 * a + 1) (2 * b + 1) d (swap_nth (2 * a) (2 * b) d l)) d = nth (swap_half a b x) l d.
Proof.
  intros N Ha Hb. rewrite nth_swap_nth by (rewrite swap_nth_length; assumption).
  rewrite !nth_swap_nth by lia. unfold swap_half.
  repeat match goal with |- context [?p =? ?q] => destruct (Nat.eqb_spec p q) end; try lia; f_equal; lia.
Qed.

Lemma half_swap_involutive {A} a b (d : A) l : a <> b -> 2 * a + 1 < length l -> 2 * b + 1 < length l ->
  swap_nth (2 * a + 1) (2 * b + 1) d (swap_nth (2 * a) (2 * b) d
    (swap_nth (2 * a + 1) (2 * b + 1) d (swap_nth (2 * a) (2 * b) d l))) = l.
Proof.
  intros N Ha Hb. apply (list_ext_nth _ _ d); [rewrite !swap_nth_length; reflexivity|].
  intros k _. rewrite nth_half_swap by (rewrite ?swap_nth_length; assumption).
  rewrite nth_half_swap by assumption. rewrite swap_half_involutive. reflexivity.
Qed.

Lemma nth_map_map_half a b ll h : nth h (map (map (swap_half a b)) ll) [] = map (swap_half a b) (nth h ll []).
Proof. change (@nil nat) with (map (swap_half a b) []) at 1. apply map_nth. Qed.

(* ---------------------------------------------------------------- the exact conditions *)
(* every cell that lists a halfface of a or b is found by the walk over the four incident-cell entries *)
Definition cells_found (s : mesh) (a b : nat) : Prop :=
  forall c, c < nc s -> (exists hf, In hf (cell_at s c) /\ (hf / 2 = a \/ hf / 2 = b)) ->
  exists x, (x / 2 = a \/ x / 2 = b) /\ cell_of s x = Some c.

(* every halfedge list that names a halfface of a or b belongs to a halfedge of a or b *)
Definition hfs_sound (s : mesh) (a b : nat) : Prop :=
  forall h, h < length (inc_hfs s) -> (exists x, In x (hfs_at s h) /\ (x / 2 = a \/ x / 2 = b)) -> In h (face_hes s a b).

(* H_F: no deferred-deleted cell lists a halfface of a or b *)
Definition no_deleted_cell_lists (s : mesh) (a b : nat) : Prop :=
  forall c, c < nc s -> c_deleted s c = true -> forall hf, In hf (cell_at s c) -> hf / 2 <> a /\ hf / 2 <> b.

Lemma cells_found_of_exact s a b : fbu_ok s -> fbu s = true -> a < nf s -> b < nf s ->
  no_deleted_cell_lists s a b -> cells_found s a b.
Proof.
  intros OK F Ha Hb HD c Hc [hf [Hin Hab]]. destruct (c_deleted s c) eqn:D.
  - exfalso. destruct (HD c Hc D hf Hin). lia.
  - exists hf. split; [exact Hab|]. apply (OK F hf ltac:(lia) c). tauto.
Qed.

Lemma In_face_hes s a b h x : In h (halfface s x) -> x / 2 = a \/ x / 2 = b -> In h (face_hes s a b).
Proof.
  intros I Hab. unfold face_hes. rewrite !in_app_iff.
  assert (x = 2 * a \/ x = 2 * a + 1 \/ x = 2 * b \/ x = 2 * b + 1) as [->|[->|[->| ->]]] by lia; tauto.
Qed.

Lemma hfs_sound_of_exact s a b : ebu_ok s -> ebu s = true -> length (inc_hfs s) = 2 * ne s -> hfs_sound s a b.
Proof.
  intros OK E L h Hh [x [Hin Hab]]. apply (OK E h ltac:(lia) x) in Hin. destruct Hin as (_ & _ & I).
  exact (In_face_hes s a b h x I Hab).
Qed.

(* ---------------------------------------------------------------- (F) cells *)
Theorem swap_face_cells_relabeled_iff a b s : a <> b -> fbu s = true ->
  (cells (swap_face_indices a b s) = map (map (swap_half a b)) (cells s) <-> cells_found s a b).
Proof.
  intros N F. rewrite swap_face_cells_loop by assumption. split.
  - intros H c Hc [hf [Hin Hab]].
    destruct (named (cell_of s) c (face_hfs a b)) eqn:Nm.
    + apply named_iff in Nm. destruct Nm as [x [Hx Ex]]. exists x. split; [apply In_face_hfs; exact Hx|exact Ex].
    + exfalso. pose proof (fold_once_is_map_only_if _ _ _ _ _ H c Hc Nm) as Q.
      destruct (swap_half_fixes_inv a b _ N Q hf Hin). lia.
  - intros CF. apply fold_once_is_map. intros c Hc Nm. apply swap_half_fixes. intros hf Hin.
    destruct (Nat.eq_dec (hf / 2) a) as [Ea|Na]; [|destruct (Nat.eq_dec (hf / 2) b) as [Eb|Nb]; [|split; assumption]]; exfalso.
    + destruct (CF c Hc (ex_intro _ hf (conj Hin (or_introl Ea)))) as [x [Hx Ex]].
      exact (proj1 (named_false_iff _ _ _) Nm x (proj2 (In_face_hfs a b x) Hx) Ex).
    + destruct (CF c Hc (ex_intro _ hf (conj Hin (or_intror Eb)))) as [x [Hx Ex]].
      exact (proj1 (named_false_iff _ _ _) Nm x (proj2 (In_face_hfs a b x) Hx) Ex).
Qed.

Theorem swap_face_cells_relabeled a b s : a <> b -> fbu s = true -> cells_found s a b ->
  cells (swap_face_indices a b s) = map (map (swap_half a b)) (cells s).
Proof. intros N F CF. apply swap_face_cells_relabeled_iff; assumption. Qed.

(* ---------------------------------------------------------------- (F) the halfedge -> halffaces cache *)
Theorem swap_face_inc_hfs_relabeled_iff a b s : a <> b -> ebu s = true ->
  (inc_hfs (swap_face_indices a b s) = map (map (swap_half a b)) (inc_hfs s) <-> hfs_sound s a b).
Proof.
  intros N E. rewrite swap_face_inc_hfs_loop by assumption. split.
  - intros H h Hh [x [Hin Hab]].
    destruct (named (@Some nat) h (face_hes s a b)) eqn:Nm.
    + apply named_iff in Nm. destruct Nm as [y [Hy Ey]]. injection Ey as ->. exact Hy.
    + exfalso. pose proof (fold_once_is_map_only_if _ _ _ _ _ H h Hh Nm) as Q.
      destruct (swap_half_fixes_inv a b _ N Q x Hin). lia.
  - intros HS. apply fold_once_is_map. intros h Hh Nm. apply swap_half_fixes. intros x Hin.
    destruct (Nat.eq_dec (x / 2) a) as [Ea|Na]; [|destruct (Nat.eq_dec (x / 2) b) as [Eb|Nb]; [|split; assumption]]; exfalso.
    + exact (proj1 (named_false_iff _ _ _) Nm h (HS h Hh (ex_intro _ x (conj Hin (or_introl Ea)))) eq_refl).
    + exact (proj1 (named_false_iff _ _ _) Nm h (HS h Hh (ex_intro _ x (conj Hin (or_intror Eb)))) eq_refl).
Qed.

Theorem swap_face_inc_hfs_relabeled a b s : a <> b -> ebu s = true -> hfs_sound s a b ->
  inc_hfs (swap_face_indices a b s) = map (map (swap_half a b)) (inc_hfs s).
Proof. intros N E HS. apply swap_face_inc_hfs_relabeled_iff; assumption. Qed.

(* ---------------------------------------------------------------- (F) the whole state *)
(* the mesh with faces a and b (and their halffaces, side by side) exchanged everywhere *)
Definition face_relabeled (a b : nat) (s : mesh) : mesh := {|
  nv := nv s; edges := edges s;
  faces := swap_nth a b [] (faces s);
  cells := map (map (swap_half a b)) (cells s);
  vdel := vdel s; edel := edel s; fdel := swap_nth a b false (fdel s); cdel := cdel s;
  ndv := ndv s; nde := nde s; ndf := ndf s; ndc := ndc s;
  vbu := vbu s; ebu := ebu s; fbu := fbu s; deferred := deferred s; fast := fast s;
  out_hes := out_hes s;
  inc_hfs := if ebu s then map (map (swap_half a b)) (inc_hfs s) else inc_hfs s;
  inc_cell := if fbu s then swap_nth (2 * a + 1) (2 * b + 1) None (swap_nth (2 * a) (2 * b) None (inc_cell s)) else inc_cell s;
  pv := pv s; pe := pe s; phe := phe s;
  pf := map (pswap a b) (pf s); phf := half_swap_props a b (phf s);
  pc := pc s; pm := pm s |}.

Theorem swap_face_is_relabeling a b s : a <> b ->
  (fbu s = true -> cells_found s a b) -> (ebu s = true -> hfs_sound s a b) ->
  swap_face_indices a b s = face_relabeled a b s.
Proof.
  intros N CF HS. pose proof (swap_face_effect a b s N) as E1. cbv zeta in E1.
  destruct E1 as (c1&c2&c3&c4&c5&c6&c7&c8&c9&c10&c11&c12&c13&c14&c15&(n1&n2&n3&n4)&(f1&f2&f3&f4&f5)&ci&cj).
  apply mesh_ext; unfold face_relabeled; rsf; try assumption.
  - destruct (fbu s) eqn:F; [apply swap_face_cells_relabeled; auto|apply ci; reflexivity].
  - destruct (ebu s) eqn:E; [apply swap_face_inc_hfs_relabeled; auto|apply cj; reflexivity].
  - destruct (fbu s) eqn:F; [apply swap_face_inc_cell_fbu; auto|apply ci; reflexivity].
Qed.

(* the same thing said with the implementation itself: the cache-guided result is the linear-scan result (both incidence kinds
   switched off) with the two caches relabeled and the flags put back *)
Definition caches_off_f (s : mesh) : mesh := set_flags (vbu s) false false (deferred s) (fast s) s.

Theorem swap_face_cache_guided_is_scan_plus_relabeled_caches a b s : a <> b ->
  (fbu s = true -> cells_found s a b) -> (ebu s = true -> hfs_sound s a b) ->
  swap_face_indices a b s =
  set_flags (vbu s) (ebu s) (fbu s) (deferred s) (fast s)
    (set_inc_cell (inc_cell (face_relabeled a b s))
      (set_inc_hfs (inc_hfs (face_relabeled a b s)) (swap_face_indices a b (caches_off_f s)))).
Proof.
  intros N CF HS. rewrite (swap_face_is_relabeling a b s N CF HS).
  pose proof (swap_face_effect a b (caches_off_f s) N) as E1. cbv zeta in E1.
  destruct E1 as (c1&c2&c3&c4&c5&c6&c7&c8&c9&c10&c11&c12&c13&c14&c15&(n1&n2&n3&n4)&(f1&f2&f3&f4&f5)&ci&cj).
  destruct (ci eq_refl) as [ci1 ci2].
  apply mesh_ext; rsf; try reflexivity; symmetry; assumption.
Qed.

(* ---------------------------------------------------------------- the conditions hold again after the swap *)
Lemma nf_face_relabeled a b s : nf (face_relabeled a b s) = nf s.
Proof. unfold nf, face_relabeled. rsf. apply swap_nth_length. Qed.

Lemma cell_at_face_relabeled a b s c : cell_at (face_relabeled a b s) c = map (swap_half a b) (cell_at s c).
Proof. unfold cell_at, face_relabeled. rsf. apply nth_map_map_half. Qed.

Lemma cell_of_face_relabeled a b s x : a <> b -> fbu s = true -> a < nf s -> b < nf s -> length (inc_cell s) = 2 * nf s ->
  cell_of (face_relabeled a b s) x = cell_of s (swap_half a b x).
Proof. intros N F Ha Hb L. unfold cell_of, face_relabeled. rsf. rewrite F. apply nth_half_swap; lia. Qed.

Lemma halfface_face_relabeled a b s x : a < nf s -> b < nf s ->
  halfface (face_relabeled a b s) x = halfface s (swap_half a b x).
Proof.
  intros Ha Hb. unfold halfface. rewrite swap_half_even. destruct (swap_half_spec a b x) as [Q _]. rewrite Q.
  replace (face_at (face_relabeled a b s) (x / 2)) with (face_at s (swap_idx a b (x / 2))); [reflexivity|].
  unfold face_at, face_relabeled. rsf. rewrite nth_swap_nth by assumption. unfold swap_idx.
  destruct (Nat.eqb_spec (x / 2) a); [reflexivity|]. destruct (Nat.eqb_spec (x / 2) b); reflexivity.
Qed.

Lemma cells_found_preserved a b s : a <> b -> fbu s = true -> a < nf s -> b < nf s -> length (inc_cell s) = 2 * nf s ->
  cells_found s a b -> cells_found (face_relabeled a b s) a b.
Proof.
  intros N F Ha Hb L CF c Hc [hf [Hin Hab]]. rewrite cell_at_face_relabeled in Hin. apply in_map_iff in Hin.
  destruct Hin as [hf0 [<- Hin]]. destruct (swap_half_div a b hf0 N) as [D1 D2].
  assert (Hc0 : c < nc s) by (revert Hc; unfold nc, face_relabeled; rsf; rewrite map_length; tauto).
  assert (Hab0 : hf0 / 2 = a \/ hf0 / 2 = b) by tauto.
  destruct (CF c Hc0 (ex_intro _ hf0 (conj Hin Hab0))) as [x [Hx Ex]].
  exists (swap_half a b x). destruct (swap_half_div a b x N) as [D3 D4]. split; [tauto|].
  rewrite cell_of_face_relabeled by assumption. rewrite swap_half_involutive. exact Ex.
Qed.

Lemma hfs_sound_preserved a b s : a <> b -> ebu s = true -> a < nf s -> b < nf s ->
  hfs_sound s a b -> hfs_sound (face_relabeled a b s) a b.
Proof.
  intros N E Ha Hb HS h Hh [x [Hin Hab]].
  assert (HA : hfs_at (face_relabeled a b s) h = map (swap_half a b) (hfs_at s h)).
  { unfold hfs_at, face_relabeled. rsf. rewrite E. apply nth_map_map_half. }
  assert (Hh0 : h < length (inc_hfs s)) by (revert Hh; unfold face_relabeled; rsf; rewrite E, map_length; tauto).
  rewrite HA in Hin. apply in_map_iff in Hin. destruct Hin as [x0 [<- Hin]]. destruct (swap_half_div a b x0 N) as [D1 D2].
  assert (Hab0 : x0 / 2 = a \/ x0 / 2 = b) by tauto.
  pose proof (HS h Hh0 (ex_intro _ x0 (conj Hin Hab0))) as I.
  unfold face_hes in *. rewrite !halfface_face_relabeled by assumption.
  replace (swap_half a b (2 * a)) with (2 * b) by (unfold swap_half; replace (2 * a / 2 =? a) with true by (symmetry; apply Nat.eqb_eq; lia); lia).
  replace (swap_half a b (2 * a + 1)) with (2 * b + 1) by (unfold swap_half; replace ((2 * a + 1) / 2 =? a) with true by (symmetry; apply Nat.eqb_eq; lia); lia).
  replace (swap_half a b (2 * b)) with (2 * a).
  2:{ unfold swap_half. replace (2 * b / 2 =? a) with false by (symmetry; apply Nat.eqb_neq; lia).
      replace (2 * b / 2 =? b) with true by (symmetry; apply Nat.eqb_eq; lia). lia. }
  replace (swap_half a b (2 * b + 1)) with (2 * a + 1).
  2:{ unfold swap_half. replace ((2 * b + 1) / 2 =? a) with false by (symmetry; apply Nat.eqb_neq; lia).
      replace ((2 * b + 1) / 2 =? b) with true by (symmetry; apply Nat.eqb_eq; lia). lia. }
  rewrite !in_app_iff in *. tauto.
Qed.

Lemma no_deleted_cell_lists_preserved a b s : a <> b -> no_deleted_cell_lists s a b -> no_deleted_cell_lists (face_relabeled a b s) a b.
Proof.
  intros N HD c Hc D hf Hin. rewrite cell_at_face_relabeled in Hin. apply in_map_iff in Hin. destruct Hin as [hf0 [<- Hin]].
  assert (Hc0 : c < nc s) by (revert Hc; unfold nc, face_relabeled; rsf; rewrite map_length; tauto).
  destruct (HD c Hc0 D hf0 Hin). destruct (swap_half_div a b hf0 N). tauto.
Qed.

Lemma face_relabeled_involutive a b s : sized s -> a <> b -> a < nf s -> b < nf s ->
  (fbu s = true -> length (inc_cell s) = 2 * nf s) ->
  face_relabeled a b (face_relabeled a b s) = s.
Proof.
  intros (Lv & Le & Lf & Lc & Lp) N Ha Hb L. unfold nf in *.
  apply mesh_ext; unfold face_relabeled; rsf; try reflexivity.
  - apply swap_nth_involutive; assumption.
  - rewrite map_map. apply map_fixed. intros l _. apply map_map_involutive. apply swap_half_involutive.
  - apply swap_nth_involutive; lia.
  - destruct (ebu s); [|reflexivity]. rewrite map_map. apply map_fixed. intros l _. apply map_map_involutive. apply swap_half_involutive.
  - destruct (fbu s); [|reflexivity]. apply half_swap_involutive; [assumption|rewrite L by reflexivity; lia..].
  - apply (map_pswap_involutive a b (pf s) (length (faces s))); try assumption. intros p Hp. apply (Lp KF p Hp).
  - apply (half_swap_props_involutive a b (phf s) (length (faces s))); try assumption. intros p Hp. apply (Lp KHF p Hp).
Qed.

(* ---------------------------------------------------------------- (F) involution in every mode *)
Theorem swap_face_involutive_every_mode a b s : sized s -> a < nf s -> b < nf s ->
  (fbu s = true -> cells_found s a b /\ length (inc_cell s) = 2 * nf s) ->
  (ebu s = true -> hfs_sound s a b) ->
  swap_face_indices a b (swap_face_indices a b s) = s.
Proof.
  intros Z Ha Hb HF HE. destruct (Nat.eq_dec a b) as [->|N]; [rewrite !swap_face_self; reflexivity|].
  rewrite (swap_face_is_relabeling a b s N) by (intros; auto; apply HF; assumption).
  rewrite (swap_face_is_relabeling a b (face_relabeled a b s) N).
  - apply face_relabeled_involutive; try assumption. intros F. apply HF. exact F.
  - intros F. change (fbu s = true) in F. destruct (HF F). apply cells_found_preserved; assumption.
  - intros E. change (ebu s = true) in E. apply hfs_sound_preserved; auto.
Qed.

(* ---------------------------------------------------------------- in terms of the exactness invariant of C01 *)
Theorem swap_face_exact_relabeling a b s : a <> b -> a < nf s -> b < nf s ->
  fbu_ok s -> ebu_ok s -> lens_ok s -> no_deleted_cell_lists s a b ->
  swap_face_indices a b s = face_relabeled a b s.
Proof.
  intros N Ha Hb FO EO (L1 & L2 & L3 & _) HD. apply swap_face_is_relabeling; [exact N| |].
  - intros F. apply cells_found_of_exact; assumption.
  - intros E. apply hfs_sound_of_exact; auto.
Qed.

Theorem swap_face_exact_involutive a b s : sized s -> a < nf s -> b < nf s ->
  fbu_ok s -> ebu_ok s -> lens_ok s -> no_deleted_cell_lists s a b ->
  swap_face_indices a b (swap_face_indices a b s) = s.
Proof.
  intros Z Ha Hb FO EO (L1 & L2 & L3 & _) HD. destruct (Nat.eq_dec a b) as [->|N]; [rewrite !swap_face_self; reflexivity|].
  apply swap_face_involutive_every_mode; try assumption.
  - intros F. split; [apply cells_found_of_exact; assumption|exact (L3 F)].
  - intros E. apply hfs_sound_of_exact; auto.
Qed.

(* ---------------------------------------------------------------- executable forms of the two conditions (for examples by computation) *)
Definition is_ab (a b x : nat) : bool := (x / 2 =? a) || (x / 2 =? b).

Lemma is_ab_spec a b x : is_ab a b x = true <-> x / 2 = a \/ x / 2 = b.
Proof. unfold is_ab. rewrite orb_true_iff, !Nat.eqb_eq. tauto. Qed.

Definition cells_foundb (s : mesh) (a b : nat) : bool :=
  forallb (fun c => negb (existsb (is_ab a b) (cell_at s c)) ||
                    existsb (fun x => match cell_of s x with Some c' => c' =? c | None => false end) (face_hfs a b))
          (seq 0 (nc s)).

Definition hfs_soundb (s : mesh) (a b : nat) : bool :=
  forallb (fun h => negb (existsb (is_ab a b) (hfs_at s h)) || memb h (face_hes s a b)) (seq 0 (length (inc_hfs s))).

Lemma cells_foundb_sound s a b : cells_foundb s a b = true -> cells_found s a b.
Proof.
  unfold cells_foundb. rewrite forallb_forall. intros H c Hc [hf [Hin Hab]].
  specialize (H c ltac:(apply in_seq; lia)). apply orb_true_iff in H. destruct H as [H|H].
  - exfalso. apply negb_true_iff in H. assert (Q : existsb (is_ab a b) (cell_at s c) = true); [|congruence].
    apply existsb_exists. exists hf. split; [exact Hin|apply is_ab_spec; exact Hab].
  - apply existsb_exists in H. destruct H as [x [Hx Ex]]. exists x. split; [apply In_face_hfs; exact Hx|].
    destruct (cell_of s x) as [c'|]; [|discriminate]. apply Nat.eqb_eq in Ex. congruence.
Qed.

Lemma hfs_soundb_sound s a b : hfs_soundb s a b = true -> hfs_sound s a b.
Proof.
  unfold hfs_soundb. rewrite forallb_forall. intros H h Hh [x [Hin Hab]].
  specialize (H h ltac:(apply in_seq; lia)). apply orb_true_iff in H. destruct H as [H|H].
  - exfalso. apply negb_true_iff in H. assert (Q : existsb (is_ab a b) (hfs_at s h) = true); [|congruence].
    apply existsb_exists. exists x. split; [exact Hin|apply is_ab_spec; exact Hab].
  - apply memb_In. exact H.
Qed.

Definition no_deleted_cell_listsb (s : mesh) (a b : nat) : bool :=
  forallb (fun c => negb (c_deleted s c) || negb (existsb (is_ab a b) (cell_at s c))) (seq 0 (nc s)).

Lemma no_deleted_cell_listsb_sound s a b : no_deleted_cell_listsb s a b = true -> no_deleted_cell_lists s a b.
Proof.
  unfold no_deleted_cell_listsb. rewrite forallb_forall. intros H c Hc D hf Hin.
  specialize (H c ltac:(apply in_seq; lia)). rewrite D in H. cbn [negb orb] in H. apply negb_true_iff in H.
  assert (Q : is_ab a b hf = false).
  { destruct (is_ab a b hf) eqn:Q; [|reflexivity]. assert (existsb (is_ab a b) (cell_at s c) = true); [|congruence].
    apply existsb_exists. exists hf. tauto. }
  unfold is_ab in Q. apply orb_false_iff in Q. rewrite !Nat.eqb_neq in Q. exact Q.
Qed.

(* ---------------------------------------------------------------- summaries exported by Props/Properties_C17.v *)
Theorem swap_face_exact_summary a b s : a <> b -> a < nf s -> b < nf s ->
  fbu_ok s -> ebu_ok s -> lens_ok s -> no_deleted_cell_lists s a b ->
  let s' := swap_face_indices a b s in
  cells s' = map (map (swap_half a b)) (cells s) /\
  (ebu s = true -> inc_hfs s' = map (map (swap_half a b)) (inc_hfs s)) /\
  (fbu s = true -> inc_cell s' = swap_nth (2 * a + 1) (2 * b + 1) None (swap_nth (2 * a) (2 * b) None (inc_cell s))) /\
  s' = face_relabeled a b s /\
  s' = set_flags (vbu s) (ebu s) (fbu s) (deferred s) (fast s)
         (set_inc_cell (inc_cell (face_relabeled a b s))
           (set_inc_hfs (inc_hfs (face_relabeled a b s)) (swap_face_indices a b (caches_off_f s)))).
Proof.
  intros N Ha Hb FO EO L HD. cbv zeta.
  pose proof (swap_face_exact_relabeling a b s N Ha Hb FO EO L HD) as R.
  destruct L as (L1 & L2 & L3 & _).
  assert (CF : fbu s = true -> cells_found s a b) by (intros F; apply cells_found_of_exact; assumption).
  assert (HS : ebu s = true -> hfs_sound s a b) by (intros E; apply hfs_sound_of_exact; auto).
  split; [rewrite R; reflexivity|]. split; [intros E; apply swap_face_inc_hfs_relabeled; auto|].
  split; [intros F; apply swap_face_inc_cell_fbu; assumption|]. split; [exact R|].
  apply swap_face_cache_guided_is_scan_plus_relabeled_caches; assumption.
Qed.

Theorem swap_face_exactly_when a b s : a <> b ->
  let s' := swap_face_indices a b s in
  (fbu s = true -> (cells s' = map (map (swap_half a b)) (cells s) <-> cells_found s a b)) /\
  (ebu s = true -> (inc_hfs s' = map (map (swap_half a b)) (inc_hfs s) <-> hfs_sound s a b)).
Proof.
  intros N. split; intros M; [apply swap_face_cells_relabeled_iff|apply swap_face_inc_hfs_relabeled_iff]; assumption.
Qed.

Lemma cell_entries_sound_of_exact s c : fbu_ok s -> fbu s = true -> length (inc_cell s) = 2 * nf s -> cell_entries_sound s c.
Proof.
  intros OK F L hf H. destruct (Nat.lt_ge_cases hf (2 * nf s)) as [Hlt|Hge].
  - apply (OK F hf Hlt c). exact H.
  - rewrite nth_overflow in H by lia. discriminate.
Qed.

(* ---------------------------------------------------------------- the exactness invariant of C01 survives the relabeling *)
Lemma In_map_swap_half a b x l : In x (map (swap_half a b) l) <-> In (swap_half a b x) l.
Proof.
  rewrite in_map_iff. split.
  - intros [y [<- H]]. rewrite swap_half_involutive. exact H.
  - intros H. exists (swap_half a b x). split; [apply swap_half_involutive|exact H].
Qed.

Lemma swap_idx_lt a b n x : a < n -> b < n -> (swap_idx a b x < n <-> x < n).
Proof. intros Ha Hb. unfold swap_idx. destruct (Nat.eqb_spec x a); [lia|]. destruct (Nat.eqb_spec x b); lia. Qed.

Lemma swap_half_lt a b n x : a < n -> b < n -> (swap_half a b x < 2 * n <-> x < 2 * n).
Proof.
  intros Ha Hb. destruct (swap_half_spec a b x) as [Q1 Q2]. pose proof (swap_idx_lt a b n (x / 2) Ha Hb) as Q.
  rewrite <- Q1 in Q. lia.
Qed.

Lemma face_at_face_relabeled a b s f : a < nf s -> b < nf s -> face_at (face_relabeled a b s) f = face_at s (swap_idx a b f).
Proof.
  intros Ha Hb. unfold face_at, face_relabeled. rsf. rewrite nth_swap_nth by assumption. unfold swap_idx.
  destruct (Nat.eqb_spec f a); [reflexivity|]. destruct (Nat.eqb_spec f b); reflexivity.
Qed.

Lemma f_deleted_face_relabeled a b s f : a < length (fdel s) -> b < length (fdel s) ->
  f_deleted (face_relabeled a b s) f = f_deleted s (swap_idx a b f).
Proof.
  intros Ha Hb. unfold f_deleted, face_relabeled. rsf. rewrite nth_swap_nth by assumption. unfold swap_idx.
  destruct (Nat.eqb_spec f a); [reflexivity|]. destruct (Nat.eqb_spec f b); reflexivity.
Qed.

Theorem bu_inv_face_relabeled a b s : a <> b -> a < nf s -> b < nf s -> bu_inv s -> bu_inv (face_relabeled a b s).
Proof.
  intros N Ha Hb (VO & EO & FO & (R1 & R2 & R3) & (L1 & L2 & L3 & L4 & L5 & L6)).
  assert (NF : nf (face_relabeled a b s) = nf s) by apply nf_face_relabeled.
  assert (NC : nc (face_relabeled a b s) = nc s) by (unfold nc, face_relabeled; rsf; apply map_length).
  assert (NE : ne (face_relabeled a b s) = ne s) by reflexivity.
  split; [exact VO|]. split; [|split; [|split; [split; [exact R1|split]|]]].
  - (* ebu_ok *)
    intros E h Hh x. change (ebu s = true) in E. rewrite NE in Hh.
    replace (hfs_at (face_relabeled a b s) h) with (map (swap_half a b) (hfs_at s h))
      by (unfold hfs_at, face_relabeled; rsf; rewrite E; symmetry; apply nth_map_map_half).
    rewrite In_map_swap_half, (EO E h Hh (swap_half a b x)), NF, halfface_face_relabeled by assumption.
    rewrite f_deleted_face_relabeled by lia. destruct (swap_half_spec a b x) as [Q _]. rewrite Q.
    pose proof (swap_idx_lt a b (nf s) (x / 2) Ha Hb). tauto.
  - (* fbu_ok *)
    intros F hf Hhf c. change (fbu s = true) in F. rewrite NF in Hhf.
    rewrite cell_of_face_relabeled by (try assumption; exact (L3 F)).
    rewrite (FO F (swap_half a b hf) (proj2 (swap_half_lt a b (nf s) hf Ha Hb) Hhf) c), NC.
    rewrite cell_at_face_relabeled, In_map_swap_half. reflexivity.
  - (* refs_ok, faces *)
    intros f Hf D h Hin. rewrite NF in Hf. rewrite f_deleted_face_relabeled in D by lia. rewrite face_at_face_relabeled in Hin by assumption.
    exact (R2 (swap_idx a b f) (proj2 (swap_idx_lt a b (nf s) f Ha Hb) Hf) D h Hin).
  - (* refs_ok, cells *)
    intros c Hc D hf Hin. rewrite NC in Hc. rewrite cell_at_face_relabeled in Hin. apply In_map_swap_half in Hin.
    rewrite NF. apply (swap_half_lt a b (nf s) hf Ha Hb). exact (R3 c Hc D _ Hin).
  - (* lens_ok *)
    unfold lens_ok. rewrite NF, NC. unfold face_relabeled. rsf. split; [exact L1|]. split; [|split; [|split; [exact L4|split; [|exact L6]]]].
    + intros E. rewrite E, map_length. exact (L2 E).
    + intros F. rewrite F, !swap_nth_length. exact (L3 F).
    + rewrite swap_nth_length. exact L5.
Qed.

(* so: a face swap keeps the caches exact, provided no deferred-deleted cell lists a halfface of a or b *)
Theorem bu_inv_swap_face a b s : a < nf s -> b < nf s -> bu_inv s -> no_deleted_cell_lists s a b -> bu_inv (swap_face_indices a b s).
Proof.
  intros Ha Hb B HD. destruct (Nat.eq_dec a b) as [->|N]; [rewrite swap_face_self; exact B|].
  pose proof B as (VO & EO & FO & R & L).
  rewrite (swap_face_exact_relabeling a b s N Ha Hb FO EO L HD). apply bu_inv_face_relabeled; assumption.
Qed.
