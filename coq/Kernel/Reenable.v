(* Kernel/Reenable.v -- C12: disabling a bottom-up incidence kind only empties its cache; re-enabling it yields the exact
   incidences, and changes nothing else. *)
From Coq Require Import ZArith Lia Bool Arith List ZifyNat ZifyBool.
From OVM Require Import Base.ListX Base.ListLemmas Base.ListLemmas2 Kernel.State Kernel.Ops Kernel.Mirror Kernel.Construct
                        Kernel.Recompute Kernel.Closure Kernel.DeferredDelete.
Import ListNotations.
Ltac Zify.zify_post_hook ::= Z.div_mod_to_equations.
Local Open Scope nat_scope.

(* everything but the three caches and the three incidence flags *)
Definition core_eq (s t : mesh) : Prop :=
  nv t = nv s /\ edges t = edges s /\ faces t = faces s /\ cells t = cells s /\
  vdel t = vdel s /\ edel t = edel s /\ fdel t = fdel s /\ cdel t = cdel s /\
  (ndv t = ndv s /\ nde t = nde s /\ ndf t = ndf s /\ ndc t = ndc s) /\
  (deferred t = deferred s /\ fast t = fast s) /\
  (forall k, props k t = props k s).

Lemma core_eq_refl s : core_eq s s.
Proof. unfold core_eq. repeat split; auto. Qed.

Ltac rse := cbn [set_nv set_edges set_faces set_cells set_vdel set_edel set_fdel set_cdel set_counts set_flags
                set_out_hes set_inc_hfs set_inc_cell set_props
                nv edges faces cells vdel edel fdel cdel ndv nde ndf ndc vbu ebu fbu deferred fast
                out_hes inc_hfs inc_cell pv pe phe pf phf pc pm props fst snd].

(* ---- vertex incidences *)
Theorem enable_vbu_effect b s : let s' := enable_vbu b s in
  core_eq s s' /\ vbu s' = b /\ ebu s' = ebu s /\ fbu s' = fbu s /\ inc_hfs s' = inc_hfs s /\ inc_cell s' = inc_cell s /\
  out_hes s' = (if b then (if vbu s then out_hes s else compute_vbu s) else []).
Proof.
  unfold enable_vbu, core_eq. destruct b; destruct (vbu s); rse; repeat split; auto; intros k; destruct k; reflexivity.
Qed.

Theorem reenabled_vertex_incidences_exact s : vbu s = false -> vbu_ok (enable_vbu true s).
Proof.
  intros V. pose proof (enable_vbu_effect true s) as E. cbv zeta in E.
  destruct E as ((c1&c2&c3&c4&c5&c6&c7&c8&_)&_&_&_&_&_&O). rewrite V in O.
  intros _ v Hv h. unfold out_at, ne, e_deleted, he_from, edge_at. rewrite O, c2, c6. rewrite c1 in Hv.
  destruct (compute_vbu_exact s) as [_ X]. exact (proj2 (X v Hv) h).
Qed.

(* ---- face incidences *)
Theorem enable_fbu_effect b s : let s' := enable_fbu b s in
  core_eq s s' /\ fbu s' = b /\ vbu s' = vbu s /\ ebu s' = ebu s /\ out_hes s' = out_hes s /\
  inc_cell s' = (if b then (if fbu s then inc_cell s else compute_fbu s) else []).
Proof.
  unfold enable_fbu. cbv zeta.
  match goal with |- context [if ?c then reorder_edges ?es ?t else ?t] => set (cnd := c); set (t0 := t); set (es0 := es) end.
  assert (T : core_eq s t0 /\ fbu t0 = b /\ vbu t0 = vbu s /\ ebu t0 = ebu s /\ out_hes t0 = out_hes s /\
              inc_cell t0 = (if b then (if fbu s then inc_cell s else compute_fbu s) else [])).
  { unfold t0, core_eq. destruct b; destruct (fbu s); rse; repeat split; auto; intros k; destruct k; reflexivity. }
  clearbody t0 es0.
  destruct cnd; [|exact T].
  pose proof (reorder_edges_frame (live_edges t0) t0) as R. cbv zeta in R.
  destruct R as (A1&A2&A3&A4&A5&A6&A7&A8&A9&A10&A11&(B1&B2&B3&B4)&(C1&C2&C3&C4&C5)).
  destruct T as ((c1&c2&c3&c4&c5&c6&c7&c8&(n1&n2&n3&n4)&(m1&m2)&cp)&t2&t3&t4&t5&t6).
  unfold core_eq. repeat split; try congruence. all: try (intros k; rewrite A11; apply cp).
Qed.

Definition no_shared_halfface (s : mesh) : Prop :=
  forall c1 c2 hf, In c1 (live_cells s) -> In c2 (live_cells s) -> In hf (cell_at s c1) -> In hf (cell_at s c2) -> c1 = c2.

Theorem reenabled_face_incidences_exact s : fbu s = false -> no_shared_halfface s -> fbu_ok (enable_fbu true s).
Proof.
  intros F U. pose proof (enable_fbu_effect true s) as E. cbv zeta in E.
  destruct E as ((c1&c2&c3&c4&c5&c6&c7&c8&_)&_&_&_&_&O). rewrite F in O.
  intros _ hf Hhf c. unfold cell_of, nc, c_deleted, cell_at, nf in *. rewrite O, c4, c8. rewrite c3 in Hhf.
  exact (compute_fbu_exact s U hf c Hhf).
Qed.

(* ---- edge incidences: membership is exact right after the recomputation; with face incidences on, the lists are then put
        into rotational order by reorder_incident_halffaces (C09), which is outside this theorem *)
Theorem enable_ebu_effect_without_reorder b s : fbu s = false \/ b = false \/ ebu s = true -> let s' := enable_ebu b s in
  core_eq s s' /\ ebu s' = b /\ vbu s' = vbu s /\ fbu s' = fbu s /\ out_hes s' = out_hes s /\ inc_cell s' = inc_cell s /\
  inc_hfs s' = (if b then (if ebu s then inc_hfs s else compute_ebu s) else []).
Proof.
  intros H. unfold enable_ebu, core_eq.
  destruct b; destruct (ebu s) eqn:E; rse; try (repeat split; auto; intros k; destruct k; reflexivity).
  destruct H as [H|[H|H]]; try discriminate. rewrite H. rse. repeat split; auto; intros k; destruct k; reflexivity.
Qed.

Theorem reenabled_edge_incidences_exact_partial s : ebu s = false -> fbu s = false -> ebu_ok (enable_ebu true s).
Proof.
  intros E F. pose proof (enable_ebu_effect_without_reorder true s (or_introl F)) as X. cbv zeta in X.
  destruct X as ((c1&c2&c3&c4&c5&c6&c7&c8&_)&_&_&_&_&_&O). rewrite E in O.
  intros _ h Hh x. unfold hfs_at, nf, f_deleted, halfface, face_at, ne in *. rewrite O, c3, c7. rewrite c2 in Hh.
  destruct (compute_ebu_membership s) as [_ X]. exact (X h Hh x).
Qed.

(* ---- the closure a deletion removes does not depend on which caches exist: it is a function of definitions and flags *)
Lemma closure_depends_on_core s t : core_eq s t -> forall v,
  edges_at_vertex t v = edges_at_vertex s v /\
  (forall es, faces_at_edges t es = faces_at_edges s es) /\ (forall fs, cells_at_faces t fs = cells_at_faces s fs).
Proof.
  intros (c1&c2&c3&c4&c5&c6&c7&c8&_) v.
  unfold edges_at_vertex, faces_at_edges, cells_at_faces, live_edges, live_faces, live_cells,
         e_deleted, f_deleted, c_deleted, edge_at, face_at, cell_at, ne, nf, nc.
  rewrite c2, c3, c4, c6, c7, c8. repeat split; reflexivity.
Qed.
