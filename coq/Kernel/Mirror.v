(* Kernel/Mirror.v -- the orientation algebra of half-entities on the kernel model (C08):
   opposite halfedge swaps from/to, opposite halfface = reversed list of opposites, opp involutive. *)
From Coq Require Import ZArith Lia Bool Arith ZifyNat ZifyBool.
From OVM Require Import Kernel.State Kernel.Ops.
Ltac Zify.zify_post_hook ::= Z.div_mod_to_equations.
Local Open Scope nat_scope.

Lemma even_mod2 h : Nat.even h = (h mod 2 =? 0).
Proof.
  destruct (Nat.even h) eqn:E.
  - apply Nat.even_spec in E. destruct E as [k ->]. symmetry. apply Nat.eqb_eq. lia.
  - assert (O : Nat.odd h = true) by (rewrite <- Nat.negb_even, E; reflexivity).
    apply Nat.odd_spec in O. destruct O as [k ->]. symmetry. apply Nat.eqb_neq. lia.
Qed.

Lemma opp_div2 h : opp h / 2 = h / 2.
Proof.
  unfold opp. rewrite even_mod2. destruct (Nat.eqb_spec (h mod 2) 0) as [E|E]; lia.
Qed.

Lemma opp_even h : Nat.even (opp h) = negb (Nat.even h).
Proof.
  unfold opp. destruct (Nat.even h) eqn:E.
  - rewrite Nat.even_succ. rewrite <- Nat.negb_even, E. reflexivity.
  - rewrite even_mod2 in *. destruct (Nat.eqb_spec (h mod 2) 0) as [E1|E1]; [discriminate|].
    destruct (Nat.eqb_spec (pred h mod 2) 0) as [E2|E2]; [reflexivity|]. lia.
Qed.

Lemma opp_involutive h : opp (opp h) = h.
Proof.
  unfold opp at 1. rewrite opp_even. unfold opp. destruct (Nat.even h) eqn:E; simpl.
  - reflexivity.
  - destruct h; [discriminate | reflexivity].
Qed.

Lemma opp_neq h : opp h <> h.
Proof. unfold opp. destruct (Nat.even h) eqn:E; [lia|]. destruct h; [discriminate|lia]. Qed.

Lemma opp_mod2 h : opp h mod 2 = 1 - h mod 2.
Proof.
  unfold opp. rewrite even_mod2. destruct (Nat.eqb_spec (h mod 2) 0) as [E|E]; lia.
Qed.

Lemma opp_spec h : opp h = 2 * (h / 2) + (1 - h mod 2).
Proof. unfold opp. rewrite even_mod2. destruct (Nat.eqb_spec (h mod 2) 0) as [E|E]; lia. Qed.

Lemma he_from_opp s h : he_from s (opp h) = he_to s h.
Proof.
  unfold he_from, he_to. rewrite opp_div2, opp_even.
  destruct (edge_at s (h / 2)) as [a b]. destruct (Nat.even h); reflexivity.
Qed.

Lemma he_to_opp s h : he_to s (opp h) = he_from s h.
Proof.
  unfold he_from, he_to. rewrite opp_div2, opp_even.
  destruct (edge_at s (h / 2)) as [a b]. destruct (Nat.even h); reflexivity.
Qed.

Lemma map_opp_involutive l : map opp (map opp l) = l.
Proof. induction l as [|x l IH]; simpl; [reflexivity|]. rewrite opp_involutive, IH. reflexivity. Qed.

Lemma halfface_opp s hf : halfface s (opp hf) = rev (map opp (halfface s hf)).
Proof.
  unfold halfface. rewrite opp_div2, opp_even. destruct (Nat.even hf); simpl.
  - reflexivity.
  - rewrite map_rev, rev_involutive, map_opp_involutive. reflexivity.
Qed.

Lemma halfface_opp_opp s hf : halfface s (opp (opp hf)) = halfface s hf.
Proof. rewrite opp_involutive. reflexivity. Qed.

(* ---- closed loops: each halfedge ends where the (cyclically) next one begins *)

Definition closed_cycle (s : mesh) (l : list nat) : Prop :=
  l <> [] /\ forall i, i < length l ->
     he_to s (nth i l 0) = he_from s (nth (if S i =? length l then 0 else S i) l 0).

Lemma chain_ok_spec s first : forall l, l <> [] ->
  (chain_ok s first l = true <->
   forall i, i < length l ->
     he_to s (nth i l 0) = he_from s (if S i =? length l then first else nth (S i) l 0)).
Proof.
  induction l as [|h t IH]; intros Hne; [congruence|].
  destruct t as [|h2 t'].
  - simpl. split.
    + intros E i Hi. assert (i = 0) by lia. subst. simpl. apply Nat.eqb_eq. exact E.
    + intros H. specialize (H 0 ltac:(simpl; lia)). simpl in H. apply Nat.eqb_eq. exact H.
  - change (chain_ok s first (h :: h2 :: t')) with ((he_to s h =? he_from s h2) && chain_ok s first (h2 :: t')).
    rewrite andb_true_iff, Nat.eqb_eq. rewrite IH by congruence. split.
    + intros [E H] i Hi. destruct i as [|i].
      * simpl. exact E.
      * specialize (H i ltac:(simpl in *; lia)).
        change (length (h :: h2 :: t')) with (S (length (h2 :: t'))).
        change (nth (S i) (h :: h2 :: t') 0) with (nth i (h2 :: t') 0).
        change (nth (S (S i)) (h :: h2 :: t') 0) with (nth (S i) (h2 :: t') 0).
        replace (S (S i) =? S (length (h2 :: t'))) with (S i =? length (h2 :: t')) by reflexivity.
        exact H.
    + intros H. split.
      * specialize (H 0 ltac:(simpl; lia)). simpl in H. exact H.
      * intros i Hi. specialize (H (S i) ltac:(simpl in *; lia)).
        change (length (h :: h2 :: t')) with (S (length (h2 :: t'))) in H.
        change (nth (S i) (h :: h2 :: t') 0) with (nth i (h2 :: t') 0) in H.
        change (nth (S (S i)) (h :: h2 :: t') 0) with (nth (S i) (h2 :: t') 0) in H.
        replace (S (S i) =? S (length (h2 :: t'))) with (S i =? length (h2 :: t')) in H by reflexivity.
        exact H.
Qed.

Lemma loop_ok_spec s l : loop_ok s l = true <-> closed_cycle s l.
Proof.
  unfold loop_ok, closed_cycle. destruct l as [|h t].
  - split; [discriminate | intros [H _]; congruence].
  - rewrite chain_ok_spec by congruence. split.
    + intros H. split; [congruence|]. intros i Hi. rewrite (H i Hi).
      destruct (S i =? length (h :: t)); reflexivity.
    + intros [_ H] i Hi. rewrite (H i Hi). destruct (S i =? length (h :: t)); reflexivity.
Qed.

(* the other side of a closed face is closed: the mirrored cycle *)
Lemma closed_cycle_mirror s l : closed_cycle s l -> closed_cycle s (rev (map opp l)).
Proof.
  intros [Hne H]. split.
  - intros E. apply (f_equal (@length nat)) in E. rewrite rev_length, map_length in E.
    destruct l; [congruence | discriminate].
  - rewrite rev_length, map_length. intros i Hi.
    set (n := length l) in *.
    assert (Hn : length (map opp l) = n) by apply map_length.
    rewrite (rev_nth (map opp l)) by lia. rewrite Hn.
    assert (Hm : forall k, k < n -> nth k (map opp l) 0 = opp (nth k l 0)).
    { intros k Hk. rewrite (nth_indep _ 0 (opp 0)) by lia. apply map_nth. }
    rewrite Hm by lia. rewrite he_to_opp.
    destruct (Nat.eqb_spec (S i) n) as [E|E].
    + rewrite (rev_nth (map opp l)) by lia. rewrite Hn, Hm by lia. rewrite he_from_opp.
      replace (n - S i) with 0 by lia. replace (n - 1) with (n - 1) by lia.
      specialize (H (n - 1) ltac:(lia)).
      replace (S (n - 1) =? n) with true in H by (symmetry; apply Nat.eqb_eq; lia).
      symmetry. exact H.
    + rewrite (rev_nth (map opp l)) by lia. rewrite Hn, Hm by lia. rewrite he_from_opp.
      specialize (H (n - S (S i)) ltac:(lia)).
      replace (S (n - S (S i)) =? n) with false in H by (symmetry; apply Nat.eqb_neq; lia).
      replace (S (n - S (S i))) with (n - S i) in H by lia.
      symmetry. exact H.
Qed.
