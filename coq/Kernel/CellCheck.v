(* Kernel/CellCheck.v -- C11: the topology check of add_cell (sort / adjacent_find / unique-by-edge,
   TopologyKernel.cc:388-434) accepts exactly the halfface lists in which every halfedge occurs once
   and its opposite halfedge occurs once.  Pure list reasoning, for every input. *)
From Coq Require Import ZArith Lia Bool Arith List ZifyNat ZifyBool Permutation Sorted.
From OVM Require Import Base.ListX Base.ListLemmas Kernel.State Kernel.Ops Kernel.Mirror.
Import ListNotations.
Ltac Zify.zify_post_hook ::= Z.div_mod_to_equations.
Local Open Scope nat_scope.

Definition se (a b : nat) : bool := a / 2 =? b / 2.

(* ---- insertion sort *)
Inductive sorted_le : list nat -> Prop :=
| sl_nil : sorted_le []
| sl_one x : sorted_le [x]
| sl_cons x y l : x <= y -> sorted_le (y :: l) -> sorted_le (x :: y :: l).

Lemma sorted_insert_perm x l : Permutation (x :: l) (sorted_insert x l).
Proof.
  induction l as [|y t IH]; simpl; [apply Permutation_refl|].
  destruct (x <=? y); [apply Permutation_refl|].
  eapply Permutation_trans; [apply perm_swap|]. apply perm_skip. exact IH.
Qed.

Lemma sort_perm l : Permutation l (sort_nat l).
Proof.
  induction l as [|x t IH]; simpl; [constructor|].
  eapply Permutation_trans; [apply perm_skip; exact IH|]. apply sorted_insert_perm.
Qed.

Lemma sorted_insert_sorted x l : sorted_le l -> sorted_le (sorted_insert x l).
Proof.
  induction 1 as [| y | y z l Hyz Hs IH]; simpl.
  - constructor.
  - destruct (Nat.leb_spec x y); constructor; try lia; constructor.
  - destruct (Nat.leb_spec x y).
    + constructor; [lia|]. constructor; assumption.
    + simpl in IH. destruct (Nat.leb_spec x z).
      * constructor; [lia|]. constructor; [lia|assumption].
      * constructor; [assumption|]. exact IH.
Qed.

Lemma sort_sorted l : sorted_le (sort_nat l).
Proof. induction l as [|x t IH]; simpl; [constructor|]. apply sorted_insert_sorted. exact IH. Qed.

(* ---- adjacent_find on a sorted list finds a duplicate iff there is one *)
Lemma sorted_le_tail x l : sorted_le (x :: l) -> sorted_le l.
Proof. inversion 1; subst; [constructor|assumption]. Qed.

Lemma sorted_le_ge x l : sorted_le (x :: l) -> forall y, In y l -> x <= y.
Proof.
  revert x. induction l as [|z l IH]; intros x H y Hy; [destruct Hy|].
  inversion H; subst. destruct Hy as [->|Hy]; [assumption|].
  assert (z <= y) by (apply IH; assumption). lia.
Qed.

Lemma no_adjacent_dup_strict l : sorted_le l -> has_adjacent_dup l = false -> strictly_sorted l.
Proof.
  induction 1 as [| y | y z l Hyz Hs IH]; intros H.
  - constructor.
  - constructor.
  - change (has_adjacent_dup (y :: z :: l)) with ((y =? z) || has_adjacent_dup (z :: l)) in H.
    apply orb_false_iff in H. destruct H as [H1 H2]. apply Nat.eqb_neq in H1.
    constructor; [lia|]. apply IH. exact H2.
Qed.

Lemma strict_no_adjacent_dup l : strictly_sorted l -> has_adjacent_dup l = false.
Proof.
  induction 1 as [| y | y z l Hyz Hs IH]; try reflexivity.
  change (has_adjacent_dup (y :: z :: l)) with ((y =? z) || has_adjacent_dup (z :: l)).
  rewrite IH. replace (y =? z) with false by (symmetry; apply Nat.eqb_neq; lia). reflexivity.
Qed.

Lemma strictly_sorted_NoDup l : strictly_sorted l -> NoDup l.
Proof.
  induction l as [|x l IH]; intros H; [constructor|].
  constructor.
  - intros Hin. pose proof (strictly_sorted_lt _ _ H _ Hin). lia.
  - apply IH. inversion H; subst; [constructor|assumption].
Qed.

Lemma sorted_NoDup_strict l : sorted_le l -> NoDup l -> strictly_sorted l.
Proof.
  induction 1 as [| y | y z l Hyz Hs IH]; intros H; try constructor.
  - inversion H as [|? ? Hn Hd]; subst. assert (y <> z) by (intros ->; apply Hn; left; reflexivity). lia.
  - apply IH. inversion H; assumption.
Qed.

(* ---- std::unique by edge on a strictly sorted list *)
Lemma unique_from_all_diff x t : (forall z, In z t -> se x z = false) -> unique_from se x t = x :: unique_by se t.
Proof.
  destruct t as [|z t]; intros H; [reflexivity|]. simpl. rewrite (H z (or_introl eq_refl)). reflexivity.
Qed.

Lemma groups_key : forall n L, length L <= n -> strictly_sorted L ->
  length L <= 2 * length (unique_by se L) /\
  (length L = 2 * length (unique_by se L) <-> forall h, In h L -> In (opp h) L).
Proof.
  induction n as [|n IH]; intros L Hn HS.
  - destruct L; [|simpl in Hn; lia]. simpl. split; [lia|]. split; [intros _ h []|reflexivity].
  - destruct L as [|x T]; [simpl; split; [lia|split; [intros _ h []|reflexivity]]|].
    destruct T as [|y T'].
    + simpl. split; [lia|]. split; [lia|]. intros H. specialize (H x (or_introl eq_refl)).
      destruct H as [H|[]]. exfalso. exact (opp_neq x (eq_sym H)).
    + assert (Hxy : x < y) by (inversion HS; assumption).
      assert (HST : strictly_sorted (y :: T')) by (inversion HS; assumption).
      assert (HT'gt : forall z, In z T' -> y < z) by (apply strictly_sorted_lt; exact HST).
      destruct (se x y) eqn:E.
      * (* x and y are the two halfedges of one edge *)
        unfold se in E. apply Nat.eqb_eq in E.
        assert (Hy : y = x + 1 /\ x mod 2 = 0) by lia. destruct Hy as [-> Hx0].
        assert (HST' : strictly_sorted T') by (inversion HST; subst; [constructor|assumption]).
        assert (Hdiff : forall z, In z T' -> se x z = false).
        { intros z Hz. specialize (HT'gt z Hz). unfold se. apply Nat.eqb_neq. lia. }
        change (unique_by se (x :: x + 1 :: T')) with (unique_from se x (x + 1 :: T')).
        simpl unique_from. replace (se x (x + 1)) with true by (symmetry; unfold se; apply Nat.eqb_eq; lia).
        rewrite unique_from_all_diff by exact Hdiff.
        destruct (IH T' ltac:(simpl in Hn; lia) HST') as [I1 I2].
        simpl length. split; [lia|].
        assert (Ox : opp x = x + 1) by (rewrite opp_spec; lia).
        assert (Oy : opp (x + 1) = x) by (rewrite opp_spec; lia).
        split.
        -- intros HL h Hh. assert (HL' : length T' = 2 * length (unique_by se T')) by lia.
           destruct Hh as [<-|[<-|Hh]].
           ++ rewrite Ox. right; left; reflexivity.
           ++ rewrite Oy. left; reflexivity.
           ++ right; right. apply (proj1 I2 HL'). exact Hh.
        -- intros HC. assert (HC' : forall h, In h T' -> In (opp h) T').
           { intros h Hh. destruct (HC h (or_intror (or_intror Hh))) as [Eq|[Eq|?]]; [| |assumption];
               exfalso; specialize (HT'gt h Hh); rewrite opp_spec in Eq; lia. }
           apply (proj2 I2) in HC'. lia.
      * (* x has no partner: the check fails, and indeed opp x is missing *)
        change (unique_by se (x :: y :: T')) with (unique_from se x (y :: T')).
        simpl unique_from. rewrite E.
        change (unique_from se y T') with (unique_by se (y :: T')).
        destruct (IH (y :: T') ltac:(simpl in Hn |- *; lia) HST) as [I1 _].
        simpl length in *. split; [lia|]. split; [lia|].
        intros HC. exfalso. specialize (HC x (or_introl eq_refl)).
        unfold se in E. apply Nat.eqb_neq in E.
        destruct HC as [Eq|HC]; [exact (opp_neq x (eq_sym Eq))|].
        assert (y <= opp x).
        { destruct HC as [<-|HC]; [lia|]. specialize (HT'gt _ HC). lia. }
        rewrite opp_spec in H. lia.
Qed.

Lemma closed_under_opp_perm l l' : Permutation l l' -> (forall h, In h l -> In (opp h) l) -> forall h, In h l' -> In (opp h) l'.
Proof.
  intros P H h Hh. apply (Permutation_in _ P). apply H. apply (Permutation_in _ (Permutation_sym P)). exact Hh.
Qed.

Definition matched_once (hes : list nat) : Prop := NoDup hes /\ forall h, In h hes -> In (opp h) hes.

Theorem cell_check_spec s hfs :
  cell_check s hfs = true <-> (hfs <> [] /\ matched_once (concat (map (halfface s) hfs))).
Proof.
  unfold cell_check, matched_once. destruct hfs as [|hf0 rest] eqn:Ehfs.
  - split; [discriminate|]. intros [H _]. congruence.
  - rewrite <- Ehfs. set (hes := concat (map (halfface s) hfs)).
    pose proof (sort_perm hes) as P. pose proof (sort_sorted hes) as S.
    set (L := sort_nat hes) in *.
    destruct (has_adjacent_dup L) eqn:D.
    + split; [discriminate|]. intros [_ [ND _]]. exfalso.
      assert (NDL : NoDup L) by (eapply Permutation_NoDup; eassumption).
      pose proof (strict_no_adjacent_dup _ (sorted_NoDup_strict _ S NDL)). congruence.
    + pose proof (no_adjacent_dup_strict _ S D) as SS.
      destruct (groups_key (length L) L (le_n _) SS) as [_ K].
      rewrite Nat.eqb_eq. rewrite K. split.
      * intros HC. split; [rewrite Ehfs; discriminate|]. split.
        -- eapply Permutation_NoDup; [apply Permutation_sym; exact P|]. apply strictly_sorted_NoDup. exact SS.
        -- apply (closed_under_opp_perm L hes (Permutation_sym P)). exact HC.
      * intros [_ [_ HC]]. apply (closed_under_opp_perm hes L P). exact HC.
Qed.
