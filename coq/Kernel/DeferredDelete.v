(* Kernel/DeferredDelete.v -- C02 in deferred mode: delete_vertex/edge/face/cell flag exactly the entity and its
   upward closure as deleted, leave every definition, every other flag and every property value untouched, and
   advance the deleted-counters by exactly the number of newly flagged entities. *)
From Coq Require Import ZArith Lia Bool Arith List ZifyNat ZifyBool.
From OVM Require Import Base.ListX Base.ListLemmas Base.ListLemmas2 Kernel.State Kernel.Ops Kernel.Mirror Kernel.Construct
                        Kernel.Recompute Kernel.Closure.
Import ListNotations.
Ltac Zify.zify_post_hook ::= Z.div_mod_to_equations.
Local Open Scope nat_scope.

Definition flag_all (L : list nat) (l : list bool) : list bool := fold_left (fun l x => upd x true l) L l.

(* s' is s with the entities dv/de/df/dc additionally flagged (caches may differ) *)
Definition dstep (s s' : mesh) (dv de df dc : list nat) : Prop :=
  nv s' = nv s /\ edges s' = edges s /\ faces s' = faces s /\ cells s' = cells s /\
  vdel s' = flag_all dv (vdel s) /\ edel s' = flag_all de (edel s) /\ fdel s' = flag_all df (fdel s) /\ cdel s' = flag_all dc (cdel s) /\
  ndv s' = ndv s + length dv /\ nde s' = nde s + length de /\ ndf s' = ndf s + length df /\ ndc s' = ndc s + length dc /\
  (vbu s' = vbu s /\ ebu s' = ebu s /\ fbu s' = fbu s /\ deferred s' = deferred s /\ fast s' = fast s) /\
  (forall k, props k s' = props k s).

Lemma dstep_refl s : dstep s s [] [] [] [].
Proof. unfold dstep, flag_all. simpl. repeat split; auto; lia. Qed.

Lemma dstep_trans s s' s'' a b c d a' b' c' d' :
  dstep s s' a b c d -> dstep s' s'' a' b' c' d' -> dstep s s'' (a ++ a') (b ++ b') (c ++ c') (d ++ d').
Proof.
  unfold dstep, flag_all.
  intros (x1&x2&x3&x4&x5&x6&x7&x8&x9&x10&x11&x12&(f1&f2&f3&f4&f5)&xp) (y1&y2&y3&y4&y5&y6&y7&y8&y9&y10&y11&y12&(g1&g2&g3&g4&g5)&yp).
  rewrite !fold_left_app, !app_length. repeat split; try congruence; try lia.
  all: try (intros k; rewrite yp; apply xp).
Qed.

(* anything that only touches the caches is a dstep with nothing flagged *)
Lemma dstep_caches s t : nv t = nv s -> edges t = edges s -> faces t = faces s -> cells t = cells s ->
  vdel t = vdel s -> edel t = edel s -> fdel t = fdel s -> cdel t = cdel s ->
  (ndv t = ndv s /\ nde t = nde s /\ ndf t = ndf s /\ ndc t = ndc s) ->
  (vbu t = vbu s /\ ebu t = ebu s /\ fbu t = fbu s /\ deferred t = deferred s /\ fast t = fast s) ->
  (forall k, props k t = props k s) -> dstep s t [] [] [] [].
Proof. intros. unfold dstep, flag_all. simpl. repeat split; try tauto; lia. Qed.

Lemma dstep_reorder_edges es s : dstep s (reorder_edges es s) [] [] [] [].
Proof.
  pose proof (reorder_edges_frame es s) as R. cbv zeta in R.
  destruct R as (A1&A2&A3&A4&A5&A6&A7&A8&A9&A10&A11&A12&A13). apply dstep_caches; auto.
Qed.
Lemma dstep_reorder_one e s : dstep s (reorder_incident_halffaces e s) [] [] [] [].
Proof. exact (dstep_reorder_edges [e] s). Qed.

Ltac rsd := cbn [set_nv set_edges set_faces set_cells set_vdel set_edel set_fdel set_cdel set_counts set_flags
                set_out_hes set_inc_hfs set_inc_cell set_props
                nv edges faces cells vdel edel fdel cdel ndv nde ndf ndc vbu ebu fbu deferred fast
                out_hes inc_hfs inc_cell pv pe phe pf phf pc pm props fst snd].

Lemma dstep_set_inc_cell x s : dstep s (set_inc_cell x s) [] [] [] [].
Proof. apply dstep_caches; rsd; auto. all: try (intros k; destruct k; reflexivity). Qed.
Lemma dstep_set_inc_hfs x s : dstep s (set_inc_hfs x s) [] [] [] [].
Proof. apply dstep_caches; rsd; auto. all: try (intros k; destruct k; reflexivity). Qed.
Lemma dstep_set_out_hes x s : dstep s (set_out_hes x s) [] [] [] [].
Proof. apply dstep_caches; rsd; auto. all: try (intros k; destruct k; reflexivity). Qed.

Lemma dstep_nil_trans s s' s'' a b c d : dstep s s' [] [] [] [] -> dstep s' s'' a b c d -> dstep s s'' a b c d.
Proof. intros H1 H2. exact (dstep_trans s s' s'' [] [] [] [] a b c d H1 H2). Qed.

(* ---------------------------------------------------------------- the four cores in deferred mode *)
Lemma delete_cell_core_deferred h s : deferred s = true -> dstep s (delete_cell_core h s) [] [] [] [h].
Proof.
  intros D. unfold delete_cell_core. rewrite D. rewrite andb_false_r.
  match goal with |- dstep s (if deferred ?x then _ else _) _ _ _ _ => set (s1 := x) end.
  assert (H1 : dstep s s1 [] [] [] []).
  { unfold s1. destruct (fbu s); [|apply dstep_refl].
    match goal with |- dstep s (if ?b then reorder_edges ?es ?t else ?t) _ _ _ _ => destruct b end.
    - eapply dstep_nil_trans; [apply dstep_set_inc_cell|apply dstep_reorder_edges].
    - apply dstep_set_inc_cell. }
  assert (D1 : deferred s1 = true) by (destruct H1 as (_&_&_&_&_&_&_&_&_&_&_&_&(_&_&_&d&_)&_); congruence).
  rewrite D1. clearbody s1. eapply dstep_nil_trans; [exact H1|].
  unfold dstep, flag_all. rsd. simpl. repeat split; auto; try lia. all: try (intros k; destruct k; reflexivity).
Qed.

Lemma dstep_face_cache_fold h l : forall s,
  dstep s (fold_left (fun s' he =>
                   let s'' := set_inc_hfs (remove_at (opp he) (2 * h + 1) (remove_at he (2 * h) (inc_hfs s'))) s' in
                   if fbu s'' then reorder_incident_halffaces (he / 2) s'' else s'') l s) [] [] [] [].
Proof.
  induction l as [|he l IH]; intros s; [apply dstep_refl|].
  cbn [fold_left]. eapply dstep_nil_trans; [|apply IH]. cbv zeta.
  match goal with |- dstep s (if ?b then reorder_incident_halffaces ?e ?t else ?t) _ _ _ _ => destruct b end.
  - eapply dstep_nil_trans; [apply dstep_set_inc_hfs|apply dstep_reorder_one].
  - apply dstep_set_inc_hfs.
Qed.

Lemma delete_face_core_deferred h s : deferred s = true -> dstep s (delete_face_core h s) [] [] [h] [].
Proof.
  intros D. unfold delete_face_core. rewrite D. rewrite andb_false_r.
  match goal with |- dstep s (if deferred ?x then _ else _) _ _ _ _ => set (s1 := x) end.
  assert (H1 : dstep s s1 [] [] [] []).
  { unfold s1. destruct (ebu s); [|apply dstep_refl]. apply dstep_face_cache_fold. }
  assert (D1 : deferred s1 = true) by (destruct H1 as (_&_&_&_&_&_&_&_&_&_&_&_&(_&_&_&d&_)&_); congruence).
  rewrite D1. clearbody s1. eapply dstep_nil_trans; [exact H1|].
  unfold dstep, flag_all. rsd. simpl. repeat split; auto; try lia. all: try (intros k; destruct k; reflexivity).
Qed.

Lemma delete_edge_core_deferred h s : deferred s = true -> dstep s (delete_edge_core h s) [] [h] [] [].
Proof.
  intros D. unfold delete_edge_core. rewrite D. rewrite andb_false_r.
  match goal with |- dstep s (if deferred ?x then _ else _) _ _ _ _ => set (s1 := x) end.
  assert (H1 : dstep s s1 [] [] [] []).
  { unfold s1. destruct (vbu s); [|apply dstep_refl]. destruct (edge_at s h). apply dstep_set_out_hes. }
  assert (D1 : deferred s1 = true) by (destruct H1 as (_&_&_&_&_&_&_&_&_&_&_&_&(_&_&_&d&_)&_); congruence).
  rewrite D1. clearbody s1. eapply dstep_nil_trans; [exact H1|].
  unfold dstep, flag_all. rsd. simpl. repeat split; auto; try lia. all: try (intros k; destruct k; reflexivity).
Qed.

Lemma delete_vertex_core_deferred h s : deferred s = true -> dstep s (delete_vertex_core h s) [h] [] [] [].
Proof.
  intros D. unfold delete_vertex_core. rewrite D. rewrite andb_false_r. rewrite D.
  unfold dstep, flag_all. rsd. simpl. repeat split; auto; try lia. all: try (intros k; destruct k; reflexivity).
Qed.

Lemma dstep_deferred s s' a b c d : dstep s s' a b c d -> deferred s = true -> deferred s' = true.
Proof. intros (_&_&_&_&_&_&_&_&_&_&_&_&(_&_&_&x&_)&_) H. congruence. Qed.

(* ---------------------------------------------------------------- descending loops over closure lists *)
Lemma del_desc_cells l : forall s, deferred s = true -> dstep s (del_desc delete_cell_core l s) [] [] [] (rev l).
Proof.
  unfold del_desc. induction (rev l) as [|x r IH]; intros s D; [apply dstep_refl|]. simpl.
  pose proof (delete_cell_core_deferred x s D) as H1.
  pose proof (IH _ (dstep_deferred _ _ _ _ _ _ H1 D)) as H2.
  exact (dstep_trans _ _ _ [] [] [] [x] [] [] [] r H1 H2).
Qed.
Lemma del_desc_faces l : forall s, deferred s = true -> dstep s (del_desc delete_face_core l s) [] [] (rev l) [].
Proof.
  unfold del_desc. induction (rev l) as [|x r IH]; intros s D; [apply dstep_refl|]. simpl.
  pose proof (delete_face_core_deferred x s D) as H1.
  pose proof (IH _ (dstep_deferred _ _ _ _ _ _ H1 D)) as H2.
  exact (dstep_trans _ _ _ [] [] [x] [] [] [] r [] H1 H2).
Qed.
Lemma del_desc_edges l : forall s, deferred s = true -> dstep s (del_desc delete_edge_core l s) [] (rev l) [] [].
Proof.
  unfold del_desc. induction (rev l) as [|x r IH]; intros s D; [apply dstep_refl|]. simpl.
  pose proof (delete_edge_core_deferred x s D) as H1.
  pose proof (IH _ (dstep_deferred _ _ _ _ _ _ H1 D)) as H2.
  exact (dstep_trans _ _ _ [] [x] [] [] [] r [] [] H1 H2).
Qed.

(* ---------------------------------------------------------------- the four public deletions *)
Theorem delete_cell_deferred c s : deferred s = true -> dstep s (delete_cell c s) [] [] [] [c].
Proof. apply delete_cell_core_deferred. Qed.

Theorem delete_face_deferred f s : deferred s = true ->
  dstep s (delete_face f s) [] [] [f] (rev (incident_cells_of_faces s [f])).
Proof.
  intros D. unfold delete_face. set (cs := incident_cells_of_faces s [f]).
  pose proof (del_desc_cells cs s D) as H1.
  pose proof (delete_face_core_deferred f _ (dstep_deferred _ _ _ _ _ _ H1 D)) as H2.
  pose proof (dstep_trans _ _ _ _ _ _ _ _ _ _ _ H1 H2) as H. simpl in H. rewrite app_nil_r in H. exact H.
Qed.

Theorem delete_edge_deferred e s : deferred s = true ->
  let fs := incident_faces_of_edges s [e] in let cs := incident_cells_of_faces s fs in
  dstep s (delete_edge e s) [] [e] (rev fs) (rev cs).
Proof.
  intros D fs cs. unfold delete_edge. fold fs. fold cs.
  pose proof (del_desc_cells cs s D) as H1.
  pose proof (del_desc_faces fs _ (dstep_deferred _ _ _ _ _ _ H1 D)) as H2.
  pose proof (dstep_trans _ _ _ _ _ _ _ _ _ _ _ H1 H2) as H12.
  pose proof (delete_edge_core_deferred e _ (dstep_deferred _ _ _ _ _ _ H12 D)) as H3.
  pose proof (dstep_trans _ _ _ _ _ _ _ _ _ _ _ H12 H3) as H. simpl in H. rewrite !app_nil_r in H. exact H.
Qed.

Theorem delete_vertex_deferred v s : deferred s = true ->
  let es := incident_edges_of_vertex s v in let fs := incident_faces_of_edges s es in let cs := incident_cells_of_faces s fs in
  dstep s (delete_vertex v s) [v] (rev es) (rev fs) (rev cs).
Proof.
  intros D es fs cs. unfold delete_vertex. fold es. fold fs. fold cs.
  pose proof (del_desc_cells cs s D) as H1.
  pose proof (del_desc_faces fs _ (dstep_deferred _ _ _ _ _ _ H1 D)) as H2.
  pose proof (dstep_trans _ _ _ _ _ _ _ _ _ _ _ H1 H2) as H12.
  pose proof (del_desc_edges es _ (dstep_deferred _ _ _ _ _ _ H12 D)) as H3.
  pose proof (dstep_trans _ _ _ _ _ _ _ _ _ _ _ H12 H3) as H123.
  pose proof (delete_vertex_core_deferred v _ (dstep_deferred _ _ _ _ _ _ H123 D)) as H4.
  pose proof (dstep_trans _ _ _ _ _ _ _ _ _ _ _ H123 H4) as H. simpl in H. rewrite !app_nil_r in H. exact H.
Qed.

(* ---------------------------------------------------------------- reading the flags *)
Lemma flag_all_length L : forall l, length (flag_all L l) = length l.
Proof. unfold flag_all. induction L as [|x L IH]; intros l; simpl; [reflexivity|]. rewrite IH. apply upd_length. Qed.

Lemma nth_flag_all L : forall l i, i < length l -> nth i (flag_all L l) false = nth i l false || memb i L.
Proof.
  unfold flag_all. induction L as [|x L IH]; intros l i Hi.
  - simpl. rewrite orb_false_r. reflexivity.
  - cbn [fold_left]. rewrite IH by (rewrite upd_length; exact Hi). rewrite nth_upd.
    unfold memb. cbn [existsb]. fold (memb i L).
    destruct (Nat.eqb_spec x i) as [->|N].
    + rewrite Nat.eqb_refl. replace (i <? length l) with true by (symmetry; apply Nat.ltb_lt; exact Hi).
      simpl. destruct (nth i l false); reflexivity.
    + replace (i =? x) with false by (symmetry; apply Nat.eqb_neq; lia). simpl. reflexivity.
Qed.

Lemma memb_rev i l : memb i (rev l) = memb i l.
Proof.
  destruct (memb i l) eqn:E.
  - apply memb_In. apply -> in_rev. apply memb_In. exact E.
  - destruct (memb i (rev l)) eqn:E2; [|reflexivity]. apply memb_In in E2. apply in_rev in E2. apply memb_In in E2. congruence.
Qed.

(* ---------------------------------------------------------------- counting flags *)
Definition ntrue (l : list bool) : nat := length (filter (fun b => b) l).

Lemma ntrue_upd_fresh x l : x < length l -> nth x l false = false -> ntrue (upd x true l) = S (ntrue l).
Proof.
  revert x. induction l as [|b l IH]; intros [|x] Hx Hn; simpl in *; try lia.
  - subst b. unfold ntrue. simpl. reflexivity.
  - unfold ntrue in *. simpl. destruct b; simpl; rewrite IH by (assumption || lia); reflexivity.
Qed.

Lemma ntrue_flag_all L : forall l, NoDup L -> (forall x, In x L -> x < length l /\ nth x l false = false) ->
  ntrue (flag_all L l) = ntrue l + length L.
Proof.
  unfold flag_all. induction L as [|x L IH]; intros l ND H; simpl; [lia|].
  inversion ND as [|? ? Hx HL]; subst.
  rewrite IH; [| exact HL |].
  - rewrite ntrue_upd_fresh; [lia| |]; apply (H x (or_introl eq_refl)).
  - intros y Hy. rewrite upd_length. split; [apply (H y (or_intror Hy))|].
    rewrite nth_upd_neq; [apply (H y (or_intror Hy))|]. intros ->. exact (Hx Hy).
Qed.

(* the deleted-counters count exactly the set flags *)
Definition counts_ok (s : mesh) : Prop :=
  ndv s = ntrue (vdel s) /\ nde s = ntrue (edel s) /\ ndf s = ntrue (fdel s) /\ ndc s = ntrue (cdel s).

Lemma NoDup_rev_iff {A} (l : list A) : NoDup l -> NoDup (rev l).
Proof. apply NoDup_rev. Qed.

Lemma dstep_counts_ok s s' dv de df dc : dstep s s' dv de df dc -> counts_ok s ->
  NoDup dv -> NoDup de -> NoDup df -> NoDup dc ->
  (forall x, In x dv -> x < length (vdel s) /\ nth x (vdel s) false = false) ->
  (forall x, In x de -> x < length (edel s) /\ nth x (edel s) false = false) ->
  (forall x, In x df -> x < length (fdel s) /\ nth x (fdel s) false = false) ->
  (forall x, In x dc -> x < length (cdel s) /\ nth x (cdel s) false = false) ->
  counts_ok s'.
Proof.
  intros (x1&x2&x3&x4&x5&x6&x7&x8&x9&x10&x11&x12&_) (c1&c2&c3&c4) N1 N2 N3 N4 H1 H2 H3 H4. unfold counts_ok.
  rewrite x5, x6, x7, x8, x9, x10, x11, x12, !ntrue_flag_all by assumption. lia.
Qed.
