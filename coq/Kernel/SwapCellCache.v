(* Kernel/SwapCellCache.v -- C17 for cells in EVERY mode: with face incidences on, swap_cell_indices rewrites the incident-cell
   cache to exactly the relabeled cache (every entry a becomes b and vice versa, nothing else changes), provided only that the
   cache is sound for the two cells (an entry naming a or b belongs to a halfface that cell lists).  This covers deferred-deleted
   cells and a live cell created on the halffaces of a deleted one (the configuration of the repaired defect D16). *)
From Coq Require Import ZArith Lia Bool Arith List ZifyNat ZifyBool.
From OVM Require Import Base.ListX Base.ListLemmas Base.ListLemmas2 Kernel.State Kernel.Ops Kernel.SwapEffects Kernel.SwapInvol.
Import ListNotations.
Local Open Scope nat_scope.

Definition fix1 (x y : nat) (l : list (option nat)) (hf : nat) : list (option nat) :=
  match nth hf l None with
  | Some c => if c =? x then upd hf (Some y) l else l
  | None => l
  end.

Lemma fix1_length x y l hf : length (fix1 x y l hf) = length l.
Proof. unfold fix1. destruct (nth hf l None) as [c|]; [destruct (c =? x); [apply upd_length|]|]; reflexivity. Qed.

Lemma fold_fix1_length x y hfs : forall l, length (fold_left (fix1 x y) hfs l) = length l.
Proof. induction hfs as [|h t IH]; intros l; simpl; [reflexivity|]. rewrite IH. apply fix1_length. Qed.

(* after the loop: an entry is rewritten iff it named x and its halfface is in the list *)
Lemma fold_fix1_spec x y hfs : x <> y -> forall l k,
  nth k (fold_left (fix1 x y) hfs l) None =
    match nth k l None with
    | Some c => if (c =? x) && memb k hfs then Some y else Some c
    | None => None
    end.
Proof.
  intros N. induction hfs as [|h t IH]; intros l k; simpl.
  - destruct (nth k l None) as [c|]; [rewrite andb_false_r|]; reflexivity.
  - rewrite IH. unfold fix1. unfold memb. cbn [existsb]. fold (memb k t).
    destruct (nth h l None) as [c|] eqn:E.
    + destruct (Nat.eqb_spec c x) as [->|Nc].
      * rewrite nth_upd. destruct (Nat.eqb_spec h k) as [->|Nh]; simpl.
        -- destruct (Nat.ltb_spec k (length l)) as [Hk|Hk].
           ++ rewrite E. rewrite Nat.eqb_refl. simpl.
              destruct (Nat.eqb_spec y x); [congruence|]. simpl. rewrite Nat.eqb_refl. reflexivity.
           ++ rewrite nth_overflow in E by exact Hk. discriminate.
        -- destruct (nth k l None) as [c'|]; [|reflexivity].
           destruct (Nat.eqb_spec k h); [congruence|]. reflexivity.
      * destruct (nth k l None) as [c'|] eqn:E2; [|reflexivity].
        destruct (Nat.eqb_spec k h) as [->|]; [|reflexivity].
        rewrite E in E2. inversion E2; subst. destruct (Nat.eqb_spec c' x); [congruence|]. reflexivity.
    + destruct (nth k l None) as [c'|] eqn:E2; [|reflexivity].
      destruct (Nat.eqb_spec k h) as [->|]; [congruence|]. reflexivity.
Qed.

Lemma fold_upd_some_spec b L : forall (l : list (option nat)) k,
  nth k (fold_left (fun l hf => upd hf (Some b) l) L l) None =
    if memb k L && (k <? length l) then Some b else nth k l None.
Proof.
  induction L as [|h t IH]; intros l k; simpl; [reflexivity|].
  rewrite IH, upd_length, nth_upd. unfold memb. cbn [existsb]. fold (memb k t).
  destruct (Nat.eqb_spec k h) as [->|N]; simpl.
  - rewrite Nat.eqb_refl. simpl. destruct (memb h t); simpl; destruct (h <? length l); reflexivity.
  - destruct (Nat.eqb_spec h k); [congruence|]. simpl. reflexivity.
Qed.

(* the cache is sound for cell c: an entry naming c belongs to a halfface that c lists *)
Definition cell_entries_sound (s : mesh) (c : nat) : Prop :=
  forall hf, nth hf (inc_cell s) None = Some c -> In hf (cell_at s c).

Theorem swap_cell_cache_relabeled a b s : a <> b -> fbu s = true ->
  cell_entries_sound s a -> cell_entries_sound s b ->
  inc_cell (swap_cell_indices a b s) = map (option_map (swap_idx a b)) (inc_cell s).
Proof.
  intros N F Sa Sb. unfold swap_cell_indices. rewrite (proj2 (Nat.eqb_neq a b) N), F.
  cbn [set_cells set_cdel set_inc_cell swap_prop_elems set_props inc_cell].
  change (fun (l : list (option nat)) (hf : nat) => match nth hf l None with
            | Some c => if c =? b then upd hf (Some a) l else l | None => l end) with (fix1 b a).
  set (to_b := filter _ (cell_at s a)).
  apply (list_ext_nth _ _ None).
  - rewrite map_length. set (g := fun (l : list (option nat)) (hf : nat) => upd hf (Some b) l).
    assert (G : forall L l, length (fold_left g L l) = length l).
    { induction L as [|h t IH]; intros l; simpl; [reflexivity|]. rewrite IH. apply upd_length. }
    rewrite G, fold_fix1_length. reflexivity.
  - intros k Hk.
    assert (Hk' : k < length (inc_cell s)).
    { revert Hk. set (g := fun (l : list (option nat)) (hf : nat) => upd hf (Some b) l).
      assert (G : forall L l, length (fold_left g L l) = length l).
      { induction L as [|h t IH]; intros l; simpl; [reflexivity|]. rewrite IH. apply upd_length. }
      rewrite G, fold_fix1_length. tauto. }
    rewrite fold_upd_some_spec, fold_fix1_length, fold_fix1_spec by (intros E; apply N; symmetry; exact E).
    replace (k <? length (inc_cell s)) with true by (symmetry; apply Nat.ltb_lt; exact Hk').
    rewrite andb_true_r.
    change (nth k (map (option_map (swap_idx a b)) (inc_cell s)) None) with (nth k (map (option_map (swap_idx a b)) (inc_cell s)) (option_map (swap_idx a b) None)).
    rewrite map_nth.
    assert (Mb : memb k to_b = true <-> nth k (inc_cell s) None = Some a).
    { unfold to_b. rewrite memb_In, filter_In. split.
      - intros [_ H]. destruct (nth k (inc_cell s) None) as [c|]; [|discriminate]. apply Nat.eqb_eq in H. congruence.
      - intros H. split; [apply Sa; exact H|]. rewrite H. apply Nat.eqb_refl. }
    destruct (nth k (inc_cell s) None) as [c|] eqn:E.
    + unfold option_map, swap_idx.
      destruct (Nat.eqb_spec c a) as [->|Nca].
      * replace (memb k to_b) with true by (symmetry; apply Mb; reflexivity). reflexivity.
      * replace (memb k to_b) with false.
        2:{ destruct (memb k to_b) eqn:M; [|reflexivity]. pose proof (proj1 Mb eq_refl) as Q. congruence. }
        destruct (Nat.eqb_spec c b) as [->|Ncb]; simpl.
        -- replace (memb k (cell_at s b)) with true; [reflexivity|]. symmetry. apply memb_In. apply Sb. exact E.
        -- reflexivity.
    + replace (memb k to_b) with false; [reflexivity|].
      destruct (memb k to_b) eqn:M; [|reflexivity]. pose proof (proj1 Mb eq_refl) as Q. discriminate.
Qed.

Lemma soundness_after_swap a b s : a <> b -> fbu s = true -> a < nc s -> b < nc s ->
  cell_entries_sound s a -> cell_entries_sound s b ->
  cell_entries_sound (swap_cell_indices a b s) a /\ cell_entries_sound (swap_cell_indices a b s) b.
Proof.
  intros N F Ha Hb Sa Sb.
  pose proof (swap_cell_cache_relabeled a b s N F Sa Sb) as R.
  pose proof (swap_cell_effect a b s N) as E. cbv zeta in E. destruct E as (c1&_).
  unfold cell_entries_sound, cell_at, nc in *. rewrite R, c1.
  assert (M : forall hf, nth hf (map (option_map (swap_idx a b)) (inc_cell s)) None = option_map (swap_idx a b) (nth hf (inc_cell s) None)).
  { intros hf. change (@None nat) with (option_map (swap_idx a b) None) at 1. apply map_nth. }
  split; intros hf; rewrite M; destruct (nth hf (inc_cell s) None) as [c|] eqn:E; try discriminate; unfold option_map, swap_idx;
    intros Q; rewrite nth_swap_nth by assumption; rewrite ?Nat.eqb_refl.
  - (* entry is a after the swap: it was b before *)
    destruct (Nat.eqb_spec c a) as [E1|E1]; [injection Q as Q'; congruence|].
    destruct (Nat.eqb_spec c b) as [E2|E2]; [|injection Q as Q'; congruence].
    subst c. apply Sb. exact E.
  - destruct (Nat.eqb_spec c a) as [E1|E1].
    + subst c. destruct (Nat.eqb_spec b a); [congruence|]. apply Sa. exact E.
    + destruct (Nat.eqb_spec c b) as [E2|E2]; injection Q as Q'; congruence.
Qed.

Theorem swap_cell_involutive_every_mode a b s : sized s -> a < nc s -> b < nc s ->
  (fbu s = true -> cell_entries_sound s a /\ cell_entries_sound s b) ->
  swap_cell_indices a b (swap_cell_indices a b s) = s.
Proof.
  intros Z Ha Hb S. destruct (fbu s) eqn:F; [|apply SwapInvol.swap_cell_scan_involutive; assumption].
  destruct (S eq_refl) as [Sa Sb].
  destruct (Nat.eq_dec a b) as [->|N]; [rewrite !swap_cell_self; reflexivity|].
  destruct Z as (Lv & Le & Lf & Lc & Lp).
  pose proof (swap_cell_effect a b s N) as E1. cbv zeta in E1.
  pose proof (swap_cell_cache_relabeled a b s N F Sa Sb) as R1.
  destruct (soundness_after_swap a b s N F Ha Hb Sa Sb) as [Sa' Sb'].
  set (s1 := swap_cell_indices a b s) in *.
  pose proof (swap_cell_effect a b s1 N) as E2. cbv zeta in E2.
  destruct E1 as (c1&c2&c3&c4&c5&c6&c7&c8&c9&c10&c11&c12&c13&c14&c15&c16&c17&(n1&n2&n3&n4)&(f1&f2&f3&f4&f5)&ci).
  destruct E2 as (d1&d2&d3&d4&d5&d6&d7&d8&d9&d10&d11&d12&d13&d14&d15&d16&d17&(m1&m2&m3&m4)&(g1&g2&g3&g4&g5)&di).
  pose proof (swap_cell_cache_relabeled a b s1 N ltac:(congruence) Sa' Sb') as R2.
  unfold nc in *.
  apply SwapInvol.mesh_ext; try congruence.
  - rewrite d1, c1. apply swap_nth_involutive; assumption.
  - rewrite d2, c2. apply swap_nth_involutive; lia.
  - rewrite R2, R1. rewrite map_map. rewrite <- (map_id (inc_cell s)) at 2. apply map_ext.
    intros [c|]; simpl; [rewrite swap_idx_involutive|]; reflexivity.
  - rewrite d3, c3. apply (map_pswap_involutive a b (pc s) (length (cells s))); try assumption.
    intros p Hp. apply (Lp KC p Hp).
Qed.
