(* Kernel/StatusGC.v -- StatusAttrib::garbage_collection (Attribs/StatusAttribT_impl.hh:49-135) as the composition
   it is: delete the status-marked entities in forced deferred mode, optional manifoldness pass, old->new handle maps through
   four temporary int properties, collect_garbage, handle rewrite, mode restore. *)
From OVM Require Export Kernel.Ops.
Local Open Scope nat_scope.

Definition sgc_marked (mv me mf mc : list nat) (s : mesh) : mesh :=
  let s1 := fold_left (fun s v => if live_v s v && memb v mv then delete_vertex v s else s) (seq 0 (nv s)) s in
  let s2 := fold_left (fun s e => if live_e s e && memb e me then delete_edge e s else s) (seq 0 (ne s1)) s1 in
  let s3 := fold_left (fun s f => if live_f s f && memb f mf then delete_face f s else s) (seq 0 (nf s2)) s2 in
  fold_left (fun s c => if live_c s c && memb c mc then delete_cell c s else s) (seq 0 (nc s3)) s3.

Definition sgc_manifold (s : mesh) : mesh :=
  let t0 := enable_fbu true (enable_ebu true (enable_vbu true s)) in
  let t1 := fold_left (fun s f => if live_f s f then
                                    match cell_of s (2 * f) with
                                    | Some _ => s
                                    | None => match cell_of s (2 * f + 1) with Some _ => s | None => delete_face f s end
                                    end
                                  else s) (seq 0 (nf t0)) t0 in
  let t2 := fold_left (fun s e => if live_e s e && (length (hfs_at s (2 * e)) =? 0) then delete_edge e s else s) (seq 0 (ne t1)) t1 in
  fold_left (fun s v => if live_v s v && (length (out_at s v) =? 0) then delete_vertex v s else s) (seq 0 (nv t2)) t2.

Definition idx_prop (n : nat) : parray := {| pdef := 0%Z; pdata := map Z.of_nat (seq 0 n) |}.

(* new handle of old index i: the slot that now holds the token i, if any *)
Definition new_of_old (p : parray) (i : nat) : option nat :=
  find_index (fun z => Z.eqb z (Z.of_nat i)) (pdata p).

Definition last_prop (l : list parray) : parray := last l {| pdef := 0%Z; pdata := [] |}.

Definition status_gc (pm : bool) (mv me mf mc tv the thf tc : list nat) (s : mesh)
  : mesh * (list (option nat) * list (option nat) * list (option nat) * list (option nat)) :=
  let def := deferred s in
  let s0 := enable_deferred true s in
  let s1 := sgc_marked mv me mf mc s0 in
  let s2 := if pm then sgc_manifold s1 else s1 in
  let tracking := negb (match tv, the, thf, tc with [], [], [], [] => true | _, _, _, _ => false end) in
  if tracking then
    let s3 := set_props KC (pc s2 ++ [idx_prop (nc s2)])
              (set_props KHF (phf s2 ++ [idx_prop (2 * nf s2)])
              (set_props KHE (phe s2 ++ [idx_prop (2 * ne s2)])
              (set_props KV (pv s2 ++ [idx_prop (nv s2)]) s2))) in
    let s4 := collect_garbage s3 in
    let r := (map (new_of_old (last_prop (pv s4))) tv, map (new_of_old (last_prop (phe s4))) the,
              map (new_of_old (last_prop (phf s4))) thf, map (new_of_old (last_prop (pc s4))) tc) in
    let s5 := set_props KC (removelast (pc s4)) (set_props KHF (removelast (phf s4))
              (set_props KHE (removelast (phe s4)) (set_props KV (removelast (pv s4)) s4))) in
    (enable_deferred def s5, r)
  else (enable_deferred def (collect_garbage s2), ([], [], [], [])).
