(* Kernel/ExactInv.v -- C01: the cache-exactness invariant together with the range facts it needs, and its preservation
   by the growth operations (add_vertex, add_edge, add_face).  add_cell and the deletions are in ExactCells.v / ExactDelete.v. *)
From Coq Require Import ZArith Lia Bool Arith List ZifyNat ZifyBool.
From OVM Require Import Base.ListX Base.ListLemmas Base.ListLemmas2 Kernel.State Kernel.Ops Kernel.Mirror Kernel.Construct
                        Kernel.Recompute Kernel.Closure.
Import ListNotations.
Ltac Zify.zify_post_hook ::= Z.div_mod_to_equations.
Local Open Scope nat_scope.

(* stored handles of not-deleted entities are in range *)
Definition refs_ok (s : mesh) : Prop :=
  (forall e, e < ne s -> e_deleted s e = false -> fst (edge_at s e) < nv s /\ snd (edge_at s e) < nv s) /\
  (forall f, f < nf s -> f_deleted s f = false -> forall h, In h (face_at s f) -> h < 2 * ne s) /\
  (forall c, c < nc s -> c_deleted s c = false -> forall hf, In hf (cell_at s c) -> hf < 2 * nf s).

(* an enabled cache has one slot per entity; flag arrays have one flag per entity *)
Definition lens_ok (s : mesh) : Prop :=
  (vbu s = true -> length (out_hes s) = nv s) /\ (ebu s = true -> length (inc_hfs s) = 2 * ne s) /\
  (fbu s = true -> length (inc_cell s) = 2 * nf s) /\
  length (edel s) = ne s /\ length (fdel s) = nf s /\ length (cdel s) = nc s.

Definition bu_inv (s : mesh) : Prop := vbu_ok s /\ ebu_ok s /\ fbu_ok s /\ refs_ok s /\ lens_ok s.

Lemma bu_inv_empty : bu_inv empty_mesh.
Proof.
  unfold bu_inv, vbu_ok, ebu_ok, fbu_ok, refs_ok, lens_ok, empty_mesh, ne, nf, nc. cbn.
  repeat split; intros; try lia; try discriminate; try reflexivity; try (exfalso; lia).
Qed.

Ltac rsi := cbn [set_nv set_edges set_faces set_cells set_vdel set_edel set_fdel set_cdel set_counts set_flags
                set_out_hes set_inc_hfs set_inc_cell set_props resize_props resize_eprops resize_fprops resize_cprops resize_vprops
                nv edges faces cells vdel edel fdel cdel ndv nde ndf ndc vbu ebu fbu deferred fast
                out_hes inc_hfs inc_cell pv pe phe pf phf pc pm props fst snd].

(* ---------------------------------------------------------------- add_vertex *)
Lemma add_vertex_view s : let s' := fst (add_vertex s) in
  nv s' = S (nv s) /\ edges s' = edges s /\ faces s' = faces s /\ cells s' = cells s /\
  edel s' = edel s /\ fdel s' = fdel s /\ cdel s' = cdel s /\
  vbu s' = vbu s /\ ebu s' = ebu s /\ fbu s' = fbu s /\ inc_hfs s' = inc_hfs s /\ inc_cell s' = inc_cell s /\
  out_hes s' = (if vbu s then resize (S (nv s)) [] (out_hes s) else out_hes s).
Proof. unfold add_vertex. cbn [fst]. destruct (vbu s) eqn:V; rsi; rewrite ?V; rsi; rewrite ?V; repeat split; auto. Qed.

Theorem bu_inv_add_vertex s : bu_inv s -> bu_inv (fst (add_vertex s)).
Proof.
  intros (VO & EO & FO & (R1 & R2 & R3) & (L1 & L2 & L3 & L4 & L5 & L6)).
  pose proof (add_vertex_view s) as W. cbv zeta in W. set (s' := fst (add_vertex s)) in *.
  destruct W as (w1&w2&w3&w4&w5&w6&w7&w8&w9&w10&w11&w12&w13).
  assert (NE : ne s' = ne s) by (unfold ne; rewrite w2; reflexivity).
  assert (NF : nf s' = nf s) by (unfold nf; rewrite w3; reflexivity).
  assert (NC : nc s' = nc s) by (unfold nc; rewrite w4; reflexivity).
  assert (EA : forall e, edge_at s' e = edge_at s e) by (intros; unfold edge_at; rewrite w2; reflexivity).
  assert (ED : forall e, e_deleted s' e = e_deleted s e) by (intros; unfold e_deleted; rewrite w5; reflexivity).
  assert (HF : forall h, he_from s' h = he_from s h) by (intros; unfold he_from; rewrite EA; reflexivity).
  unfold bu_inv. split; [|split; [|split; [|split; [split; [|split]|unfold lens_ok; split; [|split; [|split; [|split; [|split]]]]]]]].
  - (* vbu_ok *)
    intros V v Hv h. rewrite w8 in V. unfold out_at. rewrite w13, V, NE, ED, HF.
    specialize (L1 V).
    destruct (Nat.lt_ge_cases v (nv s)) as [Hlt|Hge].
    + rewrite <- (VO V v Hlt h). unfold out_at. unfold resize. rewrite firstn_all2 by lia.
      rewrite app_nth1 by lia. reflexivity.
    + assert (v = nv s) by lia. subst v. unfold resize. rewrite firstn_all2 by lia.
      rewrite app_nth2 by lia. replace (nv s - length (out_hes s)) with 0 by lia.
      replace (S (nv s) - length (out_hes s)) with 1 by lia. simpl. split; [tauto|].
      intros (Hr & Hd & Hf). destruct (R1 (h / 2) Hr Hd) as [A B].
      rewrite he_from_cases in Hf. destruct (h mod 2 =? 0); lia.
  - (* ebu_ok *)
    intros E h Hh x. rewrite w9 in E. rewrite NE in Hh. unfold hfs_at, halfface, face_at, f_deleted. rewrite w11, NF, w6, w3. exact (EO E h Hh x).
  - intros F hf Hhf c. rewrite w10 in F. rewrite NF in Hhf. unfold cell_of, cell_at, c_deleted. rewrite w12, NC, w7, w4. exact (FO F hf Hhf c).
  - intros e He Hd. rewrite NE in He. rewrite ED in Hd. rewrite EA, w1. destruct (R1 e He Hd). lia.
  - intros f Hf Hd h Hh. rewrite NF in Hf. unfold f_deleted, face_at in *. rewrite w6 in Hd. rewrite w3 in Hh. rewrite NE. exact (R2 f Hf Hd h Hh).
  - intros c Hc Hd hf Hh. rewrite NC in Hc. unfold c_deleted, cell_at in *. rewrite w7 in Hd. rewrite w4 in Hh. rewrite NF. exact (R3 c Hc Hd hf Hh).
  - intros V. rewrite w8 in V. rewrite w13, V, w1. apply resize_length.
  - intros E. rewrite w9 in E. rewrite w11, NE. exact (L2 E).
  - intros F. rewrite w10 in F. rewrite w12, NF. exact (L3 F).
  - rewrite w5, NE. exact L4.
  - rewrite w6, NF. exact L5.
  - rewrite w7, NC. exact L6.
Qed.

Theorem bu_inv_add_n_vertices n : forall s, bu_inv s -> bu_inv (add_n_vertices n s).
Proof. induction n as [|n IH]; intros s H; [exact H|]. simpl. apply IH. apply bu_inv_add_vertex. exact H. Qed.

(* ---------------------------------------------------------------- add_edge *)
Lemma append_edge_view s a b : let s' := fst (append_edge s a b) in
  nv s' = nv s /\ edges s' = edges s ++ [(a, b)] /\ faces s' = faces s /\ cells s' = cells s /\
  edel s' = edel s ++ [false] /\ fdel s' = fdel s /\ cdel s' = cdel s /\
  vbu s' = vbu s /\ ebu s' = ebu s /\ fbu s' = fbu s /\ inc_cell s' = inc_cell s /\
  out_hes s' = (if vbu s then push_at b (2 * ne s + 1) (push_at a (2 * ne s) (out_hes s)) else out_hes s) /\
  inc_hfs s' = (if ebu s then resize (2 * S (ne s)) [] (inc_hfs s) else inc_hfs s).
Proof.
  unfold append_edge. cbn [fst]. destruct (vbu s) eqn:V; destruct (ebu s) eqn:E; rsi; rewrite ?V, ?E; rsi; rewrite ?V, ?E; repeat split; auto.
Qed.

Lemma nth_app_last {A} (l : list A) x d k : nth k (l ++ [x]) d = if k <? length l then nth k l d else if k =? length l then x else d.
Proof.
  destruct (Nat.ltb_spec k (length l)); [apply app_nth1; assumption|].
  rewrite app_nth2 by assumption. destruct (Nat.eqb_spec k (length l)) as [->|].
  - rewrite Nat.sub_diag. reflexivity.
  - destruct (k - length l) as [|[|m]] eqn:E; try lia; reflexivity.
Qed.

Theorem bu_inv_append_edge s a b : bu_inv s -> a < nv s -> b < nv s -> bu_inv (fst (append_edge s a b)).
Proof.
  intros (VO & EO & FO & (R1 & R2 & R3) & (L1 & L2 & L3 & L4 & L5 & L6)) Ha Hb.
  pose proof (append_edge_view s a b) as W. cbv zeta in W. set (s' := fst (append_edge s a b)) in *.
  destruct W as (w1&w2&w3&w4&w5&w6&w7&w8&w9&w10&w11&w12&w13).
  assert (NE : ne s' = S (ne s)) by (unfold ne; rewrite w2, app_length; simpl; lia).
  assert (NF : nf s' = nf s) by (unfold nf; rewrite w3; reflexivity).
  assert (NC : nc s' = nc s) by (unfold nc; rewrite w4; reflexivity).
  assert (EA : forall e, edge_at s' e = if e <? ne s then edge_at s e else if e =? ne s then (a, b) else (0, 0)).
  { intros e. unfold edge_at, ne. rewrite w2. apply nth_app_last. }
  assert (ED : forall e, e_deleted s' e = if e <? ne s then e_deleted s e else false).
  { intros e. unfold e_deleted. rewrite w5, nth_app_last, L4. destruct (e <? ne s); [reflexivity|]. destruct (e =? ne s); reflexivity. }
  assert (HFo : forall h, h / 2 < ne s -> he_from s' h = he_from s h).
  { intros h Hh. unfold he_from. rewrite EA. replace (h / 2 <? ne s) with true by (symmetry; apply Nat.ltb_lt; exact Hh). reflexivity. }
  assert (HFn0 : he_from s' (2 * ne s) = a).
  { rewrite he_from_even, EA. rewrite Nat.ltb_irrefl, Nat.eqb_refl. reflexivity. }
  assert (HFn1 : he_from s' (2 * ne s + 1) = b).
  { rewrite he_from_odd, EA. rewrite Nat.ltb_irrefl, Nat.eqb_refl. reflexivity. }
  assert (FA : forall x, halfface s' x = halfface s x) by (intros; unfold halfface, face_at; rewrite w3; reflexivity).
  unfold bu_inv. split; [|split; [|split; [|split; [split; [|split]|unfold lens_ok; split; [|split; [|split; [|split; [|split]]]]]]]].
  - (* vbu_ok *)
    intros V v Hv h. rewrite w8 in V. rewrite w1 in Hv. specialize (L1 V). unfold out_at. rewrite w12, V.
    rewrite nth_push_at by (rewrite push_at_length; lia). rewrite nth_push_at by lia.
    fold (out_at s v). rewrite NE, ED.
    assert (Hold : In h (out_at s v) <-> (h / 2 < ne s /\ e_deleted s (h / 2) = false /\ he_from s h = v)) by (apply (VO V v Hv)).
    split.
    + intros Hin.
      assert (C : In h (out_at s v) \/ (a = v /\ h = 2 * ne s) \/ (b = v /\ h = 2 * ne s + 1)).
      { destruct (Nat.eqb_spec b v); destruct (Nat.eqb_spec a v); rewrite ?in_app_iff in Hin; simpl in Hin; intuition. }
      destruct C as [C|[[<- ->]|[<- ->]]].
      * apply Hold in C. destruct C as (c1 & c2 & c3). replace (h / 2 <? ne s) with true by (symmetry; apply Nat.ltb_lt; exact c1).
        rewrite HFo by exact c1. repeat split; auto; lia.
      * replace (2 * ne s / 2) with (ne s) by lia. rewrite Nat.ltb_irrefl. repeat split; auto; lia.
      * replace ((2 * ne s + 1) / 2) with (ne s) by lia. rewrite Nat.ltb_irrefl. repeat split; auto; lia.
    + intros (c1 & c2 & c3). destruct (Nat.ltb_spec (h / 2) (ne s)) as [Hlt|Hge].
      * rewrite HFo in c3 by exact Hlt. assert (In h (out_at s v)) by (apply Hold; tauto).
        destruct (b =? v); destruct (a =? v); rewrite ?in_app_iff; tauto.
      * assert (h = 2 * ne s \/ h = 2 * ne s + 1) as [->| ->] by lia.
        -- rewrite HFn0 in c3. subst v. rewrite Nat.eqb_refl. destruct (b =? a); rewrite ?in_app_iff; simpl; tauto.
        -- rewrite HFn1 in c3. subst v. rewrite Nat.eqb_refl. rewrite in_app_iff. simpl. tauto.
  - (* ebu_ok *)
    intros E h Hh x. rewrite w9 in E. rewrite NE in Hh. specialize (L2 E). unfold hfs_at, f_deleted. rewrite w13, E, NF, w6, FA.
    destruct (Nat.lt_ge_cases h (2 * ne s)) as [Hlt|Hge].
    + unfold resize. rewrite firstn_all2 by lia. rewrite app_nth1 by lia. exact (EO E h Hlt x).
    + unfold resize. rewrite firstn_all2 by lia. rewrite app_nth2 by lia.
      replace (2 * S (ne s) - length (inc_hfs s)) with 2 by lia.
      assert (Hnil : nth (h - length (inc_hfs s)) (repeat (@nil nat) 2) [] = []) by (destruct (h - length (inc_hfs s)) as [|[|[|m]]]; reflexivity).
      rewrite Hnil. split; [intros []|]. intros (c1 & c2 & c3). exfalso.
      apply In_halfface in c3.
      assert (Q : forall y, In y (face_at s (x / 2)) -> y < 2 * ne s) by (intros y Hy; exact (R2 (x / 2) c1 c2 y Hy)).
      destruct (Nat.even x); [specialize (Q h c3); lia|]. specialize (Q (opp h) c3). rewrite opp_spec in Q. lia.
  - intros F hf Hhf c. rewrite w10 in F. rewrite NF in Hhf. unfold cell_of, cell_at, c_deleted. rewrite w11, NC, w7, w4. exact (FO F hf Hhf c).
  - intros e He Hd. rewrite NE in He. rewrite ED in Hd. rewrite EA, w1. destruct (Nat.ltb_spec e (ne s)) as [Hlt|Hge].
    + exact (R1 e Hlt Hd).
    + assert (e = ne s) by lia. subst e. rewrite Nat.eqb_refl. simpl. lia.
  - intros f Hf Hd h Hh. rewrite NF in Hf. unfold f_deleted, face_at in *. rewrite w6 in Hd. rewrite w3 in Hh. rewrite NE.
    pose proof (R2 f Hf Hd h Hh). lia.
  - intros c Hc Hd hf Hh. rewrite NC in Hc. unfold c_deleted, cell_at in *. rewrite w7 in Hd. rewrite w4 in Hh. rewrite NF. exact (R3 c Hc Hd hf Hh).
  - intros V. rewrite w8 in V. rewrite w12, V, w1, !push_at_length. exact (L1 V).
  - intros E. rewrite w9 in E. rewrite w13, E, NE. apply resize_length.
  - intros F. rewrite w10 in F. rewrite w11, NF. exact (L3 F).
  - rewrite w5, NE, app_length, L4. simpl. lia.
  - rewrite w6, NF. exact L5.
  - rewrite w7, NC. exact L6.
Qed.

Theorem bu_inv_add_edge s a b d : bu_inv s -> a < nv s -> b < nv s -> bu_inv (fst (add_edge s a b d)).
Proof.
  intros H Ha Hb. unfold add_edge. destruct d; [apply bu_inv_append_edge; assumption|].
  destruct (find_dup_edge s a b); [exact H|apply bu_inv_append_edge; assumption].
Qed.

(* ---------------------------------------------------------------- add_face *)
Lemma append_face_view s hes : let s' := fst (append_face s hes) in
  nv s' = nv s /\ edges s' = edges s /\ faces s' = faces s ++ [hes] /\ cells s' = cells s /\
  edel s' = edel s /\ fdel s' = fdel s ++ [false] /\ cdel s' = cdel s /\
  vbu s' = vbu s /\ ebu s' = ebu s /\ fbu s' = fbu s /\ out_hes s' = out_hes s /\
  inc_hfs s' = (if ebu s then add_face_inc (nf s) hes (inc_hfs s) else inc_hfs s) /\
  inc_cell s' = (if fbu s then resize (2 * S (nf s)) None (inc_cell s) else inc_cell s).
Proof.
  unfold append_face. cbn [fst]. destruct (ebu s) eqn:E; destruct (fbu s) eqn:F; rsi; rewrite ?E, ?F; rsi; rewrite ?E, ?F; repeat split; auto.
Qed.

Theorem bu_inv_append_face s hes : bu_inv s -> (forall h, In h hes -> h < 2 * ne s) -> bu_inv (fst (append_face s hes)).
Proof.
  intros (VO & EO & FO & (R1 & R2 & R3) & (L1 & L2 & L3 & L4 & L5 & L6)) Hr.
  pose proof (append_face_view s hes) as W. cbv zeta in W. set (s' := fst (append_face s hes)) in *.
  destruct W as (w1&w2&w3&w4&w5&w6&w7&w8&w9&w10&w11&w12&w13).
  assert (NE : ne s' = ne s) by (unfold ne; rewrite w2; reflexivity).
  assert (NF : nf s' = S (nf s)) by (unfold nf; rewrite w3, app_length; simpl; lia).
  assert (NC : nc s' = nc s) by (unfold nc; rewrite w4; reflexivity).
  assert (FAt : forall f, face_at s' f = if f <? nf s then face_at s f else if f =? nf s then hes else []).
  { intros f. unfold face_at, nf. rewrite w3. apply nth_app_last. }
  assert (FD : forall f, f_deleted s' f = if f <? nf s then f_deleted s f else false).
  { intros f. unfold f_deleted. rewrite w6, nth_app_last, L5. destruct (f <? nf s); [reflexivity|]. destruct (f =? nf s); reflexivity. }
  assert (HFo : forall x, x / 2 < nf s -> halfface s' x = halfface s x).
  { intros x Hx. unfold halfface. rewrite FAt. replace (x / 2 <? nf s) with true by (symmetry; apply Nat.ltb_lt; exact Hx). reflexivity. }
  assert (OI : forall h, opp h < 2 * ne s <-> h < 2 * ne s) by (intros h; rewrite opp_spec; lia).
  unfold bu_inv. split; [|split; [|split; [|split; [split; [|split]|unfold lens_ok; split; [|split; [|split; [|split; [|split]]]]]]]].
  - (* vbu_ok: edges untouched *)
    intros V v Hv h. rewrite w8 in V. rewrite w1 in Hv. unfold out_at, e_deleted, he_from, edge_at. rewrite w11, NE, w5, w2. exact (VO V v Hv h).
  - (* ebu_ok *)
    intros E h Hh x. rewrite w9 in E. rewrite NE in Hh. specialize (L2 E). unfold hfs_at. rewrite w12, E, add_face_inc_eq.
    rewrite fold_estep_in_spec by lia. fold (hfs_at s h). rewrite (EO E h Hh x), NF, FD.
    split.
    + intros [(c1 & c2 & c3)|[[-> Hin]|[-> Hin]]].
      * replace (x / 2 <? nf s) with true by (symmetry; apply Nat.ltb_lt; exact c1). rewrite HFo by exact c1. repeat split; auto; lia.
      * replace (2 * nf s / 2) with (nf s) by lia. rewrite Nat.ltb_irrefl. repeat split; auto; try lia.
        apply In_halfface. replace (2 * nf s / 2) with (nf s) by lia. rewrite FAt, Nat.ltb_irrefl, Nat.eqb_refl.
        replace (Nat.even (2 * nf s)) with true by (symmetry; rewrite even_mod2; apply Nat.eqb_eq; lia). exact Hin.
      * replace ((2 * nf s + 1) / 2) with (nf s) by lia. rewrite Nat.ltb_irrefl. repeat split; auto; try lia.
        apply In_halfface. replace ((2 * nf s + 1) / 2) with (nf s) by lia. rewrite FAt, Nat.ltb_irrefl, Nat.eqb_refl.
        replace (Nat.even (2 * nf s + 1)) with false by (symmetry; rewrite even_mod2; apply Nat.eqb_neq; lia). exact Hin.
    + intros (c1 & c2 & c3). destruct (Nat.ltb_spec (x / 2) (nf s)) as [Hlt|Hge].
      * left. rewrite HFo in c3 by exact Hlt. tauto.
      * right. assert (Hx : x / 2 = nf s) by lia. apply In_halfface in c3. rewrite Hx, FAt, Nat.ltb_irrefl, Nat.eqb_refl in c3.
        rewrite even_mod2 in c3. destruct (Nat.eqb_spec (x mod 2) 0); [left|right]; split; try exact c3; lia.
  - (* fbu_ok: the two new halffaces have no cell *)
    intros F hf Hhf c. rewrite w10 in F. rewrite NF in Hhf. specialize (L3 F). unfold cell_of, cell_at, c_deleted. rewrite w13, F, NC, w7, w4.
    destruct (Nat.lt_ge_cases hf (2 * nf s)) as [Hlt|Hge].
    + unfold resize. rewrite firstn_all2 by lia. rewrite app_nth1 by lia. exact (FO F hf Hlt c).
    + unfold resize. rewrite firstn_all2 by lia. rewrite app_nth2 by lia.
      replace (2 * S (nf s) - length (inc_cell s)) with 2 by lia.
      assert (Hnil : nth (hf - length (inc_cell s)) (repeat (@None nat) 2) None = None) by (destruct (hf - length (inc_cell s)) as [|[|[|m]]]; reflexivity).
      rewrite Hnil. split; [discriminate|]. intros (c1 & c2 & c3). exfalso. pose proof (R3 c c1 c2 hf c3). lia.
  - intros e He Hd. rewrite NE in He. unfold e_deleted, edge_at in *. rewrite w5 in Hd. rewrite w2, w1. exact (R1 e He Hd).
  - intros f Hf Hd h Hh. rewrite NF in Hf. rewrite FD in Hd. rewrite FAt in Hh. rewrite NE.
    destruct (Nat.ltb_spec f (nf s)) as [Hlt|Hge]; [exact (R2 f Hlt Hd h Hh)|].
    assert (f = nf s) by lia. subst f. rewrite Nat.eqb_refl in Hh. exact (Hr h Hh).
  - intros c Hc Hd hf Hh. rewrite NC in Hc. unfold c_deleted, cell_at in *. rewrite w7 in Hd. rewrite w4 in Hh. rewrite NF.
    pose proof (R3 c Hc Hd hf Hh). lia.
  - intros V. rewrite w8 in V. rewrite w11, w1. exact (L1 V).
  - intros E. rewrite w9 in E. rewrite w12, E, NE, add_face_inc_eq, fold_estep_in_length. exact (L2 E).
  - intros F. rewrite w10 in F. rewrite w13, F, NF. apply resize_length.
  - rewrite w5, NE. exact L4.
  - rewrite w6, NF, app_length, L5. simpl. lia.
  - rewrite w7, NC. exact L6.
Qed.
