(* Kernel/ShiftEdge.v -- C02 / C01, IMMEDIATE NON-FAST mode: delete_edge_core h is exactly "remove slot h of the edge array and
   rename every halfedge handle above it":
     - faces s' = map (fix2 h) (faces s) for the cache-guided variant (ebu on, under ebu_ok) and for the scan variant, hence
       = map (map (cor2 (2h+1))) (faces s) when no face lists a halfedge of edge h;
     - out_hes / inc_hfs after the step are the shifted caches; vbu_ok, ebu_ok, fbu_ok, refs_ok, lens_ok, no_flags are preserved. *)
From Coq Require Import ZArith Lia Bool Arith List ZifyNat ZifyBool Permutation.
From OVM Require Import Base.ListX Base.ListLemmas Base.ListLemmas2 Kernel.State Kernel.Ops Kernel.Mirror Kernel.Construct
                        Kernel.Recompute Kernel.Closure Kernel.ExactInv Kernel.ExactDelete Kernel.DeleteEffects Kernel.DeleteDefs
                        Kernel2.LookupModel Kernel2.ListAux Kernel2.AdjacentProofs Kernel2.ReorderExact Kernel2.ExactBase Kernel.ShiftFace.
Import ListNotations.
Ltac Zify.zify_post_hook ::= Z.div_mod_to_equations.
Local Open Scope nat_scope.

(* ================================================================== the view *)

(* the two halfedges of the dying edge leave the lists of its endpoints *)
Definition edge_out (h : nat) (s : mesh) : list (list nat) :=
  let '(v0, v1) := edge_at s h in remove_at v1 (2 * h + 1) (remove_at v0 (2 * h) (out_hes s)).

(* the faces whose definition is rewritten: found through the cache at the slots >= 2h, or all not-deleted faces *)
Definition upd_faces_of (h : nat) (s : mesh) : list nat :=
  if ebu s then set_of_list (map (fun hf => hf / 2) (concat (skipn (2 * h) (inc_hfs s)))) else live_faces s.

Lemma delete_edge_core_view h s : deferred s = false -> fast s = false -> let s' := delete_edge_core h s in
  nv s' = nv s /\ edges s' = remove_nth h (edges s) /\
  faces s' = fold_left (fun fs f => upd f (fix2 h (nth f fs [])) fs) (upd_faces_of h s) (faces s) /\
  cells s' = cells s /\
  vdel s' = vdel s /\ edel s' = remove_nth h (edel s) /\ fdel s' = fdel s /\ cdel s' = cdel s /\
  out_hes s' = (if vbu s then map (map (cor2 (2 * h + 1))) (edge_out h s) else out_hes s) /\
  inc_hfs s' = (if ebu s then remove_nth (2 * h) (remove_nth (2 * h + 1) (inc_hfs s)) else inc_hfs s) /\
  inc_cell s' = inc_cell s /\
  (vbu s' = vbu s /\ ebu s' = ebu s /\ fbu s' = fbu s /\ deferred s' = false /\ fast s' = false).
Proof.
  intros D F. cbv zeta. unfold delete_edge_core, upd_faces_of, edge_out. rewrite F. cbn [andb].
  destruct (edge_at s h) as [v0 v1].
  destruct (vbu s) eqn:Vb; rsh; rewrite ?D, ?F; cbn [negb andb]; rsh;
    destruct (ebu s) eqn:Eb; rsh; rewrite ?Vb, ?Eb, ?F; cbn [negb andb]; rsh; rewrite ?Vb, ?Eb, ?F; cbn [negb andb]; rsh;
    rewrite ?Vb, ?Eb, ?F; cbn [negb andb]; rsh; repeat split; auto.
Qed.

(* ================================================================== (Ec) the referring definitions *)

(* no face lists a halfedge of edge h *)
Definition edge_free (s : mesh) (h : nat) : Prop := forall f he, In he (face_at s f) -> he / 2 <> h.

Definition faces_in_range (s : mesh) : Prop := forall f he, f < nf s -> In he (face_at s f) -> he < 2 * ne s.

Theorem delete_edge_core_faces h s : deferred s = false -> fast s = false -> no_flags s ->
  (ebu s = true -> ebu_ok s /\ faces_in_range s /\ length (inc_hfs s) = 2 * ne s) ->
  faces (delete_edge_core h s) = map (fix2 h) (faces s).
Proof.
  intros D F NF HC. pose proof (delete_edge_core_view h s D F) as V. cbv zeta in V.
  destruct V as (_ & _ & -> & _). apply fold_upd_is_map.
  - unfold upd_faces_of. destruct (ebu s); [apply set_of_list_NoDup|apply NoDup_live_faces].
  - intros k Hk Nin. unfold upd_faces_of in Nin. destruct (ebu s) eqn:Eb.
    + destruct (HC eq_refl) as (EO & FR & L). apply fix2_below. intros y Hy.
      destruct (Nat.lt_ge_cases y (2 * h)) as [Hlt|Hge]; [exact Hlt|]. exfalso. apply Nin.
      assert (Hy2 : y < 2 * ne s) by (apply (FR k y Hk Hy)).
      assert (Cy : In (2 * k) (hfs_at s y)).
      { apply (EO Eb y Hy2 (2 * k)). replace (2 * k / 2) with k by lia. split; [exact Hk|]. split; [apply NF|].
        apply In_halfface. replace (2 * k / 2) with k by lia.
        replace (Nat.even (2 * k)) with true by (symmetry; rewrite even_mod2; apply Nat.eqb_eq; lia). exact Hy. }
      apply Kernel2.ListAux.set_of_list_In. apply in_map_iff. exists (2 * k). split; [lia|].
      apply (In_concat_skipn _ (2 * h) y); [exact Hge|exact Cy].
    + exfalso. apply Nin. rewrite (live_faces_all s NF). apply in_seq. unfold nf. lia.
Qed.

Theorem delete_edge_core_faces_shift h s : deferred s = false -> fast s = false -> no_flags s ->
  (ebu s = true -> ebu_ok s /\ faces_in_range s /\ length (inc_hfs s) = 2 * ne s) -> edge_free s h ->
  faces (delete_edge_core h s) = map (map (cor2 (2 * h + 1))) (faces s).
Proof.
  intros D F NF HC FF. rewrite (delete_edge_core_faces h s D F NF HC). apply map_ext_in. intros l Hl.
  apply fix2_free. intros y Hy. destruct (In_nth _ _ [] Hl) as [c [Hc E]]. apply (FF c y). unfold face_at. rewrite E. exact Hy.
Qed.

Corollary delete_edge_core_faces_cache_is_scan h s t : deferred s = false -> fast s = false -> no_flags s ->
  deferred t = false -> fast t = false -> no_flags t -> faces t = faces s ->
  ebu s = true -> ebu_ok s -> faces_in_range s -> length (inc_hfs s) = 2 * ne s -> ebu t = false ->
  faces (delete_edge_core h s) = faces (delete_edge_core h t).
Proof.
  intros D F NF D' F' NF' E Eb EO FR L Eb'. rewrite (delete_edge_core_faces h s D F NF) by (intros _; auto).
  rewrite (delete_edge_core_faces h t D' F' NF') by (intros X; congruence). rewrite E. reflexivity.
Qed.

(* ================================================================== (Ec) the caches after the step; exactness is preserved *)

Lemma halfface_map_cor2 s s' h x : faces s' = map (map (cor2 (2 * h + 1))) (faces s) -> edge_free s h ->
  forall k, In k (halfface s' x) <-> In (unshift2 h k) (halfface s x).
Proof.
  intros Fa FF k. rewrite !In_halfface.
  assert (FAt : face_at s' (x / 2) = map (cor2 (2 * h + 1)) (face_at s (x / 2))) by (unfold face_at; rewrite Fa; apply nth_map_map).
  rewrite FAt. destruct (Nat.even x).
  - apply In_map_cor2. intros y Hy. exact (FF _ _ Hy).
  - rewrite <- unshift2_opp. apply In_map_cor2. intros y Hy. exact (FF _ _ Hy).
Qed.

Theorem shift_inv_delete_edge_core h s : deferred s = false -> fast s = false -> shift_inv s -> h < ne s -> edge_free s h ->
  shift_inv (delete_edge_core h s).
Proof.
  intros D F (NF & VO & EO & FO & (R1 & R2 & R3) & (L1 & L2 & L3 & L4 & L5 & L6)) Hh FF.
  assert (FR : faces_in_range s) by (intros f he Hf Hhe; apply (R2 f Hf); [apply NF|exact Hhe]).
  pose proof (delete_edge_core_faces_shift h s D F NF (fun E => conj EO (conj FR (L2 E))) FF) as Fa.
  pose proof (no_flags_delete_edge_core h s D F NF) as NF'.
  pose proof (delete_edge_core_view h s D F) as V. cbv zeta in V. set (s' := delete_edge_core h s) in *.
  destruct V as (w1 & w2 & _ & w4 & w5 & w6 & w7 & w8 & w9 & w10 & w11 & (m1 & m2 & m3 & m4 & m5)).
  assert (NE : ne s' = ne s - 1) by (unfold ne; rewrite w2; apply remove_nth_length; exact Hh).
  assert (NF_ : nf s' = nf s) by (unfold nf; rewrite Fa, map_length; reflexivity).
  assert (NC : nc s' = nc s) by (unfold nc; rewrite w4; reflexivity).
  assert (EA : forall e, edge_at s' e = edge_at s (unshift1 h e)) by (intros e; unfold edge_at; rewrite w2; apply nth_remove_nth_unshift).
  assert (HF : forall x, he_from s' x = he_from s (unshift2 h x)).
  { intros x. rewrite !he_from_cases, EA, unshift2_div2, unshift2_mod2. reflexivity. }
  assert (FAt : forall f, face_at s' f = map (cor2 (2 * h + 1)) (face_at s f)) by (intros f; unfold face_at; rewrite Fa; apply nth_map_map).
  destruct NF as (NFv & NFe & NFf & NFc). destruct NF' as (NFv' & NFe' & NFf' & NFc').
  split; [repeat split; assumption|]. split; [|split; [|split; [|split; [split; [|split]|unfold lens_ok; split; [|split; [|split; [|split; [|split]]]]]]]].
  - (* vbu_ok *)
    intros V v Hv x. rewrite m1 in V. rewrite w1 in Hv. unfold out_at. rewrite w9, V, nth_map_map.
    destruct (R1 h Hh (NFe h)) as [Hv0 Hv1].
    assert (Slot : forall y, In y (nth v (edge_out h s) []) <-> In y (out_at s v) /\ y / 2 <> h).
    { intros y. unfold edge_out. destruct (edge_at s h) as [v0 v1] eqn:Eh. cbn [fst snd] in Hv0, Hv1.
      rewrite nth_remove_at, remove_at_length, nth_remove_at, (L1 V).
      replace (v1 <? nv s) with true by (symmetry; apply Nat.ltb_lt; exact Hv1).
      replace (v0 <? nv s) with true by (symmetry; apply Nat.ltb_lt; exact Hv0). rewrite !andb_true_r. fold (out_at s v).
      assert (Key : In y (out_at s v) -> (y / 2 <> h <-> ~ (v0 = v /\ y = 2 * h) /\ ~ (v1 = v /\ y = 2 * h + 1))).
      { intros Hy. apply (VO V v Hv) in Hy. destruct Hy as (_ & _ & Hfr). split; [lia|]. intros [N1 N2] E.
        assert (y = 2 * h \/ y = 2 * h + 1) as [->| ->] by lia.
        - rewrite he_from_even, Eh in Hfr. cbn [fst] in Hfr. tauto.
        - rewrite he_from_odd, Eh in Hfr. cbn [snd] in Hfr. tauto. }
      destruct (Nat.eqb_spec v1 v) as [E1|E1]; destruct (Nat.eqb_spec v0 v) as [E0|E0]; rewrite ?remove_val_In; split.
      all: try (intros Hin; assert (Hy : In y (out_at s v)) by tauto; split; [exact Hy|]; apply (Key Hy); split; intros [? ?]; subst; tauto).
      all: intros [Hy Hn]; apply (Key Hy) in Hn; destruct Hn as [N1 N2]; repeat split; try exact Hy; intros ->; tauto. }
    rewrite In_map_cor2 by (intros y Hy; apply Slot in Hy; tauto).
    rewrite Slot, (VO V v Hv), NE, HF, NFe, NFe', unshift2_div2.
    pose proof (unshift1_lt h (x / 2) (ne s) Hh). pose proof (unshift2_div2_neq h x). rewrite unshift2_div2 in *. tauto.
  - (* ebu_ok *)
    intros E k Hk x. rewrite m2 in E. rewrite NE in Hk. unfold hfs_at. rewrite w10, E, nth_remove_two_unshift. fold (hfs_at s (unshift2 h k)).
    assert (Hu : unshift2 h k < 2 * ne s) by (apply unshift2_lt; assumption).
    rewrite (EO E _ Hu x), NF_, NFf, NFf', (halfface_map_cor2 s s' h x Fa FF k). reflexivity.
  - (* fbu_ok *)
    intros Fb hf Hhf c. rewrite m3 in Fb. rewrite NF_ in Hhf. unfold cell_of, cell_at, c_deleted. rewrite w11, NC, w8, w4. exact (FO Fb hf Hhf c).
  - intros e He _. rewrite NE in He. rewrite EA, w1. apply R1; [apply unshift1_lt; assumption|apply NFe].
  - intros f Hf _ x Hx. rewrite NF_ in Hf. rewrite FAt in Hx. apply in_map_iff in Hx. destruct Hx as [y [<- Hy]].
    pose proof (R2 f Hf (NFf f) y Hy). pose proof (FF f y Hy). rewrite NE. unfold cor2. ltb_cases; lia.
  - intros c Hc _ x Hx. rewrite NC in Hc. unfold cell_at in Hx. rewrite w4 in Hx. rewrite NF_. apply (R3 c Hc (NFc c) x Hx).
  - intros V. rewrite m1 in V. rewrite w9, V, w1, map_length. unfold edge_out. destruct (edge_at s h). rewrite !remove_at_length. exact (L1 V).
  - intros E. rewrite m2 in E. rewrite w10, E, NE, remove_two_length by (rewrite (L2 E); lia). rewrite (L2 E). lia.
  - intros Fb. rewrite m3 in Fb. rewrite w11, NF_. exact (L3 Fb).
  - rewrite w6, NE, remove_nth_length by (rewrite L4; exact Hh). rewrite L4. reflexivity.
  - rewrite w7, NF_. exact L5.
  - rewrite w8, NC. exact L6.
Qed.

(* ================================================================== the edge core keeps the extended invariant *)

Lemma halfface_map_cor2_eq s s' h x : faces s' = map (map (cor2 (2 * h + 1))) (faces s) ->
  halfface s' x = map (cor2 (2 * h + 1)) (halfface s x).
Proof.
  intros Fa. unfold halfface, face_at. rewrite Fa, nth_map_map. destruct (Nat.even x); [reflexivity|].
  rewrite map_rev, !map_map. f_equal. apply map_ext. intros a. symmetry. apply cor2_opp.
Qed.

Lemma halfface_edge_free s h x he : edge_free s h -> In he (halfface s x) -> he / 2 <> h.
Proof.
  intros FF H. apply In_halfface in H. destruct (Nat.even x); [exact (FF _ _ H)|]. pose proof (FF _ _ H) as N. rewrite opp_div2 in N. exact N.
Qed.

Theorem shift_inv2_delete_edge_core h s : deferred s = false -> fast s = false -> shift_inv2 s -> h < ne s -> edge_free s h ->
  shift_inv2 (delete_edge_core h s).
Proof.
  intros D F [I X] Hh FF.
  assert (I' : shift_inv (delete_edge_core h s)) by (apply shift_inv_delete_edge_core; assumption).
  split; [exact I'|]. intros E' Fb'.
  pose proof I as ((NFv & NFe & NFf & NFc) & VO & EO & FO & (R1 & R2 & R3) & (L1 & L2 & L3 & L4 & L5 & L6)).
  assert (FR : faces_in_range s) by (intros f he Hf Hhe; apply (R2 f Hf (NFf f) he Hhe)).
  pose proof (delete_edge_core_faces_shift h s D F (conj NFv (conj NFe (conj NFf NFc))) (fun E => conj EO (conj FR (L2 E))) FF) as Fa.
  pose proof (delete_edge_core_view h s D F) as V. cbv zeta in V. set (s' := delete_edge_core h s) in *.
  destruct V as (w1 & w2 & _ & w4 & w5 & w6 & w7 & w8 & w9 & w10 & w11 & (m1 & m2 & m3 & m4 & m5)).
  assert (E : ebu s = true) by congruence. assert (Fb : fbu s = true) by congruence.
  destruct (X E Fb) as (SN & LC & FS).
  assert (NE : ne s' = ne s - 1) by (unfold ne; rewrite w2; apply remove_nth_length; exact Hh).
  assert (NF_ : nf s' = nf s) by (unfold nf; rewrite Fa, map_length; reflexivity).
  assert (NC : nc s' = nc s) by (unfold nc; rewrite w4; reflexivity).
  split; [|split].
  - (* slots_nodup *)
    intros k Hk. rewrite NE in Hk. unfold hfs_at. rewrite w10, E, nth_remove_two_unshift. apply SN. apply unshift2_lt; assumption.
  - (* live_cells_closed *)
    intros c Hc _. rewrite NC in Hc. pose proof (LC c Hc (NFc c)) as Cl.
    assert (CA : cell_at s' c = cell_at s c) by (unfold cell_at; rewrite w4; reflexivity).
    apply (closed_cell_rename s s' c c (fun x => x) (cor2 (2 * h + 1))); [rewrite map_id; exact CA| | | | |exact Cl].
    + intros y Hy. unfold cell_of. rewrite w11. exact (proj1 (Cl y Hy)).
    + intros y z Hy Hz. split; reflexivity.
    + intros z Hz. apply halfface_map_cor2_eq. exact Fa.
    + intros y z he0 w Hy Hz Hhe0 Hw. rewrite <- cor2_opp. apply eqb_inj. apply cor2_inj_on.
      * rewrite opp_div2. exact (halfface_edge_free s h z w FF Hw).
      * exact (halfface_edge_free s h y he0 FF Hhe0).
  - (* faces_simple *)
    intros f Hf _. rewrite NF_ in Hf. unfold face_at. rewrite Fa, nth_map_map. fold (face_at s f).
    destruct (FS f Hf (NFf f)) as [Nd Sim].
    assert (Av : forall y, In y (face_at s f) -> y / 2 <> h) by (intros y Hy; exact (FF f y Hy)).
    split.
    + apply NoDup_map_inj_on; [exact Nd|]. intros x y Hx Hy. apply cor2_inj_on; auto.
    + intros x' Hx' Ho. apply in_map_iff in Hx'. destruct Hx' as [x0 [<- Hx0]]. rewrite <- cor2_opp in Ho.
      apply (In_map_cor2 h _ _ Av) in Ho. rewrite unshift2_cor2 in Ho by (rewrite opp_div2; auto). exact (Sim x0 Hx0 Ho).
Qed.
