(* Kernel/ExactDelete.v -- C01: the cache-exactness invariant is preserved by deferred deletion.
   Part 1: delete_vertex_core and delete_edge_core (no re-ordering involved). *)
From Coq Require Import ZArith Lia Bool Arith List ZifyNat ZifyBool.
From OVM Require Import Base.ListX Base.ListLemmas Base.ListLemmas2 Kernel.State Kernel.Ops Kernel.Mirror Kernel.Construct
                        Kernel.Recompute Kernel.Closure Kernel.ExactInv.
Import ListNotations.
Ltac Zify.zify_post_hook ::= Z.div_mod_to_equations.
Local Open Scope nat_scope.

Ltac rsd := cbn [set_nv set_edges set_faces set_cells set_vdel set_edel set_fdel set_cdel set_counts set_flags
                set_out_hes set_inc_hfs set_inc_cell set_props
                nv edges faces cells vdel edel fdel cdel ndv nde ndf ndc vbu ebu fbu deferred fast
                out_hes inc_hfs inc_cell pv pe phe pf phf pc pm props fst snd].

(* a deleted vertex changes no cache and no definition *)
Theorem bu_inv_delete_vertex_core_deferred h s : deferred s = true -> bu_inv s -> bu_inv (delete_vertex_core h s).
Proof.
  intros D H. unfold delete_vertex_core. rewrite D. cbn [negb]. rewrite andb_false_r, D.
  destruct H as (VO & EO & FO & R & L). unfold bu_inv, vbu_ok, ebu_ok, fbu_ok, refs_ok, lens_ok,
    out_at, hfs_at, cell_of, ne, nf, nc, e_deleted, f_deleted, c_deleted, he_from, halfface, edge_at, face_at, cell_at in *.
  rsd. tauto.
Qed.

Lemma nth_remove_at i x ll v : nth v (remove_at i x ll) [] = if (i =? v) && (i <? length ll) then remove_val x (nth v ll []) else nth v ll [].
Proof. unfold remove_at. rewrite nth_upd. destruct (Nat.eqb_spec i v) as [->|]; simpl; [|reflexivity]. destruct (v <? length ll); reflexivity. Qed.

Lemma remove_at_length i x ll : length (remove_at i x ll) = length ll.
Proof. unfold remove_at. apply upd_length. Qed.

Lemma nth_upd_flag e l k : nth k (upd e true l) false = if (e =? k) && (e <? length l) then true else nth k l false.
Proof. apply nth_upd. Qed.

Theorem bu_inv_delete_edge_core_deferred h s : deferred s = true -> bu_inv s -> h < ne s -> e_deleted s h = false ->
  bu_inv (delete_edge_core h s).
Proof.
  intros D (VO & EO & FO & (R1 & R2 & R3) & (L1 & L2 & L3 & L4 & L5 & L6)) Hh Hlive.
  unfold delete_edge_core. rewrite D. cbn [negb]. rewrite andb_false_r.
  destruct (edge_at s h) as [v0 v1] eqn:EA.
  destruct (R1 h Hh Hlive) as [Hv0 Hv1]. rewrite EA in Hv0, Hv1. cbn [fst snd] in Hv0, Hv1.
  set (s1 := if vbu s then set_out_hes (remove_at v1 (2 * h + 1) (remove_at v0 (2 * h) (out_hes s))) s else s).
  assert (D1 : deferred s1 = true) by (unfold s1; destruct (vbu s); exact D).
  rewrite D1.
  set (s' := set_edel (upd h true (edel s1)) (set_counts (ndv s1) (S (nde s1)) (ndf s1) (ndc s1) s1)).
  assert (W : nv s' = nv s /\ edges s' = edges s /\ faces s' = faces s /\ cells s' = cells s /\
              edel s' = upd h true (edel s) /\ fdel s' = fdel s /\ cdel s' = cdel s /\
              vbu s' = vbu s /\ ebu s' = ebu s /\ fbu s' = fbu s /\ inc_hfs s' = inc_hfs s /\ inc_cell s' = inc_cell s /\
              out_hes s' = (if vbu s then remove_at v1 (2 * h + 1) (remove_at v0 (2 * h) (out_hes s)) else out_hes s)).
  { unfold s', s1. destruct (vbu s) eqn:V; rsd; rewrite ?V; repeat split; auto. }
  clearbody s'. clear s1 D1.
  destruct W as (w1&w2&w3&w4&w5&w6&w7&w8&w9&w10&w11&w12&w13).
  assert (NE : ne s' = ne s) by (unfold ne; rewrite w2; reflexivity).
  assert (NF : nf s' = nf s) by (unfold nf; rewrite w3; reflexivity).
  assert (NC : nc s' = nc s) by (unfold nc; rewrite w4; reflexivity).
  assert (EAs : forall e, edge_at s' e = edge_at s e) by (intros; unfold edge_at; rewrite w2; reflexivity).
  assert (HF : forall x, he_from s' x = he_from s x) by (intros; unfold he_from; rewrite EAs; reflexivity).
  assert (ED : forall e, e_deleted s' e = if e =? h then true else e_deleted s e).
  { intros e. unfold e_deleted. rewrite w5, nth_upd_flag, L4. destruct (Nat.eqb_spec h e) as [->|]; simpl.
    - replace (e <? ne s) with true by (symmetry; apply Nat.ltb_lt; exact Hh). rewrite Nat.eqb_refl. reflexivity.
    - destruct (Nat.eqb_spec e h); [congruence|]. reflexivity. }
  assert (F0 : he_from s (2 * h) = v0) by (rewrite he_from_even, EA; reflexivity).
  assert (F1 : he_from s (2 * h + 1) = v1) by (rewrite he_from_odd, EA; reflexivity).
  unfold bu_inv. split; [|split; [|split; [|split; [split; [|split]|unfold lens_ok; split; [|split; [|split; [|split; [|split]]]]]]]].
  - (* vbu_ok: the two halfedges of h leave the lists of their vertices *)
    intros V v Hv x. rewrite w8 in V. rewrite w1 in Hv. specialize (L1 V). unfold out_at. rewrite w13, V.
    rewrite nth_remove_at, remove_at_length, nth_remove_at. fold (out_at s v). rewrite NE, ED, HF.
    pose proof (VO V v Hv x) as Hold.
    assert (Hx : forall y, In x (remove_val y (out_at s v)) <-> In x (out_at s v) /\ x <> y) by (intros; apply remove_val_In).
    split.
    + intros Hin.
      assert (A : In x (out_at s v) /\ ~ (v = v0 /\ x = 2 * h) /\ ~ (v = v1 /\ x = 2 * h + 1)).
      { destruct (Nat.eqb_spec v1 v) as [E1|E1]; destruct (Nat.eqb_spec v0 v) as [E0|E0];
          replace (v1 <? length (out_hes s)) with true in Hin by (symmetry; apply Nat.ltb_lt; lia);
          replace (v0 <? length (out_hes s)) with true in Hin by (symmetry; apply Nat.ltb_lt; lia);
          simpl in Hin; rewrite ?remove_val_In in Hin; intuition (subst; try tauto; try lia). }
      destruct A as (A1 & A2 & A3). apply Hold in A1. destruct A1 as (c1 & c2 & c3).
      destruct (Nat.eqb_spec (x / 2) h) as [Eh|Nh]; [|tauto].
      exfalso. assert (x = 2 * h \/ x = 2 * h + 1) as [->| ->] by lia.
      * rewrite F0 in c3. exact (A2 (conj (eq_sym c3) eq_refl)).
      * rewrite F1 in c3. exact (A3 (conj (eq_sym c3) eq_refl)).
    + intros (c1 & c2 & c3). destruct (Nat.eqb_spec (x / 2) h) as [Eh|Nh]; [discriminate|].
      assert (In x (out_at s v)) by (apply Hold; tauto).
      destruct (Nat.eqb_spec v1 v); destruct (Nat.eqb_spec v0 v);
        replace (v1 <? length (out_hes s)) with true by (symmetry; apply Nat.ltb_lt; lia);
        replace (v0 <? length (out_hes s)) with true by (symmetry; apply Nat.ltb_lt; lia);
        simpl; rewrite ?remove_val_In; repeat split; auto; lia.
  - (* ebu_ok: faces untouched *)
    intros E x Hx y. rewrite w9 in E. rewrite NE in Hx. unfold hfs_at, halfface, face_at, f_deleted. rewrite w11, NF, w6, w3. exact (EO E x Hx y).
  - intros F hf Hhf c. rewrite w10 in F. rewrite NF in Hhf. unfold cell_of, cell_at, c_deleted. rewrite w12, NC, w7, w4. exact (FO F hf Hhf c).
  - intros e He Hd. rewrite NE in He. rewrite ED in Hd. rewrite EAs, w1. destruct (e =? h); [discriminate|]. exact (R1 e He Hd).
  - intros f Hf Hd x Hx. rewrite NF in Hf. unfold f_deleted, face_at in *. rewrite w6 in Hd. rewrite w3 in Hx. rewrite NE. exact (R2 f Hf Hd x Hx).
  - intros c Hc Hd hf Hx. rewrite NC in Hc. unfold c_deleted, cell_at in *. rewrite w7 in Hd. rewrite w4 in Hx. rewrite NF. exact (R3 c Hc Hd hf Hx).
  - intros V. rewrite w8 in V. rewrite w13, V, w1, !remove_at_length. exact (L1 V).
  - intros E. rewrite w9 in E. rewrite w11, NE. exact (L2 E).
  - intros F. rewrite w10 in F. rewrite w12, NF. exact (L3 F).
  - rewrite w5, NE, upd_length. exact L4.
  - rewrite w6, NF. exact L5.
  - rewrite w7, NC. exact L6.
Qed.
