(* Kernel/GcFacts.v -- C04: what collect_garbage and leaving deferred mode guarantee about counters and modes. *)
From Coq Require Import ZArith Lia Bool Arith List ZifyNat ZifyBool.
From OVM Require Import Base.ListX Base.ListLemmas Kernel.State Kernel.Ops Kernel.Construct Kernel.SwapEffects Kernel.SwapInvol Kernel.Sizes.
Import ListNotations.
Local Open Scope nat_scope.

(* counters and deletion modes *)
Definition cv (s : mesh) := (ndv s, nde s, ndf s, ndc s, deferred s, fast s).

Lemma cv_swap_cell a b s : cv (swap_cell_indices a b s) = cv s.
Proof. destruct (Nat.eq_dec a b) as [->|N]; [rewrite swap_cell_self; reflexivity|]. pose proof (swap_cell_effect a b s N) as E. cbv zeta in E.
  destruct E as (_&_&_&_&_&_&_&_&_&_&_&_&_&_&_&_&_&(n1&n2&n3&n4)&(_&_&_&f4&f5)&_). unfold cv. congruence. Qed.
Lemma cv_swap_face a b s : cv (swap_face_indices a b s) = cv s.
Proof. destruct (Nat.eq_dec a b) as [->|N]; [rewrite swap_face_self; reflexivity|]. pose proof (swap_face_effect a b s N) as E. cbv zeta in E.
  destruct E as (_&_&_&_&_&_&_&_&_&_&_&_&_&_&_&(n1&n2&n3&n4)&(_&_&_&f4&f5)&_). unfold cv. congruence. Qed.
Lemma cv_swap_edge a b s : cv (swap_edge_indices a b s) = cv s.
Proof. destruct (Nat.eq_dec a b) as [->|N]; [rewrite swap_edge_self; reflexivity|]. pose proof (swap_edge_effect a b s N) as E. cbv zeta in E.
  destruct E as (_&_&_&_&_&_&_&_&_&_&_&_&_&_&_&(n1&n2&n3&n4)&(_&_&_&f4&f5)&_). unfold cv. congruence. Qed.
Lemma cv_swap_vertex a b s : cv (swap_vertex_indices a b s) = cv s.
Proof. destruct (Nat.eq_dec a b) as [->|N]; [rewrite swap_vertex_self; reflexivity|]. pose proof (swap_vertex_effect a b s N) as E. cbv zeta in E.
  destruct E as (_&_&_&_&_&_&_&_&_&_&_&_&_&_&_&_&(n1&n2&n3&n4)&(_&_&_&f4&f5)&_). unfold cv. congruence. Qed.

Lemma cv_reorder_edges es s : cv (reorder_edges es s) = cv s.
Proof.
  pose proof (reorder_edges_frame es s) as R. cbv zeta in R.
  destruct R as (_&_&_&_&_&_&_&_&_&_&_&(B1&B2&B3&B4)&(_&_&_&C4&C5)). unfold cv. congruence.
Qed.
Lemma cv_reorder_one e s : cv (reorder_incident_halffaces e s) = cv s.
Proof. exact (cv_reorder_edges [e] s). Qed.

Lemma fold_cv {X} (f : mesh -> X -> mesh) : (forall s x, cv (f s x) = cv s) -> forall l s, cv (fold_left f l s) = cv s.
Proof. intros H l. induction l as [|x l IH]; intros s; [reflexivity|]. simpl. rewrite IH. apply H. Qed.

Lemma cv_deferred s t : cv t = cv s -> deferred t = deferred s.
Proof. unfold cv. intros E. inversion E. reflexivity. Qed.

(* in immediate mode the cores never touch the deleted-counters or the modes *)
Lemma cv_delete_cell_core h0 s : deferred s = false -> cv (delete_cell_core h0 s) = cv s.
Proof.
  intros D. unfold delete_cell_core.
  set (do_swap := fast s && negb (deferred s)). set (h := if do_swap then nc s - 1 else h0).
  set (s_ := if do_swap then swap_cell_indices h0 h s else s).
  assert (Hs : cv s_ = cv s) by (unfold s_; destruct do_swap; [apply cv_swap_cell|reflexivity]).
  clearbody s_ h. rewrite <- Hs. rewrite <- (cv_deferred _ _ Hs) in D. clear Hs do_swap s.
  match goal with |- cv (if deferred ?x then _ else _) = _ => set (s1 := x) end.
  assert (L1 : cv s1 = cv s_).
  { unfold s1. destruct (fbu s_); [|reflexivity].
    match goal with |- cv (if ?b then reorder_edges ?es ?t else ?t) = _ => destruct b; [rewrite cv_reorder_edges|]; reflexivity end. }
  rewrite (cv_deferred _ _ L1), D. clearbody s1. rewrite <- L1.
  destruct (negb (fast s1) && fbu s1); reflexivity.
Qed.

Lemma cv_delete_face_core h0 s : deferred s = false -> cv (delete_face_core h0 s) = cv s.
Proof.
  intros D. unfold delete_face_core.
  set (do_swap := fast s && negb (deferred s)). set (h := if do_swap then nf s - 1 else h0).
  set (s_ := if do_swap then swap_face_indices h0 h s else s).
  assert (Hs : cv s_ = cv s) by (unfold s_; destruct do_swap; [apply cv_swap_face|reflexivity]).
  clearbody s_ h. rewrite <- Hs. rewrite <- (cv_deferred _ _ Hs) in D. clear Hs do_swap s.
  match goal with |- cv (if deferred ?x then _ else _) = _ => set (s1 := x) end.
  assert (L1 : cv s1 = cv s_).
  { unfold s1. destruct (ebu s_); [|reflexivity]. apply fold_cv. intros t he.
    match goal with |- cv (if ?b then reorder_incident_halffaces ?e ?u else ?u) = _ => destruct b; [rewrite cv_reorder_one|]; reflexivity end. }
  rewrite (cv_deferred _ _ L1), D. clearbody s1. rewrite <- L1.
  repeat match goal with |- context [if ?b then _ else _] => destruct b eqn:? end; reflexivity.
Qed.

Lemma cv_delete_edge_core h0 s : deferred s = false -> cv (delete_edge_core h0 s) = cv s.
Proof.
  intros D. unfold delete_edge_core.
  set (do_swap := fast s && negb (deferred s)). set (h := if do_swap then ne s - 1 else h0).
  set (s_ := if do_swap then swap_edge_indices h0 h s else s).
  assert (Hs : cv s_ = cv s) by (unfold s_; destruct do_swap; [apply cv_swap_edge|reflexivity]).
  clearbody s_ h. rewrite <- Hs. rewrite <- (cv_deferred _ _ Hs) in D. clear Hs do_swap s.
  match goal with |- cv (if deferred ?x then _ else _) = _ => set (s1 := x) end.
  assert (L1 : cv s1 = cv s_) by (unfold s1; destruct (vbu s_); [|reflexivity]; destruct (edge_at s_ h); reflexivity).
  rewrite (cv_deferred _ _ L1), D. clearbody s1. rewrite <- L1.
  repeat match goal with |- context [if ?b then _ else _] => destruct b eqn:? end; reflexivity.
Qed.

Lemma cv_delete_vertex_core h0 s : deferred s = false -> cv (delete_vertex_core h0 s) = cv s.
Proof.
  intros D. unfold delete_vertex_core.
  set (do_swap := fast s && negb (deferred s)). set (h := if do_swap then nv s - 1 else h0).
  set (s_ := if do_swap then swap_vertex_indices h0 h s else s).
  assert (Hs : cv s_ = cv s) by (unfold s_; destruct do_swap; [apply cv_swap_vertex|reflexivity]).
  clearbody s_ h. rewrite <- Hs. rewrite <- (cv_deferred _ _ Hs) in D. clear Hs do_swap s.
  rewrite D. repeat match goal with |- context [if ?b then _ else _] => destruct b eqn:? end; reflexivity.
Qed.

Lemma cv_gc_pass n is_del clr core s : deferred s = false ->
  (forall i t, cv (clr i t) = cv t) -> (forall i t, deferred t = false -> cv (core i t) = cv t) ->
  cv (gc_pass n is_del clr core s) = cv s.
Proof.
  intros D Hc Hcore. unfold gc_pass. revert s D. induction (rev (seq 0 n)) as [|i r IH]; intros s D; [reflexivity|].
  simpl. destruct (is_del s i).
  - rewrite IH.
    + rewrite Hcore; [apply Hc|]. rewrite (cv_deferred _ _ (Hc i s)). exact D.
    + rewrite (cv_deferred _ _ (Hcore i _ ltac:(rewrite (cv_deferred _ _ (Hc i s)); exact D))), (cv_deferred _ _ (Hc i s)). exact D.
  - apply IH. exact D.
Qed.

Theorem collect_garbage_counters_and_mode s : deferred s = true -> let s' := collect_garbage s in
  ndv s' = 0 /\ nde s' = 0 /\ ndf s' = 0 /\ ndc s' = 0 /\ needs_gc s' = false /\ deferred s' = true /\ fast s' = fast s.
Proof.
  intros D. unfold collect_garbage. rewrite D. cbn [negb orb].
  destruct (needs_gc s) eqn:G; cbn [negb].
  2:{ unfold needs_gc in G. rewrite !orb_false_iff, !Nat.ltb_ge in G. cbv zeta.
      unfold needs_gc. rewrite !orb_false_iff, !Nat.ltb_ge. repeat split; try lia; assumption. }
  cbv zeta.
  set (s0 := set_flags (vbu s) (ebu s) (fbu s) false (fast s) s).
  assert (D0 : deferred s0 = false) by reflexivity. assert (F0 : fast s0 = fast s) by reflexivity.
  set (p1 := gc_pass (nc s0) c_deleted _ delete_cell_core s0).
  assert (C1 : cv p1 = cv s0) by (apply cv_gc_pass; [exact D0|reflexivity|intros; apply cv_delete_cell_core; assumption]).
  set (s1 := set_counts (ndv p1) (nde p1) (ndf p1) 0 p1).
  assert (D1 : deferred s1 = false) by (unfold s1; cbn [set_counts deferred]; rewrite (cv_deferred _ _ C1); exact D0).
  set (p2 := gc_pass (nf s1) f_deleted _ delete_face_core s1).
  assert (C2 : cv p2 = cv s1) by (apply cv_gc_pass; [exact D1|reflexivity|intros; apply cv_delete_face_core; assumption]).
  set (s2 := set_counts (ndv p2) (nde p2) 0 (ndc p2) p2).
  assert (D2 : deferred s2 = false) by (unfold s2; cbn [set_counts deferred]; rewrite (cv_deferred _ _ C2); exact D1).
  set (p3 := gc_pass (ne s2) e_deleted _ delete_edge_core s2).
  assert (C3 : cv p3 = cv s2) by (apply cv_gc_pass; [exact D2|reflexivity|intros; apply cv_delete_edge_core; assumption]).
  set (s3 := set_counts (ndv p3) 0 (ndf p3) (ndc p3) p3).
  assert (D3 : deferred s3 = false) by (unfold s3; cbn [set_counts deferred]; rewrite (cv_deferred _ _ C3); exact D2).
  set (p4 := gc_pass (nv s3) v_deleted _ delete_vertex_core s3).
  assert (C4 : cv p4 = cv s3) by (apply cv_gc_pass; [exact D3|reflexivity|intros; apply cv_delete_vertex_core; assumption]).
  unfold cv in C1, C2, C3, C4. unfold s1, s2, s3 in *. cbn [set_counts set_flags ndv nde ndf ndc deferred fast] in *.
  injection C1 as a1 a2 a3 a4 a5 a6. injection C2 as b1 b2 b3 b4 b5 b6. injection C3 as c1 c2 c3 c4 c5 c6. injection C4 as d1 d2 d3 d4 d5 d6.
  unfold needs_gc. cbn [set_counts set_flags ndv nde ndf ndc deferred fast].
  repeat split; try congruence; try reflexivity.
  all: replace (nde p4) with 0 by congruence; replace (ndf p4) with 0 by congruence; replace (ndc p4) with 0 by congruence; reflexivity.
Qed.

Theorem collect_garbage_noop_when_nothing_pending s : needs_gc s = false -> collect_garbage s = s.
Proof. intros G. unfold collect_garbage. rewrite G. rewrite orb_true_r. reflexivity. Qed.

Theorem leaving_deferred_mode_collects s : deferred s = true -> let s' := enable_deferred false s in
  deferred s' = false /\ ndv s' = 0 /\ nde s' = 0 /\ ndf s' = 0 /\ ndc s' = 0 /\ needs_gc s' = false.
Proof.
  intros D. unfold enable_deferred. rewrite D. cbn [negb andb].
  destruct (collect_garbage_counters_and_mode s D) as (a&b&c&d&g&_). cbv zeta in *.
  unfold needs_gc in *. cbn [set_flags ndv nde ndf ndc deferred]. repeat split; assumption.
Qed.
