(* Kernel/Sizes.v -- C03 (size half): in EVERY reachable state each deletion-flag array and each
   property array has exactly one element per entity slot.  Induction over arbitrary operation
   histories; no well-formedness assumption beyond the documented "valid arguments" of each call. *)
From Coq Require Import ZArith Lia Bool Arith List ZifyNat ZifyBool.
From OVM Require Import Base.ListX Base.ListLemmas Kernel.State Kernel.Ops Kernel.SwapEffects Kernel.SwapInvol Kernel.Construct.
Import ListNotations.
Ltac Zify.zify_post_hook ::= Z.div_mod_to_equations.
Local Open Scope nat_scope.

Ltac rsz := cbn [set_nv set_edges set_faces set_cells set_vdel set_edel set_fdel set_cdel set_counts set_flags
                set_out_hes set_inc_hfs set_inc_cell set_props swap_prop_elems delete_prop_elem resize_props
                resize_eprops resize_fprops resize_cprops resize_vprops
                vertex_deleted edge_deleted face_deleted cell_deleted
                nv edges faces cells vdel edel fdel cdel ndv nde ndf ndc vbu ebu fbu deferred fast
                out_hes inc_hfs inc_cell pv pe phe pf phf pc pm props fst snd].

Definition psized (n : nat) (l : list parray) : Prop := forall p, In p l -> length (pdata p) = n.

Definition szd (s : mesh) : Prop :=
  length (vdel s) = nv s /\ length (edel s) = length (edges s) /\ length (fdel s) = length (faces s) /\
  length (cdel s) = length (cells s) /\
  psized (nv s) (pv s) /\ psized (length (edges s)) (pe s) /\ psized (2 * length (edges s)) (phe s) /\
  psized (length (faces s)) (pf s) /\ psized (2 * length (faces s)) (phf s) /\ psized (length (cells s)) (pc s) /\
  psized 1 (pm s).

Lemma szd_sized s : szd s <-> sized s.
Proof.
  unfold szd, sized, psized, ne, nf, nc. split.
  - intros (a&b&c&d&e&f&g&h&i&j&k). repeat split; auto. intros [] p Hp; cbn [props count] in *; unfold ne, nf, nc; auto.
  - intros (a&b&c&d&P). repeat split; auto; intros p Hp.
    + apply (P KV p Hp). + apply (P KE p Hp). + apply (P KHE p Hp). + apply (P KF p Hp).
    + apply (P KHF p Hp). + apply (P KC p Hp). + apply (P KM p Hp).
Qed.

(* ---- primitive facts *)
Lemma psized_map_pswap n i j l : psized n l -> psized n (map (pswap i j) l).
Proof. intros H p Hp. apply in_map_iff in Hp. destruct Hp as [q [<- Hq]]. rewrite pswap_length. apply H; assumption. Qed.

Lemma psized_presize m l : psized m (map (presize m) l).
Proof. intros p Hp. apply in_map_iff in Hp. destruct Hp as [q [<- Hq]]. unfold presize. simpl. apply resize_length. Qed.

Lemma pdelete_length i p : length (pdata (pdelete i p)) = if i <? length (pdata p) then length (pdata p) - 1 else length (pdata p).
Proof.
  destruct p as [d l]. unfold pdelete. simpl. destruct (Nat.ltb_spec i (length l)).
  - apply remove_nth_length; assumption.
  - rewrite remove_nth_overflow by assumption. reflexivity.
Qed.

Lemma remove_nth_length' {A} i (l : list A) : length (remove_nth i l) = if i <? length l then length l - 1 else length l.
Proof.
  destruct (Nat.ltb_spec i (length l)); [apply remove_nth_length; assumption|rewrite remove_nth_overflow by assumption; reflexivity].
Qed.

(* deleting slot i from the entity array and from every property array keeps them in step, whether or not i is in range *)
Lemma psized_pdelete {A} (ent : list A) i l : psized (length ent) l -> psized (length (remove_nth i ent)) (map (pdelete i) l).
Proof.
  intros H p Hp. apply in_map_iff in Hp. destruct Hp as [q [<- Hq]]. rewrite pdelete_length, remove_nth_length', (H q Hq). reflexivity.
Qed.

Lemma psized_pdelete_half {A} (ent : list A) i l : psized (2 * length ent) l ->
  psized (2 * length (remove_nth i ent)) (map (pdelete (2 * i)) (map (pdelete (2 * i + 1)) l)).
Proof.
  intros H p Hp. apply in_map_iff in Hp. destruct Hp as [q [<- Hq]]. apply in_map_iff in Hq. destruct Hq as [r [<- Hr]].
  rewrite !pdelete_length, remove_nth_length', (H r Hr).
  destruct (Nat.ltb_spec i (length ent)).
  - replace (2 * i + 1 <? 2 * length ent) with true by (symmetry; apply Nat.ltb_lt; lia).
    replace (2 * i <? 2 * length ent - 1) with true by (symmetry; apply Nat.ltb_lt; lia). lia.
  - replace (2 * i + 1 <? 2 * length ent) with false by (symmetry; apply Nat.ltb_ge; lia).
    replace (2 * i <? 2 * length ent) with false by (symmetry; apply Nat.ltb_ge; lia). reflexivity.
Qed.

Lemma psized_pdelete_nat n i l : i < n -> psized n l -> psized (n - 1) (map (pdelete i) l).
Proof.
  intros Hi H p Hp. apply in_map_iff in Hp. destruct Hp as [q [<- Hq]]. rewrite pdelete_length, (H q Hq).
  replace (i <? n) with true by (symmetry; apply Nat.ltb_lt; lia). reflexivity.
Qed.

(* ---- components that do not matter for sizes *)
Definition same_sizes (s t : mesh) : Prop :=
  nv t = nv s /\ edges t = edges s /\ faces t = faces s /\ cells t = cells s /\
  vdel t = vdel s /\ edel t = edel s /\ fdel t = fdel s /\ cdel t = cdel s /\
  pv t = pv s /\ pe t = pe s /\ phe t = phe s /\ pf t = pf s /\ phf t = phf s /\ pc t = pc s /\ pm t = pm s.

Lemma szd_same s t : same_sizes s t -> szd s -> szd t.
Proof.
  unfold same_sizes, szd. intros (a1&a2&a3&a4&a5&a6&a7&a8&a9&a10&a11&a12&a13&a14&a15).
  rewrite a1, a2, a3, a4, a5, a6, a7, a8, a9, a10, a11, a12, a13, a14, a15. tauto.
Qed.

(* "same definitions array lengths and same flags/props lengths": a weaker relation, enough for szd, closed under
   the in-place rewrites of definitions (upd / map) *)
Definition len_view (s : mesh) := (nv s, length (edges s), length (faces s), length (cells s),
                                   length (vdel s), length (edel s), length (fdel s), length (cdel s),
                                   (pv s, pe s, phe s, pf s, phf s, pc s, pm s)).
Lemma szd_len_view s t : len_view t = len_view s -> szd s -> szd t.
Proof.
  unfold len_view, szd. intros E. inversion E as [[e1 e2 e3 e4 e5 e6 e7 e8 e9 e10 e11 e12 e13 e14 e15]].
  rewrite e1, e2, e3, e4, e5, e6, e7, e8, e9, e10, e11, e12, e13, e14, e15. tauto.
Qed.

Lemma len_view_reorder_edges es s : len_view (reorder_edges es s) = len_view s.
Proof.
  pose proof (reorder_edges_frame es s) as R. cbv zeta in R.
  destruct R as (A1&A2&A3&A4&A5&A6&A7&A8&A9&A10&A11&_).
  pose proof (A11 KV) as QV. pose proof (A11 KE) as QE. pose proof (A11 KHE) as QHE. pose proof (A11 KF) as QF.
  pose proof (A11 KHF) as QHF. pose proof (A11 KC) as QC. pose proof (A11 KM) as QM.
  cbn [props] in QV, QE, QHE, QF, QHF, QC, QM. unfold len_view. congruence.
Qed.

Lemma len_view_reorder_one e s : len_view (reorder_incident_halffaces e s) = len_view s.
Proof. exact (len_view_reorder_edges [e] s). Qed.

Lemma fold_fst_length {A B X} (f : list A * B -> X -> list A * B) :
  (forall acc x, length (fst (f acc x)) = length (fst acc)) ->
  forall l acc, length (fst (fold_left f l acc)) = length (fst acc).
Proof. intros H l. induction l as [|x l IH]; intros acc; [reflexivity|]. simpl. rewrite IH. apply H. Qed.

(* ---- swaps preserve the size invariant (no precondition) *)
Lemma szd_swap_cell a b s : szd s -> szd (swap_cell_indices a b s).
Proof.
  intros H. destruct (Nat.eq_dec a b) as [->|N]; [rewrite swap_cell_self; exact H|].
  pose proof (swap_cell_effect a b s N) as E. cbv zeta in E.
  destruct E as (c1&c2&c3&c4&c5&c6&c7&c8&c9&c10&c11&c12&c13&c14&c15&c16&c17&_).
  destruct H as (a1&a2&a3&a4&a5&a6&a7&a8&a9&a10&a11). unfold szd.
  rewrite c1, c2, c3, c4, c5, c6, c7, c8, c9, c12, c13, c14, c15, c16, c17, !swap_nth_length.
  repeat split; auto. apply psized_map_pswap. exact a10.
Qed.

Lemma szd_swap_face a b s : szd s -> szd (swap_face_indices a b s).
Proof.
  intros H. destruct (Nat.eq_dec a b) as [->|N]; [rewrite swap_face_self; exact H|].
  pose proof (swap_face_effect a b s N) as E. cbv zeta in E.
  destruct E as (c1&c2&c3&c4&c5&c6&c7&c8&c9&c10&c11&c12&c13&c14&c15&_).
  destruct H as (a1&a2&a3&a4&a5&a6&a7&a8&a9&a10&a11). unfold szd.
  assert (LC : length (cells (swap_face_indices a b s)) = length (cells s)).
  { unfold swap_face_indices. rewrite (proj2 (Nat.eqb_neq a b) N).
    destruct (fbu s) eqn:FB; destruct (ebu s) eqn:EB; rsz; rewrite ?FB, ?EB; rsz; try apply map_length.
    all: rewrite fold_fst_length; [reflexivity|].
    all: intros [cs dn] x; simpl; destruct (cell_of s x); [|reflexivity]; destruct (memb n dn); [reflexivity|]; simpl; apply upd_length. }
  rewrite c1, c2, c3, c4, c5, c6, c7, c8, c9, c11, c12, c13, c14, c15, LC, !swap_nth_length.
  repeat split; auto; [apply psized_map_pswap; exact a8 | unfold half_swap_props; apply psized_map_pswap, psized_map_pswap; exact a9].
Qed.

Lemma szd_swap_edge a b s : szd s -> szd (swap_edge_indices a b s).
Proof.
  intros H. destruct (Nat.eq_dec a b) as [->|N]; [rewrite swap_edge_self; exact H|].
  pose proof (swap_edge_effect a b s N) as E. cbv zeta in E.
  destruct E as (c1&c2&c3&c4&c5&c6&c7&c8&c9&c10&c11&c12&c13&c14&c15&_).
  destruct H as (a1&a2&a3&a4&a5&a6&a7&a8&a9&a10&a11). unfold szd.
  assert (LF : length (faces (swap_edge_indices a b s)) = length (faces s)).
  { unfold swap_edge_indices. rewrite (proj2 (Nat.eqb_neq a b) N).
    destruct (ebu s) eqn:EB; destruct (vbu s) eqn:VB; rsz; rewrite ?EB, ?VB; rsz;
      repeat match goal with |- context [let '(x, y) := ?p in _] => destruct p end; rsz; rewrite ?EB, ?VB; rsz;
      try apply map_length.
    all: rewrite fold_fst_length; [reflexivity|].
    all: intros [fs dn] x; cbn beta iota; match goal with |- context [if ?c then _ else _] => destruct c end; [reflexivity|]; cbn [fst]; apply upd_length. }
  rewrite c1, c2, c3, c4, c5, c6, c7, c8, c9, c11, c12, c13, c14, c15, LF, !swap_nth_length.
  repeat split; auto; [apply psized_map_pswap; exact a6 | unfold half_swap_props; apply psized_map_pswap, psized_map_pswap; exact a7].
Qed.

Lemma szd_swap_vertex a b s : szd s -> szd (swap_vertex_indices a b s).
Proof.
  intros H. destruct (Nat.eq_dec a b) as [->|N]; [rewrite swap_vertex_self; exact H|].
  pose proof (swap_vertex_effect a b s N) as E. cbv zeta in E.
  destruct E as (c1&c2&c3&c4&c5&c6&c7&c8&c9&c10&c11&c12&c13&c14&c15&c16&_).
  destruct H as (a1&a2&a3&a4&a5&a6&a7&a8&a9&a10&a11). unfold szd.
  assert (LE : length (edges (swap_vertex_indices a b s)) = length (edges s)).
  { unfold swap_vertex_indices. rewrite (proj2 (Nat.eqb_neq a b) N).
    destruct (vbu s) eqn:VB; rsz; rewrite ?VB; rsz; try apply map_length.
    rewrite fold_fst_length; [reflexivity|].
    intros [es dn] x; cbn beta iota; match goal with |- context [if ?c then _ else _] => destruct c end; [reflexivity|]; cbn [fst]; apply upd_length. }
  rewrite c1, c2, c3, c4, c5, c6, c7, c8, c11, c12, c13, c14, c15, c16, LE, !swap_nth_length.
  repeat split; auto. apply psized_map_pswap. exact a5.
Qed.
