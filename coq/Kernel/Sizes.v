(* Kernel/Sizes.v -- C03 (size half): in EVERY reachable state each deletion-flag array and each
   property array has exactly one element per entity slot.  Induction over arbitrary operation
   histories; no well-formedness assumption beyond the documented "valid arguments" of each call. *)
From Coq Require Import ZArith Lia Bool Arith List ZifyNat ZifyBool.
From OVM Require Import Base.ListX Base.ListLemmas Kernel.State Kernel.Ops Kernel.SwapEffects Kernel.SwapInvol Kernel.Construct.
Import ListNotations.
Ltac Zify.zify_post_hook ::= Z.div_mod_to_equations.
Local Open Scope nat_scope.

Ltac rsz := cbn [set_nv set_edges set_faces set_cells set_vdel set_edel set_fdel set_cdel set_counts set_flags
                set_out_hes set_inc_hfs set_inc_cell set_props swap_prop_elems delete_prop_elem resize_props
                resize_eprops resize_fprops resize_cprops resize_vprops
                vertex_deleted edge_deleted face_deleted cell_deleted
                nv edges faces cells vdel edel fdel cdel ndv nde ndf ndc vbu ebu fbu deferred fast
                out_hes inc_hfs inc_cell pv pe phe pf phf pc pm props fst snd].

Definition psized (n : nat) (l : list parray) : Prop := forall p, In p l -> length (pdata p) = n.

Definition szd (s : mesh) : Prop :=
  length (vdel s) = nv s /\ length (edel s) = length (edges s) /\ length (fdel s) = length (faces s) /\
  length (cdel s) = length (cells s) /\
  psized (nv s) (pv s) /\ psized (length (edges s)) (pe s) /\ psized (2 * length (edges s)) (phe s) /\
  psized (length (faces s)) (pf s) /\ psized (2 * length (faces s)) (phf s) /\ psized (length (cells s)) (pc s) /\
  psized 1 (pm s).

Lemma szd_sized s : szd s <-> sized s.
Proof.
  unfold szd, sized, psized, ne, nf, nc. split.
  - intros (a&b&c&d&e&f&g&h&i&j&k). repeat split; auto. intros [] p Hp; cbn [props count] in *; unfold ne, nf, nc; auto.
  - intros (a&b&c&d&P). repeat split; auto; intros p Hp.
    + apply (P KV p Hp). + apply (P KE p Hp). + apply (P KHE p Hp). + apply (P KF p Hp).
    + apply (P KHF p Hp). + apply (P KC p Hp). + apply (P KM p Hp).
Qed.

(* ---- primitive facts *)
Lemma psized_map_pswap n i j l : psized n l -> psized n (map (pswap i j) l).
Proof. intros H p Hp. apply in_map_iff in Hp. destruct Hp as [q [<- Hq]]. rewrite pswap_length. apply H; assumption. Qed.

Lemma psized_presize m l : psized m (map (presize m) l).
Proof. intros p Hp. apply in_map_iff in Hp. destruct Hp as [q [<- Hq]]. unfold presize. simpl. apply resize_length. Qed.

Lemma pdelete_length i p : length (pdata (pdelete i p)) = if i <? length (pdata p) then length (pdata p) - 1 else length (pdata p).
Proof.
  destruct p as [d l]. unfold pdelete. simpl. destruct (Nat.ltb_spec i (length l)).
  - apply remove_nth_length; assumption.
  - rewrite remove_nth_overflow by assumption. reflexivity.
Qed.

Lemma remove_nth_length' {A} i (l : list A) : length (remove_nth i l) = if i <? length l then length l - 1 else length l.
Proof.
  destruct (Nat.ltb_spec i (length l)); [apply remove_nth_length; assumption|rewrite remove_nth_overflow by assumption; reflexivity].
Qed.

(* deleting slot i from the entity array and from every property array keeps them in step, whether or not i is in range *)
Lemma psized_pdelete {A} (ent : list A) i l : psized (length ent) l -> psized (length (remove_nth i ent)) (map (pdelete i) l).
Proof.
  intros H p Hp. apply in_map_iff in Hp. destruct Hp as [q [<- Hq]]. rewrite pdelete_length, remove_nth_length', (H q Hq). reflexivity.
Qed.

Lemma psized_pdelete_half {A} (ent : list A) i l : psized (2 * length ent) l ->
  psized (2 * length (remove_nth i ent)) (map (pdelete (2 * i)) (map (pdelete (2 * i + 1)) l)).
Proof.
  intros H p Hp. apply in_map_iff in Hp. destruct Hp as [q [<- Hq]]. apply in_map_iff in Hq. destruct Hq as [r [<- Hr]].
  rewrite !pdelete_length, remove_nth_length', (H r Hr).
  destruct (Nat.ltb_spec i (length ent)).
  - replace (2 * i + 1 <? 2 * length ent) with true by (symmetry; apply Nat.ltb_lt; lia).
    replace (2 * i <? 2 * length ent - 1) with true by (symmetry; apply Nat.ltb_lt; lia). lia.
  - replace (2 * i + 1 <? 2 * length ent) with false by (symmetry; apply Nat.ltb_ge; lia).
    replace (2 * i <? 2 * length ent) with false by (symmetry; apply Nat.ltb_ge; lia). reflexivity.
Qed.

Lemma psized_pdelete_nat n i l : i < n -> psized n l -> psized (n - 1) (map (pdelete i) l).
Proof.
  intros Hi H p Hp. apply in_map_iff in Hp. destruct Hp as [q [<- Hq]]. rewrite pdelete_length, (H q Hq).
  replace (i <? n) with true by (symmetry; apply Nat.ltb_lt; lia). reflexivity.
Qed.

(* ---- components that do not matter for sizes *)
Definition same_sizes (s t : mesh) : Prop :=
  nv t = nv s /\ edges t = edges s /\ faces t = faces s /\ cells t = cells s /\
  vdel t = vdel s /\ edel t = edel s /\ fdel t = fdel s /\ cdel t = cdel s /\
  pv t = pv s /\ pe t = pe s /\ phe t = phe s /\ pf t = pf s /\ phf t = phf s /\ pc t = pc s /\ pm t = pm s.

Lemma szd_same s t : same_sizes s t -> szd s -> szd t.
Proof.
  unfold same_sizes, szd. intros (a1&a2&a3&a4&a5&a6&a7&a8&a9&a10&a11&a12&a13&a14&a15).
  rewrite a1, a2, a3, a4, a5, a6, a7, a8, a9, a10, a11, a12, a13, a14, a15. tauto.
Qed.

(* "same definitions array lengths and same flags/props lengths": a weaker relation, enough for szd, closed under
   the in-place rewrites of definitions (upd / map) *)
Definition len_view (s : mesh) := (nv s, length (edges s), length (faces s), length (cells s),
                                   length (vdel s), length (edel s), length (fdel s), length (cdel s),
                                   (pv s, pe s, phe s, pf s, phf s, pc s, pm s)).
Lemma szd_len_view s t : len_view t = len_view s -> szd s -> szd t.
Proof.
  unfold len_view, szd. intros E. inversion E as [[e1 e2 e3 e4 e5 e6 e7 e8 e9 e10 e11 e12 e13 e14 e15]].
  rewrite e1, e2, e3, e4, e5, e6, e7, e8, e9, e10, e11, e12, e13, e14, e15. tauto.
Qed.

Lemma len_view_reorder_edges es s : len_view (reorder_edges es s) = len_view s.
Proof.
  pose proof (reorder_edges_frame es s) as R. cbv zeta in R.
  destruct R as (A1&A2&A3&A4&A5&A6&A7&A8&A9&A10&A11&_).
  pose proof (A11 KV) as QV. pose proof (A11 KE) as QE. pose proof (A11 KHE) as QHE. pose proof (A11 KF) as QF.
  pose proof (A11 KHF) as QHF. pose proof (A11 KC) as QC. pose proof (A11 KM) as QM.
  cbn [props] in QV, QE, QHE, QF, QHF, QC, QM. unfold len_view. congruence.
Qed.

Lemma len_view_reorder_one e s : len_view (reorder_incident_halffaces e s) = len_view s.
Proof. exact (len_view_reorder_edges [e] s). Qed.

Lemma fold_fst_length {A B X} (f : list A * B -> X -> list A * B) :
  (forall acc x, length (fst (f acc x)) = length (fst acc)) ->
  forall l acc, length (fst (fold_left f l acc)) = length (fst acc).
Proof. intros H l. induction l as [|x l IH]; intros acc; [reflexivity|]. simpl. rewrite IH. apply H. Qed.

(* ---- swaps preserve the size invariant (no precondition) *)
Lemma szd_swap_cell a b s : szd s -> szd (swap_cell_indices a b s).
Proof.
  intros H. destruct (Nat.eq_dec a b) as [->|N]; [rewrite swap_cell_self; exact H|].
  pose proof (swap_cell_effect a b s N) as E. cbv zeta in E.
  destruct E as (c1&c2&c3&c4&c5&c6&c7&c8&c9&c10&c11&c12&c13&c14&c15&c16&c17&_).
  destruct H as (a1&a2&a3&a4&a5&a6&a7&a8&a9&a10&a11). unfold szd.
  rewrite c1, c2, c3, c4, c5, c6, c7, c8, c9, c12, c13, c14, c15, c16, c17, !swap_nth_length.
  repeat split; auto. apply psized_map_pswap. exact a10.
Qed.

Lemma szd_swap_face a b s : szd s -> szd (swap_face_indices a b s).
Proof.
  intros H. destruct (Nat.eq_dec a b) as [->|N]; [rewrite swap_face_self; exact H|].
  pose proof (swap_face_effect a b s N) as E. cbv zeta in E.
  destruct E as (c1&c2&c3&c4&c5&c6&c7&c8&c9&c10&c11&c12&c13&c14&c15&_).
  destruct H as (a1&a2&a3&a4&a5&a6&a7&a8&a9&a10&a11). unfold szd.
  assert (LC : length (cells (swap_face_indices a b s)) = length (cells s)).
  { unfold swap_face_indices. rewrite (proj2 (Nat.eqb_neq a b) N).
    destruct (fbu s) eqn:FB; destruct (ebu s) eqn:EB; rsz; rewrite ?FB, ?EB; rsz; try apply map_length.
    all: rewrite fold_fst_length; [reflexivity|].
    all: intros [cs dn] x; simpl; destruct (cell_of s x); [|reflexivity]; destruct (memb n dn); [reflexivity|]; simpl; apply upd_length. }
  rewrite c1, c2, c3, c4, c5, c6, c7, c8, c9, c11, c12, c13, c14, c15, LC, !swap_nth_length.
  repeat split; auto; [apply psized_map_pswap; exact a8 | unfold half_swap_props; apply psized_map_pswap, psized_map_pswap; exact a9].
Qed.

Lemma szd_swap_edge a b s : szd s -> szd (swap_edge_indices a b s).
Proof.
  intros H. destruct (Nat.eq_dec a b) as [->|N]; [rewrite swap_edge_self; exact H|].
  pose proof (swap_edge_effect a b s N) as E. cbv zeta in E.
  destruct E as (c1&c2&c3&c4&c5&c6&c7&c8&c9&c10&c11&c12&c13&c14&c15&_).
  destruct H as (a1&a2&a3&a4&a5&a6&a7&a8&a9&a10&a11). unfold szd.
  assert (LF : length (faces (swap_edge_indices a b s)) = length (faces s)).
  { unfold swap_edge_indices. rewrite (proj2 (Nat.eqb_neq a b) N).
    destruct (ebu s) eqn:EB; destruct (vbu s) eqn:VB; rsz; rewrite ?EB, ?VB; rsz;
      repeat match goal with |- context [let '(x, y) := ?p in _] => destruct p end; rsz; rewrite ?EB, ?VB; rsz;
      try apply map_length.
    all: rewrite fold_fst_length; [reflexivity|].
    all: intros [fs dn] x; cbn beta iota; match goal with |- context [if ?c then _ else _] => destruct c end; [reflexivity|]; cbn [fst]; apply upd_length. }
  rewrite c1, c2, c3, c4, c5, c6, c7, c8, c9, c11, c12, c13, c14, c15, LF, !swap_nth_length.
  repeat split; auto; [apply psized_map_pswap; exact a6 | unfold half_swap_props; apply psized_map_pswap, psized_map_pswap; exact a7].
Qed.

Lemma szd_swap_vertex a b s : szd s -> szd (swap_vertex_indices a b s).
Proof.
  intros H. destruct (Nat.eq_dec a b) as [->|N]; [rewrite swap_vertex_self; exact H|].
  pose proof (swap_vertex_effect a b s N) as E. cbv zeta in E.
  destruct E as (c1&c2&c3&c4&c5&c6&c7&c8&c9&c10&c11&c12&c13&c14&c15&c16&_).
  destruct H as (a1&a2&a3&a4&a5&a6&a7&a8&a9&a10&a11). unfold szd.
  assert (LE : length (edges (swap_vertex_indices a b s)) = length (edges s)).
  { unfold swap_vertex_indices. rewrite (proj2 (Nat.eqb_neq a b) N).
    destruct (vbu s) eqn:VB; rsz; rewrite ?VB; rsz; try apply map_length.
    rewrite fold_fst_length; [reflexivity|].
    intros [es dn] x; cbn beta iota; match goal with |- context [if ?c then _ else _] => destruct c end; [reflexivity|]; cbn [fst]; apply upd_length. }
  rewrite c1, c2, c3, c4, c5, c6, c7, c8, c11, c12, c13, c14, c15, c16, LE, !swap_nth_length.
  repeat split; auto. apply psized_map_pswap. exact a5.
Qed.

(* ---------------------------------------------------------------- the four delete_*_core *)

Lemma len_view_if (b : bool) (s t u : mesh) : len_view t = len_view u -> len_view s = len_view u -> len_view (if b then t else s) = len_view u.
Proof. destruct b; auto. Qed.

Lemma szd_delete_cell_core h0 s : szd s -> szd (delete_cell_core h0 s).
Proof.
  intros H. unfold delete_cell_core.
  set (do_swap := fast s && negb (deferred s)).
  set (h := if do_swap then nc s - 1 else h0).
  set (s_ := if do_swap then swap_cell_indices h0 h s else s).
  assert (Hs : szd s_) by (unfold s_; destruct do_swap; [apply szd_swap_cell|]; assumption).
  clearbody s_ h. clear H do_swap s.
  match goal with |- szd (if deferred ?x then _ else _) => set (s1 := x) end.
  assert (L1 : len_view s1 = len_view s_).
  { unfold s1. destruct (fbu s_); [|reflexivity].
    match goal with |- len_view (if ?b then reorder_edges ?es ?t else ?t) = _ => destruct b; [rewrite len_view_reorder_edges|]; reflexivity end. }
  assert (H1 : szd s1) by (apply (szd_len_view s_); assumption). clearbody s1. clear Hs L1 s_.
  destruct (deferred s1).
  - destruct H1 as (a1&a2&a3&a4&a5&a6&a7&a8&a9&a10&a11). unfold szd. rsz. rewrite upd_length. repeat split; assumption.
  - match goal with |- szd (cell_deleted h (set_cdel _ (set_cells _ ?x))) => set (s2 := x) end.
    assert (L2 : len_view s2 = len_view s1) by (unfold s2; destruct (negb (fast s1) && fbu s1); reflexivity).
    assert (H2 : szd s2) by (apply (szd_len_view s1); assumption). clearbody s2. clear H1 L2 s1.
    destruct H2 as (a1&a2&a3&a4&a5&a6&a7&a8&a9&a10&a11). unfold szd. rsz.
    repeat split; auto; [rewrite !remove_nth_length', a4; reflexivity | apply psized_pdelete; exact a10].
Qed.

Lemma fold_len_view {X} (f : mesh -> X -> mesh) : (forall s x, len_view (f s x) = len_view s) ->
  forall l s, len_view (fold_left f l s) = len_view s.
Proof. intros H l. induction l as [|x l IH]; intros s; [reflexivity|]. simpl. rewrite IH. apply H. Qed.

Lemma fold_upd_length {A X} (g : list A -> X -> nat * A) l : forall (cs : list A),
  length (fold_left (fun cs x => upd (fst (g cs x)) (snd (g cs x)) cs) l cs) = length cs.
Proof. induction l as [|x l IH]; intros cs; [reflexivity|]. simpl. rewrite IH. apply upd_length. Qed.

Lemma szd_delete_face_core h0 s : szd s -> szd (delete_face_core h0 s).
Proof.
  intros H. unfold delete_face_core.
  set (do_swap := fast s && negb (deferred s)).
  set (h := if do_swap then nf s - 1 else h0).
  set (s_ := if do_swap then swap_face_indices h0 h s else s).
  assert (Hs : szd s_) by (unfold s_; destruct do_swap; [apply szd_swap_face|]; assumption).
  clearbody s_ h. clear H do_swap s.
  match goal with |- szd (if deferred ?x then _ else _) => set (s1 := x) end.
  assert (L1 : len_view s1 = len_view s_).
  { unfold s1. destruct (ebu s_); [|reflexivity]. apply fold_len_view. intros t he.
    match goal with |- len_view (if ?b then reorder_incident_halffaces ?e ?u else ?u) = _ =>
      destruct b; [rewrite len_view_reorder_one|]; reflexivity end. }
  assert (H1 : szd s1) by (apply (szd_len_view s_); assumption). clearbody s1. clear Hs L1 s_.
  destruct (deferred s1).
  - destruct H1 as (a1&a2&a3&a4&a5&a6&a7&a8&a9&a10&a11). unfold szd. rsz. rewrite upd_length. repeat split; assumption.
  - match goal with |- szd (face_deleted h (set_fdel _ (set_faces _ ?x))) => set (s4 := x) end.
    assert (L4 : nv s4 = nv s1 /\ length (edges s4) = length (edges s1) /\ faces s4 = faces s1 /\ length (cells s4) = length (cells s1) /\
                 vdel s4 = vdel s1 /\ edel s4 = edel s1 /\ fdel s4 = fdel s1 /\ cdel s4 = cdel s1 /\
                 pv s4 = pv s1 /\ pe s4 = pe s1 /\ phe s4 = phe s1 /\ pf s4 = pf s1 /\ phf s4 = phf s1 /\ pc s4 = pc s1 /\ pm s4 = pm s1).
    { unfold s4.
      repeat match goal with |- context [if ?b then _ else _] => destruct b eqn:? end; rsz;
        repeat split; try reflexivity;
        match goal with |- length (fold_left ?FF ?LL ?CC) = _ =>
          apply (fold_upd_length (fun cs c => (c, map (cor2 (2 * h + 1)) (remove_val (2 * h + 1) (remove_val (2 * h) (nth c cs [])))))) end. }
    clearbody s4. destruct L4 as (b1&b2&b3&b4&b5&b6&b7&b8&b9&b10&b11&b12&b13&b14&b15).
    destruct H1 as (a1&a2&a3&a4&a5&a6&a7&a8&a9&a10&a11). unfold szd. rsz.
    rewrite b1, b2, b3, b4, b5, b6, b7, b8, b9, b10, b11, b12, b13, b14, b15.
    repeat split; auto; [rewrite !remove_nth_length', a3; reflexivity | apply psized_pdelete; exact a8 | apply psized_pdelete_half; exact a9].
Qed.

Lemma szd_delete_edge_core h0 s : szd s -> szd (delete_edge_core h0 s).
Proof.
  intros H. unfold delete_edge_core.
  set (do_swap := fast s && negb (deferred s)).
  set (h := if do_swap then ne s - 1 else h0).
  set (s_ := if do_swap then swap_edge_indices h0 h s else s).
  assert (Hs : szd s_) by (unfold s_; destruct do_swap; [apply szd_swap_edge|]; assumption).
  clearbody s_ h. clear H do_swap s.
  match goal with |- szd (if deferred ?x then _ else _) => set (s1 := x) end.
  assert (L1 : len_view s1 = len_view s_).
  { unfold s1. destruct (vbu s_); [|reflexivity]. destruct (edge_at s_ h). reflexivity. }
  assert (H1 : szd s1) by (apply (szd_len_view s_); assumption). clearbody s1. clear Hs L1 s_.
  destruct (deferred s1).
  - destruct H1 as (a1&a2&a3&a4&a5&a6&a7&a8&a9&a10&a11). unfold szd. rsz. rewrite upd_length. repeat split; assumption.
  - match goal with |- szd (edge_deleted h (set_edel _ (set_edges _ ?x))) => set (s4 := x) end.
    assert (L4 : nv s4 = nv s1 /\ edges s4 = edges s1 /\ length (faces s4) = length (faces s1) /\ cells s4 = cells s1 /\
                 vdel s4 = vdel s1 /\ edel s4 = edel s1 /\ fdel s4 = fdel s1 /\ cdel s4 = cdel s1 /\
                 pv s4 = pv s1 /\ pe s4 = pe s1 /\ phe s4 = phe s1 /\ pf s4 = pf s1 /\ phf s4 = phf s1 /\ pc s4 = pc s1 /\ pm s4 = pm s1).
    { unfold s4.
      repeat match goal with |- context [if ?b then _ else _] => destruct b eqn:? end; rsz;
        repeat split; try reflexivity;
        match goal with |- length (fold_left ?FF ?LL ?CC) = _ =>
          apply (fold_upd_length (fun fs f => (f, map (cor2 (2 * h + 1)) (remove_val (2 * h + 1) (remove_val (2 * h) (nth f fs [])))))) end. }
    clearbody s4. destruct L4 as (b1&b2&b3&b4&b5&b6&b7&b8&b9&b10&b11&b12&b13&b14&b15).
    destruct H1 as (a1&a2&a3&a4&a5&a6&a7&a8&a9&a10&a11). unfold szd. rsz.
    rewrite b1, b2, b3, b4, b5, b6, b7, b8, b9, b10, b11, b12, b13, b14, b15.
    repeat split; auto; [rewrite !remove_nth_length', a2; reflexivity | apply psized_pdelete; exact a6 | apply psized_pdelete_half; exact a7].
Qed.

Lemma szd_delete_vertex_core h0 s : szd s -> h0 < nv s -> szd (delete_vertex_core h0 s).
Proof.
  intros H Hh. unfold delete_vertex_core.
  set (do_swap := fast s && negb (deferred s)).
  set (h := if do_swap then nv s - 1 else h0).
  set (s_ := if do_swap then swap_vertex_indices h0 h s else s).
  assert (Hs : szd s_) by (unfold s_; destruct do_swap; [apply szd_swap_vertex|]; assumption).
  assert (Hn : h < nv s_).
  { unfold s_, h. destruct do_swap; [|assumption].
    destruct (Nat.eq_dec h0 (nv s - 1)) as [->|N]; [rewrite swap_vertex_self; lia|].
    pose proof (swap_vertex_effect h0 (nv s - 1) s N) as E. cbv zeta in E. destruct E as (c1&_). rewrite c1. lia. }
  clearbody s_ h. clear H Hh do_swap s.
  destruct (deferred s_).
  - destruct Hs as (a1&a2&a3&a4&a5&a6&a7&a8&a9&a10&a11). unfold szd. rsz. rewrite upd_length. repeat split; assumption.
  - match goal with |- szd (vertex_deleted h (set_vdel _ (set_nv _ ?x))) => set (s2 := x) end.
    assert (L2 : nv s2 = nv s_ /\ length (edges s2) = length (edges s_) /\ faces s2 = faces s_ /\ cells s2 = cells s_ /\
                 vdel s2 = vdel s_ /\ edel s2 = edel s_ /\ fdel s2 = fdel s_ /\ cdel s2 = cdel s_ /\
                 pv s2 = pv s_ /\ pe s2 = pe s_ /\ phe s2 = phe s_ /\ pf s2 = pf s_ /\ phf s2 = phf s_ /\ pc s2 = pc s_ /\ pm s2 = pm s_).
    { unfold s2.
      repeat match goal with |- context [if ?b then _ else _] => destruct b eqn:? end; rsz; repeat split; try reflexivity.
      (* endpoint correction: nested folds of upd (cache-guided) or one fold (linear scan) *)
      all: match goal with |- length (fold_left ?f ?l ?es) = _ =>
          assert (G : forall l0 es0, length (fold_left f l0 es0) = length es0); [|apply G] end.
      all: induction l0 as [|i l0 IH]; intros es0; [reflexivity|]; cbn [fold_left]; rewrite IH.
      all: try (match goal with |- context [let '(_, _) := ?p in _] => destruct p end; apply upd_length).
      all: match goal with |- length (fold_left ?g ?l1 ?e0) = _ =>
            assert (G2 : forall l2 es2, length (fold_left g l2 es2) = length es2); [|apply G2] end.
      all: induction l2 as [|x l2 IH2]; intros es2; [reflexivity|]; cbn [fold_left]; rewrite IH2.
      all: match goal with |- context [let '(_, _) := ?p in _] => destruct p end; apply upd_length. }
    clearbody s2. destruct L2 as (b1&b2&b3&b4&b5&b6&b7&b8&b9&b10&b11&b12&b13&b14&b15).
    destruct Hs as (a1&a2&a3&a4&a5&a6&a7&a8&a9&a10&a11). unfold szd. rsz.
    rewrite b1, b2, b3, b4, b5, b6, b7, b8, b9, b10, b11, b12, b13, b14, b15.
    repeat split; auto; [rewrite remove_nth_length', a1; replace (h <? nv s_) with true by (symmetry; apply Nat.ltb_lt; exact Hn); reflexivity
                        | apply psized_pdelete_nat; assumption].
Qed.

(* ---------------------------------------------------------------- the vertex count is not touched by the other cores *)
Lemma nv_of_len_view s t : len_view t = len_view s -> nv t = nv s.
Proof. unfold len_view. intros E. inversion E. reflexivity. Qed.

Lemma nv_swap_cell a b s : nv (swap_cell_indices a b s) = nv s.
Proof. destruct (Nat.eq_dec a b) as [->|N]; [rewrite swap_cell_self; reflexivity|]. pose proof (swap_cell_effect a b s N) as E. cbv zeta in E. tauto. Qed.
Lemma nv_swap_face a b s : nv (swap_face_indices a b s) = nv s.
Proof. destruct (Nat.eq_dec a b) as [->|N]; [rewrite swap_face_self; reflexivity|]. pose proof (swap_face_effect a b s N) as E. cbv zeta in E. tauto. Qed.
Lemma nv_swap_edge a b s : nv (swap_edge_indices a b s) = nv s.
Proof. destruct (Nat.eq_dec a b) as [->|N]; [rewrite swap_edge_self; reflexivity|]. pose proof (swap_edge_effect a b s N) as E. cbv zeta in E. tauto. Qed.

Lemma nv_delete_cell_core h0 s : nv (delete_cell_core h0 s) = nv s.
Proof.
  unfold delete_cell_core.
  set (do_swap := fast s && negb (deferred s)).
  set (h := if do_swap then nc s - 1 else h0).
  set (s_ := if do_swap then swap_cell_indices h0 h s else s).
  assert (Hs : nv s_ = nv s) by (unfold s_; destruct do_swap; [apply nv_swap_cell|reflexivity]).
  clearbody s_ h. rewrite <- Hs. clear Hs do_swap s.
  match goal with |- nv (if deferred ?x then _ else _) = _ => set (s1 := x) end.
  assert (L1 : nv s1 = nv s_).
  { apply nv_of_len_view. unfold s1. destruct (fbu s_); [|reflexivity].
    match goal with |- len_view (if ?b then reorder_edges ?es ?t else ?t) = _ => destruct b; [rewrite len_view_reorder_edges|]; reflexivity end. }
  clearbody s1. rewrite <- L1.
  destruct (deferred s1); [reflexivity|]. destruct (negb (fast s1) && fbu s1); reflexivity.
Qed.

Lemma nv_delete_face_core h0 s : nv (delete_face_core h0 s) = nv s.
Proof.
  unfold delete_face_core.
  set (do_swap := fast s && negb (deferred s)).
  set (h := if do_swap then nf s - 1 else h0).
  set (s_ := if do_swap then swap_face_indices h0 h s else s).
  assert (Hs : nv s_ = nv s) by (unfold s_; destruct do_swap; [apply nv_swap_face|reflexivity]).
  clearbody s_ h. rewrite <- Hs. clear Hs do_swap s.
  match goal with |- nv (if deferred ?x then _ else _) = _ => set (s1 := x) end.
  assert (L1 : nv s1 = nv s_).
  { apply nv_of_len_view. unfold s1. destruct (ebu s_); [|reflexivity]. apply fold_len_view. intros t he.
    match goal with |- len_view (if ?b then reorder_incident_halffaces ?e ?u else ?u) = _ =>
      destruct b; [rewrite len_view_reorder_one|]; reflexivity end. }
  clearbody s1. rewrite <- L1.
  destruct (deferred s1); [reflexivity|].
  repeat match goal with |- context [if ?b then _ else _] => destruct b eqn:? end; reflexivity.
Qed.

Lemma nv_delete_edge_core h0 s : nv (delete_edge_core h0 s) = nv s.
Proof.
  unfold delete_edge_core.
  set (do_swap := fast s && negb (deferred s)).
  set (h := if do_swap then ne s - 1 else h0).
  set (s_ := if do_swap then swap_edge_indices h0 h s else s).
  assert (Hs : nv s_ = nv s) by (unfold s_; destruct do_swap; [apply nv_swap_edge|reflexivity]).
  clearbody s_ h. rewrite <- Hs. clear Hs do_swap s.
  match goal with |- nv (if deferred ?x then _ else _) = _ => set (s1 := x) end.
  assert (L1 : nv s1 = nv s_).
  { unfold s1. destruct (vbu s_); [|reflexivity]. destruct (edge_at s_ h). reflexivity. }
  clearbody s1. rewrite <- L1.
  destruct (deferred s1); [reflexivity|].
  repeat match goal with |- context [if ?b then _ else _] => destruct b eqn:? end; reflexivity.
Qed.

(* ---------------------------------------------------------------- compound deletions *)
Lemma szd_del_desc core l : (forall x s, szd s -> szd (core x s)) -> forall s, szd s -> szd (del_desc core l s).
Proof.
  intros H. unfold del_desc. induction (rev l) as [|x r IH]; intros s Hs; [exact Hs|]. simpl. apply IH. apply H. exact Hs.
Qed.
Lemma nv_del_desc core l : (forall x s, nv (core x s) = nv s) -> forall s, nv (del_desc core l s) = nv s.
Proof.
  intros H. unfold del_desc. induction (rev l) as [|x r IH]; intros s; [reflexivity|]. simpl. rewrite IH. apply H.
Qed.

Lemma szd_delete_cell c s : szd s -> szd (delete_cell c s).
Proof. apply szd_delete_cell_core. Qed.
Lemma szd_delete_face f s : szd s -> szd (delete_face f s).
Proof. intros H. unfold delete_face. apply szd_delete_face_core. apply szd_del_desc; [apply szd_delete_cell_core|exact H]. Qed.
Lemma szd_delete_edge e s : szd s -> szd (delete_edge e s).
Proof.
  intros H. unfold delete_edge. apply szd_delete_edge_core.
  apply szd_del_desc; [apply szd_delete_face_core|]. apply szd_del_desc; [apply szd_delete_cell_core|exact H].
Qed.
Lemma szd_delete_vertex v s : szd s -> v < nv s -> szd (delete_vertex v s).
Proof.
  intros H Hv. unfold delete_vertex. apply szd_delete_vertex_core.
  - apply szd_del_desc; [apply szd_delete_edge_core|]. apply szd_del_desc; [apply szd_delete_face_core|].
    apply szd_del_desc; [apply szd_delete_cell_core|exact H].
  - rewrite (nv_del_desc _ _ nv_delete_edge_core), (nv_del_desc _ _ nv_delete_face_core), (nv_del_desc _ _ nv_delete_cell_core). exact Hv.
Qed.

(* ---------------------------------------------------------------- garbage collection *)
Lemma szd_gc_pass n is_del clr core s :
  (forall i t, szd t -> szd (clr i t)) ->
  (forall i t, szd t -> is_del t i = true -> szd (core i (clr i t))) ->
  szd s -> szd (gc_pass n is_del clr core s).
Proof.
  intros Hc Hcore. unfold gc_pass. induction (rev (seq 0 n)) as [|i r IH] in s |- *; intros Hs; [exact Hs|].
  simpl. apply IH. destruct (is_del s i) eqn:D; [apply Hcore; assumption|exact Hs].
Qed.

Lemma szd_set_counts a b c d s : szd s -> szd (set_counts a b c d s).
Proof. apply szd_len_view. reflexivity. Qed.
Lemma szd_set_flags a b c d e s : szd s -> szd (set_flags a b c d e s).
Proof. apply szd_len_view. reflexivity. Qed.

Lemma szd_upd_flag_c i b s : szd s -> szd (set_cdel (upd i b (cdel s)) s).
Proof. intros (a1&a2&a3&a4&a5). unfold szd. rsz. rewrite upd_length. tauto. Qed.
Lemma szd_upd_flag_f i b s : szd s -> szd (set_fdel (upd i b (fdel s)) s).
Proof. intros (a1&a2&a3&a4&a5). unfold szd. rsz. rewrite upd_length. tauto. Qed.
Lemma szd_upd_flag_e i b s : szd s -> szd (set_edel (upd i b (edel s)) s).
Proof. intros (a1&a2&a3&a4&a5). unfold szd. rsz. rewrite upd_length. tauto. Qed.
Lemma szd_upd_flag_v i b s : szd s -> szd (set_vdel (upd i b (vdel s)) s).
Proof. intros (a1&a2&a3&a4&a5). unfold szd. rsz. rewrite upd_length. tauto. Qed.

Lemma szd_collect_garbage s : szd s -> szd (collect_garbage s).
Proof.
  intros H. unfold collect_garbage. destruct (negb (deferred s) || negb (needs_gc s)); [exact H|].
  apply szd_set_flags. apply szd_set_counts.
  apply szd_gc_pass.
  - intros i t. apply szd_upd_flag_v.
  - intros i t Ht D. apply szd_delete_vertex_core; [apply szd_upd_flag_v; exact Ht|].
    rsz. unfold v_deleted in D. destruct Ht as (a1&_). rewrite <- a1.
    destruct (Nat.lt_ge_cases i (length (vdel t))); [assumption|]. rewrite nth_overflow in D by assumption. discriminate.
  - apply szd_set_counts. apply szd_gc_pass.
    + intros i t. apply szd_upd_flag_e.
    + intros i t Ht _. apply szd_delete_edge_core. apply szd_upd_flag_e. exact Ht.
    + apply szd_set_counts. apply szd_gc_pass.
      * intros i t. apply szd_upd_flag_f.
      * intros i t Ht _. apply szd_delete_face_core. apply szd_upd_flag_f. exact Ht.
      * apply szd_set_counts. apply szd_gc_pass.
        -- intros i t. apply szd_upd_flag_c.
        -- intros i t Ht _. apply szd_delete_cell_core. apply szd_upd_flag_c. exact Ht.
        -- apply szd_set_flags. exact H.
Qed.

(* ---------------------------------------------------------------- additions *)
Lemma szd_add_vertex s : szd s -> szd (fst (add_vertex s)).
Proof.
  intros (a1&a2&a3&a4&a5&a6&a7&a8&a9&a10&a11). unfold add_vertex. cbn [fst].
  destruct (vbu s) eqn:V; unfold szd; rsz; rewrite ?V; rsz; rewrite app_length, a1; cbn [length];
    repeat split; auto; try lia; apply psized_presize.
Qed.

Lemma szd_add_n_vertices n : forall s, szd s -> szd (add_n_vertices n s).
Proof. induction n as [|n IH]; intros s H; [exact H|]. simpl. apply IH. apply szd_add_vertex. exact H. Qed.

Lemma szd_append_edge s a b : szd s -> szd (fst (append_edge s a b)).
Proof.
  intros (a1&a2&a3&a4&a5&a6&a7&a8&a9&a10&a11).
  pose proof (append_edge_effect s a b) as E. destruct (append_edge s a b) as [s' e]. cbn [fst].
  destruct E as (_&e1&e2&(t1&t2&t3&t4&t5&t6&_)&_&p1&p2&p3&p4&p5&p6&p7).
  unfold szd. rewrite e1, e2, t1, t2, t3, t4, t5, t6, p1, p2, p3, p4, p5, p6, p7, !app_length. cbn [length]. unfold ne.
  repeat split; auto; try lia.
  - replace (length (edges s) + 1) with (S (length (edges s))) by lia. apply psized_presize.
  - replace (2 * (length (edges s) + 1)) with (2 * S (length (edges s))) by lia. apply psized_presize.
Qed.

Lemma szd_add_edge s a b d : szd s -> szd (fst (add_edge s a b d)).
Proof.
  intros H. unfold add_edge. destruct d; [apply szd_append_edge; exact H|].
  destruct (find_dup_edge s a b); [exact H|apply szd_append_edge; exact H].
Qed.

Lemma szd_append_face s hes : szd s -> szd (fst (append_face s hes)).
Proof.
  intros (a1&a2&a3&a4&a5&a6&a7&a8&a9&a10&a11).
  pose proof (append_face_effect s hes) as E. destruct (append_face s hes) as [s' f]. cbn [fst].
  destruct E as (_&e1&e2&t1&t2&t3&t4&t5&t6&_&p1&p2&p3&p4&p5&p6&p7).
  unfold szd. rewrite e1, e2, t1, t2, t3, t4, t5, t6, p1, p2, p3, p4, p5, p6, p7, !app_length. cbn [length]. unfold nf.
  repeat split; auto; try lia.
  - replace (length (faces s) + 1) with (S (length (faces s))) by lia. apply psized_presize.
  - replace (2 * (length (faces s) + 1)) with (2 * S (length (faces s))) by lia. apply psized_presize.
Qed.

Lemma szd_add_face s hes c : szd s -> szd (fst (add_face s hes c)).
Proof.
  intros H. unfold add_face. destruct (c && negb (loop_ok s hes)); [exact H|].
  pose proof (szd_append_face s hes H). destruct (append_face s hes). exact H0.
Qed.

Lemma szd_append_cell s hfs : szd s -> szd (fst (append_cell s hfs)).
Proof.
  intros (a1&a2&a3&a4&a5&a6&a7&a8&a9&a10&a11).
  pose proof (append_cell_effect s hfs) as E. destruct (append_cell s hfs) as [s' c]. cbn [fst].
  destruct E as (_&e1&e2&t1&t2&t3&t4&t5&t6&_&p1&p2&p3&p4&p5&p6&p7).
  unfold szd. rewrite e1, e2, t1, t2, t3, t4, t5, t6, p1, p2, p3, p4, p5, p6, p7, !app_length. cbn [length]. unfold nc.
  repeat split; auto; try lia.
  replace (length (cells s) + 1) with (S (length (cells s))) by lia. apply psized_presize.
Qed.

Lemma szd_add_cell s hfs c : szd s -> szd (fst (add_cell s hfs c)).
Proof.
  intros H. unfold add_cell. destruct (c && negb (cell_check s hfs)); [exact H|].
  pose proof (szd_append_cell s hfs H). destruct (append_cell s hfs). exact H0.
Qed.

Lemma szd_add_face_v_step v w acc : szd (fst acc) -> szd (fst (add_face_v_step v w acc)).
Proof.
  destruct acc as [s hes]. cbn [fst]. intros H. unfold add_face_v_step.
  pose proof (szd_add_edge s v w false H). destruct (add_edge s v w false). exact H0.
Qed.

Lemma szd_add_face_v_edges first vs : forall acc, szd (fst acc) -> szd (fst (add_face_v_edges first vs acc)).
Proof.
  induction vs as [|v t IH]; intros acc H; [exact H|]. simpl.
  destruct t as [|w t']; [apply szd_add_face_v_step; exact H|]. apply IH. apply szd_add_face_v_step. exact H.
Qed.

Lemma szd_add_face_v s vs : szd s -> szd (fst (add_face_v s vs)).
Proof.
  intros H. unfold add_face_v. destruct vs as [|f t]; [exact H|].
  pose proof (szd_add_face_v_edges f (f :: t) (s, []) H) as H1.
  destruct (add_face_v_edges f (f :: t) (s, [])) as [s1 hes]. apply szd_add_face. exact H1.
Qed.

(* ---------------------------------------------------------------- set_*, toggles, clear, property operations *)
Lemma szd_set_edge s e a b : szd s -> szd (set_edge s e a b).
Proof.
  intros (a1&a2&a3&a4&a5). unfold set_edge. destruct (edge_at s e). destruct (vbu s); unfold szd; rsz; rewrite upd_length; tauto.
Qed.
Lemma szd_set_face s f hes : szd s -> szd (set_face s f hes).
Proof. intros (a1&a2&a3&a4&a5). unfold set_face. destruct (ebu s); unfold szd; rsz; rewrite upd_length; tauto. Qed.
Lemma szd_set_cell s c hfs : szd s -> szd (set_cell s c hfs).
Proof. intros (a1&a2&a3&a4&a5). unfold set_cell. destruct (fbu s); unfold szd; rsz; rewrite upd_length; tauto. Qed.

Lemma szd_enable_vbu b s : szd s -> szd (enable_vbu b s).
Proof. apply szd_len_view. unfold enable_vbu. destruct (b && negb (vbu s)); destruct (negb b); reflexivity. Qed.
Lemma lv_set_flags a b c d e s : len_view (set_flags a b c d e s) = len_view s.
Proof. reflexivity. Qed.
Lemma lv_set_inc_hfs x s : len_view (set_inc_hfs x s) = len_view s.
Proof. reflexivity. Qed.
Lemma lv_set_inc_cell x s : len_view (set_inc_cell x s) = len_view s.
Proof. reflexivity. Qed.
Lemma lv_set_out_hes x s : len_view (set_out_hes x s) = len_view s.
Proof. reflexivity. Qed.

Lemma szd_enable_ebu b s : szd s -> szd (enable_ebu b s).
Proof.
  apply szd_len_view. unfold enable_ebu. rewrite lv_set_flags.
  destruct (negb b); rewrite ?lv_set_inc_hfs; destruct (b && negb (ebu s)); try reflexivity;
    match goal with |- context [if fbu ?x then _ else _] => destruct (fbu x) end;
    rewrite ?len_view_reorder_edges, ?lv_set_inc_hfs; reflexivity.
Qed.
Lemma szd_enable_fbu b s : szd s -> szd (enable_fbu b s).
Proof.
  apply szd_len_view. unfold enable_fbu.
  match goal with |- len_view (if ?c then reorder_edges ?es ?t else ?t) = _ => destruct c; [rewrite len_view_reorder_edges|] end;
    rewrite lv_set_flags; destruct (negb b); rewrite ?lv_set_inc_cell; destruct (b && negb (fbu s)); rewrite ?lv_set_inc_cell; reflexivity.
Qed.
Lemma szd_enable_deferred b s : szd s -> szd (enable_deferred b s).
Proof. intros H. unfold enable_deferred. apply szd_set_flags. destruct (deferred s && negb b); [apply szd_collect_garbage|]; exact H. Qed.

Lemma szd_clear c s : szd s -> szd (clear_mesh c s).
Proof.
  intros (a1&a2&a3&a4&a5&a6&a7&a8&a9&a10&a11). unfold clear_mesh, szd. rsz. cbn [length].
  repeat split; try reflexivity; try exact a11; apply psized_presize.
Qed.

(* ---------------------------------------------------------------- every operation, every history *)
Lemma szd_count k s : szd s -> psized (count k s) (props k s).
Proof. intros (a1&a2&a3&a4&a5&a6&a7&a8&a9&a10&a11). destruct k; cbn [count props]; unfold ne, nf, nc; assumption. Qed.

Lemma szd_set_props k x s : szd s -> psized (count k s) x -> szd (set_props k x s).
Proof.
  intros (a1&a2&a3&a4&a5&a6&a7&a8&a9&a10&a11) Hx. unfold szd. destruct k; cbn [count] in Hx; unfold ne, nf, nc in Hx; rsz;
    repeat split; auto.
Qed.

Lemma In_upd {A} i (x : A) l y : In y (upd i x l) -> y = x \/ In y l.
Proof.
  revert i; induction l as [|h t IH]; intros [|i] H; simpl in *; auto.
  - destruct H as [<-|H]; auto.
  - destruct H as [<-|H]; auto. destruct (IH i H); auto.
Qed.

Lemma In_remove_nth {A} i (l : list A) y : In y (remove_nth i l) -> In y l.
Proof.
  revert i; induction l as [|h t IH]; intros [|i] H; simpl in *; auto. destruct H as [<-|H]; auto. right. eapply IH. exact H.
Qed.

Theorem szd_exec s o : szd s -> valid_op s o = true -> szd (fst (exec s o)).
Proof.
  intros H V. destruct o; cbn [exec].
  - pose proof (szd_add_vertex s H). destruct (add_vertex s). exact H0.
  - cbn [fst]. apply szd_add_n_vertices. exact H.
  - pose proof (szd_add_edge s a b dup H). destruct (add_edge s a b dup). exact H0.
  - apply szd_add_face. exact H.
  - apply szd_add_face_v. exact H.
  - apply szd_add_cell. exact H.
  - cbn [fst]. apply szd_set_edge. exact H.
  - cbn [fst]. apply szd_set_face. exact H.
  - cbn [fst]. apply szd_set_cell. exact H.
  - cbn [fst]. apply szd_delete_vertex; [exact H|]. cbn [valid_op] in V. unfold live_v in V.
    apply andb_true_iff in V. destruct V as [V _]. apply Nat.ltb_lt in V. exact V.
  - cbn [fst]. apply szd_delete_edge. exact H.
  - cbn [fst]. apply szd_delete_face. exact H.
  - cbn [fst]. apply szd_delete_cell. exact H.
  - cbn [fst]. apply szd_swap_vertex. exact H.
  - cbn [fst]. apply szd_swap_edge. exact H.
  - cbn [fst]. apply szd_swap_face. exact H.
  - cbn [fst]. apply szd_swap_cell. exact H.
  - cbn [fst]. apply szd_collect_garbage. exact H.
  - cbn [fst]. apply szd_clear. exact H.
  - cbn [fst]. apply szd_enable_vbu. exact H.
  - cbn [fst]. apply szd_enable_ebu. exact H.
  - cbn [fst]. apply szd_enable_fbu. exact H.
  - cbn [fst]. apply szd_enable_deferred. exact H.
  - cbn [fst]. unfold enable_fast. apply szd_set_flags. exact H.
  - cbn [fst]. apply szd_set_props; [exact H|]. intros p Hp. apply in_app_iff in Hp. destruct Hp as [Hp|[<-|[]]].
    + apply (szd_count k s H). exact Hp.
    + cbn [pdata]. apply repeat_length.
  - cbn [fst]. apply szd_set_props; [exact H|]. intros q Hq. apply In_upd in Hq. destruct Hq as [->|Hq].
    + unfold pset. cbn [pdata]. rewrite upd_length.
      cbn [valid_op] in V. destruct (nth_error (props k s) p) as [pa|] eqn:E; [|discriminate].
      apply nth_error_In in E as Hin. rewrite (nth_error_nth _ _ _ E). apply (szd_count k s H). exact Hin.
    + apply (szd_count k s H). exact Hq.
  - cbn [fst]. apply szd_set_props; [exact H|]. intros q Hq. apply In_remove_nth in Hq. apply (szd_count k s H). exact Hq.
Qed.

Theorem szd_run_from ops : forall s, szd s -> szd (run_from s ops).
Proof.
  induction ops as [|o ops IH]; intros s H; [exact H|]. unfold run_from. cbn [fold_left]. apply IH.
  unfold step. destruct (valid_op s o) eqn:V; [|exact H].
  pose proof (szd_exec s o H V) as E. destruct (exec s o). exact E.
Qed.

Lemma szd_empty : szd empty_mesh.
Proof. unfold szd, empty_mesh, psized. cbn. repeat split; auto; intros p []. Qed.

Theorem szd_reachable ops : szd (run ops).
Proof. apply szd_run_from. apply szd_empty. Qed.

Theorem sized_reachable ops : sized (run ops).
Proof. apply szd_sized. apply szd_reachable. Qed.
