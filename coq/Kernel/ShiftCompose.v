(* Kernel/ShiftCompose.v -- C02 / C01, IMMEDIATE NON-FAST mode, the public deletions:
     - delete_cell_core h: only the cell array (slot h removed), the cell flag array, the halfface->cell cache (entries of the dying
       cell cleared, larger cell handles decremented) and - by re-ordering only - the halfedge->halfface lists change; the
       exactness of the halfface->cell cache is preserved (fbu_inv), and so is the FULL invariant shift_inv2 (the re-ordered
       lists are those of the deferred-mode run on the same state, Kernel2/ExactDelCell.v, transported through set_def);
     - a descending run of a core over a strictly ascending list removes exactly those slots (remove_slots = keep_slots);
     - the phases of a public deletion (cells, faces, edges), each keeping shift_inv2 and establishing the "free" hypothesis
       of the next one;
     - delete_face f / delete_edge e / delete_vertex v: exactly the brute-force upward closure (Kernel/Closure.v) goes away, every
       survivor keeps its definition read through the handle shifts, shift_inv2 holds again -- with any subset of incidences on;
     - executable forms of all hypotheses (for the non-vacuity examples in Props/Properties_C02.v). *)
From Coq Require Import ZArith Lia Bool Arith List ZifyNat ZifyBool Permutation.
From OVM Require Import Base.ListX Base.ListLemmas Base.ListLemmas2 Kernel.State Kernel.Ops Kernel.Mirror Kernel.Construct
                        Kernel.Recompute Kernel.Closure Kernel.ExactInv Kernel.ExactDelete Kernel.DeleteEffects Kernel.DeleteDefs
                        Kernel2.LookupModel Kernel2.ListAux Kernel2.AdjacentProofs Kernel2.ReorderExact Kernel2.ExactBase Kernel2.ExactDelCell
                        Kernel.ShiftFace Kernel.ShiftEdge Kernel.ShiftVertex.
Import ListNotations.
Ltac Zify.zify_post_hook ::= Z.div_mod_to_equations.
Local Open Scope nat_scope.

(* ================================================================== delete_cell_core: the view *)

Definition cell_inc (h : nat) (s : mesh) : list (option nat) :=
  map (option_map (cor1 h)) (fold_left (clear_step h) (cell_at s h) (inc_cell s)).

Lemma delete_cell_core_view h s : deferred s = false -> fast s = false -> let s' := delete_cell_core h s in
  nv s' = nv s /\ edges s' = edges s /\ faces s' = faces s /\ cells s' = remove_nth h (cells s) /\
  vdel s' = vdel s /\ edel s' = edel s /\ fdel s' = fdel s /\ cdel s' = remove_nth h (cdel s) /\
  out_hes s' = out_hes s /\
  inc_cell s' = (if fbu s then cell_inc h s else inc_cell s) /\
  length (inc_hfs s') = length (inc_hfs s) /\ (ebu s && fbu s = false -> inc_hfs s' = inc_hfs s) /\
  (vbu s' = vbu s /\ ebu s' = ebu s /\ fbu s' = fbu s /\ deferred s' = false /\ fast s' = false).
Proof.
  intros D F. cbv zeta. unfold delete_cell_core, cell_inc. rewrite F. cbn [andb]. fold (clear_step h).
  destruct (fbu s) eqn:Fb.
  - destruct (ebu s) eqn:Eb; rsh; rewrite ?Eb.
    + match goal with |- context [reorder_edges ?es ?t] => destruct (reorder_edges_frame2 es t) as [x [-> Lx]] end.
      rsh. rewrite D, F, Fb. cbn [negb andb]. rsh. rsh. repeat split; auto. intros X; discriminate.
    + rsh. rewrite D, F, Fb. cbn [negb andb]. rsh. repeat split; auto.
  - rewrite D, F, Fb. cbn [negb andb]. rsh. rewrite andb_false_r. repeat split; auto.
Qed.

(* ================================================================== the halfface->cell cache stays exact *)

Definition fbu_inv (s : mesh) : Prop :=
  no_flags s /\ fbu_ok s /\ cells_in_range s /\ (fbu s = true -> length (inc_cell s) = 2 * nf s).

Lemma shift_inv_fbu_inv s : shift_inv s -> fbu_inv s.
Proof.
  intros (NF & _ & _ & FO & (_ & _ & R3) & (_ & _ & L3 & _)). split; [exact NF|]. split; [exact FO|]. split; [|exact L3].
  intros c hf Hc Hhf. apply (R3 c Hc); [apply NF|exact Hhf].
Qed.

Lemma nth_map_option (f : nat -> nat) l k : nth k (map (option_map f) l) None = option_map f (nth k l None).
Proof. change (@None nat) with (option_map f None) at 1. apply map_nth. Qed.

Theorem fbu_inv_delete_cell_core h s : deferred s = false -> fast s = false -> fbu_inv s -> h < nc s -> fbu_inv (delete_cell_core h s).
Proof.
  intros D F (NF & FO & CR & L) Hh.
  pose proof (no_flags_delete_cell_core h s D F NF) as NF'.
  pose proof (delete_cell_core_view h s D F) as V. cbv zeta in V. set (s' := delete_cell_core h s) in *.
  destruct V as (w1 & w2 & w3 & w4 & w5 & w6 & w7 & w8 & w9 & w10 & w11 & w12 & (m1 & m2 & m3 & m4 & m5)).
  assert (NF_ : nf s' = nf s) by (unfold nf; rewrite w3; reflexivity).
  assert (NC : nc s' = nc s - 1) by (unfold nc; rewrite w4; apply remove_nth_length; exact Hh).
  assert (CAt : forall c, cell_at s' c = cell_at s (unshift1 h c)) by (intros c; unfold cell_at; rewrite w4; apply nth_remove_nth_unshift).
  destruct NF as (NFv & NFe & NFf & NFc). pose proof NF' as (NFv' & NFe' & NFf' & NFc').
  split; [exact NF'|]. split; [|split].
  - intros Fb hf Hhf c. rewrite m3 in Fb. rewrite NF_ in Hhf. unfold cell_of. rewrite w10, Fb. unfold cell_inc.
    rewrite nth_map_option, nth_clear_fold. fold (cell_of s hf). rewrite NC, NFc', CAt.
    assert (Hu : c < nc s - 1 <-> unshift1 h c < nc s) by (symmetry; apply unshift1_lt; exact Hh).
    pose proof (FO Fb hf Hhf (unshift1 h c)) as T. rewrite NFc in T.
    destruct (cell_of s hf) as [c0|] eqn:Ec.
    + pose proof (proj1 (FO Fb hf Hhf c0) Ec) as (A1 & _ & A3). cbn [is_h]. destruct (Nat.eqb_spec c0 h) as [->|N0].
      * replace (memb hf (cell_at s h)) with true by (symmetry; apply memb_In; exact A3). cbn [andb option_map].
        split; [discriminate|]. intros (B1 & _ & B3). exfalso. assert (Some h = Some (unshift1 h c)) by (apply T; tauto).
        injection H as H. unfold unshift1 in H. revert H. ltb_cases; lia.
      * rewrite andb_false_r. cbn [option_map]. split.
        -- intros E. injection E as E. assert (c0 = unshift1 h c) by (rewrite <- E; symmetry; apply unshift1_cor1; exact N0).
           subst c0. tauto.
        -- intros (B1 & _ & B3). assert (E : Some c0 = Some (unshift1 h c)) by (apply T; tauto). injection E as ->. rewrite cor1_unshift1. reflexivity.
    + rewrite andb_false_r. cbn [option_map]. split; [discriminate|]. intros (B1 & _ & B3). exfalso.
      assert (E : None = Some (unshift1 h c)) by (apply T; tauto). discriminate.
  - intros c hf Hc Hhf. rewrite NC in Hc. rewrite CAt in Hhf. rewrite NF_. apply (CR (unshift1 h c)); [apply unshift1_lt; assumption|exact Hhf].
  - intros Fb. rewrite m3 in Fb. rewrite w10, Fb, NF_. unfold cell_inc. rewrite map_length, length_clear_fold. exact (L Fb).
Qed.

(* ================================================================== the cell core keeps the full invariant *)

(* the part of delete_cell_core that both modes share: clear the cache entries of the dying cell, re-order around its edges *)
Definition cell_loop (h : nat) (s : mesh) : mesh :=
  if fbu s then
    let s' := cleared s h in
    let es := set_of_list (map (fun he => he / 2) (concat (map (halfface s') (cell_at s h)))) in
    if ebu s' then reorder_edges es s' else s'
  else s.

Lemma cell_loop_frame h s : exists x y, cell_loop h s = set_inc_hfs x (set_inc_cell y s).
Proof.
  unfold cell_loop. destruct (fbu s).
  - cbv zeta. change (ebu (cleared s h)) with (ebu s). destruct (ebu s).
    + match goal with |- context [reorder_edges ?es ?u] => destruct (reorder_edges_frame2 es u) as [x [-> _]] end.
      exists x, (inc_cell (cleared s h)). reflexivity.
    + exists (inc_hfs s), (inc_cell (cleared s h)). reflexivity.
  - exists (inc_hfs s), (inc_cell s). destruct s; reflexivity.
Qed.

Lemma delete_cell_core_inc_hfs h s : fast s && negb (deferred s) = false -> inc_hfs (delete_cell_core h s) = inc_hfs (cell_loop h s).
Proof.
  intros NS. unfold delete_cell_core. rewrite NS.
  match goal with |- context [if deferred ?x then _ else _] => set (s1 := x) end.
  assert (E1 : s1 = cell_loop h s) by reflexivity. clearbody s1. subst s1.
  destruct (cell_loop_frame h s) as [x [y ->]]. rsh. destruct (deferred s); rsh; [reflexivity|].
  destruct (negb (fast s) && fbu s); rsh; reflexivity.
Qed.

Lemma reorder_edges_reads es : forall s t, same_reads s t -> same_reads (reorder_edges es s) (reorder_edges es t).
Proof. unfold reorder_edges. induction es as [|e es IH]; intros s t H; [exact H|]. cbn [fold_left]. apply IH. apply reorder_reads. exact H. Qed.

Lemma same_reads_cleared h s t : same_reads s t -> same_reads (cleared s h) (cleared t h).
Proof. intros (a & b & c & d & e & f). unfold same_reads, cleared, cell_at. rsh. rewrite b, d. repeat split; assumption. Qed.

Lemma cell_loop_reads h s t : same_reads s t -> ebu s = ebu t -> inc_hfs (cell_loop h s) = inc_hfs (cell_loop h t).
Proof.
  intros H Eb. pose proof H as (a & b & c & d & e & f). unfold cell_loop. rewrite f. destruct (fbu t); [|exact e].
  cbv zeta. change (ebu (cleared s h)) with (ebu s). change (ebu (cleared t h)) with (ebu t). rewrite Eb. destruct (ebu t); [|exact e].
  assert (Es : map (halfface (cleared s h)) (cell_at s h) = map (halfface (cleared t h)) (cell_at t h)).
  { unfold cell_at. rewrite b. apply map_ext. intros x. unfold halfface, face_at, cleared. rsh. rewrite a. reflexivity. }
  rewrite Es. apply (reorder_edges_reads _ _ _ (same_reads_cleared h s t H)).
Qed.

Lemma closed_cell_same s s' c c' : cell_at s' c' = cell_at s c -> faces s' = faces s ->
  (forall y, In y (cell_at s c) -> cell_of s' y = Some c') -> closed_cell s c -> closed_cell s' c'.
Proof.
  intros CA Fa CO Cl. apply (closed_cell_rename s s' c c' (fun x => x) (fun x => x)); [rewrite map_id; exact CA|exact CO| | | |exact Cl].
  - intros; split; reflexivity.
  - intros z Hz. rewrite map_id. unfold halfface, face_at. rewrite Fa. reflexivity.
  - intros; reflexivity.
Qed.

Theorem shift_inv2_delete_cell_core h s : deferred s = false -> fast s = false -> shift_inv2 s -> h < nc s ->
  shift_inv2 (delete_cell_core h s).
Proof.
  intros D F [I X] Hh.
  pose proof I as ((NFv & NFe & NFf & NFc) & VO & EO & FO & (R1 & R2 & R3) & (L1 & L2 & L3 & L4 & L5 & L6)).
  pose proof (fbu_inv_delete_cell_core h s D F (shift_inv_fbu_inv s I) Hh) as (NF' & FO' & CR' & Li').
  pose proof (delete_cell_core_inc_hfs h s ltac:(rewrite F; reflexivity)) as IH.
  pose proof (delete_cell_core_view h s D F) as V. cbv zeta in V. set (s' := delete_cell_core h s) in *.
  destruct V as (w1 & w2 & w3 & w4 & w5 & w6 & w7 & w8 & w9 & w10 & w11 & w12 & (m1 & m2 & m3 & m4 & m5)).
  assert (NE : ne s' = ne s) by (unfold ne; rewrite w2; reflexivity).
  assert (NF_ : nf s' = nf s) by (unfold nf; rewrite w3; reflexivity).
  assert (NC : nc s' = nc s - 1) by (unfold nc; rewrite w4; apply remove_nth_length; exact Hh).
  assert (CAt : forall c, cell_at s' c = cell_at s (unshift1 h c)) by (intros c; unfold cell_at; rewrite w4; apply nth_remove_nth_unshift).
  pose proof NF' as (NFv' & NFe' & NFf' & NFc').
  (* the deferred run on the same state: Kernel2/ExactDelCell.v *)
  assert (Def : ebu s = true -> fbu s = true ->
                slots_nodup s' /\ (forall k, k < 2 * ne s -> forall x, In x (hfs_at s' k) <-> In x (hfs_at s k))).
  { intros E Fb. destruct (X E Fb) as (SN & LC & FS). set (sd := set_def s).
    assert (CL : cells_ref_live s) by (intros c hf Hc _ Hhf; split; [pose proof (R3 c Hc (NFc c) hf Hhf); lia|apply NFf]).
    assert (B : bu_inv2 sd).
    { split; [exact (conj VO (conj EO (conj FO (conj (conj R1 (conj R2 R3)) (conj L1 (conj L2 (conj L3 (conj L4 (conj L5 L6)))))))))|].
      split; [exact E|]. split; [exact Fb|]. split; [reflexivity|]. split; [exact SN|]. split; [exact CL|]. split; [exact LC|exact FS]. }
    pose proof (bu_inv2_delete_cell_core h sd B Hh (NFc h)) as ((_ & EOd & _) & Ed & _ & _ & SNd & _).
    pose proof (ExactDelCell.delete_cell_core_view h sd eq_refl Fb E) as Vd. cbv zeta in Vd.
    destruct Vd as (_ & d2 & d3 & _ & _ & d6 & _).
    pose proof (delete_cell_core_inc_hfs h sd ltac:(apply andb_false_r)) as IHd.
    assert (Same : inc_hfs s' = inc_hfs (delete_cell_core h sd)).
    { rewrite IH, IHd. apply cell_loop_reads; [apply same_reads_set_def|reflexivity]. }
    set (Dd := delete_cell_core h sd) in *.
    assert (NEd : ne Dd = ne s) by (unfold ne; rewrite d2; reflexivity).
    split.
    - intros k Hk. rewrite NE in Hk. unfold hfs_at. rewrite Same. apply SNd. rewrite NEd. exact Hk.
    - intros k Hk x. unfold hfs_at at 1. rewrite Same. fold (hfs_at Dd k). rewrite (EOd Ed k ltac:(rewrite NEd; exact Hk) x), (EO E k Hk x).
      unfold nf, f_deleted, halfface, face_at. rewrite d3, d6. reflexivity. }
  assert (EO' : ebu_ok s').
  { intros E' k Hk x. rewrite m2 in E'. rewrite NE in Hk.
    assert (Old : In x (hfs_at s' k) <-> In x (hfs_at s k)).
    { destruct (fbu s) eqn:Fb; [exact (proj2 (Def E' eq_refl) k Hk x)|].
      unfold hfs_at. rewrite w12 by (rewrite E'; reflexivity). reflexivity. }
    rewrite Old, (EO E' k Hk x), NF_, NFf, NFf'. unfold halfface, face_at. rewrite w3. reflexivity. }
  split; [split; [exact NF'|]; split; [|split; [exact EO'|split; [exact FO'|split; [split; [|split]|unfold lens_ok; split; [|split; [|split; [|split; [|split]]]]]]]]|].
  - intros V v Hv x. rewrite m1 in V. rewrite w1 in Hv. unfold out_at, e_deleted, he_from, edge_at. rewrite w9, NE, w6, w2. exact (VO V v Hv x).
  - intros e He _. rewrite NE in He. unfold edge_at. rewrite w2, w1. exact (R1 e He (NFe e)).
  - intros f Hf _ x Hx. rewrite NF_ in Hf. unfold face_at in Hx. rewrite w3 in Hx. rewrite NE. exact (R2 f Hf (NFf f) x Hx).
  - intros c Hc _ x Hx. exact (CR' c x Hc Hx).
  - intros V. rewrite m1 in V. rewrite w9, w1. exact (L1 V).
  - intros E. rewrite m2 in E. rewrite w11, NE. exact (L2 E).
  - intros Fb. exact (Li' Fb).
  - rewrite w6, NE. exact L4.
  - rewrite w7, NF_. exact L5.
  - rewrite w8, NC, remove_nth_length by (rewrite L6; exact Hh). rewrite L6. reflexivity.
  - intros E' Fb'. assert (E : ebu s = true) by congruence. assert (Fb : fbu s = true) by congruence.
    destruct (X E Fb) as (SN & LC & FS). split; [exact (proj1 (Def E Fb))|]. split.
    + intros c Hc _. rewrite NC in Hc. assert (Hu : unshift1 h c < nc s) by (apply unshift1_lt; assumption).
      apply (closed_cell_same s s' (unshift1 h c) c (CAt c) w3); [|exact (LC _ Hu (NFc _))].
      intros y Hy. apply (FO' Fb').
      * rewrite NF_. exact (R3 _ Hu (NFc _) y Hy).
      * split; [rewrite NC; exact Hc|]. split; [apply NFc'|rewrite CAt; exact Hy].
    + intros f Hf _. rewrite NF_ in Hf. unfold face_at. rewrite w3. exact (FS f Hf (NFf f)).
Qed.

(* ================================================================== descending runs *)

Definition remove_slots {A} (cs : list nat) (l : list A) : list A := fold_left (fun l c => remove_nth c l) (rev cs) l.
(* the entries at the indices outside cs, in their old order *)
Definition keep_slots {A} (d : A) (cs : list nat) (l : list A) : list A :=
  map (fun i => nth i l d) (filter (fun i => negb (memb i cs)) (seq 0 (length l))).

Lemma remove_slots_cons {A} a cs (l : list A) : remove_slots (a :: cs) l = remove_nth a (remove_slots cs l).
Proof. unfold remove_slots. cbn [rev]. rewrite fold_left_app. reflexivity. Qed.

Lemma del_desc_cons core a cs s : del_desc core (a :: cs) s = core a (del_desc core cs s).
Proof. unfold del_desc. cbn [rev]. rewrite fold_left_app. reflexivity. Qed.

Lemma remove_nth_app_mid {A} (l1 : list A) x l2 : remove_nth (length l1) (l1 ++ x :: l2) = l1 ++ l2.
Proof. induction l1 as [|a l1 IH]; [reflexivity|]. cbn [length app remove_nth]. f_equal. exact IH. Qed.

Lemma sorted_tail x l : strictly_sorted (x :: l) -> strictly_sorted l.
Proof. intros H. inversion H; subst; [constructor|assumption]. Qed.

Lemma sorted_room a l n : strictly_sorted (a :: l) -> (forall x, In x (a :: l) -> x < n) -> a + length l < n.
Proof.
  revert a. induction l as [|b l IH]; intros a H R.
  - specialize (R a (or_introl eq_refl)). simpl. lia.
  - assert (a < b) by (inversion H; assumption). pose proof (IH b (sorted_tail _ _ H) (fun x Hx => R x (or_intror Hx))). simpl in *. lia.
Qed.

Lemma filter_ext_in' {A} (p q : A -> bool) l : (forall x, In x l -> p x = q x) -> filter p l = filter q l.
Proof. intros H. induction l as [|a l IH]; [reflexivity|]. simpl. rewrite (H a) by (left; reflexivity). rewrite IH by (intros x Hx; apply H; right; exact Hx). reflexivity. Qed.

Lemma filter_all {A} (p : A -> bool) l : (forall x, In x l -> p x = true) -> filter p l = l.
Proof. intros H. induction l as [|a l IH]; [reflexivity|]. simpl. rewrite (H a) by (left; reflexivity). f_equal. apply IH. intros x Hx. apply H. right. exact Hx. Qed.

Lemma memb_false_iff x l : memb x l = false <-> ~ In x l.
Proof. rewrite <- Base.ListLemmas.memb_In. destruct (memb x l); split; congruence. Qed.

Theorem remove_slots_keep {A} (d : A) cs : forall l, strictly_sorted cs -> (forall c, In c cs -> c < length l) ->
  remove_slots cs l = keep_slots d cs l.
Proof.
  induction cs as [|a cs IH]; intros l Ss R.
  - unfold remove_slots, keep_slots. cbn [rev fold_left memb existsb negb]. rewrite filter_all by reflexivity.
    symmetry. apply (list_ext_nth _ _ d); [rewrite map_length, seq_length; reflexivity|]. intros k Hk. rewrite map_length, seq_length in Hk.
    rewrite (nth_indep _ d (nth 0 l d)) by (rewrite map_length, seq_length; exact Hk).
    change (nth 0 l d) with ((fun i => nth i l d) 0). rewrite map_nth, seq_nth by exact Hk. reflexivity.
  - rewrite remove_slots_cons, IH; [|exact (sorted_tail _ _ Ss)|intros c Hc; apply R; right; exact Hc].
    assert (Ha : a < length l) by (apply R; left; reflexivity).
    assert (Lt : forall x, In x cs -> a < x) by (apply strictly_sorted_lt; exact Ss).
    unfold keep_slots. replace (length l) with (a + S (length l - S a)) by lia. rewrite seq_app, !filter_app. cbn [seq filter plus].
    assert (Na : memb a cs = false) by (apply memb_false_iff; intros I; specialize (Lt a I); lia).
    rewrite Na. cbn [negb]. replace (memb a (a :: cs)) with true by (symmetry; apply Base.ListLemmas.memb_In; left; reflexivity). cbn [negb].
    rewrite (filter_all _ (seq 0 a)).
    2:{ intros x Hx. apply in_seq in Hx. apply negb_true_iff, memb_false_iff. intros I. specialize (Lt x I). lia. }
    rewrite (filter_all _ (seq 0 a)).
    2:{ intros x Hx. apply in_seq in Hx. apply negb_true_iff, memb_false_iff. intros [->|I]; [lia|]. specialize (Lt x I). lia. }
    rewrite !map_app. cbn [map].
    replace a with (length (map (fun i => nth i l d) (seq 0 a))) at 1 by (rewrite map_length, seq_length; reflexivity).
    rewrite remove_nth_app_mid. f_equal. f_equal. apply filter_ext_in'. intros x Hx. apply in_seq in Hx.
    unfold memb at 2. cbn [existsb]. destruct (Nat.eqb_spec x a); [lia|]. reflexivity.
Qed.

Lemma In_keep_slots {A} (d : A) cs l x : In x (keep_slots d cs l) <-> exists i, i < length l /\ ~ In i cs /\ nth i l d = x.
Proof.
  unfold keep_slots. rewrite in_map_iff. split.
  - intros [i [E Hi]]. apply filter_In in Hi. destruct Hi as [Hi Hn]. apply in_seq in Hi. apply negb_true_iff, memb_false_iff in Hn. exists i. repeat split; auto. lia.
  - intros [i (Hi & Hn & E)]. exists i. split; [exact E|]. apply filter_In. split; [apply in_seq; lia|]. apply negb_true_iff, memb_false_iff. exact Hn.
Qed.

(* the cell phase of a public deletion *)
Theorem del_desc_cells_immediate cs : forall s, strictly_sorted cs -> (forall c, In c cs -> c < nc s) ->
  deferred s = false -> fast s = false -> fbu_inv s ->
  let s' := del_desc delete_cell_core cs s in
  fbu_inv s' /\ deferred s' = false /\ fast s' = false /\
  nv s' = nv s /\ edges s' = edges s /\ faces s' = faces s /\ cells s' = remove_slots cs (cells s) /\
  nc s' = nc s - length cs /\
  (vbu s' = vbu s /\ ebu s' = ebu s /\ fbu s' = fbu s).
Proof.
  induction cs as [|a cs IH]; intros s Ss R D F I; cbv zeta.
  - unfold del_desc, remove_slots. cbn [rev fold_left length]. split; [exact I|]. repeat split; auto. lia.
  - rewrite del_desc_cons, remove_slots_cons.
    specialize (IH s (sorted_tail _ _ Ss) (fun c Hc => R c (or_intror Hc)) D F I). cbv zeta in IH. set (t := del_desc delete_cell_core cs s) in *.
    destruct IH as (It & Dt & Ft & t1 & t2 & t3 & t4 & t5 & (t6 & t7 & t8)).
    assert (Ha : a < nc t) by (rewrite t5; pose proof (sorted_room a cs (nc s) Ss R); lia).
    pose proof (delete_cell_core_view a t Dt Ft) as V. cbv zeta in V.
    destruct V as (w1 & w2 & w3 & w4 & _ & _ & _ & _ & _ & _ & _ & _ & (m1 & m2 & m3 & m4 & m5)).
    split; [apply fbu_inv_delete_cell_core; assumption|]. repeat split; try congruence.
    unfold nc at 1. rewrite w4, remove_nth_length by exact Ha. fold (nc t). rewrite t5. cbn [length]. lia.
Qed.

(* ================================================================== delete_face *)

Lemma cells_at_faces_spec s f c : no_flags s -> (In c (cells_at_faces s [f]) <-> c < nc s /\ exists hf, In hf (cell_at s c) /\ hf / 2 = f).
Proof.
  intros (_ & _ & _ & NFc). unfold cells_at_faces. rewrite filter_In, In_live_cells, existsb_exists. split.
  - intros [[Hc _] [hf [H1 H2]]]. split; [exact Hc|]. exists hf. split; [exact H1|]. apply Base.ListLemmas.memb_In in H2. destruct H2 as [H2|[]]. lia.
  - intros [Hc [hf [H1 H2]]]. split; [split; [exact Hc|apply NFc]|]. exists hf. split; [exact H1|]. apply Base.ListLemmas.memb_In. left. lia.
Qed.

Theorem delete_face_immediate f s : deferred s = false -> fast s = false -> fbu_inv s -> f < nf s ->
  let cs := cells_at_faces s [f] in
  let s' := delete_face f s in
  nv s' = nv s /\ edges s' = edges s /\
  faces s' = remove_nth f (faces s) /\
  cells s' = map (map (cor2 (2 * f + 1))) (keep_slots [] cs (cells s)) /\
  nc s' = nc s - length cs /\
  no_flags s' /\ deferred s' = false /\ fast s' = false.
Proof.
  intros D F I Hf. cbv zeta. unfold delete_face. pose proof I as (NF & FO & CR & L).
  rewrite (incident_cells_cache_is_scan s [f] FO) by (intros x [<-|[]]; exact Hf).
  set (cs := cells_at_faces s [f]).
  assert (Scs : strictly_sorted cs) by (apply strictly_sorted_filter, sorted_live_cells).
  assert (Rcs : forall c, In c cs -> c < nc s) by (intros c Hc; apply (cells_at_faces_live s [f] c) in Hc; tauto).
  pose proof (del_desc_cells_immediate cs s Scs Rcs D F I) as P. cbv zeta in P. set (t := del_desc delete_cell_core cs s) in *.
  destruct P as ((NFt & FOt & CRt & Lt) & Dt & Ft & t1 & t2 & t3 & t4 & t5 & (t6 & t7 & t8)).
  assert (K : cells t = keep_slots [] cs (cells s)) by (rewrite t4; apply remove_slots_keep; assumption).
  assert (FFt : face_free t f).
  { intros c hf Hhf E. destruct (Nat.lt_ge_cases c (nc t)) as [Hc|Hc]; [|unfold cell_at in Hhf; rewrite nth_overflow in Hhf by exact Hc; destruct Hhf].
    assert (J : In (cell_at t c) (keep_slots [] cs (cells s))) by (rewrite <- K; apply nth_In; exact Hc).
    apply In_keep_slots in J. destruct J as [i (Hi & Hn & Ei)]. apply Hn. apply (cells_at_faces_spec s f i NF). split; [exact Hi|].
    exists hf. split; [|exact E]. unfold cell_at at 1. rewrite Ei. exact Hhf. }
  assert (NFt_ : nf t = nf s) by (unfold nf; rewrite t3; reflexivity).
  pose proof (delete_face_core_cells_shift f t Dt Ft NFt (fun E => conj FOt (conj CRt (Lt E))) FFt) as Ce.
  pose proof (delete_face_core_view f t Dt Ft) as V. cbv zeta in V.
  destruct V as (w1 & w2 & w3 & _ & _ & _ & _ & _ & _ & _ & _ & (_ & _ & _ & m4 & m5)).
  split; [congruence|]. split; [congruence|]. split; [congruence|]. split; [rewrite Ce, K; reflexivity|].
  split; [unfold nc at 1; rewrite Ce, map_length; exact t5|].
  split; [apply no_flags_delete_face_core; assumption|]. split; assumption.
Qed.

(* the same entities are deleted and the same definitions result with the halfface->cell incidences on or off *)
Corollary delete_face_immediate_cache_is_scan f s t : deferred s = false -> fast s = false -> fbu_inv s -> f < nf s ->
  deferred t = false -> fast t = false -> no_flags t -> fbu t = false -> cells_in_range t ->
  nv t = nv s -> edges t = edges s -> faces t = faces s -> cells t = cells s -> cdel t = cdel s ->
  let s' := delete_face f s in let t' := delete_face f t in
  nv s' = nv t' /\ edges s' = edges t' /\ faces s' = faces t' /\ cells s' = cells t'.
Proof.
  intros D F I Hf D' F' NF' Fb' CR' e1 e2 e3 e4 e5. cbv zeta.
  assert (I' : fbu_inv t) by (split; [exact NF'|]; split; [intros X; congruence|]; split; [exact CR'|intros X; congruence]).
  assert (Hf' : f < nf t) by (unfold nf; rewrite e3; exact Hf).
  pose proof (delete_face_immediate f s D F I Hf) as P. pose proof (delete_face_immediate f t D' F' I' Hf') as Q. cbv zeta in P, Q.
  destruct P as (p1 & p2 & p3 & p4 & _). destruct Q as (q1 & q2 & q3 & q4 & _).
  assert (Ecs : cells_at_faces t [f] = cells_at_faces s [f]).
  { unfold cells_at_faces, live_cells, cell_at, c_deleted, nc. rewrite e4, e5. reflexivity. }
  rewrite p1, p2, p3, p4, q1, q2, q3, q4, Ecs, e1, e2, e3, e4. repeat split; reflexivity.
Qed.

(* ================================================================== executable forms of the hypotheses (for the examples) *)

Definition all_false (l : list bool) : bool := forallb negb l.
Lemma all_false_nth l : all_false l = true -> forall i, nth i l false = false.
Proof.
  unfold all_false. rewrite forallb_forall. intros H i. destruct (Nat.lt_ge_cases i (length l)) as [Hi|Hi]; [|apply nth_overflow; exact Hi].
  specialize (H _ (nth_In l false Hi)). apply negb_true_iff in H. exact H.
Qed.
Definition no_flags_b (s : mesh) : bool := all_false (vdel s) && all_false (edel s) && all_false (fdel s) && all_false (cdel s).
Lemma no_flags_b_sound s : no_flags_b s = true -> no_flags s.
Proof. unfold no_flags_b. rewrite !andb_true_iff. intros [[[A B] C] E]. repeat split; intros i; apply all_false_nth; assumption. Qed.

Definition refs_ok_b (s : mesh) : bool :=
  forallb (fun e => (fst (edge_at s e) <? nv s) && (snd (edge_at s e) <? nv s)) (seq 0 (ne s)) &&
  forallb (fun f => forallb (fun h => h <? 2 * ne s) (face_at s f)) (seq 0 (nf s)) &&
  forallb (fun c => forallb (fun hf => hf <? 2 * nf s) (cell_at s c)) (seq 0 (nc s)).
Lemma refs_ok_b_sound s : refs_ok_b s = true -> refs_ok s.
Proof.
  unfold refs_ok_b. rewrite !andb_true_iff, !forallb_forall. intros [[A B] C]. split; [|split].
  - intros e He _. specialize (A e ltac:(apply in_seq; lia)). apply andb_true_iff in A. destruct A as [A1 A2]. apply Nat.ltb_lt in A1, A2. auto.
  - intros f Hf _ h Hh. specialize (B f ltac:(apply in_seq; lia)). rewrite forallb_forall in B. apply Nat.ltb_lt. exact (B h Hh).
  - intros c Hc _ h Hh. specialize (C c ltac:(apply in_seq; lia)). rewrite forallb_forall in C. apply Nat.ltb_lt. exact (C h Hh).
Qed.

Definition lens_ok_b (s : mesh) : bool :=
  (negb (vbu s) || (length (out_hes s) =? nv s)) && (negb (ebu s) || (length (inc_hfs s) =? 2 * ne s)) &&
  (negb (fbu s) || (length (inc_cell s) =? 2 * nf s)) &&
  (length (edel s) =? ne s) && (length (fdel s) =? nf s) && (length (cdel s) =? nc s).
Lemma lens_ok_b_sound s : lens_ok_b s = true -> lens_ok s.
Proof.
  unfold lens_ok_b, lens_ok. rewrite !andb_true_iff, !Nat.eqb_eq. intros [[[[[A B] C] E] G] H].
  repeat split; try assumption; intros X; rewrite X in *; cbn [negb orb] in *; apply Nat.eqb_eq; assumption.
Qed.

Definition shift_inv_b (s : mesh) : bool :=
  no_flags_b s && InvB.vbu_ok_b s && InvB.ebu_ok_b s && InvB.fbu_ok_b s && refs_ok_b s && lens_ok_b s.
Lemma shift_inv_b_sound s : shift_inv_b s = true -> shift_inv s.
Proof.
  unfold shift_inv_b. rewrite !andb_true_iff. intros [[[[[A B] C] E] G] H].
  split; [apply no_flags_b_sound; exact A|]. split; [apply InvB.vbu_ok_b_sound; exact B|]. split; [apply InvB.ebu_ok_b_sound; exact C|].
  split; [apply InvB.fbu_ok_b_sound; exact E|]. split; [apply refs_ok_b_sound; exact G|apply lens_ok_b_sound; exact H].
Qed.

Definition face_free_b (s : mesh) (h : nat) : bool := forallb (fun l => forallb (fun hf => negb (hf / 2 =? h)) l) (cells s).
Lemma face_free_b_sound s h : face_free_b s h = true -> face_free s h.
Proof.
  unfold face_free_b. rewrite forallb_forall. intros H c hf Hhf.
  destruct (Nat.lt_ge_cases c (nc s)) as [Hc|Hc]; [|unfold cell_at in Hhf; rewrite nth_overflow in Hhf by exact Hc; destruct Hhf].
  specialize (H _ (nth_In (cells s) [] Hc)). rewrite forallb_forall in H. specialize (H hf Hhf). apply negb_true_iff, Nat.eqb_neq in H. exact H.
Qed.

Definition simple_hes_b (hes : list nat) : bool := InvB.nodup_b hes && forallb (fun h => negb (memb (opp h) hes)) hes.
Definition faces_simple_b (s : mesh) : bool := forallb simple_hes_b (faces s).
Lemma faces_simple_b_sound s : faces_simple_b s = true -> faces_simple s.
Proof.
  unfold faces_simple_b. rewrite forallb_forall. intros H f Hf _. specialize (H _ (nth_In (faces s) [] Hf)). fold (face_at s f) in H.
  unfold simple_hes_b in H. apply andb_true_iff in H. destruct H as [A B]. rewrite forallb_forall in B.
  split; [apply InvB.nodup_b_spec; exact A|]. intros x Hx Hin. specialize (B x Hx). apply Base.ListLemmas.memb_In in Hin. rewrite Hin in B. discriminate.
Qed.

(* ================================================================== one-stop statements for the three shifting cores *)

Lemma shift_inv_HCf s : shift_inv s -> fbu s = true -> fbu_ok s /\ cells_in_range s /\ length (inc_cell s) = 2 * nf s.
Proof.
  intros ((_ & _ & _ & NFc) & _ & _ & FO & (_ & _ & R3) & (_ & _ & L3 & _)) E. split; [exact FO|]. split; [|exact (L3 E)].
  intros c hf Hc Hhf. exact (R3 c Hc (NFc c) hf Hhf).
Qed.
Lemma shift_inv_HCe s : shift_inv s -> ebu s = true -> ebu_ok s /\ faces_in_range s /\ length (inc_hfs s) = 2 * ne s.
Proof.
  intros ((_ & _ & NFf & _) & _ & EO & _ & (_ & R2 & _) & (_ & L2 & _)) E. split; [exact EO|]. split; [|exact (L2 E)].
  intros f he Hf Hhe. exact (R2 f Hf (NFf f) he Hhe).
Qed.
Lemma shift_inv_HCv s h : shift_inv s -> vertex_free s h -> vbu s = true -> vbu_ok s /\ edges_in_range s /\ vertex_free s h.
Proof.
  intros ((_ & NFe & _ & _) & VO & _ & _ & (R1 & _ & _) & _) VF _. split; [exact VO|]. split; [|exact VF].
  intros e He. exact (R1 e He (NFe e)).
Qed.

Theorem face_step h s : deferred s = false -> fast s = false -> shift_inv2 s -> h < nf s -> face_free s h ->
  let s' := delete_face_core h s in
  shift_inv2 s' /\ deferred s' = false /\ fast s' = false /\ nv s' = nv s /\ edges s' = edges s /\
  faces s' = remove_nth h (faces s) /\ cells s' = map (map (cor2 (2 * h + 1))) (cells s) /\
  (vbu s' = vbu s /\ ebu s' = ebu s /\ fbu s' = fbu s).
Proof.
  intros D F I Hh FF. cbv zeta. pose proof (delete_face_core_view h s D F) as V. cbv zeta in V.
  destruct V as (w1 & w2 & w3 & _ & _ & _ & _ & _ & _ & _ & _ & (m1 & m2 & m3 & m4 & m5)).
  split; [apply shift_inv2_delete_face_core; assumption|]. repeat split; try assumption.
  apply delete_face_core_cells_shift; try assumption; [apply I|apply shift_inv_HCf; apply I].
Qed.

Theorem edge_step h s : deferred s = false -> fast s = false -> shift_inv2 s -> h < ne s -> edge_free s h ->
  let s' := delete_edge_core h s in
  shift_inv2 s' /\ deferred s' = false /\ fast s' = false /\ nv s' = nv s /\ edges s' = remove_nth h (edges s) /\
  faces s' = map (map (cor2 (2 * h + 1))) (faces s) /\ cells s' = cells s /\
  (vbu s' = vbu s /\ ebu s' = ebu s /\ fbu s' = fbu s).
Proof.
  intros D F I Hh FF. cbv zeta. pose proof (delete_edge_core_view h s D F) as V. cbv zeta in V.
  destruct V as (w1 & w2 & _ & w4 & _ & _ & _ & _ & _ & _ & _ & (m1 & m2 & m3 & m4 & m5)).
  split; [apply shift_inv2_delete_edge_core; assumption|]. repeat split; try assumption.
  apply delete_edge_core_faces_shift; try assumption; [apply I|apply shift_inv_HCe; apply I].
Qed.

Theorem vertex_step h s : deferred s = false -> fast s = false -> shift_inv2 s -> h < nv s -> vertex_free s h ->
  let s' := delete_vertex_core h s in
  shift_inv2 s' /\ deferred s' = false /\ fast s' = false /\ nv s' = nv s - 1 /\ edges s' = map (cor1p h) (edges s) /\
  faces s' = faces s /\ cells s' = cells s /\
  (vbu s' = vbu s /\ ebu s' = ebu s /\ fbu s' = fbu s).
Proof.
  intros D F I Hh VF. cbv zeta. pose proof (delete_vertex_core_view h s D F) as V. cbv zeta in V.
  destruct V as (w1 & _ & w3 & w4 & _ & _ & _ & _ & _ & _ & _ & (m1 & m2 & m3 & m4 & m5)).
  split; [apply shift_inv2_delete_vertex_core; assumption|]. repeat split; try assumption.
  apply delete_vertex_core_edges; try assumption; [apply I|apply shift_inv_HCv; [apply I|exact VF]].
Qed.

(* ================================================================== the phases of a public deletion *)

(* the composed renaming after the faces (edges) fs are gone, largest first *)
Definition shift_many (fs : list nat) (x : nat) : nat := fold_right (fun f y => cor2 (2 * f + 1) y) x fs.

Lemma cells_at_faces_spec' s fs c : no_flags s ->
  (In c (cells_at_faces s fs) <-> c < nc s /\ exists hf, In hf (cell_at s c) /\ In (hf / 2) fs).
Proof.
  intros (_ & _ & _ & NFc). unfold cells_at_faces. rewrite filter_In, In_live_cells, existsb_exists. split.
  - intros [[Hc _] [hf [H1 H2]]]. split; [exact Hc|]. exists hf. split; [exact H1|]. apply Base.ListLemmas.memb_In. exact H2.
  - intros [Hc [hf [H1 H2]]]. split; [split; [exact Hc|apply NFc]|]. exists hf. split; [exact H1|]. apply Base.ListLemmas.memb_In. exact H2.
Qed.
Lemma faces_at_edges_spec s es f : no_flags s ->
  (In f (faces_at_edges s es) <-> f < nf s /\ exists he, In he (face_at s f) /\ In (he / 2) es).
Proof.
  intros (_ & _ & NFf & _). unfold faces_at_edges. rewrite filter_In, In_live_faces, existsb_exists. split.
  - intros [[Hc _] [hf [H1 H2]]]. split; [exact Hc|]. exists hf. split; [exact H1|]. apply Base.ListLemmas.memb_In. exact H2.
  - intros [Hc [hf [H1 H2]]]. split; [split; [exact Hc|apply NFf]|]. exists hf. split; [exact H1|]. apply Base.ListLemmas.memb_In. exact H2.
Qed.
Lemma edges_at_vertex_spec s v e : no_flags s ->
  (In e (edges_at_vertex s v) <-> e < ne s /\ (fst (edge_at s e) = v \/ snd (edge_at s e) = v)).
Proof.
  intros (_ & NFe & _ & _). unfold edges_at_vertex. rewrite filter_In, In_live_edges. destruct (edge_at s e) as [x y]. cbn [fst snd].
  rewrite orb_true_iff, !Nat.eqb_eq. split; [tauto|]. intros [A B]. split; [split; [exact A|apply NFe]|exact B].
Qed.

Lemma del_desc_cells_inv2 cs : forall s, strictly_sorted cs -> (forall c, In c cs -> c < nc s) ->
  deferred s = false -> fast s = false -> shift_inv2 s -> shift_inv2 (del_desc delete_cell_core cs s).
Proof.
  induction cs as [|a cs IH]; intros s Ss R D F I; [exact I|]. rewrite del_desc_cons.
  pose proof (del_desc_cells_immediate cs s (sorted_tail _ _ Ss) (fun c Hc => R c (or_intror Hc)) D F (shift_inv_fbu_inv s (proj1 I))) as P.
  cbv zeta in P. destruct P as (_ & Dt & Ft & _ & _ & _ & _ & t5 & _).
  apply shift_inv2_delete_cell_core; [exact Dt|exact Ft|apply IH; try assumption; [exact (sorted_tail _ _ Ss)|intros c Hc; apply R; right; exact Hc]|].
  rewrite t5. pose proof (sorted_room a cs (nc s) Ss R). lia.
Qed.

Theorem cells_phase fs s : deferred s = false -> fast s = false -> shift_inv2 s ->
  let cs := cells_at_faces s fs in let t := del_desc delete_cell_core cs s in
  shift_inv2 t /\ deferred t = false /\ fast t = false /\ nv t = nv s /\ edges t = edges s /\ faces t = faces s /\
  cells t = keep_slots [] cs (cells s) /\ nc t = nc s - length cs /\ (vbu t = vbu s /\ ebu t = ebu s /\ fbu t = fbu s) /\
  (forall f, In f fs -> face_free t f).
Proof.
  intros D F I. cbv zeta. set (cs := cells_at_faces s fs).
  assert (Scs : strictly_sorted cs) by (apply strictly_sorted_filter, sorted_live_cells).
  assert (Rcs : forall c, In c cs -> c < nc s) by (intros c Hc; apply (cells_at_faces_live s fs c) in Hc; tauto).
  pose proof (del_desc_cells_immediate cs s Scs Rcs D F (shift_inv_fbu_inv s (proj1 I))) as P. cbv zeta in P.
  set (t := del_desc delete_cell_core cs s) in *.
  destruct P as (_ & Dt & Ft & t1 & t2 & t3 & t4 & t5 & M).
  assert (K : cells t = keep_slots [] cs (cells s)) by (rewrite t4; apply remove_slots_keep; assumption).
  split; [apply del_desc_cells_inv2; assumption|]. repeat split; try assumption; try apply M.
  intros f Hf c hf Hhf E. destruct (Nat.lt_ge_cases c (nc t)) as [Hc|Hc]; [|unfold cell_at in Hhf; rewrite nth_overflow in Hhf by exact Hc; destruct Hhf].
  assert (J : In (cell_at t c) (keep_slots [] cs (cells s))) by (rewrite <- K; apply nth_In; exact Hc).
  apply In_keep_slots in J. destruct J as [i (Hi & Hn & Ei)]. apply Hn. apply (cells_at_faces_spec' s fs i (proj1 (proj1 I))). split; [exact Hi|].
  exists hf. split; [unfold cell_at at 1; rewrite Ei; exact Hhf|rewrite E; exact Hf].
Qed.

Lemma face_free_after_higher a s g : g < a -> face_free s g ->
  (forall c, cell_at (delete_face_core a s) c = map (cor2 (2 * a + 1)) (cell_at s c)) -> face_free (delete_face_core a s) g.
Proof.
  intros Hg FF CA c hf Hhf. rewrite CA in Hhf. apply in_map_iff in Hhf. destruct Hhf as [y [<- Hy]]. pose proof (FF c y Hy).
  unfold cor2. ltb_cases; lia.
Qed.

Theorem faces_phase fs : forall t, strictly_sorted fs -> (forall f, In f fs -> f < nf t) ->
  deferred t = false -> fast t = false -> shift_inv2 t -> (forall f, In f fs -> face_free t f) ->
  let u := del_desc delete_face_core fs t in
  shift_inv2 u /\ deferred u = false /\ fast u = false /\ nv u = nv t /\ edges u = edges t /\
  faces u = remove_slots fs (faces t) /\ cells u = map (map (shift_many fs)) (cells t) /\ nf u = nf t - length fs /\
  (vbu u = vbu t /\ ebu u = ebu t /\ fbu u = fbu t) /\
  (forall g, (forall f, In f fs -> g < f) -> face_free t g -> face_free u g).
Proof.
  induction fs as [|a fs IH]; intros t Ss R D F I FF; cbv zeta.
  - unfold del_desc, remove_slots, shift_many. cbn [rev fold_left fold_right length]. split; [exact I|]. repeat split; auto; try lia.
    rewrite <- (map_id (cells t)) at 1. apply map_ext. intros l. symmetry. apply map_id.
  - rewrite del_desc_cons, remove_slots_cons.
    specialize (IH t (sorted_tail _ _ Ss) (fun f Hf => R f (or_intror Hf)) D F I (fun f Hf => FF f (or_intror Hf))). cbv zeta in IH.
    set (u := del_desc delete_face_core fs t) in *.
    destruct IH as (Iu & Du & Fu & u1 & u2 & u3 & u4 & u5 & (u6 & u7 & u8) & Prop_).
    assert (Lt : forall x, In x fs -> a < x) by (apply strictly_sorted_lt; exact Ss).
    assert (Ha : a < nf u) by (rewrite u5; pose proof (sorted_room a fs (nf t) Ss R); lia).
    assert (FFa : face_free u a) by (apply Prop_; [exact Lt|apply FF; left; reflexivity]).
    pose proof (face_step a u Du Fu Iu Ha FFa) as St. cbv zeta in St.
    destruct St as (Iv & Dv & Fv & v1 & v2 & v3 & v4 & (v6 & v7 & v8)).
    split; [exact Iv|]. repeat split; try congruence.
    + rewrite v4, u4, map_map. apply map_ext. intros l. rewrite map_map. reflexivity.
    + unfold nf at 1. rewrite v3, remove_nth_length by exact Ha. fold (nf u). rewrite u5. cbn [length]. lia.
    + intros g Hg FFg. apply face_free_after_higher; [apply Hg; left; reflexivity|apply Prop_; [intros f Hf; apply Hg; right; exact Hf|exact FFg]|].
      intros c. unfold cell_at. rewrite v4. apply nth_map_map.
Qed.

Lemma edge_free_after_higher a s g : g < a -> edge_free s g ->
  (forall f, face_at (delete_edge_core a s) f = map (cor2 (2 * a + 1)) (face_at s f)) -> edge_free (delete_edge_core a s) g.
Proof.
  intros Hg FF CA c hf Hhf. rewrite CA in Hhf. apply in_map_iff in Hhf. destruct Hhf as [y [<- Hy]]. pose proof (FF c y Hy).
  unfold cor2. ltb_cases; lia.
Qed.

Theorem edges_phase es : forall t, strictly_sorted es -> (forall e, In e es -> e < ne t) ->
  deferred t = false -> fast t = false -> shift_inv2 t -> (forall e, In e es -> edge_free t e) ->
  let u := del_desc delete_edge_core es t in
  shift_inv2 u /\ deferred u = false /\ fast u = false /\ nv u = nv t /\
  edges u = remove_slots es (edges t) /\ faces u = map (map (shift_many es)) (faces t) /\ cells u = cells t /\ ne u = ne t - length es /\
  (vbu u = vbu t /\ ebu u = ebu t /\ fbu u = fbu t) /\
  (forall g, (forall e, In e es -> g < e) -> edge_free t g -> edge_free u g).
Proof.
  induction es as [|a es IH]; intros t Ss R D F I FF; cbv zeta.
  - unfold del_desc, remove_slots, shift_many. cbn [rev fold_left fold_right length]. split; [exact I|]. repeat split; auto; try lia.
    rewrite <- (map_id (faces t)) at 1. apply map_ext. intros l. symmetry. apply map_id.
  - rewrite del_desc_cons, remove_slots_cons.
    specialize (IH t (sorted_tail _ _ Ss) (fun f Hf => R f (or_intror Hf)) D F I (fun f Hf => FF f (or_intror Hf))). cbv zeta in IH.
    set (u := del_desc delete_edge_core es t) in *.
    destruct IH as (Iu & Du & Fu & u1 & u2 & u3 & u4 & u5 & (u6 & u7 & u8) & Prop_).
    assert (Lt : forall x, In x es -> a < x) by (apply strictly_sorted_lt; exact Ss).
    assert (Ha : a < ne u) by (rewrite u5; pose proof (sorted_room a es (ne t) Ss R); lia).
    assert (FFa : edge_free u a) by (apply Prop_; [exact Lt|apply FF; left; reflexivity]).
    pose proof (edge_step a u Du Fu Iu Ha FFa) as St. cbv zeta in St.
    destruct St as (Iv & Dv & Fv & v1 & v2 & v3 & v4 & (v6 & v7 & v8)).
    split; [exact Iv|]. repeat split; try congruence.
    + rewrite v3, u3, map_map. apply map_ext. intros l. rewrite map_map. reflexivity.
    + unfold ne at 1. rewrite v2, remove_nth_length by exact Ha. fold (ne u). rewrite u5. cbn [length]. lia.
    + intros g Hg FFg. apply edge_free_after_higher; [apply Hg; left; reflexivity|apply Prop_; [intros f Hf; apply Hg; right; exact Hf|exact FFg]|].
      intros c. unfold face_at. rewrite v3. apply nth_map_map.
Qed.

(* ================================================================== the public deletions, immediate non-fast mode *)

Lemma In_faces_at_edges_lt s es f : In f (faces_at_edges s es) -> f < nf s.
Proof. intros H. apply faces_at_edges_live in H. tauto. Qed.
Lemma In_edges_at_vertex_lt s v e : In e (edges_at_vertex s v) -> e < ne s.
Proof. intros H. apply edges_at_vertex_live in H. tauto. Qed.

Theorem delete_face_immediate_full f s : deferred s = false -> fast s = false -> shift_inv2 s -> f < nf s ->
  let cs := cells_at_faces s [f] in
  let s' := delete_face f s in
  shift_inv2 s' /\ deferred s' = false /\ fast s' = false /\
  nv s' = nv s /\ edges s' = edges s /\ faces s' = remove_nth f (faces s) /\
  cells s' = map (map (cor2 (2 * f + 1))) (keep_slots [] cs (cells s)).
Proof.
  intros D F I Hf. cbv zeta. unfold delete_face. pose proof I as ((_ & _ & _ & FO & _) & _).
  rewrite (incident_cells_cache_is_scan s [f] FO) by (intros x [<-|[]]; exact Hf).
  pose proof (cells_phase [f] s D F I) as P. cbv zeta in P. set (t := del_desc delete_cell_core (cells_at_faces s [f]) s) in *.
  destruct P as (It & Dt & Ft & t1 & t2 & t3 & t4 & t5 & _ & FFt).
  assert (Hft : f < nf t) by (unfold nf; rewrite t3; exact Hf).
  pose proof (face_step f t Dt Ft It Hft (FFt f (or_introl eq_refl))) as St. cbv zeta in St.
  destruct St as (Iv & Dv & Fv & v1 & v2 & v3 & v4 & _).
  split; [exact Iv|]. repeat split; try congruence. all: rewrite v4, t4; reflexivity.
Qed.

Theorem delete_edge_immediate e s : deferred s = false -> fast s = false -> shift_inv2 s -> e < ne s ->
  let fs := faces_at_edges s [e] in let cs := cells_at_faces s fs in
  let s' := delete_edge e s in
  shift_inv2 s' /\ deferred s' = false /\ fast s' = false /\
  nv s' = nv s /\ edges s' = remove_nth e (edges s) /\
  faces s' = map (map (cor2 (2 * e + 1))) (keep_slots [] fs (faces s)) /\
  cells s' = map (map (shift_many fs)) (keep_slots [] cs (cells s)).
Proof.
  intros D F I He. cbv zeta. unfold delete_edge. pose proof I as ((NF & _ & EO & FO & _) & _).
  rewrite (incident_faces_cache_is_scan s [e] EO) by (intros x [<-|[]]; exact He).
  set (fs := faces_at_edges s [e]).
  rewrite (incident_cells_cache_is_scan s fs FO) by (intros x Hx; exact (In_faces_at_edges_lt s [e] x Hx)).
  pose proof (cells_phase fs s D F I) as P. cbv zeta in P. set (t := del_desc delete_cell_core (cells_at_faces s fs) s) in *.
  destruct P as (It & Dt & Ft & t1 & t2 & t3 & t4 & t5 & _ & FFt).
  assert (Sfs : strictly_sorted fs) by (apply strictly_sorted_filter, sorted_live_faces).
  assert (Rfs : forall f, In f fs -> f < nf t) by (intros f Hf; unfold nf; rewrite t3; exact (In_faces_at_edges_lt s [e] f Hf)).
  pose proof (faces_phase fs t Sfs Rfs Dt Ft It FFt) as Q. cbv zeta in Q. set (u := del_desc delete_face_core fs t) in *.
  destruct Q as (Iu & Du & Fu & u1 & u2 & u3 & u4 & u5 & _ & _).
  assert (K : faces u = keep_slots [] fs (faces s)).
  { rewrite u3, t3. apply remove_slots_keep; [exact Sfs|]. intros f Hf. exact (In_faces_at_edges_lt s [e] f Hf). }
  assert (FFe : edge_free u e).
  { intros f he Hhe Ee. destruct (Nat.lt_ge_cases f (nf u)) as [Hf|Hf]; [|unfold face_at in Hhe; rewrite nth_overflow in Hhe by exact Hf; destruct Hhe].
    assert (J : In (face_at u f) (keep_slots [] fs (faces s))) by (rewrite <- K; apply nth_In; exact Hf).
    apply In_keep_slots in J. destruct J as [i (Hi & Hn & Ei)]. apply Hn. apply (faces_at_edges_spec s [e] i NF). split; [exact Hi|].
    exists he. split; [unfold face_at at 1; rewrite Ei; exact Hhe|left; symmetry; exact Ee]. }
  assert (Heu : e < ne u) by (unfold ne; rewrite u2, t2; exact He).
  pose proof (edge_step e u Du Fu Iu Heu FFe) as St. cbv zeta in St.
  destruct St as (Iv & Dv & Fv & v1 & v2 & v3 & v4 & _).
  split; [exact Iv|]. repeat split; try congruence.
  all: first [rewrite v3, K; reflexivity | rewrite v4, u4, t4; reflexivity].
Qed.

Theorem delete_vertex_immediate v s : deferred s = false -> fast s = false -> shift_inv2 s -> v < nv s ->
  let es := edges_at_vertex s v in let fs := faces_at_edges s es in let cs := cells_at_faces s fs in
  let s' := delete_vertex v s in
  shift_inv2 s' /\ deferred s' = false /\ fast s' = false /\
  nv s' = nv s - 1 /\ edges s' = map (cor1p v) (keep_slots (0, 0) es (edges s)) /\
  faces s' = map (map (shift_many es)) (keep_slots [] fs (faces s)) /\
  cells s' = map (map (shift_many fs)) (keep_slots [] cs (cells s)).
Proof.
  intros D F I Hv. cbv zeta. unfold delete_vertex. pose proof I as ((NF & VO & EO & FO & _) & _).
  rewrite (incident_edges_cache_is_scan s v VO Hv). set (es := edges_at_vertex s v).
  rewrite (incident_faces_cache_is_scan s es EO) by (intros x Hx; exact (In_edges_at_vertex_lt s v x Hx)).
  set (fs := faces_at_edges s es).
  rewrite (incident_cells_cache_is_scan s fs FO) by (intros x Hx; exact (In_faces_at_edges_lt s es x Hx)).
  pose proof (cells_phase fs s D F I) as P. cbv zeta in P. set (t := del_desc delete_cell_core (cells_at_faces s fs) s) in *.
  destruct P as (It & Dt & Ft & t1 & t2 & t3 & t4 & t5 & _ & FFt).
  assert (Sfs : strictly_sorted fs) by (apply strictly_sorted_filter, sorted_live_faces).
  assert (Rfs : forall f, In f fs -> f < nf t) by (intros f Hf; unfold nf; rewrite t3; exact (In_faces_at_edges_lt s es f Hf)).
  pose proof (faces_phase fs t Sfs Rfs Dt Ft It FFt) as Q. cbv zeta in Q. set (u := del_desc delete_face_core fs t) in *.
  destruct Q as (Iu & Du & Fu & u1 & u2 & u3 & u4 & u5 & _ & _).
  assert (K : faces u = keep_slots [] fs (faces s)).
  { rewrite u3, t3. apply remove_slots_keep; [exact Sfs|]. intros f Hf. exact (In_faces_at_edges_lt s es f Hf). }
  assert (Ses : strictly_sorted es) by (apply strictly_sorted_filter, sorted_live_edges).
  assert (Res : forall e, In e es -> e < ne u) by (intros e He; unfold ne; rewrite u2, t2; exact (In_edges_at_vertex_lt s v e He)).
  assert (FFe : forall e, In e es -> edge_free u e).
  { intros e He f he Hhe Ee. destruct (Nat.lt_ge_cases f (nf u)) as [Hf|Hf]; [|unfold face_at in Hhe; rewrite nth_overflow in Hhe by exact Hf; destruct Hhe].
    assert (J : In (face_at u f) (keep_slots [] fs (faces s))) by (rewrite <- K; apply nth_In; exact Hf).
    apply In_keep_slots in J. destruct J as [i (Hi & Hn & Ei)]. apply Hn. apply (faces_at_edges_spec s es i NF). split; [exact Hi|].
    exists he. split; [unfold face_at at 1; rewrite Ei; exact Hhe|rewrite Ee; exact He]. }
  pose proof (edges_phase es u Ses Res Du Fu Iu FFe) as W. cbv zeta in W. set (w := del_desc delete_edge_core es u) in *.
  destruct W as (Iw & Dw & Fw & x1 & x2 & x3 & x4 & x5 & _ & _).
  assert (Ke : edges w = keep_slots (0, 0) es (edges s)).
  { rewrite x2, u2, t2. apply remove_slots_keep; [exact Ses|]. intros e He. exact (In_edges_at_vertex_lt s v e He). }
  assert (VF : vertex_free w v).
  { intros e He. assert (J : In (edge_at w e) (keep_slots (0, 0) es (edges s))) by (rewrite <- Ke; apply nth_In; exact He).
    apply In_keep_slots in J. destruct J as [i (Hi & Hn & Ei)]. rewrite <- Ei. fold (edge_at s i).
    split; intros E; apply Hn; apply (edges_at_vertex_spec s v i NF); (split; [exact Hi|]); [left|right]; exact E. }
  assert (Hvw : v < nv w) by congruence.
  pose proof (vertex_step v w Dw Fw Iw Hvw VF) as St. cbv zeta in St.
  destruct St as (Iv & Dv & Fv & v1 & v2 & v3 & v4 & _).
  split; [exact Iv|]. repeat split; try congruence.
  all: first [rewrite v2, Ke; reflexivity | rewrite v3, x3, K; reflexivity | rewrite v4, x4, u4, t4; reflexivity].
Qed.

(* the result depends on the definitions only: any two states with the same definitions (whatever incidences they keep) lead
   to the same definitions *)
Lemma closure_same_defs s t v : no_flags s -> no_flags t -> edges t = edges s -> faces t = faces s -> cells t = cells s ->
  edges_at_vertex t v = edges_at_vertex s v /\
  (forall es, faces_at_edges t es = faces_at_edges s es) /\ (forall fs, cells_at_faces t fs = cells_at_faces s fs).
Proof.
  intros NS NT e1 e2 e3. unfold edges_at_vertex, faces_at_edges, cells_at_faces.
  rewrite (live_edges_all s NS), (live_edges_all t NT), (live_faces_all s NS), (live_faces_all t NT), (live_cells_all s NS), (live_cells_all t NT).
  unfold edge_at, face_at, cell_at, ne, nf, nc. rewrite e1, e2, e3. repeat split.
Qed.

Theorem delete_vertex_immediate_incidence_independent v s t : deferred s = false -> fast s = false -> shift_inv2 s ->
  deferred t = false -> fast t = false -> shift_inv2 t -> v < nv s ->
  nv t = nv s -> edges t = edges s -> faces t = faces s -> cells t = cells s ->
  let s' := delete_vertex v s in let t' := delete_vertex v t in
  nv t' = nv s' /\ edges t' = edges s' /\ faces t' = faces s' /\ cells t' = cells s'.
Proof.
  intros D F I D' F' I' Hv e0 e1 e2 e3. cbv zeta.
  pose proof (delete_vertex_immediate v s D F I Hv) as P. pose proof (delete_vertex_immediate v t D' F' I' ltac:(rewrite e0; exact Hv)) as Q.
  cbv zeta in P, Q. destruct P as (_ & _ & _ & p1 & p2 & p3 & p4). destruct Q as (_ & _ & _ & q1 & q2 & q3 & q4).
  destruct (closure_same_defs s t v (proj1 (proj1 I)) (proj1 (proj1 I')) e1 e2 e3) as (c1 & c2 & c3).
  rewrite p1, p2, p3, p4, q1, q2, q3, q4, c1, !c2, !c3, e0, e1, e2, e3. repeat split.
Qed.

(* ---- executable forms, continued *)
Definition edge_free_b (s : mesh) (h : nat) : bool := forallb (fun l => forallb (fun he => negb (he / 2 =? h)) l) (faces s).
Lemma edge_free_b_sound s h : edge_free_b s h = true -> edge_free s h.
Proof.
  unfold edge_free_b. rewrite forallb_forall. intros H c hf Hhf.
  destruct (Nat.lt_ge_cases c (nf s)) as [Hc|Hc]; [|unfold face_at in Hhf; rewrite nth_overflow in Hhf by exact Hc; destruct Hhf].
  specialize (H _ (nth_In (faces s) [] Hc)). rewrite forallb_forall in H. specialize (H hf Hhf). apply negb_true_iff, Nat.eqb_neq in H. exact H.
Qed.
Definition vertex_free_b (s : mesh) (h : nat) : bool := forallb (fun p => negb (fst p =? h) && negb (snd p =? h)) (edges s).
Lemma vertex_free_b_sound s h : vertex_free_b s h = true -> vertex_free s h.
Proof.
  unfold vertex_free_b. rewrite forallb_forall. intros H e He. specialize (H _ (nth_In (edges s) (0, 0) He)). fold (edge_at s e) in H.
  apply andb_true_iff in H. destruct H as [A B]. apply negb_true_iff, Nat.eqb_neq in A. apply negb_true_iff, Nat.eqb_neq in B. auto.
Qed.

Definition closed_all_b (s : mesh) : bool := forallb (fun c => c_deleted s c || closed_cell_b s c) (seq 0 (nc s)).
Definition shift_inv2_b (s : mesh) : bool :=
  shift_inv_b s && (negb (ebu s && fbu s) || (slots_nodup_b s && closed_all_b s && faces_simple_b s)).
Lemma shift_inv2_b_sound s : shift_inv2_b s = true -> shift_inv2 s.
Proof.
  unfold shift_inv2_b. rewrite andb_true_iff. intros [A B]. split; [apply shift_inv_b_sound; exact A|].
  intros E Fb. rewrite E, Fb in B. cbn [andb negb orb] in B. rewrite !andb_true_iff in B. destruct B as [[B1 B2] B3].
  split; [apply slots_nodup_b_sound; exact B1|]. split; [apply live_cells_closed_b; exact B2|apply faces_simple_b_sound; exact B3].
Qed.
