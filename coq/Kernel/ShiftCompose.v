(* Kernel/ShiftCompose.v -- C02, IMMEDIATE NON-FAST mode, the public deletion of a face:
     - delete_cell_core h: only the cell array (slot h removed), the cell flag array, the halfface->cell cache (entries of the dying
       cell cleared, larger cell handles decremented) and - by re-ordering only - the halfedge->halfface lists change; the
       exactness of the halfface->cell cache is preserved;
     - a descending run of delete_cell_core over a strictly ascending list of cells removes exactly those slots (keep_slots);
     - delete_face f: the surviving vertices / edges are untouched, the surviving faces are the old ones without slot f, the
       surviving cells are exactly the cells outside the closure (cells_at_faces s [f]), in their old order, each with its
       old definition read through the shift map cor2 (2f+1) -- the same with the cache on (under fbu_ok) or off. *)
From Coq Require Import ZArith Lia Bool Arith List ZifyNat ZifyBool Permutation.
From OVM Require Import Base.ListX Base.ListLemmas Base.ListLemmas2 Kernel.State Kernel.Ops Kernel.Mirror Kernel.Construct
                        Kernel.Recompute Kernel.Closure Kernel.ExactInv Kernel.ExactDelete Kernel.DeleteEffects Kernel.DeleteDefs
                        Kernel2.ListAux Kernel2.ReorderExact Kernel2.ExactBase Kernel2.ExactDelCell Kernel.ShiftFace.
Import ListNotations.
Ltac Zify.zify_post_hook ::= Z.div_mod_to_equations.
Local Open Scope nat_scope.

(* ================================================================== delete_cell_core: the view *)

Definition cell_inc (h : nat) (s : mesh) : list (option nat) :=
  map (option_map (cor1 h)) (fold_left (clear_step h) (cell_at s h) (inc_cell s)).

Lemma delete_cell_core_view h s : deferred s = false -> fast s = false -> let s' := delete_cell_core h s in
  nv s' = nv s /\ edges s' = edges s /\ faces s' = faces s /\ cells s' = remove_nth h (cells s) /\
  vdel s' = vdel s /\ edel s' = edel s /\ fdel s' = fdel s /\ cdel s' = remove_nth h (cdel s) /\
  out_hes s' = out_hes s /\
  inc_cell s' = (if fbu s then cell_inc h s else inc_cell s) /\
  length (inc_hfs s') = length (inc_hfs s) /\ (ebu s && fbu s = false -> inc_hfs s' = inc_hfs s) /\
  (vbu s' = vbu s /\ ebu s' = ebu s /\ fbu s' = fbu s /\ deferred s' = false /\ fast s' = false).
Proof.
  intros D F. cbv zeta. unfold delete_cell_core, cell_inc. rewrite F. cbn [andb]. fold (clear_step h).
  destruct (fbu s) eqn:Fb.
  - destruct (ebu s) eqn:Eb; rsh; rewrite ?Eb.
    + match goal with |- context [reorder_edges ?es ?t] => destruct (reorder_edges_frame2 es t) as [x [-> Lx]] end.
      rsh. rewrite D, F, Fb. cbn [negb andb]. rsh. rsh. repeat split; auto. intros X; discriminate.
    + rsh. rewrite D, F, Fb. cbn [negb andb]. rsh. repeat split; auto.
  - rewrite D, F, Fb. cbn [negb andb]. rsh. rewrite andb_false_r. repeat split; auto.
Qed.

(* ================================================================== the halfface->cell cache stays exact *)

Definition fbu_inv (s : mesh) : Prop :=
  no_flags s /\ fbu_ok s /\ cells_in_range s /\ (fbu s = true -> length (inc_cell s) = 2 * nf s).

Lemma shift_inv_fbu_inv s : shift_inv s -> fbu_inv s.
Proof.
  intros (NF & _ & _ & FO & (_ & _ & R3) & (_ & _ & L3 & _)). split; [exact NF|]. split; [exact FO|]. split; [|exact L3].
  intros c hf Hc Hhf. apply (R3 c Hc); [apply NF|exact Hhf].
Qed.

Lemma nth_map_option (f : nat -> nat) l k : nth k (map (option_map f) l) None = option_map f (nth k l None).
Proof. change (@None nat) with (option_map f None) at 1. apply map_nth. Qed.

Theorem fbu_inv_delete_cell_core h s : deferred s = false -> fast s = false -> fbu_inv s -> h < nc s -> fbu_inv (delete_cell_core h s).
Proof.
  intros D F (NF & FO & CR & L) Hh.
  pose proof (no_flags_delete_cell_core h s D F NF) as NF'.
  pose proof (delete_cell_core_view h s D F) as V. cbv zeta in V. set (s' := delete_cell_core h s) in *.
  destruct V as (w1 & w2 & w3 & w4 & w5 & w6 & w7 & w8 & w9 & w10 & w11 & w12 & (m1 & m2 & m3 & m4 & m5)).
  assert (NF_ : nf s' = nf s) by (unfold nf; rewrite w3; reflexivity).
  assert (NC : nc s' = nc s - 1) by (unfold nc; rewrite w4; apply remove_nth_length; exact Hh).
  assert (CAt : forall c, cell_at s' c = cell_at s (unshift1 h c)) by (intros c; unfold cell_at; rewrite w4; apply nth_remove_nth_unshift).
  destruct NF as (NFv & NFe & NFf & NFc). pose proof NF' as (NFv' & NFe' & NFf' & NFc').
  split; [exact NF'|]. split; [|split].
  - intros Fb hf Hhf c. rewrite m3 in Fb. rewrite NF_ in Hhf. unfold cell_of. rewrite w10, Fb. unfold cell_inc.
    rewrite nth_map_option, nth_clear_fold. fold (cell_of s hf). rewrite NC, NFc', CAt.
    assert (Hu : c < nc s - 1 <-> unshift1 h c < nc s) by (symmetry; apply unshift1_lt; exact Hh).
    pose proof (FO Fb hf Hhf (unshift1 h c)) as T. rewrite NFc in T.
    destruct (cell_of s hf) as [c0|] eqn:Ec.
    + pose proof (proj1 (FO Fb hf Hhf c0) Ec) as (A1 & _ & A3). cbn [is_h]. destruct (Nat.eqb_spec c0 h) as [->|N0].
      * replace (memb hf (cell_at s h)) with true by (symmetry; apply memb_In; exact A3). cbn [andb option_map].
        split; [discriminate|]. intros (B1 & _ & B3). exfalso. assert (Some h = Some (unshift1 h c)) by (apply T; tauto).
        injection H as H. unfold unshift1 in H. revert H. ltb_cases; lia.
      * rewrite andb_false_r. cbn [option_map]. split.
        -- intros E. injection E as E. assert (c0 = unshift1 h c) by (rewrite <- E; symmetry; apply unshift1_cor1; exact N0).
           subst c0. tauto.
        -- intros (B1 & _ & B3). assert (E : Some c0 = Some (unshift1 h c)) by (apply T; tauto). injection E as ->. rewrite cor1_unshift1. reflexivity.
    + rewrite andb_false_r. cbn [option_map]. split; [discriminate|]. intros (B1 & _ & B3). exfalso.
      assert (E : None = Some (unshift1 h c)) by (apply T; tauto). discriminate.
  - intros c hf Hc Hhf. rewrite NC in Hc. rewrite CAt in Hhf. rewrite NF_. apply (CR (unshift1 h c)); [apply unshift1_lt; assumption|exact Hhf].
  - intros Fb. rewrite m3 in Fb. rewrite w10, Fb, NF_. unfold cell_inc. rewrite map_length, length_clear_fold. exact (L Fb).
Qed.

(* ================================================================== descending runs *)

Definition remove_slots {A} (cs : list nat) (l : list A) : list A := fold_left (fun l c => remove_nth c l) (rev cs) l.
(* the entries at the indices outside cs, in their old order *)
Definition keep_slots {A} (d : A) (cs : list nat) (l : list A) : list A :=
  map (fun i => nth i l d) (filter (fun i => negb (memb i cs)) (seq 0 (length l))).

Lemma remove_slots_cons {A} a cs (l : list A) : remove_slots (a :: cs) l = remove_nth a (remove_slots cs l).
Proof. unfold remove_slots. cbn [rev]. rewrite fold_left_app. reflexivity. Qed.

Lemma del_desc_cons core a cs s : del_desc core (a :: cs) s = core a (del_desc core cs s).
Proof. unfold del_desc. cbn [rev]. rewrite fold_left_app. reflexivity. Qed.

Lemma remove_nth_app_mid {A} (l1 : list A) x l2 : remove_nth (length l1) (l1 ++ x :: l2) = l1 ++ l2.
Proof. induction l1 as [|a l1 IH]; [reflexivity|]. cbn [length app remove_nth]. f_equal. exact IH. Qed.

Lemma sorted_tail x l : strictly_sorted (x :: l) -> strictly_sorted l.
Proof. intros H. inversion H; subst; [constructor|assumption]. Qed.

Lemma sorted_room a l n : strictly_sorted (a :: l) -> (forall x, In x (a :: l) -> x < n) -> a + length l < n.
Proof.
  revert a. induction l as [|b l IH]; intros a H R.
  - specialize (R a (or_introl eq_refl)). simpl. lia.
  - assert (a < b) by (inversion H; assumption). pose proof (IH b (sorted_tail _ _ H) (fun x Hx => R x (or_intror Hx))). simpl in *. lia.
Qed.

Lemma filter_ext_in' {A} (p q : A -> bool) l : (forall x, In x l -> p x = q x) -> filter p l = filter q l.
Proof. intros H. induction l as [|a l IH]; [reflexivity|]. simpl. rewrite (H a) by (left; reflexivity). rewrite IH by (intros x Hx; apply H; right; exact Hx). reflexivity. Qed.

Lemma filter_all {A} (p : A -> bool) l : (forall x, In x l -> p x = true) -> filter p l = l.
Proof. intros H. induction l as [|a l IH]; [reflexivity|]. simpl. rewrite (H a) by (left; reflexivity). f_equal. apply IH. intros x Hx. apply H. right. exact Hx. Qed.

Lemma memb_false_iff x l : memb x l = false <-> ~ In x l.
Proof. rewrite <- Base.ListLemmas.memb_In. destruct (memb x l); split; congruence. Qed.

Theorem remove_slots_keep {A} (d : A) cs : forall l, strictly_sorted cs -> (forall c, In c cs -> c < length l) ->
  remove_slots cs l = keep_slots d cs l.
Proof.
  induction cs as [|a cs IH]; intros l Ss R.
  - unfold remove_slots, keep_slots. cbn [rev fold_left memb existsb negb]. rewrite filter_all by reflexivity.
    symmetry. apply (list_ext_nth _ _ d); [rewrite map_length, seq_length; reflexivity|]. intros k Hk. rewrite map_length, seq_length in Hk.
    rewrite (nth_indep _ d (nth 0 l d)) by (rewrite map_length, seq_length; exact Hk).
    change (nth 0 l d) with ((fun i => nth i l d) 0). rewrite map_nth, seq_nth by exact Hk. reflexivity.
  - rewrite remove_slots_cons, IH; [|exact (sorted_tail _ _ Ss)|intros c Hc; apply R; right; exact Hc].
    assert (Ha : a < length l) by (apply R; left; reflexivity).
    assert (Lt : forall x, In x cs -> a < x) by (apply strictly_sorted_lt; exact Ss).
    unfold keep_slots. replace (length l) with (a + S (length l - S a)) by lia. rewrite seq_app, !filter_app. cbn [seq filter plus].
    assert (Na : memb a cs = false) by (apply memb_false_iff; intros I; specialize (Lt a I); lia).
    rewrite Na. cbn [negb]. replace (memb a (a :: cs)) with true by (symmetry; apply Base.ListLemmas.memb_In; left; reflexivity). cbn [negb].
    rewrite (filter_all _ (seq 0 a)).
    2:{ intros x Hx. apply in_seq in Hx. apply negb_true_iff, memb_false_iff. intros I. specialize (Lt x I). lia. }
    rewrite (filter_all _ (seq 0 a)).
    2:{ intros x Hx. apply in_seq in Hx. apply negb_true_iff, memb_false_iff. intros [->|I]; [lia|]. specialize (Lt x I). lia. }
    rewrite !map_app. cbn [map].
    replace a with (length (map (fun i => nth i l d) (seq 0 a))) at 1 by (rewrite map_length, seq_length; reflexivity).
    rewrite remove_nth_app_mid. f_equal. f_equal. apply filter_ext_in'. intros x Hx. apply in_seq in Hx.
    unfold memb at 2. cbn [existsb]. destruct (Nat.eqb_spec x a); [lia|]. reflexivity.
Qed.

Lemma In_keep_slots {A} (d : A) cs l x : In x (keep_slots d cs l) <-> exists i, i < length l /\ ~ In i cs /\ nth i l d = x.
Proof.
  unfold keep_slots. rewrite in_map_iff. split.
  - intros [i [E Hi]]. apply filter_In in Hi. destruct Hi as [Hi Hn]. apply in_seq in Hi. apply negb_true_iff, memb_false_iff in Hn. exists i. repeat split; auto. lia.
  - intros [i (Hi & Hn & E)]. exists i. split; [exact E|]. apply filter_In. split; [apply in_seq; lia|]. apply negb_true_iff, memb_false_iff. exact Hn.
Qed.

(* the cell phase of a public deletion *)
Theorem del_desc_cells_immediate cs : forall s, strictly_sorted cs -> (forall c, In c cs -> c < nc s) ->
  deferred s = false -> fast s = false -> fbu_inv s ->
  let s' := del_desc delete_cell_core cs s in
  fbu_inv s' /\ deferred s' = false /\ fast s' = false /\
  nv s' = nv s /\ edges s' = edges s /\ faces s' = faces s /\ cells s' = remove_slots cs (cells s) /\
  nc s' = nc s - length cs /\
  (vbu s' = vbu s /\ ebu s' = ebu s /\ fbu s' = fbu s).
Proof.
  induction cs as [|a cs IH]; intros s Ss R D F I; cbv zeta.
  - unfold del_desc, remove_slots. cbn [rev fold_left length]. split; [exact I|]. repeat split; auto. lia.
  - rewrite del_desc_cons, remove_slots_cons.
    specialize (IH s (sorted_tail _ _ Ss) (fun c Hc => R c (or_intror Hc)) D F I). cbv zeta in IH. set (t := del_desc delete_cell_core cs s) in *.
    destruct IH as (It & Dt & Ft & t1 & t2 & t3 & t4 & t5 & (t6 & t7 & t8)).
    assert (Ha : a < nc t) by (rewrite t5; pose proof (sorted_room a cs (nc s) Ss R); lia).
    pose proof (delete_cell_core_view a t Dt Ft) as V. cbv zeta in V.
    destruct V as (w1 & w2 & w3 & w4 & _ & _ & _ & _ & _ & _ & _ & _ & (m1 & m2 & m3 & m4 & m5)).
    split; [apply fbu_inv_delete_cell_core; assumption|]. repeat split; try congruence.
    unfold nc at 1. rewrite w4, remove_nth_length by exact Ha. fold (nc t). rewrite t5. cbn [length]. lia.
Qed.

(* ================================================================== delete_face *)

Lemma cells_at_faces_spec s f c : no_flags s -> (In c (cells_at_faces s [f]) <-> c < nc s /\ exists hf, In hf (cell_at s c) /\ hf / 2 = f).
Proof.
  intros (_ & _ & _ & NFc). unfold cells_at_faces. rewrite filter_In, In_live_cells, existsb_exists. split.
  - intros [[Hc _] [hf [H1 H2]]]. split; [exact Hc|]. exists hf. split; [exact H1|]. apply Base.ListLemmas.memb_In in H2. destruct H2 as [H2|[]]. lia.
  - intros [Hc [hf [H1 H2]]]. split; [split; [exact Hc|apply NFc]|]. exists hf. split; [exact H1|]. apply Base.ListLemmas.memb_In. left. lia.
Qed.

Theorem delete_face_immediate f s : deferred s = false -> fast s = false -> fbu_inv s -> f < nf s ->
  let cs := cells_at_faces s [f] in
  let s' := delete_face f s in
  nv s' = nv s /\ edges s' = edges s /\
  faces s' = remove_nth f (faces s) /\
  cells s' = map (map (cor2 (2 * f + 1))) (keep_slots [] cs (cells s)) /\
  nc s' = nc s - length cs /\
  no_flags s' /\ deferred s' = false /\ fast s' = false.
Proof.
  intros D F I Hf. cbv zeta. unfold delete_face. pose proof I as (NF & FO & CR & L).
  rewrite (incident_cells_cache_is_scan s [f] FO) by (intros x [<-|[]]; exact Hf).
  set (cs := cells_at_faces s [f]).
  assert (Scs : strictly_sorted cs) by (apply strictly_sorted_filter, sorted_live_cells).
  assert (Rcs : forall c, In c cs -> c < nc s) by (intros c Hc; apply (cells_at_faces_live s [f] c) in Hc; tauto).
  pose proof (del_desc_cells_immediate cs s Scs Rcs D F I) as P. cbv zeta in P. set (t := del_desc delete_cell_core cs s) in *.
  destruct P as ((NFt & FOt & CRt & Lt) & Dt & Ft & t1 & t2 & t3 & t4 & t5 & (t6 & t7 & t8)).
  assert (K : cells t = keep_slots [] cs (cells s)) by (rewrite t4; apply remove_slots_keep; assumption).
  assert (FFt : face_free t f).
  { intros c hf Hhf E. destruct (Nat.lt_ge_cases c (nc t)) as [Hc|Hc]; [|unfold cell_at in Hhf; rewrite nth_overflow in Hhf by exact Hc; destruct Hhf].
    assert (J : In (cell_at t c) (keep_slots [] cs (cells s))) by (rewrite <- K; apply nth_In; exact Hc).
    apply In_keep_slots in J. destruct J as [i (Hi & Hn & Ei)]. apply Hn. apply (cells_at_faces_spec s f i NF). split; [exact Hi|].
    exists hf. split; [|exact E]. unfold cell_at at 1. rewrite Ei. exact Hhf. }
  assert (NFt_ : nf t = nf s) by (unfold nf; rewrite t3; reflexivity).
  pose proof (delete_face_core_cells_shift f t Dt Ft NFt (fun E => conj FOt (conj CRt (Lt E))) FFt) as Ce.
  pose proof (delete_face_core_view f t Dt Ft) as V. cbv zeta in V.
  destruct V as (w1 & w2 & w3 & _ & _ & _ & _ & _ & _ & _ & _ & (_ & _ & _ & m4 & m5)).
  split; [congruence|]. split; [congruence|]. split; [congruence|]. split; [rewrite Ce, K; reflexivity|].
  split; [unfold nc at 1; rewrite Ce, map_length; exact t5|].
  split; [apply no_flags_delete_face_core; assumption|]. split; assumption.
Qed.

(* the same entities are deleted and the same definitions result with the halfface->cell incidences on or off *)
Corollary delete_face_immediate_cache_is_scan f s t : deferred s = false -> fast s = false -> fbu_inv s -> f < nf s ->
  deferred t = false -> fast t = false -> no_flags t -> fbu t = false -> cells_in_range t ->
  nv t = nv s -> edges t = edges s -> faces t = faces s -> cells t = cells s -> cdel t = cdel s ->
  let s' := delete_face f s in let t' := delete_face f t in
  nv s' = nv t' /\ edges s' = edges t' /\ faces s' = faces t' /\ cells s' = cells t'.
Proof.
  intros D F I Hf D' F' NF' Fb' CR' e1 e2 e3 e4 e5. cbv zeta.
  assert (I' : fbu_inv t) by (split; [exact NF'|]; split; [intros X; congruence|]; split; [exact CR'|intros X; congruence]).
  assert (Hf' : f < nf t) by (unfold nf; rewrite e3; exact Hf).
  pose proof (delete_face_immediate f s D F I Hf) as P. pose proof (delete_face_immediate f t D' F' I' Hf') as Q. cbv zeta in P, Q.
  destruct P as (p1 & p2 & p3 & p4 & _). destruct Q as (q1 & q2 & q3 & q4 & _).
  assert (Ecs : cells_at_faces t [f] = cells_at_faces s [f]).
  { unfold cells_at_faces, live_cells, cell_at, c_deleted, nc. rewrite e4, e5. reflexivity. }
  rewrite p1, p2, p3, p4, q1, q2, q3, q4, Ecs, e1, e2, e3, e4. repeat split; reflexivity.
Qed.

(* ================================================================== executable forms of the hypotheses (for the examples) *)

Definition all_false (l : list bool) : bool := forallb negb l.
Lemma all_false_nth l : all_false l = true -> forall i, nth i l false = false.
Proof.
  unfold all_false. rewrite forallb_forall. intros H i. destruct (Nat.lt_ge_cases i (length l)) as [Hi|Hi]; [|apply nth_overflow; exact Hi].
  specialize (H _ (nth_In l false Hi)). apply negb_true_iff in H. exact H.
Qed.
Definition no_flags_b (s : mesh) : bool := all_false (vdel s) && all_false (edel s) && all_false (fdel s) && all_false (cdel s).
Lemma no_flags_b_sound s : no_flags_b s = true -> no_flags s.
Proof. unfold no_flags_b. rewrite !andb_true_iff. intros [[[A B] C] E]. repeat split; intros i; apply all_false_nth; assumption. Qed.

Definition refs_ok_b (s : mesh) : bool :=
  forallb (fun e => (fst (edge_at s e) <? nv s) && (snd (edge_at s e) <? nv s)) (seq 0 (ne s)) &&
  forallb (fun f => forallb (fun h => h <? 2 * ne s) (face_at s f)) (seq 0 (nf s)) &&
  forallb (fun c => forallb (fun hf => hf <? 2 * nf s) (cell_at s c)) (seq 0 (nc s)).
Lemma refs_ok_b_sound s : refs_ok_b s = true -> refs_ok s.
Proof.
  unfold refs_ok_b. rewrite !andb_true_iff, !forallb_forall. intros [[A B] C]. split; [|split].
  - intros e He _. specialize (A e ltac:(apply in_seq; lia)). apply andb_true_iff in A. destruct A as [A1 A2]. apply Nat.ltb_lt in A1, A2. auto.
  - intros f Hf _ h Hh. specialize (B f ltac:(apply in_seq; lia)). rewrite forallb_forall in B. apply Nat.ltb_lt. exact (B h Hh).
  - intros c Hc _ h Hh. specialize (C c ltac:(apply in_seq; lia)). rewrite forallb_forall in C. apply Nat.ltb_lt. exact (C h Hh).
Qed.

Definition lens_ok_b (s : mesh) : bool :=
  (negb (vbu s) || (length (out_hes s) =? nv s)) && (negb (ebu s) || (length (inc_hfs s) =? 2 * ne s)) &&
  (negb (fbu s) || (length (inc_cell s) =? 2 * nf s)) &&
  (length (edel s) =? ne s) && (length (fdel s) =? nf s) && (length (cdel s) =? nc s).
Lemma lens_ok_b_sound s : lens_ok_b s = true -> lens_ok s.
Proof.
  unfold lens_ok_b, lens_ok. rewrite !andb_true_iff, !Nat.eqb_eq. intros [[[[[A B] C] E] G] H].
  repeat split; try assumption; intros X; rewrite X in *; cbn [negb orb] in *; apply Nat.eqb_eq; assumption.
Qed.

Definition shift_inv_b (s : mesh) : bool :=
  no_flags_b s && InvB.vbu_ok_b s && InvB.ebu_ok_b s && InvB.fbu_ok_b s && refs_ok_b s && lens_ok_b s.
Lemma shift_inv_b_sound s : shift_inv_b s = true -> shift_inv s.
Proof.
  unfold shift_inv_b. rewrite !andb_true_iff. intros [[[[[A B] C] E] G] H].
  split; [apply no_flags_b_sound; exact A|]. split; [apply InvB.vbu_ok_b_sound; exact B|]. split; [apply InvB.ebu_ok_b_sound; exact C|].
  split; [apply InvB.fbu_ok_b_sound; exact E|]. split; [apply refs_ok_b_sound; exact G|apply lens_ok_b_sound; exact H].
Qed.

Definition face_free_b (s : mesh) (h : nat) : bool := forallb (fun l => forallb (fun hf => negb (hf / 2 =? h)) l) (cells s).
Lemma face_free_b_sound s h : face_free_b s h = true -> face_free s h.
Proof.
  unfold face_free_b. rewrite forallb_forall. intros H c hf Hhf.
  destruct (Nat.lt_ge_cases c (nc s)) as [Hc|Hc]; [|unfold cell_at in Hhf; rewrite nth_overflow in Hhf by exact Hc; destruct Hhf].
  specialize (H _ (nth_In (cells s) [] Hc)). rewrite forallb_forall in H. specialize (H hf Hhf). apply negb_true_iff, Nat.eqb_neq in H. exact H.
Qed.

Definition simple_hes_b (hes : list nat) : bool := InvB.nodup_b hes && forallb (fun h => negb (memb (opp h) hes)) hes.
Definition faces_simple_b (s : mesh) : bool := forallb simple_hes_b (faces s).
Lemma faces_simple_b_sound s : faces_simple_b s = true -> faces_simple s.
Proof.
  unfold faces_simple_b. rewrite forallb_forall. intros H f Hf _. specialize (H _ (nth_In (faces s) [] Hf)). fold (face_at s f) in H.
  unfold simple_hes_b in H. apply andb_true_iff in H. destruct H as [A B]. rewrite forallb_forall in B.
  split; [apply InvB.nodup_b_spec; exact A|]. intros x Hx Hin. specialize (B x Hx). apply Base.ListLemmas.memb_In in Hin. rewrite Hin in B. discriminate.
Qed.
