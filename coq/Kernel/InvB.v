(* Kernel/InvB.v -- decidable versions of the cache-exactness invariants (C01) with soundness proofs.  The extracted
   booleans are evaluated by the model driver on EVERY state the correspondence run visits, so the hypotheses under
   which the one-step theorems are stated are checked (not proved) to hold in the explored reachable states. *)
From Coq Require Import ZArith Lia Bool Arith List ZifyNat ZifyBool.
From OVM Require Import Base.ListX Base.ListLemmas Base.ListLemmas2 Kernel.State Kernel.Ops Kernel.Mirror Kernel.Recompute Kernel.Closure
                        Kernel.DeferredDelete.
Import ListNotations.
Ltac Zify.zify_post_hook ::= Z.div_mod_to_equations.
Local Open Scope nat_scope.

Definition same_set_b (l1 l2 : list nat) : bool := forallb (fun x => memb x l2) l1 && forallb (fun x => memb x l1) l2.
Fixpoint nodup_b (l : list nat) : bool := match l with [] => true | x :: t => negb (memb x t) && nodup_b t end.

Lemma same_set_b_spec l1 l2 : same_set_b l1 l2 = true -> forall x, In x l1 <-> In x l2.
Proof.
  unfold same_set_b. rewrite andb_true_iff, !forallb_forall. intros [H1 H2] x. split; intros H.
  - apply memb_In. apply H1. exact H.
  - apply memb_In. apply H2. exact H.
Qed.
Lemma nodup_b_spec l : nodup_b l = true -> NoDup l.
Proof.
  induction l as [|x t IH]; simpl; intros H; [constructor|]. apply andb_true_iff in H. destruct H as [H1 H2].
  constructor; [|apply IH; exact H2]. intros Hin. apply memb_In in Hin. rewrite Hin in H1. discriminate.
Qed.

Definition brute_out (s : mesh) (v : nat) : list nat :=
  filter (fun h => negb (e_deleted s (h / 2)) && (he_from s h =? v)) (seq 0 (2 * ne s)).
Definition brute_hfs (s : mesh) (h : nat) : list nat :=
  filter (fun x => negb (f_deleted s (x / 2)) && memb h (halfface s x)) (seq 0 (2 * nf s)).

Definition vbu_ok_b (s : mesh) : bool :=
  negb (vbu s) || ((length (out_hes s) =? nv s) &&
                   forallb (fun v => same_set_b (out_at s v) (brute_out s v) && nodup_b (out_at s v)) (seq 0 (nv s))).
Definition ebu_ok_b (s : mesh) : bool :=
  negb (ebu s) || ((length (inc_hfs s) =? 2 * ne s) &&
                   forallb (fun h => same_set_b (hfs_at s h) (brute_hfs s h) && nodup_b (hfs_at s h)) (seq 0 (2 * ne s))).
Definition fbu_ok_b (s : mesh) : bool :=
  negb (fbu s) || ((length (inc_cell s) =? 2 * nf s) &&
                   forallb (fun hf => match cell_of s hf with
                                      | Some c => (c <? nc s) && negb (c_deleted s c) && memb hf (cell_at s c)
                                      | None => true end) (seq 0 (2 * nf s)) &&
                   forallb (fun c => forallb (fun hf => negb (hf <? 2 * nf s) ||
                                                        match cell_of s hf with Some c' => c' =? c | None => false end) (cell_at s c))
                           (live_cells s)).

Lemma vbu_ok_b_sound s : vbu_ok_b s = true -> vbu_ok s.
Proof.
  unfold vbu_ok_b, vbu_ok. intros H V v Hv h. rewrite V in H. simpl in H. apply andb_true_iff in H. destruct H as [_ H].
  rewrite forallb_forall in H. specialize (H v ltac:(apply in_seq; lia)). apply andb_true_iff in H. destruct H as [H _].
  rewrite (same_set_b_spec _ _ H h). unfold brute_out. rewrite filter_In, in_seq, andb_true_iff, negb_true_iff, Nat.eqb_eq. intuition lia.
Qed.

Lemma ebu_ok_b_sound s : ebu_ok_b s = true -> ebu_ok s.
Proof.
  unfold ebu_ok_b, ebu_ok. intros H E h Hh x. rewrite E in H. simpl in H. apply andb_true_iff in H. destruct H as [_ H].
  rewrite forallb_forall in H. specialize (H h ltac:(apply in_seq; lia)). apply andb_true_iff in H. destruct H as [H _].
  rewrite (same_set_b_spec _ _ H x). unfold brute_hfs. rewrite filter_In, in_seq, andb_true_iff, negb_true_iff.
  split.
  - intros [R [D M]]. apply memb_In in M. repeat split; auto; lia.
  - intros [R [D M]]. apply memb_In in M. repeat split; auto; lia.
Qed.

Lemma fbu_ok_b_sound s : fbu_ok_b s = true -> fbu_ok s.
Proof.
  unfold fbu_ok_b, fbu_ok. intros H F hf Hhf c. rewrite F in H. simpl in H.
  apply andb_true_iff in H. destruct H as [H H2]. apply andb_true_iff in H. destruct H as [_ H1].
  rewrite forallb_forall in H1, H2. split.
  - intros E. specialize (H1 hf ltac:(apply in_seq; lia)). rewrite E in H1.
    rewrite !andb_true_iff, negb_true_iff, Nat.ltb_lt in H1. destruct H1 as [[R D] M]. apply memb_In in M. tauto.
  - intros (R & D & M). specialize (H2 c ltac:(apply In_live_cells; tauto)). rewrite forallb_forall in H2.
    specialize (H2 hf M). apply orb_true_iff in H2. destruct H2 as [H2|H2].
    + apply negb_true_iff, Nat.ltb_ge in H2. lia.
    + destruct (cell_of s hf) as [c'|]; [|discriminate]. apply Nat.eqb_eq in H2. congruence.
Qed.

Definition counts_ok_b (s : mesh) : bool :=
  (ndv s =? ntrue (vdel s)) && (nde s =? ntrue (edel s)) && (ndf s =? ntrue (fdel s)) && (ndc s =? ntrue (cdel s)).
Lemma counts_ok_b_sound s : counts_ok_b s = true -> counts_ok s.
Proof. unfold counts_ok_b, counts_ok. rewrite !andb_true_iff, !Nat.eqb_eq. tauto. Qed.

(* the quantifier of C01: live entities reference live, in-range sub-entities; no halfface in two live cells; no face lists a
   halfedge (or a halfedge and its opposite) twice; every live cell is a closed surface (what add_cell's topology check accepts):
   on cells that are not closed the re-ordering of halffaces around an edge can corrupt the list (KNOWN_FINDINGS
   nonmanifold-cells-reorder, Kernel2/ReorderExact.v reorder_permutation_refuted) *)
Definition valid_b (s : mesh) : bool :=
  forallb (fun e => let '(a, b) := edge_at s e in live_v s a && live_v s b) (live_edges s) &&
  forallb (fun f => forallb (fun h => live_e s (h / 2)) (face_at s f) && nodup_b (face_at s f ++ map opp (face_at s f))) (live_faces s) &&
  forallb (fun c => forallb (fun hf => live_f s (hf / 2)) (cell_at s c) && cell_check s (cell_at s c)) (live_cells s) &&
  nodup_b (concat (map (cell_at s) (live_cells s))).

(* all invariants at once: [] when they hold, else the names of those that fail *)
Definition inv_report (s : mesh) : list nat :=
  (if vbu_ok_b s then [] else [1]) ++ (if ebu_ok_b s then [] else [2]) ++ (if fbu_ok_b s then [] else [3]) ++
  (if counts_ok_b s then [] else [4]).
