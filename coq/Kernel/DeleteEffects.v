(* Kernel/DeleteEffects.v -- C03: what each delete_*_core does, in immediate mode, to the deletion flags and to EVERY
   property array: exactly "optional swap-with-last (fast mode), then delete-element at the victim slot" on the arrays of the
   deleted kind (and the two half-entity slots), and nothing on any other kind.  In deferred mode: nothing at all (see
   Kernel/DeferredDelete.v).  The flag array and each property array undergo the same slot transformation. *)
From Coq Require Import ZArith Lia Bool Arith List ZifyNat ZifyBool.
From OVM Require Import Base.ListX Base.ListLemmas Kernel.State Kernel.Ops Kernel.Construct Kernel.SwapEffects.
Import ListNotations.
Local Open Scope nat_scope.

Ltac rsx := cbn [set_nv set_edges set_faces set_cells set_vdel set_edel set_fdel set_cdel set_counts set_flags
                set_out_hes set_inc_hfs set_inc_cell set_props swap_prop_elems delete_prop_elem resize_props
                vertex_deleted edge_deleted face_deleted cell_deleted
                nv edges faces cells vdel edel fdel cdel ndv nde ndf ndc vbu ebu fbu deferred fast
                out_hes inc_hfs inc_cell pv pe phe pf phf pc pm props fst snd].

(* flags and all seven property lists *)
Definition pview (s : mesh) := (vdel s, edel s, fdel s, cdel s, (pv s, pe s, phe s, pf s, phf s, pc s, pm s), deferred s).

Lemma pview_reorder_edges es s : pview (reorder_edges es s) = pview s.
Proof.
  pose proof (reorder_edges_frame es s) as R. cbv zeta in R.
  destruct R as (A1&A2&A3&A4&A5&A6&A7&A8&A9&A10&A11&_&(_&_&_&C4&_)).
  pose proof (A11 KV) as QV. pose proof (A11 KE) as QE. pose proof (A11 KHE) as QHE. pose proof (A11 KF) as QF.
  pose proof (A11 KHF) as QHF. pose proof (A11 KC) as QC. pose proof (A11 KM) as QM.
  cbn [props] in QV, QE, QHE, QF, QHF, QC, QM. unfold pview. congruence.
Qed.
Lemma pview_reorder_one e s : pview (reorder_incident_halffaces e s) = pview s.
Proof. exact (pview_reorder_edges [e] s). Qed.
Lemma fold_pview {X} (f : mesh -> X -> mesh) : (forall s x, pview (f s x) = pview s) -> forall l s, pview (fold_left f l s) = pview s.
Proof. intros H l. induction l as [|x l IH]; intros s; [reflexivity|]. simpl. rewrite IH. apply H. Qed.

(* the victim slot and the state after the optional swap-with-last *)
Definition victim (n h0 : nat) (s : mesh) : nat := if fast s && negb (deferred s) then n - 1 else h0.

Theorem delete_cell_core_props h0 s : deferred s = false ->
  let h := victim (nc s) h0 s in let s_ := if fast s then swap_cell_indices h0 h s else s in let s' := delete_cell_core h0 s in
  cdel s' = remove_nth h (cdel s_) /\ pc s' = map (pdelete h) (pc s_) /\
  vdel s' = vdel s_ /\ edel s' = edel s_ /\ fdel s' = fdel s_ /\
  pv s' = pv s_ /\ pe s' = pe s_ /\ phe s' = phe s_ /\ pf s' = pf s_ /\ phf s' = phf s_ /\ pm s' = pm s_.
Proof.
  intros D. unfold victim. rewrite D. cbn [negb]. rewrite andb_true_r. cbv zeta.
  unfold delete_cell_core. rewrite D. cbn [negb]. rewrite andb_true_r.
  set (h := if fast s then nc s - 1 else h0). set (s_ := if fast s then swap_cell_indices h0 h s else s).
  assert (Ds : deferred s_ = false).
  { unfold s_. destruct (fast s); [|exact D]. destruct (Nat.eq_dec h0 h) as [->|N]; [rewrite swap_cell_self; exact D|].
    pose proof (swap_cell_effect h0 h s N) as E. cbv zeta in E. destruct E as (_&_&_&_&_&_&_&_&_&_&_&_&_&_&_&_&_&_&(_&_&_&f4&_)&_). congruence. }
  clearbody s_ h.
  match goal with |- context [if deferred ?x then _ else _] => set (s1 := x) end.
  assert (L1 : pview s1 = pview s_).
  { unfold s1. destruct (fbu s_); [|reflexivity].
    match goal with |- pview (if ?b then reorder_edges ?es ?t else ?t) = _ => destruct b; [rewrite pview_reorder_edges|]; reflexivity end. }
  unfold pview in L1. injection L1 as a1 a2 a3 a4 a5 a6 a7 a8 a9 a10 a11 a12. rewrite a12, Ds. clearbody s1.
  destruct (negb (fast s1) && fbu s1); rsx; repeat split; congruence.
Qed.

Theorem delete_face_core_props h0 s : deferred s = false ->
  let h := victim (nf s) h0 s in let s_ := if fast s then swap_face_indices h0 h s else s in let s' := delete_face_core h0 s in
  fdel s' = remove_nth h (fdel s_) /\ pf s' = map (pdelete h) (pf s_) /\
  phf s' = map (pdelete (2 * h)) (map (pdelete (2 * h + 1)) (phf s_)) /\
  vdel s' = vdel s_ /\ edel s' = edel s_ /\ cdel s' = cdel s_ /\
  pv s' = pv s_ /\ pe s' = pe s_ /\ phe s' = phe s_ /\ pc s' = pc s_ /\ pm s' = pm s_.
Proof.
  intros D. unfold victim. rewrite D. cbn [negb]. rewrite andb_true_r. cbv zeta.
  unfold delete_face_core. rewrite D. cbn [negb]. rewrite andb_true_r.
  set (h := if fast s then nf s - 1 else h0). set (s_ := if fast s then swap_face_indices h0 h s else s).
  assert (Ds : deferred s_ = false).
  { unfold s_. destruct (fast s); [|exact D]. destruct (Nat.eq_dec h0 h) as [->|N]; [rewrite swap_face_self; exact D|].
    pose proof (swap_face_effect h0 h s N) as E. cbv zeta in E. destruct E as (_&_&_&_&_&_&_&_&_&_&_&_&_&_&_&_&(_&_&_&f4&_)&_). congruence. }
  clearbody s_ h.
  match goal with |- context [if deferred ?x then _ else _] => set (s1 := x) end.
  assert (L1 : pview s1 = pview s_).
  { unfold s1. destruct (ebu s_); [|reflexivity]. apply fold_pview. intros t he.
    match goal with |- pview (if ?b then reorder_incident_halffaces ?e ?u else ?u) = _ => destruct b; [rewrite pview_reorder_one|]; reflexivity end. }
  unfold pview in L1. injection L1 as a1 a2 a3 a4 a5 a6 a7 a8 a9 a10 a11 a12. rewrite a12, Ds. clearbody s1.
  repeat match goal with |- context [if ?b then _ else _] => destruct b eqn:? end; rsx; repeat split; congruence.
Qed.

Theorem delete_edge_core_props h0 s : deferred s = false ->
  let h := victim (ne s) h0 s in let s_ := if fast s then swap_edge_indices h0 h s else s in let s' := delete_edge_core h0 s in
  edel s' = remove_nth h (edel s_) /\ pe s' = map (pdelete h) (pe s_) /\
  phe s' = map (pdelete (2 * h)) (map (pdelete (2 * h + 1)) (phe s_)) /\
  vdel s' = vdel s_ /\ fdel s' = fdel s_ /\ cdel s' = cdel s_ /\
  pv s' = pv s_ /\ pf s' = pf s_ /\ phf s' = phf s_ /\ pc s' = pc s_ /\ pm s' = pm s_.
Proof.
  intros D. unfold victim. rewrite D. cbn [negb]. rewrite andb_true_r. cbv zeta.
  unfold delete_edge_core. rewrite D. cbn [negb]. rewrite andb_true_r.
  set (h := if fast s then ne s - 1 else h0). set (s_ := if fast s then swap_edge_indices h0 h s else s).
  assert (Ds : deferred s_ = false).
  { unfold s_. destruct (fast s); [|exact D]. destruct (Nat.eq_dec h0 h) as [->|N]; [rewrite swap_edge_self; exact D|].
    pose proof (swap_edge_effect h0 h s N) as E. cbv zeta in E. destruct E as (_&_&_&_&_&_&_&_&_&_&_&_&_&_&_&_&(_&_&_&f4&_)&_). congruence. }
  clearbody s_ h.
  match goal with |- context [if deferred ?x then _ else _] => set (s1 := x) end.
  assert (L1 : pview s1 = pview s_) by (unfold s1; destruct (vbu s_); [|reflexivity]; destruct (edge_at s_ h); reflexivity).
  unfold pview in L1. injection L1 as a1 a2 a3 a4 a5 a6 a7 a8 a9 a10 a11 a12. rewrite a12, Ds. clearbody s1.
  repeat match goal with |- context [if ?b then _ else _] => destruct b eqn:? end; rsx; repeat split; congruence.
Qed.

Theorem delete_vertex_core_props h0 s : deferred s = false ->
  let h := victim (nv s) h0 s in let s_ := if fast s then swap_vertex_indices h0 h s else s in let s' := delete_vertex_core h0 s in
  vdel s' = remove_nth h (vdel s_) /\ pv s' = map (pdelete h) (pv s_) /\
  edel s' = edel s_ /\ fdel s' = fdel s_ /\ cdel s' = cdel s_ /\
  pe s' = pe s_ /\ phe s' = phe s_ /\ pf s' = pf s_ /\ phf s' = phf s_ /\ pc s' = pc s_ /\ pm s' = pm s_.
Proof.
  intros D. unfold victim. rewrite D. cbn [negb]. rewrite andb_true_r. cbv zeta.
  unfold delete_vertex_core. rewrite D. cbn [negb]. rewrite andb_true_r.
  set (h := if fast s then nv s - 1 else h0). set (s_ := if fast s then swap_vertex_indices h0 h s else s).
  assert (Ds : deferred s_ = false).
  { unfold s_. destruct (fast s); [|exact D]. destruct (Nat.eq_dec h0 h) as [->|N]; [rewrite swap_vertex_self; exact D|].
    pose proof (swap_vertex_effect h0 h s N) as E. cbv zeta in E. destruct E as (_&_&_&_&_&_&_&_&_&_&_&_&_&_&_&_&_&(_&_&_&f4&_)&_). congruence. }
  clearbody s_ h. rewrite Ds.
  repeat match goal with |- context [if ?b then _ else _] => destruct b eqn:? end; rsx; repeat split; congruence.
Qed.
