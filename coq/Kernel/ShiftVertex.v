(* Kernel/ShiftVertex.v -- C02 / C01, IMMEDIATE NON-FAST mode: delete_vertex_core h is exactly "drop vertex h and decrement every
   vertex handle above it":
     - edges s' = map (cor1p h) (edges s): for the scan variant unconditionally; for the cache-guided variant - the loop
       "for i in [h, nv): for every outgoing halfedge of i: endpoints equal to i become i-1" - under vbu_ok, endpoints in range and
       no edge at vertex h (without the last hypothesis the two variants DIFFER: delete_vertex_core_variants_differ);
     - out_hes after the step is the old one without slot h; vbu_ok, ebu_ok, fbu_ok, refs_ok, lens_ok, no_flags are preserved. *)
From Coq Require Import ZArith Lia Bool Arith List ZifyNat ZifyBool Permutation.
From OVM Require Import Base.ListX Base.ListLemmas Base.ListLemmas2 Kernel.State Kernel.Ops Kernel.Mirror Kernel.Construct
                        Kernel.Recompute Kernel.Closure Kernel.ExactInv Kernel.ExactDelete Kernel.DeleteEffects Kernel.DeleteDefs
                        Kernel2.LookupModel Kernel2.ListAux Kernel2.AdjacentProofs Kernel2.ReorderExact Kernel2.ExactBase Kernel.ShiftFace.
Import ListNotations.
Ltac Zify.zify_post_hook ::= Z.div_mod_to_equations.
Local Open Scope nat_scope.

(* ================================================================== the view *)

Definition cor1p (h : nat) (p : nat * nat) : nat * nat := (cor1 h (fst p), cor1 h (snd p)).
(* one step of the cache-guided loop: endpoints equal to i become i-1 *)
Definition dec_at (i : nat) (p : nat * nat) : nat * nat :=
  ((if fst p =? i then i - 1 else fst p), (if snd p =? i then i - 1 else snd p)).

Definition vloop (h : nat) (s : mesh) : list (nat * nat) :=
  fold_left (fun es i => fold_left (fun es he => upd (he / 2) (dec_at i (nth (he / 2) es (0, 0))) es) (out_at s i) es)
            (seq h (nv s - h)) (edges s).
Definition vscan (h : nat) (s : mesh) : list (nat * nat) :=
  fold_left (fun es e => upd e (cor1p h (nth e es (0, 0))) es) (live_edges s) (edges s).

Lemma delete_vertex_core_view h s : deferred s = false -> fast s = false -> let s' := delete_vertex_core h s in
  nv s' = nv s - 1 /\ edges s' = (if vbu s then vloop h s else vscan h s) /\ faces s' = faces s /\ cells s' = cells s /\
  vdel s' = remove_nth h (vdel s) /\ edel s' = edel s /\ fdel s' = fdel s /\ cdel s' = cdel s /\
  out_hes s' = (if vbu s then remove_nth h (out_hes s) else out_hes s) /\
  inc_hfs s' = inc_hfs s /\ inc_cell s' = inc_cell s /\
  (vbu s' = vbu s /\ ebu s' = ebu s /\ fbu s' = fbu s /\ deferred s' = false /\ fast s' = false).
Proof.
  intros D F. cbv zeta. unfold delete_vertex_core. rewrite F. cbn [andb]. rewrite D.
  destruct (vbu s) eqn:Vb; rsh; rewrite ?Vb; rsh.
  - repeat split; auto. unfold vloop. apply fold_left_ext. intros es i. apply fold_left_ext. intros es' he.
    unfold dec_at. destruct (nth (he / 2) es' (0, 0)) as [x y]. reflexivity.
  - repeat split; auto. unfold vscan. apply fold_left_ext. intros es e. unfold cor1p. destruct (nth e es (0, 0)) as [x y]. reflexivity.
Qed.

(* ================================================================== (Vc) the referring definitions *)

(* no edge has an endpoint h *)
Definition vertex_free (s : mesh) (h : nat) : Prop := forall e, e < ne s -> fst (edge_at s e) <> h /\ snd (edge_at s e) <> h.
Definition edges_in_range (s : mesh) : Prop := forall e, e < ne s -> fst (edge_at s e) < nv s /\ snd (edge_at s e) < nv s.

(* scan variant: unconditional *)
Lemma vscan_is_map h s : no_flags s -> vscan h s = map (cor1p h) (edges s).
Proof.
  intros NF. unfold vscan. apply fold_upd_is_map; [apply NoDup_live_edges|].
  intros k Hk Nin. exfalso. apply Nin. rewrite (live_edges_all s NF). apply in_seq. unfold ne. lia.
Qed.

(* the state of the cache-guided loop after the vertices below i: handles strictly between h and i are decremented *)
Definition gdec (h i x : nat) : nat := if (h <? x) && (x <? i) then x - 1 else x.
Definition gdecp (h i : nat) (p : nat * nat) : nat * nat := (gdec h i (fst p), gdec h i (snd p)).

Lemma dec_at_idem i p : dec_at i (dec_at i p) = dec_at i p.
Proof.
  unfold dec_at. cbn [fst snd]. destruct p as [x y]. cbn [fst snd].
  destruct (Nat.eqb_spec x i); destruct (Nat.eqb_spec y i); repeat match goal with |- context [?a =? ?b] => destruct (Nat.eqb_spec a b) end; f_equal; lia.
Qed.

Lemma gdec_step h i z : h <= i -> (z = i -> h < i \/ i = 0) -> (if gdec h i z =? i then i - 1 else gdec h i z) = gdec h (S i) z.
Proof.
  intros Hi Hz. unfold gdec.
  destruct (Nat.ltb_spec h z); destruct (Nat.ltb_spec z i); destruct (Nat.ltb_spec z (S i)); cbn [andb];
    match goal with |- context [?a =? ?b] => destruct (Nat.eqb_spec a b) end; lia.
Qed.
Lemma gdec_same h i z : z <> i -> gdec h (S i) z = gdec h i z.
Proof. intros Hz. unfold gdec. destruct (Nat.ltb_spec h z); destruct (Nat.ltb_spec z i); destruct (Nat.ltb_spec z (S i)); cbn [andb]; lia. Qed.

Lemma nth_map_fix {A} (f : A -> A) d l e : f d = d -> nth e (map f l) d = f (nth e l d).
Proof. intros H. rewrite <- H at 1. apply map_nth. Qed.

Lemma vloop_prefix h s : no_flags s -> vbu s = true -> vbu_ok s -> vertex_free s h -> forall n, n <= nv s - h ->
  fold_left (fun es i => fold_left (fun es he => upd (he / 2) (dec_at i (nth (he / 2) es (0, 0))) es) (out_at s i) es)
            (seq h n) (edges s) = map (gdecp h (h + n)) (edges s).
Proof.
  intros NF Vb VO VF. induction n as [|n IH]; intros Hn.
  - cbn [seq fold_left]. symmetry. apply map_id_on. intros [x y] _. unfold gdecp, gdec. cbn [fst snd].
    destruct (Nat.ltb_spec h x); destruct (Nat.ltb_spec x (h + 0)); destruct (Nat.ltb_spec h y); destruct (Nat.ltb_spec y (h + 0)); cbn [andb]; f_equal; lia.
  - rewrite seq_S, fold_left_app, IH by lia. cbn [fold_left]. set (i := h + n). replace (h + S n) with (S i) by lia.
    assert (Hi : i < nv s) by lia.
    apply (list_ext_nth _ _ (0, 0)); [rewrite fold_upd_key_length, !map_length; reflexivity|].
    intros e He. rewrite fold_upd_key_length, map_length in He.
    rewrite (fold_upd_idem (dec_at i) (0, 0) (fun he => he / 2) (dec_at_idem i)).
    rewrite map_length. replace (e <? length (edges s)) with true by (symmetry; apply Nat.ltb_lt; exact He). rewrite andb_true_r.
    rewrite !(nth_map_fix _ (0, 0)) by reflexivity.
    fold (edge_at s e). destruct (VF e He) as [F1 F2]. destruct (edge_at s e) as [x0 y0] eqn:Ee. cbn [fst snd] in F1, F2.
    destruct (memb e (map (fun he => he / 2) (out_at s i))) eqn:M.
    + apply memb_In in M. apply in_map_iff in M. destruct M as [he [Ehe Hhe]].
      apply (VO Vb i Hi he) in Hhe. destruct Hhe as (_ & _ & Hfrom). rewrite he_from_cases, Ehe, Ee in Hfrom. cbn [fst snd] in Hfrom.
      assert (Hih : h < i) by (destruct (he mod 2 =? 0); subst i; lia).
      unfold dec_at, gdecp. cbn [fst snd]. f_equal; apply gdec_step; lia.
    + assert (x0 <> i /\ y0 <> i) as [N1 N2].
      { split; intros ->; apply not_true_iff_false in M; apply M; apply memb_In; apply in_map_iff.
        - exists (2 * e). split; [lia|]. apply (VO Vb i Hi). replace (2 * e / 2) with e by lia. split; [exact He|]. split; [apply NF|].
          rewrite he_from_even, Ee. reflexivity.
        - exists (2 * e + 1). split; [lia|]. apply (VO Vb i Hi). replace ((2 * e + 1) / 2) with e by lia. split; [exact He|]. split; [apply NF|].
          rewrite he_from_odd, Ee. reflexivity. }
      unfold gdecp. cbn [fst snd]. rewrite !gdec_same by assumption. reflexivity.
Qed.

Lemma vloop_is_map h s : no_flags s -> vbu s = true -> vbu_ok s -> edges_in_range s -> vertex_free s h ->
  vloop h s = map (cor1p h) (edges s).
Proof.
  intros NF Vb VO ER VF. unfold vloop. rewrite (vloop_prefix h s NF Vb VO VF (nv s - h) (le_n _)).
  apply map_ext_in. intros p Hp. destruct (In_nth _ _ (0, 0) Hp) as [e [He E]]. destruct (ER e He) as [R1 R2].
  unfold edge_at in R1, R2. rewrite E in R1, R2. unfold gdecp, cor1p, gdec, cor1. destruct p as [x y]. cbn [fst snd] in *.
  f_equal; [destruct (Nat.ltb_spec h x); destruct (Nat.ltb_spec x (h + (nv s - h)))|destruct (Nat.ltb_spec h y); destruct (Nat.ltb_spec y (h + (nv s - h)))]; cbn [andb]; lia.
Qed.

Theorem delete_vertex_core_edges h s : deferred s = false -> fast s = false -> no_flags s ->
  (vbu s = true -> vbu_ok s /\ edges_in_range s /\ vertex_free s h) ->
  edges (delete_vertex_core h s) = map (cor1p h) (edges s).
Proof.
  intros D F NF HC. pose proof (delete_vertex_core_view h s D F) as V. cbv zeta in V. destruct V as (_ & -> & _).
  destruct (vbu s) eqn:Vb; [|apply vscan_is_map; exact NF].
  destruct (HC eq_refl) as (VO & ER & VF). apply vloop_is_map; assumption.
Qed.

Corollary delete_vertex_core_edges_cache_is_scan h s t : deferred s = false -> fast s = false -> no_flags s ->
  deferred t = false -> fast t = false -> no_flags t -> edges t = edges s ->
  vbu s = true -> vbu_ok s -> edges_in_range s -> vertex_free s h -> vbu t = false ->
  edges (delete_vertex_core h s) = edges (delete_vertex_core h t).
Proof.
  intros D F NF D' F' NF' E Vb VO ER VF Vb'. rewrite (delete_vertex_core_edges h s D F NF) by (intros _; auto).
  rewrite (delete_vertex_core_edges h t D' F' NF') by (intros X; congruence). rewrite E. reflexivity.
Qed.

(* the hypothesis vertex_free is necessary for the agreement: called directly (not through delete_vertex, which deletes the
   incident edges first) on a vertex that still has an edge, the cache-guided loop drags the endpoint h down to h-1 while
   the scan leaves it.  Not reachable through the public API. *)
Lemma delete_vertex_core_variants_differ :
  let s := run [EnableDeferred false; EnableFast false; AddVertices 2; AddEdge 0 1 false] in
  let t := run [EnableDeferred false; EnableFast false; EnableVBU false; AddVertices 2; AddEdge 0 1 false] in
  edges s = edges t /\ edges (delete_vertex_core 1 s) = [(0, 0)] /\ edges (delete_vertex_core 1 t) = [(0, 1)].
Proof. vm_compute. repeat split. Qed.

(* ================================================================== (Vc) the caches after the step; exactness is preserved *)

Lemma cor1_eq_iff h z v : z <> h -> (cor1 h z = v <-> z = unshift1 h v).
Proof. intros H. split; [intros <-; symmetry; apply unshift1_cor1; exact H|intros ->; apply cor1_unshift1]. Qed.

Theorem shift_inv_delete_vertex_core h s : deferred s = false -> fast s = false -> shift_inv s -> h < nv s -> vertex_free s h ->
  shift_inv (delete_vertex_core h s).
Proof.
  intros D F (NF & VO & EO & FO & (R1 & R2 & R3) & (L1 & L2 & L3 & L4 & L5 & L6)) Hh VF.
  assert (ER : edges_in_range s) by (intros e He; apply (R1 e He); apply NF).
  pose proof (delete_vertex_core_edges h s D F NF (fun _ => conj VO (conj ER VF))) as Ed.
  pose proof (no_flags_delete_vertex_core h s D F NF) as NF'.
  pose proof (delete_vertex_core_view h s D F) as V. cbv zeta in V. set (s' := delete_vertex_core h s) in *.
  destruct V as (w1 & _ & w3 & w4 & w5 & w6 & w7 & w8 & w9 & w10 & w11 & (m1 & m2 & m3 & m4 & m5)).
  assert (NE : ne s' = ne s) by (unfold ne; rewrite Ed, map_length; reflexivity).
  assert (NF_ : nf s' = nf s) by (unfold nf; rewrite w3; reflexivity).
  assert (NC : nc s' = nc s) by (unfold nc; rewrite w4; reflexivity).
  assert (EA : forall e, edge_at s' e = cor1p h (edge_at s e)).
  { intros e. unfold edge_at. rewrite Ed. apply nth_map_fix. reflexivity. }
  assert (HF : forall x, he_from s' x = cor1 h (he_from s x)).
  { intros x. rewrite !he_from_cases, EA. unfold cor1p. cbn [fst snd]. destruct (x mod 2 =? 0); reflexivity. }
  split; [exact NF'|]. split; [|split; [|split; [|split; [split; [|split]|unfold lens_ok; split; [|split; [|split; [|split; [|split]]]]]]]].
  - (* vbu_ok *)
    intros V v Hv x. rewrite m1 in V. rewrite w1 in Hv. unfold out_at. rewrite w9, V, nth_remove_nth_unshift. fold (out_at s (unshift1 h v)).
    assert (Hu : unshift1 h v < nv s) by (apply unshift1_lt; assumption).
    rewrite (VO V _ Hu x), NE, HF. destruct NF as (_ & B & _). destruct NF' as (_ & B' & _). rewrite B, B'.
    split; intros (a & b & c); (split; [exact a|split; [reflexivity|]]).
    + rewrite c. apply cor1_unshift1.
    + apply cor1_eq_iff; [|exact c]. rewrite he_from_cases. destruct (VF _ a) as [F1 F2]. destruct (x mod 2 =? 0); assumption.
  - (* ebu_ok *)
    intros E k Hk x. rewrite m2 in E. rewrite NE in Hk. unfold hfs_at, halfface, face_at, f_deleted. rewrite w10, NF_, w7, w3. exact (EO E k Hk x).
  - (* fbu_ok *)
    intros Fb hf Hhf c. rewrite m3 in Fb. rewrite NF_ in Hhf. unfold cell_of, cell_at, c_deleted. rewrite w11, NC, w8, w4. exact (FO Fb hf Hhf c).
  - intros e He _. rewrite NE in He. rewrite EA, w1. destruct (ER e He) as [A B]. destruct (VF e He) as [F1 F2].
    unfold cor1p, cor1. cbn [fst snd]. ltb_cases; lia.
  - intros f Hf Hd x Hx. rewrite NF_ in Hf. unfold face_at in Hx. rewrite w3 in Hx. rewrite NE. apply (R2 f Hf); [apply NF|exact Hx].
  - intros c Hc Hd x Hx. rewrite NC in Hc. unfold cell_at in Hx. rewrite w4 in Hx. rewrite NF_. apply (R3 c Hc); [apply NF|exact Hx].
  - intros V. rewrite m1 in V. rewrite w9, V, w1, remove_nth_length by (rewrite (L1 V); exact Hh). rewrite (L1 V). reflexivity.
  - intros E. rewrite m2 in E. rewrite w10, NE. exact (L2 E).
  - intros Fb. rewrite m3 in Fb. rewrite w11, NF_. exact (L3 Fb).
  - rewrite w6, NE. exact L4.
  - rewrite w7, NF_. exact L5.
  - rewrite w8, NC. exact L6.
Qed.

(* ================================================================== the vertex core keeps the extended invariant *)

Theorem shift_inv2_delete_vertex_core h s : deferred s = false -> fast s = false -> shift_inv2 s -> h < nv s -> vertex_free s h ->
  shift_inv2 (delete_vertex_core h s).
Proof.
  intros D F [I X] Hh VF.
  assert (I' : shift_inv (delete_vertex_core h s)) by (apply shift_inv_delete_vertex_core; assumption).
  split; [exact I'|]. intros E' Fb'.
  pose proof I as ((NFv & NFe & NFf & NFc) & VO & EO & FO & (R1 & R2 & R3) & _).
  assert (ER : edges_in_range s) by (intros e He; apply (R1 e He); apply NFe).
  pose proof (delete_vertex_core_edges h s D F (conj NFv (conj NFe (conj NFf NFc))) (fun _ => conj VO (conj ER VF))) as Ed.
  pose proof (delete_vertex_core_view h s D F) as V. cbv zeta in V. set (s' := delete_vertex_core h s) in *.
  destruct V as (w1 & _ & w3 & w4 & w5 & w6 & w7 & w8 & w9 & w10 & w11 & (m1 & m2 & m3 & m4 & m5)).
  assert (E : ebu s = true) by congruence. assert (Fb : fbu s = true) by congruence.
  destruct (X E Fb) as (SN & LC & FS).
  assert (NE : ne s' = ne s) by (unfold ne; rewrite Ed, map_length; reflexivity).
  assert (NF_ : nf s' = nf s) by (unfold nf; rewrite w3; reflexivity).
  assert (NC : nc s' = nc s) by (unfold nc; rewrite w4; reflexivity).
  split; [|split].
  - intros k Hk. rewrite NE in Hk. unfold hfs_at. rewrite w10. exact (SN k Hk).
  - intros c Hc _. rewrite NC in Hc. pose proof (LC c Hc (NFc c)) as Cl.
    assert (CA : cell_at s' c = cell_at s c) by (unfold cell_at; rewrite w4; reflexivity).
    apply (closed_cell_rename s s' c c (fun x => x) (fun x => x)); [rewrite map_id; exact CA| | | | |exact Cl].
    + intros y Hy. unfold cell_of. rewrite w11. exact (proj1 (Cl y Hy)).
    + intros y z Hy Hz. split; reflexivity.
    + intros z Hz. rewrite map_id. unfold halfface, face_at. rewrite w3. reflexivity.
    + intros; reflexivity.
  - intros f Hf _. rewrite NF_ in Hf. unfold face_at. rewrite w3. exact (FS f Hf (NFf f)).
Qed.
