(* Kernel/PropLaws.v -- C03: what the three property-array notifications (resize, delete element, swap
   elements) do to the value stored at every slot; halfedge/halfface values stay on their side. *)
From Coq Require Import ZArith Lia Bool Arith List ZifyNat ZifyBool.
From OVM Require Import Base.ListX Base.ListLemmas Kernel.State Kernel.Ops Kernel.SwapEffects.
Import ListNotations.
Ltac Zify.zify_post_hook ::= Z.div_mod_to_equations.
Local Open Scope nat_scope.

Definition pval (p : parray) (k : nat) : Z := nth k (pdata p) (pdef p).

Lemma pval_pswap i j p k : i < length (pdata p) -> j < length (pdata p) ->
  pval (pswap i j p) k = pval p (swap_idx i j k).
Proof.
  intros Hi Hj. unfold pval, pswap, swap_idx. cbn [pdata pdef]. rewrite nth_swap_nth by assumption.
  destruct (Nat.eqb_spec k i); [reflexivity|]. destruct (Nat.eqb_spec k j); reflexivity.
Qed.

Lemma pval_pdelete i p k : pval (pdelete i p) k = pval p (if k <? i then k else S k).
Proof. unfold pval, pdelete. cbn [pdata pdef]. rewrite nth_remove_nth. destruct (k <? i); reflexivity. Qed.

Lemma pval_presize n p k : k < n -> pval (presize n p) k = if k <? length (pdata p) then pval p k else pdef p.
Proof. intros H. unfold pval, presize. cbn [pdata pdef]. apply nth_resize. exact H. Qed.

(* a deleted edge/face removes the two half-entity slots 2h+1 and 2h: every other half-entity keeps its value and its side *)
Lemma pval_pdelete_half h p k :
  pval (pdelete (2 * h) (pdelete (2 * h + 1) p)) k = pval p (if k <? 2 * h then k else k + 2).
Proof.
  rewrite !pval_pdelete. destruct (Nat.ltb_spec k (2 * h)).
  - replace (k <? 2 * h + 1) with true by (symmetry; apply Nat.ltb_lt; lia). reflexivity.
  - replace (S k <? 2 * h + 1) with false by (symmetry; apply Nat.ltb_ge; lia). f_equal. lia.
Qed.

(* swapping edges/faces a and b exchanges the half-entity slots pairwise, side by side *)
Lemma pval_half_swap a b p k n : length (pdata p) = 2 * n -> a < n -> b < n -> a <> b ->
  pval (pswap (2 * a + 1) (2 * b + 1) (pswap (2 * a) (2 * b) p)) k = pval p (swap_half a b k).
Proof.
  intros L Ha Hb N.
  rewrite pval_pswap by (rewrite pswap_length; lia). rewrite pval_pswap by lia.
  f_equal. unfold swap_idx, swap_half.
  destruct (Nat.eqb_spec k (2 * a + 1)); destruct (Nat.eqb_spec k (2 * b + 1));
  repeat match goal with |- context [?x =? ?y] => destruct (Nat.eqb_spec x y) end; lia.
Qed.

(* the relabeling of a half-handle keeps the side bit: halfedge/halfface values stay on the correct side *)
Lemma swap_half_side a b k : swap_half a b k mod 2 = k mod 2.
Proof. apply (proj2 (swap_half_spec a b k)). Qed.
