(* Kernel/SwapVertexCache.v -- C17 for vertices in EVERY mode: with vertex incidences on, swap_vertex_indices finds the edges to
   rewrite through outgoing_hes_per_vertex_ of a and b (with a processed set).  It computes exactly the relabeling precisely when
   every edge with an endpoint a or b is listed there (true of all live edges when the cache is exact; a deferred-deleted edge at
   a or b is the vertex instance of finding D13). *)
From Coq Require Import ZArith Lia Bool Arith List ZifyNat ZifyBool.
From OVM Require Import Base.ListX Base.ListLemmas Base.ListLemmas2 Base.FoldOnce Kernel.State Kernel.Ops Kernel.Mirror Kernel.Recompute
                        Kernel.SwapEffects Kernel.SwapInvol Kernel.Closure Kernel.ExactInv.
Import ListNotations.
Ltac Zify.zify_post_hook ::= Z.div_mod_to_equations.
Local Open Scope nat_scope.

Ltac rsv := cbn [set_nv set_edges set_faces set_cells set_vdel set_edel set_fdel set_cdel set_counts set_flags
                set_out_hes set_inc_hfs set_inc_cell set_props swap_prop_elems
                nv edges faces cells vdel edel fdel cdel ndv nde ndf ndc vbu ebu fbu deferred fast
                out_hes inc_hfs inc_cell pv pe phe pf phf pc pm props].

Definition he_key (h : nat) : option nat := Some (h / 2).

Lemma swap_vertex_edges_loop a b s : a <> b -> vbu s = true ->
  edges (swap_vertex_indices a b s) =
  fst (fold_left (once_step he_key (swap_ends a b) (0, 0)) (out_at s a ++ out_at s b) (edges s, [])).
Proof.
  intros N V. unfold swap_vertex_indices. rewrite (proj2 (Nat.eqb_neq a b) N), V. rsv. rewrite V. rsv.
  f_equal. apply fold_left_ext. intros [es done] x. unfold once_step, he_key, swap_ends. cbn [fst snd]. reflexivity.
Qed.

Lemma swap_vertex_out_hes_vbu a b s : a <> b -> vbu s = true ->
  out_hes (swap_vertex_indices a b s) = swap_nth a b [] (out_hes s).
Proof.
  intros N V. unfold swap_vertex_indices. rewrite (proj2 (Nat.eqb_neq a b) N), V. rsv. rewrite V. rsv. reflexivity.
Qed.

(* ---------------------------------------------------------------- the relabeling of an edge definition *)
Definition at_ab (a b : nat) (p : nat * nat) : Prop := fst p = a \/ fst p = b \/ snd p = a \/ snd p = b.

Lemma swap_idx_fix_iff a b x : a <> b -> (swap_idx a b x = x <-> x <> a /\ x <> b).
Proof. intros N. unfold swap_idx. destruct (Nat.eqb_spec x a); [lia|]. destruct (Nat.eqb_spec x b); lia. Qed.

Lemma swap_ends_fix_iff a b p : a <> b -> (swap_ends a b p = p <-> ~ at_ab a b p).
Proof.
  intros N. destruct p as [x y]. unfold swap_ends, at_ab. cbn [fst snd]. split.
  - intros H. injection H as H1 H2. apply swap_idx_fix_iff in H1; [|exact N]. apply swap_idx_fix_iff in H2; [|exact N]. lia.
  - intros H. f_equal; apply swap_idx_fix_iff; try exact N; lia.
Qed.

Lemma swap_idx_eq a b x : a <> b -> (swap_idx a b x = a <-> x = b) /\ (swap_idx a b x = b <-> x = a).
Proof. intros N. unfold swap_idx. destruct (Nat.eqb_spec x a); destruct (Nat.eqb_spec x b); lia. Qed.

Lemma at_ab_swap_ends a b p : a <> b -> (at_ab a b (swap_ends a b p) <-> at_ab a b p).
Proof.
  intros N. destruct p as [x y]. unfold at_ab, swap_ends. cbn [fst snd].
  destruct (swap_idx_eq a b x N). destruct (swap_idx_eq a b y N). tauto.
Qed.

(* ---------------------------------------------------------------- the exact condition *)
Definition edges_found (s : mesh) (a b : nat) : Prop :=
  forall e, e < ne s -> at_ab a b (edge_at s e) -> exists h, In h (out_at s a ++ out_at s b) /\ h / 2 = e.

(* H_V: no deferred-deleted edge has an endpoint a or b *)
Definition no_deleted_edge_at (s : mesh) (a b : nat) : Prop :=
  forall e, e < ne s -> e_deleted s e = true -> ~ at_ab a b (edge_at s e).

Lemma edges_found_of_exact s a b : vbu_ok s -> vbu s = true -> a < nv s -> b < nv s ->
  no_deleted_edge_at s a b -> edges_found s a b.
Proof.
  intros OK V Ha Hb HD e He AB. destruct (e_deleted s e) eqn:D; [exfalso; exact (HD e He D AB)|].
  assert (E0 : 2 * e / 2 = e) by lia. assert (E1 : (2 * e + 1) / 2 = e) by lia.
  destruct AB as [AB|[AB|[AB|AB]]].
  - exists (2 * e). split; [|exact E0]. apply in_app_iff. left. apply (OK V a Ha). rewrite E0, he_from_even. tauto.
  - exists (2 * e). split; [|exact E0]. apply in_app_iff. right. apply (OK V b Hb). rewrite E0, he_from_even. tauto.
  - exists (2 * e + 1). split; [|exact E1]. apply in_app_iff. left. apply (OK V a Ha). rewrite E1, he_from_odd. tauto.
  - exists (2 * e + 1). split; [|exact E1]. apply in_app_iff. right. apply (OK V b Hb). rewrite E1, he_from_odd. tauto.
Qed.

(* ---------------------------------------------------------------- (V) edges *)
Theorem swap_vertex_edges_relabeled_iff a b s : a <> b -> vbu s = true ->
  (edges (swap_vertex_indices a b s) = map (swap_ends a b) (edges s) <-> edges_found s a b).
Proof.
  intros N V. rewrite swap_vertex_edges_loop by assumption. split.
  - intros H e He AB. destruct (named he_key e (out_at s a ++ out_at s b)) eqn:Nm.
    + apply named_iff in Nm. destruct Nm as [h [Hh Eh]]. exists h. split; [exact Hh|]. unfold he_key in Eh. congruence.
    + exfalso. pose proof (fold_once_is_map_only_if _ _ _ _ _ H e He Nm) as Q.
      apply (swap_ends_fix_iff a b _ N) in Q. exact (Q AB).
  - intros EF. apply fold_once_is_map. intros e He Nm. apply (swap_ends_fix_iff a b _ N). intros AB.
    destruct (EF e He AB) as [h [Hh Eh]].
    apply (proj1 (named_false_iff _ _ _) Nm h Hh). unfold he_key. congruence.
Qed.

Theorem swap_vertex_edges_relabeled a b s : a <> b -> vbu s = true -> edges_found s a b ->
  edges (swap_vertex_indices a b s) = map (swap_ends a b) (edges s).
Proof. intros N V EF. apply swap_vertex_edges_relabeled_iff; assumption. Qed.

(* ---------------------------------------------------------------- (V) the whole state *)
Definition vertex_relabeled (a b : nat) (s : mesh) : mesh := {|
  nv := nv s; edges := map (swap_ends a b) (edges s); faces := faces s; cells := cells s;
  vdel := swap_nth a b false (vdel s); edel := edel s; fdel := fdel s; cdel := cdel s;
  ndv := ndv s; nde := nde s; ndf := ndf s; ndc := ndc s;
  vbu := vbu s; ebu := ebu s; fbu := fbu s; deferred := deferred s; fast := fast s;
  out_hes := if vbu s then swap_nth a b [] (out_hes s) else out_hes s;
  inc_hfs := inc_hfs s; inc_cell := inc_cell s;
  pv := map (pswap a b) (pv s); pe := pe s; phe := phe s; pf := pf s; phf := phf s; pc := pc s; pm := pm s |}.

Theorem swap_vertex_is_relabeling a b s : a <> b -> (vbu s = true -> edges_found s a b) ->
  swap_vertex_indices a b s = vertex_relabeled a b s.
Proof.
  intros N EF. pose proof (swap_vertex_effect a b s N) as E1. cbv zeta in E1.
  destruct E1 as (c1&c2&c3&c4&c5&c6&c7&c8&c9&c10&c11&c12&c13&c14&c15&c16&(n1&n2&n3&n4)&(f1&f2&f3&f4&f5)&ci).
  apply mesh_ext; unfold vertex_relabeled; rsv; try assumption.
  - destruct (vbu s) eqn:V; [apply swap_vertex_edges_relabeled; auto|apply ci; reflexivity].
  - destruct (vbu s) eqn:V; [apply swap_vertex_out_hes_vbu; auto|apply ci; reflexivity].
Qed.

Definition caches_off_v (s : mesh) : mesh := set_flags false (ebu s) (fbu s) (deferred s) (fast s) s.

Theorem swap_vertex_cache_guided_is_scan_plus_relabeled_caches a b s : a <> b -> (vbu s = true -> edges_found s a b) ->
  swap_vertex_indices a b s =
  set_flags (vbu s) (ebu s) (fbu s) (deferred s) (fast s)
    (set_out_hes (out_hes (vertex_relabeled a b s)) (swap_vertex_indices a b (caches_off_v s))).
Proof.
  intros N EF. rewrite (swap_vertex_is_relabeling a b s N EF).
  pose proof (swap_vertex_effect a b (caches_off_v s) N) as E1. cbv zeta in E1.
  destruct E1 as (c1&c2&c3&c4&c5&c6&c7&c8&c9&c10&c11&c12&c13&c14&c15&c16&(n1&n2&n3&n4)&(f1&f2&f3&f4&f5)&ci).
  destruct (ci eq_refl) as [ci1 ci2].
  apply mesh_ext; rsv; try reflexivity; symmetry; assumption.
Qed.

(* ---------------------------------------------------------------- the condition holds again after the swap *)
Lemma edge_at_vertex_relabeled a b s e : e < ne s -> edge_at (vertex_relabeled a b s) e = swap_ends a b (edge_at s e).
Proof.
  intros He. unfold edge_at, vertex_relabeled. rsv.
  rewrite (nth_indep _ (0, 0) (swap_ends a b (0, 0))) by (rewrite map_length; exact He). apply map_nth.
Qed.

Lemma out_at_vertex_relabeled a b s v : vbu s = true -> a < length (out_hes s) -> b < length (out_hes s) ->
  out_at (vertex_relabeled a b s) v = out_at s (swap_idx a b v).
Proof.
  intros V Ha Hb. unfold out_at, vertex_relabeled. rsv. rewrite V. rewrite nth_swap_nth by assumption. unfold swap_idx.
  destruct (Nat.eqb_spec v a); [reflexivity|]. destruct (Nat.eqb_spec v b); reflexivity.
Qed.

Lemma edges_found_preserved a b s : a <> b -> vbu s = true -> a < length (out_hes s) -> b < length (out_hes s) ->
  edges_found s a b -> edges_found (vertex_relabeled a b s) a b.
Proof.
  intros N V Ha Hb EF e He AB.
  assert (He0 : e < ne s) by (revert He; unfold ne, vertex_relabeled; rsv; rewrite map_length; tauto).
  rewrite edge_at_vertex_relabeled in AB by exact He0. apply (proj1 (at_ab_swap_ends a b _ N)) in AB.
  destruct (EF e He0 AB) as [h [Hh Eh]]. exists h. split; [|exact Eh].
  rewrite !out_at_vertex_relabeled by assumption. unfold swap_idx. rewrite !Nat.eqb_refl.
  destruct (Nat.eqb_spec b a); [congruence|]. rewrite in_app_iff in *. tauto.
Qed.

Lemma no_deleted_edge_at_preserved a b s : a <> b -> no_deleted_edge_at s a b -> no_deleted_edge_at (vertex_relabeled a b s) a b.
Proof.
  intros N HD e He D AB.
  assert (He0 : e < ne s) by (revert He; unfold ne, vertex_relabeled; rsv; rewrite map_length; tauto).
  rewrite edge_at_vertex_relabeled in AB by exact He0. apply (proj1 (at_ab_swap_ends a b _ N)) in AB. exact (HD e He0 D AB).
Qed.

Lemma vertex_relabeled_involutive a b s : sized s -> a <> b -> a < nv s -> b < nv s ->
  (vbu s = true -> length (out_hes s) = nv s) ->
  vertex_relabeled a b (vertex_relabeled a b s) = s.
Proof.
  intros (Lv & Le & Lf & Lc & Lp) N Ha Hb L.
  apply mesh_ext; unfold vertex_relabeled; rsv; try reflexivity.
  - apply map_map_involutive. intros [x y]. unfold swap_ends. cbn [fst snd]. rewrite !swap_idx_involutive. reflexivity.
  - apply swap_nth_involutive; lia.
  - destruct (vbu s); [|reflexivity]. apply swap_nth_involutive; rewrite L by reflexivity; assumption.
  - apply (map_pswap_involutive a b (pv s) (nv s)); try assumption. intros p Hp. apply (Lp KV p Hp).
Qed.

(* ---------------------------------------------------------------- (V) involution in every mode *)
Theorem swap_vertex_involutive_every_mode a b s : sized s -> a < nv s -> b < nv s ->
  (vbu s = true -> edges_found s a b /\ length (out_hes s) = nv s) ->
  swap_vertex_indices a b (swap_vertex_indices a b s) = s.
Proof.
  intros Z Ha Hb HV. destruct (Nat.eq_dec a b) as [->|N]; [rewrite !swap_vertex_self; reflexivity|].
  rewrite (swap_vertex_is_relabeling a b s N) by (intros; apply HV; assumption).
  rewrite (swap_vertex_is_relabeling a b (vertex_relabeled a b s) N).
  - apply vertex_relabeled_involutive; try assumption. intros V. apply HV. exact V.
  - intros V. change (vbu s = true) in V. destruct (HV V) as [EF L]. apply edges_found_preserved; try assumption; lia.
Qed.

(* ---------------------------------------------------------------- in terms of the exactness invariant of C01 *)
Theorem swap_vertex_exact_relabeling a b s : a <> b -> a < nv s -> b < nv s ->
  vbu_ok s -> no_deleted_edge_at s a b ->
  swap_vertex_indices a b s = vertex_relabeled a b s.
Proof.
  intros N Ha Hb VO HD. apply swap_vertex_is_relabeling; [exact N|]. intros V. apply edges_found_of_exact; assumption.
Qed.

Theorem swap_vertex_exact_involutive a b s : sized s -> a < nv s -> b < nv s ->
  vbu_ok s -> lens_ok s -> no_deleted_edge_at s a b ->
  swap_vertex_indices a b (swap_vertex_indices a b s) = s.
Proof.
  intros Z Ha Hb VO (L1 & _) HD. destruct (Nat.eq_dec a b) as [->|N]; [rewrite !swap_vertex_self; reflexivity|].
  apply swap_vertex_involutive_every_mode; try assumption.
  intros V. split; [apply edges_found_of_exact; assumption|exact (L1 V)].
Qed.

(* ---------------------------------------------------------------- executable form of the condition (for examples by computation) *)
Definition at_abb (a b : nat) (p : nat * nat) : bool := (fst p =? a) || (fst p =? b) || (snd p =? a) || (snd p =? b).

Lemma at_abb_spec a b p : at_abb a b p = true <-> at_ab a b p.
Proof. unfold at_abb, at_ab. rewrite !orb_true_iff, !Nat.eqb_eq. tauto. Qed.

Definition edges_foundb (s : mesh) (a b : nat) : bool :=
  forallb (fun e => negb (at_abb a b (edge_at s e)) || existsb (fun h => h / 2 =? e) (out_at s a ++ out_at s b)) (seq 0 (ne s)).

Lemma edges_foundb_sound s a b : edges_foundb s a b = true -> edges_found s a b.
Proof.
  unfold edges_foundb. rewrite forallb_forall. intros H e He AB.
  specialize (H e ltac:(apply in_seq; lia)). apply orb_true_iff in H. destruct H as [H|H].
  - exfalso. apply negb_true_iff in H. apply at_abb_spec in AB. congruence.
  - apply existsb_exists in H. destruct H as [h [Hh Eh]]. exists h. split; [exact Hh|apply Nat.eqb_eq; exact Eh].
Qed.

Definition no_deleted_edge_atb (s : mesh) (a b : nat) : bool :=
  forallb (fun e => negb (e_deleted s e) || negb (at_abb a b (edge_at s e))) (seq 0 (ne s)).

Lemma no_deleted_edge_atb_sound s a b : no_deleted_edge_atb s a b = true -> no_deleted_edge_at s a b.
Proof.
  unfold no_deleted_edge_atb. rewrite forallb_forall. intros H e He D AB.
  specialize (H e ltac:(apply in_seq; lia)). rewrite D in H. cbn [negb orb] in H. apply negb_true_iff in H.
  apply at_abb_spec in AB. congruence.
Qed.

(* ---------------------------------------------------------------- summaries exported by Props/Properties_C17.v *)
Theorem swap_vertex_exact_summary a b s : a <> b -> a < nv s -> b < nv s ->
  vbu_ok s -> no_deleted_edge_at s a b ->
  let s' := swap_vertex_indices a b s in
  edges s' = map (swap_ends a b) (edges s) /\
  (vbu s = true -> out_hes s' = swap_nth a b [] (out_hes s)) /\
  s' = vertex_relabeled a b s /\
  s' = set_flags (vbu s) (ebu s) (fbu s) (deferred s) (fast s)
         (set_out_hes (out_hes (vertex_relabeled a b s)) (swap_vertex_indices a b (caches_off_v s))).
Proof.
  intros N Ha Hb VO HD. cbv zeta.
  pose proof (swap_vertex_exact_relabeling a b s N Ha Hb VO HD) as R.
  assert (EF : vbu s = true -> edges_found s a b) by (intros V; apply edges_found_of_exact; assumption).
  split; [rewrite R; reflexivity|]. split; [intros V; apply swap_vertex_out_hes_vbu; assumption|]. split; [exact R|].
  apply swap_vertex_cache_guided_is_scan_plus_relabeled_caches; assumption.
Qed.

Theorem swap_vertex_exactly_when a b s : a <> b -> vbu s = true ->
  (edges (swap_vertex_indices a b s) = map (swap_ends a b) (edges s) <-> edges_found s a b).
Proof. exact (swap_vertex_edges_relabeled_iff a b s). Qed.

(* ---------------------------------------------------------------- the exactness invariant of C01 survives the relabeling *)
Lemma swap_idx_lt_v a b n x : a < n -> b < n -> (swap_idx a b x < n <-> x < n).
Proof. intros Ha Hb. unfold swap_idx. destruct (Nat.eqb_spec x a); [lia|]. destruct (Nat.eqb_spec x b); lia. Qed.

Lemma he_from_vertex_relabeled a b s h : h / 2 < ne s -> he_from (vertex_relabeled a b s) h = swap_idx a b (he_from s h).
Proof.
  intros Hh. unfold he_from. rewrite edge_at_vertex_relabeled by exact Hh. destruct (edge_at s (h / 2)) as [x y].
  unfold swap_ends. cbn [fst snd]. destruct (Nat.even h); reflexivity.
Qed.

Theorem bu_inv_vertex_relabeled a b s : a <> b -> a < nv s -> b < nv s -> bu_inv s -> bu_inv (vertex_relabeled a b s).
Proof.
  intros N Ha Hb (VO & EO & FO & (R1 & R2 & R3) & (L1 & L2 & L3 & L4 & L5 & L6)).
  assert (NE : ne (vertex_relabeled a b s) = ne s) by (unfold ne, vertex_relabeled; rsv; apply map_length).
  split; [|split; [|split; [exact FO|split; [split; [|split; [|exact R3]]|]]]].
  - (* vbu_ok *)
    intros V v Hv h. change (vbu s = true) in V. change (v < nv s) in Hv. specialize (L1 V).
    rewrite out_at_vertex_relabeled by (try assumption; lia).
    rewrite (VO V (swap_idx a b v) (proj2 (swap_idx_lt_v a b (nv s) v Ha Hb) Hv) h), NE.
    change (e_deleted (vertex_relabeled a b s) (h / 2)) with (e_deleted s (h / 2)).
    split; intros (A & B & C); (split; [exact A|split; [exact B|]]).
    + rewrite he_from_vertex_relabeled by exact A. rewrite C. apply swap_idx_involutive.
    + rewrite he_from_vertex_relabeled in C by exact A. rewrite <- C. symmetry. apply swap_idx_involutive.
  - (* ebu_ok *)
    intros E h Hh x. rewrite NE in Hh. exact (EO E h Hh x).
  - (* refs_ok, edges *)
    intros e He D. rewrite NE in He. change (e_deleted s e = false) in D. rewrite edge_at_vertex_relabeled by exact He.
    destruct (R1 e He D) as [A B]. unfold swap_ends. cbn [fst snd]. change (nv (vertex_relabeled a b s)) with (nv s).
    split; apply (swap_idx_lt_v a b (nv s) _ Ha Hb); assumption.
  - (* refs_ok, faces *)
    intros f Hf D h Hin. rewrite NE. exact (R2 f Hf D h Hin).
  - (* lens_ok *)
    unfold lens_ok. rewrite NE. unfold vertex_relabeled. rsv. split; [|split; [exact L2|split; [exact L3|split; [exact L4|split; [exact L5|exact L6]]]]].
    intros V. rewrite V, swap_nth_length. exact (L1 V).
Qed.

(* so: a vertex swap keeps the caches exact, provided no deferred-deleted edge ends at a or b *)
Theorem bu_inv_swap_vertex a b s : a < nv s -> b < nv s -> bu_inv s -> no_deleted_edge_at s a b -> bu_inv (swap_vertex_indices a b s).
Proof.
  intros Ha Hb B HD. destruct (Nat.eq_dec a b) as [->|N]; [rewrite swap_vertex_self; exact B|].
  pose proof B as (VO & EO & FO & R & L).
  rewrite (swap_vertex_exact_relabeling a b s N Ha Hb VO HD). apply bu_inv_vertex_relabeled; assumption.
Qed.
