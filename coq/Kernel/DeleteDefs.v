(* Kernel/DeleteDefs.v -- C02, immediate modes: what each delete_*_core does to the DEFINITION arrays: its own array loses exactly
   the victim slot (after the optional swap-with-last of fast mode), and no definition of a lower-dimensional kind changes. *)
From Coq Require Import ZArith Lia Bool Arith List ZifyNat ZifyBool.
From OVM Require Import Base.ListX Base.ListLemmas Kernel.State Kernel.Ops Kernel.Construct Kernel.SwapEffects Kernel.DeleteEffects.
Import ListNotations.
Local Open Scope nat_scope.

Definition dview (s : mesh) := (nv s, edges s, faces s, cells s, deferred s).

Lemma dview_reorder_edges es s : dview (reorder_edges es s) = dview s.
Proof.
  pose proof (reorder_edges_frame es s) as R. cbv zeta in R.
  destruct R as (A1&A2&A3&A4&_&_&_&_&_&_&_&_&(_&_&_&C4&_)). unfold dview. congruence.
Qed.
Lemma dview_reorder_one e s : dview (reorder_incident_halffaces e s) = dview s.
Proof. exact (dview_reorder_edges [e] s). Qed.
Lemma fold_dview {X} (f : mesh -> X -> mesh) : (forall s x, dview (f s x) = dview s) -> forall l s, dview (fold_left f l s) = dview s.
Proof. intros H l. induction l as [|x l IH]; intros s; [reflexivity|]. simpl. rewrite IH. apply H. Qed.

Theorem delete_cell_core_defs h0 s : deferred s = false ->
  let h := victim (nc s) h0 s in let s_ := if fast s then swap_cell_indices h0 h s else s in let s' := delete_cell_core h0 s in
  cells s' = remove_nth h (cells s_) /\ nv s' = nv s /\ edges s' = edges s /\ faces s' = faces s /\
  cells s_ = (if fast s then swap_nth h0 h [] (cells s) else cells s).
Proof.
  intros D. unfold victim. rewrite D. cbn [negb]. rewrite andb_true_r. cbv zeta.
  unfold delete_cell_core. rewrite D. cbn [negb]. rewrite andb_true_r.
  set (h := if fast s then nc s - 1 else h0). set (s_ := if fast s then swap_cell_indices h0 h s else s).
  assert (Ws : nv s_ = nv s /\ edges s_ = edges s /\ faces s_ = faces s /\ deferred s_ = false /\
               cells s_ = (if fast s then swap_nth h0 h [] (cells s) else cells s)).
  { unfold s_. destruct (fast s); [|repeat split; auto]. destruct (Nat.eq_dec h0 h) as [->|N]; [rewrite swap_cell_self, swap_nth_same; repeat split; auto|].
    pose proof (swap_cell_effect h0 h s N) as E. cbv zeta in E. destruct E as (c1&_&_&c4&c5&c6&_&_&_&_&_&_&_&_&_&_&_&_&(_&_&_&f4&_)&_).
    repeat split; congruence. }
  destruct Ws as (w1&w2&w3&w4&w5). rewrite <- w1, <- w2, <- w3. rewrite w5. rewrite <- w5. clearbody s_ h.
  match goal with |- context [if deferred ?x then _ else _] => set (s1 := x) end.
  assert (L1 : dview s1 = dview s_).
  { unfold s1. destruct (fbu s_); [|reflexivity].
    match goal with |- dview (if ?b then reorder_edges ?es ?t else ?t) = _ => destruct b; [rewrite dview_reorder_edges|]; reflexivity end. }
  unfold dview in L1. injection L1 as a1 a2 a3 a4 a5. rewrite a5, w4. clearbody s1.
  destruct (negb (fast s1) && fbu s1); cbn [cell_deleted delete_prop_elem set_props set_cdel set_cells set_inc_cell nv edges faces cells];
    repeat split; congruence.
Qed.

(* deleting a face never changes an edge or the vertex count; its own array loses the victim slot *)
Theorem delete_face_core_defs h0 s : deferred s = false ->
  let h := victim (nf s) h0 s in let s_ := if fast s then swap_face_indices h0 h s else s in let s' := delete_face_core h0 s in
  faces s' = remove_nth h (faces s_) /\ nv s' = nv s /\ edges s' = edges s /\
  faces s_ = (if fast s then swap_nth h0 h [] (faces s) else faces s).
Proof.
  intros D. unfold victim. rewrite D. cbn [negb]. rewrite andb_true_r. cbv zeta.
  unfold delete_face_core. rewrite D. cbn [negb]. rewrite andb_true_r.
  set (h := if fast s then nf s - 1 else h0). set (s_ := if fast s then swap_face_indices h0 h s else s).
  assert (Ws : nv s_ = nv s /\ edges s_ = edges s /\ deferred s_ = false /\
               faces s_ = (if fast s then swap_nth h0 h [] (faces s) else faces s)).
  { unfold s_. destruct (fast s); [|repeat split; auto]. destruct (Nat.eq_dec h0 h) as [->|N]; [rewrite swap_face_self, swap_nth_same; repeat split; auto|].
    pose proof (swap_face_effect h0 h s N) as E. cbv zeta in E. destruct E as (c1&_&_&_&c5&c6&_&_&_&_&_&_&_&_&_&_&(_&_&_&f4&_)&_).
    repeat split; congruence. }
  destruct Ws as (w1&w2&w4&w5). rewrite <- w1, <- w2. rewrite w5. rewrite <- w5. clearbody s_ h.
  match goal with |- context [if deferred ?x then _ else _] => set (s1 := x) end.
  assert (L1 : dview s1 = dview s_).
  { unfold s1. destruct (ebu s_); [|reflexivity]. apply fold_dview. intros t he.
    match goal with |- dview (if ?b then reorder_incident_halffaces ?e ?u else ?u) = _ => destruct b; [rewrite dview_reorder_one|]; reflexivity end. }
  unfold dview in L1. injection L1 as a1 a2 a3 a4 a5. rewrite a5, w4. clearbody s1.
  repeat match goal with |- context [if ?b then _ else _] => destruct b eqn:? end;
    cbn [face_deleted delete_prop_elem set_props set_fdel set_faces set_cells set_inc_cell set_inc_hfs nv edges faces cells];
    repeat split; congruence.
Qed.

Theorem delete_edge_core_defs h0 s : deferred s = false ->
  let h := victim (ne s) h0 s in let s_ := if fast s then swap_edge_indices h0 h s else s in let s' := delete_edge_core h0 s in
  edges s' = remove_nth h (edges s_) /\ nv s' = nv s /\ cells s' = cells s /\
  edges s_ = (if fast s then swap_nth h0 h (0, 0) (edges s) else edges s).
Proof.
  intros D. unfold victim. rewrite D. cbn [negb]. rewrite andb_true_r. cbv zeta.
  unfold delete_edge_core. rewrite D. cbn [negb]. rewrite andb_true_r.
  set (h := if fast s then ne s - 1 else h0). set (s_ := if fast s then swap_edge_indices h0 h s else s).
  assert (Ws : nv s_ = nv s /\ cells s_ = cells s /\ deferred s_ = false /\
               edges s_ = (if fast s then swap_nth h0 h (0, 0) (edges s) else edges s)).
  { unfold s_. destruct (fast s); [|repeat split; auto]. destruct (Nat.eq_dec h0 h) as [->|N]; [rewrite swap_edge_self, swap_nth_same; repeat split; auto|].
    pose proof (swap_edge_effect h0 h s N) as E. cbv zeta in E. destruct E as (c1&_&_&_&c5&c6&_&_&_&_&_&_&_&_&_&_&(_&_&_&f4&_)&_).
    repeat split; congruence. }
  destruct Ws as (w1&w2&w4&w5). rewrite <- w1, <- w2. rewrite w5. rewrite <- w5. clearbody s_ h.
  match goal with |- context [if deferred ?x then _ else _] => set (s1 := x) end.
  assert (L1 : dview s1 = dview s_) by (unfold s1; destruct (vbu s_); [|reflexivity]; destruct (edge_at s_ h); reflexivity).
  unfold dview in L1. injection L1 as a1 a2 a3 a4 a5. rewrite a5, w4. clearbody s1.
  repeat match goal with |- context [if ?b then _ else _] => destruct b eqn:? end;
    cbn [edge_deleted delete_prop_elem set_props set_edel set_edges set_faces set_out_hes set_inc_hfs nv edges faces cells];
    repeat split; congruence.
Qed.
